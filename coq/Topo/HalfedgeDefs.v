(* Executable Gallina port of Manifold::Impl::CreateHalfedges (src/impl.cpp, the
   vertCount < 2^18 sorting branch, serial pairing loop) and of
   CheckHalfedges / Impl::IsManifold (src/properties.cpp).  Model only, no proofs.
   Arrays are lists indexed by Z; any out-of-bounds access, exhausted fuel or a
   halfedge slot the C++ would leave uninitialised (resize_nofill) yields None. *)
From Coq Require Import ZArith List Bool Lia.
From MV Require Import Topo.CheckMeshDefs.
Import ListNotations.
Local Open Scope Z_scope.

Fixpoint get {A} (l : list A) (i : nat) : option A :=
  match l, i with
  | [], _ => None
  | x :: _, O => Some x
  | _ :: r, S k => get r k
  end.
Definition getZ {A} (l : list A) (i : Z) : option A := if i <? 0 then None else get l (Z.to_nat i).

Fixpoint set {A} (l : list A) (i : nat) (v : A) : option (list A) :=
  match l, i with
  | [], _ => None
  | _ :: r, O => Some (v :: r)
  | x :: r, S k => match set r k v with Some r' => Some (x :: r') | None => None end
  end.
Definition setZ {A} (l : list A) (i : Z) (v : A) : option (list A) := if i <? 0 then None else set l (Z.to_nat i) v.

Definition bind {A B} (o : option A) (f : A -> option B) : option B := match o with Some x => f x | None => None end.
Notation "'do' x <- o ;; k" := (bind o (fun x => k)) (at level 200, x pattern, o at level 100, k at level 200).

(* NextHalfedge (shared.h) *)
Definition next_he (e : Z) : Z := if e mod 3 =? 2 then e - 2 else e + 1.

(* PrepHalfedges: halfedge[3*tri+i] = {start, end}  (propVert is not modelled) *)
Definition prep (tris : list tri) : list (Z * Z) := dir_edges tris.

(* the 64-bit sort key: forward bit 63, min << 32, max *)
Definition edge_key (h : Z * Z) : Z :=
  let (v0, v1) := h in
  (if v0 <? v1 then 2 ^ 63 else 0) + Z.min v0 v1 * 2 ^ 32 + Z.max v0 v1.

(* std::stable_sort(ids, key[a] < key[b]) as stable insertion sort *)
Fixpoint ins_stable (key : Z -> Z) (x : Z) (l : list Z) : list Z :=
  match l with
  | [] => [x]
  | y :: r => if key x <=? key y then x :: y :: r else y :: ins_stable key x r
  end.
Definition stable_sort (key : Z -> Z) (l : list Z) : list Z := fold_right (ins_stable key) [] l.

Fixpoint iota (n : nat) (from : Z) : list Z :=
  match n with O => [] | S k => from :: iota k (from + 1) end.

Record st := mkSt { ids : list Z; removed : list bool }.

Section Pairing.
  Variable he : list (Z * Z).
  Variable numEdge : Z.

  Definition he_at (e : Z) : option (Z * Z) := getZ he e.
  Definition is_removed (s : st) (x : Z) : option bool := do e <- getZ (ids s) x ;; getZ (removed s) e.

  (* do { a -= dir; } while (inRange() && isRemoved(a)); *)
  Fixpoint walk_a (fuel : nat) (s : st) (dir i a : Z) : option Z :=
    match fuel with
    | O => None
    | S f =>
      let a := a - dir in
      let inr := if dir >? 0 then a >=? i + numEdge else a <=? i + numEdge in
      if inr then (do r <- is_removed s a ;; if r then walk_a f s dir i a else Some a) else Some a
    end.

  (* do { b -= dir; } while (isRemoved(b) && b != k); *)
  Fixpoint walk_b (fuel : nat) (s : st) (dir k b : Z) : option Z :=
    match fuel with
    | O => None
    | S f =>
      let b := b - dir in
      do r <- is_removed s b ;;
      if r && negb (b =? k) then walk_b f s dir k b else Some b
    end.

  Fixpoint shuffle (fuel : nat) (s : st) (dir i k a b : Z) : option st :=
    match fuel with
    | O => None
    | S f =>
      do a' <- walk_a fuel s dir i a ;;
      let inr := if dir >? 0 then a' >=? i + numEdge else a' <=? i + numEdge in
      if negb inr then Some s
      else
        do b' <- walk_b fuel s dir k b ;;
        do ida <- getZ (ids s) a' ;;
        do ids' <- setZ (ids s) b' ida ;;
        shuffle f (mkSt ids' (removed s)) dir i k a' b'
    end.

  (* the while(1) scan over candidate partners k *)
  Fixpoint scan (fuel : nat) (s : st) (i segmentEnd pair0 : Z) (h0 : Z * Z) (k : Z) : option st :=
    match fuel with
    | O => None
    | S f =>
      do pair1 <- getZ (ids s) k ;;
      do h1 <- he_at pair1 ;;
      if negb (fst h0 =? snd h1) || negb (snd h0 =? fst h1) then Some s
      else
        do r1 <- getZ (removed s) pair1 ;;
        do n0 <- he_at (next_he pair0) ;;
        do n1 <- he_at (next_he pair1) ;;
        if negb r1 && (snd n0 =? snd n1) then
          do rem1 <- setZ (removed s) pair0 true ;;
          do rem2 <- setZ rem1 pair1 true ;;
          let s1 := mkSt (ids s) rem2 in
          if negb (i + numEdge =? k) then
            let dir := if i + numEdge <? k then 1 else -1 in
            do s2 <- shuffle (S (Z.to_nat (2 * numEdge))) s1 dir i k k (k + dir) ;;
            do ids' <- setZ (ids s2) (i + numEdge) pair1 ;;
            Some (mkSt ids' (removed s2))
          else Some s1
        else
          let k' := k + 1 in
          if k' >=? segmentEnd + numEdge then Some s else scan f s i segmentEnd pair0 h0 k'
    end.

  (* body(i, consecutiveStart, segmentEnd) -> (state, new consecutiveStart) *)
  Definition body (s : st) (i consecutiveStart segmentEnd : Z) : option (st * Z) :=
    do pair0 <- getZ (ids s) i ;;
    do h0 <- he_at pair0 ;;
    do s' <- scan (S (Z.to_nat (2 * numEdge))) s i segmentEnd pair0 h0 (consecutiveStart + numEdge) ;;
    if i + 1 =? segmentEnd then Some (s', consecutiveStart)
    else
      do id1 <- getZ (ids s') (i + 1) ;;
      do h1 <- he_at id1 ;;
      if (fst h1 =? fst h0) && (snd h1 =? snd h0) then Some (s', consecutiveStart) else Some (s', i + 1).

  Fixpoint body_loop (n : nat) (s : st) (i cs segmentEnd : Z) : option st :=
    match n with
    | O => Some s
    | S m => do (s', cs') <- body s i cs segmentEnd ;; body_loop m s' (i + 1) cs' segmentEnd
    end.

  (* final scatter: slot -> Some (start, pair) ; None = never written (resize_nofill) *)
  Fixpoint assemble (n : nat) (s : st) (i : Z) (out : list (option (Z * Z))) : option (list (option (Z * Z))) :=
    match n with
    | O => Some out
    | S m =>
      do pair0 <- getZ (ids s) i ;;
      do pair1 <- getZ (ids s) (i + numEdge) ;;
      do r0 <- getZ (removed s) pair0 ;;
      do h0 <- he_at pair0 ;;
      do h1 <- he_at pair1 ;;
      let (v0, v1) := if r0 then ((-1, -1), (-1, -1)) else ((fst h0, pair1), (fst h1, pair0)) in
      do o1 <- setZ out pair0 (Some v0) ;;
      do o2 <- setZ o1 pair1 (Some v1) ;;
      assemble m s (i + 1) o2
    end.
End Pairing.

Fixpoint all_some {A} (l : list (option A)) : option (list A) :=
  match l with
  | [] => Some []
  | Some x :: r => match all_some r with Some r' => Some (x :: r') | None => None end
  | None :: _ => None
  end.

(* result: list of (start, paired) per halfedge, -1/-1 for removed *)
Definition create_halfedges (tris : list tri) : option (list (Z * Z)) :=
  let he := prep tris in
  let numHalfedge := Z.of_nat (length he) in
  let numEdge := numHalfedge / 2 in
  let key e := match getZ he e with Some h => edge_key h | None => 0 end in
  let ids0 := stable_sort key (iota (length he) 0) in
  let s0 := mkSt ids0 (repeat false (length he)) in
  do s1 <- body_loop he numEdge (Z.to_nat numEdge) s0 0 0 numEdge ;;
  do out <- assemble he numEdge (Z.to_nat numEdge) s1 0 (repeat None (length he)) ;;
  all_some out.

(* ------------------------------------------------------------ IsManifold *)
Definition h_start (h : list (Z * Z)) (e : Z) : option Z := do x <- getZ h e ;; Some (fst x).
Definition h_pair (h : list (Z * Z)) (e : Z) : option Z := do x <- getZ h e ;; Some (snd x).
Definition h_end (h : list (Z * Z)) (e : Z) : option Z := h_start h (next_he e).

Definition check_halfedge (h : list (Z * Z)) (e : Z) : option bool :=
  do start <- h_start h e ;;
  do end_ <- h_end h e ;;
  do pr <- h_pair h e ;;
  if (start =? -1) && (end_ =? -1) && (pr =? -1) then Some true
  else
    do s1 <- h_start h (next_he e) ;;
    do s2 <- h_start h (next_he (next_he e)) ;;
    if (s1 =? -1) || (s2 =? -1) then Some false
    else if pr =? -1 then Some false
    else
      do pp <- h_pair h pr ;;
      do ep <- h_end h pr ;;
      do sp <- h_start h pr ;;
      Some ((pp =? e) && negb (start =? end_) && (start =? ep) && (end_ =? sp)).

Fixpoint all_check (h : list (Z * Z)) (n : nat) (e : Z) : option bool :=
  match n with
  | O => Some true
  | S m => do b <- check_halfedge h e ;; if b then all_check h m (e + 1) else Some false
  end.

Definition is_manifold (h : list (Z * Z)) : option bool :=
  if (length h =? 0)%nat then Some true
  else if negb (Z.of_nat (length h) mod 3 =? 0) then Some false
  else all_check h (length h) 0.

(* ------------------------------------------------------------ specification side *)
Definition count_edge (es : list edge) (e : edge) : nat := count_occ edge_eq_dec es e.

(* every directed edge occurs as often as its reverse *)
Definition balanced (tris : list tri) : bool :=
  let es := dir_edges tris in
  forallb (fun e => Nat.eqb (count_edge es e) (count_edge es (swap_edge e))) es.

Definition nondegenerate (tris : list tri) : bool := forallb tri_nondegenerate tris.

(* HalfedgeInv on a result: live halfedges pair up as an involution joining
   opposite directed edges; triangles are live or dead as a whole *)
Definition live (h : list (Z * Z)) (e : Z) : bool :=
  match getZ h e with Some (s, _) => negb (s =? -1) | None => false end.

Definition inv_at (h : list (Z * Z)) (e : Z) : bool :=
  match getZ h e with
  | None => false
  | Some (s, p) =>
    if s =? -1 then (p =? -1) && negb (live h (next_he e)) && negb (live h (next_he (next_he e)))
    else
      live h (next_he e) && live h (next_he (next_he e)) &&
      match getZ h p, h_end h e, h_end h p with
      | Some (sp, pp), Some en, Some ep => negb (sp =? -1) && (pp =? e) && negb (p =? e) && (sp =? en) && (ep =? s)
      | _, _, _ => false
      end
  end.

Definition halfedge_inv (h : list (Z * Z)) : bool :=
  forallb (inv_at h) (iota (length h) 0).

(* live triangles of the result, as vertex triples *)
Fixpoint live_tris (h : list (Z * Z)) : list tri :=
  match h with
  | (a, _) :: (b, _) :: (c, _) :: r => if a =? -1 then live_tris r else (a, b, c) :: live_tris r
  | _ => []
  end.

(* the gate, one case: defined outcome; IsManifold iff balanced (non-degenerate
   inputs); when accepted, HalfedgeInv holds, the live triangles are a
   sub-list of the input and still balanced, and removed triangles come in
   opposed pairs (so the same number of each orientation is dropped). *)
Fixpoint is_sublist (a b : list tri) : bool :=
  match a, b with
  | [], _ => true
  | _, [] => false
  | x :: ra, y :: rb =>
    let '(x1, x2, x3) := x in let '(y1, y2, y3) := y in
    if (x1 =? y1) && (x2 =? y2) && (x3 =? y3) then is_sublist ra rb else is_sublist a rb
  end.

Definition gate_case (tris : list tri) : bool :=
  if Nat.even (length tris) then
    match create_halfedges tris with
    | None => false
    | Some h =>
      match is_manifold h with
      | None => false
      | Some m =>
        Bool.eqb m (balanced tris) &&
        (if m then halfedge_inv h && is_sublist (live_tris h) tris && balanced (live_tris h)
                   && Nat.even (length tris - length (live_tris h))
         else true)
      end
    end
  else
    (* odd number of halfedges: the last sorted id is never paired and its slot is
       left uninitialised by resize_nofill -> the model reports None *)
    match create_halfedges tris with None => true | Some _ => false end.
