(* Proofs about the C01 oracle: check_mesh nV tris = true <-> Closed2Manifold. *)
From Coq Require Import ZArith List Bool Lia Sorting.Mergesort Sorting.Sorted
  Sorting.Permutation Orders ZifyBool.
From MV Require Import Topo.CheckMeshDefs.
Import ListNotations.
Local Open Scope Z_scope.

(* ---------------------------------------------------------------- lists *)

Lemma list_eqb_eq : forall l1 l2, list_eqb l1 l2 = true <-> l1 = l2.
Proof.
  induction l1 as [|x r IH]; destruct l2 as [|y r2]; cbn [list_eqb]; split; intro H;
    try reflexivity; try discriminate.
  - apply andb_true_iff in H. destruct H as [Hxy Hr]. apply Z.eqb_eq in Hxy.
    apply IH in Hr. subst. reflexivity.
  - inversion H; subst. rewrite Z.eqb_refl. cbn. apply IH. reflexivity.
Qed.

Lemma strictly_increasing_cons : forall x l,
  strictly_increasing (x :: l) = true <->
  (strictly_increasing l = true /\ forall y, In y l -> x < y).
Proof.
  intros x l. revert x. induction l as [|y r IH]; intro x.
  - cbn. split; [intros _; split; [reflexivity|intros y []] | reflexivity].
  - change (strictly_increasing (x :: y :: r)) with ((x <? y) && strictly_increasing (y :: r)).
    rewrite andb_true_iff, Z.ltb_lt. split.
    + intros [Hxy Hr]. split; [exact Hr|]. intros z [Hz|Hz]; [subst; exact Hxy|].
      apply IH in Hr. destruct Hr as [_ Hr]. specialize (Hr z Hz). lia.
    + intros [Hr Hall]. split; [apply Hall; left; reflexivity | exact Hr].
Qed.

Lemma strictly_increasing_NoDup : forall l, strictly_increasing l = true -> NoDup l.
Proof.
  induction l as [|x r IH]; intro H; [constructor|].
  apply strictly_increasing_cons in H. destruct H as [Hr Hall].
  constructor; [|apply IH; exact Hr]. intro Hin. specialize (Hall x Hin). lia.
Qed.

(* two strictly increasing lists with the same elements are equal *)
Lemma strictly_increasing_unique : forall l1 l2,
  strictly_increasing l1 = true -> strictly_increasing l2 = true ->
  (forall x, In x l1 <-> In x l2) -> l1 = l2.
Proof.
  induction l1 as [|x r IH]; intros l2 H1 H2 Hsame.
  - destruct l2 as [|y r2]; [reflexivity|]. exfalso. apply (Hsame y). left; reflexivity.
  - destruct l2 as [|y r2]; [exfalso; apply (Hsame x); left; reflexivity|].
    apply strictly_increasing_cons in H1. destruct H1 as [H1r H1a].
    apply strictly_increasing_cons in H2. destruct H2 as [H2r H2a].
    assert (Hxy : x = y).
    { assert (Hx : In x (y :: r2)) by (apply Hsame; left; reflexivity).
      assert (Hy : In y (x :: r)) by (apply Hsame; left; reflexivity).
      destruct Hx as [Hx|Hx]; [symmetry; exact Hx|].
      destruct Hy as [Hy|Hy]; [exact Hy|].
      specialize (H1a y Hy). specialize (H2a x Hx). lia. }
    subst y. f_equal. apply IH; [exact H1r|exact H2r|].
    intro z. split; intro Hz.
    + assert (Hz' : In z (x :: r2)) by (apply Hsame; right; exact Hz).
      destruct Hz' as [Hz'|Hz']; [|exact Hz']. subst z. specialize (H1a x Hz). lia.
    + assert (Hz' : In z (x :: r)) by (apply Hsame; right; exact Hz).
      destruct Hz' as [Hz'|Hz']; [|exact Hz']. subst z. specialize (H2a x Hz). lia.
Qed.

Lemma sorted_leb_NoDup_strict : forall l,
  StronglySorted (fun x y => is_true (Z.leb x y)) l -> NoDup l -> strictly_increasing l = true.
Proof.
  induction l as [|x r IH]; intros Hs Hnd; [reflexivity|].
  inversion Hs as [|? ? Hsr Hall]; subst. inversion Hnd as [|? ? Hnin Hndr]; subst.
  apply strictly_increasing_cons. split; [apply IH; assumption|].
  intros y Hy. rewrite Forall_forall in Hall. specialize (Hall y Hy).
  unfold is_true in Hall. apply Z.leb_le in Hall.
  assert (x <> y) by (intro; subst; contradiction). lia.
Qed.

Lemma zleb_trans : Relations_1.Transitive (fun x y => is_true (Z.leb x y)).
Proof. intros x y z. unfold is_true. rewrite !Z.leb_le. lia. Qed.

Lemma sort_strongly_sorted : forall l,
  StronglySorted (fun x y => is_true (Z.leb x y)) (ZSort.sort l).
Proof. intro l. apply ZSort.StronglySorted_sort. exact zleb_trans. Qed.

Lemma sort_perm : forall l, Permutation l (ZSort.sort l).
Proof. exact ZSort.Permuted_sort. Qed.

Lemma sort_in : forall l x, In x (ZSort.sort l) <-> In x l.
Proof.
  intros l x. split; intro H.
  - eapply Permutation_in; [apply Permutation_sym; apply sort_perm|exact H].
  - eapply Permutation_in; [apply sort_perm|exact H].
Qed.

Lemma sort_strict_iff_NoDup : forall l,
  strictly_increasing (ZSort.sort l) = true <-> NoDup l.
Proof.
  intro l. split; intro H.
  - apply strictly_increasing_NoDup in H.
    eapply Permutation_NoDup; [apply Permutation_sym; apply sort_perm|exact H].
  - apply sorted_leb_NoDup_strict; [apply sort_strongly_sorted|].
    eapply Permutation_NoDup; [apply sort_perm|exact H].
Qed.

Lemma NoDup_map_inj_in : forall (A B : Type) (f : A -> B) (l : list A),
  (forall x y, In x l -> In y l -> f x = f y -> x = y) -> NoDup l -> NoDup (map f l).
Proof.
  intros A B f l. induction l as [|a r IH]; intros Hinj Hnd; [constructor|].
  inversion Hnd as [|? ? Hnin Hndr]; subst. cbn. constructor.
  - intro Hin. apply in_map_iff in Hin. destruct Hin as [y [Hfy Hy]].
    assert (y = a) by (apply Hinj; [right; exact Hy|left; reflexivity|exact Hfy]).
    subst. contradiction.
  - apply IH; [|exact Hndr]. intros x y Hx Hy. apply Hinj; right; assumption.
Qed.

Lemma NoDup_map_rev : forall (A B : Type) (f : A -> B) (l : list A),
  NoDup (map f l) -> NoDup l.
Proof.
  intros A B f l. induction l as [|a r IH]; intro H; [constructor|].
  cbn in H. inversion H as [|? ? Hnin Hnd]; subst. constructor; [|apply IH; exact Hnd].
  intro Hin. apply Hnin. apply in_map. exact Hin.
Qed.

(* ------------------------------------------------------------- encoding *)

Lemma enc_inj : forall nV a b c d,
  0 <= a < nV -> 0 <= b < nV -> 0 <= c < nV -> 0 <= d < nV ->
  enc nV (a, b) = enc nV (c, d) -> (a, b) = (c, d).
Proof.
  intros nV a b c d Ha Hb Hc Hd H. unfold enc in H. cbn [fst snd] in H.
  assert (a = c) by nia. subst c. assert (b = d) by lia. subst. reflexivity.
Qed.

(* --------------------------------------------------- triangles and edges *)

Lemma in_dir_edges : forall tris e,
  In e (dir_edges tris) <->
  exists a b c, In (a, b, c) tris /\ (e = (a, b) \/ e = (b, c) \/ e = (c, a)).
Proof.
  intros tris e. unfold dir_edges. rewrite in_flat_map. split.
  - intros [[[a b] c] [Ht He]]. exists a, b, c. split; [exact Ht|].
    cbn in He. destruct He as [He|[He|[He|[]]]]; subst; auto.
  - intros [a [b [c [Ht He]]]]. exists (a, b, c). split; [exact Ht|].
    cbn. destruct He as [He|[He|He]]; subst; auto.
Qed.

Lemma in_all_verts : forall tris v,
  In v (all_verts tris) <->
  exists a b c, In (a, b, c) tris /\ (v = a \/ v = b \/ v = c).
Proof.
  intros tris v. unfold all_verts. rewrite in_flat_map. split.
  - intros [[[a b] c] [Ht Hv]]. exists a, b, c. split; [exact Ht|].
    cbn in Hv. destruct Hv as [Hv|[Hv|[Hv|[]]]]; subst; auto.
  - intros [a [b [c [Ht Hv]]]]. exists (a, b, c). split; [exact Ht|].
    cbn. destruct Hv as [Hv|[Hv|Hv]]; subst; auto.
Qed.

Lemma in_starts_iff_vert : forall tris v,
  In v (map fst (dir_edges tris)) <-> In v (all_verts tris).
Proof.
  intros tris v. rewrite in_map_iff, in_all_verts. split.
  - intros [[x y] [Hv He]]. cbn in Hv. subst x. apply in_dir_edges in He.
    destruct He as [a [b [c [Ht He]]]]. exists a, b, c. split; [exact Ht|].
    destruct He as [He|[He|He]]; inversion He; subst; auto.
  - intros [a [b [c [Ht Hv]]]].
    destruct Hv as [Hv|[Hv|Hv]]; subst v.
    + exists (a, b). split; [reflexivity|]. apply in_dir_edges. exists a, b, c. auto.
    + exists (b, c). split; [reflexivity|]. apply in_dir_edges. exists a, b, c. auto.
    + exists (c, a). split; [reflexivity|]. apply in_dir_edges. exists a, b, c. auto.
Qed.

Lemma forallb_in_range : forall nV tris,
  forallb (tri_in_range nV) tris = true <-> InRange nV tris.
Proof.
  intros nV tris. rewrite forallb_forall. unfold InRange. split.
  - intros H a b c Ht. specialize (H _ Ht). cbn in H. lia.
  - intros H [[a b] c] Ht. specialize (H a b c Ht). cbn. lia.
Qed.

Lemma forallb_nondegenerate : forall tris,
  forallb tri_nondegenerate tris = true <-> NoDegenerate tris.
Proof.
  intro tris. rewrite forallb_forall. unfold NoDegenerate. split.
  - intros H a b c Ht. specialize (H _ Ht). cbn in H. lia.
  - intros H [[a b] c] Ht. specialize (H a b c Ht). cbn. lia.
Qed.

Lemma edges_in_range : forall nV tris a b,
  InRange nV tris -> In (a, b) (dir_edges tris) -> 0 <= a < nV /\ 0 <= b < nV.
Proof.
  intros nV tris a b Hr He. apply in_dir_edges in He.
  destruct He as [x [y [z [Ht He]]]]. specialize (Hr x y z Ht).
  destruct He as [He|[He|He]]; inversion He; subst; lia.
Qed.

(* EdgesMatched in the NoDup / closed-under-reversal form *)
Lemma edges_matched_alt : forall tris,
  EdgesMatched tris <->
  (NoDup (dir_edges tris) /\ forall a b, In (a, b) (dir_edges tris) -> In (b, a) (dir_edges tris)).
Proof.
  intro tris. unfold EdgesMatched. split.
  - intro H. split.
    + apply (NoDup_count_occ edge_eq_dec). intros [a b].
      destruct (in_dec edge_eq_dec (a, b) (dir_edges tris)) as [Hin|Hnin].
      * destruct (H a b Hin) as [H1 _]. rewrite H1. apply le_n.
      * apply (count_occ_not_In edge_eq_dec) in Hnin. rewrite Hnin. apply Nat.le_0_l.
    + intros a b Hin. destruct (H a b Hin) as [_ H2].
      apply (count_occ_In edge_eq_dec). rewrite H2. apply le_n.
  - intros [Hnd Hrev] a b Hin. split.
    + apply (NoDup_count_occ' edge_eq_dec); assumption.
    + apply (NoDup_count_occ' edge_eq_dec); [assumption|]. apply Hrev. exact Hin.
Qed.

(* ----------------------------------------------------------------- covers *)

Lemma covers_sound : forall l next stop,
  covers next l = stop -> 0 <= next -> 0 <= stop ->
  next <= stop /\ forall v, next <= v < stop -> In v l.
Proof.
  induction l as [|x r IH]; intros next stop H Hn Hs; cbn [covers] in H.
  - subst. split; [lia|]. intros v Hv. lia.
  - destruct (x =? next) eqn:E1.
    + apply Z.eqb_eq in E1. subst x. apply IH in H; [|lia|lia]. destruct H as [Hle Hall].
      split; [lia|]. intros v Hv. destruct (Z.eq_dec v next) as [->|Hne]; [left; reflexivity|].
      right. apply Hall. lia.
    + destruct (x =? next - 1) eqn:E2.
      * apply IH in H; [|lia|lia]. destruct H as [Hle Hall]. split; [lia|].
        intros v Hv. right. apply Hall. exact Hv.
      * lia.
Qed.

Lemma covers_complete : forall l next stop,
  StronglySorted (fun x y => is_true (Z.leb x y)) l ->
  next <= stop ->
  (forall x, In x l -> next - 1 <= x < stop) ->
  (forall v, next <= v < stop -> In v l) ->
  covers next l = stop.
Proof.
  induction l as [|x r IH]; intros next stop Hs Hle Hbound Hall; cbn [covers].
  - destruct (Z.eq_dec next stop) as [->|Hne]; [reflexivity|].
    exfalso. apply (Hall next). lia.
  - inversion Hs as [|? ? Hsr Hfa]; subst. rewrite Forall_forall in Hfa.
    assert (Hx : next - 1 <= x < stop) by (apply Hbound; left; reflexivity).
    destruct (x =? next) eqn:E1.
    + apply Z.eqb_eq in E1. subst x. apply IH; [exact Hsr|lia| |].
      * intros y Hy. specialize (Hfa y Hy). unfold is_true in Hfa. apply Z.leb_le in Hfa.
        specialize (Hbound y (or_intror Hy)). lia.
      * intros v Hv. destruct (Hall v) as [Hv'|Hv']; [lia|lia|exact Hv'].
    + apply Z.eqb_neq in E1. destruct (x =? next - 1) eqn:E2.
      * apply Z.eqb_eq in E2. apply IH; [exact Hsr|exact Hle| |].
        -- intros y Hy. specialize (Hfa y Hy). unfold is_true in Hfa. apply Z.leb_le in Hfa.
           specialize (Hbound y (or_intror Hy)). lia.
        -- intros v Hv. destruct (Hall v Hv) as [Hv'|Hv']; [lia|exact Hv'].
      * apply Z.eqb_neq in E2. exfalso.
        (* x > next: then next itself (which is < stop) is missing *)
        assert (Hnext : In next (x :: r)) by (apply Hall; lia).
        destruct Hnext as [Hn|Hn]; [lia|]. specialize (Hfa next Hn).
        unfold is_true in Hfa. apply Z.leb_le in Hfa. lia.
Qed.

(* --------------------------------------------------------- the main theorem *)

Lemma check_mesh_sound : forall nV tris, check_mesh nV tris = true -> Closed2Manifold nV tris.
Proof.
  intros nV tris H. unfold check_mesh in H.
  apply andb_true_iff in H. destruct H as [H Hcov].
  apply andb_true_iff in H. destruct H as [H Hedges].
  apply andb_true_iff in H. destruct H as [Hrange Hdeg].
  apply forallb_in_range in Hrange. apply forallb_nondegenerate in Hdeg.
  cbv zeta in Hedges. apply andb_true_iff in Hedges. destruct Hedges as [Hstrict Heq].
  apply list_eqb_eq in Heq.
  split; [exact Hrange|]. split; [exact Hdeg|]. split.
  - apply edges_matched_alt. split.
    + apply sort_strict_iff_NoDup in Hstrict. eapply NoDup_map_rev. exact Hstrict.
    + intros a b Hin.
      assert (Hk : In (enc nV (b, a)) (ZSort.sort (map (enc nV) (dir_edges tris)))).
      { rewrite Heq. apply (proj2 (sort_in _ _)). apply in_map_iff. exists (a, b). split; [reflexivity|exact Hin]. }
      apply (proj1 (sort_in _ _)) in Hk. apply in_map_iff in Hk. destruct Hk as [[c d] [Henc Hcd]].
      destruct (edges_in_range nV tris a b Hrange Hin) as [Ha Hb].
      destruct (edges_in_range nV tris c d Hrange Hcd) as [Hc Hd].
      apply enc_inj in Henc; try assumption. rewrite <- Henc. exact Hcd.
  - intros v Hv. apply in_starts_iff_vert.
    apply Z.eqb_eq in Hcov.
    apply covers_sound in Hcov; [|lia|lia]. destruct Hcov as [_ Hall].
    apply (proj1 (sort_in _ _)). apply Hall. lia.
Qed.

Lemma check_mesh_complete : forall nV tris, Closed2Manifold nV tris -> check_mesh nV tris = true.
Proof.
  intros nV tris [Hrange [Hdeg [Hedges Href]]]. unfold check_mesh.
  apply edges_matched_alt in Hedges. destruct Hedges as [Hnd Hrev].
  assert (Hinj : forall x y, In x (dir_edges tris) -> In y (dir_edges tris) ->
                             enc nV x = enc nV y -> x = y).
  { intros [a b] [c d] Hx Hy He.
    destruct (edges_in_range nV tris a b Hrange Hx). destruct (edges_in_range nV tris c d Hrange Hy).
    apply (enc_inj nV); assumption. }
  assert (Hinj' : forall x y, In x (dir_edges tris) -> In y (dir_edges tris) ->
                             enc nV (swap_edge x) = enc nV (swap_edge y) -> x = y).
  { intros [a b] [c d] Hx Hy He. unfold swap_edge in He. cbn [fst snd] in He.
    destruct (edges_in_range nV tris a b Hrange Hx). destruct (edges_in_range nV tris c d Hrange Hy).
    apply (enc_inj nV) in He; try assumption. inversion He; subst. reflexivity. }
  apply andb_true_iff. split; [apply andb_true_iff; split; [apply andb_true_iff; split|]|].
  - apply forallb_in_range. exact Hrange.
  - apply forallb_nondegenerate. exact Hdeg.
  - cbv zeta.
    assert (S1 : strictly_increasing (ZSort.sort (map (enc nV) (dir_edges tris))) = true).
    { apply sort_strict_iff_NoDup. apply NoDup_map_inj_in; assumption. }
    assert (S2 : strictly_increasing (ZSort.sort (map (fun e => enc nV (swap_edge e)) (dir_edges tris))) = true).
    { apply sort_strict_iff_NoDup. apply NoDup_map_inj_in; assumption. }
    apply andb_true_iff. split; [exact S1|]. apply list_eqb_eq.
    apply strictly_increasing_unique; [exact S1|exact S2|].
    intro k. rewrite !sort_in, !in_map_iff. split.
    + intros [[a b] [Hk Hin]]. exists (b, a). split; [exact Hk|apply Hrev; exact Hin].
    + intros [[a b] [Hk Hin]]. exists (b, a). split; [exact Hk|apply Hrev; exact Hin].
  - apply Z.eqb_eq. apply covers_complete.
    + apply sort_strongly_sorted.
    + lia.
    + intros x Hx. apply (proj1 (sort_in _ _)) in Hx. apply in_map_iff in Hx. destruct Hx as [[a b] [Hfst Hin]].
      cbn in Hfst. subst x. destruct (edges_in_range nV tris a b Hrange Hin). lia.
    + intros v Hv. apply (proj2 (sort_in _ _)). apply in_starts_iff_vert. apply Href. lia.
Qed.

Lemma check_mesh_iff_lemma : forall nV tris, check_mesh nV tris = true <-> Closed2Manifold nV tris.
Proof. intros; split; [apply check_mesh_sound|apply check_mesh_complete]. Qed.

Lemma check_counts_iff_lemma : forall nV tris repV repE repT repG,
  check_counts nV tris repV repE repT repG = true <-> CountsAgree nV tris repV repE repT repG.
Proof.
  intros nV tris repV repE repT repG. unfold check_counts, CountsAgree. cbv zeta.
  rewrite !andb_true_iff, !Z.eqb_eq, Z.even_spec. split.
  - intros [[[[H1 H2] H3] [k Hk]] H5]. repeat split; try assumption.
    exists k. split; [exact Hk|]. lia.
  - intros [H1 [H2 [H3 [k [Hk Hg]]]]]. repeat split; try assumption.
    + exists k. exact Hk.
    + lia.
Qed.

(* A closed 2-manifold has an even number of directed edges, hence of
   triangles: reversal is a fixed-point-free involution on a duplicate-free
   list.  So NumEdge = 3*NumTri/2 is an integer. *)

Lemma satisfiable_tetra :
  Closed2Manifold 4 [(0,2,1); (0,3,2); (0,1,3); (1,2,3)].
Proof. apply check_mesh_sound. vm_compute. reflexivity. Qed.
