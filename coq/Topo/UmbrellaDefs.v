(* Vertex-manifoldness ("one umbrella per vertex") for the C01 oracle.
   Closed2Manifold (CheckMeshDefs.v) is edge-manifoldness: every directed edge once, its
   reverse once.  A pinched vertex (two cones sharing only their apex) satisfies it, yet the
   surface is not a 2-manifold there.  This file adds the missing clause and its checker.
   Definitions only. *)
From Coq Require Import ZArith List Bool Lia FMapPositive.
From MV Require Import Topo.CheckMeshDefs.
Import ListNotations.
Local Open Scope Z_scope.

(* the link of v: one directed edge x -> y for every triangle that, rotated, reads (v, x, y) *)
Definition fan_edges (v : Z) (t : tri) : list edge :=
  let '(a, b, c) := t in
  (if a =? v then [(b, c)] else []) ++ (if b =? v then [(c, a)] else []) ++ (if c =? v then [(a, b)] else []).
Definition link (v : Z) (tris : list tri) : list edge := flat_map (fan_edges v) tris.

(* the edges of the directed cycle a0 -> a1 -> ... -> a(d-1) -> a0 *)
Fixpoint path_edges (first : Z) (l : list Z) : list edge :=
  match l with
  | [] => []
  | [x] => [(x, first)]
  | x :: ((y :: _) as r) => (x, y) :: path_edges first r
  end.
Definition cyc_edges (cyc : list Z) : list edge :=
  match cyc with [] => [] | a0 :: _ => path_edges a0 cyc end.

(* the triangles around v form ONE fan: the neighbours of v can be arranged in a cycle
   a0 .. a(d-1) without repetition such that the triangles at v are exactly (v, ai, ai+1) *)
Definition OneUmbrella (v : Z) (tris : list tri) : Prop :=
  exists cyc, cyc <> [] /\ NoDup cyc /\ Permutation.Permutation (link v tris) (cyc_edges cyc).

Definition VertexManifold (nV : Z) (tris : list tri) : Prop :=
  forall v, 0 <= v < nV -> OneUmbrella v tris.

(* the closed oriented 2-manifold of the property text *)
Definition Closed2ManifoldV (nV : Z) (tris : list tri) : Prop :=
  Closed2Manifold nV tris /\ VertexManifold nV tris.

(* ------------------------------------------------------------ checker *)
Fixpoint succ_of (L : list edge) (x : Z) : option Z :=
  match L with
  | [] => None
  | (a, b) :: r => if a =? x then Some b else succ_of r x
  end.

(* follow the link from cur for n steps, collecting the vertices visited *)
Fixpoint walk (L : list edge) (cur : Z) (n : nat) : option (list Z) :=
  match n with
  | O => Some []
  | S k => match succ_of L cur with
           | None => None
           | Some y => match walk L y k with Some r => Some (cur :: r) | None => None end
           end
  end.

Fixpoint memZ (x : Z) (l : list Z) : bool :=
  match l with [] => false | y :: r => (x =? y) || memZ x r end.
Fixpoint nodupZ (l : list Z) : bool :=
  match l with [] => true | x :: r => negb (memZ x r) && nodupZ r end.
Definition mem_edge (e : edge) (l : list edge) : bool :=
  existsb (fun f => (fst e =? fst f) && (snd e =? snd f)) l.

Definition check_umbrella_list (L : list edge) : bool :=
  match L with
  | [] => false
  | (a0, _) :: _ =>
    match walk L a0 (length L) with
    | None => false
    | Some cyc => nodupZ cyc && forallb (fun e => mem_edge e L) (cyc_edges cyc)
    end
  end.

(* grouping the link edges by vertex in one pass *)
Definition vkey (v : Z) : positive := Z.to_pos (v + 1).
Definition get_links (m : PositiveMap.t (list edge)) (v : Z) : list edge :=
  match PositiveMap.find (vkey v) m with Some l => l | None => [] end.
Definition add_link (m : PositiveMap.t (list edge)) (v x y : Z) : PositiveMap.t (list edge) :=
  if v <? 0 then m else PositiveMap.add (vkey v) ((x, y) :: get_links m v) m.
Definition add_tri (m : PositiveMap.t (list edge)) (t : tri) : PositiveMap.t (list edge) :=
  let '(a, b, c) := t in add_link (add_link (add_link m a b c) b c a) c a b.
Definition all_links (tris : list tri) : PositiveMap.t (list edge) :=
  fold_left add_tri tris (PositiveMap.empty (list edge)).

Fixpoint iotaZ (n : nat) (from : Z) : list Z :=
  match n with O => [] | S k => from :: iotaZ k (from + 1) end.

Definition check_vertex_manifold (nV : Z) (tris : list tri) : bool :=
  let m := all_links tris in
  forallb (fun v => check_umbrella_list (get_links m v)) (iotaZ (Z.to_nat nV) 0).

Definition check_mesh_v (nV : Z) (tris : list tri) : bool :=
  check_mesh nV tris && check_vertex_manifold nV tris.
