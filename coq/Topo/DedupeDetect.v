From Coq Require Import ZArith List Bool Lia.
From MV Require Import Topo.DedupeDetectDefs.
Import ListNotations.
Local Open Scope Z_scope.

(* the two containers together always hold the plain insert-or-min table of the prefix *)
Definition table (orbit : list entry) : list entry :=
  fold_left (fun l (e : entry) => insert_min l (fst e) (snd e)) orbit [].

Lemma step_inv : forall T st e acc,
  (fst st = [] \/ snd st = []) -> fst st ++ snd st = acc ->
  let st' := step T st e in
  (fst st' = [] \/ snd st' = []) /\ fst st' ++ snd st' = insert_min acc (fst e) (snd e).
Proof.
  intros T [vec set] [endV cur] acc Hone Hcomb. cbn [fst snd] in *. unfold step.
  destruct set as [|s0 sr].
  - rewrite app_nil_r in Hcomb. subst acc. unfold insert_min.
    destruct (upd_min vec endV cur) as [vec'|] eqn:U.
    + cbn. split; [right; reflexivity|apply app_nil_r].
    + destruct (Nat.ltb T (length (vec ++ [(endV, cur)]))); cbn; split; auto. apply app_nil_r.
  - destruct Hone as [Hv|Hs]; [|discriminate]. subst vec. cbn [app] in Hcomb. subst acc.
    cbn [fst snd app]. split; [left; reflexivity|reflexivity].
Qed.

Lemma first_pass_inv : forall T orbit st acc,
  (fst st = [] \/ snd st = []) -> fst st ++ snd st = acc ->
  let st' := fold_left (step T) orbit st in
  (fst st' = [] \/ snd st' = []) /\
  fst st' ++ snd st' = fold_left (fun l (e : entry) => insert_min l (fst e) (snd e)) orbit acc.
Proof.
  intros T orbit. induction orbit as [|e r IH]; intros st acc H1 H2; cbn [fold_left]; [auto|].
  destruct (step_inv T st e acc H1 H2) as [H1' H2']. apply IH; assumption.
Qed.

Lemma lookup_st_table : forall T orbit endV, lookup_st (first_pass T orbit) endV = assoc (table orbit) endV.
Proof.
  intros T orbit endV. unfold first_pass, table.
  destruct (first_pass_inv T orbit ([], []) [] (or_introl eq_refl) eq_refl) as [H1 H2].
  cbv zeta in H1, H2. rewrite <- H2. unfold lookup_st.
  destruct (fold_left (step T) orbit ([], [])) as [vec set]. cbn [fst snd] in *.
  destruct set as [|s0 sr]; [rewrite app_nil_r; reflexivity|].
  destruct H1 as [H1|H1]; [subst vec; reflexivity|discriminate].
Qed.

(* mode independence: which halfedges are reported does not depend on where the loop switches
   from the vector to the hash map (nor on whether it switches at all) *)
Lemma flagged_mode_independent_lemma : forall T1 T2 orbit, flagged T1 orbit = flagged T2 orbit.
Proof.
  intros T1 T2 orbit. unfold flagged. f_equal. apply filter_ext. intro e. rewrite !lookup_st_table. reflexivity.
Qed.

(* and both report exactly "everything but the smallest halfedge of each end vertex" *)
Lemma upd_min_assoc : forall l endV cur l' w, upd_min l endV cur = Some l' ->
  assoc l' w = if w =? endV then option_map (fun c => Z.min c cur) (assoc l w) else assoc l w.
Proof.
  induction l as [|[v c] r IH]; intros endV cur l' w H; cbn in H; [discriminate|].
  destruct (v =? endV) eqn:E.
  - apply Z.eqb_eq in E. subst v. inversion H; subst. cbn [assoc].
    destruct (endV =? w) eqn:E2.
    + apply Z.eqb_eq in E2. subst w. rewrite Z.eqb_refl. reflexivity.
    + rewrite Z.eqb_sym, E2. reflexivity.
  - destruct (upd_min r endV cur) as [r'|] eqn:U; [|discriminate]. inversion H; subst. cbn [assoc].
    destruct (v =? w) eqn:E2.
    + apply Z.eqb_eq in E2. subst w. rewrite E. reflexivity.
    + apply (IH endV cur r' w U).
Qed.

Lemma upd_min_none : forall l endV cur, upd_min l endV cur = None -> assoc l endV = None.
Proof.
  induction l as [|[v c] r IH]; intros endV cur H; cbn in *; [reflexivity|].
  destruct (v =? endV); [discriminate|]. destruct (upd_min r endV cur) eqn:U; [discriminate|]. eapply IH; eauto.
Qed.

Lemma assoc_app_single : forall l v c w, assoc (l ++ [(v, c)]) w = match assoc l w with Some x => Some x | None => if v =? w then Some c else None end.
Proof. induction l as [|[a b] r IH]; intros; cbn; [reflexivity|]. destruct (a =? w); [reflexivity|apply IH]. Qed.

Lemma insert_min_assoc : forall l endV cur w,
  assoc (insert_min l endV cur) w =
  if w =? endV then Some (match assoc l w with Some m => Z.min m cur | None => cur end) else assoc l w.
Proof.
  intros l endV cur w. unfold insert_min. destruct (upd_min l endV cur) as [l'|] eqn:U.
  - rewrite (upd_min_assoc _ _ _ _ w U). destruct (w =? endV) eqn:E; [|reflexivity].
    apply Z.eqb_eq in E. subst w. destruct (assoc l endV) eqn:A; [reflexivity|].
    exfalso. clear -U A. revert l' U A. induction l as [|[v c] r IH]; intros; cbn in *; [discriminate|].
    destruct (v =? endV); [discriminate|]. destruct (upd_min r endV cur) eqn:U2; [|discriminate]. eapply IH; eauto.
  - rewrite assoc_app_single. pose proof (upd_min_none _ _ _ U) as N.
    destruct (w =? endV) eqn:E.
    + apply Z.eqb_eq in E. subst w. rewrite N, Z.eqb_refl. reflexivity.
    + destruct (assoc l w); [reflexivity|]. rewrite Z.eqb_sym, E. reflexivity.
Qed.

Lemma table_min_of_from : forall orbit acc endV,
  assoc (fold_left (fun l (e : entry) => insert_min l (fst e) (snd e)) orbit acc) endV =
  fold_left (fun a (e : entry) => if fst e =? endV then Some (match a with Some m => Z.min m (snd e) | None => snd e end) else a)
            orbit (assoc acc endV).
Proof.
  induction orbit as [|[v c] r IH]; intros acc endV; cbn [fold_left fst snd]; [reflexivity|].
  rewrite IH. f_equal. rewrite insert_min_assoc. rewrite (Z.eqb_sym endV v). reflexivity.
Qed.

Lemma flagged_meets_spec_lemma : forall T orbit, flagged T orbit = flagged_spec orbit.
Proof.
  intros T orbit. unfold flagged, flagged_spec. f_equal. apply filter_ext. intro e.
  rewrite lookup_st_table. unfold table, min_of. rewrite table_min_of_from. reflexivity.
Qed.
