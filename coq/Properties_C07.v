(* C07 -- every output triangle traces back to its source face and properties.
   Only statements closed by `exact`, each followed by Print Assumptions.
   The model (Codec/RelationDefs.v) is a line-by-line port of the relation
   bookkeeping; these theorems hold for ALL triRef vectors, maps, counters,
   transforms.  What ties the model to /repo is the correspondence run of
   checks/C07.py (extracted get_mesh_runs / merge_maps / increment_mesh_ids /
   compose_relation / initialize_original against the real code). *)
From Coq Require Import ZArith List Bool Lia Sorted Permutation QArith.
From MV Require Import Codec.RelationDefs Codec.RelationModel.
Import ListNotations.
Local Open Scope Z_scope.

(* ---------------------------------------------------------------- runs_partition
   Hypotheses: std::map invariant (ascending keys) and the relation invariant
   rel_consistent: every triangle's meshID is >= 0, is a key of the map, and the
   map entry carries the triangle's originalID (checked on every Impl the
   harness sees; established by InitializeOriginal / Impl(MeshGL) and kept by
   the operations below).  Without it the code still runs (the model too) but
   emits default Relations with originalID -1.
   For a non-original Impl the export then satisfies, with rs the list of addRun
   calls and run j spanning triangles [r_start j, end j) where end j is the next
   run's start (runIndex[j+1]/3) or numTri:
   1-4  the exported tables are projections of rs (runIndex has the 3*numTri sentinel);
   5    triNew2Old is a permutation of 0..n-1 and each new triangle carries the ref of its old index;
   6    the order is exactly std::stable_sort's (sorted for the comparator, ties in index order);
   7    faceID = faceID >= 0 ? faceID : coplanarID of the triangle in its new position;
   8    one run per map key;               9  each run carries its key's Relation (originalID, flags, transform);
   10   runs start at 0 (no run at all only if there are no triangles and no keys) and have start <= end;
   11   every triangle lies in a run whose key is its own meshID;
   12   for an earlier run a and a later run b: if both are non-empty then
        (originalID a, key a) < (originalID b, key b) lexicographically (sorted by
        originalID; instances of one original stay separate, in meshID order);
        an empty run is only followed by empty runs, in ascending key order
        (map keys without triangles trail, in std::map order - NOT by originalID). *)
Theorem runs_partition :
  forall (T : Type) (tid : T) (m : zmap (Relation T)) (refs : list TriRef),
    map_ok m -> rel_consistent m refs ->
    let out := get_mesh_runs tid false m refs in
    let s := sort_tris false refs in
    let sorted := map snd s in
    let n := Z.of_nat (length refs) in
    let rs := all_runs tid m sorted in
       runIndex out = map (fun r => 3 * r_start r) rs ++ [3 * n]
    /\ runOriginalID out = map (fun r => rOriginalID (r_rel r)) rs
    /\ runFlags out = map (fun r => flags_of (r_rel r)) rs
    /\ runTransform out = map (fun r => rTransform (r_rel r)) rs
    /\ (triNew2Old out = map fst s /\ Permutation (map fst s) (iota 0 (length refs)) /\
        forall i r, In (i, r) s -> 0 <= i /\ nth_error refs (Z.to_nat i) = Some r)
    /\ StronglySorted stable_sorted s
    /\ outFaceID out = map face_of sorted
    /\ Permutation (map r_key rs) (m_keys m)
    /\ Forall (fun r => m_find (r_key r) m = Some (r_rel r)) rs
    /\ ((match rs with [] => n = 0 | r :: _ => r_start r = 0 end) /\
        Forall (fun re => r_start (fst re) <= snd re) (extents rs n))
    /\ (forall t r, nth_error sorted t = Some r ->
          exists run e, In (run, e) (extents rs n) /\ r_start run <= Z.of_nat t < e /\ r_key run = meshID r)
    /\ StronglySorted run_order (extents rs n).
Proof.
  intros T tid m refs Hm Hc.
  exact (match runs_partition_main tid m refs Hm Hc with conj a (conj b (conj c (conj d (conj e f)))) =>
         conj eq_refl (conj eq_refl (conj eq_refl (conj eq_refl
           (conj (conj eq_refl (conj (sort_tris_indices false refs) (sort_tris_pairs false refs)))
             (conj (sort_tris_stable refs) (conj eq_refl (conj a (conj b (conj (conj c d) (conj e f)))))))))) end).
Qed.
Print Assumptions runs_partition.

(* hypotheses are satisfiable and the conclusion is not vacuous: two originals
   (IDs 7 and 3), original 3 instanced twice (keys 11 and 13), key 12 unused *)
Example runs_partition_example :
  let m := [(10, mkRel 7 100 false false); (11, mkRel 3 101 true false);
            (12, mkRel 5 102 false true); (13, mkRel 3 103 false false)] in
  let refs := [mkTriRef 10 7 (-1) 0; mkTriRef 13 3 4 1; mkTriRef 11 3 (-1) 2; mkTriRef 10 7 (-1) 3; mkTriRef 11 3 9 4] in
  map_ok m /\ rel_consistent m refs /\
  get_mesh_runs 0 false m refs =
    mkMeshRuns [2; 4; 1; 0; 3] [2; 9; 4; 0; 3] [0; 6; 9; 15; 15] [3; 3; 7; 5] [1; 0; 0; 2] [101; 103; 100; 102] [11; 13; 10; 12].
Proof.
  cbv zeta. split; [cbn; repeat split; reflexivity|]. split; [|vm_compute; reflexivity].
  unfold rel_consistent.
  repeat (apply Forall_cons; [split; [cbn; discriminate|eexists; split; [vm_compute; reflexivity|reflexivity]]|]).
  apply Forall_nil.
Qed.

(* std::stable_sort is pinned down by its contract: any arrangement that is a
   permutation, sorted for the comparator and stable IS the model's list. *)
Theorem stable_sort_unique :
  forall refs (l : list (Z * TriRef)),
    Permutation (combine (iota 0 (length refs)) refs) l ->
    StronglySorted stable_sorted l ->
    l = sort_tris false refs.
Proof. exact stable_sort_unique_l. Qed.
Print Assumptions stable_sort_unique.

(* an original (triangles keep their order; InitializeOriginal gives all of them
   one meshID and a one-entry map): exactly one run, starting at 0 *)
Theorem runs_partition_original :
  forall (T : Type) (tid : T) id (rel : Relation T) refs,
    id <> -1 -> Forall (fun r => meshID r = id) refs ->
    all_runs tid [(id, rel)] (map snd (sort_tris true refs)) = [mkRun 0 id rel] /\
    map fst (sort_tris true refs) = iota 0 (length refs).
Proof.
  intros T tid id rel refs Hid F.
  exact (conj (eq_ind_r (fun l => all_runs tid [(id, rel)] l = [mkRun 0 id rel])
                        (all_runs_original T tid id rel refs Hid F) (map_snd_combine_iota _ refs 0))
              (map_fst_combine_iota _ refs 0)).
Qed.
Print Assumptions runs_partition_original.

(* ---------------------------------------------------------------- ids_stay_distinct *)
(* Boolean (UpdateReference): if all keys of P and Q are in [0, counter) then the
   result map keeps every P entry under its key, every Q entry under key+counter
   with backSide ^= invertQ, those two key sets are disjoint, and nothing else
   is in the map. *)
Theorem ids_stay_distinct_boolean :
  forall (T : Type) counter invertQ (mP mQ : zmap (Relation T)),
    map_ok mP -> map_ok mQ -> keys_below counter mP -> keys_below counter mQ ->
    let mR := merge_maps counter invertQ mP mQ [] in
    map_ok mR /\
    (forall k v, m_find k mP = Some v -> m_find k mR = Some v) /\
    (forall k v, m_find k mQ = Some v -> m_find (k + counter) mR = Some (flip_back invertQ v)) /\
    (forall kp kq, In kp (m_keys mP) -> In kq (m_keys mQ) -> kp <> kq + counter) /\
    (forall k, In k (m_keys mR) <-> In k (m_keys mP) \/ exists kq, In kq (m_keys mQ) /\ k = kq + counter).
Proof. intros T. exact (@boolean_ids_distinct T). Qed.
Print Assumptions ids_stay_distinct_boolean.

Example ids_boolean_example :
  let mP := [(4, mkRel 4 0 false false)] in let mQ := [(4, mkRel 4 1 false false); (6, mkRel 2 2 true false)] in
  map_ok mP /\ map_ok mQ /\ keys_below 9 mP /\ keys_below 9 mQ /\
  merge_maps 9 true mP mQ [] = [(4, mkRel 4 0 false false); (13, mkRel 4 1 true false); (15, mkRel 2 2 false false)].
Proof. cbv zeta. repeat split; try (repeat constructor; cbn; lia). Qed.

(* IncrementMeshIDs: new keys are counter, counter+1, ... in old key order; the
   renaming is injective and order preserving (two instances of one original
   never merge, runs keep their relative order), every Relation travels with
   its key, and triangles are renamed consistently. *)
Theorem ids_stay_distinct_increment :
  forall (T : Type) counter (m : zmap (Relation T)) refs m' refs' c',
    map_ok m ->
    increment_mesh_ids counter m refs = Some (m', refs', c') ->
    let old2new := combine (m_keys m) (iota counter (length m)) in
    m' = combine (iota counter (length m)) (map snd m) /\ c' = counter + Z.of_nat (length m) /\ map_ok m' /\
    Forall2 (fun r r' => m_find (meshID r) old2new = Some (meshID r') /\ originalID r' = originalID r /\
                         faceID r' = faceID r /\ coplanarID r' = coplanarID r) refs refs' /\
    (forall k1 k2 id1 id2, m_find k1 old2new = Some id1 -> m_find k2 old2new = Some id2 ->
        (k1 < k2 <-> id1 < id2) /\ (k1 = k2 <-> id1 = id2) /\ counter <= id1 < c') /\
    (forall k id, m_find k old2new = Some id -> m_find id m' = m_find k m).
Proof. intros T. exact (@increment_ids_spec T). Qed.
Print Assumptions ids_stay_distinct_increment.

(* ... and it is defined (no read of an absent hash slot) whenever every
   triangle's meshID is a key of the map *)
Theorem increment_defined_when_consistent :
  forall (T : Type) counter (m : zmap (Relation T)) refs,
    Forall (fun r => In (meshID r) (m_keys m)) refs -> exists res, increment_mesh_ids counter m refs = Some res.
Proof. intros T. exact (@increment_defined T). Qed.
Print Assumptions increment_defined_when_consistent.

Example increment_example :
  increment_mesh_ids 20 [(4, mkRel 4 0 false false); (13, mkRel 4 1 true false)] [mkTriRef 13 4 (-1) 5; mkTriRef 4 4 2 0]
  = Some ([(20, mkRel 4 0 false false); (21, mkRel 4 1 true false)], [mkTriRef 21 4 (-1) 5; mkTriRef 20 4 2 0], 22).
Proof. reflexivity. Qed.

(* Compose: node i's keys are shifted by i*snapshot; with all keys in
   [0, snapshot) shifted keys of different nodes never coincide ... *)
Theorem ids_stay_distinct_compose_offsets :
  forall snapshot i j k1 k2,
    0 <= i -> 0 <= j -> 0 <= k1 < snapshot -> 0 <= k2 < snapshot ->
    k1 + i * snapshot = k2 + j * snapshot -> i = j /\ k1 = k2.
Proof. exact compose_offsets_disjoint. Qed.
Print Assumptions ids_stay_distinct_compose_offsets.

(* ... and in the ported loop the entry of node j under key k ends up under
   k + j*snapshot carrying the node's lazy transform applied on the left
   (unchanged when that transform is the identity); later nodes do not overwrite it. *)
Theorem ids_stay_distinct_compose :
  forall (nodes : list cnode) snapshot j t m refs k rel,
    0 < snapshot ->
    Forall (fun nd => map_ok (snd (fst nd)) /\ keys_below snapshot (snd (fst nd))) nodes ->
    nth_error nodes j = Some (t, m, refs) -> m_find k m = Some rel ->
    m_find (k + Z.of_nat j * snapshot) (fst (compose_relation snapshot nodes)) = Some (node_rel t rel).
Proof.
  intros nodes snapshot j t m refs k rel Hs F Hn Hf.
  exact (compose_find nodes 0 snapshot [] j t m refs k rel Hs (Z.le_refl 0) F Hn Hf).
Qed.
Print Assumptions ids_stay_distinct_compose.

(* ---------------------------------------------------------------- relation_transform_compose
   3x4 affine maps over Z (ring identities).  After any chain of Impl::Transform
   calls t1, t2, ... (identity ones take the `return *this` shortcut) the stored
   transform of every key maps a source point to where the chain maps it, and
   originalID / backSide / hasNormals are untouched. *)
Theorem relation_transform_compose :
  forall (ts : list M34) (m : zmap (Relation M34)) k rel,
    m_find k m = Some rel ->
    exists rel', m_find k (fold_left (fun a t => impl_transform t a) ts m) = Some rel' /\ same_meta rel rel' /\
                 forall p, m34apply (rTransform rel') p = fold_left (fun q t => m34apply t q) ts (m34apply (rTransform rel) p).
Proof. exact transform_chain. Qed.
Print Assumptions relation_transform_compose.

(* the stored product is associative: composing lazily (CsgLeafNode::Transform
   multiplies transform_ first) or eagerly gives the same matrix *)
Theorem relation_transform_assoc :
  forall a b c p, m34mul a (m34mul b c) = m34mul (m34mul a b) c /\
                  m34apply (m34mul a b) p = m34apply a (m34apply b p) /\ m34mul m34id a = a.
Proof. intros a b c p. exact (conj (m34mul_assoc a b c) (conj (m34apply_mul a b p) (m34mul_id_l a))). Qed.
Print Assumptions relation_transform_assoc.

Example transform_chain_example :
  let t1 := mkM34 (mkV3 0 1 0) (mkV3 (-1) 0 0) (mkV3 0 0 1) (mkV3 5 0 0) in       (* rotate + translate *)
  let t2 := mkM34 (mkV3 (-1) 0 0) (mkV3 0 1 0) (mkV3 0 0 1) (mkV3 0 0 2) in       (* mirror *)
  m_find 3 (fold_left (fun a t => impl_transform t a) [t1; m34id; t2] [(3, mkRel 3 m34id false false)])
  = Some (mkRel 3 (mkM34 (mkV3 0 1 0) (mkV3 1 0 0) (mkV3 0 0 1) (mkV3 (-5) 0 2)) false false).
Proof. reflexivity. Qed.

(* ---------------------------------------------------------------- backside_parity
   An entry that takes part in Booleans as the Q operand with invertQ flags
   e1, e2, ... (invertQ = the operation is Subtract) ends with
   backSide = initial xor parity of the true flags; as the P operand it is
   untouched (ids_stay_distinct_boolean, second conjunct). *)
Theorem backside_parity :
  forall (T : Type) (events : list bool) (rel : Relation T),
    let r := fold_left (fun r e => flip_back e r) events rel in
    rBackSide r = xorb (rBackSide rel) (fold_left xorb events false) /\
    rOriginalID r = rOriginalID rel /\ rTransform r = rTransform rel /\ rHasNormals r = rHasNormals rel.
Proof. exact flip_chain. Qed.
Print Assumptions backside_parity.

(* ---------------------------------------------------------------- barycentric_affine
   GetBarycentric ported over Q (exact).  Non-snapped triangle branch: for a
   point v in the plane of a non-degenerate triangle, not within tolerance of a
   corner or an edge line, the weights sum to 1 and reproduce v, coordinate by
   coordinate (f ranges over the three coordinate projections). *)
Local Open Scope Q_scope.
Theorem barycentric_affine :
  forall p0 p1 p2 v tol,
    let tri := (p0, p1, p2) in let tol2 := tol * tol in let N := tri_crossP tri in
    near_vert tri v tol2 0 = false -> near_vert tri v tol2 1 = false -> near_vert tri v tol2 2 = false ->
    Qltb (edge_d2 tri (long_side tri)) tol2 = false ->
    Qltb (edge_d2 tri (long_side tri) * tol2) (q3dot N N) = true ->
    edge_snapped tri v tol2 0 = false -> edge_snapped tri v tol2 1 = false -> edge_snapped tri v tol2 2 = false ->
    ~ q3dot N N == 0 ->
    q3dot N (q3sub v p0) == 0 ->
    let '(a, b, c) := get_barycentric v tri tol in
    a + b + c == 1 /\
    (forall f : Q3 -> Q, (f = qx \/ f = qy \/ f = qz) -> a * f p0 + b * f p1 + c * f p2 == f v).
Proof. exact barycentric_affine_main. Qed.
Print Assumptions barycentric_affine.

(* hence CreateProperties reproduces every affine property field exactly and
   pushes 0 for channels the source mesh lacks *)
Theorem barycentric_affine_fields :
  forall (a b c : Q) p0 p1 p2 v ga gb gc gd oldNumProp p,
    a + b + c == 1 ->
    (forall f : Q3 -> Q, (f = qx \/ f = qy \/ f = qz) -> a * f p0 + b * f p1 + c * f p2 == f v) ->
    interp_channel (a, b, c) oldNumProp p
       (affine_field ga gb gc gd p0, affine_field ga gb gc gd p1, affine_field ga gb gc gd p2)
    == if (p <? oldNumProp)%nat then affine_field ga gb gc gd v else 0.
Proof. exact interp_affine. Qed.
Print Assumptions barycentric_affine_fields.

Example barycentric_example :
  (let '(a, b, c) := get_barycentric (mkQ3 1 1 0) (mkQ3 0 0 0, mkQ3 4 0 0, mkQ3 0 4 0) (1 # 100) in
   a == 1 # 2 /\ b == 1 # 4 /\ c == 1 # 4)
  /\ near_vert (mkQ3 0 0 0, mkQ3 4 0 0, mkQ3 0 4 0) (mkQ3 1 1 0) ((1 # 100) * (1 # 100)) 0 = false
  /\ edge_snapped (mkQ3 0 0 0, mkQ3 4 0 0, mkQ3 0 4 0) (mkQ3 1 1 0) ((1 # 100) * (1 # 100)) 2 = false.
Proof. vm_compute. repeat split; reflexivity. Qed.

(* Snapped branches -- PARTIAL: proved are (1) a corner within tolerance returns
   that corner's unit vector (first such corner wins), (2) inside the triangle
   branch a coordinate whose edge line is within tolerance is exactly 0 and the
   weights still sum to 1 (so the result is a combination of that edge's two
   corners when a single edge snaps), (3) the needle branch gives 0 to the long
   side's opposite corner and weights summing to 1.  NOT proved: that the
   snapped weights are non-negative / that the interpolated point stays within
   tolerance of v (that needs an error analysis in tolerance; the exact checker
   validates it per output instead). *)
Theorem barycentric_snap_vertex_partial :
  forall v tri tol,
    let tol2 := tol * tol in
    (near_vert tri v tol2 0 = true -> get_barycentric v tri tol = (1, 0, 0)) /\
    (near_vert tri v tol2 0 = false -> near_vert tri v tol2 1 = true -> get_barycentric v tri tol = (0, 1, 0)) /\
    (near_vert tri v tol2 0 = false -> near_vert tri v tol2 1 = false -> near_vert tri v tol2 2 = true ->
       get_barycentric v tri tol = (0, 0, 1)).
Proof. exact barycentric_vertex_snap. Qed.
Print Assumptions barycentric_snap_vertex_partial.

Theorem barycentric_snap_edge_partial :
  forall p0 p1 p2 v tol i,
    let tri := (p0, p1, p2) in let tol2 := tol * tol in let N := tri_crossP tri in
    near_vert tri v tol2 0 = false -> near_vert tri v tol2 1 = false -> near_vert tri v tol2 2 = false ->
    Qltb (edge_d2 tri (long_side tri)) tol2 = false ->
    Qltb (edge_d2 tri (long_side tri) * tol2) (q3dot N N) = true ->
    (i < 3)%nat -> edge_snapped tri v tol2 i = true ->
    let u j := if edge_snapped tri v tol2 j then 0 else q3dot (bary_crossPv tri v j) N in
    ~ u 0%nat + u 1%nat + u 2%nat == 0 ->
    qnth (get_barycentric v tri tol) i == 0 /\
    (let '(a, b, c) := get_barycentric v tri tol in a + b + c == 1).
Proof. exact barycentric_edge_snap. Qed.
Print Assumptions barycentric_snap_edge_partial.

Theorem barycentric_needle_partial :
  forall p0 p1 p2 v tol,
    let tri := (p0, p1, p2) in let tol2 := tol * tol in let N := tri_crossP tri in
    near_vert tri v tol2 0 = false -> near_vert tri v tol2 1 = false -> near_vert tri v tol2 2 = false ->
    Qltb (edge_d2 tri (long_side tri)) tol2 = false ->
    Qltb (edge_d2 tri (long_side tri) * tol2) (q3dot N N) = false ->
    ~ edge_d2 tri (long_side tri) == 0 ->
    qnth (get_barycentric v tri tol) (long_side tri) == 0 /\
    (let '(a, b, c) := get_barycentric v tri tol in a + b + c == 1).
Proof. exact barycentric_line. Qed.
Print Assumptions barycentric_needle_partial.
