(* C07 -- every output triangle traces back to its source face and properties.
   Only statements closed by `exact`, each followed by Print Assumptions.
   The model (Codec/RelationDefs.v) is a line-by-line port of the relation
   bookkeeping; these theorems hold for ALL triRef vectors, maps, counters,
   transforms.  What ties the model to /repo is the correspondence run of
   checks/C07.py (extracted get_mesh_runs / merge_maps / increment_mesh_ids /
   compose_relation / initialize_original against the real code). *)
From Coq Require Import ZArith List Bool Lia Sorted Permutation QArith.
From MV Require Import Codec.RelationDefs Codec.RelationModel Codec.RelationBary Codec.RelatedCheckDefs Codec.RelatedCheck
  Codec.RelationPropsDefs Codec.RelationProps.
Import ListNotations.
Local Open Scope Z_scope.

(* ---------------------------------------------------------------- runs_partition
   Hypotheses: std::map invariant (ascending keys) and the relation invariant
   rel_consistent: every triangle's meshID is >= 0, is a key of the map, and the
   map entry carries the triangle's originalID (checked on every Impl the
   harness sees; established by InitializeOriginal / Impl(MeshGL) and kept by
   the operations below).  Without it the code still runs (the model too) but
   emits default Relations with originalID -1.
   For a non-original Impl the export then satisfies, with rs the list of addRun
   calls and run j spanning triangles [r_start j, end j) where end j is the next
   run's start (runIndex[j+1]/3) or numTri:
   1-4  the exported tables are projections of rs (runIndex has the 3*numTri sentinel);
   5    triNew2Old is a permutation of 0..n-1 and each new triangle carries the ref of its old index;
   6    the order is exactly std::stable_sort's (sorted for the comparator, ties in index order);
   7    faceID = faceID >= 0 ? faceID : coplanarID of the triangle in its new position;
   8    one run per map key;               9  each run carries its key's Relation (originalID, flags, transform);
   10   runs start at 0 (no run at all only if there are no triangles and no keys) and have start <= end;
   11   every triangle lies in a run whose key is its own meshID;
   12   for an earlier run a and a later run b: if both are non-empty then
        (originalID a, key a) < (originalID b, key b) lexicographically (sorted by
        originalID; instances of one original stay separate, in meshID order);
        an empty run is only followed by empty runs, in ascending key order
        (map keys without triangles trail, in std::map order - NOT by originalID). *)
Theorem runs_partition :
  forall (T : Type) (tid : T) (m : zmap (Relation T)) (refs : list TriRef),
    map_ok m -> rel_consistent m refs ->
    let out := get_mesh_runs tid false m refs in
    let s := sort_tris false refs in
    let sorted := map snd s in
    let n := Z.of_nat (length refs) in
    let rs := all_runs tid m sorted in
       runIndex out = map (fun r => 3 * r_start r) rs ++ [3 * n]
    /\ runOriginalID out = map (fun r => rOriginalID (r_rel r)) rs
    /\ runFlags out = map (fun r => flags_of (r_rel r)) rs
    /\ runTransform out = map (fun r => rTransform (r_rel r)) rs
    /\ (triNew2Old out = map fst s /\ Permutation (map fst s) (iota 0 (length refs)) /\
        forall i r, In (i, r) s -> 0 <= i /\ nth_error refs (Z.to_nat i) = Some r)
    /\ StronglySorted stable_sorted s
    /\ outFaceID out = map face_of sorted
    /\ Permutation (map r_key rs) (m_keys m)
    /\ Forall (fun r => m_find (r_key r) m = Some (r_rel r)) rs
    /\ ((match rs with [] => n = 0 | r :: _ => r_start r = 0 end) /\
        Forall (fun re => r_start (fst re) <= snd re) (extents rs n))
    /\ (forall t r, nth_error sorted t = Some r ->
          exists run e, In (run, e) (extents rs n) /\ r_start run <= Z.of_nat t < e /\ r_key run = meshID r)
    /\ StronglySorted run_order (extents rs n).
Proof.
  intros T tid m refs Hm Hc.
  exact (match runs_partition_main tid m refs Hm Hc with conj a (conj b (conj c (conj d (conj e f)))) =>
         conj eq_refl (conj eq_refl (conj eq_refl (conj eq_refl
           (conj (conj eq_refl (conj (sort_tris_indices false refs) (sort_tris_pairs false refs)))
             (conj (sort_tris_stable refs) (conj eq_refl (conj a (conj b (conj (conj c d) (conj e f)))))))))) end).
Qed.
Print Assumptions runs_partition.

(* hypotheses are satisfiable and the conclusion is not vacuous: two originals
   (IDs 7 and 3), original 3 instanced twice (keys 11 and 13), key 12 unused *)
Example runs_partition_example :
  let m := [(10, mkRel 7 100 false false); (11, mkRel 3 101 true false);
            (12, mkRel 5 102 false true); (13, mkRel 3 103 false false)] in
  let refs := [mkTriRef 10 7 (-1) 0; mkTriRef 13 3 4 1; mkTriRef 11 3 (-1) 2; mkTriRef 10 7 (-1) 3; mkTriRef 11 3 9 4] in
  map_ok m /\ rel_consistent m refs /\
  get_mesh_runs 0 false m refs =
    mkMeshRuns [2; 4; 1; 0; 3] [2; 9; 4; 0; 3] [0; 6; 9; 15; 15] [3; 3; 7; 5] [1; 0; 0; 2] [101; 103; 100; 102] [11; 13; 10; 12].
Proof.
  cbv zeta. split; [cbn; repeat split; reflexivity|]. split; [|vm_compute; reflexivity].
  unfold rel_consistent.
  repeat (apply Forall_cons; [split; [cbn; discriminate|eexists; split; [vm_compute; reflexivity|reflexivity]]|]).
  apply Forall_nil.
Qed.

(* std::stable_sort is pinned down by its contract: any arrangement that is a
   permutation, sorted for the comparator and stable IS the model's list. *)
Theorem stable_sort_unique :
  forall refs (l : list (Z * TriRef)),
    Permutation (combine (iota 0 (length refs)) refs) l ->
    StronglySorted stable_sorted l ->
    l = sort_tris false refs.
Proof. exact stable_sort_unique_l. Qed.
Print Assumptions stable_sort_unique.

(* an original (triangles keep their order; InitializeOriginal gives all of them
   one meshID and a one-entry map): exactly one run, starting at 0 *)
Theorem runs_partition_original :
  forall (T : Type) (tid : T) id (rel : Relation T) refs,
    id <> -1 -> Forall (fun r => meshID r = id) refs ->
    all_runs tid [(id, rel)] (map snd (sort_tris true refs)) = [mkRun 0 id rel] /\
    map fst (sort_tris true refs) = iota 0 (length refs).
Proof.
  intros T tid id rel refs Hid F.
  exact (conj (eq_ind_r (fun l => all_runs tid [(id, rel)] l = [mkRun 0 id rel])
                        (all_runs_original T tid id rel refs Hid F) (map_snd_combine_iota _ refs 0))
              (map_fst_combine_iota _ refs 0)).
Qed.
Print Assumptions runs_partition_original.

(* ---------------------------------------------------------------- ids_stay_distinct *)
(* Boolean (UpdateReference): if all keys of P and Q are in [0, counter) then the
   result map keeps every P entry under its key, every Q entry under key+counter
   with backSide ^= invertQ, those two key sets are disjoint, and nothing else
   is in the map. *)
Theorem ids_stay_distinct_boolean :
  forall (T : Type) counter invertQ (mP mQ : zmap (Relation T)),
    map_ok mP -> map_ok mQ -> keys_below counter mP -> keys_below counter mQ ->
    let mR := merge_maps counter invertQ mP mQ [] in
    map_ok mR /\
    (forall k v, m_find k mP = Some v -> m_find k mR = Some v) /\
    (forall k v, m_find k mQ = Some v -> m_find (k + counter) mR = Some (flip_back invertQ v)) /\
    (forall kp kq, In kp (m_keys mP) -> In kq (m_keys mQ) -> kp <> kq + counter) /\
    (forall k, In k (m_keys mR) <-> In k (m_keys mP) \/ exists kq, In kq (m_keys mQ) /\ k = kq + counter).
Proof. intros T. exact (@boolean_ids_distinct T). Qed.
Print Assumptions ids_stay_distinct_boolean.

Example ids_boolean_example :
  let mP := [(4, mkRel 4 0 false false)] in let mQ := [(4, mkRel 4 1 false false); (6, mkRel 2 2 true false)] in
  map_ok mP /\ map_ok mQ /\ keys_below 9 mP /\ keys_below 9 mQ /\
  merge_maps 9 true mP mQ [] = [(4, mkRel 4 0 false false); (13, mkRel 4 1 true false); (15, mkRel 2 2 false false)].
Proof. cbv zeta. repeat split; try (repeat constructor; cbn; lia). Qed.

(* IncrementMeshIDs: new keys are counter, counter+1, ... in old key order; the
   renaming is injective and order preserving (two instances of one original
   never merge, runs keep their relative order), every Relation travels with
   its key, and triangles are renamed consistently. *)
Theorem ids_stay_distinct_increment :
  forall (T : Type) counter (m : zmap (Relation T)) refs m' refs' c',
    map_ok m ->
    increment_mesh_ids counter m refs = Some (m', refs', c') ->
    let old2new := combine (m_keys m) (iota counter (length m)) in
    m' = combine (iota counter (length m)) (map snd m) /\ c' = counter + Z.of_nat (length m) /\ map_ok m' /\
    Forall2 (fun r r' => m_find (meshID r) old2new = Some (meshID r') /\ originalID r' = originalID r /\
                         faceID r' = faceID r /\ coplanarID r' = coplanarID r) refs refs' /\
    (forall k1 k2 id1 id2, m_find k1 old2new = Some id1 -> m_find k2 old2new = Some id2 ->
        (k1 < k2 <-> id1 < id2) /\ (k1 = k2 <-> id1 = id2) /\ counter <= id1 < c') /\
    (forall k id, m_find k old2new = Some id -> m_find id m' = m_find k m).
Proof. intros T. exact (@increment_ids_spec T). Qed.
Print Assumptions ids_stay_distinct_increment.

(* ... and it is defined (no read of an absent hash slot) whenever every
   triangle's meshID is a key of the map *)
Theorem increment_defined_when_consistent :
  forall (T : Type) counter (m : zmap (Relation T)) refs,
    Forall (fun r => In (meshID r) (m_keys m)) refs -> exists res, increment_mesh_ids counter m refs = Some res.
Proof. intros T. exact (@increment_defined T). Qed.
Print Assumptions increment_defined_when_consistent.

Example increment_example :
  increment_mesh_ids 20 [(4, mkRel 4 0 false false); (13, mkRel 4 1 true false)] [mkTriRef 13 4 (-1) 5; mkTriRef 4 4 2 0]
  = Some ([(20, mkRel 4 0 false false); (21, mkRel 4 1 true false)], [mkTriRef 21 4 (-1) 5; mkTriRef 20 4 2 0], 22).
Proof. reflexivity. Qed.

(* Compose: node i's keys are shifted by i*snapshot; with all keys in
   [0, snapshot) shifted keys of different nodes never coincide ... *)
Theorem ids_stay_distinct_compose_offsets :
  forall snapshot i j k1 k2,
    0 <= i -> 0 <= j -> 0 <= k1 < snapshot -> 0 <= k2 < snapshot ->
    k1 + i * snapshot = k2 + j * snapshot -> i = j /\ k1 = k2.
Proof. exact compose_offsets_disjoint. Qed.
Print Assumptions ids_stay_distinct_compose_offsets.

(* ... and in the ported loop the entry of node j under key k ends up under
   k + j*snapshot carrying the node's lazy transform applied on the left
   (unchanged when that transform is the identity); later nodes do not overwrite it. *)
Theorem ids_stay_distinct_compose :
  forall (nodes : list cnode) snapshot j t m refs k rel,
    0 < snapshot ->
    Forall (fun nd => map_ok (snd (fst nd)) /\ keys_below snapshot (snd (fst nd))) nodes ->
    nth_error nodes j = Some (t, m, refs) -> m_find k m = Some rel ->
    m_find (k + Z.of_nat j * snapshot) (fst (compose_relation snapshot nodes)) = Some (node_rel t rel).
Proof.
  intros nodes snapshot j t m refs k rel Hs F Hn Hf.
  exact (compose_find nodes 0 snapshot [] j t m refs k rel Hs (Z.le_refl 0) F Hn Hf).
Qed.
Print Assumptions ids_stay_distinct_compose.

(* ---------------------------------------------------------------- relation_transform_compose
   3x4 affine maps over Z (ring identities).  After any chain of Impl::Transform
   calls t1, t2, ... (identity ones take the `return *this` shortcut) the stored
   transform of every key maps a source point to where the chain maps it, and
   originalID / backSide / hasNormals are untouched. *)
Theorem relation_transform_compose :
  forall (ts : list M34) (m : zmap (Relation M34)) k rel,
    m_find k m = Some rel ->
    exists rel', m_find k (fold_left (fun a t => impl_transform t a) ts m) = Some rel' /\ same_meta rel rel' /\
                 forall p, m34apply (rTransform rel') p = fold_left (fun q t => m34apply t q) ts (m34apply (rTransform rel) p).
Proof. exact transform_chain. Qed.
Print Assumptions relation_transform_compose.

(* the stored product is associative: composing lazily (CsgLeafNode::Transform
   multiplies transform_ first) or eagerly gives the same matrix *)
Theorem relation_transform_assoc :
  forall a b c p, m34mul a (m34mul b c) = m34mul (m34mul a b) c /\
                  m34apply (m34mul a b) p = m34apply a (m34apply b p) /\ m34mul m34id a = a.
Proof. intros a b c p. exact (conj (m34mul_assoc a b c) (conj (m34apply_mul a b p) (m34mul_id_l a))). Qed.
Print Assumptions relation_transform_assoc.

Example transform_chain_example :
  let t1 := mkM34 (mkV3 0 1 0) (mkV3 (-1) 0 0) (mkV3 0 0 1) (mkV3 5 0 0) in       (* rotate + translate *)
  let t2 := mkM34 (mkV3 (-1) 0 0) (mkV3 0 1 0) (mkV3 0 0 1) (mkV3 0 0 2) in       (* mirror *)
  m_find 3 (fold_left (fun a t => impl_transform t a) [t1; m34id; t2] [(3, mkRel 3 m34id false false)])
  = Some (mkRel 3 (mkM34 (mkV3 0 1 0) (mkV3 1 0 0) (mkV3 0 0 1) (mkV3 (-5) 0 2)) false false).
Proof. reflexivity. Qed.

(* ---------------------------------------------------------------- backside_parity
   An entry that takes part in Booleans as the Q operand with invertQ flags
   e1, e2, ... (invertQ = the operation is Subtract) ends with
   backSide = initial xor parity of the true flags; as the P operand it is
   untouched (ids_stay_distinct_boolean, second conjunct). *)
Theorem backside_parity :
  forall (T : Type) (events : list bool) (rel : Relation T),
    let r := fold_left (fun r e => flip_back e r) events rel in
    rBackSide r = xorb (rBackSide rel) (fold_left xorb events false) /\
    rOriginalID r = rOriginalID rel /\ rTransform r = rTransform rel /\ rHasNormals r = rHasNormals rel.
Proof. exact flip_chain. Qed.
Print Assumptions backside_parity.

(* ---------------------------------------------------------------- barycentric_affine
   GetBarycentric ported over Q (exact).  Non-snapped triangle branch: for a
   point v in the plane of a non-degenerate triangle, not within tolerance of a
   corner or an edge line, the weights sum to 1 and reproduce v, coordinate by
   coordinate (f ranges over the three coordinate projections). *)
Local Open Scope Q_scope.
Theorem barycentric_affine :
  forall p0 p1 p2 v tol,
    let tri := (p0, p1, p2) in let tol2 := tol * tol in let N := tri_crossP tri in
    near_vert tri v tol2 0 = false -> near_vert tri v tol2 1 = false -> near_vert tri v tol2 2 = false ->
    Qltb (edge_d2 tri (long_side tri)) tol2 = false ->
    Qltb (edge_d2 tri (long_side tri) * tol2) (q3dot N N) = true ->
    edge_snapped tri v tol2 0 = false -> edge_snapped tri v tol2 1 = false -> edge_snapped tri v tol2 2 = false ->
    ~ q3dot N N == 0 ->
    q3dot N (q3sub v p0) == 0 ->
    let '(a, b, c) := get_barycentric v tri tol in
    a + b + c == 1 /\
    (forall f : Q3 -> Q, (f = qx \/ f = qy \/ f = qz) -> a * f p0 + b * f p1 + c * f p2 == f v).
Proof. exact barycentric_affine_main. Qed.
Print Assumptions barycentric_affine.

(* hence CreateProperties reproduces every affine property field exactly and
   pushes 0 for channels the source mesh lacks *)
Theorem barycentric_affine_fields :
  forall (a b c : Q) p0 p1 p2 v ga gb gc gd oldNumProp p,
    a + b + c == 1 ->
    (forall f : Q3 -> Q, (f = qx \/ f = qy \/ f = qz) -> a * f p0 + b * f p1 + c * f p2 == f v) ->
    interp_channel (a, b, c) oldNumProp p
       (affine_field ga gb gc gd p0, affine_field ga gb gc gd p1, affine_field ga gb gc gd p2)
    == if (p <? oldNumProp)%nat then affine_field ga gb gc gd v else 0.
Proof. exact interp_affine. Qed.
Print Assumptions barycentric_affine_fields.

Example barycentric_example :
  (let '(a, b, c) := get_barycentric (mkQ3 1 1 0) (mkQ3 0 0 0, mkQ3 4 0 0, mkQ3 0 4 0) (1 # 100) in
   a == 1 # 2 /\ b == 1 # 4 /\ c == 1 # 4)
  /\ near_vert (mkQ3 0 0 0, mkQ3 4 0 0, mkQ3 0 4 0) (mkQ3 1 1 0) ((1 # 100) * (1 # 100)) 0 = false
  /\ edge_snapped (mkQ3 0 0 0, mkQ3 4 0 0, mkQ3 0 4 0) (mkQ3 1 1 0) ((1 # 100) * (1 # 100)) 2 = false.
Proof. vm_compute. repeat split; reflexivity. Qed.

(* ---------------------------------------------------------------- snapped branches of GetBarycentric
   (all over Q, exact).  tol2 = tolerance^2. *)

(* vertex snap: the first corner within tolerance wins, the result is its unit vector (weights >= 0,
   sum 1) and the interpolated point P_i is closer than tolerance to v. *)
Theorem barycentric_snap_vertex :
  forall v tri tol,
    let tol2 := tol * tol in
    let dist2 i := q3dot (q3sub v (q3nth tri i)) (q3sub v (q3nth tri i)) in
    (near_vert tri v tol2 0 = true -> get_barycentric v tri tol = (1, 0, 0) /\ dist2 0%nat < tol2) /\
    (near_vert tri v tol2 0 = false -> near_vert tri v tol2 1 = true -> get_barycentric v tri tol = (0, 1, 0) /\ dist2 1%nat < tol2) /\
    (near_vert tri v tol2 0 = false -> near_vert tri v tol2 1 = false -> near_vert tri v tol2 2 = true ->
       get_barycentric v tri tol = (0, 0, 1) /\ dist2 2%nat < tol2).
Proof. exact snap_vertex_full. Qed.
Print Assumptions barycentric_snap_vertex.

(* edge snap (triangle branch): if v is inside the tolerance-grown triangle - every raw weight is
   non-negative or its edge line is within tolerance (snapped) - and the kept weights have a
   positive sum, then the returned weights are non-negative, sum to 1, and every snapped corner
   gets exactly 0 (so the result is a convex combination of the corners of the edge(s) v sits on). *)
Theorem barycentric_snap_edge :
  forall p0 p1 p2 v tol,
    let tri := (p0, p1, p2) in let tol2 := tol * tol in let N := tri_crossP tri in
    near_vert tri v tol2 0 = false -> near_vert tri v tol2 1 = false -> near_vert tri v tol2 2 = false ->
    Qltb (edge_d2 tri (long_side tri)) tol2 = false ->
    Qltb (edge_d2 tri (long_side tri) * tol2) (q3dot N N) = true ->
    (forall i, (i < 3)%nat -> edge_snapped tri v tol2 i = true \/ 0 <= raw_w tri v i) ->
    0 < snapped_w tri v tol2 0 + snapped_w tri v tol2 1 + snapped_w tri v tol2 2 ->
    let '(a, b, c) := get_barycentric v tri tol in
    0 <= a /\ 0 <= b /\ 0 <= c /\ a + b + c == 1 /\
    (edge_snapped tri v tol2 0 = true -> a == 0) /\ (edge_snapped tri v tol2 1 = true -> b == 0) /\
    (edge_snapped tri v tol2 2 = true -> c == 0).
Proof. exact snap_edge_weights. Qed.
Print Assumptions barycentric_snap_edge.

(* error of an edge snap.  With r_i the raw weights (r0+r1+r2 = N.N, v' = sum r_i P_i / N.N the
   projection of v into the plane - barycentric_affine) and corner 0's edge snapped, each coordinate
   of the interpolated point differs from v' by  w0 (v' - P0) / (1 - w0),  w0 = r0 / N.N;  and the
   dropped weight is small:  r0^2 <= |e0|^2 tol^2 |N|^2,  i.e. |w0| <= tol / h0  (h0 the height over
   the snapped edge, > tol in this branch).  Hence |result - v'| <= (tol/h0) |v' - P0| / (1 - tol/h0). *)
Theorem barycentric_snap_edge_error :
  (forall r0 r1 r2 x0 x1 x2 : Q, ~ r1 + r2 == 0 -> ~ r0 + r1 + r2 == 0 ->
     (r1 * x1 + r2 * x2) / (r1 + r2) - (r0 * x0 + r1 * x1 + r2 * x2) / (r0 + r1 + r2)
     == r0 * ((r0 * x0 + r1 * x1 + r2 * x2) / (r0 + r1 + r2) - x0) / (r1 + r2)) /\
  (forall tri v tol2 i, edge_snapped tri v tol2 i = true ->
     raw_w tri v i * raw_w tri v i <= edge_d2 tri i * tol2 * q3dot (tri_crossP tri) (tri_crossP tri)).
Proof. exact (conj snap_edge_error_identity snap_edge_weight_bound). Qed.
Print Assumptions barycentric_snap_edge_error.

(* needle branch (area^2 <= longest^2 tol^2): the corner opposite the longest edge gets 0, the weights
   sum to 1, they are non-negative when the projection parameter alpha lies in [0,1], and the
   interpolated point is the orthogonal projection of v onto the longest edge's line (so the error is
   exactly v's distance from that line). *)
Theorem barycentric_needle :
  forall p0 p1 p2 v tol,
    let tri := (p0, p1, p2) in let tol2 := tol * tol in let N := tri_crossP tri in
    near_vert tri v tol2 0 = false -> near_vert tri v tol2 1 = false -> near_vert tri v tol2 2 = false ->
    Qltb (edge_d2 tri (long_side tri)) tol2 = false ->
    Qltb (edge_d2 tri (long_side tri) * tol2) (q3dot N N) = false ->
    ~ edge_d2 tri (long_side tri) == 0 ->
    let L := long_side tri in
    let e := q3nth (tri_edges tri) L in
    let alpha := q3dot (q3sub v (q3nth tri (next3 L))) e / edge_d2 tri L in
    let '(a, b, c) := get_barycentric v tri tol in
    qnth (a, b, c) L == 0 /\ a + b + c == 1 /\
    (0 <= alpha -> alpha <= 1 -> 0 <= a /\ 0 <= b /\ 0 <= c) /\
    q3dot (q3sub (mkQ3 (a * qx p0 + b * qx p1 + c * qx p2) (a * qy p0 + b * qy p1 + c * qy p2) (a * qz p0 + b * qz p1 + c * qz p2)) v) e == 0.
Proof. exact needle_full. Qed.
Print Assumptions barycentric_needle.

(* ... and that distance is at most tolerance for every point of the triangle: with |N|^2 <= |e|^2 tol^2
   (the branch condition) and v = a P0 + b P1 + c P2, a in [0,1], a + b + c = 1, the squared distance
   |e x (v - P1)|^2 / |e|^2 from the line of the edge opposite P0 is a^2 |N|^2 / |e|^2 <= tol^2
   (stated for corner 0; the other corners by renaming). *)
Theorem barycentric_needle_error :
  forall (p0 p1 p2 : Q3) (a b tol2 : Q),
    let c := 1 - a - b in
    let v := mkQ3 (a * qx p0 + b * qx p1 + c * qx p2) (a * qy p0 + b * qy p1 + c * qy p2) (a * qz p0 + b * qz p1 + c * qz p2) in
    let e := q3sub p2 p1 in
    let N := tri_crossP (p0, p1, p2) in
    0 <= a -> a <= 1 -> q3dot N N <= q3dot e e * tol2 ->
    q3dot (q3cross e (q3sub v p1)) (q3cross e (q3sub v p1)) <= q3dot e e * tol2.
Proof. exact needle_bound. Qed.
Print Assumptions barycentric_needle_error.

(* point branch (longest edge shorter than tolerance): the answer is corner 0's unit vector.
   PARTIAL: the error bound |P0 - v| < tolerance for points v of the triangle (all edges are shorter
   than the longest one, which is shorter than tolerance) is not proved. *)
Theorem barycentric_point_partial :
  forall v tri tol,
    let tol2 := tol * tol in
    near_vert tri v tol2 0 = false -> near_vert tri v tol2 1 = false -> near_vert tri v tol2 2 = false ->
    Qltb (edge_d2 tri (long_side tri)) tol2 = true ->
    get_barycentric v tri tol = (1, 0, 0).
Proof. exact point_branch. Qed.
Print Assumptions barycentric_point_partial.

Example barycentric_snap_edge_example :
  (* v is 1/1000 outside edge P0P1 of a 4-4 right triangle, tolerance 1/100: corner 2 snaps to 0 *)
  let tri := (mkQ3 0 0 0, mkQ3 4 0 0, mkQ3 0 4 0) in
  edge_snapped tri (mkQ3 1 (-1 # 1000) 0) ((1 # 100) * (1 # 100)) 2 = true /\
  (let '(a, b, c) := get_barycentric (mkQ3 1 (-1 # 1000) 0) tri (1 # 100) in c == 0 /\ a + b == 1 /\ 0 <= a /\ 0 <= b).
Proof. vm_compute. repeat split; intro; discriminate. Qed.

(* ---------------------------------------------------------------- related_check_sound
   The oracle of the check is the extracted check_triangle (RelatedCheckDefs.v), run on
   integers obtained by scaling the exported doubles by powers of two (positions 2^s,
   run transform 2^t, properties `one` = 2^r; all predicates are homogeneous).  S is the
   list of source triangles of the face the output triangle names, transformed exactly
   by the run transform (prep_x = m34apply4 + the edges/normal GetBarycentric forms).
   Whenever it answers 0 (accept), for a tolerance tol >= 0:
   - some non-degenerate triangle ref of the face has all three output corners within
     Euclidean distance tol of its plane  ((N.(q-P0))^2 <= tol^2 N.N);
   - the output triangle is oriented like ref times ws (ws = sign(det T), negated for a
     back-side run), unless its area is below tol^2 or it is perpendicular;
   - every corner lies in the tol-grown outline of a triangle t of the face (for each edge:
     on the inner side, or at most tol outside: u^2 <= tol^2 |e|^2 |N|^2), and so does the
     centroid (stated at scale 3);
   - for that t, with u the unnormalised barycentric weights of the corner (weight_sum,
     weight_pos: the weights GetBarycentric's non-snapped branch uses, which reproduce
     affine fields - barycentric_affine_fields), every channel the source has satisfies
     |got - sum u_k pv_k / sum u| <= (kn/kd) (1 + max|pv|) when checkProps is set, and every
     channel it lacks is exactly 0. *)
Local Open Scope Z_scope.
Theorem related_check_sound :
  forall tol ws kn kd one (checkProps : bool) (S : list PTri) q0 q1 q2 g0 g1 g2,
    0 <= tol ->
    check_triangle tol ws kn kd one checkProps S q0 q1 q2 g0 g1 g2 = 0 ->
    exists ref, In ref S /\ vdot (pn ref) (pn ref) <> 0 /\
      plane_close tol ref q0 /\ plane_close tol ref q1 /\ plane_close tol ref q2 /\
      orient_ok tol ws ref q0 q1 q2 /\
      corner_ok tol kn kd one checkProps S q0 g0 /\ corner_ok tol kn kd one checkProps S q1 g1 /\
      corner_ok tol kn kd one checkProps S q2 g2 /\
      exists t, In t S /\ inside (3 * tol) (scale_t 3 t) (vadd3 q0 q1 q2).
Proof. exact check_triangle_sound_l. Qed.
Print Assumptions related_check_sound.

(* the weights the checker interpolates with are the barycentric numerators: they sum to
   N.N and reproduce the position up to the off-plane component, for every point q *)
Theorem related_check_weights :
  forall p0 p1 p2 props q,
    let t := prep p0 p1 p2 props in
    weight t q 0 + weight t q 1 + weight t q 2 = vdot (pn t) (pn t) /\
    (forall f : V3 -> Z, (f = vx \/ f = vy \/ f = vz) ->
       weight t q 0 * f p0 + weight t q 1 * f p1 + weight t q 2 * f p2
       = vdot (pn t) (pn t) * f q - vdot (pn t) (vsub q p0) * f (pn t)).
Proof. intros p0 p1 p2 props q. exact (conj (weight_sum p0 p1 p2 props q) (weight_pos p0 p1 p2 props q)). Qed.
Print Assumptions related_check_weights.

(* the face an output triangle names through a user face ID: exactly the source triangles carrying that ID *)
Theorem related_check_face_by_id :
  forall ids f k, In k (face_by_id ids f 0) <-> exists j, nth_error ids j = Some f /\ k = Z.of_nat j.
Proof. intros ids f k. exact (face_by_id_sound ids f 0 k). Qed.
Print Assumptions related_check_face_by_id.

Example related_check_example :
  let S := [prep (mkV3 0 0 0) (mkV3 8 0 0) (mkV3 0 8 0) [(0, 16, 0)]] in
  check_triangle 1 1 1 1000 1 true S (mkV3 0 0 0) (mkV3 4 0 0) (mkV3 0 4 0) [0] [8] [0] = 0 /\
  check_triangle 1 1 1 1000 1 true S (mkV3 0 0 0) (mkV3 4 0 0) (mkV3 0 4 0) [0] [9] [0] = 6 /\
  check_triangle 1 1 1 1000 1 true S (mkV3 0 0 0) (mkV3 0 4 0) (mkV3 4 0 0) [0] [0] [8] = 3 /\
  check_triangle 1 1 1 1000 1 true S (mkV3 0 0 5) (mkV3 4 0 5) (mkV3 0 4 5) [0] [8] [0] = 2 /\
  check_triangle 1 1 1 1000 1 true S (mkV3 0 0 0) (mkV3 12 0 0) (mkV3 0 4 0) [0] [8] [0] = 4.
Proof. vm_compute. repeat split; reflexivity. Qed.

(* ---------------------------------------------------------------- prop_key_dedup
   CreateProperties (src/boolean_result.cpp) ported: per corner the key
   (PQ, idMissProp | vert, source prop vertex | min, -1 | max) and the two containers
   (propMissIdx[PQ][z] for retained vertices, the bins propIdx[y] otherwise).
   For every list of corners processed in order: two corners receive the same property
   vertex only if they come from the same operand (PQ), have the same key.z (the retained
   source property vertex, or the smaller one of the edge, or -1), and EITHER the same
   key.y and key.w (same position vertex of the result and same larger source property
   vertex - edge and face-interior cases; for an operand WITHOUT channels key.y is
   idMissProp for every corner, so all its corners share one all-zero property vertex) OR
   both are retained-vertex corners (key.y = idMissProp, z >= 0: same operand and same
   source property vertex; the position vertex is not part of that key - it is the same
   only because a source property vertex sits at one source position vertex, a fact
   about the operand's mesh, not about this code). *)
Local Open Scope Z_scope.
Theorem prop_key_dedup :
  forall idMiss (cs : list Corner) i j ci cj v,
    nth_error cs i = Some ci -> nth_error cs j = Some cj ->
    nth_error (assign_props idMiss 0 [] cs) i = Some v -> nth_error (assign_props idMiss 0 [] cs) j = Some v ->
    let '(xi, yi, zi, wi) := prop_key idMiss ci in
    let '(xj, yj, zj, wj) := prop_key idMiss cj in
    cPQ ci = cPQ cj /\ zi = zj /\
    ((yi = yj /\ wi = wj) \/ (yi = idMiss /\ yj = idMiss /\ 0 <= zi)).
Proof. exact dedup_main. Qed.
Print Assumptions prop_key_dedup.

(* the key, case by case: no channels / retained vertex (some uvw_j == 1) / on an edge (some uvw_e == 0,
   none 1: both source property vertices of that edge) / face interior *)
Theorem prop_key_cases_spec :
  forall idMiss c,
    let k := prop_key idMiss c in
    (cOldNumProp c <= 0 /\ k = ((if cPQ c then 1 else 0), idMiss, -1, -1)) \/
    (0 < cOldNumProp c /\ exists j, 0 <= j <= 2 /\ nth3 (cUVW c) j = WOne /\
        k = ((if cPQ c then 1 else 0), idMiss, nth3 (cSrcProp c) j, -1)) \/
    (0 < cOldNumProp c /\ exists e, 0 <= e <= 2 /\ nth3 (cUVW c) e = WZero /\
        k = ((if cPQ c then 1 else 0), cVert c,
             Z.min (nth3 (cSrcProp c) (next3z e)) (nth3 (cSrcProp c) (prev3z e)),
             Z.max (nth3 (cSrcProp c) (next3z e)) (nth3 (cSrcProp c) (prev3z e)))) \/
    (0 < cOldNumProp c /\ k = ((if cPQ c then 1 else 0), cVert c, -1, -1)).
Proof. exact prop_key_cases. Qed.
Print Assumptions prop_key_cases_spec.

Example prop_key_dedup_example :
  (* two corners of P on the same result vertex 7 and the same source edge (5,9) share; a corner of a channel-less Q does not *)
  assign_props 100 0 [] [mkCorner true 7 2 (WZero, WOther, WOther) (3, 5, 9); mkCorner true 7 2 (WOther, WOther, WZero) (9, 5, 4);
                         mkCorner false 7 0 (WOther, WOther, WOther) (0, 0, 0); mkCorner true 8 2 (WOne, WZero, WZero) (3, 5, 9)]
  = [0; 0; 1; 2].
Proof. reflexivity. Qed.

(* ---------------------------------------------------------------- carry-over of refs and property vertices
   Subdivide copies the parent's TriRef to every sub-triangle. *)
Theorem subdivide_keeps_refs :
  forall R (refs : list R) counts r, In r (subdivide_refs refs counts) -> In r refs.
Proof. exact subdivide_refs_parent. Qed.
Print Assumptions subdivide_keeps_refs.

(* CollapseEdge (edge_op.cpp, "Orbit startVert"): a halfedge around the removed vertex is re-pointed to
   endVert's property vertex only if its property vertex is startProp0 (the one on tri0) or startProp1
   (the one on tri1); ANY OTHER property vertex is kept although its position vertex changes.  This is
   the branch that loses the interpolation in the known finding
   property-not-interpolated:corpus-tet-edge-in-cube-face: earlier short-edge collapses merge coincident
   new vertices at (0,0,1), so the surviving vertex carries several property vertices of the SAME cube face
   (equal values, different indices: CreateProperties keys include the position vertex); the following
   colinear collapse (0,0,1) -> (0.5,0,1) along the cube edge has startProp0 = 2, startProp1 = 11, and
   the two bottom-face triangles that use property vertex 8 (same face as tri1) keep it: their corner
   now sits at (0.5,0,1) with the value interpolated for (0,0,1).  A repair has to re-point by face
   (triRef SameFace with tri0/tri1), or merge equal property vertices before collapsing. *)
Theorem collapse_edge_keeps_third_property_vertex :
  forall sp0 ep0 sp1 ep1 p, p <> sp0 -> p <> sp1 -> collapse_prop sp0 ep0 sp1 ep1 p = p.
Proof. exact collapse_prop_third. Qed.
Print Assumptions collapse_edge_keeps_third_property_vertex.

(* The complementary branch of the same rule (second witness, corpus-crossing-edges-shared-prop): a halfedge whose
   property vertex at the removed vertex EQUALS startProp0 is re-pointed to endProp0 whatever face its triangle
   belongs to.  In the witness two coincident crossing vertices at (0.1875,0.1875,1) are merged by a short-edge
   collapse; tri0/tri1 lie in face 102, the triangles of face 101 share property vertex 9 (value 2) with face 102 at
   the removed vertex (the two faces agree there) and are re-pointed to face 102's property vertex 17 (value
   -2.0625) of the kept vertex, where the faces do not agree.  Both symptoms have one cause: the rule identifies
   "same face" with "same property-vertex index at startVert". *)
Theorem collapse_edge_repoints_by_index :
  forall sp0 ep0 sp1 ep1 p, p = sp0 -> collapse_prop sp0 ep0 sp1 ep1 p = ep0.
Proof. exact collapse_prop_by_index. Qed.
Print Assumptions collapse_edge_repoints_by_index.

Example collapse_edge_witness : collapse_prop 2 6 11 10 8 = 8 /\ collapse_prop 2 6 11 10 2 = 6 /\ collapse_prop 2 6 11 10 11 = 10.
Proof. repeat split; reflexivity. Qed.
