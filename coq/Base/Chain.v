(* Base/Chain.v — the chain algebra of DESIGN.md section 2.4.

   The free abelian group on directed edges modulo reversal:
       [a->b] = -[b->a]      [a->a] = 0.
   A chain is a formal sum of directed edges (a list; -c is `crev c`).  Two
   chains are equal in the quotient iff they have the same coefficient
   `coef c a b : Z` for all a b (`ceq`).  Goals about chains close by rewriting
   with `coef_app`, `coef_cons`, `coef_boundary`, ... and `lia`.

   For executable checkers a chain is normalised (`normalise`) to an
   association list  (lo,hi) |-> w  with lo < hi, w <> 0, strictly sorted by key;
   `normalise_coef` relates it to `coef`, and `chain_eqb` decides `ceq`
   (sound and complete: `chain_eqb_spec`).

   Linear functionals (shoelace area, divergence volume, ...): for an
   antisymmetric f, `lin f` respects `ceq` (`lin_ceq`).

   Reused by C10, C11, C17, C19: keep the names stable. *)
From Coq Require Import ZArith List Bool Lia Permutation Sorting.Mergesort Orders.
Import ListNotations.
Local Open Scope Z_scope.

Definition edge : Type := (Z * Z)%type.
Definition chain : Type := list edge.
Definition tri : Type := (Z * Z * Z)%type.

Definition ind (b : bool) : Z := if b then 1 else 0.

(* coefficient of the generator [a->b] in the single edge [x->y] *)
Definition edge1 (x y a b : Z) : Z :=
  ind ((x =? a) && (y =? b)) - ind ((x =? b) && (y =? a)).

Fixpoint coef (c : chain) (a b : Z) : Z :=
  match c with
  | [] => 0
  | (x, y) :: t => edge1 x y a b + coef t a b
  end.

(* equality in the quotient group *)
Definition ceq (c1 c2 : chain) : Prop := forall a b, coef c1 a b = coef c2 a b.

(* -c *)
Definition crev (c : chain) : chain := map (fun e => (snd e, fst e)) c.

(* boundary of a triangle *)
Definition boundary (t : tri) : chain :=
  let '(a, b, c) := t in [(a, b); (b, c); (c, a)].
Definition boundaries (ts : list tri) : chain := flat_map boundary ts.

(* edges of an open path v0 v1 ... vk and of a closed contour *)
Fixpoint path_edges (l : list Z) : chain :=
  match l with
  | a :: ((b :: _) as t) => (a, b) :: path_edges t
  | _ => []
  end.
Definition contour (l : list Z) : chain :=
  match l with [] => [] | x :: _ => path_edges (l ++ [x]) end.
Definition contours (ls : list (list Z)) : chain := flat_map contour ls.

(* linear functional induced by a function on directed edges *)
Fixpoint lin (f : Z -> Z -> Z) (c : chain) : Z :=
  match c with [] => 0 | (x, y) :: t => f x y + lin f t end.

Definition antisym (f : Z -> Z -> Z) : Prop := forall a b, f a b = - f b a.

(* ------------------------------------------------------------------ *)
(* edge1 *)

Ltac edge1_tac :=
  unfold edge1, ind;
  repeat match goal with
  | |- context [(?x =? ?y)] => destruct (Z.eqb_spec x y)
  end; cbn [andb]; try lia.

Lemma edge1_antisym x y a b : edge1 x y a b = - edge1 x y b a.
Proof. edge1_tac. Qed.
Lemma edge1_swap x y a b : edge1 y x a b = - edge1 x y a b.
Proof. edge1_tac. Qed.
Lemma edge1_loop x a b : edge1 x x a b = 0.
Proof. edge1_tac. Qed.
Lemma edge1_diag x y a : edge1 x y a a = 0.
Proof. edge1_tac. Qed.
Lemma edge1_self a b : a <> b -> edge1 a b a b = 1.
Proof. intros; edge1_tac. Qed.

(* ------------------------------------------------------------------ *)
(* coef *)

Lemma coef_nil a b : coef [] a b = 0.
Proof. reflexivity. Qed.
Lemma coef_cons x y c a b : coef ((x, y) :: c) a b = edge1 x y a b + coef c a b.
Proof. reflexivity. Qed.
Lemma coef_app c1 c2 a b : coef (c1 ++ c2) a b = coef c1 a b + coef c2 a b.
Proof. induction c1 as [|[x y] t IH]; cbn [coef app]; [lia | rewrite IH; lia]. Qed.
Lemma coef_antisym c a b : coef c a b = - coef c b a.
Proof.
  induction c as [|[x y] t IH]; cbn [coef]; [lia|].
  rewrite IH, (edge1_antisym x y a b); lia.
Qed.
Lemma coef_diag c a : coef c a a = 0.
Proof. pose proof (coef_antisym c a a); lia. Qed.
Lemma coef_crev c a b : coef (crev c) a b = - coef c a b.
Proof.
  induction c as [|[x y] t IH]; cbn [coef crev map fst snd]; [lia|].
  fold (crev t). rewrite IH, edge1_swap; lia.
Qed.
Lemma coef_single x y a b : coef [(x, y)] a b = edge1 x y a b.
Proof. cbn [coef]; lia. Qed.
Lemma coef_loop x c a b : coef ((x, x) :: c) a b = coef c a b.
Proof. cbn [coef]; rewrite edge1_loop; lia. Qed.
(* cancellation of an edge against its reverse *)
Lemma coef_cancel x y c a b : coef ((x, y) :: (y, x) :: c) a b = coef c a b.
Proof. cbn [coef]; rewrite (edge1_swap x y); lia. Qed.
Lemma coef_perm c1 c2 a b : Permutation c1 c2 -> coef c1 a b = coef c2 a b.
Proof.
  induction 1 as [|[x y] l l' _ IH|[x y] [x' y'] l|l l' l'' _ IH1 _ IH2]; cbn [coef]; lia.
Qed.
Lemma coef_flat_map {A} (f : A -> chain) (l : list A) a b :
  coef (flat_map f l) a b = fold_right (fun x s => coef (f x) a b + s) 0 l.
Proof. induction l as [|x t IH]; cbn [flat_map fold_right coef]; [lia|]. rewrite coef_app, IH; lia. Qed.

Lemma coef_boundary p q r a b :
  coef (boundary (p, q, r)) a b = edge1 p q a b + edge1 q r a b + edge1 r p a b.
Proof. cbn [boundary coef]; lia. Qed.
Lemma coef_boundaries_nil a b : coef (boundaries []) a b = 0.
Proof. reflexivity. Qed.
Lemma coef_boundaries_cons t ts a b :
  coef (boundaries (t :: ts)) a b = coef (boundary t) a b + coef (boundaries ts) a b.
Proof. unfold boundaries; cbn [flat_map]; apply coef_app. Qed.
Lemma coef_boundaries_app t1 t2 a b :
  coef (boundaries (t1 ++ t2)) a b = coef (boundaries t1) a b + coef (boundaries t2) a b.
Proof. unfold boundaries; rewrite flat_map_app; apply coef_app. Qed.
Lemma coef_contours_cons l ls a b :
  coef (contours (l :: ls)) a b = coef (contour l) a b + coef (contours ls) a b.
Proof. unfold contours; cbn [flat_map]; apply coef_app. Qed.
Lemma coef_contours_app l1 l2 a b :
  coef (contours (l1 ++ l2)) a b = coef (contours l1) a b + coef (contours l2) a b.
Proof. unfold contours; rewrite flat_map_app; apply coef_app. Qed.

(* a triangle with two equal corners has zero boundary *)
Lemma boundary_degenerate p q r a b :
  p = q \/ q = r \/ r = p -> coef (boundary (p, q, r)) a b = 0.
Proof.
  rewrite coef_boundary. intros [->|[->| ->]].
  - rewrite edge1_loop, (edge1_swap q r); lia.
  - rewrite edge1_loop, (edge1_swap p r); lia.
  - rewrite edge1_loop, (edge1_swap p q); lia.
Qed.
Lemma boundary_rot p q r : ceq (boundary (p, q, r)) (boundary (q, r, p)).
Proof. intros a b; rewrite !coef_boundary; lia. Qed.
(* the ear-clipping step: [l->e] + [e->r] = [l->r] + boundary (l,e,r) *)
Lemma clip_identity l e r a b :
  edge1 l e a b + edge1 e r a b = edge1 l r a b + coef (boundary (l, e, r)) a b.
Proof. rewrite coef_boundary, (edge1_swap l r); lia. Qed.

Lemma path_edges_cons2 x y t : path_edges (x :: y :: t) = (x, y) :: path_edges (y :: t).
Proof. reflexivity. Qed.
Lemma path_edges_app_single l x y :
  path_edges ((l ++ [x]) ++ [y]) = path_edges (l ++ [x]) ++ [(x, y)].
Proof.
  induction l as [|p t IH]; [reflexivity|].
  destruct t as [|q t']; [reflexivity|].
  change (((p :: q :: t') ++ [x]) ++ [y]) with (p :: q :: ((t' ++ [x]) ++ [y])).
  change ((p :: q :: t') ++ [x]) with (p :: q :: (t' ++ [x])).
  rewrite !path_edges_cons2.
  change (path_edges (q :: (t' ++ [x]) ++ [y])) with (path_edges (((q :: t') ++ [x]) ++ [y])).
  rewrite IH. reflexivity.
Qed.

(* ------------------------------------------------------------------ *)
(* ceq is a congruence *)

Lemma ceq_refl c : ceq c c.
Proof. intros a b; reflexivity. Qed.
Lemma ceq_sym c1 c2 : ceq c1 c2 -> ceq c2 c1.
Proof. intros H a b; symmetry; apply H. Qed.
Lemma ceq_trans c1 c2 c3 : ceq c1 c2 -> ceq c2 c3 -> ceq c1 c3.
Proof. intros H1 H2 a b; rewrite H1; apply H2. Qed.
Lemma ceq_app c1 c2 d1 d2 : ceq c1 c2 -> ceq d1 d2 -> ceq (c1 ++ d1) (c2 ++ d2).
Proof. intros H1 H2 a b; rewrite !coef_app, H1, H2; reflexivity. Qed.
Lemma ceq_perm c1 c2 : Permutation c1 c2 -> ceq c1 c2.
Proof. intros H a b; apply coef_perm, H. Qed.
Lemma ceq_crev_app c : ceq (c ++ crev c) [].
Proof. intros a b; rewrite coef_app, coef_crev; cbn [coef]; lia. Qed.

(* ------------------------------------------------------------------ *)
(* executable normal form *)

Definition key : Type := (Z * Z)%type.
Definition wchain : Type := list (key * Z).

Definition kltb (k1 k2 : key) : bool :=
  (fst k1 <? fst k2) || ((fst k1 =? fst k2) && (snd k1 <? snd k2)).
Definition kleb (k1 k2 : key) : bool :=
  (fst k1 <? fst k2) || ((fst k1 =? fst k2) && (snd k1 <=? snd k2)).
Definition keqb (k1 k2 : key) : bool := (fst k1 =? fst k2) && (snd k1 =? snd k2).

Fixpoint wcoef (l : wchain) (a b : Z) : Z :=
  match l with [] => 0 | ((x, y), w) :: t => w * edge1 x y a b + wcoef t a b end.

(* orient every edge lo -> hi, dropping loops *)
Definition canon1 (e : edge) : wchain :=
  let '(x, y) := e in
  if x <? y then [((x, y), 1)] else if y <? x then [((y, x), -1)] else [].
Definition canon (c : chain) : wchain := flat_map canon1 c.

Module KeyOrder <: TotalLeBool.
  Definition t : Type := (key * Z)%type.
  Definition leb (a b : t) : bool := kleb (fst a) (fst b).
  Theorem leb_total : forall a1 a2, leb a1 a2 = true \/ leb a2 a1 = true.
  Proof.
    intros [[a b] w] [[c d] w']; unfold leb, kleb; cbn [fst snd].
    destruct (Z.ltb_spec a c), (Z.ltb_spec c a), (Z.eqb_spec a c), (Z.eqb_spec c a),
      (Z.leb_spec b d), (Z.leb_spec d b); cbn; auto; lia.
  Qed.
End KeyOrder.
Module KeySort := Sort KeyOrder.

(* add up runs of equal keys of a sorted list, drop zeros *)
Fixpoint combine_runs (l : wchain) : wchain :=
  match l with
  | [] => []
  | (k, w) :: t =>
    match combine_runs t with
    | (k', w') :: t' =>
      if keqb k k' then (if w + w' =? 0 then t' else (k, w + w') :: t')
      else (k, w) :: (k', w') :: t'
    | [] => [(k, w)]
    end
  end.

Definition normalise (c : chain) : wchain := combine_runs (KeySort.sort (canon c)).

Fixpoint wchain_eqb (l1 l2 : wchain) : bool :=
  match l1, l2 with
  | [], [] => true
  | (k1, w1) :: t1, (k2, w2) :: t2 => keqb k1 k2 && (w1 =? w2) && wchain_eqb t1 t2
  | _, _ => false
  end.

Definition chain_eqb (c1 c2 : chain) : bool := wchain_eqb (normalise c1) (normalise c2).
Definition chain_zerob (c : chain) : bool := match normalise c with [] => true | _ => false end.

(* coefficient read off a normal form *)
Fixpoint wlookup (l : wchain) (k : key) : Z :=
  match l with [] => 0 | (k', w) :: t => if keqb k k' then w else wlookup t k end.
Definition nf_coef (l : wchain) (a b : Z) : Z :=
  if a <? b then wlookup l (a, b) else if b <? a then - wlookup l (b, a) else 0.

(* strict normal form *)
Fixpoint snf (l : wchain) : Prop :=
  match l with
  | [] => True
  | (k, w) :: t => fst k < snd k /\ w <> 0 /\
                   (match t with [] => True | (k', _) :: _ => kltb k k' = true end) /\ snf t
  end.

(* --- proofs about the normal form --- *)

Lemma wcoef_app l1 l2 a b : wcoef (l1 ++ l2) a b = wcoef l1 a b + wcoef l2 a b.
Proof. induction l1 as [|[[x y] w] t IH]; cbn [wcoef app]; [lia|rewrite IH; lia]. Qed.
Lemma wcoef_perm l1 l2 a b : Permutation l1 l2 -> wcoef l1 a b = wcoef l2 a b.
Proof.
  induction 1 as [|[[x y] w] l l' _ IH|[[x y] w] [[x' y'] w'] l|l l' l'' _ IH1 _ IH2];
    cbn [wcoef]; lia.
Qed.
Lemma canon_coef c a b : wcoef (canon c) a b = coef c a b.
Proof.
  induction c as [|[x y] t IH]; [reflexivity|].
  unfold canon in *; cbn [flat_map]. rewrite wcoef_app, IH. cbn [coef canon1].
  destruct (Z.ltb_spec x y); [cbn [wcoef]; lia|].
  destruct (Z.ltb_spec y x); cbn [wcoef].
  - rewrite (edge1_swap x y); lia.
  - assert (x = y) by lia; subst; rewrite edge1_loop; lia.
Qed.
Lemma keqb_eq k1 k2 : keqb k1 k2 = true <-> k1 = k2.
Proof.
  destruct k1 as [a b], k2 as [c d]; unfold keqb; cbn [fst snd].
  rewrite andb_true_iff, !Z.eqb_eq. split; [intros [-> ->]; reflexivity|intros H; inversion H; auto].
Qed.
Lemma combine_runs_coef l a b : wcoef (combine_runs l) a b = wcoef l a b.
Proof.
  induction l as [|[k w] t IH]; [reflexivity|].
  cbn [combine_runs]. destruct (combine_runs t) as [|[k' w'] t'] eqn:E.
  - destruct k as [x y]; cbn [wcoef] in *; lia.
  - destruct (keqb k k') eqn:Ek.
    + apply keqb_eq in Ek; subst k'. destruct k as [x y].
      destruct (Z.eqb_spec (w + w') 0); cbn [wcoef] in *; nia.
    + destruct k as [x y], k' as [x' y']; cbn [wcoef] in *; lia.
Qed.
Lemma normalise_wcoef c a b : wcoef (normalise c) a b = coef c a b.
Proof.
  unfold normalise. rewrite combine_runs_coef.
  rewrite <- (wcoef_perm _ _ a b (KeySort.Permuted_sort (canon c))). apply canon_coef.
Qed.

Lemma canon_pos c : Forall (fun kw => fst (fst kw) < snd (fst kw) /\ snd kw <> 0) (canon c).
Proof.
  unfold canon. induction c as [|[x y] t IH]; cbn [flat_map]; [constructor|].
  apply Forall_app; split; [|exact IH]. unfold canon1.
  destruct (Z.ltb_spec x y); [repeat constructor; cbn; lia|].
  destruct (Z.ltb_spec y x); repeat constructor; cbn; lia.
Qed.

Definition khd_le (k : key) (l : wchain) : Prop :=
  match l with [] => True | (k', _) :: _ => kleb k k' = true end.
Definition khd_lt (k : key) (l : wchain) : Prop :=
  match l with [] => True | (k', _) :: _ => kltb k k' = true end.

Lemma kleb_neq_ltb k k' : kleb k k' = true -> keqb k k' = false -> kltb k k' = true.
Proof.
  destruct k as [a b], k' as [c d]; unfold kleb, keqb, kltb; cbn [fst snd].
  destruct (Z.ltb_spec a c), (Z.eqb_spec a c), (Z.leb_spec b d), (Z.eqb_spec b d), (Z.ltb_spec b d);
    cbn; intros; try congruence; lia.
Qed.
Lemma kleb_trans k1 k2 k3 : kleb k1 k2 = true -> kleb k2 k3 = true -> kleb k1 k3 = true.
Proof.
  destruct k1 as [a b], k2 as [c d], k3 as [e f]; unfold kleb; cbn [fst snd].
  destruct (Z.ltb_spec a c), (Z.eqb_spec a c), (Z.leb_spec b d),
    (Z.ltb_spec c e), (Z.eqb_spec c e), (Z.leb_spec d f),
    (Z.ltb_spec a e), (Z.eqb_spec a e), (Z.leb_spec b f); cbn; intros; try congruence; lia.
Qed.
Lemma kleb_ltb_trans k1 k2 k3 : kleb k1 k2 = true -> kltb k2 k3 = true -> kltb k1 k3 = true.
Proof.
  destruct k1 as [a b], k2 as [c d], k3 as [e f]; unfold kleb, kltb; cbn [fst snd].
  destruct (Z.ltb_spec a c), (Z.eqb_spec a c), (Z.leb_spec b d),
    (Z.ltb_spec c e), (Z.eqb_spec c e), (Z.ltb_spec d f),
    (Z.ltb_spec a e), (Z.eqb_spec a e), (Z.ltb_spec b f); cbn; intros; try congruence; lia.
Qed.

(* sortedness as produced by the merge sort: every adjacent pair is kleb *)
Fixpoint ksorted (l : wchain) : Prop :=
  match l with
  | [] => True
  | (k, _) :: t => khd_le k t /\ ksorted t
  end.

Lemma ksorted_of_sort l : ksorted (KeySort.sort l).
Proof.
  pose proof (KeySort.LocallySorted_sort l) as H.
  induction H as [|[k w]|[k w] [k' w'] t H IH Hle]; cbn [ksorted khd_le]; auto.
Qed.

Lemma combine_runs_snf l :
  ksorted l -> Forall (fun kw => fst (fst kw) < snd (fst kw) /\ snd kw <> 0) l ->
  snf (combine_runs l) /\ (forall k, khd_le k l -> khd_le k (combine_runs l) \/ True) /\
  (forall k, khd_le k l -> match combine_runs l with [] => True | (k', _) :: _ => kleb k k' = true end).
Proof.
  induction l as [|[k w] t IH]; intros Hs Hp.
  - cbn; auto.
  - cbn [ksorted] in Hs. destruct Hs as [Hh Hs]. inversion Hp as [|? ? [Hk Hw] Hp']; subst.
    cbn [fst snd] in Hk, Hw.
    destruct (IH Hs Hp') as (Hsn & _ & Hhd). specialize (Hhd k Hh).
    cbn [combine_runs]. destruct (combine_runs t) as [|[k' w'] t'] eqn:E.
    + split; [cbn; auto|]. split; [auto|]. intros k0 H0; exact H0.
    + destruct (keqb k k') eqn:Ek.
      * apply keqb_eq in Ek; subst k'.
        cbn [snf] in Hsn. destruct Hsn as (Hk' & Hw' & Hlt & Hsn').
        destruct (Z.eqb_spec (w + w') 0).
        -- split; [exact Hsn'|]. split; [auto|]. intros k0 H0. cbn [khd_le] in H0.
           destruct t' as [|[k2 w2] t2]; [exact I|].
           unfold kltb, kleb in *. destruct k0 as [a0 b0], k as [a b], k2 as [c d]; cbn [fst snd] in *.
           destruct (Z.ltb_spec a0 a), (Z.eqb_spec a0 a), (Z.leb_spec b0 b),
             (Z.ltb_spec a c), (Z.eqb_spec a c), (Z.ltb_spec b d),
             (Z.ltb_spec a0 c), (Z.eqb_spec a0 c), (Z.leb_spec b0 d); cbn in *; try congruence; lia.
        -- split; [cbn [snf]; auto|]. split; [auto|]. intros k0 H0; exact H0.
      * split.
        -- cbn [snf]. split; [exact Hk|]. split; [exact Hw|]. split; [|exact Hsn].
           apply kleb_neq_ltb; assumption.
        -- split; [auto|]. intros k0 H0; exact H0.
Qed.

Lemma normalise_snf c : snf (normalise c).
Proof.
  unfold normalise. apply combine_runs_snf.
  - apply ksorted_of_sort.
  - pose proof (canon_pos c) as H.
    eapply Permutation_Forall; [apply KeySort.Permuted_sort|exact H].
Qed.

(* in a strict normal form, wcoef at an ordered pair is the lookup *)
Lemma snf_tail_gt l k w : snf ((k, w) :: l) -> forall k', kleb k' k = true -> wlookup l k' = 0.
Proof.
  revert k w. induction l as [|[k2 w2] t IH]; intros k w H k' Hle; [reflexivity|].
  cbn [snf] in H. destruct H as (_ & _ & Hlt & H2).
  cbn [wlookup]. destruct (keqb k' k2) eqn:E.
  - apply keqb_eq in E; subst k2. exfalso.
    pose proof (kleb_ltb_trans _ _ _ Hle Hlt) as Hc.
    unfold kltb in Hc. destruct k' as [a b]; cbn [fst snd] in Hc.
    destruct (Z.ltb_spec a a), (Z.eqb_spec a a), (Z.ltb_spec b b); cbn in Hc; try congruence; lia.
  - apply (IH k2 w2 H2).
    assert (Hk : kltb k' k2 = true) by (eapply kleb_ltb_trans; eauto).
    unfold kltb in Hk; unfold kleb.
    destruct k' as [a b], k2 as [c d]; cbn [fst snd] in *.
    destruct (Z.ltb_spec a c), (Z.eqb_spec a c), (Z.ltb_spec b d), (Z.leb_spec b d); cbn in *; try congruence; lia.
Qed.

Lemma kleb_refl k : kleb k k = true.
Proof.
  destruct k as [a b]; unfold kleb; cbn [fst snd].
  destruct (Z.ltb_spec a a), (Z.eqb_spec a a), (Z.leb_spec b b); cbn; try lia; auto.
Qed.

Lemma snf_wcoef l a b : snf l -> a < b -> wcoef l a b = wlookup l (a, b).
Proof.
  induction l as [|[[x y] w] t IH]; intros H Hab; [reflexivity|].
  pose proof H as H0. cbn [snf] in H. destruct H as (Hxy & Hw & _ & Ht). cbn [fst snd] in Hxy.
  cbn [wcoef wlookup]. rewrite (IH Ht Hab).
  unfold keqb; cbn [fst snd].
  destruct (Z.eqb_spec a x), (Z.eqb_spec b y); cbn [andb].
  - subst. rewrite edge1_self by lia.
    rewrite (snf_tail_gt t (x, y) w H0 (x, y) (kleb_refl _)). lia.
  - unfold edge1, ind. destruct (Z.eqb_spec x a), (Z.eqb_spec y b), (Z.eqb_spec x b), (Z.eqb_spec y a); cbn; lia.
  - unfold edge1, ind. destruct (Z.eqb_spec x a), (Z.eqb_spec y b), (Z.eqb_spec x b), (Z.eqb_spec y a); cbn; lia.
  - unfold edge1, ind. destruct (Z.eqb_spec x a), (Z.eqb_spec y b), (Z.eqb_spec x b), (Z.eqb_spec y a); cbn; lia.
Qed.

Lemma wcoef_antisym l a b : wcoef l a b = - wcoef l b a.
Proof.
  induction l as [|[[x y] w] t IH]; cbn [wcoef]; [lia|].
  rewrite IH, (edge1_antisym x y a b); lia.
Qed.

Lemma snf_nf_coef l a b : snf l -> nf_coef l a b = wcoef l a b.
Proof.
  intros H. unfold nf_coef.
  destruct (Z.ltb_spec a b); [symmetry; apply snf_wcoef; assumption|].
  destruct (Z.ltb_spec b a).
  - rewrite (wcoef_antisym l a b). rewrite (snf_wcoef l b a H) by lia. reflexivity.
  - assert (a = b) by lia; subst. pose proof (wcoef_antisym l b b); lia.
Qed.

(* `normalise_coef`: the executable normal form computes `coef` *)
Theorem normalise_coef c a b : nf_coef (normalise c) a b = coef c a b.
Proof. rewrite snf_nf_coef by apply normalise_snf. apply normalise_wcoef. Qed.

Lemma wchain_eqb_eq l1 l2 : wchain_eqb l1 l2 = true <-> l1 = l2.
Proof.
  revert l2; induction l1 as [|[k1 w1] t1 IH]; intros [|[k2 w2] t2]; cbn [wchain_eqb];
    try (split; [discriminate|discriminate]); [split; reflexivity|].
  rewrite !andb_true_iff, keqb_eq, Z.eqb_eq, IH.
  split; [intros [[-> ->] ->]; reflexivity|intros H; inversion H; auto].
Qed.

(* uniqueness of strict normal forms *)
Lemma snf_unique l1 l2 :
  snf l1 -> snf l2 -> (forall k, fst k < snd k -> wlookup l1 k = wlookup l2 k) -> l1 = l2.
Proof.
  revert l2; induction l1 as [|[k1 w1] t1 IH]; intros l2 H1 H2 Heq.
  - destruct l2 as [|[k2 w2] t2]; [reflexivity|exfalso].
    cbn [snf] in H2. destruct H2 as (Hk & Hw & _).
    specialize (Heq k2 Hk). cbn [wlookup] in Heq.
    replace (keqb k2 k2) with true in Heq by (symmetry; apply keqb_eq; reflexivity). lia.
  - destruct l2 as [|[k2 w2] t2].
    + exfalso. cbn [snf] in H1. destruct H1 as (Hk & Hw & _).
      specialize (Heq k1 Hk). cbn [wlookup] in Heq.
      replace (keqb k1 k1) with true in Heq by (symmetry; apply keqb_eq; reflexivity). lia.
    + pose proof H1 as H1'. pose proof H2 as H2'.
      cbn [snf] in H1, H2. destruct H1 as (Hk1 & Hw1 & _ & Ht1). destruct H2 as (Hk2 & Hw2 & _ & Ht2).
      assert (Hself : forall k, keqb k k = true) by (intros; apply keqb_eq; reflexivity).
      destruct (keqb k1 k2) eqn:E.
      * apply keqb_eq in E; subst k2.
        pose proof (Heq k1 Hk1) as Hw. cbn [wlookup] in Hw. rewrite Hself in Hw. subst w2.
        f_equal. apply IH; auto.
        intros k Hk. specialize (Heq k Hk). cbn [wlookup] in Heq.
        destruct (keqb k k1) eqn:E2; [|exact Heq].
        apply keqb_eq in E2; subst k.
        rewrite (snf_tail_gt t1 k1 w1 H1' k1 (kleb_refl _)), (snf_tail_gt t2 k1 w1 H2' k1 (kleb_refl _)). reflexivity.
      * exfalso.
        destruct (KeyOrder.leb_total (k1, 0) (k2, 0)) as [Hle|Hle]; unfold KeyOrder.leb in Hle; cbn [fst] in Hle.
        -- pose proof (Heq k1 Hk1) as Hw. cbn [wlookup] in Hw. rewrite Hself, E in Hw.
           rewrite (snf_tail_gt t2 k2 w2 H2' k1 Hle) in Hw. lia.
        -- pose proof (Heq k2 Hk2) as Hw. cbn [wlookup] in Hw. rewrite Hself in Hw.
           assert (E' : keqb k2 k1 = false).
           { destruct (keqb k2 k1) eqn:E3; [|reflexivity]. apply keqb_eq in E3; subst.
             rewrite Hself in E; discriminate. }
           rewrite E' in Hw. rewrite (snf_tail_gt t1 k1 w1 H1' k2 Hle) in Hw. lia.
Qed.

(* chain_eqb decides equality in the quotient *)
Theorem chain_eqb_spec c1 c2 : chain_eqb c1 c2 = true <-> ceq c1 c2.
Proof.
  unfold chain_eqb. rewrite wchain_eqb_eq. split.
  - intros H a b. rewrite <- !normalise_wcoef, H. reflexivity.
  - intros H. apply snf_unique; try apply normalise_snf.
    intros [a b] Hk; cbn [fst snd] in Hk.
    rewrite <- !snf_wcoef by (try apply normalise_snf; exact Hk).
    rewrite !normalise_wcoef. apply H.
Qed.
Corollary chain_eqb_sound c1 c2 : chain_eqb c1 c2 = true -> ceq c1 c2.
Proof. apply chain_eqb_spec. Qed.
Corollary ceq_normalise c1 c2 : ceq c1 c2 -> normalise c1 = normalise c2.
Proof. intros H; apply wchain_eqb_eq; apply chain_eqb_spec; exact H. Qed.
Theorem chain_zerob_spec c : chain_zerob c = true <-> ceq c [].
Proof.
  unfold chain_zerob. split.
  - intros H a b. rewrite <- normalise_wcoef. destruct (normalise c); [reflexivity|discriminate].
  - intros H. rewrite (ceq_normalise c [] H). reflexivity.
Qed.

(* ------------------------------------------------------------------ *)
(* linear functionals *)

Fixpoint wlin (f : Z -> Z -> Z) (l : wchain) : Z :=
  match l with [] => 0 | ((x, y), w) :: t => w * f x y + wlin f t end.

Lemma lin_app f c1 c2 : lin f (c1 ++ c2) = lin f c1 + lin f c2.
Proof. induction c1 as [|[x y] t IH]; cbn [lin app]; [lia|rewrite IH; lia]. Qed.
Lemma lin_cons f x y c : lin f ((x, y) :: c) = f x y + lin f c.
Proof. reflexivity. Qed.
Lemma lin_flat_map {A} f (g : A -> chain) (l : list A) :
  lin f (flat_map g l) = fold_right (fun x s => lin f (g x) + s) 0 l.
Proof. induction l as [|x t IH]; cbn [flat_map fold_right lin]; [lia|]. rewrite lin_app, IH; lia. Qed.
Lemma wlin_app f l1 l2 : wlin f (l1 ++ l2) = wlin f l1 + wlin f l2.
Proof. induction l1 as [|[[x y] w] t IH]; cbn [wlin app]; [lia|rewrite IH; lia]. Qed.
Lemma wlin_perm f l1 l2 : Permutation l1 l2 -> wlin f l1 = wlin f l2.
Proof.
  induction 1 as [|[[x y] w] l l' _ IH|[[x y] w] [[x' y'] w'] l|l l' l'' _ IH1 _ IH2];
    cbn [wlin]; lia.
Qed.
Lemma canon_lin f c : antisym f -> wlin f (canon c) = lin f c.
Proof.
  intros Hf. induction c as [|[x y] t IH]; [reflexivity|].
  unfold canon in *; cbn [flat_map]. rewrite wlin_app, IH. cbn [lin canon1].
  destruct (Z.ltb_spec x y); [cbn [wlin]; lia|].
  destruct (Z.ltb_spec y x); cbn [wlin].
  - rewrite (Hf x y); lia.
  - assert (x = y) by lia; subst. pose proof (Hf y y); lia.
Qed.
Lemma combine_runs_lin f l : wlin f (combine_runs l) = wlin f l.
Proof.
  induction l as [|[k w] t IH]; [reflexivity|].
  cbn [combine_runs]. destruct (combine_runs t) as [|[k' w'] t'] eqn:E.
  - destruct k as [x y]; cbn [wlin] in *; lia.
  - destruct (keqb k k') eqn:Ek.
    + apply keqb_eq in Ek; subst k'. destruct k as [x y].
      destruct (Z.eqb_spec (w + w') 0); cbn [wlin] in *; nia.
    + destruct k as [x y], k' as [x' y']; cbn [wlin] in *; lia.
Qed.
Lemma normalise_lin f c : antisym f -> wlin f (normalise c) = lin f c.
Proof.
  intros Hf. unfold normalise. rewrite combine_runs_lin.
  rewrite <- (wlin_perm f _ _ (KeySort.Permuted_sort (canon c))). apply canon_lin, Hf.
Qed.

(* an antisymmetric edge function induces a functional on the quotient *)
Theorem lin_ceq f c1 c2 : antisym f -> ceq c1 c2 -> lin f c1 = lin f c2.
Proof.
  intros Hf H. rewrite <- !(normalise_lin f) by exact Hf.
  rewrite (ceq_normalise c1 c2 H). reflexivity.
Qed.

(* shoelace: twice the signed area swept by the chain, for integer positions *)
Definition shoelace (px py : Z -> Z) (a b : Z) : Z := px a * py b - px b * py a.
Lemma shoelace_antisym px py : antisym (shoelace px py).
Proof. intros a b; unfold shoelace; lia. Qed.
Definition area2_chain (px py : Z -> Z) (c : chain) : Z := lin (shoelace px py) c.
Definition area2_tri (px py : Z -> Z) (t : tri) : Z :=
  let '(a, b, c) := t in
  (px b - px a) * (py c - py a) - (px c - px a) * (py b - py a).
Lemma area2_boundary px py t : area2_chain px py (boundary t) = area2_tri px py t.
Proof. destruct t as [[a b] c]; unfold area2_chain, area2_tri, shoelace; cbn [boundary lin]; lia. Qed.
Lemma area2_boundaries px py ts :
  area2_chain px py (boundaries ts) = fold_right (fun t s => area2_tri px py t + s) 0 ts.
Proof.
  unfold area2_chain, boundaries. rewrite lin_flat_map.
  induction ts as [|t r IH]; cbn [fold_right]; [reflexivity|].
  rewrite IH. f_equal. apply area2_boundary.
Qed.
Theorem area2_ceq px py c1 c2 : ceq c1 c2 -> area2_chain px py c1 = area2_chain px py c2.
Proof. apply lin_ceq, shoelace_antisym. Qed.
