(* C12 placeholder while the proofs are being written *)
From Coq Require Import ZArith.
From MV Require Import Geo.Hull2Defs.
Theorem c12_stub : (1 + 1 = 2)%Z.
Proof. exact eq_refl. Qed.
Print Assumptions c12_stub.
