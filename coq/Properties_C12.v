(* C12 — Offset, Hull, Decompose and Simplify of CrossSections mean what they say.
   Only statements closed by `exact`, each followed by Print Assumptions.
   Models: Geo/Simplify2Defs.v, Geo/Hull2Defs.v, Geo/Decomp2Defs.v (ports of
   SimplifyRing, HullImpl, DecomposeByContainment), Geo/Offset2Defs.v (the
   expressions of OffsetContour over R), Geo/Offset2CheckDefs.v (exact checker
   for Offset outputs).  The metric statement about the whole offset region is
   NOT proved; it is decided per sample point by offset_check, whose meaning is
   theorem offset_check_meaning below. *)
From Coq Require Import ZArith QArith Reals List Bool Permutation.
From MV Require Import Geo.Wind2Defs Geo.Simplify2Defs Geo.Simplify2 Geo.Hull2Defs Geo.Hull2 Geo.Hull2Correct
  Geo.Decomp2Defs Geo.Decomp2 Geo.Offset2Defs Geo.Offset2 Geo.Offset2Join Geo.Offset2CheckDefs Geo.Offset2Check.
Import ListNotations.

(* ================= Simplify ================= *)
Local Open Scope Z_scope.

(* For every deviation function (into Q: every finite double embeds), every
   tolerance and every ring size the ported lazy-heap loop terminates within
   its fuel of 3n+1 pops. *)
Theorem simplify_ring_terminates :
  forall (dev : Z -> Z -> Z -> Q) (tol2 : Q) (n : Z), 0 <= n ->
  exists out, simplify_idx dev tol2 n = Some out.
Proof. exact simplify_idx_terminates. Qed.
Print Assumptions simplify_ring_terminates.

(* The output is an in-order subsequence of the input ring: SimplifyRing only deletes vertices. *)
Theorem simplify_ring_subsequence :
  forall (ring : list pt) (tol2 : Q) (out : list pt),
  simplify_ring ring tol2 = Some out -> subseq out ring.
Proof. exact simplify_ring_subseq. Qed.
Print Assumptions simplify_ring_subsequence.

(* Exit condition (full heap-invariant proof): for rings of more than 3
   vertices at least 3 survive, and on exit either exactly 3 remain or every
   surviving vertex i deviates by at least the tolerance from the line through
   its cyclic neighbours p, nx *in the output* (cyc_next: nearest surviving
   index before/after i, wrapping round). *)
Theorem simplify_ring_exit :
  forall (dev : Z -> Z -> Z -> Q) (tol2 : Q) (n : Z) (out : list Z),
  3 < n -> simplify_idx dev tol2 n = Some out ->
  (3 <= length out)%nat /\
  (length out = 3%nat \/
   forall i, In i out -> exists p nx, cyc_next out n p i /\ cyc_next out n i nx /\ (tol2 <= dev p i nx)%Q).
Proof. exact simplify_idx_exit. Qed.
Print Assumptions simplify_ring_exit.

(* tie-breaking as in the code's comparator `worse`: the entry the loop pops is
   least in the order (d2, then idx) among all heap entries, so exactly tied
   deviations remove the lowest index first *)
Theorem simplify_pop_is_least :
  forall (h : list entry) (m : entry) (r : list entry),
  extract_min h = Some (m, r) ->
  Permutation h (m :: r) /\
  forall x, In x r -> (e_d m < e_d x)%Q \/ ((e_d m == e_d x)%Q /\ e_idx m <= e_idx x).
Proof.
  intros h m r H. exact (conj (proj1 (extract_min_spec h m r H)) (extract_min_least h m r H)).
Qed.
Print Assumptions simplify_pop_is_least.

(* the hypotheses are satisfiable and the result non-trivial: a heptagon with a
   collinear and a nearly collinear vertex, tolerance^2 = 1/4 *)
Example simplify_example :
  simplify_ring [(0,0);(2,0);(4,0);(4,1);(4,4);(2,5);(0,4)] (1#4) = Some [(0,0);(4,0);(4,4);(2,5);(0,4)].
Proof. exact simplify_example_ok. Qed.

(* what `tol2 <= deviation` means for the code's deviation2 on integer points:
   tol^2 * |N-P|^2 <= cross(V-P, N-P)^2 *)
Theorem simplify_deviation_meaning :
  forall (ring : list pt) (tn : Z) (td : BinNums.positive) (p i nx : Z),
  0 < dot (sub (nthp ring nx) (nthp ring p)) (sub (nthp ring nx) (nthp ring p)) ->
  (((tn # td) <= dev_pts ring p i nx)%Q <->
   tn * dot (sub (nthp ring nx) (nthp ring p)) (sub (nthp ring nx) (nthp ring p))
   <= crs (sub (nthp ring i) (nthp ring p)) (sub (nthp ring nx) (nthp ring p)) *
      crs (sub (nthp ring i) (nthp ring p)) (sub (nthp ring nx) (nthp ring p)) * Zpos td).
Proof. exact dev_pts_ge. Qed.
Print Assumptions simplify_deviation_meaning.

(* the boolean subsequence test run on library outputs is sound *)
Theorem simplify_check_subsequence_sound :
  forall l1 l2 : list pt, subseq_b l1 l2 = true -> subseq l1 l2.
Proof. exact subseq_b_sound. Qed.
Print Assumptions simplify_check_subsequence_sound.

(* ================= Hull ================= *)

(* the ported monotone chain only returns input points *)
Theorem hull2_vertices_subset : forall (pts : list pt) (x : pt), In x (hull2 pts) -> In x pts.
Proof. exact hull2_subset. Qed.
Print Assumptions hull2_vertices_subset.

(* soundness of the exact certificate: an accepted H with >= 3 vertices is a
   list of distinct input points, every vertex strictly left of every edge it
   is not on (strictly convex, counter-clockwise), every input point in the
   closed left half-plane of every edge; an accepted H with < 3 vertices means
   the input has < 3 points or lies on one line. *)
Theorem hull2_check_soundness :
  forall pts H : list pt,
  hull2_check pts H = true ->
  ((3 <= length H)%nat /\ hull_spec pts H) \/
  ((length H < 3)%nat /\ ((length pts < 3)%nat \/ collinear_spec pts)).
Proof. exact hull2_check_sound. Qed.
Print Assumptions hull2_check_soundness.

(* For EVERY finite point list the ported HullImpl (stable lexicographic sort,
   lower and upper monotone chains with the exact orientation sign, pop_back,
   concatenate) returns either a list of >= 3 distinct input points forming a
   strictly convex counter-clockwise polygon that contains every input point
   (hull_spec), or fewer than 3 points, and then the input has fewer than 3
   points or lies on one line (CrossSection::Hull returns the empty section). *)
Theorem hull2_convex_contains :
  forall pts : list pt,
  ((3 <= length (hull2 pts))%nat /\ hull_spec pts (hull2 pts)) \/
  ((length (hull2 pts) < 3)%nat /\ ((length pts < 3)%nat \/ collinear_spec pts)).
Proof. exact hull2_correct. Qed.
Print Assumptions hull2_convex_contains.

(* the bounded sweep kept as a regression example: the executable certificate
   accepts the port on every list of length <= 5 over the 3x3 grid and of
   length 3..4 over the 4x4 grid *)
Example hull2_sweep_example :
  forallb (fun k => forallb hull_case_ok (lists_over (grid 3 3) k)) [0; 1; 2; 3; 4; 5]%nat = true /\
  forallb (fun k => forallb hull_case_ok (lists_over (grid 4 4) k)) [3; 4]%nat = true.
Proof. exact (conj hull2_small_3x3 hull2_small_4x4). Qed.

(* ================= Decompose ================= *)

(* the imperative port (compOf indices, push_back) equals the specification:
   one component per positive ring, in order, holding the holes whose first
   non-negative-area ring on the parent chain is that ring *)
Theorem decompose_partition :
  forall (n : Z) (inside : Z -> Z -> bool) (area : Z -> Z), 0 <= n ->
  decompose n inside area = decompose_spec n inside area /\
  map (hd 0) (decompose n inside area) = positives n area /\
  NoDup (concat (decompose n inside area)) /\
  (forall i, In i (concat (decompose n inside area)) <->
     0 <= i < n /\ (positive area i = true \/
                    (positive area i = false /\ positive area (ancestor n inside area i) = true /\ 0 <= ancestor n inside area i))).
Proof.
  intros n inside area Hn.
  exact (conj (decompose_eq_spec n inside area Hn)
        (conj (decompose_heads n inside area Hn)
        (conj (decompose_nodup n inside area Hn) (decompose_member n inside area Hn)))).
Qed.
Print Assumptions decompose_partition.

(* parent = the smallest-|area| ring containing i (the nearest enclosing ring), or -1 *)
Theorem decompose_parent_nearest :
  forall (n : Z) (inside : Z -> Z -> bool) (area : Z -> Z) (i : Z),
  (parent_of n inside area i = -1 /\ forall j, 0 <= j < n -> j <> i -> inside i j = false) \/
  (0 <= parent_of n inside area i < n /\ parent_of n inside area i <> i /\
   inside i (parent_of n inside area i) = true /\
   forall j, 0 <= j < n -> j <> i -> inside i j = true ->
     Z.abs (area (parent_of n inside area i)) <= Z.abs (area j)).
Proof. exact parent_of_spec. Qed.
Print Assumptions decompose_parent_nearest.

(* area additivity: when no hole is orphaned (true of regularized input) the
   components hold every kept ring exactly once, so any per-ring quantity
   (twice the signed area) adds up to the whole *)
Theorem decompose_area_additivity :
  forall (n : Z) (inside : Z -> Z -> bool) (area : Z -> Z), 0 <= n ->
  forall a2 : Z -> Z,
  (forall i, 0 <= i < n -> positive area i = false ->
     positive area (ancestor n inside area i) = true /\ 0 <= ancestor n inside area i) ->
  zsum (map (fun c => zsum (map a2 c)) (decompose n inside area)) = zsum (map a2 (ziota n)).
Proof. exact decompose_area_additive. Qed.
Print Assumptions decompose_area_additivity.

(* without any side condition: the components hold exactly the rings that are
   positive or whose parent walk ends at a positive ring (the code drops orphan
   holes), each exactly once, so per-ring quantities add up over them *)
Theorem decompose_area_additivity_kept :
  forall (n : Z) (inside : Z -> Z -> bool) (area : Z -> Z), 0 <= n ->
  forall a2 : Z -> Z,
  zsum (map (fun c => zsum (map a2 c)) (decompose n inside area))
  = zsum (map a2 (filter (member n inside area) (ziota n))).
Proof. exact decompose_area_additive_kept. Qed.
Print Assumptions decompose_area_additivity_kept.

(* the "no orphan hole" hypothesis proved from assumptions on the containment
   oracle that hold for a regularized cross-section: containment implies
   strictly smaller |area|, kept rings have non-zero area, every hole is
   contained in some other ring.  Then every kept ring is in exactly one
   component (the n+1 hops of the walk suffice) and areas add up to the whole. *)
Theorem decompose_area_additivity_regular :
  forall (n : Z) (inside : Z -> Z -> bool) (area : Z -> Z), 0 <= n ->
  (forall i j, 0 <= i < n -> 0 <= j < n -> inside i j = true -> Z.abs (area i) < Z.abs (area j)) ->
  (forall i, 0 <= i < n -> area i <> 0) ->
  (forall i, 0 <= i < n -> area i < 0 -> exists j, 0 <= j < n /\ j <> i /\ inside i j = true) ->
  forall a2 : Z -> Z,
  zsum (map (fun c => zsum (map a2 c)) (decompose n inside area)) = zsum (map a2 (ziota n)).
Proof. exact decompose_area_additive_regular. Qed.
Print Assumptions decompose_area_additivity_regular.

(* What the containment oracle `inside` IS in the code (RingInside behind BoxInside): ring a counts as
   inside ring b iff a's bounding box is inside b's and EVERY vertex of a is in the closed region of b
   (PointInRing: boundary points count as inside).  For this to mean "the region of a lies in the region
   of b" - which decompose_parent_nearest and the additivity theorems take as the oracle's meaning - the
   rings must not cross (regularized input): then all vertices in the closed region is equivalent to
   containment even when rings TOUCH at vertices, whereas a single vertex is not (next theorem).  That
   equivalence (a Jordan-curve argument) is an assumption, validated at run time: the C++ verdicts are
   compared with this exact test on touching configurations, and every Decompose output is judged by
   decomp_check at interior sample points. *)
Theorem decompose_ring_inside_meaning :
  forall a b : contour,
  ring_inside a b = true <-> bbox_inside a b = true /\ forall p, In p a -> point_in_ring p b = true.
Proof. exact ring_inside_spec. Qed.
Print Assumptions decompose_ring_inside_meaning.

Theorem decompose_first_vertex_insufficient :
  exists a b : contour,
  point_in_ring (hd (0, 0) a) b = true /\ bbox_inside a b = true /\ ring_inside a b = false.
Proof.
  exact (ex_intro _ [(7, 3); (5, 6); (9, 6)]
          (ex_intro _ [(0, 0); (14, 0); (14, 7); (13, 7); (13, 1); (8, 1); (7, 3); (6, 1); (1, 1); (1, 7); (0, 7)]
             first_vertex_insufficient_witness)).
Qed.
Print Assumptions decompose_first_vertex_insufficient.

Example decompose_example :
  decompose_rings [ [(0,0);(10,0);(10,10);(0,10)]; [(1,9);(9,9);(9,1);(1,1)]; [(2,2);(8,2);(8,8);(2,8)];
                    [(3,4);(4,4);(4,3);(3,3)]; [(20,0);(22,0);(22,2);(20,2)] ] = [[0; 1]; [2; 3]; [4]].
Proof. exact decompose_example_ok. Qed.

(* ================= Offset: exact checker ================= *)

(* the integer distance tests are exact: sound and complete against "some /
   every point a + (tn/td)(b-a), 0 <= tn <= td, of the closed segment" *)
Theorem offset_distance_tests_exact :
  forall (T : Z) (p : pt) (e : seg),
  (seg_within T p e = true <-> within_spec T p e) /\ (seg_beyond T p e = true <-> beyond_spec T p e).
Proof. intros T p e. exact (conj (seg_within_iff T p e) (seg_beyond_iff T p e)). Qed.
Print Assumptions offset_distance_tests_exact.

(* an accepted offset_check means, at every sample point: the output's exact
   winding number is 0 or 1; it is 1 wherever the point must be inside (inside
   the input or nearer than r_in to its boundary / in the swept rectangle of an
   edge, for growth; inside and farther than r_out from the boundary, for
   insets) and 0 wherever it must be outside (dually). *)
Theorem offset_check_meaning :
  forall (P : oparams) (inp out : list contour) (samples : list pt),
  offset_check P inp out samples = true ->
  forall s, In s samples ->
    (wind2 out s = 0 \/ wind2 out s = 1) /\
    (must_in_spec P (all_edges inp) s -> wind2 out s = 1) /\
    (must_out_spec P (all_edges inp) s -> wind2 out s = 0).
Proof. exact offset_check_sound. Qed.
Print Assumptions offset_check_meaning.

Theorem offset_mono_check_meaning :
  forall (Rs Ts : Z) (out1 out2 : list contour) (samples : list pt),
  mono_check Rs Ts out1 out2 samples = true ->
  forall s, In s samples ->
    wind2 out1 s <> 0 -> (forall e, In e (all_edges out1) -> beyond_spec Ts s e) -> wind2 out2 s <> 0.
Proof. exact mono_check_sound. Qed.
Print Assumptions offset_mono_check_meaning.

(* ================= Offset: decision logic over R ================= *)
Local Open Scope R_scope.

(* the code's test on the dot product of adjacent unit normals against
   2/limit^2 - 1 is "miter length > limit * |delta|" *)
Theorem miter_threshold :
  forall L dotN delta : R, 0 < L -> delta <> 0 -> -1 < dotN ->
  (dotN < miter_cos_thresh L <-> Rabs delta * sqrt (2 / (1 + dotN)) > L * Rabs delta).
Proof. exact Offset2.miter_threshold. Qed.
Print Assumptions miter_threshold.

(* MiterPoint lies on both offset lines, at squared distance delta^2 * 2/(1+dotN) from V,
   hence within limit*|delta| whenever the join is not squared *)
Theorem miter_point_correct :
  forall (V nP nN : vec) (delta L : R),
  0 < L -> vlen2 nP = 1 -> vlen2 nN = 1 -> 0 < 1 + vdot nP nN ->
  vdot (vsub (miter_point V nP nN delta) V) nP = delta /\
  vdot (vsub (miter_point V nP nN delta) V) nN = delta /\
  vlen2 (vsub (miter_point V nP nN delta) V) = delta * delta * (2 / (1 + vdot nP nN)) /\
  (~ (vdot nP nN < miter_cos_thresh L) ->
   vlen2 (vsub (miter_point V nP nN delta) V) <= (L * delta) * (L * delta)).
Proof.
  intros V nP nN delta L HL HP HN Hd.
  exact (conj (proj1 (miter_point_on_both_offsets V nP nN delta HP HN Hd))
        (conj (proj2 (miter_point_on_both_offsets V nP nN delta HP HN Hd))
        (conj (miter_point_length V nP nN delta HP HN Hd)
              (miter_within_limit V nP nN delta L HL HP HN Hd)))).
Qed.
Print Assumptions miter_point_correct.

(* the convex/concave decision cross(ePrev,eNext)*sign(delta) > 0 says: the next
   offset edge starts ahead of where the previous one ends (a gap to be joined) *)
Theorem convex_iff_cross_sign :
  forall (V eP eN : vec) (delta : R),
  0 < vlen2 eP -> 0 < vlen2 eN -> delta <> 0 ->
  (convex_test eP eN delta <->
   vdot (vsub (offset_pt V (outward_normal eN) delta) (offset_pt V (outward_normal eP) delta)) eP > 0).
Proof. exact Offset2.convex_iff_cross_sign. Qed.
Print Assumptions convex_iff_cross_sign.

(* every point of a chord between two round-join vertices at most one full
   step 2 pi/seg apart is within |delta| (1 - cos(pi/seg)) of the circle *)
Theorem round_join_chord_error :
  forall (V nP : vec) (delta a theta t seg : R),
  vlen2 nP = 1 -> 3 <= seg -> 0 <= theta <= 2 * PI / seg -> 0 <= t <= 1 ->
  Rabs delta * cos (PI / seg)
    <= vlen (vsub (lerp t (round_pt V nP delta a) (round_pt V nP delta (a + theta))) V)
    <= Rabs delta.
Proof. exact Offset2.round_join_chord_error. Qed.
Print Assumptions round_join_chord_error.

Theorem round_join_substep :
  forall (sweep full : R) (n : nat),
  0 < full -> 0 <= sweep -> (1 <= n)%nat -> sweep / full <= INR n -> sweep / INR n <= full.
Proof. exact substep_le_fullstep. Qed.
Print Assumptions round_join_substep.

(* ---- local facts about the join vertices emitted at a convex corner ---- *)

(* endPrev / startNext (every join type, also the two bevel vertices) are exactly |delta| from V;
   round-join vertices likewise (round_join_chord_error above bounds the chords between them);
   the miter vertex is within limit*|delta| (miter_point_correct);
   the two square-cap vertices are between |delta| and sqrt 2 |delta| from V. *)
Theorem join_vertices_within_bound :
  forall (V n b : vec) (delta c s sgn : R),
  vlen2 n = 1 -> vlen2 b = 1 -> 0 <= c -> 0 <= s -> s * s + c * c = 1 -> sgn * sgn = 1 ->
  vlen2 (vsub (offset_pt V n delta) V) = delta * delta /\
  delta * delta <= vlen2 (vsub (square_pt V b delta (Rabs delta * s / (1 + c)) sgn) V) <= 2 * (delta * delta).
Proof.
  intros V n b delta c s sgn Hn Hb Hc Hs Hsc Hsg.
  exact (conj (offset_pt_on_circle V n delta Hn) (square_pt_distance V b delta c s sgn Hb Hc Hs Hsc Hsg)).
Qed.
Print Assumptions join_vertices_within_bound.

(* the square cap ends exactly on the offset lines of the two incident edges
   (sg = sign of delta; the cross-product signs say nNext is on the side of nPrev that the
   convexity test selects) *)
Theorem square_cap_ends_on_offset_lines :
  forall (V b nP nN : vec) (delta c s sg : R),
  0 < 1 + c -> s * s + c * c = 1 ->
  vdot b nP = c -> vdot b nN = c -> vcross b nP = - sg * s -> vcross b nN = sg * s ->
  sg * sg = 1 -> sg * delta = Rabs delta ->
  vdot (vsub (square_pt V b delta (Rabs delta * s / (1 + c)) (-1)) V) nP = delta /\
  vdot (vsub (square_pt V b delta (Rabs delta * s / (1 + c)) 1) V) nN = delta.
Proof. exact square_cap_on_offset_lines. Qed.
Print Assumptions square_cap_ends_on_offset_lines.

(* a round-join vertex V + delta rot(nPrev, a), 0 <= a <= pi, projects beyond the end V of the
   previous edge (direction d, nPrev = (d.y, -d.x)): every point V - t d, t >= 0, of that edge is at
   least |delta| away from it, so its distance to the edge is exactly |delta| (attained at V).
   (NOT: distance >= |delta| from the edge's *line* - false for corners sharper than 90 degrees.) *)
Theorem round_vertex_distance_to_incident_edge :
  forall (V d : vec) (delta a t : R),
  vlen2 d = 1 -> 0 < delta -> 0 <= a <= PI -> 0 <= t ->
  delta * delta <= vlen2 (vsub (round_pt V (snd d, - fst d) delta a) (vsub V (vscale t d))).
Proof. exact round_vertex_nearest_is_V. Qed.
Print Assumptions round_vertex_distance_to_incident_edge.

(* convex polygon, delta > 0, round joins, BEFORE the final union: the rectangle swept by an edge
   (a polygon point Y moved by t in [0, delta] along that edge's unit normal ni) lies on the inner
   side of every offset edge (normal nj through Vj) and of every round-join chord at Vj between
   unit directions w1, w2 of the normal cone, provided ni is at least half a step away from the
   chord direction; that proviso is proved for the two edges incident to the corner. *)
Theorem convex_offset_contains_swept_edges :
  (forall (Y Vj ni nj : vec) (t delta : R),
     vlen2 ni = 1 -> vlen2 nj = 1 -> 0 <= t <= delta -> vdot (vsub Y Vj) nj <= 0 ->
     vdot (vsub (vadd Y (vscale t ni)) Vj) nj <= delta) /\
  (forall (Y Vj ni w1 w2 : vec) (t delta : R),
     0 <= t <= delta -> 0 <= 1 + vdot w1 w2 ->
     vdot (vsub Y Vj) w1 <= 0 -> vdot (vsub Y Vj) w2 <= 0 ->
     vdot ni (vadd w1 w2) <= 1 + vdot w1 w2 ->
     vdot (vsub (vadd Y (vscale t ni)) Vj) (vadd w1 w2) <= delta * (1 + vdot w1 w2)) /\
  (forall (w0 : vec) (a1 a2 : R),
     vlen2 w0 = 1 -> 0 <= a1 <= PI -> 0 <= a2 <= PI ->
     vdot w0 (vadd (rot w0 a1) (rot w0 a2)) <= 1 + vdot (rot w0 a1) (rot w0 a2)).
Proof. exact (conj swept_inside_offset_edge (conj swept_inside_chord incident_edge_half_step)). Qed.
Print Assumptions convex_offset_contains_swept_edges.

(* REMAINING GAP of the whole-region claim (decided per sample point by offset_check, not proved):
   (g1) for a convex polygon: that the normals of non-incident edges are at least half a step away
        from every chord direction (angular sortedness of the normals), and that the region bounded
        by the convex offset ring is the intersection of the inner half-planes of its edges;
   (g2) for general input: that the Positive (winding > 0) fill of the raw offset rings, with the
        self-intersections left at concave joins and the inversion of features narrower than
        2|delta|, is the union of the input with the swept rectangles and the join wedges - the
        winding-number bookkeeping at concave joins (where finding fix_C12_1 lived);
   (g3) that ApplyFillRule computes that fill (property C11) and the effect of rounding in the
        doubles (unit normals, sind/cosd, the miter division). *)
