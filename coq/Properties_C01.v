(* C01 — every returned Manifold is a closed oriented 2-manifold or an empty error.
   Only statements closed by `exact`, each followed by Print Assumptions. *)
From Coq Require Import ZArith List Bool.
From MV Require Import Topo.CheckMeshDefs Topo.CheckMesh.
Import ListNotations.
Local Open Scope Z_scope.

(* The oracle that judges every exported mesh: the executable checker decides
   exactly the declarative predicate (indices in range, no triangle repeats a
   vertex, every directed edge occurs exactly once and its reverse exactly
   once, every vertex below nV is referenced), for every nV and triangle list. *)
Theorem check_mesh_iff :
  forall (nV : Z) (tris : list (Z * Z * Z)),
    check_mesh nV tris = true <-> Closed2Manifold nV tris.
Proof. exact check_mesh_iff_lemma. Qed.
Print Assumptions check_mesh_iff.

(* hypotheses satisfiable: the library's tetrahedron *)
Example closed_tetra : Closed2Manifold 4 [(0,2,1); (0,3,2); (0,1,3); (1,2,3)].
Proof. exact satisfiable_tetra. Qed.

(* Count identities: reported NumVert/NumTri equal the mesh's, NumEdge = 3T/2,
   chi = V - E + T is even and Genus = 1 - chi/2. *)
Theorem check_counts_iff :
  forall (nV : Z) (tris : list (Z * Z * Z)) (repV repE repT repGenus : Z),
    check_counts nV tris repV repE repT repGenus = true <->
    (repV = nV /\ repT = Z.of_nat (length tris) /\ 2 * repE = 3 * Z.of_nat (length tris) /\
     exists k, nV - repE + Z.of_nat (length tris) = 2 * k /\ repGenus = 1 - k).
Proof. exact check_counts_iff_lemma. Qed.
Print Assumptions check_counts_iff.
