(* C01 — every returned Manifold is a closed oriented 2-manifold or an empty error.
   Only statements closed by `exact`, each followed by Print Assumptions. *)
From Coq Require Import ZArith List Bool.
From MV Require Import Topo.CheckMeshDefs Topo.CheckMesh Topo.PipelineDefs Topo.Pipeline Topo.HalfedgeDefs Topo.HalfedgeSmall
  Topo.EdgeOpsDefs Topo.EdgeOps Topo.PipelineRows Topo.Gate Topo.Compaction Topo.UmbrellaDefs Topo.Umbrella Topo.DedupeDetectDefs Topo.DedupeDetect.
From Coq Require Import Permutation Sorted.
Import ListNotations.
Local Open Scope Z_scope.

(* The oracle that judges every exported mesh: the executable checker decides
   exactly the declarative predicate (indices in range, no triangle repeats a
   vertex, every directed edge occurs exactly once and its reverse exactly
   once, every vertex below nV is referenced), for every nV and triangle list. *)
Theorem check_mesh_iff :
  forall (nV : Z) (tris : list (Z * Z * Z)),
    check_mesh nV tris = true <-> Closed2Manifold nV tris.
Proof. exact check_mesh_iff_lemma. Qed.
Print Assumptions check_mesh_iff.

(* hypotheses satisfiable: the library's tetrahedron *)
Example closed_tetra : Closed2Manifold 4 [(0,2,1); (0,3,2); (0,1,3); (1,2,3)].
Proof. exact satisfiable_tetra. Qed.

(* Count identities: reported NumVert/NumTri equal the mesh's, NumEdge = 3T/2,
   chi = V - E + T is even and Genus = 1 - chi/2. *)
Theorem check_counts_iff :
  forall (nV : Z) (tris : list (Z * Z * Z)) (repV repE repT repGenus : Z),
    check_counts nV tris repV repE repT repGenus = true <->
    (repV = nV /\ repT = Z.of_nat (length tris) /\ 2 * repE = 3 * Z.of_nat (length tris) /\
     exists k, nV - repE + Z.of_nat (length tris) = 2 * k /\ repGenus = 1 - k).
Proof. exact check_counts_iff_lemma. Qed.
Print Assumptions check_counts_iff.

(* Abstract interpretation of the pass sequences that (re)build an Impl.  For every
   pass list, every start state (any state for a pipeline that fills a fresh Impl;
   a clean state - no stranded vertex, no tombstone, sorted, no duplicate edge / pinched vertex - for one that starts
   from an existing Manifold) and every run allowed by the per-pass effect relations
   `exec`: if pipeline_ok accepts the list, the run ends clean.  The pass lists are
   regenerated from the C++ on every run (Gen/Pipelines.v) and judged by the
   extracted pipeline_ok; the effect relations are hand-written from the code
   (trusted; the RemoveUnreferencedVerts row is tied to arrays below). *)
Theorem pipeline_ok_sound :
  forall (fresh : bool) (ps : list pass) (s s' : cstate),
    (fresh = false -> clean s) -> exec_all ps s s' -> pipeline_ok fresh ps = true -> clean s'.
Proof. exact pipeline_ok_sound_lemma. Qed.
Print Assumptions pipeline_ok_sound.

(* hypotheses satisfiable / the analysis is not vacuous: the shape of Impl::Refine on the
   pinned tree is rejected and has an allowed run that ends with a stranded vertex;
   with RemoveUnreferencedVerts before SortGeometry it is accepted. *)
Example refine_shape_rejected : pipeline_ok false [Subdivide; SortGeometry] = false.
Proof. exact refine_shape_not_ok. Qed.
Example refine_shape_has_bad_run :
  exists s', exec_all [Subdivide; SortGeometry] (mkC 0 0 true 0) s' /\ n_stranded s' = 1%nat.
Proof. exact refine_shape_bad_run. Qed.
Example refine_fixed_shape_accepted : pipeline_ok false [Subdivide; RemoveUnreferencedVerts; SortGeometry] = true.
Proof. exact refine_fixed_shape_ok. Qed.
(* the state also tracks duplicate directed edges / pinched vertices: CleanupTopology removes them but, when
   there are any, DedupeEdge can leave the original vertex unreferenced (seen by the Impl-level oracle), so a
   cleaning pipeline still needs RemoveUnreferencedVerts; a pipeline starting from a 2-manifold does not. *)
Example cleanup_without_remove_rejected : pipeline_ok true [CreateHalfedges; CleanupTopology; SortGeometry] = false.
Proof. exact cleanup_without_remove_not_ok. Qed.
Example import_shape_accepted : pipeline_ok true [CreateHalfedges; CleanupTopology; RemoveUnreferencedVerts; SortGeometry] = true.
Proof. exact import_shape_ok. Qed.
Example simplify_shape_accepted : pipeline_ok false [SimplifyTopology; SortGeometry] = true.
Proof. exact simplify_shape_ok. Qed.

(* The RemoveUnreferencedVerts row on arrays (isnan.[v] = vertPos_[v] is NaN; starts =
   halfedge start vertices): afterwards no vertex is both non-NaN and unreferenced, for
   all arrays. *)
Theorem remove_unreferenced_no_stranded :
  forall (starts : list Z) (isnan : list bool),
    count_stranded starts (remove_unreferenced starts isnan) = 0%nat.
Proof. exact remove_unreferenced_spec. Qed.
Print Assumptions remove_unreferenced_no_stranded.

(* The IsManifold gate of the ported CreateHalfedges (src/impl.cpp: key construction,
   stable sort, i <-> i+numEdge pairing, opposed-triangle removal with the in-place id
   shuffle) - PARTIAL: proved by exhaustive evaluation for the bounded inputs named in the
   statement, not for all triangle lists (the unbounded is_manifold_gate of DESIGN.md is
   not proved).  For each such list of non-degenerate triangles: the model is defined
   exactly when the number of halfedges is even; IsManifold(result) = `balanced`
   (every directed edge occurs as often as its reverse); and when accepted, HalfedgeInv
   holds, the live triangles are a sub-list of the input, still balanced, and an even
   number of triangles was removed.  The same port is compared array-for-array with
   Manifold::Impl::CreateHalfedges on generated soups (harness c01_topo). *)
Theorem is_manifold_gate_partial :
  sweep 4 0 && sweep 4 1 && sweep 4 2 && sweep 4 3 && forallb gate_case lists_4 && sweep 5 2 = true.
Proof. exact gate_small. Qed.
Print Assumptions is_manifold_gate_partial.

(* ---- second round: simple edge operations, compaction and export ---- *)

(* From HalfedgeInv (pair is an involution joining opposite directed edges; tombstones are
   whole triangles), no tombstone left, Is2Manifold's "no directed edge twice", start
   vertices in range and every vertex referenced, the triangles GetMeshGLImpl emits
   (triVerts[3t+i] = Start(3t+i)) are a closed oriented 2-manifold - for every halfedge
   array.  This is the last link from the internal invariant to the exported mesh
   (compaction_exports_closed of DESIGN.md, the export half); with check_mesh_iff the
   extracted checker accepts them. *)
Theorem export_closed :
  forall (h : list (Z * Z)) (nV : Z) (n : nat),
    length h = (3 * n)%nat ->
    halfedge_inv h = true ->
    all_live h = true ->
    NoDup (dir_edges (tris_of h)) ->
    (forall x, In x h -> 0 <= fst x < nV) ->
    (forall v, 0 <= v < nV -> In v (map fst h)) ->
    Closed2Manifold nV (tris_of h) /\ check_mesh nV (tris_of h) = true.
Proof.
  intros h nV n H1 H2 H3 H4 H5 H6.
  exact (conj (export_closed_lemma h nV n H1 H2 H3 H4 H5 H6) (export_check_mesh h nV n H1 H2 H3 H4 H5 H6)).
Qed.
Print Assumptions export_closed.

(* hypotheses satisfiable: the halfedges CreateHalfedges builds for the tetrahedron *)
Example export_closed_tetra_hyps :
  let h := [(0,5);(2,9);(1,6);(0,8);(3,10);(2,0);(0,2);(1,11);(3,3);(1,1);(2,4);(3,7)] in
  create_halfedges [(0,2,1); (0,3,2); (0,1,3); (1,2,3)] = Some h /\
  halfedge_inv h = true /\ all_live h = true /\ check_mesh 4 (tris_of h) = true.
Proof. vm_compute. repeat split; reflexivity. Qed.

(* Impl::ReindexVerts keeps HalfedgeInv for EVERY vertNew2Old (all oracle answers of the
   Morton sort), whenever the C++ would not index out of bounds. *)
Theorem reindex_verts_preserves_inv :
  forall (h : list (Z * Z)) (vertNew2Old : list Z) (oldNumVert : nat) (h' : list (Z * Z)),
    halfedge_inv h = true -> reindex_verts h vertNew2Old oldNumVert = Some h' -> halfedge_inv h' = true.
Proof. exact reindex_verts_preserves_inv_lemma. Qed.
Print Assumptions reindex_verts_preserves_inv.

(* Rows of the pass-effect table derived from the ported functions (not stated):
   the ported RemoveUnreferencedVerts is a run of that pass for every mesh ... *)
Theorem exec_remove_unreferenced_derived :
  forall (m : mesh) (sorted : bool),
    exec RemoveUnreferencedVerts (abs_state m sorted) (abs_state (remove_unreferenced_verts m) sorted).
Proof. exact exec_remove_unreferenced_derived_lemma. Qed.
Print Assumptions exec_remove_unreferenced_derived.

(* ... and the "no tombstone afterwards" half of the SortGeometry row: SortVerts leaves no
   NaN vertex when the Morton order lists the non-NaN vertices first, SortFaces leaves no
   tombstone triangle when only live faces are kept (both orders are oracles).  PARTIAL: the
   other half of the row (no new stranded vertex) and "sorted" are still stated. *)
Theorem sort_geometry_no_tombstone_partial :
  (forall (m : mesh) (n2o : list Z) (m' : mesh),
     sort_verts m n2o = Some m' ->
     (forall o, In o (firstn (count_live_verts (nan m)) n2o) -> getZ (nan m) o = Some false) ->
     nan_verts (nan m') = 0%nat) /\
  (forall (m : mesh) (f2o : list Z) (m' : mesh),
     sort_faces m f2o = Some m' ->
     (forall f i s p, In f f2o -> In i [0; 1; 2] -> getZ (hs m) (3 * f + i) = Some (s, p) -> s <> -1) ->
     dead_halfedges (hs m') = 0%nat).
Proof. exact (conj sort_verts_no_nan_lemma sort_faces_all_live_lemma). Qed.
Print Assumptions sort_geometry_no_tombstone_partial.

(* The IsManifold gate, soundness half, UNBOUNDED: for every halfedge array - in particular
   whatever the ported CreateHalfedges returns for any triangle list, with or without opposed
   pairs, duplicates, degenerate triangles - if the ported CheckHalfedges/IsManifold accepts it
   then HalfedgeInv holds (pair is an involution on live halfedges joining opposite directed
   edges, no live halfedge is a loop's own pair, tombstones are whole triangles).
   Still open for all inputs (covered by is_manifold_gate_partial's bounded sweep and by the
   correspondence run only): balanced => accepted, accepted => balanced, and "the live
   triangles are the input minus the removed opposed pairs". *)
Theorem is_manifold_implies_inv :
  forall (h : list (Z * Z)), is_manifold h = Some true -> halfedge_inv h = true.
Proof. exact is_manifold_implies_inv_lemma. Qed.
Print Assumptions is_manifold_implies_inv.

Theorem is_manifold_gate_sound :
  forall (tris : list (Z * Z * Z)) (h : list (Z * Z)),
    create_halfedges tris = Some h -> is_manifold h = Some true -> halfedge_inv h = true.
Proof. intros tris h _ H. exact (is_manifold_implies_inv_lemma h H). Qed.
Print Assumptions is_manifold_gate_sound.

(* The insertion sort that models std::stable_sort in the port meets the stable-sort
   contract for every key function and list: a permutation, sorted by key, and elements
   with equal keys keep their input order. *)
Theorem stable_sort_contract :
  forall (key : Z -> Z) (l : list Z),
    Permutation (stable_sort key l) l /\
    StronglySorted (fun a b => key a <= key b) (stable_sort key l) /\
    forall k, filter (fun y => key y =? k) (stable_sort key l) = filter (fun y => key y =? k) l.
Proof.
  intros key l.
  exact (conj (stable_sort_perm_lemma key l) (conj (stable_sort_sorted_lemma key l) (fun k => stable_sort_stable_lemma key k l))).
Qed.
Print Assumptions stable_sort_contract.

(* compaction_exports_closed (DESIGN.md C01), for every mesh state and every pair of Morton
   orders that meet the stated contracts: from HalfedgeInv, "a vertex is NaN iff unreferenced",
   start vertices in range and Is2Manifold's "no live directed edge twice"; vertNew2Old a
   duplicate-free list of all vertices with exactly the non-NaN ones first; faceNew2Old listing
   exactly the live faces - whenever the ported SortVerts and SortFaces are defined (no
   out-of-bounds access), the triangles GetMeshGLImpl then emits are a closed oriented
   2-manifold over 0..NumVert-1, and the extracted check_mesh accepts them.
   (Definedness of the two calls under these hypotheses is not proved; the correspondence run
   exercises it.  Merge vectors / property vertices of GetMeshGLImpl are not modelled.) *)
Theorem compaction_exports_closed :
  forall (m m1 m2 : mesh) (vertNew2Old faceNew2Old : list Z),
    halfedge_inv (hs m) = true ->
    nan_iff_unreferenced m = true ->
    starts_in_range m = true ->
    NoDup (map (edge_at (hs m)) (flat_map idx3 faceNew2Old)) ->
    NoDup vertNew2Old -> length vertNew2Old = length (nan m) ->
    (forall k o, nth_error vertNew2Old k = Some o ->
       (getZ (nan m) o = Some false <-> (k < count_live_verts (nan m))%nat)) ->
    (forall f e, In f faceNew2Old -> In e (idx3 f) -> exists s p, getZ (hs m) e = Some (s, p) /\ s <> -1) ->
    (forall e s p, getZ (hs m) e = Some (s, p) -> s <> -1 -> In e (flat_map idx3 faceNew2Old)) ->
    sort_verts m vertNew2Old = Some m1 -> sort_faces m1 faceNew2Old = Some m2 ->
    Closed2Manifold (Z.of_nat (length (nan m2))) (tris_of (hs m2)) /\
    check_mesh (Z.of_nat (length (nan m2))) (tris_of (hs m2)) = true.
Proof.
  intros m m1 m2 n2o f2o H1 H2 H3 H4 H5 H6 H7 H8 H9 H10 H11.
  pose proof (compaction_exports_closed_lemma m m1 m2 n2o f2o H1 H2 H3 H4 H5 H6 H7 H8 H9 H10 H11) as C.
  exact (conj C (check_mesh_complete _ _ C)).
Qed.
Print Assumptions compaction_exports_closed.

(* the hypotheses are satisfiable and the functions defined: a tetrahedron on vertices 0,2,3,4 of 5
   (vertex 1 is NaN and unreferenced) with one tombstone triangle in slot 1 *)
Example compaction_example :
  let m := mkMesh [(0,8);(3,12);(2,9);(-1,-1);(-1,-1);(-1,-1);(0,11);(4,13);(3,0);(0,2);(2,14);(4,6);(2,1);(3,7);(4,10)]
                  [false; true; false; false; false] in
  halfedge_inv (hs m) = true /\ nan_iff_unreferenced m = true /\ starts_in_range m = true /\
  match sort_verts m [4; 0; 3; 2; 1] with
  | Some m1 => match sort_faces m1 [4; 0; 3; 2] with
               | Some m2 => check_mesh (Z.of_nat (length (nan m2))) (tris_of (hs m2)) = true
               | None => False end
  | None => False end.
Proof. vm_compute. repeat split; reflexivity. Qed.

(* Round 4: the oracle also decides VERTEX-manifoldness.  Closed2Manifold above is edge-manifoldness
   (every directed edge once, its reverse once); a pinched vertex - two cones meeting only in their
   apex, e.g. Revolve of a contour that touches the axis in one vertex - satisfies it although the
   surface is not a 2-manifold there (and V - E + T need not be even).  Closed2ManifoldV adds: for
   every vertex v < nV the triangles at v form ONE fan, i.e. the neighbours of v can be listed without
   repetition as a cycle a0..a(d-1) such that the link of v (one directed edge x->y per triangle that
   reads (v,x,y) after rotation) is exactly {a0->a1, ..., a(d-1)->a0}.  The executable checker (one
   pass grouping the link edges by vertex, then a walk of d steps per vertex) decides it exactly, for
   every nV and triangle list. *)
Theorem check_mesh_v_iff :
  forall (nV : Z) (tris : list (Z * Z * Z)),
    check_mesh_v nV tris = true <-> Closed2ManifoldV nV tris.
Proof. exact check_mesh_v_iff_lemma. Qed.
Print Assumptions check_mesh_v_iff.

Theorem check_vertex_manifold_iff :
  forall (nV : Z) (tris : list (Z * Z * Z)),
    check_vertex_manifold nV tris = true <->
    (forall v, 0 <= v < nV -> exists cyc, cyc <> [] /\ NoDup cyc /\ Permutation (link v tris) (cyc_edges cyc)).
Proof. exact check_vertex_manifold_iff_lemma. Qed.
Print Assumptions check_vertex_manifold_iff.

(* both outcomes occur: the tetrahedron is vertex-manifold; two tetrahedra sharing only vertex 0 are
   edge-manifold (check_mesh accepts) but not vertex-manifold *)
Example vertex_manifold_tetra : check_mesh_v 4 [(0,2,1); (0,3,2); (0,1,3); (1,2,3)] = true.
Proof. vm_compute. reflexivity. Qed.
Example pinched_vertex_rejected :
  let t := [(0,2,1); (0,3,2); (0,1,3); (1,2,3); (0,5,4); (0,6,5); (0,4,6); (4,5,6)] in
  check_mesh 7 t = true /\ check_vertex_manifold 7 t = false.
Proof. exact pinched_example. Qed.

(* The duplicate-detection loop of Impl::DedupeEdges (first orbit: smallest halfedge per end vertex, kept
   in a vector searched linearly up to `threshold` = 32 distinct neighbours and in a hash map after that;
   second orbit: flag every halfedge that is not the recorded one), ported in Topo/DedupeDetectDefs.v.
   For every orbit and every two thresholds the same halfedges are flagged (mode independence), and they
   are exactly all but the smallest halfedge of each group with equal end vertex.  The seeded change that
   skipped the second orbit unless the LINEAR branch had seen a duplicate contradicts this statement for
   orbits whose first repeat comes after the switch.  Tie: the loop's `duplicates` vector is not observable
   without a hook; behaviourally covered by the Impl-level CleanupTopology oracle (fans of 3..69 triangles). *)
Theorem dedupe_detect_mode_independent :
  forall (threshold1 threshold2 : nat) (orbit : list (Z * Z)),
    flagged threshold1 orbit = flagged threshold2 orbit.
Proof. exact flagged_mode_independent_lemma. Qed.
Print Assumptions dedupe_detect_mode_independent.

Theorem dedupe_detect_meets_spec :
  forall (threshold : nat) (orbit : list (Z * Z)), flagged threshold orbit = flagged_spec orbit.
Proof. exact flagged_meets_spec_lemma. Qed.
Print Assumptions dedupe_detect_meets_spec.

Example dedupe_detect_example :
  (* end vertices 7,8,9,7,8 at halfedges 30,12,5,4,40; threshold 2 switches to the map after the third entry *)
  flagged 2 [(7,30); (8,12); (9,5); (7,4); (8,40)] = [30; 40] /\ flagged 32 [(7,30); (8,12); (9,5); (7,4); (8,40)] = [30; 40].
Proof. vm_compute. split; reflexivity. Qed.
