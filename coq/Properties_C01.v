(* C01 — every returned Manifold is a closed oriented 2-manifold or an empty error.
   Only statements closed by `exact`, each followed by Print Assumptions. *)
From Coq Require Import ZArith List Bool.
From MV Require Import Topo.CheckMeshDefs Topo.CheckMesh Topo.PipelineDefs Topo.Pipeline Topo.HalfedgeDefs Topo.HalfedgeSmall.
Import ListNotations.
Local Open Scope Z_scope.

(* The oracle that judges every exported mesh: the executable checker decides
   exactly the declarative predicate (indices in range, no triangle repeats a
   vertex, every directed edge occurs exactly once and its reverse exactly
   once, every vertex below nV is referenced), for every nV and triangle list. *)
Theorem check_mesh_iff :
  forall (nV : Z) (tris : list (Z * Z * Z)),
    check_mesh nV tris = true <-> Closed2Manifold nV tris.
Proof. exact check_mesh_iff_lemma. Qed.
Print Assumptions check_mesh_iff.

(* hypotheses satisfiable: the library's tetrahedron *)
Example closed_tetra : Closed2Manifold 4 [(0,2,1); (0,3,2); (0,1,3); (1,2,3)].
Proof. exact satisfiable_tetra. Qed.

(* Count identities: reported NumVert/NumTri equal the mesh's, NumEdge = 3T/2,
   chi = V - E + T is even and Genus = 1 - chi/2. *)
Theorem check_counts_iff :
  forall (nV : Z) (tris : list (Z * Z * Z)) (repV repE repT repGenus : Z),
    check_counts nV tris repV repE repT repGenus = true <->
    (repV = nV /\ repT = Z.of_nat (length tris) /\ 2 * repE = 3 * Z.of_nat (length tris) /\
     exists k, nV - repE + Z.of_nat (length tris) = 2 * k /\ repGenus = 1 - k).
Proof. exact check_counts_iff_lemma. Qed.
Print Assumptions check_counts_iff.

(* Abstract interpretation of the pass sequences that (re)build an Impl.  For every
   pass list, every start state (any state for a pipeline that fills a fresh Impl;
   a clean state - no stranded vertex, no tombstone, sorted - for one that starts
   from an existing Manifold) and every run allowed by the per-pass effect relations
   `exec`: if pipeline_ok accepts the list, the run ends clean.  The pass lists are
   regenerated from the C++ on every run (Gen/Pipelines.v) and judged by the
   extracted pipeline_ok; the effect relations are hand-written from the code
   (trusted; the RemoveUnreferencedVerts row is tied to arrays below). *)
Theorem pipeline_ok_sound :
  forall (fresh : bool) (ps : list pass) (s s' : cstate),
    (fresh = false -> clean s) -> exec_all ps s s' -> pipeline_ok fresh ps = true -> clean s'.
Proof. exact pipeline_ok_sound_lemma. Qed.
Print Assumptions pipeline_ok_sound.

(* hypotheses satisfiable / the analysis is not vacuous: the shape of Impl::Refine on the
   pinned tree is rejected and has an allowed run that ends with a stranded vertex;
   with RemoveUnreferencedVerts before SortGeometry it is accepted. *)
Example refine_shape_rejected : pipeline_ok false [Subdivide; SortGeometry] = false.
Proof. exact refine_shape_not_ok. Qed.
Example refine_shape_has_bad_run :
  exists s', exec_all [Subdivide; SortGeometry] (mkC 0 0 true) s' /\ n_stranded s' = 1%nat.
Proof. exact refine_shape_bad_run. Qed.
Example refine_fixed_shape_accepted : pipeline_ok false [Subdivide; RemoveUnreferencedVerts; SortGeometry] = true.
Proof. exact refine_fixed_shape_ok. Qed.

(* The RemoveUnreferencedVerts row on arrays (isnan.[v] = vertPos_[v] is NaN; starts =
   halfedge start vertices): afterwards no vertex is both non-NaN and unreferenced, for
   all arrays. *)
Theorem remove_unreferenced_no_stranded :
  forall (starts : list Z) (isnan : list bool),
    count_stranded starts (remove_unreferenced starts isnan) = 0%nat.
Proof. exact remove_unreferenced_spec. Qed.
Print Assumptions remove_unreferenced_no_stranded.

(* The IsManifold gate of the ported CreateHalfedges (src/impl.cpp: key construction,
   stable sort, i <-> i+numEdge pairing, opposed-triangle removal with the in-place id
   shuffle) - PARTIAL: proved by exhaustive evaluation for the bounded inputs named in the
   statement, not for all triangle lists (the unbounded is_manifold_gate of DESIGN.md is
   not proved).  For each such list of non-degenerate triangles: the model is defined
   exactly when the number of halfedges is even; IsManifold(result) = `balanced`
   (every directed edge occurs as often as its reverse); and when accepted, HalfedgeInv
   holds, the live triangles are a sub-list of the input, still balanced, and an even
   number of triangles was removed.  The same port is compared array-for-array with
   Manifold::Impl::CreateHalfedges on generated soups (harness c01_topo). *)
Theorem is_manifold_gate_partial :
  sweep 4 0 && sweep 4 1 && sweep 4 2 && sweep 4 3 && forallb gate_case lists_4 && sweep 5 2 = true.
Proof. exact gate_small. Qed.
Print Assumptions is_manifold_gate_partial.
