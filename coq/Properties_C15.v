(* C15 -- cancellation is all-or-nothing at every point; progress is monotone and ends at 1.
   Only statements closed by `exact`, each followed by Print Assumptions.
   The instances on the regenerated tables (Gen/CancelProg.v: table_ok; Gen/CancelSites.v: phase counts,
   reset order, top-up) are the generated files Gen/CancelProgOk{Seq,Par}.v, Gen/CancelPhasesOk.v,
   Gen/CancelResetOk.v, compiled by the check. *)
From Coq Require Import List String ZArith Bool Arith.
From MV Require Import Proto.CancelDefs Proto.CancelModel Proto.CancelPathDefs Proto.CancelPathModel.
Import ListNotations.

(* The translator emits, per function, a structured program (`stmt`: ctx-aware loops, calls of ctx-aware callees
   with their bodies in line and marked open/closed, cancel checks that return plainly (SAbortP) or produce a
   Cancelled object (SAbortF), status checks, uses, branches, loops, return/break/continue), raw-array AND
   object-level functions (SimpleBoolean, BatchBoolean, BatchUnion, ToLeafNode, GetCsgLeafNode, Minkowski) alike.
   `paths t f` are the bracketed words of the uncancelled executions the table denotes for API function f;
   `table_ok` is the boolean abstract interpreter Coq evaluates on the table.

   1. Every path of an accepted table obeys the word discipline `wok`: after a ctx-aware loop or an open callee an
   aborting check precedes every use, the end, and every closed callee; after any callee a possibly Cancelled
   object is only forwarded until a cancel check or a status check; a plain `return` on cancel never occurs at
   API level or directly inside a closed callee. *)
Theorem paths_are_disciplined :
  forall (t : table), table_ok t = true -> forall (f : string) (w : list tok2), paths t f w -> wok w = true.
Proof. exact table_ok_paths_wok. Qed.
Print Assumptions paths_are_disciplined.

(* 2. All-or-nothing at EVERY cancel point: for every accepted table, API function f, path w of f, serial or
   parallel execution, every order `sched` in which parallel chunks reach their check (= every chunk-skipping
   choice) and every k (the k-th IsCancelled is the first to read true): the result is the complete result r0 of the
   uncancelled run (every chunk of every loop ran) or Cancelled-and-empty.  The semantics `exec2` derives each
   cancelled run from the uncancelled path: a loop that reads the flag skips chunks, a plain-return check leaves
   the innermost callee with partial state, a Cancelled-producing check leaves it with a Cancelled object in
   flight; consuming partial state or a Cancelled object otherwise than by forwarding is `Undefined`, ending with
   partial state is `PartialEscaped`. *)
Theorem partial_never_escapes :
  forall (t : table), table_ok t = true ->
  forall (f : string) (w : list tok2), paths t f w ->
  forall (par : bool) (sched : nat -> nat -> nat) (k : nat),
    exists r0, exec2 never par sched w = Complete r0 /\ Forall (Forall (eq true)) r0 /\
      (exec2 (cancel_at k) par sched w = Complete r0 \/ exec2 (cancel_at k) par sched w = CancelledEmpty).
Proof. exact table_all_or_nothing. Qed.
Print Assumptions partial_never_escapes.

(* The same for any sticky flag (a racing Cancel() from another thread), at word level. *)
Theorem partial_never_escapes_sticky_flag :
  forall (w : list tok2) (flag : nat -> bool) (par : bool) (sched : nat -> nat -> nat),
    wok w = true -> (forall i, flag i = true -> flag (S i) = true) ->
    exec2 flag par sched w = exec2 never par sched w \/ exec2 flag par sched w = CancelledEmpty.
Proof. exact wok_all_or_nothing_flag. Qed.
Print Assumptions partial_never_escapes_sticky_flag.

Example table_ok_hyp_sat :      (* a Hull-like body is accepted, the pre-fix Refine body is not *)
  prog_ok ex_hull = true /\ prog_ok ex_refine_prefix = false /\
  prog_ok [SCall true ex_hull; SStat; SUse] = true /\ prog_ok [SCall true ex_hull; SUse] = false.
Proof. exact examples_ok. Qed.

(* The discipline is what the result rests on: an open callee (loop + plain return) not followed by a check is
   rejected, and it has a path on which a partial result escapes, resp. is consumed, at cancel point 2. *)
Theorem missing_check_lets_partial_escape :
  is_path [SCall false [SLoop; SAbortP]] [UEnter false; ULoop 3; UAbortP; ULeave] /\
  exec2 (cancel_at 2) false (fun _ j => j) [UEnter false; ULoop 3; UAbortP; ULeave] = PartialEscaped /\
  exec2 (cancel_at 2) false (fun _ j => j) [UEnter false; ULoop 3; UAbortP; ULeave; UUse; UAbortF] = Undefined /\
  prog_ok [SCall false [SLoop; SAbortP]] = false /\ prog_ok [SCall false [SLoop; SAbortP]; SUse; SAbortF] = false /\
  prog_ok [SCall false [SLoop; SAbortP]; SAbortF; SUse] = true.
Proof. exact missing_check_escapes2. Qed.
Print Assumptions missing_check_lets_partial_escape.

(* Automaton run on the logged site word of a real run (kind, value read). *)
Theorem automaton_unobserved_is_complete :
  forall w : list (ckind * bool), Forall (fun x => snd x = false) w -> accept w 0 = VComplete.
Proof. exact accept_unseen. Qed.
Print Assumptions automaton_unobserved_is_complete.
Theorem automaton_final_is_sticky :
  forall w : list (ckind * bool), Forall (fun x => snd x = true) w -> accept w 2 = VFinal.
Proof. exact accept_final_sticky. Qed.
Print Assumptions automaton_final_is_sticky.

(* Progress.  One evaluation of a CSG expression e (tree or DAG) in the current code: counters are reset numerators
   first (order_pinned = the order read from GetCsgLeafNode), total = K * (NumLeaves - 1), K unit credits per leaf
   reduction (phase() x K on the full path, PhaseBalance's top-up otherwise; K = #phase() sites is the generated
   obligation phase_counts_match), and after an uncancelled ToLeafNode GetCsgLeafNode tops done up to total
   (commit 0b749b9c; its presence is the generated obligation completion_topup = true).  A cancelled run is a prefix
   of this event list and pstates lists the state after every prefix: at every point of every evaluation
   done <= total, from any earlier state of a reused context, and done never decreases after the reset. *)
Theorem progress_bounds :
  forall (K : nat) (col : nat -> bool) (e : expr) (d0 t0 : nat), wf e = true -> d0 <= t0 ->
    Forall (fun s => fst s <= snd s) (pstates (d0, t0) (eval_events_topup K col e)) /\
    mono_done (pstates (0, K * total_booleans e)
                 (repeat (PCredit 1) (K * reductions col e) ++ [PCredit (K * total_booleans e - K * reductions col e)])).
Proof. exact progress_bounds_topup_lemma. Qed.
Print Assumptions progress_bounds.

(* ... and the order matters: denominators first exposes done > total on a reused context. *)
Theorem reset_order_matters :
  exists d0 t0 total, d0 <= t0 /\
    ~ Forall (fun s => fst s <= snd s) (pstates (d0, t0) (reset_events [RTotal; RDone] total)).
Proof. exact reset_total_first_refuted. Qed.
Print Assumptions reset_order_matters.

(* Progress() = 1 after every uncancelled completion, trees and DAGs, any collapse decisions. *)
Theorem progress_complete :
  forall (K : nat) (col : nat -> bool) (e : expr) (d0 t0 : nat), wf e = true ->
    fold_left pstep (eval_events_topup K col e) (d0, t0) = (K * total_booleans e, K * total_booleans e).
Proof. exact progress_complete_topup_lemma. Qed.
Print Assumptions progress_complete.

Example progress_complete_hyp_sat : wf f1_expr = true /\ wf (Op 2 [Op 0 [Leaf; Leaf]; Op 1 [Leaf; Leaf; Leaf]]) = true.
Proof. exact (conj eq_refl eq_refl). Qed.

(* History (code before 0b749b9c, no top-up): trees already reached done = total ... *)
Example progress_complete_before_fix_trees :
  forall (K : nat) (col : nat -> bool) (i : nat) (ks : list expr) (d0 t0 : nat),
    wf (Op i ks) = true -> NoDup (iids (Op i ks)) -> col i = false ->
    fold_left pstep (eval_events K order_pinned col (Op i ks)) (d0, t0) =
    (K * total_booleans (Op i ks), K * total_booleans (Op i ks)).
Proof. exact progress_complete_tree. Qed.
(* ... DAGs did not (finding F1): x = a + b, r = x ^ x.Translate(t) ended with done = 22, total = 33, because
   NumLeaves counts the shared, not yet evaluated children vector once per parent and it is reduced once. *)
Example progress_complete_before_fix_dag_refuted :
  exists (e : expr) (col : nat -> bool), wf e = true /\
    fold_left pstep (eval_events 11 order_pinned col e) (0, 0) = (22, 33).
Proof. exact progress_dag_refuted. Qed.

(* Op-node cache poisoning: every node on the evaluation stack whose cache was unset answers Cancelled from then on,
   without looking at any context; finished nodes keep their result. *)
Theorem cancelled_is_sticky :
  forall (stack : list nat) (cache : nat -> option cst) (i : nat),
    (In i stack -> cache i = None -> to_leaf_cached (poison stack cache) i = Some CCancelled) /\
    (forall c, cache i = Some c -> poison stack cache i = Some c).
Proof. intros stack cache i. exact (conj (poison_sticky stack cache i) (fun c => poison_keeps_done stack cache i c)). Qed.
Print Assumptions cancelled_is_sticky.

(* ToLeafNode's cancel branch, with denotations.  With the guard `if (!frame->op_node->cache_)` (generated obligation
   poison_guarded = true, read from the source) an op node that was evaluated before -- alone, through another handle,
   or earlier in this evaluation -- and whose frame is still on the stack keeps its result through a cancelled evaluation;
   every unevaluated node on the stack and the root answer Cancelled from then on. *)
Theorem cancel_preserves_evaluated :
  forall (stack : list nat) (root : nat) (cache : nat -> option cval) (i : nat) (v : cval),
    cache root = None -> cache i = Some v -> cancel_branch true stack root cache i = Some v.
Proof. exact cancel_preserves_evaluated_lemma. Qed.
Print Assumptions cancel_preserves_evaluated.

Theorem cancel_poisons_unevaluated :
  forall (g : bool) (stack : list nat) (root : nat) (cache : nat -> option cval) (i : nat),
    (i = root \/ In i stack) -> cache i = None -> cancel_branch g stack root cache i = Some VCancelled.
Proof. exact cancel_poisons_unevaluated_lemma. Qed.
Print Assumptions cancel_poisons_unevaluated.

(* Without the guard a finished result on the stack is overwritten by the Cancelled leaf. *)
Theorem cancel_unguarded_overwrites :
  exists stack root cache i r, cache root = None /\ cache i = Some (VRes r) /\
    cancel_branch false stack root cache i = Some VCancelled.
Proof. exact cancel_unguarded_overwrites_lemma. Qed.
Print Assumptions cancel_unguarded_overwrites.
