(* C15 -- cancellation is all-or-nothing at every point; progress is monotone and ends at 1.
   Only statements closed by `exact`, each followed by Print Assumptions.
   The generated-table obligations (sites_ok / phase_counts_match / reset_order_ok on
   Gen/CancelSites.v) are separate files Gen/CancelSitesOk*.v, compiled by the check. *)
From Coq Require Import List String ZArith Bool Arith.
From MV Require Import Proto.CancelDefs Proto.CancelModel.
Import ListNotations.

(* Level A.  A raw-array operation is the bracketed path word w of its uncancelled
   execution (TLoop c: ctx-aware loop with c chunk checks; TEnter/TLeave: body of an open
   ctx-aware callee; TAbortP: `if (IsCancelled) return;`; TAbortF: a check that produces a
   Cancelled object; TUse: a statement reading earlier outputs).  word_ok is the word-level
   reading of sites_ok: after every ctx-aware loop / callee an aborting check comes before
   any use and before the end.  Then for EVERY cancel point k (cancel_at k: the k-th check is
   the first to read true), serial or parallel, and every order `sched` in which parallel
   chunks reach their check (= every chunk-skipping choice), the result is the complete
   result r0 of the uncancelled run (every chunk of every loop ran) or Cancelled-and-empty. *)
Theorem partial_never_escapes :
  forall (w : list tok) (par : bool) (sched : nat -> nat -> nat) (k : nat),
    word_ok w false 0 = true ->
    exists r0, exec never par sched w = Complete r0 /\ Forall (Forall (eq true)) r0 /\
      (exec (cancel_at k) par sched w = Complete r0 \/ exec (cancel_at k) par sched w = CancelledEmpty).
Proof. exact partial_never_escapes_k. Qed.
Print Assumptions partial_never_escapes.

(* The same for any sticky flag (a racing Cancel() from another thread). *)
Theorem partial_never_escapes_sticky_flag :
  forall (w : list tok) (flag : nat -> bool) (par : bool) (sched : nat -> nat -> nat),
    word_ok w false 0 = true -> (forall i, flag i = true -> flag (S i) = true) ->
    exec flag par sched w = exec never par sched w \/ exec flag par sched w = CancelledEmpty.
Proof. exact partial_never_escapes_flag. Qed.
Print Assumptions partial_never_escapes_sticky_flag.

Example partial_never_escapes_hyp_sat :   (* SortVerts-like callee inside a Hull-like operation *)
  word_ok [TAbortF; TEnter; TLoop 5; TAbortP; TNeutral; TEnter; TLoop 30; TAbortP; TLeave; TAbortP; TUse; TLeave; TAbortF; TUse] false 0 = true.
Proof. vm_compute. reflexivity. Qed.

(* The discipline is what the result rests on: without the post-loop check a partial result
   escapes (Impl::Refine on the pinned tree), with a use before the check it is consumed. *)
Theorem missing_check_lets_partial_escape :
  exec (cancel_at 2) false (fun _ j => j) [TLoop 3; TNeutral] = PartialEscaped /\
  exec (cancel_at 2) false (fun _ j => j) [TLoop 3; TUse; TAbortF] = Undefined /\
  word_ok [TLoop 3; TNeutral] false 0 = false /\ word_ok [TLoop 3; TUse; TAbortF] false 0 = false.
Proof. exact missing_check_escapes. Qed.
Print Assumptions missing_check_lets_partial_escape.

(* What sites_ok says about a generated table. *)
Theorem sites_ok_means :
  forall t : list site, sites_ok t = true ->
    forall s, In s t -> (forall f, In f (s_followers s) -> f <> FUse) /\
                         (forall k, In k (s_terms s) -> k <> TEndTop) /\ s_terms s <> [].
Proof. exact sites_ok_spec. Qed.
Print Assumptions sites_ok_means.

(* Automaton run on the logged site word of a real run (kind, value read). *)
Theorem automaton_unobserved_is_complete :
  forall w : list (ckind * bool), Forall (fun x => snd x = false) w -> accept w 0 = VComplete.
Proof. exact accept_unseen. Qed.
Print Assumptions automaton_unobserved_is_complete.
Theorem automaton_final_is_sticky :
  forall w : list (ckind * bool), Forall (fun x => snd x = true) w -> accept w 2 = VFinal.
Proof. exact accept_final_sticky. Qed.
Print Assumptions automaton_final_is_sticky.

(* Level B.  One evaluation of a CSG expression e: counters are reset numerators first
   (order_pinned = the order read from GetCsgLeafNode), total = K * (NumLeaves - 1), then K unit
   credits per leaf reduction (phase() x K on the full path, PhaseBalance's top-up otherwise;
   K = #phase() sites is the generated obligation phase_counts_match).  A cancelled run is a
   prefix of this event list, and pstates lists the state after every prefix: so at every point
   of every (cancelled or not) evaluation, for trees AND DAGs, done <= total, from any earlier
   state of a reused context; and done never decreases after the reset. *)
Theorem progress_bounds :
  forall (K : nat) (col : nat -> bool) (e : expr) (d0 t0 : nat), wf e = true -> d0 <= t0 ->
    Forall (fun s => fst s <= snd s) (pstates (d0, t0) (eval_events K order_pinned col e)) /\
    mono_done (pstates (0, K * total_booleans e) (repeat (PCredit 1) (K * reductions col e))).
Proof. exact progress_bounds_lemma. Qed.
Print Assumptions progress_bounds.

(* ... and the order matters: denominators first exposes done > total on a reused context. *)
Theorem reset_order_matters :
  exists d0 t0 total, d0 <= t0 /\
    ~ Forall (fun s => fst s <= snd s) (pstates (d0, t0) (reset_events [RTotal; RDone] total)).
Proof. exact reset_total_first_refuted. Qed.
Print Assumptions reset_order_matters.

(* Progress() = 1 after an uncancelled completion: TREES (no children vector shared, none reduced
   before), any collapse decisions below the root. *)
Theorem progress_complete :
  forall (K : nat) (col : nat -> bool) (i : nat) (ks : list expr) (d0 t0 : nat),
    wf (Op i ks) = true -> NoDup (iids (Op i ks)) -> col i = false ->
    fold_left pstep (eval_events K order_pinned col (Op i ks)) (d0, t0) =
    (K * total_booleans (Op i ks), K * total_booleans (Op i ks)).
Proof. exact progress_complete_tree. Qed.
Print Assumptions progress_complete.

Example progress_complete_hyp_sat :
  wf (Op 2 [Op 0 [Leaf; Leaf]; Op 1 [Leaf; Leaf; Leaf]]) = true /\ NoDup (iids (Op 2 [Op 0 [Leaf; Leaf]; Op 1 [Leaf; Leaf; Leaf]])).
Proof. split; [reflexivity | repeat constructor; cbn; intuition discriminate]. Qed.

(* DAGs: refuted (finding F1).  x = a + b, r = x ^ x.Translate(t): NumLeaves counts the shared,
   not yet evaluated children vector once per parent (4 leaves, 3 Booleans) but it is reduced
   once (2 Booleans): the evaluation ends with done = 22, total = 33. Replayed on the real code. *)
Theorem progress_complete_dag_refuted :
  exists (e : expr) (col : nat -> bool), wf e = true /\
    fold_left pstep (eval_events 11 order_pinned col e) (0, 0) = (22, 33).
Proof. exact progress_dag_refuted. Qed.
Print Assumptions progress_complete_dag_refuted.

(* The repair proposed for F1 (hooks/fix_C15_1.patch): GetCsgLeafNode tops donePhases up to totalPhases
   after an uncancelled ToLeafNode.  With it Progress() = 1 after every uncancelled completion, trees and
   DAGs; the top-up is a non-negative credit (reductions <= NumLeaves - 1, used in progress_bounds), so
   monotonicity and the bound are kept.  The check uses this variant when the translator finds the top-up. *)
Theorem progress_complete_with_topup :
  forall (K : nat) (col : nat -> bool) (e : expr) (d0 t0 : nat), wf e = true ->
    fold_left pstep (eval_events_topup K col e) (d0, t0) = (K * total_booleans e, K * total_booleans e).
Proof. exact progress_complete_topup_lemma. Qed.
Print Assumptions progress_complete_with_topup.

(* Op-node cache poisoning: every node on the evaluation stack whose cache was unset answers
   Cancelled from then on, without looking at any context; finished nodes keep their result. *)
Theorem cancelled_is_sticky :
  forall (stack : list nat) (cache : nat -> option cst) (i : nat),
    (In i stack -> cache i = None -> to_leaf_cached (poison stack cache) i = Some CCancelled) /\
    (forall c, cache i = Some c -> poison stack cache i = Some c).
Proof. intros stack cache i. exact (conj (poison_sticky stack cache i) (fun c => poison_keeps_done stack cache i c)). Qed.
Print Assumptions cancelled_is_sticky.
