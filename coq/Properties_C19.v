(* C19 — refinement keeps the surface; simplification only removes redundancy.
   Only statements closed by `exact`, each followed by Print Assumptions.
   The float primitives listed by Print Assumptions are Coq's PrimFloat
   (binary64): the model takes the same rounding decisions as the C++.       *)
From Coq Require Import ZArith List Bool QArith Permutation.
From MV Require Import Tri.PartitionDefs Tri.PartitionCheck Tri.PartitionModel Tri.PartitionBounded.
From MV Require Base.Chain Tri.QuadChain Tri.QuadModel Tri.TriModel Tri.SubdivideDefs Tri.SubdivideModel
  Tri.SimplifyDefs Tri.SimplifyModel Tri.PartitionSweepMisc Tri.ReindexModel Tri.SubdivideQuadDefs Tri.SubdivideQuadModel Tri.ReindexQuadModel Tri.SimplifyInvDefs Tri.SimplifyInv.
Import ListNotations.
Local Open Scope Z_scope.

(* The checker is sound for the declarative tiling statement `Tiles`
   (PartitionModel.v): indices in range, every vertex used, no directed edge
   twice, a directed edge has its reverse iff it is not an outline edge, every
   outline edge present (boundary chain = subdivided outline, in order), every
   triangle of positive area, areas summing to the outline's area, outline
   vertices at their exact places, all other vertices strictly inside. *)
Theorem tiles_ok_sound :
  forall (eps : Q) (n : v4 Z) (vb : list (v4 Q)) (tv : list tri),
    tiles_ok eps n vb tv = true -> Tiles eps n vb tv.
Proof. exact tiles_ok_sound_lemma. Qed.
Print Assumptions tiles_ok_sound.

Example tiles_ok_not_vacuous :
  match cached_partition_q (V4 3 2 1 0) with
  | Some (vb, tv) => tiles_ok 0 (V4 3 2 1 0) vb tv = true /\ tiles_ok 0 (V4 3 2 1 0) vb (removelast tv) = false
  | None => False
  end.
Proof. exact tiles_ok_rejects_hole. Qed.

(* Every triangle pattern with n0 >= n1 >= n2 >= 1, n0 <= 24: the ported
   GetCachedPartition (exact-arithmetic barycentrics, double-precision rounding
   decisions) is defined and tiles the triangle exactly (eps = 0). *)
Theorem partition_tiles_bounded :
  forall n0 n1 n2 : Z, 1 <= n2 <= n1 -> n1 <= n0 -> n0 <= 24 ->
    exists vb tv, cached_partition_q (V4 n0 n1 n2 0) = Some (vb, tv) /\ Tiles 0 (V4 n0 n1 n2 0) vb tv.
Proof. exact tri_tiles_bounded. Qed.
Print Assumptions partition_tiles_bounded.

(* Every quad pattern whose first side is a shortest side (the form GetPartition
   rotates to, see get_partition_quad_rotation), sides <= 10. *)
Theorem partition_quad_tiles_bounded :
  forall a b c d : Z, 1 <= a -> a <= b <= 10 -> a <= c <= 10 -> a <= d <= 10 ->
    exists vb tv, cached_partition_q (V4 a b c d) = Some (vb, tv) /\ Tiles 0 (V4 a b c d) vb tv.
Proof. exact quad_tiles_bounded. Qed.
Print Assumptions partition_quad_tiles_bounded.

(* GetPartition for the three divisions in any order: it sorts them (idx is a
   permutation, sortedDivisions[i] = divisions[idx[i]]) and the pattern tiles. *)
Theorem get_partition_tiles_bounded :
  forall d0 d1 d2 : Z, 1 <= d0 <= 24 -> 1 <= d1 <= 24 -> 1 <= d2 <= 24 ->
    exists p, get_partition_q (V4 d0 d1 d2 0) = Some p /\
              Tiles 0 (p_sorted p) (p_vb p) (p_tv p) /\
              p_sorted p = map4 (g4 (V4 d0 d1 d2 0)) (p_idx p) /\
              Permutation [g4 (p_idx p) 0; g4 (p_idx p) 1; g4 (p_idx p) 2]%nat [0; 1; 2]%nat.
Proof. exact PartitionBounded.get_partition_tiles_bounded. Qed.
Print Assumptions get_partition_tiles_bounded.

(* GetPartition on quads, all sizes: idx is a rotation, the key is the rotated
   division vector and starts with a shortest side. *)
Theorem get_partition_quad_rotation :
  forall a b c d : Z, d <> 0 ->
    let '(s, ix) := sort_divisions (V4 a b c d) in
    exists m, (m < 4)%nat /\ ix = V4 (mod4 (0 + m)) (mod4 (1 + m)) (mod4 (2 + m)) (mod4 (3 + m)) /\
              s = map4 (g4 (V4 a b c d)) ix /\ c0 s <= a /\ c0 s <= b /\ c0 s <= c /\ c0 s <= d.
Proof. exact sort_divisions_quad. Qed.
Print Assumptions get_partition_quad_rotation.

(* The double-precision pattern (bit-exact image of the C++, compared with the
   implementation on every run) has the same triangles as the exact pattern and
   its doubles, read exactly, tile within 2^-44. *)
Theorem float_pattern_tiles_bounded :
  forall n0 n1 n2 : Z, 1 <= n2 <= n1 -> n1 <= n0 -> n0 <= 12 ->
    exists vb tv vq vbq,
      cached_partition_f (V4 n0 n1 n2 0) = Some (vb, tv) /\ cached_partition_q (V4 n0 n1 n2 0) = Some (vbq, tv) /\
      all_some (map q4_of_float vb) = Some vq /\ Tiles eps_float (V4 n0 n1 n2 0) vq tv.
Proof. exact float_tiles_bounded. Qed.
Print Assumptions float_pattern_tiles_bounded.

Theorem float_quad_pattern_tiles_bounded :
  forall a b c d : Z, 1 <= a -> a <= b <= 5 -> a <= c <= 5 -> a <= d <= 5 ->
    exists vb tv vq vbq,
      cached_partition_f (V4 a b c d) = Some (vb, tv) /\ cached_partition_q (V4 a b c d) = Some (vbq, tv) /\
      all_some (map q4_of_float vb) = Some vq /\ Tiles eps_float (V4 a b c d) vq tv.
Proof. exact float_quad_tiles_bounded. Qed.
Print Assumptions float_quad_pattern_tiles_bounded.

(* PartitionFan, every size: k + 1 triangles whose boundary chain is the outline
   cv0 -> eo, eo+1, .., eo+k-1 -> cv1 -> cv2 -> cv0 (coef = #(a,b) - #(b,a)). *)
Theorem fan_tiles :
  forall (cv0 cv1 cv2 eo : Z) (k : nat),
    length (partition_fan cv0 cv1 cv2 (Z.of_nat k) eo) = S k /\
    forall a b, coef (dir_edges (partition_fan cv0 cv1 cv2 (Z.of_nat k) eo)) a b =
                coef (cyc_pairs (cv0 :: zseq eo (Z.of_nat k) ++ [cv1; cv2])) a b.
Proof. exact fan_tiles_lemma. Qed.
Print Assumptions fan_tiles.

(* (bounded sweep kept as an example of quad_terminal_tiles below: all terminal
   configurations with <= 10 added vertices per side, all 16 edge directions) *)
Example quad_terminal_tiles_sweep :
  forallb (fun ea => forallb (quad_terminal_ok ea) bool4s) (terminal_eas 10) = true.
Proof. exact PartitionSweepMisc.sweep_terminal. Qed.

(* Refine(n): every edge gets n - 1 new vertices, the pattern of (n,n,n) has n^2 triangles. *)
Theorem uniform_n_squared :
  forall n : Z, 1 <= n <= 64 ->
    exists vb tv, cached_partition_f (V4 n n n 0) = Some (vb, tv) /\ Z.of_nat (length tv) = n * n.
Proof. exact uniform_n_squared_lemma. Qed.
Print Assumptions uniform_n_squared.

(* Reindex: the new vertices of an edge with offset `off` and n - 1 = m new
   vertices are off .. off+m-1 when the halfedge is forward, and the same
   vertices in reverse order when it is backward, for every m. *)
Theorem reindex_consistent :
  forall off m : Z, 0 <= m ->
    edge_run off true m = zseq off m /\ edge_run off false m = rev (edge_run off true m).
Proof. intros off m H. exact (conj (edge_run_fwd_zseq off m) (edge_run_reverse_lemma off m H)). Qed.
Print Assumptions reindex_consistent.

(* ... so two neighbouring triangles (10,11,12) and (11,10,13) whose shared edge
   is divided into d pieces (the other sides into a1,a2,b1,b2; all orders, so
   mirrored patterns included) balance after Reindex: the boundary chain of the
   union of their sub-triangles is the outer outline, the shared edge cancels. *)
Theorem reindex_two_triangles_bounded :
  forall d a1 a2 b1 b2 : Z,
    1 <= d <= 5 -> 1 <= a1 <= 5 -> 1 <= a2 <= 5 -> 1 <= b1 <= 5 -> 1 <= b2 <= 5 ->
    two_tri_ok d a1 a2 b1 b2 = true.
Proof. exact two_tri_bounded. Qed.
Print Assumptions reindex_two_triangles_bounded.

(* SetTolerance(t) on an Impl with epsilon_ <= tolerance_: the new tolerance_ is max(t, epsilon_),
   it never drops below epsilon_, and SimplifyTopology2 runs iff the tolerance was raised. *)
Theorem set_tolerance_reports_max :
  forall tol eps t : Z, eps <= tol -> fst (set_tolerance tol eps t) = Z.max t eps.
Proof. exact set_tolerance_max. Qed.
Print Assumptions set_tolerance_reports_max.

Theorem tolerance_ge_epsilon :
  forall tol eps t : Z, eps <= tol -> eps <= fst (set_tolerance tol eps t).
Proof. exact set_tolerance_ge_eps. Qed.
Print Assumptions tolerance_ge_epsilon.

Theorem set_tolerance_simplifies_iff_raised :
  forall tol eps t : Z, snd (set_tolerance tol eps t) = true <-> tol < t.
Proof. exact set_tolerance_simplifies_iff. Qed.
Print Assumptions set_tolerance_simplifies_iff_raised.

(* Simplify(t): tolerance_ afterwards is the old one; the tolerance used is max(t, old) (old if t = 0). *)
Theorem simplify_tolerance_unchanged :
  forall tol t : Z,
    snd (simplify_tolerances tol t) = tol /\
    fst (simplify_tolerances tol t) = (if t =? 0 then tol else Z.max t tol).
Proof. exact simplify_tolerances_spec. Qed.
Print Assumptions simplify_tolerance_unchanged.

(* SetEpsilon establishes epsilon_ <= tolerance_ and never lowers tolerance_. *)
Theorem set_epsilon_floor :
  forall (tol maxeps ff : Z) (us : bool),
    let '(e, t) := set_epsilon tol maxeps ff us in e <= t /\ tol <= t /\ e = maxeps.
Proof. exact set_epsilon_ge. Qed.
Print Assumptions set_epsilon_floor.

(* ====================================================================== *)
(* All sizes.  Chains are those of Base/Chain.v: Chain.coef c a b is the
   coefficient of the generator [a -> b] ([b -> a] = -[a -> b], loops are 0),
   Chain.ceq is equality of all coefficients, Chain.boundaries the sum of the
   triangle boundaries, Chain.contour the closed path through a vertex list.  *)

(* PartitionQuad, terminal cases, every size and every answer of the scan:
   the triangles' boundary chain is the outline of the quad. *)
Theorem quad_terminal_tiles :
  forall (a b : Z) (cv eo ea : v4 Z) (fwd : v4 bool) (corner maxEdge : Z),
    QuadModel.nonneg4 ea -> quad_scan ea = (corner, maxEdge) -> 0 <= corner ->
    Chain.coef (Chain.boundaries (if 0 <=? maxEdge then quad_term_one cv eo ea fwd (Z.to_nat maxEdge)
                                  else quad_term_corner cv eo ea fwd (Z.to_nat corner))) a b =
    Chain.coef (Chain.contour (QuadModel.qoutline cv eo ea fwd)) a b.
Proof.
  intros a b cv eo ea fwd corner maxEdge H1 H2 H3.
  exact (eq_trans (QuadModel.terminal_chain a b cv eo ea fwd corner maxEdge H1 H2 H3)
                  (eq_sym (QuadModel.W_contour a b cv eo ea fwd))).
Qed.
Print Assumptions quad_terminal_tiles.

(* PartitionQuad, recursive and terminal, every size, every number type, every
   value of the double-precision `added`: whenever the ported function returns
   (no assertion failure, no out-of-bounds read, fuel sufficient) its triangles
   triangulate the outline corner0 -> side 0 -> corner1 -> ... -> corner0. *)
Theorem partition_quad_tiles :
  forall (T : Type) (tlerp : T -> T -> Z -> Z -> T) (fuel : nat) (vb : list (bary T))
         (cv eo ea : v4 Z) (fwd : v4 bool) (tv : list tri) (vb' : list (bary T)),
    partition_quad T tlerp fuel vb cv eo ea fwd = Some (tv, vb') ->
    Chain.ceq (Chain.boundaries tv) (Chain.contour (QuadModel.qoutline cv eo ea fwd)).
Proof. exact QuadModel.partition_quad_tiles_lemma. Qed.
Print Assumptions partition_quad_tiles.

(* GetCachedPartition on triangles, ALL n0 >= n1 >= n2 >= 1: whenever it
   returns, its triangles triangulate the subdivided outline
   0 -> 3..(n0-1 vertices) -> 1 -> ... -> 2 -> ... -> 0.  The obtuse branch takes
   two numbers from double-precision arithmetic; the theorem needs
   split_ok: 1 <= ns and (n2 = 1 -> nh = 1) (decidable; see the sweep below).
   That it returns (definedness) is shown only in partition_tiles_bounded. *)
Theorem partition_tiles :
  forall (T : Type) (tzero tone : T) (tlerp : T -> T -> Z -> Z -> T)
         (n0 n1 n2 : Z) (vb : list (bary T)) (tv : list tri),
    1 <= n2 <= n1 -> n1 <= n0 ->
    cached_partition T tzero tone tlerp (V4 n0 n1 n2 0) = Some (vb, tv) ->
    TriModel.split_ok n0 n1 n2 ->
    Chain.ceq (Chain.boundaries tv) (Chain.contour (TriModel.tri_outline n0 n1 n2)).
Proof.
  intros T tzero tone tlerp n0 n1 n2 vb tv H2 H1 Hc Hs a b.
  exact (eq_trans (TriModel.tri_partition_chain T tzero tone tlerp n0 n1 n2 vb tv H2 H1 Hc Hs a b)
                  (eq_sym (TriModel.TW_contour a b n0 n1 n2))).
Qed.
Print Assumptions partition_tiles.

Example split_ok_sweep :
  forallb (fun k => TriModel.split_okb (c0 k) (c1 k) (c2 k)) (tri_keys 24) = true.
Proof. exact PartitionSweepMisc.sweep_split_ok. Qed.

(* GetCachedPartition on quads, all sizes *)
Theorem partition_quad_pattern_tiles :
  forall (T : Type) (tzero tone : T) (tlerp : T -> T -> Z -> Z -> T)
         (n0 n1 n2 n3 : Z) (vb : list (bary T)) (tv : list tri),
    0 < n3 ->
    cached_partition T tzero tone tlerp (V4 n0 n1 n2 n3) = Some (vb, tv) ->
    Chain.ceq (Chain.boundaries tv)
      (Chain.contour (QuadModel.qoutline (V4 0 1 2 3)
         (V4 4 (4 + n0 - 1) (4 + n0 - 1 + n1 - 1) (4 + n0 - 1 + n1 - 1 + n2 - 1))
         (V4 (n0 - 1) (n1 - 1) (n2 - 1) (n3 - 1)) (V4 true true true true))).
Proof. exact TriModel.quad_partition_chain. Qed.
Print Assumptions partition_quad_pattern_tiles.

(* ---------------------------------------------------------------------- *)
(* Subdivide's offset arithmetic (meshes without marked quads, keepInterior =
   false): the new vertex indices of the edges, edgeOffset[i] + [0, edgeAdded[i]),
   tile [numVert, numVert + sum edgeAdded): every index is written exactly once. *)
Theorem new_indices_once_edges :
  forall (numVert : Z) (tris : list tri) (added : Z -> Z -> Z),
    SubdivideModel.nonneg (SubdivideDefs.edge_added_list tris added) ->
    (forall i k x,
        SubdivideModel.in_run (SubdivideDefs.edge_offset_list numVert tris added) (SubdivideDefs.edge_added_list tris added) i k x ->
        numVert <= x < numVert + SubdivideDefs.total_edge_added tris added) /\
    (forall x, numVert <= x < numVert + SubdivideDefs.total_edge_added tris added ->
       (exists i k, SubdivideModel.in_run (SubdivideDefs.edge_offset_list numVert tris added) (SubdivideDefs.edge_added_list tris added) i k x) /\
       (forall i k i' k',
          SubdivideModel.in_run (SubdivideDefs.edge_offset_list numVert tris added) (SubdivideDefs.edge_added_list tris added) i k x ->
          SubdivideModel.in_run (SubdivideDefs.edge_offset_list numVert tris added) (SubdivideDefs.edge_added_list tris added) i' k' x ->
          i = i' /\ k = k')).
Proof. exact SubdivideModel.new_indices_once_edges. Qed.
Print Assumptions new_indices_once_edges.

(* the same for the interior vertices of the patterns, above the edge vertices *)
Theorem new_indices_once_interior :
  forall (T : Type) (numVert : Z) (tris : list tri) (added : Z -> Z -> Z) (ps : list (partition T)),
    SubdivideModel.nonneg (SubdivideDefs.num_interior_list T ps) ->
    let lo := numVert + SubdivideDefs.total_edge_added tris added in
    let hi := lo + SubdivideDefs.zsum (SubdivideDefs.num_interior_list T ps) in
    (forall t k x,
        SubdivideModel.in_run (SubdivideDefs.interior_offset_list T numVert tris added ps) (SubdivideDefs.num_interior_list T ps) t k x ->
        lo <= x < hi) /\
    (forall x, lo <= x < hi ->
       (exists t k, SubdivideModel.in_run (SubdivideDefs.interior_offset_list T numVert tris added ps) (SubdivideDefs.num_interior_list T ps) t k x) /\
       (forall t k t' k',
          SubdivideModel.in_run (SubdivideDefs.interior_offset_list T numVert tris added ps) (SubdivideDefs.num_interior_list T ps) t k x ->
          SubdivideModel.in_run (SubdivideDefs.interior_offset_list T numVert tris added ps) (SubdivideDefs.num_interior_list T ps) t' k' x ->
          t = t' /\ k = k')).
Proof. exact SubdivideModel.new_indices_once_interior. Qed.
Print Assumptions new_indices_once_interior.

(* Neighbouring triangles agree on shared edges, for ANY closed oriented soup of
   non-degenerate triangles and any assignment of offsets / numbers of new
   vertices to the undirected edges: the subdivided outlines of all triangles
   (forward halfedge: off, off+1, ..; backward halfedge: the same vertices
   downwards - what Reindex's edgeFwd produces) sum to zero. *)
Theorem subdivided_outlines_balance :
  forall (off n : Z -> Z -> Z) (tris : list tri),
    (forall p q r, In (p, q, r) tris -> p <> q /\ q <> r /\ r <> p) ->
    Chain.ceq (Chain.boundaries tris) [] ->
    Chain.ceq (flat_map (SubdivideModel.gout off n) tris) [].
Proof. exact SubdivideModel.gout_balances. Qed.
Print Assumptions subdivided_outlines_balance.

(* Reindex, all sizes, all six orders of the divisions (mirrored patterns
   included): the reindexed pattern triangulates the three subdivided sides of
   its triangle, numbered as Reindex numbers them (edge_run). *)
Theorem reindex_outline :
  forall (T : Type) (tzero tone : T) (tlerp : T -> T -> Z -> Z -> T)
         (d0 d1 d2 : Z) (p : partition T) (v0 v1 v2 o0 o1 o2 ox : Z) (f0 f1 f2 fx : bool) (io : Z) (rt : list tri),
    1 <= d0 -> 1 <= d1 -> 1 <= d2 -> 0 <= v0 -> 0 <= v1 -> 0 <= v2 ->
    get_partition T tzero tone tlerp (V4 d0 d1 d2 0) = Some p ->
    TriModel.split_ok (c0 (p_sorted p)) (c1 (p_sorted p)) (c2 (p_sorted p)) ->
    reindex T p (V4 v0 v1 v2 (-1)) (V4 o0 o1 o2 ox) (V4 f0 f1 f2 fx) io = Some rt ->
    forall a b, Chain.coef (Chain.boundaries rt) a b =
                ReindexModel.rsides a b v0 v1 v2 o0 o1 o2 f0 f1 f2 (d0 - 1) (d1 - 1) (d2 - 1).
Proof. exact ReindexModel.reindex_outline. Qed.
Print Assumptions reindex_outline.

(* ... hence the subdivided soup of the ported Subdivide is closed and oriented
   for every closed oriented input with non-negative vertex ids and every
   non-negative edgeDivisions oracle (meshes without marked quads, keepInterior
   = false; see subdivide_q_* for the general model).  The only remaining
   hypothesis is split_ok for the patterns that are used (the two
   double-precision numbers of the obtuse branch; swept for n0 <= 24). *)
Theorem subdivide_balances :
  forall (T : Type) (tzero tone : T) (tlerp : T -> T -> Z -> Z -> T)
         (numVert : Z) (tris : list tri) (added : Z -> Z -> Z) (out : list tri),
    Chain.ceq (Chain.boundaries tris) [] ->
    (forall p q r, In (p, q, r) tris -> 0 <= p /\ 0 <= q /\ 0 <= r) ->
    (forall u v, 0 <= added u v) ->
    (forall t p, In t tris -> SubdivideDefs.sub_part T tzero tone tlerp numVert tris added t = Some p ->
                 TriModel.split_ok (c0 (p_sorted p)) (c1 (p_sorted p)) (c2 (p_sorted p))) ->
    SubdivideDefs.subdivide_tris T tzero tone tlerp numVert tris added = Some out ->
    Chain.ceq (Chain.boundaries out) [].
Proof. exact ReindexModel.subdivide_balances_all. Qed.
Print Assumptions subdivide_balances.

Example subdivide_tetra_balances : Chain.ceq (Chain.boundaries SubdivideModel.tetra_out) [].
Proof. exact SubdivideModel.tetra_balances. Qed.

(* ---------------------------------------------------------------------- *)
(* The general Subdivide model (SubdivideQuadDefs.v): marked quads
   (GetNeighbor / GetHalfedges / GetIndices) and keepInterior = true (the
   `Added` adjustment, its 0.2 factor in binary64).                          *)
Module SQ := SubdivideQuadDefs.

(* keepInterior never produces a negative edgeAdded ... *)
Theorem keep_interior_nonneg :
  forall (numVert : Z) (tris : list tri) (added : Z -> Z -> Z) (marked : Z -> Z -> bool) (keepInterior : bool) (u v : Z),
    (forall u v, 0 <= added u v) -> u < v ->
    0 <= SQ.eadd numVert tris added marked keepInterior u v.
Proof. exact SubdivideQuadModel.eadd_nonneg_q. Qed.
Print Assumptions keep_interior_nonneg.

(* ... so also with quads and keepInterior every new edge-vertex index is written exactly once *)
Theorem new_indices_once_edges_q :
  forall (numVert : Z) (tris : list tri) (added : Z -> Z -> Z) (marked : Z -> Z -> bool) (keepInterior : bool),
    (forall u v, 0 <= added u v) ->
    let offs := SQ.edge_offset_list_q numVert tris added marked keepInterior in
    let ns := SQ.edge_added_list_q numVert tris added marked keepInterior in
    let total := SQ.total_edge_added_q numVert tris added marked keepInterior in
    (forall i k x, SubdivideModel.in_run offs ns i k x -> numVert <= x < numVert + total) /\
    (forall x, numVert <= x < numVert + total ->
       (exists i k, SubdivideModel.in_run offs ns i k x) /\
       (forall i k i' k', SubdivideModel.in_run offs ns i k x -> SubdivideModel.in_run offs ns i' k' x -> i = i' /\ k = k')).
Proof. exact SubdivideQuadModel.new_indices_once_edges_q. Qed.
Print Assumptions new_indices_once_edges_q.

Theorem new_indices_once_interior_q :
  forall (T : Type) (numVert : Z) (tris : list tri) (added : Z -> Z -> Z) (marked : Z -> Z -> bool)
         (keepInterior : bool) (ps : list (partition T)),
    SubdivideModel.nonneg (SubdivideDefs.num_interior_list T ps) ->
    let lo := numVert + SQ.total_edge_added_q numVert tris added marked keepInterior in
    let hi := lo + SubdivideDefs.zsum (SubdivideDefs.num_interior_list T ps) in
    let offs := SQ.interior_offset_list_q T numVert tris added marked keepInterior ps in
    (forall t k x, SubdivideModel.in_run offs (SubdivideDefs.num_interior_list T ps) t k x -> lo <= x < hi) /\
    (forall x, lo <= x < hi ->
       (exists t k, SubdivideModel.in_run offs (SubdivideDefs.num_interior_list T ps) t k x) /\
       (forall t k t' k', SubdivideModel.in_run offs (SubdivideDefs.num_interior_list T ps) t k x ->
                          SubdivideModel.in_run offs (SubdivideDefs.num_interior_list T ps) t' k' x -> t = t' /\ k = k')).
Proof. exact SubdivideQuadModel.new_indices_once_interior_q. Qed.
Print Assumptions new_indices_once_interior_q.

(* faces = triangles and quads (two triangles joined along a marked edge): for
   every closed oriented soup, every symmetric marking accepted by quads_valid
   (implied by the port of ValidTangents, next theorem), every edge divisions,
   the subdivided outlines of all faces cancel. *)
Theorem face_outlines_balance :
  forall (tris : list tri) (marked : Z -> Z -> bool) (off n : Z -> Z -> Z),
    (forall p q r, In (p, q, r) tris -> p <> q /\ q <> r /\ r <> p) ->
    (forall x y, marked x y = marked y x) ->
    SQ.quads_valid tris marked = true ->
    Chain.ceq (Chain.boundaries tris) [] ->
    Chain.ceq (flat_map (SubdivideQuadModel.face_outline tris marked off n) (SQ.tri_ids tris)) [].
Proof. exact SubdivideQuadModel.gout_q_balances. Qed.
Print Assumptions face_outlines_balance.

Theorem valid_tangents_implies_quads_valid :
  forall (tris : list tri) (marked : Z -> Z -> bool),
    (forall p q r, In (p, q, r) tris -> p <> q /\ q <> r /\ r <> p) ->
    SQ.halfedges_unique tris = true ->
    SQ.valid_tangents tris marked = true ->
    SQ.quads_valid tris marked = true.
Proof. exact SubdivideQuadModel.valid_tangents_implies_quads_valid. Qed.
Print Assumptions valid_tangents_implies_quads_valid.

(* Reindex on quad patterns (four corners, rotations only), all sizes *)
Theorem reindex_outline_quad :
  forall (T : Type) (tzero tone : T) (tlerp : T -> T -> Z -> Z -> T)
         (d0 d1 d2 d3 : Z) (p : partition T) (v0 v1 v2 v3 o0 o1 o2 o3 : Z) (f0 f1 f2 f3 : bool) (io : Z) (rt : list tri),
    1 <= d0 -> 1 <= d1 -> 1 <= d2 -> 1 <= d3 -> 0 <= v0 -> 0 <= v1 -> 0 <= v2 -> 0 <= v3 ->
    get_partition T tzero tone tlerp (V4 d0 d1 d2 d3) = Some p ->
    reindex T p (V4 v0 v1 v2 v3) (V4 o0 o1 o2 o3) (V4 f0 f1 f2 f3) io = Some rt ->
    forall a b, Chain.coef (Chain.boundaries rt) a b =
                ReindexModel.rsides4 a b v0 v1 v2 v3 o0 o1 o2 o3 f0 f1 f2 f3 (d0 - 1) (d1 - 1) (d2 - 1) (d3 - 1).
Proof. exact ReindexModel.reindex_outline_quad. Qed.
Print Assumptions reindex_outline_quad.

(* the general model (marked quads, both values of keepInterior) returns a
   closed oriented soup for every closed oriented input of non-degenerate
   triangles with non-negative vertex ids, every non-negative edgeDivisions
   oracle and every symmetric marking accepted by quads_valid.  Remaining
   hypothesis: split_ok for the triangle patterns used. *)
Theorem subdivide_q_balances :
  forall (T : Type) (tzero tone : T) (tlerp : T -> T -> Z -> Z -> T)
         (numVert : Z) (tris : list tri) (added : Z -> Z -> Z) (marked : Z -> Z -> bool)
         (keepInterior : bool) (out : list tri),
    Chain.ceq (Chain.boundaries tris) [] ->
    (forall p q r, In (p, q, r) tris -> p <> q /\ q <> r /\ r <> p) ->
    (forall p q r, In (p, q, r) tris -> 0 <= p /\ 0 <= q /\ 0 <= r) ->
    (forall u v, 0 <= added u v) ->
    (forall x y, marked x y = marked y x) ->
    SQ.quads_valid tris marked = true ->
    (forall t p, SQ.face_part T tzero tone tlerp numVert tris added marked keepInterior t = Some p ->
                 c3 (p_sorted p) = 0 -> TriModel.split_ok (c0 (p_sorted p)) (c1 (p_sorted p)) (c2 (p_sorted p))) ->
    SQ.subdivide_tris_q T tzero tone tlerp numVert tris added marked keepInterior = Some out ->
    Chain.ceq (Chain.boundaries out) [].
Proof. exact ReindexQuadModel.subdivide_q_balances_all. Qed.
Print Assumptions subdivide_q_balances.

(* without quads and keepInterior the general model is the restricted one *)
Theorem subdivide_q_restricts :
  forall (T : Type) (tzero tone : T) (tlerp : T -> T -> Z -> Z -> T) (numVert : Z) (tris : list tri) (added : Z -> Z -> Z),
    SQ.halfedges_unique tris = true ->
    SQ.too_large numVert tris added (fun _ _ => false) = Some false ->
    SQ.subdivide_tris_q T tzero tone tlerp numVert tris added (fun _ _ => false) false =
    SubdivideDefs.subdivide_tris T tzero tone tlerp numVert tris added.
Proof. exact SubdivideQuadModel.subdivide_q_restricts. Qed.
Print Assumptions subdivide_q_restricts.

(* property vertices: forward copies and backward duplicates never collide *)
Theorem prop_slots_disjoint :
  forall (numVert numPropVert newNumVert : Z) (tris : list tri) (added : Z -> Z -> Z),
    SubdivideModel.nonneg (SubdivideDefs.edge_added_list tris added) ->
    numVert + SubdivideDefs.total_edge_added tris added <= newNumVert ->
    forall (i i' : nat) (o n k o' n' k' : Z),
      nth_error (SubdivideDefs.edge_offset_list numVert tris added) i = Some o ->
      nth_error (SubdivideDefs.edge_added_list tris added) i = Some n -> 0 <= k < n ->
      nth_error (SubdivideDefs.edge_offset_list numVert tris added) i' = Some o' ->
      nth_error (SubdivideDefs.edge_added_list tris added) i' = Some n' -> 0 <= k' < n' ->
      SubdivideDefs.prop_fwd_slot numVert numPropVert o k <> SubdivideDefs.prop_bwd_slot numVert numPropVert newNumVert o' k'.
Proof. exact SubdivideModel.prop_slots_disjoint. Qed.
Print Assumptions prop_slots_disjoint.

(* ---------------------------------------------------------------------- *)
(* simplify_counts.  The ported CollapseEdge2 / SwapEdge (with PairUp,
   UpdateVert, FormLoop, CollapseTri, RemoveIfFolded) only rewrite existing
   halfedge slots: for every state, every fuel, every geometric verdict and
   every sequence of operation requests the number of slots is unchanged ... *)
Theorem simplify_slots_constant :
  forall (fuel : nat) (ops : list SimplifyDefs.op) (s s' : SimplifyDefs.state),
    SimplifyDefs.run_ops fuel ops s = Some s' -> SimplifyDefs.slots s' = SimplifyDefs.slots s.
Proof. exact SimplifyModel.run_ops_slots. Qed.
Print Assumptions simplify_slots_constant.

(* ... so, starting from a mesh all of whose triangles are live (what
   CleanupTopology leaves when no duplicate edge has to be split), the number
   of triangles that survive SortGeometry (halfedge_.Pair(3*tri) >= 0) never
   exceeds the number before: the triangle count never grows. *)
Theorem simplify_counts :
  forall (fuel : nat) (ops : list SimplifyDefs.op) (s s' : SimplifyDefs.state),
    SimplifyDefs.slots s = 3 * SimplifyDefs.num_live s ->
    SimplifyDefs.run_ops fuel ops s = Some s' ->
    SimplifyDefs.num_live s' <= SimplifyDefs.num_live s.
Proof. exact SimplifyModel.simplify_counts_lemma. Qed.
Print Assumptions simplify_counts.

Example simplify_counts_hypothesis_satisfiable :
  SimplifyDefs.slots SimplifyDefs.octa = 3 * SimplifyDefs.num_live SimplifyDefs.octa /\ SimplifyDefs.num_live SimplifyDefs.octa = 8.
Proof. exact SimplifyModel.octa_full. Qed.

(* CollapseTri removes its triangle from the count *)
Theorem collapse_tri_kills_tri :
  forall (s : SimplifyDefs.state) (edge p1 : Z) (s' : SimplifyDefs.state),
    0 <= edge -> SimplifyDefs.h_pair s (SimplifyDefs.next_he edge) = Some p1 -> p1 <> -1 ->
    SimplifyDefs.collapse_tri s (SimplifyDefs.tri_of edge) = Some s' ->
    SimplifyDefs.live_tri s' (edge / 3) = false.
Proof. exact SimplifyModel.collapse_tri_kills_tri. Qed.
Print Assumptions collapse_tri_kills_tri.

(* "dead triangles stay dead".  SI.pair_inv is an executable pairing invariant
   (slots a multiple of 3; every pair is -1 or the index of a halfedge whose
   pair points back and is different; liveness is uniform over each face).
   CollapseTri never revives a removed face, for any state with the invariant. *)
Module SD := SimplifyDefs.
Module SI := SimplifyInvDefs.

Theorem collapse_tri_dead_stay_dead :
  forall (s : SD.state) (e : Z) (s' : SD.state),
    SI.pair_inv s = true -> 0 <= e ->
    SD.collapse_tri s (SD.tri_of e) = Some s' ->
    forall t, SD.live_tri s t = false -> SD.live_tri s' t = false.
Proof. exact SimplifyInv.collapse_tri_dead_stay_dead. Qed.
Print Assumptions collapse_tri_dead_stay_dead.

(* SwapEdge / CollapseEdge2 (with their FormLoop, RemoveIfFolded, UpdateVert,
   CollapseTri calls and fuel loops) preserve the invariant and never revive a
   removed face.  PARTIAL: under the executable guards swap_edge_guard /
   collapse_edge2_guard (the edge and its pair lie in different faces; every
   FormLoop / RemoveIfFolded reached is applied to live halfedges of two
   different faces, none of them the half-removed tri0edge[0]); the pairing
   invariant alone does not imply them (vertex consistency would be needed).
   The guards are evaluated on every operation of the implementation's traces
   (evidence: edge_ops.invariant). *)
Theorem swap_edge_inv_partial :
  forall (fuel : nat) (s : SD.state) (edge : Z) (s' : SD.state),
    SI.pair_inv s = true ->
    SI.swap_edge_guard fuel s edge = Some true ->
    SD.swap_edge fuel s edge = Some s' ->
    SI.pair_inv s' = true /\ forall t, SD.live_tri s t = false -> SD.live_tri s' t = false.
Proof. exact SimplifyInv.swap_edge_inv. Qed.
Print Assumptions swap_edge_inv_partial.

Theorem collapse_edge2_inv_partial :
  forall (fuel : nat) (s : SD.state) (edge : Z) (reject : bool) (s' : SD.state) (did : bool),
    SI.pair_inv s = true ->
    SI.collapse_edge2_guard fuel s edge reject = Some true ->
    SD.collapse_edge2 fuel s edge reject = Some (s', did) ->
    SI.pair_inv s' = true /\ forall t, SD.live_tri s t = false -> SD.live_tri s' t = false.
Proof. exact SimplifyInv.collapse_edge2_inv. Qed.
Print Assumptions collapse_edge2_inv_partial.

(* whole runs: from ANY state with the invariant (not only all-live ones) the
   number of live triangles is non-increasing along every guarded sequence of
   CollapseEdge2 / SwapEdge requests.  (From an all-live state - what an
   Is2Manifold input is - simplify_counts above needs no guard at all.) *)
Theorem simplify_counts_monotone_partial :
  forall (fuel : nat) (ops : list SD.op) (s s' : SD.state),
    SI.pair_inv s = true -> SI.run_ops_guard fuel ops s = Some true -> SD.run_ops fuel ops s = Some s' ->
    SD.num_live s' <= SD.num_live s.
Proof. exact SimplifyInv.run_ops_num_live_monotone_partial. Qed.
Print Assumptions simplify_counts_monotone_partial.

Example pair_inv_satisfiable : SI.pair_inv SD.octa = true.
Proof. exact SimplifyInv.pair_inv_octa. Qed.

(* the only operation that grows halfedge_ is DedupeEdge (CleanupTopology), by 6 slots = 2 triangles *)
Theorem dedupe_adds_two :
  forall (fuel : nat) (s : SimplifyDefs.state) (nextEdge current endVert endProp : Z) (s' : SimplifyDefs.state),
    SimplifyDefs.dedupe_split fuel s nextEdge current endVert endProp = Some s' ->
    SimplifyDefs.slots s' = SimplifyDefs.slots s + 6.
Proof. exact SimplifyModel.dedupe_adds_two. Qed.
Print Assumptions dedupe_adds_two.
