(* C19 — refinement keeps the surface; simplification only removes redundancy.
   Only statements closed by `exact`, each followed by Print Assumptions.
   The float primitives listed by Print Assumptions are Coq's PrimFloat
   (binary64): the model takes the same rounding decisions as the C++.       *)
From Coq Require Import ZArith List Bool QArith Permutation.
From MV Require Import Tri.PartitionDefs Tri.PartitionCheck Tri.PartitionModel Tri.PartitionBounded.
Import ListNotations.
Local Open Scope Z_scope.

(* The checker is sound for the declarative tiling statement `Tiles`
   (PartitionModel.v): indices in range, every vertex used, no directed edge
   twice, a directed edge has its reverse iff it is not an outline edge, every
   outline edge present (boundary chain = subdivided outline, in order), every
   triangle of positive area, areas summing to the outline's area, outline
   vertices at their exact places, all other vertices strictly inside. *)
Theorem tiles_ok_sound :
  forall (eps : Q) (n : v4 Z) (vb : list (v4 Q)) (tv : list tri),
    tiles_ok eps n vb tv = true -> Tiles eps n vb tv.
Proof. exact tiles_ok_sound_lemma. Qed.
Print Assumptions tiles_ok_sound.

Example tiles_ok_not_vacuous :
  match cached_partition_q (V4 3 2 1 0) with
  | Some (vb, tv) => tiles_ok 0 (V4 3 2 1 0) vb tv = true /\ tiles_ok 0 (V4 3 2 1 0) vb (removelast tv) = false
  | None => False
  end.
Proof. exact tiles_ok_rejects_hole. Qed.

(* Every triangle pattern with n0 >= n1 >= n2 >= 1, n0 <= 24: the ported
   GetCachedPartition (exact-arithmetic barycentrics, double-precision rounding
   decisions) is defined and tiles the triangle exactly (eps = 0). *)
Theorem partition_tiles_bounded :
  forall n0 n1 n2 : Z, 1 <= n2 <= n1 -> n1 <= n0 -> n0 <= 24 ->
    exists vb tv, cached_partition_q (V4 n0 n1 n2 0) = Some (vb, tv) /\ Tiles 0 (V4 n0 n1 n2 0) vb tv.
Proof. exact tri_tiles_bounded. Qed.
Print Assumptions partition_tiles_bounded.

(* Every quad pattern whose first side is a shortest side (the form GetPartition
   rotates to, see get_partition_quad_rotation), sides <= 10. *)
Theorem partition_quad_tiles_bounded :
  forall a b c d : Z, 1 <= a -> a <= b <= 10 -> a <= c <= 10 -> a <= d <= 10 ->
    exists vb tv, cached_partition_q (V4 a b c d) = Some (vb, tv) /\ Tiles 0 (V4 a b c d) vb tv.
Proof. exact quad_tiles_bounded. Qed.
Print Assumptions partition_quad_tiles_bounded.

(* GetPartition for the three divisions in any order: it sorts them (idx is a
   permutation, sortedDivisions[i] = divisions[idx[i]]) and the pattern tiles. *)
Theorem get_partition_tiles_bounded :
  forall d0 d1 d2 : Z, 1 <= d0 <= 24 -> 1 <= d1 <= 24 -> 1 <= d2 <= 24 ->
    exists p, get_partition_q (V4 d0 d1 d2 0) = Some p /\
              Tiles 0 (p_sorted p) (p_vb p) (p_tv p) /\
              p_sorted p = map4 (g4 (V4 d0 d1 d2 0)) (p_idx p) /\
              Permutation [g4 (p_idx p) 0; g4 (p_idx p) 1; g4 (p_idx p) 2]%nat [0; 1; 2]%nat.
Proof. exact PartitionBounded.get_partition_tiles_bounded. Qed.
Print Assumptions get_partition_tiles_bounded.

(* GetPartition on quads, all sizes: idx is a rotation, the key is the rotated
   division vector and starts with a shortest side. *)
Theorem get_partition_quad_rotation :
  forall a b c d : Z, d <> 0 ->
    let '(s, ix) := sort_divisions (V4 a b c d) in
    exists m, (m < 4)%nat /\ ix = V4 (mod4 (0 + m)) (mod4 (1 + m)) (mod4 (2 + m)) (mod4 (3 + m)) /\
              s = map4 (g4 (V4 a b c d)) ix /\ c0 s <= a /\ c0 s <= b /\ c0 s <= c /\ c0 s <= d.
Proof. exact sort_divisions_quad. Qed.
Print Assumptions get_partition_quad_rotation.

(* The double-precision pattern (bit-exact image of the C++, compared with the
   implementation on every run) has the same triangles as the exact pattern and
   its doubles, read exactly, tile within 2^-44. *)
Theorem float_pattern_tiles_bounded :
  forall n0 n1 n2 : Z, 1 <= n2 <= n1 -> n1 <= n0 -> n0 <= 12 ->
    exists vb tv vq vbq,
      cached_partition_f (V4 n0 n1 n2 0) = Some (vb, tv) /\ cached_partition_q (V4 n0 n1 n2 0) = Some (vbq, tv) /\
      all_some (map q4_of_float vb) = Some vq /\ Tiles eps_float (V4 n0 n1 n2 0) vq tv.
Proof. exact float_tiles_bounded. Qed.
Print Assumptions float_pattern_tiles_bounded.

Theorem float_quad_pattern_tiles_bounded :
  forall a b c d : Z, 1 <= a -> a <= b <= 5 -> a <= c <= 5 -> a <= d <= 5 ->
    exists vb tv vq vbq,
      cached_partition_f (V4 a b c d) = Some (vb, tv) /\ cached_partition_q (V4 a b c d) = Some (vbq, tv) /\
      all_some (map q4_of_float vb) = Some vq /\ Tiles eps_float (V4 a b c d) vq tv.
Proof. exact float_quad_tiles_bounded. Qed.
Print Assumptions float_quad_pattern_tiles_bounded.

(* PartitionFan, every size: k + 1 triangles whose boundary chain is the outline
   cv0 -> eo, eo+1, .., eo+k-1 -> cv1 -> cv2 -> cv0 (coef = #(a,b) - #(b,a)). *)
Theorem fan_tiles :
  forall (cv0 cv1 cv2 eo : Z) (k : nat),
    length (partition_fan cv0 cv1 cv2 (Z.of_nat k) eo) = S k /\
    forall a b, coef (dir_edges (partition_fan cv0 cv1 cv2 (Z.of_nat k) eo)) a b =
                coef (cyc_pairs (cv0 :: zseq eo (Z.of_nat k) ++ [cv1; cv2])) a b.
Proof. exact fan_tiles_lemma. Qed.
Print Assumptions fan_tiles.

(* PartitionQuad, terminal cases (two consecutive sides without added vertices),
   up to 10 added vertices on each of the other two sides, all 16 edge
   directions: 2 + sum(edgeAdded) triangles whose boundary chain is the outline.
   PARTIAL: bounded sweep; the unbounded induction (DESIGN: quad_terminal_tiles
   T-full) and the recursive case for all sizes are not proved (the recursive
   case is covered only through partition_tiles_bounded / partition_quad_tiles_bounded). *)
Theorem quad_terminal_tiles_partial :
  forallb (fun ea => forallb (quad_terminal_ok ea) bool4s) (terminal_eas 10) = true.
Proof. exact PartitionSweepMisc.sweep_terminal. Qed.
Print Assumptions quad_terminal_tiles_partial.

(* Refine(n): every edge gets n - 1 new vertices, the pattern of (n,n,n) has n^2 triangles. *)
Theorem uniform_n_squared :
  forall n : Z, 1 <= n <= 64 ->
    exists vb tv, cached_partition_f (V4 n n n 0) = Some (vb, tv) /\ Z.of_nat (length tv) = n * n.
Proof. exact uniform_n_squared_lemma. Qed.
Print Assumptions uniform_n_squared.

(* Reindex: the new vertices of an edge with offset `off` and n - 1 = m new
   vertices are off .. off+m-1 when the halfedge is forward, and the same
   vertices in reverse order when it is backward, for every m. *)
Theorem reindex_consistent :
  forall off m : Z, 0 <= m ->
    edge_run off true m = zseq off m /\ edge_run off false m = rev (edge_run off true m).
Proof. intros off m H. exact (conj (edge_run_fwd_zseq off m) (edge_run_reverse_lemma off m H)). Qed.
Print Assumptions reindex_consistent.

(* ... so two neighbouring triangles (10,11,12) and (11,10,13) whose shared edge
   is divided into d pieces (the other sides into a1,a2,b1,b2; all orders, so
   mirrored patterns included) balance after Reindex: the boundary chain of the
   union of their sub-triangles is the outer outline, the shared edge cancels. *)
Theorem reindex_two_triangles_bounded :
  forall d a1 a2 b1 b2 : Z,
    1 <= d <= 5 -> 1 <= a1 <= 5 -> 1 <= a2 <= 5 -> 1 <= b1 <= 5 -> 1 <= b2 <= 5 ->
    two_tri_ok d a1 a2 b1 b2 = true.
Proof. exact two_tri_bounded. Qed.
Print Assumptions reindex_two_triangles_bounded.

(* SetTolerance(t) on an Impl with epsilon_ <= tolerance_: the new tolerance_ is max(t, epsilon_),
   it never drops below epsilon_, and SimplifyTopology2 runs iff the tolerance was raised. *)
Theorem set_tolerance_reports_max :
  forall tol eps t : Z, eps <= tol -> fst (set_tolerance tol eps t) = Z.max t eps.
Proof. exact set_tolerance_max. Qed.
Print Assumptions set_tolerance_reports_max.

Theorem tolerance_ge_epsilon :
  forall tol eps t : Z, eps <= tol -> eps <= fst (set_tolerance tol eps t).
Proof. exact set_tolerance_ge_eps. Qed.
Print Assumptions tolerance_ge_epsilon.

Theorem set_tolerance_simplifies_iff_raised :
  forall tol eps t : Z, snd (set_tolerance tol eps t) = true <-> tol < t.
Proof. exact set_tolerance_simplifies_iff. Qed.
Print Assumptions set_tolerance_simplifies_iff_raised.

(* Simplify(t): tolerance_ afterwards is the old one; the tolerance used is max(t, old) (old if t = 0). *)
Theorem simplify_tolerance_unchanged :
  forall tol t : Z,
    snd (simplify_tolerances tol t) = tol /\
    fst (simplify_tolerances tol t) = (if t =? 0 then tol else Z.max t tol).
Proof. exact simplify_tolerances_spec. Qed.
Print Assumptions simplify_tolerance_unchanged.

(* SetEpsilon establishes epsilon_ <= tolerance_ and never lowers tolerance_. *)
Theorem set_epsilon_floor :
  forall (tol maxeps ff : Z) (us : bool),
    let '(e, t) := set_epsilon tol maxeps ff us in e <= t /\ tol <= t /\ e = maxeps.
Proof. exact set_epsilon_ge. Qed.
Print Assumptions set_epsilon_floor.
