(* C15 -- second model layer (no proofs).
   1. Path words with call brackets of two kinds (open / closed callee), status objects and
      status checks; semantics `run2` deriving every cancelled run from the uncancelled path.
   2. The static discipline `wokc` on words.
   3. Structured programs `stmt` (what translate/c15_sites.py emits per function, callees in line),
      the path grammar `genl` they denote, and the abstract interpreter `ail` / `prog_ok` that
      Coq evaluates on the generated table (`sites_ok`). *)
From Coq Require Import List String Bool Arith.
From MV Require Import Proto.CancelDefs.
Import ListNotations.

Inductive tok2 :=
  | ULoop (chunks : nat)      (* ctx-aware loop: entry check + one check per chunk *)
  | UEnter (closed : bool)    (* callee body; closed: every cancel exit leaves a Cancelled object, never partial state *)
  | ULeave
  | UAbortP                   (* if (IsCancelled(ctx)) return;  -- leaves the innermost callee with partial state *)
  | UAbortF                   (* check that makes the innermost function return a Cancelled object (MakeEmpty(Cancelled),
                                 ErrorLeaf(Cancelled), phase(), ADVANCE_PHASE_OR_RETURN, cancelled()) *)
  | UStat                     (* if (x.status_ != NoError) return <that status>;  -- no cancel check involved *)
  | UObs                      (* a check whose value steers no exit (PhaseBalance, the completion top-up guard) *)
  | UUse                      (* reads raw outputs / consumes a handle other than by forwarding it *)
  | UNeutral.

Section Run2.
  Variable flag : nat -> bool.
  Variable par : bool.
  Variable sched : nat -> nat -> nat.

  (* n: checks so far; dirty: some raw output is partial; inflight: a Cancelled object is held;
     ds: open call frames (kind, dirty at entry); s > 0: skipping to the end of the callee that just returned early *)
  Fixpoint run2 (w : list tok2) (n : nat) (dirty inflight : bool) (ds : list (bool * bool)) (s : nat)
                (outs : list (list bool)) : outcome :=
    match w with
    | [] => if dirty then PartialEscaped else if inflight then CancelledEmpty else Complete (rev outs)
    | t :: w' =>
      match s with
      | S s' =>
        match t with
        | UEnter _ => run2 w' n dirty inflight ds (S s) outs
        | ULeave =>
          match s' with
          | 0 => match ds with
                 | [] => Undefined
                 | (closed, saved) :: ds' => run2 w' n (if closed then saved else dirty) inflight ds' 0 outs
                 end
          | _ => run2 w' n dirty inflight ds s' outs
          end
        | _ => run2 w' n dirty inflight ds s outs
        end
      | 0 =>
        match t with
        | ULoop c => let '(n', ran) := loop flag par sched n c in
                     run2 w' n' (dirty || negb (forallb (fun b => b) ran)) inflight ds 0 (ran :: outs)
        | UEnter k => run2 w' n dirty inflight ((k, dirty) :: ds) 0 outs
        | ULeave => match ds with [] => Undefined | _ :: ds' => run2 w' n dirty inflight ds' 0 outs end
        | UAbortP => if flag (S n)
                     then match ds with [] => PartialEscaped | _ => run2 w' (S n) true inflight ds 1 outs end
                     else run2 w' (S n) dirty inflight ds 0 outs
        | UAbortF => if flag (S n)
                     then match ds with [] => CancelledEmpty | _ => run2 w' (S n) dirty true ds 1 outs end
                     else run2 w' (S n) dirty inflight ds 0 outs
        | UStat => if inflight
                   then match ds with [] => CancelledEmpty | _ => run2 w' n dirty inflight ds 1 outs end
                   else run2 w' n dirty inflight ds 0 outs
        | UObs => run2 w' (S n) dirty inflight ds 0 outs
        | UUse => if dirty || inflight then Undefined else run2 w' n dirty inflight ds 0 outs
        | UNeutral => run2 w' n dirty inflight ds 0 outs
        end
      end
    end.
End Run2.

Definition exec2 (flag : nat -> bool) (par : bool) (sched : nat -> nat -> nat) (w : list tok2) : outcome :=
  run2 flag par sched w 0 false false [] 0 [].

(* static discipline; pend: a raw output is unchecked, pendS: a possibly Cancelled object is unchecked,
   stk: kinds of the open call brackets *)
Fixpoint wokc (w : list tok2) (pend pendS : bool) (stk : list bool) : bool :=
  match w with
  | [] => negb pend && match stk with [] => true | _ => false end
  | t :: w' =>
    match t with
    | ULoop _ => wokc w' true pendS stk
    | UEnter k => (if k then negb pend else true) && wokc w' pend pendS (k :: stk)
    | ULeave => match stk with
                | [] => false
                | true :: stk' => negb pend && wokc w' false true stk'
                | false :: stk' => wokc w' true true stk'
                end
    | UAbortP => match stk with false :: _ => wokc w' false false stk | _ => false end
    | UAbortF => wokc w' false false stk
    | UStat => wokc w' pend false stk
    | UObs => wokc w' pend pendS stk
    | UUse => negb pend && negb pendS && wokc w' pend pendS stk
    | UNeutral => wokc w' pend pendS stk
    end
  end.
Definition wok (w : list tok2) : bool := wokc w false false [].

(* ---------------- structured programs ---------------- *)
Inductive stmt :=
  | SLoop                                  (* ctx-aware loop primitive, any number of chunks *)
  | SCall (closed : bool) (body : list stmt)
  | SAbortP | SAbortF | SStat | SObs | SUse | SNeutral
  | SIf (a b : list stmt)
  | SRep (body : list stmt)                (* zero or more iterations *)
  | SRet | SBrk | SCont.

Inductive exitk := Fall | Ret | Brk | Cont.

Inductive gen1 : stmt -> list tok2 -> exitk -> Prop :=
  | g_loop : forall c, gen1 SLoop [ULoop c] Fall
  | g_call : forall k body w e, genl body w e -> (e = Fall \/ e = Ret) ->
             gen1 (SCall k body) (UEnter k :: w ++ [ULeave]) Fall
  | g_abp : gen1 SAbortP [UAbortP] Fall
  | g_abf : gen1 SAbortF [UAbortF] Fall
  | g_stat : gen1 SStat [UStat] Fall
  | g_obs : gen1 SObs [UObs] Fall
  | g_use : gen1 SUse [UUse] Fall
  | g_neu : gen1 SNeutral [UNeutral] Fall
  | g_if_a : forall a b w e, genl a w e -> gen1 (SIf a b) w e
  | g_if_b : forall a b w e, genl b w e -> gen1 (SIf a b) w e
  | g_rep : forall body w e, genrep body w e -> gen1 (SRep body) w e
  | g_ret : gen1 SRet [] Ret
  | g_brk : gen1 SBrk [] Brk
  | g_cont : gen1 SCont [] Cont
with genl : list stmt -> list tok2 -> exitk -> Prop :=
  | gl_nil : genl [] [] Fall
  | gl_fall : forall s l w1 w2 e, gen1 s w1 Fall -> genl l w2 e -> genl (s :: l) (w1 ++ w2) e
  | gl_exit : forall s l w e, gen1 s w e -> e <> Fall -> genl (s :: l) w e
with genrep : list stmt -> list tok2 -> exitk -> Prop :=
  | gr_done : forall body, genrep body [] Fall
  | gr_iter : forall body w1 w2 e1 e, genl body w1 e1 -> (e1 = Fall \/ e1 = Cont) -> genrep body w2 e ->
              genrep body (w1 ++ w2) e
  | gr_brk : forall body w, genl body w Brk -> genrep body w Fall
  | gr_ret : forall body w, genl body w Ret -> genrep body w Ret.

(* the path words a function body denotes: it ends by falling off its end or by a return *)
Definition is_path (body : list stmt) (w : list tok2) : Prop :=
  exists e, genl body w e /\ (e = Fall \/ e = Ret).

(* ---------------- abstract interpreter ---------------- *)
Definition ast : Type := (bool * bool)%type.     (* (pend, pendS) *)
Definition ajoin (x y : option ast) : option ast :=
  match x, y with
  | None, z => z
  | z, None => z
  | Some (a, b), Some (c, d) => Some (a || c, b || d)
  end.
Definition aleb (c a : ast) : bool := implb (fst c) (fst a) && implb (snd c) (snd a).
Definition oleb (x : option ast) (a : ast) : bool := match x with None => true | Some c => aleb c a end.
Definition ojoin_ast (a : ast) (x : option ast) : ast := match ajoin (Some a) x with Some r => r | None => a end.

Record res := mkRes { r_ok : bool; r_fall : option ast; r_ret : option ast; r_brk : option ast; r_cont : option ast }.
Definition r_of (r : res) (e : exitk) : option ast :=
  match e with Fall => r_fall r | Ret => r_ret r | Brk => r_brk r | Cont => r_cont r end.
Definition rfall (ok : bool) (a : ast) : res := mkRes ok (Some a) None None None.
Definition rjoin (x y : res) : res :=
  mkRes (r_ok x && r_ok y) (ajoin (r_fall x) (r_fall y)) (ajoin (r_ret x) (r_ret y))
        (ajoin (r_brk x) (r_brk y)) (ajoin (r_cont x) (r_cont y)).
(* x then (when x falls through) y *)
Definition rseq (x y : res) : res :=
  mkRes (r_ok x && r_ok y) (r_fall y) (ajoin (r_ret x) (r_ret y)) (ajoin (r_brk x) (r_brk y)) (ajoin (r_cont x) (r_cont y)).
Definition is_none (x : option ast) : bool := match x with None => true | _ => false end.

(* a loop whose body, analysed from the head state ai, gave ri: ai must be a post-fixpoint *)
Definition rep_res (ai : ast) (ri : res) : res :=
  mkRes (r_ok ri && oleb (r_fall ri) ai && oleb (r_cont ri) ai) (ajoin (Some ai) (r_brk ri)) (r_ret ri) None None.

(* inner: the innermost enclosing callee bracket is an open one (a plain `return` on cancel is allowed there) *)
Fixpoint ai1 (inner : bool) (s : stmt) (a : ast) : res :=
  match s with
  | SLoop => rfall true (true, snd a)
  | SCall k body =>
    let r := (fix ail (l : list stmt) (a : ast) : res :=
                match l with
                | [] => rfall true a
                | s :: l' => let r1 := ai1 (negb k) s a in
                             match r_fall r1 with
                             | None => r1
                             | Some a' => rseq r1 (ail l' a')
                             end
                end) body a in
    let x := ajoin (r_fall r) (r_ret r) in
    let ok := r_ok r && (if k then negb (fst a) else true) && is_none (r_brk r) && is_none (r_cont r) &&
              (if k then match x with Some (p, _) => negb p | None => true end else true) in
    mkRes ok (match x with None => None | Some _ => Some (if k then (false, true) else (true, true)) end) None None None
  | SAbortP => rfall inner (false, false)
  | SAbortF => rfall true (false, false)
  | SStat => rfall true (fst a, false)
  | SObs => rfall true a
  | SUse => rfall (negb (fst a) && negb (snd a)) a
  | SNeutral => rfall true a
  | SIf x y =>
    let ail := (fix ail (l : list stmt) (a : ast) : res :=
                  match l with
                  | [] => rfall true a
                  | s :: l' => let r1 := ai1 inner s a in
                               match r_fall r1 with
                               | None => r1
                               | Some a' => rseq r1 (ail l' a')
                               end
                  end) in
    rjoin (ail x a) (ail y a)
  | SRep body =>
    let ail := (fix ail (l : list stmt) (a : ast) : res :=
                  match l with
                  | [] => rfall true a
                  | s :: l' => let r1 := ai1 inner s a in
                               match r_fall r1 with
                               | None => r1
                               | Some a' => rseq r1 (ail l' a')
                               end
                  end) in
    let r0 := ail body a in
    let a1 := ojoin_ast (ojoin_ast a (r_fall r0)) (r_cont r0) in
    if aleb a1 a then rep_res a r0 else
    let r1 := ail body a1 in
    let a2 := ojoin_ast (ojoin_ast a1 (r_fall r1)) (r_cont r1) in
    if aleb a2 a1 then rep_res a1 r1 else rep_res a2 (ail body a2)
  | SRet => mkRes true None (Some a) None None
  | SBrk => mkRes true None None (Some a) None
  | SCont => mkRes true None None None (Some a)
  end.

Fixpoint ail (inner : bool) (l : list stmt) (a : ast) : res :=
  match l with
  | [] => rfall true a
  | s :: l' => let r1 := ai1 inner s a in
               match r_fall r1 with
               | None => r1
               | Some a' => rseq r1 (ail inner l' a')
               end
  end.

(* an API-level function body: every path is disciplined and ends with no raw output unchecked *)
Definition prog_ok (body : list stmt) : bool :=
  let r := ail false body (false, false) in
  r_ok r && is_none (r_brk r) && is_none (r_cont r) &&
  match ajoin (r_fall r) (r_ret r) with Some (p, _) => negb p | None => true end.

Definition table : Type := list (string * list stmt).
Definition table_ok (t : table) : bool := forallb (fun fb => prog_ok (snd fb)) t.
Definition paths (t : table) (f : string) (w : list tok2) : Prop :=
  exists body, In (f, body) t /\ is_path body w.
