(* C15 -- proofs about CancelPathDefs.v: (A) disciplined words are all-or-nothing under every cancel point;
   (B) the abstract interpreter is sound for the path grammar: prog_ok body -> every path word is wok. *)
From Coq Require Import List String Bool Arith Lia.
From MV Require Import Proto.CancelDefs Proto.CancelModel Proto.CancelPathDefs.
Import ListNotations.

(* ================= A ================= *)
Definition kinds (ds : list (bool * bool)) : list bool := map fst ds.
Definition saved_clean (ds : list (bool * bool)) : Prop := forall k sv, In (k, sv) ds -> k = true -> sv = false.
Definition all_clean (ds : list (bool * bool)) : Prop := forall k sv, In (k, sv) ds -> sv = false.

Section A2.
  Variable flag : nat -> bool.
  Variable par : bool.
  Variable sched : nat -> nat -> nat.
  Hypothesis mono : forall i, flag i = true -> flag (S i) = true.

  Lemma cancel_mode : forall w,
    (forall n dirty inflight ds outs pend pendS,
        (forall i, n < i -> flag i = true) -> saved_clean ds ->
        (dirty = true -> pend = true) -> (inflight = true -> pendS = true) -> (dirty = true \/ inflight = true) ->
        wokc w pend pendS (kinds ds) = true ->
        run2 flag par sched w n dirty inflight ds 0 outs = CancelledEmpty) /\
    (forall n dirty inflight ds outs s pend pendS extra,
        (forall i, n < i -> flag i = true) -> saved_clean ds -> ds <> [] ->
        (inflight = true \/ (dirty = true /\ exists sv ds', ds = (false, sv) :: ds')) ->
        List.length extra = s -> wokc w pend pendS (extra ++ kinds ds) = true ->
        run2 flag par sched w n dirty inflight ds (S s) outs = CancelledEmpty).
  Proof.
    induction w as [|t w [IHa IHb]]; split.
    - intros n dirty inflight ds outs pend pendS _ _ Hd Hi Hor H. cbn in *.
      apply andb_true_iff in H. destruct H as [Hp Hs]. apply negb_true_iff in Hp.
      destruct dirty; [specialize (Hd eq_refl); congruence|]. destruct Hor as [X|X]; [discriminate|]. rewrite X. reflexivity.
    - intros n dirty inflight ds outs s pend pendS extra _ _ Hne _ _ H. cbn in H.
      apply andb_true_iff in H. destruct H as [_ H]. destruct ds as [|[k sv] ds]; [congruence|].
      destruct extra; cbn in H; discriminate.
    - intros n dirty inflight ds outs pend pendS Hf Hsc Hd Hi Hor H. destruct t; cbn [run2 wokc] in *.
      + (* ULoop *) unfold loop. rewrite (Hf (S n)) by lia.
        apply (IHa (S n) _ inflight ds _ true pendS); auto.
        * intros; apply Hf; lia.
        * destruct Hor as [X|X]; [left; rewrite X; reflexivity | right; exact X].
      + (* UEnter *) apply andb_true_iff in H. destruct H as [Hc H].
        apply (IHa n dirty inflight ((closed, dirty) :: ds) outs pend pendS); auto.
        intros k sv [E|E] Hk.
        * injection E as E1 E2. subst k sv. rewrite Hk in Hc. apply negb_true_iff in Hc. destruct dirty; [rewrite (Hd eq_refl) in Hc; discriminate | reflexivity].
        * eapply Hsc; eauto.
      + (* ULeave *) destruct ds as [|[k sv] ds']; [cbn in H; discriminate|]. cbn [kinds map fst] in H.
        assert (Hsc' : saved_clean ds') by (intros k0 sv0 Hin; apply (Hsc k0 sv0); right; exact Hin).
        destruct k.
        * apply andb_true_iff in H. destruct H as [Hp H]. apply negb_true_iff in Hp.
          destruct dirty; [rewrite (Hd eq_refl) in Hp; discriminate|].
          apply (IHa n false inflight ds' outs false true); auto; try discriminate.
        * apply (IHa n dirty inflight ds' outs true true); auto.
      + (* UAbortP *) rewrite (Hf (S n)) by lia.
        destruct ds as [|[k sv] ds']; [cbn in H; discriminate|]. cbn [kinds map fst] in H. destruct k; [discriminate|].
        apply (IHb (S n) true inflight ((false, sv) :: ds') outs 0 false false []); auto.
        * intros; apply Hf; lia.
        * discriminate.
        * right. split; [reflexivity | eauto].
      + (* UAbortF *) rewrite (Hf (S n)) by lia. destruct ds as [|fr ds']; [reflexivity|].
        apply (IHb (S n) dirty true (fr :: ds') outs 0 false false []); auto.
        * intros; apply Hf; lia.
        * discriminate.
      + (* UStat *) destruct inflight.
        * destruct ds as [|fr ds']; [reflexivity|].
          apply (IHb n dirty true (fr :: ds') outs 0 pend false []); auto. discriminate.
        * apply (IHa n dirty false ds outs pend false); auto; try discriminate.
      + (* UObs *) apply (IHa (S n) dirty inflight ds outs pend pendS); auto. intros; apply Hf; lia.
      + (* UUse *) apply andb_true_iff in H. destruct H as [H _]. apply andb_true_iff in H. destruct H as [Hp Hs].
        apply negb_true_iff in Hp, Hs. destruct Hor as [X|X]; [rewrite (Hd X) in Hp | rewrite (Hi X) in Hs]; discriminate.
      + apply (IHa n dirty inflight ds outs pend pendS); auto.
    - intros n dirty inflight ds outs s pend pendS extra Hf Hsc Hne Hor Hlen H.
      destruct t; cbn [run2 wokc] in *.
      + apply (IHb n dirty inflight ds outs s true pendS extra); auto.
      + apply andb_true_iff in H. destruct H as [_ H].
        apply (IHb n dirty inflight ds outs (S s) pend pendS (closed :: extra)); auto. cbn. lia.
      + (* ULeave *) destruct extra as [|e extra'].
        * cbn in Hlen. subst s. destruct ds as [|[k sv] ds']; [congruence|]. cbn [app kinds map fst] in H.
          assert (Hsc' : saved_clean ds') by (intros k0 sv0 Hin; apply (Hsc k0 sv0); right; exact Hin).
          destruct k.
          -- apply andb_true_iff in H. destruct H as [_ H].
             assert (sv = false) by (apply (Hsc true sv); [left; reflexivity | reflexivity]). subst sv.
             destruct Hor as [X|[_ [sv0 [ds0 E]]]]; [|discriminate].
             apply (IHa n false inflight ds' outs false true); auto; try discriminate.
          -- apply (IHa n dirty inflight ds' outs true true); auto.
             destruct Hor as [X|[X _]]; auto.
        * cbn in Hlen. destruct s; [discriminate|]. cbn [app] in H. destruct e.
          -- apply andb_true_iff in H. destruct H as [_ H]. apply (IHb n dirty inflight ds outs s false true extra'); auto.
          -- apply (IHb n dirty inflight ds outs s true true extra'); auto.
      + destruct (extra ++ kinds ds) as [|[|] ?] eqn:E; try discriminate.
        rewrite <- E in H. apply (IHb n dirty inflight ds outs s false false extra); auto.
      + apply (IHb n dirty inflight ds outs s false false extra); auto.
      + apply (IHb n dirty inflight ds outs s pend false extra); auto.
      + apply (IHb n dirty inflight ds outs s pend pendS extra); auto.
      + apply andb_true_iff in H. destruct H as [_ H]. apply (IHb n dirty inflight ds outs s pend pendS extra); auto.
      + apply (IHb n dirty inflight ds outs s pend pendS extra); auto.
  Qed.

  Lemma all_clean_saved : forall ds, all_clean ds -> saved_clean ds.
  Proof. intros ds H k sv Hin _. eapply H; eauto. Qed.

  Lemma clean_run2 : forall w n ds outs pend pendS, all_clean ds -> wokc w pend pendS (kinds ds) = true ->
    run2 flag par sched w n false false ds 0 outs = run2 never par sched w n false false ds 0 outs \/
    run2 flag par sched w n false false ds 0 outs = CancelledEmpty.
  Proof.
    induction w as [|t w IH]; intros n ds outs pend pendS Hc H.
    - left. reflexivity.
    - destruct t; cbn [run2 wokc] in *.
      + destruct (loop flag par sched n chunks) as [n' ran] eqn:E.
        destruct (loop_cases flag par sched mono _ _ _ _ E) as [[A B]|[A B]].
        * rewrite <- B. rewrite A. cbn. apply (IH n' ds (ran :: outs) true pendS Hc H).
        * right. rewrite A. cbn. apply (proj1 (cancel_mode w) n' true false ds _ true pendS); auto using all_clean_saved; discriminate.
      + apply andb_true_iff in H. destruct H as [_ H]. apply (IH n ((closed, false) :: ds) outs pend pendS); auto.
        intros k sv [E|E]; [inversion E; reflexivity | eapply Hc; eauto].
      + destruct ds as [|[k sv] ds']; [left; reflexivity|]. cbn [kinds map fst] in H.
        assert (Hc' : all_clean ds') by (intros k0 sv0 Hin; apply (Hc k0 sv0); right; exact Hin).
        destruct k.
        * apply andb_true_iff in H. destruct H as [_ H]. apply (IH n ds' outs false true Hc' H).
        * apply (IH n ds' outs true true Hc' H).
      + cbn [never]. destruct ds as [|[k sv] ds']; [cbn in H; discriminate|]. cbn [kinds map fst] in H. destruct k; [discriminate|].
        destruct (flag (S n)) eqn:F.
        * right. apply (proj2 (cancel_mode w) (S n) true false ((false, sv) :: ds') outs 0 false false []); auto using all_clean_saved.
          -- intros i Hi. apply (mono_ge flag mono (S n)); [exact F | lia].
          -- discriminate.
          -- right. split; [reflexivity | eauto].
        * apply (IH (S n) ((false, sv) :: ds') outs false false Hc H).
      + cbn [never]. destruct (flag (S n)) eqn:F.
        * right. destruct ds as [|fr ds']; [reflexivity|].
          apply (proj2 (cancel_mode w) (S n) false true (fr :: ds') outs 0 false false []); auto using all_clean_saved.
          -- intros i Hi. apply (mono_ge flag mono (S n)); [exact F | lia].
          -- discriminate.
        * apply (IH (S n) ds outs false false Hc H).
      + apply (IH n ds outs pend false Hc H).
      + apply (IH (S n) ds outs pend pendS Hc H).
      + apply andb_true_iff in H. destruct H as [_ H]. apply (IH n ds outs pend pendS Hc H).
      + apply (IH n ds outs pend pendS Hc H).
  Qed.

  Lemma never_run2_complete : forall w n ds outs pend pendS, wokc w pend pendS (kinds ds) = true ->
    Forall (Forall (eq true)) outs ->
    exists outs', run2 never par sched w n false false ds 0 outs = Complete outs' /\ Forall (Forall (eq true)) outs'.
  Proof.
    induction w as [|t w IH]; intros n ds outs pend pendS H Ho.
    - exists (rev outs). split; [reflexivity | apply Forall_rev; exact Ho].
    - destruct t; cbn [run2 wokc] in *.
      + rewrite (loop_never par sched).
        assert (R : forallb (fun b => b) (repeat true chunks) = true) by (clear; induction chunks; cbn; auto).
        rewrite R. cbn. apply (IH _ ds _ true pendS H). constructor; [|exact Ho].
        clear. induction chunks; cbn; constructor; auto.
      + apply andb_true_iff in H. destruct H as [_ H]. apply (IH n ((closed, false) :: ds) outs pend pendS H Ho).
      + destruct ds as [|[k sv] ds']; [cbn in H; discriminate|]. cbn [kinds map fst] in H. destruct k.
        * apply andb_true_iff in H. destruct H as [_ H]. apply (IH n ds' outs false true H Ho).
        * apply (IH n ds' outs true true H Ho).
      + cbn [never]. destruct ds as [|[k sv] ds']; [cbn in H; discriminate|]. cbn [kinds map fst] in H. destruct k; [discriminate|].
        apply (IH (S n) ((false, sv) :: ds') outs false false H Ho).
      + cbn [never]. apply (IH (S n) ds outs false false H Ho).
      + apply (IH n ds outs pend false H Ho).
      + apply (IH (S n) ds outs pend pendS H Ho).
      + apply andb_true_iff in H. destruct H as [_ H]. apply (IH n ds outs pend pendS H Ho).
      + apply (IH n ds outs pend pendS H Ho).
  Qed.
End A2.

Lemma wok_all_or_nothing_k : forall w par sched k, wok w = true ->
  exists r0, exec2 never par sched w = Complete r0 /\ Forall (Forall (eq true)) r0 /\
    (exec2 (cancel_at k) par sched w = Complete r0 \/ exec2 (cancel_at k) par sched w = CancelledEmpty).
Proof.
  intros w par sched k H. unfold wok in H.
  destruct (never_run2_complete par sched w 0 [] [] false false H (Forall_nil _)) as [r0 [A B]].
  exists r0. unfold exec2. split; [exact A|]. split; [exact B|].
  destruct (clean_run2 (cancel_at k) par sched (cancel_at_mono k) w 0 [] [] false false) as [C|C]; auto.
  - intros ? ? [].
  - left. rewrite C. exact A.
Qed.

Lemma wok_all_or_nothing_flag : forall w flag par sched, wok w = true ->
  (forall i, flag i = true -> flag (S i) = true) ->
  exec2 flag par sched w = exec2 never par sched w \/ exec2 flag par sched w = CancelledEmpty.
Proof. intros w flag par sched H Hm. unfold exec2. eapply clean_run2; eauto. intros ? ? []. Qed.

(* ================= B ================= *)
Definition ale (c a : ast) : Prop := (fst c = true -> fst a = true) /\ (snd c = true -> snd a = true).

Lemma aleb_ale : forall c a, aleb c a = true -> ale c a.
Proof. intros [c1 c2] [a1 a2]; unfold aleb, ale; cbn. destruct c1, c2, a1, a2; cbn; intuition discriminate. Qed.
Lemma ale_refl : forall a, ale a a. Proof. intros; split; auto. Qed.
Lemma ale_trans : forall a b c, ale a b -> ale b c -> ale a c. Proof. unfold ale; intuition. Qed.

Definition ole (c : ast) (x : option ast) : Prop := exists a, x = Some a /\ ale c a.
Lemma ole_join_l : forall c x y, ole c x -> ole c (ajoin x y).
Proof.
  intros c x y [a [E L]]. subst. destruct a as [a1 a2]. destruct y as [[b1 b2]|]; cbn.
  - eexists; split; [reflexivity|]. destruct L as [L1 L2]; split; cbn in *; intro H; [rewrite (L1 H) | rewrite (L2 H)]; reflexivity.
  - eexists; split; [reflexivity | exact L].
Qed.
Lemma ole_join_r : forall c x y, ole c y -> ole c (ajoin x y).
Proof.
  intros c x y [a [E L]]. subst. destruct a as [a1 a2]. destruct x as [[b1 b2]|]; cbn.
  - eexists; split; [reflexivity|]. destruct L as [L1 L2]; split; cbn in *; intro H; [rewrite (L1 H) | rewrite (L2 H)]; apply orb_true_r.
  - eexists; split; [reflexivity | exact L].
Qed.
Lemma ojoin_ast_ge : forall a x, ale a (ojoin_ast a x) /\ (forall c, ole c x -> ale c (ojoin_ast a x)).
Proof.
  intros [a1 a2] x. unfold ojoin_ast. destruct x as [[b1 b2]|]; cbn.
  - split.
    + split; cbn; intro H; rewrite H; reflexivity.
    + intros c [b [E [L1 L2]]]. inversion E; subst. split; cbn in *; intro H; [rewrite (L1 H) | rewrite (L2 H)]; apply orb_true_r.
  - split; [apply ale_refl|]. intros c [b [E _]]. discriminate.
Qed.

(* small-step scan of a word piece; the bracket stack comes back unchanged for balanced pieces *)
Fixpoint scan (w : list tok2) (pend pendS : bool) (stk : list bool) : option (bool * bool * list bool) :=
  match w with
  | [] => Some (pend, pendS, stk)
  | t :: w' =>
    match t with
    | ULoop _ => scan w' true pendS stk
    | UEnter k => if (if k then negb pend else true) then scan w' pend pendS (k :: stk) else None
    | ULeave => match stk with
                | [] => None
                | true :: stk' => if negb pend then scan w' false true stk' else None
                | false :: stk' => scan w' true true stk'
                end
    | UAbortP => match stk with false :: _ => scan w' false false stk | _ => None end
    | UAbortF => scan w' false false stk
    | UStat => scan w' pend false stk
    | UObs => scan w' pend pendS stk
    | UUse => if negb pend && negb pendS then scan w' pend pendS stk else None
    | UNeutral => scan w' pend pendS stk
    end
  end.

Lemma scan_app : forall w1 w2 p s stk, scan (w1 ++ w2) p s stk =
  match scan w1 p s stk with Some (p', s', stk') => scan w2 p' s' stk' | None => None end.
Proof.
  induction w1 as [|t w1 IH]; intros w2 p s stk; [reflexivity|].
  destruct t; cbn [app scan]; auto.
  - destruct closed; cbn; [destruct (negb p)|]; auto.
  - destruct stk as [|[|] stk']; auto. destruct (negb p); auto.
  - destruct stk as [|[|] stk']; auto.
  - destruct (negb p && negb s); auto.
Qed.

Lemma scan_wokc : forall w p s stk, wokc w p s stk = match scan w p s stk with Some (p', _, []) => negb p' | _ => false end.
Proof.
  induction w as [|t w IH]; intros p s stk.
  - cbn. destruct stk; [rewrite andb_true_r | rewrite andb_false_r]; reflexivity.
  - destruct t; cbn [wokc scan]; auto.
    + destruct closed; cbn; [destruct (negb p); cbn|]; auto.
    + destruct stk as [|[|] stk']; auto. destruct (negb p); cbn; auto.
    + destruct stk as [|[|] stk']; auto.
    + destruct (negb p && negb s); cbn; auto.
Qed.

Lemma ail_unfold_local : forall inner l a,
  (fix ail (l : list stmt) (a : ast) : res :=
     match l with
     | [] => rfall true a
     | s :: l' => let r1 := ai1 inner s a in
                  match r_fall r1 with None => r1 | Some a' => rseq r1 (ail l' a') end
     end) l a = ail inner l a.
Proof. intros inner l. induction l as [|s l IH]; intros a; [reflexivity|]. cbn. destruct (r_fall (ai1 inner s a)); [rewrite IH|]; reflexivity. Qed.

Lemma ai1_call : forall inner k body a, ai1 inner (SCall k body) a =
  let r := ail (negb k) body a in
  let x := ajoin (r_fall r) (r_ret r) in
  mkRes (r_ok r && (if k then negb (fst a) else true) && is_none (r_brk r) && is_none (r_cont r) &&
              (if k then match x with Some (p, _) => negb p | None => true end else true))
        (match x with None => None | Some _ => Some (if k then (false, true) else (true, true)) end) None None None.
Proof. intros. cbn [ai1]. rewrite ail_unfold_local. reflexivity. Qed.
Lemma ai1_if : forall inner x y a, ai1 inner (SIf x y) a = rjoin (ail inner x a) (ail inner y a).
Proof. intros. cbn [ai1]. rewrite !ail_unfold_local. reflexivity. Qed.

Lemma ai1_rep : forall inner body a, ai1 inner (SRep body) a =
  let r0 := ail inner body a in
  let a1 := ojoin_ast (ojoin_ast a (r_fall r0)) (r_cont r0) in
  if aleb a1 a then rep_res a r0 else
  let r1 := ail inner body a1 in
  let a2 := ojoin_ast (ojoin_ast a1 (r_fall r1)) (r_cont r1) in
  if aleb a2 a1 then rep_res a1 r1 else rep_res a2 (ail inner body a2).
Proof. intros. cbn [ai1]. rewrite !ail_unfold_local. reflexivity. Qed.

Definition inner_of (stk : list bool) : bool := match stk with false :: _ => true | _ => false end.

Scheme gen1_mind := Induction for gen1 Sort Prop
  with genl_mind := Induction for genl Sort Prop
  with genrep_mind := Induction for genrep Sort Prop.
Combined Scheme gen_mutind from gen1_mind, genl_mind, genrep_mind.

Definition sound_stmt (s : stmt) (w : list tok2) (e : exitk) : Prop :=
  forall inner a, r_ok (ai1 inner s a) = true ->
  forall c stk, ale c a -> inner_of stk = inner ->
  exists c', scan w (fst c) (snd c) stk = Some (fst c', snd c', stk) /\ ole c' (r_of (ai1 inner s a) e).
Definition sound_list (l : list stmt) (w : list tok2) (e : exitk) : Prop :=
  forall inner a, r_ok (ail inner l a) = true ->
  forall c stk, ale c a -> inner_of stk = inner ->
  exists c', scan w (fst c) (snd c) stk = Some (fst c', snd c', stk) /\ ole c' (r_of (ail inner l a) e).
(* one loop: a3 is a post-fixpoint of the body *)
Definition sound_rep (body : list stmt) (w : list tok2) (e : exitk) : Prop :=
  forall inner a3, r_ok (ail inner body a3) = true ->
  oleb (r_fall (ail inner body a3)) a3 = true -> oleb (r_cont (ail inner body a3)) a3 = true ->
  forall c stk, ale c a3 -> inner_of stk = inner ->
  exists c', scan w (fst c) (snd c) stk = Some (fst c', snd c', stk) /\
    match e with
    | Fall => ole c' (ajoin (Some a3) (r_brk (ail inner body a3)))
    | Ret => ole c' (r_ret (ail inner body a3))
    | _ => False
    end.

Lemma oleb_ole : forall c x a, ole c x -> oleb x a = true -> ale c a.
Proof. intros c x a [b [E L]] H. subst. cbn in H. eapply ale_trans; [exact L | apply aleb_ale; exact H]. Qed.

Lemma ai_sound :
  (forall s w e, gen1 s w e -> sound_stmt s w e) /\
  (forall l w e, genl l w e -> sound_list l w e) /\
  (forall b w e, genrep b w e -> sound_rep b w e).
Proof.
  apply gen_mutind.
  - (* loop *) intros c0 inner a _ c stk L _. exists (true, snd c). cbn. split; [reflexivity|].
    eexists; split; [reflexivity|]. destruct L as [_ L2]. split; cbn; auto.
  - (* call *) intros k body w e G IH He inner a Hok c stk L Hin.
    rewrite ai1_call in *. cbn zeta in *. cbn [r_ok] in Hok.
    repeat (apply andb_true_iff in Hok; destruct Hok as [Hok ?]).
    rename H into Hexit, H0 into Hcont, H1 into Hbrk, H2 into Hentry.
    assert (Hstk : inner_of (k :: stk) = negb k) by (destruct k; reflexivity).
    destruct (IH (negb k) a Hok c (k :: stk) L Hstk) as [c' [Sc Lc]].
    assert (Lx : ole c' (ajoin (r_fall (ail (negb k) body a)) (r_ret (ail (negb k) body a)))).
    { destruct He; subst e; [apply ole_join_l | apply ole_join_r]; exact Lc. }
    destruct Lx as [x [Ex Lx]]. rewrite Ex in *.
    cbn [scan]. assert (Hent : (if k then negb (fst c) else true) = true).
    { destruct k; [|reflexivity]. apply negb_true_iff in Hentry. apply negb_true_iff.
      destruct (fst c) eqn:F; [rewrite (proj1 L F) in Hentry; discriminate | reflexivity]. }
    rewrite Hent. rewrite scan_app. rewrite Sc. cbn [scan]. destruct k.
    + destruct x as [xp xs]. apply negb_true_iff in Hexit. subst xp.
      assert (fst c' = false) by (destruct (fst c') eqn:F; [pose proof (proj1 Lx F) as X; cbn in X; discriminate | reflexivity]).
      rewrite H. cbn. exists (false, true). split; [reflexivity|]. eexists; split; [reflexivity | apply ale_refl].
    + exists (true, true). split; [reflexivity|]. cbn [r_of r_fall]. eexists; split; [reflexivity | apply ale_refl].
  - (* abortP *) intros inner a Hok c stk L Hin. cbn in Hok. rewrite <- Hin in Hok.
    destruct stk as [|[|] stk']; cbn in Hok; try discriminate.
    exists (false, false). cbn. split; [reflexivity|]. eexists; split; [reflexivity | apply ale_refl].
  - intros inner a Hok c stk L Hin. exists (false, false). cbn. split; [reflexivity|]. eexists; split; [reflexivity | apply ale_refl].
  - intros inner a Hok c stk L Hin. exists (fst c, false). cbn. split; [reflexivity|]. eexists; split; [reflexivity|].
    split; cbn; [apply (proj1 L) | discriminate].
  - intros inner a Hok c stk L Hin. exists c. cbn. split; [destruct c; reflexivity|]. eexists; split; [reflexivity | exact L].
  - (* use *) intros inner a Hok c stk L Hin. cbn in Hok. apply andb_true_iff in Hok. destruct Hok as [H1 H2].
    apply negb_true_iff in H1, H2.
    assert (F1 : fst c = false) by (destruct (fst c) eqn:F; [rewrite (proj1 L F) in H1; discriminate | reflexivity]).
    assert (F2 : snd c = false) by (destruct (snd c) eqn:F; [rewrite (proj2 L F) in H2; discriminate | reflexivity]).
    exists c. cbn. rewrite F1, F2. cbn. split; [destruct c; cbn in *; subst; reflexivity|]. eexists; split; [reflexivity | exact L].
  - intros inner a Hok c stk L Hin. exists c. cbn. split; [destruct c; reflexivity|]. eexists; split; [reflexivity | exact L].
  - (* if a *) intros x y w e G IH inner a Hok c stk L Hin.
    rewrite ai1_if in *. cbn [rjoin r_ok] in Hok. apply andb_true_iff in Hok. destruct Hok as [H1 H2].
    destruct (IH inner a H1 c stk L Hin) as [c' [Sc Lc]]. exists c'. split; [exact Sc|].
    destruct e; cbn [r_of rjoin r_fall r_ret r_brk r_cont] in *; apply ole_join_l; exact Lc.
  - (* if b *) intros x y w e G IH inner a Hok c stk L Hin.
    rewrite ai1_if in *. cbn [rjoin r_ok] in Hok. apply andb_true_iff in Hok. destruct Hok as [H1 H2].
    destruct (IH inner a H2 c stk L Hin) as [c' [Sc Lc]]. exists c'. split; [exact Sc|].
    destruct e; cbn [r_of rjoin r_fall r_ret r_brk r_cont] in *; apply ole_join_r; exact Lc.
  - (* rep *) intros body w e G IH inner a Hok c stk L Hin.
    rewrite ai1_rep in *. cbv zeta in *.
    set (r0 := ail inner body a) in *.
    set (a1 := ojoin_ast (ojoin_ast a (r_fall r0)) (r_cont r0)) in *.
    assert (L01 : ale a a1).
    { unfold a1. eapply ale_trans; [apply (proj1 (ojoin_ast_ge a (r_fall r0))) | apply (proj1 (ojoin_ast_ge _ (r_cont r0)))]. }
    assert (Fin : forall ai, ale a ai -> r_ok (rep_res ai (ail inner body ai)) = true ->
              exists c', scan w (fst c) (snd c) stk = Some (fst c', snd c', stk) /\ ole c' (r_of (rep_res ai (ail inner body ai)) e)).
    { intros ai Lai Hk. unfold rep_res in Hk. cbn [r_ok] in Hk.
      apply andb_true_iff in Hk. destruct Hk as [Hk Hc]. apply andb_true_iff in Hk. destruct Hk as [Hk Hf].
      destruct (IH inner ai Hk Hf Hc c stk (ale_trans _ _ _ L Lai) Hin) as [c' [Sc Lc]]. exists c'. split; [exact Sc|].
      unfold rep_res. destruct e; cbn [r_of r_fall r_ret r_brk r_cont]; try contradiction; exact Lc. }
    destruct (aleb a1 a).
    + apply (Fin a (ale_refl a) Hok).
    + set (r1 := ail inner body a1) in *.
      set (a2 := ojoin_ast (ojoin_ast a1 (r_fall r1)) (r_cont r1)) in *.
      assert (L12 : ale a1 a2).
      { unfold a2. eapply ale_trans; [apply (proj1 (ojoin_ast_ge a1 (r_fall r1))) | apply (proj1 (ojoin_ast_ge _ (r_cont r1)))]. }
      destruct (aleb a2 a1).
      * apply (Fin a1 L01 Hok).
      * apply (Fin a2 (ale_trans _ _ _ L01 L12) Hok).
  - intros inner a _ c stk L _. exists c. cbn. split; [destruct c; reflexivity|]. eexists; split; [reflexivity | exact L].
  - intros inner a _ c stk L _. exists c. cbn. split; [destruct c; reflexivity|]. eexists; split; [reflexivity | exact L].
  - intros inner a _ c stk L _. exists c. cbn. split; [destruct c; reflexivity|]. eexists; split; [reflexivity | exact L].
  - (* nil *) intros inner a _ c stk L _. exists c. cbn. split; [destruct c; reflexivity|]. eexists; split; [reflexivity | exact L].
  - (* fall then rest *) intros s l w1 w2 e G1 IH1 G2 IH2 inner a Hok c stk L Hin.
    cbn [ail] in *. destruct (r_fall (ai1 inner s a)) as [a'|] eqn:Ef.
    + cbn [rseq r_ok] in Hok. apply andb_true_iff in Hok. destruct Hok as [H1 H2].
      destruct (IH1 inner a H1 c stk L Hin) as [c1 [S1 L1]]. cbn [r_of] in L1. rewrite Ef in L1.
      destruct L1 as [b [Eb Lb]]. inversion Eb; subst b.
      destruct (IH2 inner a' H2 c1 stk Lb Hin) as [c2 [S2 L2]]. exists c2. split.
      * rewrite scan_app, S1. exact S2.
      * destruct e; cbn [r_of rseq r_fall r_ret r_brk r_cont] in *; [exact L2 | apply ole_join_r; exact L2 ..].
    + destruct (IH1 inner a Hok c stk L Hin) as [c1 [S1 L1]]. cbn [r_of] in L1. rewrite Ef in L1. destruct L1 as [b [Eb _]]. discriminate.
  - (* exit *) intros s l w e G1 IH1 Hne inner a Hok c stk L Hin.
    cbn [ail] in *. destruct (r_fall (ai1 inner s a)) as [a'|] eqn:Ef.
    + cbn [rseq r_ok] in Hok. apply andb_true_iff in Hok. destruct Hok as [H1 H2].
      destruct (IH1 inner a H1 c stk L Hin) as [c1 [S1 L1]]. exists c1. split; [exact S1|].
      destruct e; [congruence | cbn [r_of rseq r_ret r_brk r_cont] in *; apply ole_join_l; exact L1 ..].
    + destruct (IH1 inner a Hok c stk L Hin) as [c1 [S1 L1]]. exists c1. split; [exact S1 | exact L1].
  - (* rep done *) intros body inner a3 _ _ _ c stk L _. exists c. split; [reflexivity|]. cbv beta iota.
    apply ole_join_l. eexists; split; [reflexivity | exact L].
  - (* rep iter *) intros body w1 w2 e1 e G1 IH1 He1 G2 IH2 inner a3 Hok Hf Hc c stk L Hin.
    destruct (IH1 inner a3 Hok c stk L Hin) as [c1 [S1 L1]].
    assert (L1' : ale c1 a3) by (destruct He1; subst e1; cbn [r_of] in L1; eapply oleb_ole; eauto).
    destruct (IH2 inner a3 Hok Hf Hc c1 stk L1' Hin) as [c2 [S2 L2]]. exists c2. split; [rewrite scan_app, S1; exact S2 | exact L2].
  - (* rep brk *) intros body w G IH inner a3 Hok _ _ c stk L Hin.
    destruct (IH inner a3 Hok c stk L Hin) as [c1 [S1 L1]]. exists c1. split; [exact S1|]. apply ole_join_r. exact L1.
  - (* rep ret *) intros body w G IH inner a3 Hok _ _ c stk L Hin.
    destruct (IH inner a3 Hok c stk L Hin) as [c1 [S1 L1]]. exists c1. split; [exact S1 | exact L1].
Qed.

Lemma prog_ok_paths_wok : forall body, prog_ok body = true -> forall w, is_path body w -> wok w = true.
Proof.
  intros body H w [e [G He]]. unfold prog_ok in H.
  repeat (apply andb_true_iff in H; destruct H as [H ?]). rename H0 into Hx.
  destruct (proj1 (proj2 ai_sound) _ _ _ G false (false, false) H (false, false) [] (ale_refl _) eq_refl) as [c' [Sc Lc]].
  unfold wok. rewrite scan_wokc. cbn [fst snd] in Sc. rewrite Sc.
  assert (Lx : ole c' (ajoin (r_fall (ail false body (false, false))) (r_ret (ail false body (false, false))))).
  { destruct He; subst e; [apply ole_join_l | apply ole_join_r]; exact Lc. }
  destruct Lx as [x [Ex Lx]]. rewrite Ex in Hx. destruct x as [xp xs]. apply negb_true_iff in Hx. subst xp.
  destruct (fst c') eqn:F; [pose proof (proj1 Lx F) as X; cbn in X; discriminate | reflexivity].
Qed.

Lemma table_ok_paths_wok : forall (t : table), table_ok t = true -> forall f w, paths t f w -> wok w = true.
Proof.
  intros t H f w [body [Hin P]]. unfold table_ok in H. rewrite forallb_forall in H.
  apply (prog_ok_paths_wok body (H _ Hin) w P).
Qed.

Lemma table_all_or_nothing : forall (t : table), table_ok t = true ->
  forall f w, paths t f w -> forall par sched k,
  exists r0, exec2 never par sched w = Complete r0 /\ Forall (Forall (eq true)) r0 /\
    (exec2 (cancel_at k) par sched w = Complete r0 \/ exec2 (cancel_at k) par sched w = CancelledEmpty).
Proof. intros t H f w P par sched k. apply wok_all_or_nothing_k. eapply table_ok_paths_wok; eauto. Qed.

(* the discipline and the interpreter are not vacuous: a Hull-like body passes, the pre-fix Refine body does not,
   and that body has a path on which a partial result escapes *)
Definition ex_sortverts : list stmt := [SLoop; SAbortP; SNeutral; SCall false [SLoop; SAbortP]; SAbortP; SUse].
Definition ex_sortgeometry : list stmt := [SUse; SCall false ex_sortverts; SAbortP; SCall false [SLoop; SAbortP]; SAbortP; SUse].
Definition ex_hull : list stmt := [SIf [SRet] []; SAbortF; SUse; SAbortF; SUse; SCall false ex_sortgeometry; SAbortF; SUse].
Definition ex_refine_prefix : list stmt := [SUse; SAbortF; SUse; SCall false ex_sortgeometry; SUse].
Lemma examples_ok : prog_ok ex_hull = true /\ prog_ok ex_refine_prefix = false /\
  prog_ok [SCall true ex_hull; SStat; SUse] = true /\ prog_ok [SCall true ex_hull; SUse] = false.
Proof. repeat split; vm_compute; reflexivity. Qed.

(* without the check after an open callee a partial result escapes / is consumed (the pre-fix Impl::Refine) *)
Lemma missing_check_escapes2 :
  is_path [SCall false [SLoop; SAbortP]] [UEnter false; ULoop 3; UAbortP; ULeave] /\
  exec2 (cancel_at 2) false (fun _ j => j) [UEnter false; ULoop 3; UAbortP; ULeave] = PartialEscaped /\
  exec2 (cancel_at 2) false (fun _ j => j) [UEnter false; ULoop 3; UAbortP; ULeave; UUse; UAbortF] = Undefined /\
  prog_ok [SCall false [SLoop; SAbortP]] = false /\ prog_ok [SCall false [SLoop; SAbortP]; SUse; SAbortF] = false /\
  prog_ok [SCall false [SLoop; SAbortP]; SAbortF; SUse] = true.
Proof.
  split.
  - exists Fall. split; [|left; reflexivity].
    change [UEnter false; ULoop 3; UAbortP; ULeave] with ((UEnter false :: ([ULoop 3] ++ [UAbortP] ++ []) ++ [ULeave]) ++ []).
    eapply gl_fall; [|apply gl_nil]. eapply g_call; [|left; reflexivity].
    eapply gl_fall; [apply g_loop|]. eapply gl_fall; [apply g_abp | apply gl_nil].
  - repeat split; vm_compute; reflexivity.
Qed.
