(* C05 - the obligation on the table generated from /repo's sources:
   recomputed whenever coq/Gen/CowTable.v changes. *)
From Coq Require Import List Bool.
From MV Require Import Proto.CowDefs Gen.CowTable.

Lemma table_failing_entries : failing_entries table = nil.
Proof. vm_compute. reflexivity. Qed.

Lemma table_ok : discipline_ok table = true.
Proof. vm_compute. reflexivity. Qed.
