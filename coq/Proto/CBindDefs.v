(* C20 — the C binding as data: record types for the table that
   translate/c20_cbind.py regenerates from bindings/c/*.cpp on every run
   (coq/Gen/CBind.v), and the Boolean checkers that judge it.
   Definitions only; lemmas are in CBindModel.v. *)
From Coq Require Import String Ascii List Bool Arith.
Import ListNotations.
Local Open Scope string_scope.

(* ------------------------------------------------------------------ table *)

(* How one argument of the C++ callee is built from the C parameters. *)
Inductive route :=
| RParam (p : string)                        (* scalar C parameter passed as is (int -> bool allowed) *)
| RHandle (p : string)                       (* from_c(p) / *from_c(p): the object behind handle p *)
| REnum (p cenum : string)                   (* from_c(p) for an enum parameter of C type cenum *)
| RVec (comps : list string)                 (* vecN(p1, .., pN) from scalar parameters, in this order *)
| RMat (cols : list (list string))           (* matRxC({..}, {..}, ..) column by column *)
| RDefault                                   (* argument omitted: the C++ default applies *)
| RConst (txt : string)                      (* a constant chosen by the wrapper *)
| RCallback (fn ctx : string) (ctx_unchanged comps_in_order : bool)
| RNested (ps : list string).                (* result of another call / marshalled array, mentions ps *)

Record callsite := {
  cs_callee : string;          (* qualified C++ name, e.g. manifold::Manifold::Translate *)
  cs_known : bool;             (* declaration found in the public headers (false: std:: member) *)
  cs_params : list string;     (* C++ parameter names in declaration order ("" if unnamed in the header) *)
  cs_recv : option route;
  cs_args : list route }.

Inductive result :=
| ResPlace (mem ty : string)                 (* return to_c(new (mem) ty(...)) *)
| ResPlace2 (mem1 mem2 ty : string)          (* pair of placement-news *)
| ResEnum (cenum : string)                   (* to_c(enum value) *)
| ResVec (fields : list string)              (* a ManifoldVecN built from these fields in this order *)
| ResStruct (cstruct : string) (fields : list string)
| ResCopy (mem : string)                     (* memcpy of an array into caller memory *)
| ResScalar
| ResVoid.

Inductive kind :=
| KWrap | KMarshal | KCallback | KIO
| KSize (ty : string) | KAlloc (ty szty : string) | KDestruct (ty : string) | KDelete (ty : string).

Record entry := {
  e_name : string;
  e_ret : string;
  e_params : list (string * string);      (* definition: (name, C type) *)
  e_hparams : list (string * string);     (* declaration in manifoldc.h *)
  e_kind : kind;
  e_calls : list callsite;
  e_result : result;
  e_news : list (string * string);        (* every placement-new: (parameter it constructs into, C++ type) *)
  e_plain_new : nat;                      (* non-placement new expressions *)
  e_deletes : nat;                        (* delete expressions *)
  e_unused : list string;                 (* parameters never referenced by the body *)
  e_cb : list (string * string * bool)    (* function-pointer parameter, the parameter handed to it as user context, handed over unchanged as last argument *)
}.

(* ------------------------------------------------------- string utilities *)

Definition lower (c : ascii) : ascii :=
  let n := nat_of_ascii c in
  if andb (Nat.leb 65 n) (Nat.leb n 90) then ascii_of_nat (n + 32) else c.

(* snake_case / camelCase normal form: lower case, underscores dropped *)
Fixpoint norm (s : string) : string :=
  match s with
  | EmptyString => EmptyString
  | String c r => if Ascii.eqb c "_"%char then norm r else String (lower c) (norm r)
  end.

Definition str_in (s : string) (l : list string) : bool := existsb (String.eqb s) l.

Fixpoint index_of (s : string) (l : list string) : option nat :=
  match l with
  | [] => None
  | x :: r => if String.eqb s x then Some 0 else option_map S (index_of s r)
  end.

Fixpoint assoc {A} (k : string) (l : list (string * A)) : option A :=
  match l with
  | [] => None
  | (x, v) :: r => if String.eqb k x then Some v else assoc k r
  end.

Fixpoint starts_with (p s : string) : bool :=
  match p, s with
  | EmptyString, _ => true
  | String a p', String b s' => andb (Ascii.eqb a b) (starts_with p' s')
  | _, _ => false
  end.

Fixpoint drop (n : nat) (s : string) : string :=
  match n, s with
  | 0, _ => s
  | S n', String _ r => drop n' r
  | _, EmptyString => EmptyString
  end.

Fixpoint list_eqb (a b : list string) : bool :=
  match a, b with
  | [], [] => true
  | x :: a', y :: b' => andb (String.eqb x y) (list_eqb a' b')
  | _, _ => false
  end.

Fixpoint count_occ_s (s : string) (l : list string) : nat :=
  match l with [] => 0 | x :: r => (if String.eqb s x then 1 else 0) + count_occ_s s r end.

(* strictly increasing list of naturals *)
Fixpoint increasing (l : list nat) : bool :=
  match l with
  | a :: ((b :: _) as r) => andb (Nat.ltb a b) (increasing r)
  | _ => true
  end.

Fixpoint all_some {A} (l : list (option A)) : option (list A) :=
  match l with
  | [] => Some []
  | Some x :: r => option_map (cons x) (all_some r)
  | None :: _ => None
  end.

(* --------------------------------------------- reviewed exception lists *)

(* (C function, C parameter, C++ parameter): the names differ after
   normalisation but denote the same quantity.  Each line was checked against
   the documentation of the C++ method. *)
Definition name_exceptions : list (string * string * string) :=
  [ ("manifold_rotate", "x", "xDegrees");            (* Rotate(xDegrees, yDegrees, zDegrees): C drops the unit suffix *)
    ("manifold_rotate", "y", "yDegrees");
    ("manifold_rotate", "z", "zDegrees");
    ("manifold_cross_section_rotate", "deg", "degrees");   (* abbreviation *)
    ("manifold_extrude", "slices", "nDivisions");          (* C keeps the pre-3.0 name of nDivisions *)
    ("manifold_set_min_circular_angle", "degrees", "angle"); (* the angle is in degrees *)
    ("manifold_split_by_plane", "offset", "originOffset"); (* offset of the plane from the origin *)
    ("manifold_trim_by_plane", "offset", "originOffset") ].

(* (C function, C++ parameter, constant): constants a wrapper is allowed to
   supply itself, because the C function's name says so. *)
Definition const_exceptions : list (string * string * string) :=
  [ ("manifold_compose", "op", "manifold::OpType::Add");        (* compose == batch union *)
    ("manifold_level_set", "canParallel", "true");
    ("manifold_level_set_seq", "canParallel", "false");       (* the _seq variants force sequential evaluation *)
    ("manifold_execution_context_level_set", "canParallel", "true");
    ("manifold_execution_context_level_set_seq", "canParallel", "false") ].

(* (C enum, prefix of its enumerators): MANIFOLD_JOIN_TYPE_ROUND <-> Round *)
Definition enum_prefix : list (string * string) :=
  [ ("ManifoldOpType", "MANIFOLD_"); ("ManifoldError", "MANIFOLD_"); ("ManifoldJoinType", "MANIFOLD_JOIN_TYPE_") ].

(* (C enumerator, C++ enumerator) pairs whose names differ after normalisation *)
Definition enumerator_exceptions : list (string * string) :=
  [ ("MANIFOLD_VERTEX_INDEX_OUT_OF_BOUNDS", "VertexOutOfBounds") ].

(* C structs that are plain data (no handle): a *_size function may name them *)
Definition plain_structs : list string := [ "ManifoldManifoldPair" ].

Definition triple_in (a b c : string) (l : list (string * string * string)) : bool :=
  existsb (fun t => match t with (x, y, z) => andb (String.eqb a x) (andb (String.eqb b y) (String.eqb c z)) end) l.

(* C parameter cp of function fn is routed to C++ parameter xp *)
Definition name_match (fn cp xp : string) : bool :=
  orb (String.eqb xp "")                                  (* unnamed in the C++ header: nothing to compare *)
      (orb (String.eqb (norm cp) (norm xp)) (triple_in fn cp xp name_exceptions)).

(* ------------------------------------------------------ component order *)

Definition axes : list string := ["x"; "y"; "z"; "w"].

(* comps = [pre x suf; pre y suf; ...] for a common prefix and suffix.  The
   prefix is found as "everything before the first letter x" in the first
   component, tried at every position (names like "ax_x" contain two). *)
Fixpoint split_candidates (pre s : string) : list (string * string) :=
  match s with
  | EmptyString => []
  | String c r =>
      List.app (if Ascii.eqb c "x"%char then [(pre, r)] else []) (split_candidates (pre ++ String c EmptyString) r)
  end.

Definition axis_order (comps : list string) : bool :=
  match comps with
  | [] => false
  | c0 :: _ =>
      andb (Nat.leb 2 (length comps))
      (andb (Nat.leb (length comps) 4)
      (existsb (fun ps => list_eqb comps (map (fun a => fst ps ++ a ++ snd ps) (firstn (length comps) axes)))
               (split_candidates "" c0)))
  end.

(* columns of a matrix literal: column j (1-based) is [x j; y j; z j] *)
Definition digit (n : nat) : string := String (ascii_of_nat (48 + n)) EmptyString.

Fixpoint mat_cols_ok (cols : list (list string)) (j : nat) : bool :=
  match cols with
  | [] => true
  | c :: r => andb (list_eqb c (map (fun a => a ++ digit j) (firstn (length c) axes))) (mat_cols_ok r (S j))
  end.

(* ------------------------------------------------------------ per entry *)

Definition params_of (e : entry) : list string := map fst e.(e_params).

Definition route_params (r : route) : list string :=
  match r with
  | RParam p | RHandle p | REnum p _ => [p]
  | RVec c => c
  | RMat cols => concat cols
  | RCallback fn _ _ _ => [fn]          (* the context is allowed to sit anywhere in the C list *)
  | RNested ps => ps
  | RDefault | RConst _ => []
  end.

Definition route_ok (fn : string) (xp : string) (r : route) : bool :=
  match r with
  | RParam p => name_match fn p xp
  | REnum p _ => name_match fn p xp
  | RHandle _ => true
  | RVec comps => axis_order comps
  | RMat cols => andb (mat_cols_ok cols 1) (Nat.leb 2 (length cols))
  | RDefault => true
  | RConst t => triple_in fn xp t const_exceptions
  | RCallback _ ctx unchanged in_order => andb (negb (String.eqb ctx "")) (andb unchanged in_order)
  | RNested _ => true
  end.

Fixpoint args_ok (fn : string) (ps : list string) (args : list route) : bool :=
  match args, ps with
  | [], _ => true
  | a :: ar, p :: pr => andb (route_ok fn p a) (args_ok fn pr ar)
  | _ :: _, [] => false                                  (* more arguments than declared parameters *)
  end.

(* routes of an std:: member (size, push_back, operator[] ...): no names to compare, only shapes *)
Definition shape_ok (fn : string) (r : route) : bool :=
  match r with
  | RConst _ => false
  | RCallback _ _ _ _ => false
  | _ => route_ok fn "" r
  end.

(* the C parameters mentioned by a call site, receiver first, are in C declaration order *)
Definition callsite_in_order (e : entry) (c : callsite) : bool :=
  let ps := List.app (match c.(cs_recv) with Some r => route_params r | None => [] end) (concat (map route_params c.(cs_args))) in
  match all_some (map (fun p => index_of p (params_of e)) ps) with
  | Some idx => increasing idx
  | None => false
  end.

Definition callsite_ok (e : entry) (c : callsite) : bool :=
  andb (if c.(cs_known) then args_ok e.(e_name) c.(cs_params) c.(cs_args)
        else forallb (shape_ok e.(e_name)) c.(cs_args))
       (callsite_in_order e c).

(* header declaration and definition agree: same types position by position;
   same names, except where the parameter is the only one of its type (then
   no two arguments can be confused by a reader of the header) *)
Fixpoint hparams_ok (all_types : list string) (d h : list (string * string)) : bool :=
  match d, h with
  | [], [] => true
  | (dn, dt) :: dr, (hn, ht) :: hr =>
      andb (String.eqb dt ht)
      (andb (orb (String.eqb dn hn) (Nat.eqb (count_occ_s dt all_types) 1)) (hparams_ok all_types dr hr))
  | _, _ => false
  end.

Definition is_handle_type (handles : list (string * string)) (t : string) : bool :=
  match assoc t handles with Some _ => true | None => false end.

(* memory discipline of one entry, as seen in its body *)
Record effect := { constructs : list (string * string);   (* (parameter, C++ type) placement-constructed *)
                   allocates : nat;                       (* objects created with plain new *)
                   destroys : nat }.                      (* delete expressions / destructor calls *)

Definition effect_of (e : entry) : effect :=
  {| constructs := e.(e_news); allocates := e.(e_plain_new);
     destroys := match e.(e_kind) with KDestruct _ => 1 | _ => e.(e_deletes) end |}.

(* what the header advertises: a function returning a handle constructs one
   object of the handle's C++ type in its `mem` parameter; the pair-returning
   ones two, in mem_first/mem_second; nothing else allocates or frees, except
   the destruct_/delete_ families. *)
Definition advertised (handles : list (string * string)) (e : entry) : effect :=
  match e.(e_kind) with
  | KDestruct _ | KDelete _ => {| constructs := []; allocates := 0; destroys := 1 |}
  | KAlloc _ _ | KSize _ => {| constructs := []; allocates := 0; destroys := 0 |}
  | _ =>
    match assoc e.(e_ret) handles with
    | Some ty => {| constructs := [("mem", ty)]; allocates := 0; destroys := 0 |}
    | None =>
      if String.eqb e.(e_ret) "ManifoldManifoldPair"
      then {| constructs := [("mem_first", "manifold::Manifold"); ("mem_second", "manifold::Manifold")]; allocates := 0; destroys := 0 |}
      else {| constructs := []; allocates := 0; destroys := 0 |}
    end
  end.

Fixpoint pairs_eqb (a b : list (string * string)) : bool :=
  match a, b with
  | [], [] => true
  | (x1, y1) :: a', (x2, y2) :: b' => andb (andb (String.eqb x1 x2) (String.eqb y1 y2)) (pairs_eqb a' b')
  | _, _ => false
  end.

Definition effect_eqb (a b : effect) : bool :=
  andb (pairs_eqb a.(constructs) b.(constructs)) (andb (Nat.eqb a.(allocates) b.(allocates)) (Nat.eqb a.(destroys) b.(destroys))).

Definition result_ok (handles : list (string * string)) (structs : list (string * list string)) (e : entry) : bool :=
  match e.(e_result) with
  | ResPlace mem ty =>
      andb (String.eqb mem "mem")
      (andb (match assoc e.(e_ret) handles with Some t => String.eqb t ty | None => false end)
            (match e.(e_params) with (m, t) :: _ => andb (String.eqb m "mem") (String.eqb t "void *") | [] => false end))
  | ResPlace2 m1 m2 ty =>
      andb (String.eqb e.(e_ret) "ManifoldManifoldPair")
      (andb (String.eqb ty "manifold::Manifold")
      (match e.(e_params) with
       | (a, ta) :: (b, tb) :: _ => andb (andb (String.eqb a m1) (String.eqb b m2)) (andb (String.eqb ta "void *") (String.eqb tb "void *"))
       | _ => false end))
  | ResEnum c => String.eqb c e.(e_ret)
  | ResVec fields => andb (list_eqb fields (firstn (length fields) axes))
                          (match assoc e.(e_ret) structs with Some fs => list_eqb fs fields | None => false end)
  | ResStruct c fields =>
      andb (String.eqb c e.(e_ret))
           (match assoc c structs with
            | Some fs => andb (Nat.eqb (length fs) (length fields))
                              (forallb (fun p => String.eqb (norm (fst p)) (norm (snd p))) (combine fs fields))
            | None => false end)
  | ResCopy mem => andb (String.eqb mem "mem") (negb (is_handle_type handles e.(e_ret)))
  | ResScalar | ResVoid => negb (is_handle_type handles e.(e_ret))
  end.

(* every function-pointer parameter is given the user context that follows it
   in the C signature, unchanged, as its last argument *)
Definition cb_ok (e : entry) : bool :=
  forallb (fun t => match t with (fn, ctx, unchanged) =>
     andb unchanged (andb (negb (String.eqb ctx ""))
       (match assoc ctx e.(e_params) with Some ty => String.eqb ty "void *" | None => false end)) end) e.(e_cb).

Definition is_family (k : kind) : bool :=
  match k with KSize _ | KAlloc _ _ | KDestruct _ | KDelete _ => true | _ => false end.

Definition wrapper_ok_with (handles : list (string * string)) (structs : list (string * list string)) (e : entry) : bool :=
  andb (hparams_ok (map snd e.(e_params)) e.(e_params) e.(e_hparams))
  (andb (match e.(e_unused) with [] => true | _ => false end)
  (andb (effect_eqb (effect_of e) (advertised handles e))
  (andb (cb_ok e)
  (andb (if is_family e.(e_kind) then true else result_ok handles structs e)
        (match e.(e_kind) with
         | KWrap => forallb (callsite_ok e) e.(e_calls)
         | KCallback => forallb (fun c => if c.(cs_known) then args_ok e.(e_name) c.(cs_params) c.(cs_args) else true) e.(e_calls)
         | _ => true
         end))))).

(* ------------------------------------------------- size / alloc families *)

(* For the opaque handle C type hc with C++ type ty: there are entries
   manifold_<x>_size (KSize ty), manifold_alloc_<x> (KAlloc ty ty, returning a pointer to hc),
   manifold_destruct_<x> (KDestruct ty), manifold_delete_<x> (KDelete ty) for
   one and the same <x>. *)
Definition find_entry (tbl : list entry) (n : string) : option entry :=
  find (fun e => String.eqb e.(e_name) n) tbl.

Definition family_of (tbl : list entry) (hc : string) : list string :=
  (* the <x> of every alloc function returning hc* *)
  flat_map (fun e => match e.(e_kind) with
                     | KAlloc _ _ => if String.eqb e.(e_ret) (hc ++ " *") then [drop 15 e.(e_name)] else []
                     | _ => [] end) tbl.

Definition family_ok (tbl : list entry) (handles : list (string * string)) (hc : string) : bool :=
  match assoc (hc ++ " *") handles, family_of tbl hc with
  | Some ty, [x] =>
      andb (match find_entry tbl ("manifold_" ++ x ++ "_size") with
            | Some e => match e.(e_kind) with KSize t => andb (String.eqb t ty) (match e.(e_params) with [] => true | _ => false end) | _ => false end
            | None => false end)
      (andb (match find_entry tbl ("manifold_alloc_" ++ x) with
             | Some e => match e.(e_kind) with KAlloc t s => andb (String.eqb t ty) (String.eqb s ty) | _ => false end
             | None => false end)
      (andb (match find_entry tbl ("manifold_destruct_" ++ x) with
             | Some e => match e.(e_kind), e.(e_params) with KDestruct t, [(_, pt)] => andb (String.eqb t ty) (String.eqb pt (hc ++ " *")) | _, _ => false end
             | None => false end)
            (match find_entry tbl ("manifold_delete_" ++ x) with
             | Some e => match e.(e_kind), e.(e_params) with KDelete t, [(_, pt)] => andb (String.eqb t ty) (String.eqb pt (hc ++ " *")) | _, _ => false end
             | None => false end)))
  | _, _ => false
  end.

(* every *_size function is the size of a handle's C++ type or of a plain C struct of the same name *)
Definition size_entry_ok (handles : list (string * string)) (e : entry) : bool :=
  match e.(e_kind) with
  | KSize ty => orb (existsb (fun h => String.eqb (snd h) ty) handles) (str_in ty plain_structs)
  | _ => true
  end.

(* to_c and from_c handle casts: plain reinterpret_casts, and inverse to each other *)
Definition handle_maps_ok (hfrom hto : list (string * string * string)) : bool :=
  andb (forallb (fun t => match t with (c, x, castty) => andb (String.eqb x castty)
                   (existsb (fun u => match u with (c', x', _) => andb (String.eqb c c') (String.eqb x x') end) hto) end) hfrom)
       (forallb (fun t => match t with (c, x, castty) => andb (String.eqb c (castty ++ " *"))
                   (existsb (fun u => match u with (c', x', _) => andb (String.eqb c c') (String.eqb x x') end) hfrom) end) hto).

(* ------------------------------------------------------------- enum maps *)

Definition enumerator_match (cenum c x : string) : bool :=
  orb (existsb (fun p => andb (String.eqb (fst p) c) (String.eqb (snd p) x)) enumerator_exceptions)
      (match assoc cenum enum_prefix with
       | Some pre => andb (starts_with pre c) (String.eqb (norm (drop (String.length pre) c)) (norm x))
       | None => false
       end).

Definition nodup_s (l : list string) : bool :=
  forallb (fun s => Nat.eqb (count_occ_s s l) 1) l.

(* a switch table tbl : source -> target is a bijection between the two enumerator lists *)
Definition bijective (tbl : list (string * string)) (src tgt : list string) : bool :=
  andb (list_eqb (map fst tbl) src)                      (* every source enumerator has exactly one arm, in declaration order *)
  (andb (nodup_s (map snd tbl))
  (andb (forallb (fun t => str_in t (map snd tbl)) tgt)   (* every target enumerator is hit *)
        (forallb (fun t => str_in t tgt) (map snd tbl)))).

Definition compose_id (f g : list (string * string)) : bool :=
  (* g (f a) = a for every arm of f *)
  forallb (fun p => match assoc (snd p) g with Some a => String.eqb a (fst p) | None => false end) f.

Definition ordinal_preserving (tbl : list (string * string)) (src tgt : list string) : bool :=
  forallb (fun p => match index_of (fst p) src, index_of (snd p) tgt with
                    | Some i, Some j => Nat.eqb i j | _, _ => false end) tbl.

Definition enum_from_ok (cenums xenums : list (string * list string)) (t : string * string * list (string * string)) : bool :=
  match t with (c, x, tbl) =>
    match assoc c cenums, assoc x xenums with
    | Some cs, Some xs =>
        andb (bijective tbl cs xs)
        (andb (forallb (fun p => enumerator_match c (fst p) (snd p)) tbl) (ordinal_preserving tbl cs xs))
    | _, _ => false
    end
  end.

Definition enum_to_ok (cenums xenums : list (string * list string)) (t : string * string * list (string * string)) : bool :=
  match t with (c, x, tbl) =>
    match assoc c cenums, assoc x xenums with
    | Some cs, Some xs =>
        andb (bijective tbl xs cs)
        (andb (forallb (fun p => enumerator_match c (snd p) (fst p)) tbl) (ordinal_preserving tbl xs cs))
    | _, _ => false
    end
  end.

(* where both directions exist they are inverse to each other *)
Definition enum_roundtrip_ok (efrom eto : list (string * string * list (string * string))) : bool :=
  forallb (fun f => match f with (c, x, tf) =>
     forallb (fun t => match t with (c', x', tb) =>
        if andb (String.eqb c c') (String.eqb x x') then andb (compose_id tf tb) (compose_id tb tf) else true end) eto end) efrom.

(* every C enum of types.h is converted in at least one direction *)
Definition enums_covered (cenums : list (string * list string)) (efrom eto : list (string * string * list (string * string))) : bool :=
  forallb (fun ce => orb (existsb (fun t => String.eqb (fst (fst t)) (fst ce)) efrom)
                         (existsb (fun t => String.eqb (fst (fst t)) (fst ce)) eto)) cenums.

Definition vec_conv_ok (v : string * list string) : bool :=
  andb (Nat.leb 2 (length (snd v))) (list_eqb (snd v) (firstn (length (snd v)) axes)).

(* --------------------------------------------- option-struct marshalling *)

(* Functions that take a pointer to a struct of optional arrays
   (ManifoldMeshGLOptions / ManifoldMeshGL64Options).  The translator reads
   every block `if (opt->G != nullptr) result->M = vector_of_array(opt->S, L);`
   as (G, S, L, M).  Reviewed map: C field -> (MeshGL member, length). *)
Definition option_field_map : list (string * (string * string)) :=
  [ ("run_indices", ("runIndex", "run_indices_length"));
    ("run_original_ids", ("runOriginalID", "run_original_ids_length"));
    ("merge_from_vert", ("mergeFromVert", "merge_verts_length"));
    ("merge_to_vert", ("mergeToVert", "merge_verts_length"));     (* one shared length for both merge vectors *)
    ("halfedge_tangents", ("halfedgeTangent", "n_tris*3*4")) ].    (* four floats per halfedge, three halfedges per triangle *)

Fixpoint ends_with_length (s : string) : bool :=
  match s with
  | EmptyString => false
  | String _ r => orb (String.eqb s "_length") (ends_with_length r)
  end.

Definition opt_block_ok (b : string * string * string * string) : bool :=
  match b with (g, src, len, dst) =>
    andb (String.eqb g src)                                  (* the guard tests the very field that is copied *)
         (match assoc src option_field_map with
          | Some (m, l) => andb (String.eqb m dst) (String.eqb l len)
          | None => false end)
  end.

Definition opt_table_ok (structs : list (string * list string))
           (t : string * string * list (string * string * string * string)) : bool :=
  match t with (_, st, blocks) =>
    match assoc st structs with
    | None => false
    | Some fields =>
        let srcs := map (fun b => snd (fst (fst b))) blocks in
        let lens := map (fun b => snd (fst b)) blocks in
        andb (forallb opt_block_ok blocks)
        (andb (forallb (fun f => if ends_with_length f then str_in f lens          (* every length field is used *)
                                 else Nat.eqb (count_occ_s f srcs) 1) fields)      (* every array field is copied exactly once *)
             (nodup_s (map (fun b => snd b) blocks)))                              (* no MeshGL member is assigned twice *)
    end
  end.

(* every function with a parameter of type `S *`, S a C struct with pointer fields, has such a table for S *)
Definition opt_tables_cover (option_structs : list string) (tbl : list entry)
           (ots : list (string * string * list (string * string * string * string))) : bool :=
  forallb (fun e =>
    forallb (fun p =>
      forallb (fun st => if String.eqb (snd p) (st ++ " *")
                         then existsb (fun t => andb (String.eqb (fst (fst t)) (e_name e)) (String.eqb (snd (fst t)) st)) ots
                         else true) option_structs) (e_params e)) tbl.
