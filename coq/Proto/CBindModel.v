(* C20 — lemmas about the checkers of CBindDefs.v, the bridge from a checked
   table entry to the `faithful` hypothesis of the lifecycle theorem, and the
   obligations on the generated table (vm_compute). *)
From Coq Require Import String Ascii List Bool Arith Lia.
From MV Require Import Proto.CBindDefs Proto.LifeDefs Proto.Life Gen.CBind.
Import ListNotations.
Local Open Scope string_scope.

(* ----------------------------------------------------- the generated table *)

Definition handles : list (string * string) := map (fun t => (fst (fst t), snd (fst t))) CBind.handles_from.

Definition wrapper_ok (e : entry) : bool := wrapper_ok_with handles CBind.c_structs e.

Definition tables_complete : bool :=
  andb (match CBind.header_only with [] => true | _ => false end)       (* declared in manifoldc.h but not defined *)
       (match CBind.undeclared with [] => true | _ => false end).       (* exported but not declared *)

Definition families_ok : bool :=
  andb (forallb (family_ok CBind.table handles) CBind.opaque_handles)
  (andb (forallb (size_entry_ok handles) CBind.table)
        (handle_maps_ok CBind.handles_from CBind.handles_to)).

Definition enums_ok : bool :=
  andb (forallb (enum_from_ok CBind.c_enums CBind.cxx_enums) CBind.enum_from)
  (andb (forallb (enum_to_ok CBind.c_enums CBind.cxx_enums) CBind.enum_to)
  (andb (enum_roundtrip_ok CBind.enum_from CBind.enum_to)
  (andb (enums_covered CBind.c_enums CBind.enum_from CBind.enum_to)
        (forallb vec_conv_ok CBind.vec_convs)))).

Definition options_ok : bool :=
  andb (forallb (opt_table_ok CBind.c_structs) CBind.opt_tables)
  (andb (opt_tables_cover CBind.option_structs CBind.table CBind.opt_tables)
        (Nat.leb 1 (length CBind.opt_tables))).

Lemma options_ok_table : options_ok = true.
Proof. vm_compute. reflexivity. Qed.

(* the seeded slip: the block copying run_original_ids guarded by run_indices *)
Lemma wrong_guard_rejected :
  opt_table_ok CBind.c_structs
    ("manifold_meshgl64_w_options", "ManifoldMeshGL64Options",
     [("halfedge_tangents", "halfedge_tangents", "n_tris*3*4", "halfedgeTangent");
      ("run_indices", "run_indices", "run_indices_length", "runIndex");
      ("run_indices", "run_original_ids", "run_original_ids_length", "runOriginalID");
      ("merge_from_vert", "merge_from_vert", "merge_verts_length", "mergeFromVert");
      ("merge_to_vert", "merge_to_vert", "merge_verts_length", "mergeToVert")]) = false.
Proof. vm_compute. reflexivity. Qed.

(* a block routed to the wrong MeshGL member, and a field that is never copied *)
Lemma wrong_member_rejected :
  opt_table_ok CBind.c_structs
    ("manifold_meshgl_w_options", "ManifoldMeshGLOptions",
     [("halfedge_tangents", "halfedge_tangents", "n_tris*3*4", "halfedgeTangent");
      ("run_indices", "run_indices", "run_indices_length", "runIndex");
      ("run_original_ids", "run_original_ids", "run_original_ids_length", "runOriginalID");
      ("merge_from_vert", "merge_from_vert", "merge_verts_length", "mergeToVert");
      ("merge_to_vert", "merge_to_vert", "merge_verts_length", "mergeFromVert")]) = false
  /\ opt_table_ok CBind.c_structs
    ("manifold_meshgl_w_options", "ManifoldMeshGLOptions",
     [("run_indices", "run_indices", "run_indices_length", "runIndex");
      ("run_original_ids", "run_original_ids", "run_original_ids_length", "runOriginalID");
      ("merge_from_vert", "merge_from_vert", "merge_verts_length", "mergeFromVert");
      ("merge_to_vert", "merge_to_vert", "merge_verts_length", "mergeToVert")]) = false.
Proof. split; vm_compute; reflexivity. Qed.

Lemma opt_block_ok_sound : forall g s l d, opt_block_ok (g, s, l, d) = true ->
  g = s /\ assoc s option_field_map = Some (d, l).
Proof.
  intros g s l d H. unfold opt_block_ok in H. apply andb_true_iff in H. destruct H as [H1 H2].
  apply String.eqb_eq in H1. split; [exact H1|].
  destruct (assoc s option_field_map) as [[m l']|]; [|discriminate].
  apply andb_true_iff in H2. destruct H2 as [Hm Hl]. apply String.eqb_eq in Hm. apply String.eqb_eq in Hl. subst. reflexivity.
Qed.

Lemma options_blocks_sound :
  forall fn st blocks g s l d, In (fn, st, blocks) CBind.opt_tables -> In (g, s, l, d) blocks ->
  g = s /\ assoc s option_field_map = Some (d, l).
Proof.
  intros fn st blocks g s l d Ht Hb. pose proof options_ok_table as O. unfold options_ok in O.
  apply andb_true_iff in O. destruct O as [O _]. rewrite forallb_forall in O. specialize (O _ Ht).
  unfold opt_table_ok in O. destruct (assoc st CBind.c_structs); [|discriminate].
  apply andb_true_iff in O. destruct O as [O _]. rewrite forallb_forall in O.
  apply opt_block_ok_sound. apply O. exact Hb.
Qed.

Lemma wrappers_faithful_table : forallb wrapper_ok CBind.table = true.
Proof. vm_compute. reflexivity. Qed.

Lemma tables_complete_ok : tables_complete = true.
Proof. vm_compute. reflexivity. Qed.

Lemma families_ok_table : families_ok = true.
Proof. vm_compute. reflexivity. Qed.

Lemma enums_ok_table : enums_ok = true.
Proof. vm_compute. reflexivity. Qed.

Lemma table_nonempty : 250 <= length CBind.table.
Proof. vm_compute. repeat constructor. Qed.

(* ------------------------------------------------------ checker soundness *)

Lemma list_eqb_eq : forall a b, list_eqb a b = true -> a = b.
Proof.
  induction a as [|x a IH]; destruct b as [|y b]; cbn; intros H; try discriminate; [reflexivity|].
  apply andb_true_iff in H. destruct H as [H1 H2]. apply String.eqb_eq in H1. subst. f_equal. apply IH. exact H2.
Qed.

Lemma pairs_eqb_eq : forall a b, pairs_eqb a b = true -> a = b.
Proof.
  induction a as [|[x1 y1] a IH]; destruct b as [|[x2 y2] b]; cbn; intros H; try discriminate; [reflexivity|].
  apply andb_true_iff in H. destruct H as [H1 H2]. apply andb_true_iff in H1. destruct H1 as [Ha Hb].
  apply String.eqb_eq in Ha. apply String.eqb_eq in Hb. subst. f_equal. apply IH. exact H2.
Qed.

Lemma effect_eqb_eq : forall a b, effect_eqb a b = true ->
  constructs a = constructs b /\ allocates a = allocates b /\ destroys a = destroys b.
Proof.
  intros a b H. unfold effect_eqb in H. apply andb_true_iff in H. destruct H as [H1 H2].
  apply andb_true_iff in H2. destruct H2 as [H2 H3].
  split; [apply pairs_eqb_eq; exact H1|]. split; apply Nat.eqb_eq; assumption.
Qed.

Lemma wrapper_ok_effect : forall hs st e, wrapper_ok_with hs st e = true ->
  effect_eqb (effect_of e) (advertised hs e) = true.
Proof.
  intros hs st e H. unfold wrapper_ok_with in H.
  apply andb_true_iff in H. destruct H as [_ H].
  apply andb_true_iff in H. destruct H as [_ H].
  apply andb_true_iff in H. destruct H as [H _]. exact H.
Qed.

Lemma wrapper_ok_callbacks : forall hs st e, wrapper_ok_with hs st e = true -> cb_ok e = true.
Proof.
  intros hs st e H. unfold wrapper_ok_with in H.
  apply andb_true_iff in H. destruct H as [_ H].
  apply andb_true_iff in H. destruct H as [_ H].
  apply andb_true_iff in H. destruct H as [_ H].
  apply andb_true_iff in H. destruct H as [H _]. exact H.
Qed.

(* a checked entry hands every callback the caller's context, unchanged *)
Lemma cb_ok_ctx : forall e fn ctx u, cb_ok e = true -> In (fn, ctx, u) (e_cb e) ->
  u = true /\ ctx <> "" /\ assoc ctx (e_params e) = Some "void *".
Proof.
  intros e fn ctx u H Hin. unfold cb_ok in H. rewrite forallb_forall in H. specialize (H _ Hin). cbn in H.
  apply andb_true_iff in H. destruct H as [Hu H]. apply andb_true_iff in H. destruct H as [Hc Ht].
  split; [exact Hu|]. split.
  - intros ->. cbn in Hc. discriminate.
  - destruct (assoc ctx (e_params e)); [|discriminate]. apply String.eqb_eq in Ht. subst. reflexivity.
Qed.

(* ------------------------------------------- bridge to the lifecycle model *)

Definition type_id (t : string) : nat :=
  match index_of t (map snd handles) with Some i => i | None => 1000 end.

(* The memory behaviour of one call of table entry e, with `bind` giving the
   address passed for each parameter and `args` the input handles: what the
   caller is told (c_mems, from the C signature) against what the body does
   (placement-news, plain news, deletes as counted by the translator). *)
Definition entry_call (e : entry) (bind : string -> addr) (args : list addr) : call :=
  {| c_mems := map (fun pt => (bind (fst pt), type_id (snd pt))) (constructs (advertised handles e));
     c_args := args;
     c_constructs := map (fun pt => (bind (fst pt), type_id (snd pt))) (e_news e);
     c_allocs := e_plain_new e;
     c_destroys := firstn (e_deletes e) args |}.

Lemma wrapper_ok_faithful :
  forall e bind args, wrapper_ok e = true -> is_family (e_kind e) = false -> faithful (entry_call e bind args).
Proof.
  intros e bind args H Hk. apply wrapper_ok_effect in H. apply effect_eqb_eq in H.
  destruct H as (Hc & Ha & Hd). unfold faithful, entry_call. cbn.
  change (e_news e = constructs (advertised handles e)) in Hc.
  change (e_plain_new e = allocates (advertised handles e)) in Ha.
  change (match e_kind e with KDestruct _ => 1 | _ => e_deletes e end = destroys (advertised handles e)) in Hd.
  assert (Hadv : allocates (advertised handles e) = 0 /\ destroys (advertised handles e) = 0).
  { unfold advertised. destruct (e_kind e); cbn in Hk; try discriminate;
      (destruct (assoc (e_ret e) handles); [cbn; split; reflexivity|]);
      (destruct (String.eqb (e_ret e) "ManifoldManifoldPair"); cbn; split; reflexivity). }
  destruct Hadv as [A0 D0]. rewrite A0 in Ha. rewrite D0 in Hd.
  split; [rewrite Hc; reflexivity|]. split; [exact Ha|].
  destruct (e_kind e); cbn in Hk; try discriminate; rewrite Hd; reflexivity.
Qed.

Lemma lifecycle_safe_table :
  forall p : list op,
    (forall c, In (OCall c) p ->
       exists e bind args, In e CBind.table /\ is_family (e_kind e) = false /\ c = entry_call e bind args) ->
    contract p -> safe p.
Proof.
  intros p H Hc. apply lifecycle_safe_lemma; [|exact Hc].
  intros c Hin. destruct (H c Hin) as (e & bind & args & He & Hk & ->).
  apply wrapper_ok_faithful; [|exact Hk].
  pose proof wrappers_faithful_table as W. rewrite forallb_forall in W. apply W. exact He.
Qed.

(* ------------------------------------------------------------ enum tables *)

Lemma assoc_in : forall (l : list (string * string)) a, In a (map fst l) -> exists b, assoc a l = Some b /\ In (a, b) l.
Proof.
  induction l as [|[x y] l IH]; cbn; intros a H; [contradiction|].
  destruct (String.eqb a x) eqn:E.
  - apply String.eqb_eq in E. subst. exists y. split; [reflexivity|left; reflexivity].
  - destruct H as [H|H]; [subst; rewrite String.eqb_refl in E; discriminate|].
    destruct (IH a H) as (b & Hb & Hin). exists b. split; [exact Hb|right; exact Hin].
Qed.

Lemma roundtrip_sound :
  forall tf tb src tgt, bijective tf src tgt = true -> compose_id tf tb = true ->
  forall a, In a src -> exists b, assoc a tf = Some b /\ In b tgt /\ assoc b tb = Some a.
Proof.
  intros tf tb src tgt Hb Hc a Ha. unfold bijective in Hb.
  apply andb_true_iff in Hb. destruct Hb as [H1 Hb]. apply andb_true_iff in Hb. destruct Hb as [_ Hb].
  apply andb_true_iff in Hb. destruct Hb as [_ H4].
  apply list_eqb_eq in H1. rewrite <- H1 in Ha.
  destruct (assoc_in tf a Ha) as (b & Hab & Hin). exists b. split; [exact Hab|].
  split.
  - rewrite forallb_forall in H4. assert (In b (map snd tf)) as Hbs by (apply in_map_iff; exists (a, b); split; [reflexivity|exact Hin]).
    specialize (H4 b Hbs). unfold str_in in H4. apply existsb_exists in H4. destruct H4 as (y & Hy & E).
    apply String.eqb_eq in E. subst. exact Hy.
  - unfold compose_id in Hc. rewrite forallb_forall in Hc. specialize (Hc _ Hin). cbn in Hc.
    destruct (assoc b tb); [|discriminate]. apply String.eqb_eq in Hc. subst. reflexivity.
Qed.

(* for every enum converted in both directions (OpType): to_c (from_c c) = c on every C enumerator *)
Lemma enum_roundtrip_generic :
  forall cen xen ef et,
    forallb (enum_from_ok cen xen) ef = true -> enum_roundtrip_ok ef et = true ->
  forall c x tf tb cs xs,
    In (c, x, tf) ef -> In (c, x, tb) et ->
    assoc c cen = Some cs -> assoc x xen = Some xs ->
    forall a, In a cs -> exists b, assoc a tf = Some b /\ In b xs /\ assoc b tb = Some a.
Proof.
  intros cen xen ef et E1 E3 c x tf tb cs xs Hf Ht Hcs Hxs.
  rewrite forallb_forall in E1. specialize (E1 _ Hf). unfold enum_from_ok in E1. rewrite Hcs, Hxs in E1.
  apply andb_true_iff in E1. destruct E1 as [Hbij _].
  unfold enum_roundtrip_ok in E3. rewrite forallb_forall in E3. specialize (E3 _ Hf). cbv beta iota in E3.
  rewrite forallb_forall in E3. specialize (E3 _ Ht). cbv beta iota in E3. rewrite !String.eqb_refl in E3.
  cbv beta iota in E3. change (andb true true) with true in E3. cbv iota in E3.
  apply andb_true_iff in E3. destruct E3 as [Hc _].
  apply roundtrip_sound with (src := cs); assumption.
Qed.

Lemma enum_roundtrip_lemma :
  forall c x tf tb cs xs,
    In (c, x, tf) CBind.enum_from -> In (c, x, tb) CBind.enum_to ->
    assoc c CBind.c_enums = Some cs -> assoc x CBind.cxx_enums = Some xs ->
    forall a, In a cs -> exists b, assoc a tf = Some b /\ In b xs /\ assoc b tb = Some a.
Proof.
  pose proof enums_ok_table as E. unfold enums_ok in E.
  apply andb_true_iff in E. destruct E as [E1 E]. apply andb_true_iff in E. destruct E as [_ E].
  apply andb_true_iff in E. destruct E as [E3 _].
  exact (enum_roundtrip_generic _ _ _ _ E1 E3).
Qed.

(* ------------------------------------------------ the checkers do reject *)

Definition find_e (n : string) : option entry := find_entry CBind.table n.

Definition set_calls (e : entry) (cs : list callsite) : entry :=
  {| e_name := e_name e; e_ret := e_ret e; e_params := e_params e; e_hparams := e_hparams e; e_kind := e_kind e;
     e_calls := cs; e_result := e_result e; e_news := e_news e; e_plain_new := e_plain_new e;
     e_deletes := e_deletes e; e_unused := e_unused e; e_cb := e_cb e |}.

(* manifold_translate building vec3(y, x, z) *)
Definition translate_swapped : option entry :=
  option_map (fun e => set_calls e
     (map (fun c => {| cs_callee := cs_callee c; cs_known := cs_known c; cs_params := cs_params c; cs_recv := cs_recv c;
                       cs_args := map (fun r => match r with RVec _ => RVec ["y"; "x"; "z"] | _ => r end) (cs_args c) |}) (e_calls e)))
     (find_e "manifold_translate").

Lemma translate_in_table_ok : option_map wrapper_ok (find_e "manifold_translate") = Some true.
Proof. vm_compute. reflexivity. Qed.

Lemma translate_swapped_rejected : option_map wrapper_ok translate_swapped = Some false.
Proof. vm_compute. reflexivity. Qed.

(* manifold_cylinder passing radius_high where radiusLow is expected *)
Definition cylinder_swapped : option entry :=
  option_map (fun e => set_calls e
     (map (fun c => {| cs_callee := cs_callee c; cs_known := cs_known c; cs_params := cs_params c; cs_recv := cs_recv c;
                       cs_args := map (fun r => match r with
                                                | RParam "radius_low" => RParam "radius_high"
                                                | RParam "radius_high" => RParam "radius_low"
                                                | _ => r end) (cs_args c) |}) (e_calls e)))
     (find_e "manifold_cylinder").

Lemma cylinder_swapped_rejected : option_map wrapper_ok cylinder_swapped = Some false.
Proof. vm_compute. reflexivity. Qed.

(* a wrapper that drops the user context of its callback *)
Definition warp_ctx_dropped : option entry :=
  option_map (fun e =>
    {| e_name := e_name e; e_ret := e_ret e; e_params := e_params e; e_hparams := e_hparams e; e_kind := e_kind e;
       e_calls := e_calls e; e_result := e_result e; e_news := e_news e; e_plain_new := e_plain_new e;
       e_deletes := e_deletes e; e_unused := ["ctx"]; e_cb := [("fun", "", false)] |}) (find_e "manifold_warp").

Lemma warp_ctx_dropped_rejected : option_map wrapper_ok warp_ctx_dropped = Some false.
Proof. vm_compute. reflexivity. Qed.

(* a constructor that allocates with plain new instead of constructing in mem *)
Definition cube_allocating : option entry :=
  option_map (fun e =>
    {| e_name := e_name e; e_ret := e_ret e; e_params := e_params e; e_hparams := e_hparams e; e_kind := e_kind e;
       e_calls := e_calls e; e_result := e_result e; e_news := []; e_plain_new := 1;
       e_deletes := e_deletes e; e_unused := e_unused e; e_cb := e_cb e |}) (find_e "manifold_cube").

Lemma cube_allocating_rejected : option_map wrapper_ok cube_allocating = Some false.
Proof. vm_compute. reflexivity. Qed.

(* from_c(ManifoldOpType) with two arms swapped; a size function of the wrong type *)
Lemma swapped_optype_rejected :
  enum_from_ok CBind.c_enums CBind.cxx_enums
    ("ManifoldOpType", "manifold::OpType",
     [("MANIFOLD_ADD", "Add"); ("MANIFOLD_SUBTRACT", "Intersect"); ("MANIFOLD_INTERSECT", "Subtract")]) = false.
Proof. vm_compute. reflexivity. Qed.

Definition wrong_size_table : list entry :=
  map (fun e => if String.eqb (e_name e) "manifold_meshgl_size"
                then {| e_name := e_name e; e_ret := e_ret e; e_params := e_params e; e_hparams := e_hparams e;
                        e_kind := KSize "manifold::Manifold"; e_calls := e_calls e; e_result := e_result e;
                        e_news := e_news e; e_plain_new := e_plain_new e; e_deletes := e_deletes e;
                        e_unused := e_unused e; e_cb := e_cb e |}
                else e) CBind.table.

Lemma wrong_size_rejected : family_ok wrong_size_table handles "ManifoldMeshGL" = false.
Proof. vm_compute. reflexivity. Qed.

Lemma right_size_accepted : family_ok CBind.table handles "ManifoldMeshGL" = true.
Proof. vm_compute. reflexivity. Qed.

(* a program over real table entries: cube, cube, union, get_meshgl; all returned *)
Definition tbl_call (n : string) (bind : string -> addr) (args : list addr) : option call :=
  option_map (fun e => entry_call e bind args) (find_e n).

Definition table_prog : option (list op) :=
  match tbl_call "manifold_cube" (fun _ => 1) [], tbl_call "manifold_cube" (fun _ => 2) [],
        tbl_call "manifold_union" (fun _ => 3) [1; 2], tbl_call "manifold_get_meshgl" (fun _ => 4) [3] with
  | Some c1, Some c2, Some c3, Some c4 =>
      Some [ OSupply 1 (type_id "manifold::Manifold"); OCall c1; OAlloc 2 (type_id "manifold::Manifold"); OCall c2;
             OAlloc 3 (type_id "manifold::Manifold"); OCall c3; OSupply 4 (type_id "manifold::MeshGL"); OCall c4;
             ODestruct 1 (type_id "manifold::Manifold"); ORelease 1; ODelete 2 (type_id "manifold::Manifold");
             ODelete 3 (type_id "manifold::Manifold"); ODestruct 4 (type_id "manifold::MeshGL"); ORelease 4 ]
  | _, _, _, _ => None
  end.

Lemma table_prog_runs :
  match table_prog with
  | Some p => match run p init with
              | Some h => andb (forallb (fun a => match cells h a with Absent => true | _ => false end) (seq 0 8)) (Nat.eqb (leaked h) 0)
              | None => false end
  | None => false end = true.
Proof. vm_compute. reflexivity. Qed.
