(* C20 — lifecycle safety of the C binding's object model (proofs). *)
From Coq Require Import List Bool Arith Lia.
From MV Require Import Proto.LifeDefs.
Import ListNotations.

Lemma faithful_advertise : forall c, faithful c -> advertise c = c.
Proof.
  intros [m a k n d] (H1 & H2 & H3). cbn in *. subst. reflexivity.
Qed.

Lemma map_advertise_id :
  forall p, (forall c, In (OCall c) p -> faithful c) -> map advertise_op p = p.
Proof.
  induction p as [|o r IH]; intros H; cbn; [reflexivity|].
  rewrite IH by (intros c Hc; apply H; right; exact Hc).
  destruct o as [a t|a t|c|a t|a t|a]; cbn; try reflexivity.
  rewrite faithful_advertise; [reflexivity|]. apply H. left. reflexivity.
Qed.

(* Main theorem: a program that honours the header's contract, run against
   wrappers that do what the header advertises (one placement-construction per
   mem of the advertised type, no other allocation, no destruction of inputs),
   executes without double destruction, use after destruction or overflow of
   caller storage, and leaves no object, storage or hidden allocation behind. *)
Lemma lifecycle_safe_lemma :
  forall p, (forall c, In (OCall c) p -> faithful c) -> contract p -> safe p.
Proof.
  intros p Hf Hc. unfold contract in Hc. rewrite (map_advertise_id p Hf) in Hc. exact Hc.
Qed.

(* ------------------------------------------------------------------ *)
(* run over concatenation; arguments of every executed call are live   *)

Lemma run_app : forall p q h, run (p ++ q) h = match run p h with Some h' => run q h' | None => None end.
Proof.
  induction p as [|o r IH]; intros q h; cbn; [reflexivity|].
  destruct (step h o); [apply IH|reflexivity].
Qed.

Lemma call_args_live_lemma :
  forall p c q h hf, run (p ++ OCall c :: q) h = Some hf ->
  exists h1, run p h = Some h1 /\ forall a, In a (c_args c) -> is_live (cells h1 a) = true.
Proof.
  intros p c q h hf H. rewrite run_app in H.
  destruct (run p h) as [h1|] eqn:E; [|discriminate].
  exists h1. split; [reflexivity|]. cbn in H.
  destruct (forallb (fun a => is_live (cells h1 a)) (c_args c)) eqn:F; [|discriminate].
  intros a Ha. rewrite forallb_forall in F. apply F. exact Ha.
Qed.

(* a destruct/delete that executes acts on a live object of that type *)
Lemma destruct_acts_on_live_lemma :
  forall p a t q h hf, run (p ++ ODestruct a t :: q) h = Some hf ->
  exists h1 o, run p h = Some h1 /\ cells h1 a = Live o t.
Proof.
  intros p a t q h hf H. rewrite run_app in H.
  destruct (run p h) as [h1|] eqn:E; [|discriminate]. cbn in H.
  destruct (cells h1 a) as [|o t'|o t'] eqn:C; try discriminate.
  destruct (Nat.eqb t t') eqn:T; [|discriminate]. apply Nat.eqb_eq in T. subst.
  exists h1, o. split; [reflexivity|exact C].
Qed.

Lemma delete_acts_on_live_lib_lemma :
  forall p a t q h hf, run (p ++ ODelete a t :: q) h = Some hf ->
  exists h1, run p h = Some h1 /\ cells h1 a = Live Lib t.
Proof.
  intros p a t q h hf H. rewrite run_app in H.
  destruct (run p h) as [h1|] eqn:E; [|discriminate]. cbn in H.
  destruct (cells h1 a) as [|o t'|o t'] eqn:C; try discriminate.
  destruct o; try discriminate.
  destruct (Nat.eqb t t') eqn:T; [|discriminate]. apply Nat.eqb_eq in T. subst.
  exists h1. split; [reflexivity|exact C].
Qed.

(* ------------------------------------------------------------------ *)
(* counting: every constructed object is destroyed exactly once        *)

Definition lv (f : addr -> cell) (a : addr) : nat := if is_live (f a) then 1 else 0.

Lemma lv_upd_same : forall f a v, lv (upd f a v) a = if is_live v then 1 else 0.
Proof. intros. unfold lv, upd. rewrite Nat.eqb_refl. reflexivity. Qed.

Lemma lv_upd_other : forall f a b v, a <> b -> lv (upd f b v) a = lv f a.
Proof. intros f a b v H. unfold lv, upd. apply Nat.eqb_neq in H. rewrite H. reflexivity. Qed.

Lemma count_addr_cons : forall a b l, count_addr a (b :: l) = (if Nat.eqb a b then 1 else 0) + count_addr a l.
Proof. intros. unfold count_addr. cbn. destruct (Nat.eqb a b); reflexivity. Qed.

Lemma destroy_all_count :
  forall l f f', destroy_all f l = Some f' -> forall a, lv f a = count_addr a l + lv f' a.
Proof.
  induction l as [|b r IH]; intros f f' H a; cbn in H.
  - inversion H. reflexivity.
  - unfold destroy1 in H. destruct (f b) as [|o t|o t] eqn:C; try discriminate.
    specialize (IH _ _ H a). rewrite count_addr_cons.
    destruct (Nat.eq_dec a b) as [->|N].
    + rewrite Nat.eqb_refl. rewrite lv_upd_same in IH. cbn in IH.
      unfold lv at 1. rewrite C. cbn. lia.
    + rewrite lv_upd_other in IH by exact N. apply Nat.eqb_neq in N. rewrite N. lia.
Qed.

Lemma construct_all_count :
  forall l f f', construct_all f l = Some f' -> forall a, count_addr a (map fst l) + lv f a = lv f' a.
Proof.
  induction l as [|[b t] r IH]; intros f f' H a; cbn in H.
  - inversion H. reflexivity.
  - unfold construct1 in H. cbn in H. destruct (f b) as [|o t'|o t'] eqn:C; try discriminate.
    destruct (Nat.eqb t' t); [|discriminate].
    specialize (IH _ _ H a). cbn [map fst]. rewrite count_addr_cons.
    destruct (Nat.eq_dec a b) as [->|N].
    + rewrite Nat.eqb_refl. rewrite lv_upd_same in IH. cbn in IH.
      unfold lv at 1. rewrite C. cbn. lia.
    + rewrite lv_upd_other in IH by exact N. apply Nat.eqb_neq in N. rewrite N. lia.
Qed.

Lemma step_count :
  forall o h h', step h o = Some h' ->
  forall a, constructed_by o a + live_count h a = destroyed_by o a + live_count h' a.
Proof.
  intros o h h' H a. unfold live_count. change (if is_live (cells h a) then 1 else 0) with (lv (cells h) a).
  change (if is_live (cells h' a) then 1 else 0) with (lv (cells h') a).
  destruct o as [b t|b t|c|b t|b t|b]; cbn in H |- *.
  - destruct (cells h b) eqn:C; try discriminate. inversion H; subst; cbn.
    destruct (Nat.eq_dec a b) as [->|N].
    + rewrite lv_upd_same. unfold lv. rewrite C. reflexivity.
    + rewrite lv_upd_other by exact N. reflexivity.
  - destruct (cells h b) eqn:C; try discriminate. inversion H; subst; cbn.
    destruct (Nat.eq_dec a b) as [->|N].
    + rewrite lv_upd_same. unfold lv. rewrite C. reflexivity.
    + rewrite lv_upd_other by exact N. reflexivity.
  - destruct (forallb _ _); [|discriminate].
    destruct (destroy_all (cells h) (c_destroys c)) as [f1|] eqn:D; [|discriminate].
    destruct (construct_all f1 (c_constructs c)) as [f2|] eqn:K; [|discriminate].
    inversion H; subst; cbn.
    pose proof (destroy_all_count _ _ _ D a). pose proof (construct_all_count _ _ _ K a). lia.
  - destruct (cells h b) as [|o t'|o t'] eqn:C; try discriminate.
    destruct (Nat.eqb t t'); [|discriminate]. inversion H; subst; cbn.
    destruct (Nat.eq_dec a b) as [->|N].
    + rewrite Nat.eqb_refl, lv_upd_same. unfold lv. rewrite C. reflexivity.
    + rewrite lv_upd_other by exact N. apply Nat.eqb_neq in N. rewrite N. reflexivity.
  - destruct (cells h b) as [|o t'|o t'] eqn:C; try discriminate. destruct o; try discriminate.
    destruct (Nat.eqb t t'); [|discriminate]. inversion H; subst; cbn.
    destruct (Nat.eq_dec a b) as [->|N].
    + rewrite Nat.eqb_refl, lv_upd_same. unfold lv. rewrite C. reflexivity.
    + rewrite lv_upd_other by exact N. apply Nat.eqb_neq in N. rewrite N. reflexivity.
  - destruct (cells h b) as [|o t'|o t'] eqn:C; try discriminate. destruct o; try discriminate.
    inversion H; subst; cbn.
    destruct (Nat.eq_dec a b) as [->|N].
    + rewrite lv_upd_same. unfold lv. rewrite C. reflexivity.
    + rewrite lv_upd_other by exact N. reflexivity.
Qed.

Lemma run_count :
  forall p h h', run p h = Some h' ->
  forall a, total constructed_by p a + live_count h a = total destroyed_by p a + live_count h' a.
Proof.
  induction p as [|o r IH]; intros h h' H a; cbn in H |- *.
  - inversion H. reflexivity.
  - destruct (step h o) as [h1|] eqn:S; [|discriminate].
    pose proof (step_count _ _ _ S a). pose proof (IH _ _ H a). lia.
Qed.

Lemma destroyed_exactly_once_lemma :
  forall p, safe p -> forall a, total constructed_by p a = total destroyed_by p a.
Proof.
  intros p (h & R & (Hc & _)) a. pose proof (run_count _ _ _ R a) as E.
  unfold live_count in E. rewrite Hc in E. cbn in E. lia.
Qed.

(* ------------------------------------------------------------------ *)
(* concrete programs (non-vacuity, and necessity of `faithful`)        *)

Definition cube_call (m : addr) : call :=
  {| c_mems := [(m, 0)]; c_args := []; c_constructs := [(m, 0)]; c_allocs := 0; c_destroys := [] |}.
Definition union_call (m a b : addr) : call :=
  {| c_mems := [(m, 0)]; c_args := [a; b]; c_constructs := [(m, 0)]; c_allocs := 0; c_destroys := [] |}.
Definition meshgl_call (m a : addr) : call :=
  {| c_mems := [(m, 8)]; c_args := [a]; c_constructs := [(m, 8)]; c_allocs := 0; c_destroys := [] |}.

(* two cubes in caller storage and alloc'd storage, their union, a mesh of it; everything returned *)
Definition good_prog : list op :=
  [ OSupply 1 0; OAlloc 2 0; OCall (cube_call 1); OCall (cube_call 2);
    OAlloc 3 0; OCall (union_call 3 1 2);
    ODestruct 1 0; OCall (cube_call 1);           (* caller storage reused after destruct *)
    OSupply 4 8; OCall (meshgl_call 4 3);
    ODelete 2 0; ODelete 3 0; ODestruct 4 8; ORelease 4; ODestruct 1 0; ORelease 1 ].

Lemma clean_dec_upto : forall h n, (forall a, n <= a -> cells h a = Absent) ->
  forallb (fun a => match cells h a with Absent => true | _ => false end) (seq 0 n) = true ->
  leaked h = 0 -> clean h.
Proof.
  intros h n Hhi Hlo Hl. split; [|exact Hl]. intros a.
  destruct (le_lt_dec n a) as [L|L]; [apply Hhi; exact L|].
  rewrite forallb_forall in Hlo. specialize (Hlo a). rewrite in_seq in Hlo.
  destruct (cells h a); try reflexivity; (assert (false = true) by (apply Hlo; lia); discriminate).
Qed.

Lemma good_prog_faithful : forall c, In (OCall c) good_prog -> faithful c.
Proof.
  intros c H. cbn in H.
  repeat (destruct H as [H|H]; [try discriminate; inversion H; subst; repeat split; reflexivity|]).
  contradiction.
Qed.

Lemma good_prog_safe : safe good_prog.
Proof.
  unfold safe. eexists. split; [vm_compute; reflexivity|].
  apply clean_dec_upto with (n := 6).
  - intros a Ha. do 6 (destruct a as [|a]; [lia|]). reflexivity.
  - vm_compute. reflexivity.
  - reflexivity.
Qed.

Lemma good_prog_contract : contract good_prog.
Proof.
  unfold contract. rewrite map_advertise_id by exact good_prog_faithful. exact good_prog_safe.
Qed.

(* A wrapper that allocates its result with plain `new` instead of
   constructing it in `mem` (DESIGN section 4, "Catches"): the same caller
   program honours the contract, yet execution fails — the caller's
   manifold_destruct hits storage that holds no object. *)
Definition bad_cube_call (m : addr) : call :=
  {| c_mems := [(m, 0)]; c_args := []; c_constructs := []; c_allocs := 1; c_destroys := [] |}.
Definition leaky_prog : list op := [ OSupply 1 0; OCall (bad_cube_call 1); ODestruct 1 0; ORelease 1 ].

Lemma leaky_prog_contract : contract leaky_prog.
Proof.
  unfold contract, safe. eexists. split; [vm_compute; reflexivity|].
  apply clean_dec_upto with (n := 3).
  - intros a Ha. do 3 (destruct a as [|a]; [lia|]). reflexivity.
  - vm_compute. reflexivity.
  - reflexivity.
Qed.

Lemma leaky_prog_unsafe : run leaky_prog init = None.
Proof. vm_compute. reflexivity. Qed.

(* a wrapper that frees one of its inputs: the caller's own (contractual) destruct is then a double destruction *)
Definition freeing_call (m a : addr) : call :=
  {| c_mems := [(m, 0)]; c_args := [a]; c_constructs := [(m, 0)]; c_allocs := 0; c_destroys := [a] |}.
Definition double_free_prog : list op :=
  [ OAlloc 1 0; OCall (cube_call 1); OAlloc 2 0; OCall (freeing_call 2 1); ODelete 1 0; ODelete 2 0 ].

Lemma double_free_prog_unsafe : run double_free_prog init = None.
Proof. vm_compute. reflexivity. Qed.

(* a program that breaks the contract (uses an object after destructing it) is rejected by the model *)
Lemma use_after_destruct_rejected :
  run [ OAlloc 1 0; OCall (cube_call 1); OAlloc 2 0; ODestruct 1 0; OCall (union_call 2 1 1) ] init = None.
Proof. vm_compute. reflexivity. Qed.
