(* C15 -- lemmas about the model in CancelDefs.v. *)
From Coq Require Import List String ZArith Bool Arith Lia.
From MV Require Import Proto.CancelDefs.
Import ListNotations.

(* ================= Level A ================= *)
Section A.
  Variable flag : nat -> bool.
  Variable par : bool.
  Variable sched : nat -> nat -> nat.
  Hypothesis mono : forall i, flag i = true -> flag (S i) = true.

  Lemma mono_ge : forall i j, flag i = true -> i <= j -> flag j = true.
  Proof. intros i j Hi Hle. induction Hle; auto. Qed.

  (* L1: once dirty with the flag up, a disciplined word can only end Cancelled *)
  Lemma dirty_ends_cancelled : forall w,
    (forall n d outs, (forall i, n < i -> flag i = true) -> word_ok w true d = true ->
        run flag par sched w n true d 0 outs = CancelledEmpty) /\
    (forall n d s outs p, (forall i, n < i -> flag i = true) -> 1 <= d -> word_ok w p (d + s) = true ->
        run flag par sched w n true d (S s) outs = CancelledEmpty).
  Proof.
    induction w as [|t w [IHa IHb]]; split.
    - intros n d outs _ H. cbn in H. discriminate.
    - intros n d s outs p _ Hd H. cbn in H. destruct p; cbn in H; try discriminate.
      destruct (d + s) eqn:E; [lia | cbn in H; discriminate].
    - intros n d outs Hf H. destruct t; cbn [run word_ok] in *.
      + unfold loop. rewrite (Hf (S n)) by lia. cbn. apply IHa; [intros; apply Hf; lia | exact H].
      + apply IHa; auto.
      + destruct d; [discriminate|]. cbn. apply IHa; auto.
      + destruct d; [discriminate|]. rewrite (Hf (S n)) by lia.
        apply (IHb (S n) (S d) 0 outs false); [intros; apply Hf; lia | lia | rewrite Nat.add_0_r; exact H].
      + rewrite (Hf (S n)) by lia. reflexivity.
      + cbn in H. discriminate.
      + apply IHa; auto.
    - intros n d s outs p Hf Hd H. destruct t; cbn [run word_ok] in *.
      + apply (IHb n d s outs true); auto.
      + apply (IHb n d (S s) outs p); auto. replace (d + S s) with (S (d + s)) by lia. exact H.
      + destruct s.
        * rewrite Nat.add_0_r in H. destruct d; [lia|]. cbn. apply IHa; auto.
        * replace (d + S s) with (S (d + s)) in H by lia. apply (IHb n d s outs true); auto.
      + destruct (d + s) eqn:E; [lia|]. rewrite <- E in H. apply (IHb n d s outs false); auto.
      + apply (IHb n d s outs false); auto.
      + apply andb_true_iff in H. destruct H as [_ H]. apply (IHb n d s outs p); auto.
      + apply (IHb n d s outs p); auto.
  Qed.

  Lemma seq_chunks_never : forall c n, seq_chunks never n c = (n + c, repeat true c).
  Proof.
    induction c; intros n; cbn.
    - f_equal. lia.
    - rewrite IHc. f_equal. lia.
  Qed.

  Lemma loop_never : forall n c, loop never par sched n c = (S n + c, repeat true c).
  Proof.
    intros n c. unfold loop. cbn. destruct par.
    - f_equal. clear. generalize 0. induction c; intro a; cbn; [reflexivity|]. f_equal. apply IHc.
    - apply seq_chunks_never.
  Qed.

  Lemma seq_chunks_clean : forall c n n' r, seq_chunks flag n c = (n', r) ->
    forallb (fun b => b) r = true -> n' = n + c /\ r = repeat true c.
  Proof.
    induction c; intros n n' r H Hall; cbn in H.
    - inversion H. split; [lia | reflexivity].
    - destruct (flag (S n)) eqn:F.
      + inversion H; subst. cbn in Hall. discriminate.
      + destruct (seq_chunks flag (S n) c) as [n1 r1] eqn:E. inversion H; subst. cbn in Hall.
        destruct (IHc _ _ _ E Hall) as [A B]. split; [lia | cbn; f_equal; exact B].
  Qed.

  Lemma seq_chunks_dirty : forall c n n' r, seq_chunks flag n c = (n', r) ->
    forallb (fun b => b) r = false -> flag n' = true.
  Proof.
    induction c; intros n n' r H Hall; cbn in H.
    - inversion H; subst. cbn in Hall. discriminate.
    - destruct (flag (S n)) eqn:F.
      + inversion H; subst. exact F.
      + destruct (seq_chunks flag (S n) c) as [n1 r1] eqn:E. inversion H; subst. cbn in Hall. eapply IHc; eauto.
  Qed.

  Lemma map_all_true : forall (f : nat -> bool) l, forallb (fun b => b) (map f l) = true -> map f l = repeat true (List.length l).
  Proof. induction l; cbn; intros H; [reflexivity|]. apply andb_true_iff in H. destruct H as [A B]. rewrite A. f_equal. auto. Qed.

  Lemma map_some_false : forall (f : nat -> bool) l, forallb (fun b => b) (map f l) = false -> exists j, In j l /\ f j = false.
  Proof.
    induction l; cbn; intros H; [discriminate|]. apply andb_false_iff in H. destruct H as [H|H].
    - exists a. auto.
    - destruct (IHl H) as [j [A B]]. exists j. auto.
  Qed.

  (* a loop either ran every chunk exactly as without cancellation, or the flag is up from its last check on *)
  Lemma loop_cases : forall n c n' ran, loop flag par sched n c = (n', ran) ->
    (forallb (fun b => b) ran = true /\ (n', ran) = loop never par sched n c) \/
    (forallb (fun b => b) ran = false /\ forall i, n' < i -> flag i = true).
  Proof.
    intros n c n' ran H. rewrite loop_never. unfold loop in H.
    destruct (flag (S n)) eqn:F.
    - inversion H; subst. destruct c.
      + left. cbn. split; [reflexivity | f_equal; lia].
      + right. split; [reflexivity|]. intros i Hi. apply (mono_ge (S n)); [exact F | lia].
    - destruct par.
      + pose proof (f_equal fst H) as Hn. pose proof (f_equal snd H) as Hr. cbn [fst snd] in Hn, Hr. subst n' ran. clear H.
        destruct (forallb (fun b => b) (map (fun j => negb (flag (S (S n) + sched n j mod c))) (seq 0 c))) eqn:E.
        * left. split; [reflexivity|]. f_equal. rewrite (map_all_true _ _ E). rewrite seq_length. reflexivity.
        * right. split; [reflexivity|]. destruct (map_some_false _ _ E) as [j [Hj Fj]].
          apply negb_false_iff in Fj. apply in_seq in Hj. intros i Hi.
          apply (mono_ge (S (S n) + sched n j mod c)); [exact Fj|].
          assert (sched n j mod c < c) by (apply Nat.mod_upper_bound; lia). lia.
      + destruct (forallb (fun b => b) ran) eqn:E.
        * left. split; [reflexivity|]. destruct (seq_chunks_clean _ _ _ _ H E) as [A B]. subst. reflexivity.
        * right. split; [reflexivity|]. intros i Hi. apply (mono_ge n'); [eapply seq_chunks_dirty; eauto | lia].
  Qed.

  (* L2 *)
  Lemma clean_run : forall w n d outs p, word_ok w p d = true ->
    run flag par sched w n false d 0 outs = run never par sched w n false d 0 outs \/
    run flag par sched w n false d 0 outs = CancelledEmpty.
  Proof.
    induction w as [|t w IH]; intros n d outs p H.
    - left. reflexivity.
    - destruct t; cbn [run word_ok] in *.
      + destruct (loop flag par sched n chunks) as [n' ran] eqn:E.
        destruct (loop_cases _ _ _ _ E) as [[A B]|[A B]].
        * rewrite <- B. rewrite A. cbn. apply (IH n' d (ran :: outs) true H).
        * right. rewrite A. cbn. apply (proj1 (dirty_ends_cancelled w)); auto.
      + apply (IH n (S d) outs p H).
      + destruct d; [discriminate|]. cbn. apply (IH n d outs true H).
      + destruct d; [discriminate|]. cbn [never]. destruct (flag (S n)) eqn:F.
        * right. apply (proj2 (dirty_ends_cancelled w) (S n) (S d) 0 outs false).
          -- intros i Hi. apply (mono_ge (S n)); [exact F | lia].
          -- lia.
          -- rewrite Nat.add_0_r. exact H.
        * apply (IH (S n) (S d) outs false H).
      + cbn [never]. destruct (flag (S n)) eqn:F; [right; reflexivity|]. apply (IH (S n) d outs false H).
      + apply andb_true_iff in H. destruct H as [_ H]. apply (IH n d outs p H).
      + apply (IH n d outs p H).
  Qed.

  Lemma never_run_complete : forall w n dd outs p, word_ok w p dd = true ->
    Forall (Forall (eq true)) outs ->
    exists outs', run never par sched w n false dd 0 outs = Complete outs' /\ Forall (Forall (eq true)) outs'.
  Proof.
    induction w as [|t w IH]; intros n dd outs p H Ho.
    - exists (rev outs). split; [reflexivity|]. apply Forall_rev. exact Ho.
    - destruct t; cbn [run word_ok] in *.
      + rewrite loop_never.
        assert (R : forallb (fun b => b) (repeat true chunks) = true) by (clear; induction chunks; cbn; auto).
        rewrite R. cbn. apply (IH _ dd _ true H). constructor; [|exact Ho].
        clear. induction chunks; cbn; constructor; auto.
      + apply (IH n (S dd) outs p H Ho).
      + destruct dd; [discriminate|]. cbn. apply (IH n dd outs true H Ho).
      + destruct dd; [discriminate|]. cbn [never]. apply (IH (S n) (S dd) outs false H Ho).
      + cbn [never]. apply (IH (S n) dd outs false H Ho).
      + apply andb_true_iff in H. destruct H as [_ H]. apply (IH n dd outs p H Ho).
      + apply (IH n dd outs p H Ho).
  Qed.
End A.

Lemma cancel_at_mono : forall k i, cancel_at k i = true -> cancel_at k (S i) = true.
Proof.
  unfold cancel_at. intros k i H. apply andb_true_iff in H. destruct H as [A B]. rewrite B.
  apply Nat.leb_le in A. rewrite andb_true_r. apply Nat.leb_le. lia.
Qed.

Lemma partial_never_escapes_flag : forall w flag par sched,
  word_ok w false 0 = true -> (forall i, flag i = true -> flag (S i) = true) ->
  exec flag par sched w = exec never par sched w \/ exec flag par sched w = CancelledEmpty.
Proof. intros. unfold exec. eapply clean_run; eauto. Qed.

Lemma partial_never_escapes_k : forall w par sched k,
  word_ok w false 0 = true ->
  exists r0, exec never par sched w = Complete r0 /\ Forall (Forall (eq true)) r0 /\
    (exec (cancel_at k) par sched w = Complete r0 \/ exec (cancel_at k) par sched w = CancelledEmpty).
Proof.
  intros w par sched k H.
  destruct (never_run_complete par sched w 0 0 [] false H (Forall_nil _)) as [r0 [A B]].
  exists r0. unfold exec. split; [exact A|]. split; [exact B|].
  destruct (clean_run (cancel_at k) par sched (cancel_at_mono k) w 0 0 [] false H) as [C|C].
  - left. rewrite C. exact A.
  - right. exact C.
Qed.

(* the discipline is necessary: dropping the post-loop check lets a partial result out *)
Lemma missing_check_escapes :
  exec (cancel_at 2) false (fun _ j => j) [TLoop 3; TNeutral] = PartialEscaped /\
  exec (cancel_at 2) false (fun _ j => j) [TLoop 3; TUse; TAbortF] = Undefined /\
  word_ok [TLoop 3; TNeutral] false 0 = false /\ word_ok [TLoop 3; TUse; TAbortF] false 0 = false.
Proof. repeat split; vm_compute; reflexivity. Qed.

(* table level *)
Lemma sites_ok_spec : forall t, sites_ok t = true ->
  forall s, In s t -> (forall f, In f (s_followers s) -> f <> FUse) /\ (forall k, In k (s_terms s) -> k <> TEndTop) /\ s_terms s <> [].
Proof.
  intros t H s Hs. unfold sites_ok in H. rewrite forallb_forall in H. specialize (H s Hs).
  unfold site_ok in H. apply andb_true_iff in H. destruct H as [H C]. apply andb_true_iff in H. destruct H as [A B].
  rewrite forallb_forall in A, B. repeat split.
  - intros f Hf E. subst. specialize (A _ Hf). discriminate.
  - intros k Hk E. subst. specialize (B _ Hk). discriminate.
  - intro E. rewrite E in C. discriminate.
Qed.

(* automaton *)
Lemma accept_unseen : forall w, Forall (fun x => snd x = false) w -> accept w 0 = VComplete.
Proof. induction w as [|[k b] w IH]; intros H; [reflexivity|]. inversion H; subst. cbn in *. subst. cbn. auto. Qed.

Lemma accept_final_sticky : forall w, Forall (fun x => snd x = true) w -> accept w 2 = VFinal.
Proof.
  induction w as [|[k b] w IH]; intros H; [reflexivity|]. inversion H; subst. cbn in H2. subst. cbn.
  destruct k; auto.
Qed.

(* ================= Level B ================= *)
Lemma pstates_bound : forall l st, fst st + fold_right (fun e a => match e with PCredit v => v + a | _ => a end) 0 l <= snd st ->
  Forall (fun e => match e with PCredit _ => True | _ => False end) l ->
  Forall (fun s => fst s <= snd s) (pstates st l).
Proof.
  induction l as [|e l IH]; intros st H Hc; cbn.
  - constructor; [cbn in H; lia | constructor].
  - inversion Hc; subst. destruct e; try contradiction. cbn in H. constructor; [lia|].
    apply IH; [cbn; lia | assumption].
Qed.

Fixpoint mono_done (l : list (nat * nat)) : Prop :=
  match l with a :: ((b :: _) as l') => fst a <= fst b /\ mono_done l' | _ => True end.

Lemma pstates_mono : forall l st, Forall (fun e => match e with PCredit _ => True | _ => False end) l -> mono_done (pstates st l).
Proof.
  induction l as [|e l IH]; intros st Hc; cbn; [exact I|]. inversion Hc; subst. destruct e; try contradiction.
  specialize (IH (pstep st (PCredit v)) H2). destruct l; cbn in *; (split; [lia | exact IH]).
Qed.

Lemma credits_sum_repeat : forall n, fold_right (fun e a => match e with PCredit v => v + a | _ => a end) 0 (repeat (PCredit 1) n) = n.
Proof. induction n; cbn; auto. Qed.

(* numerators before denominators: every intermediate state of a reset keeps done <= total *)
Lemma reset_done_first_bound : forall d0 t0 total, d0 <= t0 ->
  Forall (fun s => fst s <= snd s) (pstates (d0, t0) (reset_events [RDone; RDone; RTotal; RTotal] total)).
Proof. intros. cbn. repeat constructor; cbn; lia. Qed.

Lemma reset_total_first_refuted :
  exists d0 t0 total, d0 <= t0 /\ ~ Forall (fun s => fst s <= snd s) (pstates (d0, t0) (reset_events [RTotal; RDone] total)).
Proof.
  exists 22, 22, 11. split; [lia|]. cbn. intro H. inversion H; subst. inversion H3; subst. cbn in H4. lia.
Qed.

(* reductions vs NumLeaves *)
Section Ind.
  Variable P : expr -> Prop.
  Hypothesis HL : P Leaf.
  Hypothesis HO : forall i ks, Forall P ks -> P (Op i ks).
  Fixpoint expr_ind' (e : expr) : P e :=
    match e with
    | Leaf => HL
    | Op i ks => HO i ks ((fix go (ks : list expr) : Forall P ks :=
                             match ks with [] => Forall_nil _ | k :: ks' => Forall_cons _ (expr_ind' k) (go ks') end) ks)
    end.
End Ind.

Definition ev_kids (col : nat -> bool) :=
  fix go (ks : list expr) (st : list nat) : nat * nat * list nat :=
    match ks with
    | [] => (0, 0, st)
    | k :: ks' => let '(p1, r1, s1) := ev col k st in
                  let '(p2, r2, s2) := go ks' s1 in (p1 + p2, r1 + r2, s2)
    end.
Definition leaves_kids := fix go (ks : list expr) : nat := match ks with [] => 0 | k :: ks' => num_leaves k + go ks' end.
Definition wf_kids := fix go (ks : list expr) : bool := match ks with [] => true | k :: ks' => wf k && go ks' end.
Definition iids_kids := fix go (ks : list expr) : list nat := match ks with [] => [] | k :: ks' => iids k ++ go ks' end.

Lemma ev_op : forall col i ks st, ev col (Op i ks) st =
  if mem i st then (1, 0, st) else
  let '(p, r, st') := ev_kids col ks st in if col i then (p, r, st') else (1, r + (p - 1), i :: st').
Proof. reflexivity. Qed.

(* general (DAG) bound: pushed + reductions <= NumLeaves, pushed >= 1 *)
Lemma ev_le : forall col e, wf e = true -> forall st p r st', ev col e st = (p, r, st') -> 1 <= p /\ p + r <= num_leaves e.
Proof.
  intros col e. induction e as [|i ks IH] using expr_ind'; intros Hwf st p r st' H.
  - cbn in H. inversion H; subst. cbn. lia.
  - rewrite ev_op in H. change (num_leaves (Op i ks)) with (leaves_kids ks).
    cbn in Hwf. apply andb_true_iff in Hwf. destruct Hwf as [Hne Hk]. change (wf_kids ks = true) in Hk.
    assert (K : forall st p r st', ev_kids col ks st = (p, r, st') -> p + r <= leaves_kids ks /\ List.length ks <= p).
    { clear H Hne. induction ks as [|k ks IHks]; intros st0 p0 r0 st0' E; cbn in E.
      - inversion E; subst. cbn. lia.
      - cbn in Hk. apply andb_true_iff in Hk. destruct Hk as [Hk1 Hk2]. inversion IH as [|? ? IHk IHrest]; subst.
        destruct (ev col k st0) as [[p1 r1] s1] eqn:E1. destruct (ev_kids col ks s1) as [[p2 r2] s2] eqn:E2.
        inversion E; subst. destruct (IHk Hk1 _ _ _ _ E1) as [A B]. destruct (IHks IHrest Hk2 _ _ _ _ E2) as [C D].
        cbn. lia. }
    assert (L1 : 1 <= leaves_kids ks).
    { destruct ks as [|k ks']; [cbn in Hne; discriminate|]. cbn in Hk. apply andb_true_iff in Hk. destruct Hk as [Hk1 _].
      inversion IH as [|? ? IHk IHrest]; subst. destruct (ev col k []) as [[p1 r1] s1] eqn:E1. destruct (IHk Hk1 _ _ _ _ E1). cbn. lia. }
    destruct (mem i st).
    + inversion H; subst. lia.
    + destruct (ev_kids col ks st) as [[p0 r0] s0] eqn:E. destruct (K _ _ _ _ E) as [A B].
      assert (1 <= List.length ks) by (destruct ks; [cbn in Hne; discriminate | cbn; lia]).
      destruct (col i); inversion H; subst; lia.
Qed.

Lemma nodup_app_parts : forall (l1 l2 : list nat), NoDup (l1 ++ l2) ->
  NoDup l1 /\ NoDup l2 /\ (forall x, In x l1 -> In x l2 -> False).
Proof.
  induction l1 as [|a l1 IH]; intros l2 H; cbn in *.
  - repeat split; [constructor | exact H | intros x []].
  - inversion H as [|? ? Hni Hnd]; subst. destruct (IH _ Hnd) as [A [B C]]. repeat split.
    + constructor; [intro X; apply Hni; apply in_or_app; auto | exact A].
    + exact B.
    + intros x [X|X] Y; [subst; apply Hni; apply in_or_app; auto | eapply C; eauto].
Qed.

(* trees: every children vector occurs once and none was reduced before: equality *)
Lemma ev_tree : forall col e, wf e = true -> forall st p r st', ev col e st = (p, r, st') ->
  NoDup (iids e) -> (forall i, In i (iids e) -> mem i st = false) ->
  p + r = num_leaves e /\ (forall j, mem j st' = true -> mem j st = true \/ In j (iids e)).
Proof.
  intros col e. induction e as [|i ks IH] using expr_ind'; intros Hwf st p r st' H Hnd Hfresh.
  - cbn in H. inversion H; subst. cbn. split; [lia | auto].
  - rewrite ev_op in H. change (num_leaves (Op i ks)) with (leaves_kids ks).
    change (iids (Op i ks)) with (i :: iids_kids ks) in *.
    cbn in Hwf. apply andb_true_iff in Hwf. destruct Hwf as [Hne Hk]. change (wf_kids ks = true) in Hk.
    rewrite (Hfresh i (or_introl eq_refl)) in H.
    inversion Hnd as [|? ? Hni Hnd']; subst.
    assert (K : forall st p r st', ev_kids col ks st = (p, r, st') -> NoDup (iids_kids ks) ->
                (forall j, In j (iids_kids ks) -> mem j st = false) ->
                p + r = leaves_kids ks /\ List.length ks <= p /\ (forall j, mem j st' = true -> mem j st = true \/ In j (iids_kids ks))).
    { clear H Hne Hnd Hni Hnd' Hfresh. induction ks as [|k ks IHks]; intros st0 p0 r0 st0' E Hn Hf; cbn in E.
      - inversion E; subst. cbn. repeat split; auto.
      - cbn in Hk. apply andb_true_iff in Hk. destruct Hk as [Hk1 Hk2]. inversion IH as [|? ? IHk IHrest]; subst.
        cbn in Hn. destruct (ev col k st0) as [[p1 r1] s1] eqn:E1. destruct (ev_kids col ks s1) as [[p2 r2] s2] eqn:E2.
        inversion E; subst.
        destruct (nodup_app_parts _ _ Hn) as [Hn1 [Hn2 Hdisj]].
        assert (Hf1 : forall j, In j (iids k) -> mem j st0 = false) by (intros; apply Hf; cbn; apply in_or_app; auto).
        destruct (IHk Hk1 _ _ _ _ E1 Hn1 Hf1) as [A S1].
        assert (Hf2 : forall j, In j (iids_kids ks) -> mem j s1 = false).
        { intros j Hj. destruct (mem j s1) eqn:M; [|reflexivity]. destruct (S1 j M) as [X|X].
          - rewrite Hf in X; [discriminate | cbn; apply in_or_app; auto].
          - exfalso. eapply Hdisj; eauto. }
        destruct (IHks IHrest Hk2 _ _ _ _ E2 Hn2 Hf2) as [C [D S2]].
        destruct (ev_le col k Hk1 _ _ _ _ E1) as [P1 _].
        cbn. repeat split; [lia | lia |].
        intros j Hj. destruct (S2 j Hj) as [X|X].
        * destruct (S1 j X) as [Y|Y]; [left; auto | right; apply in_or_app; auto].
        * right. apply in_or_app. auto. }
    destruct (ev_kids col ks st) as [[p0 r0] s0] eqn:E.
    assert (Hf' : forall j, In j (iids_kids ks) -> mem j st = false) by (intros; apply Hfresh; right; auto).
    destruct (K _ _ _ _ E Hnd' Hf') as [A [B S]].
    assert (1 <= List.length ks) by (destruct ks; [cbn in Hne; discriminate | cbn; lia]).
    destruct (col i); inversion H; subst.
    + split; [lia|]. intros j Hj. destruct (S j Hj); [left | right; right]; auto.
    + split; [lia|]. intros j Hj. cbn in Hj. apply orb_true_iff in Hj. destruct Hj as [Hj|Hj].
      * apply Nat.eqb_eq in Hj. subst. right. left. reflexivity.
      * destruct (S j Hj); [left | right; right]; auto.
Qed.

Lemma reductions_le : forall col e, wf e = true -> reductions col e <= total_booleans e.
Proof.
  intros col e H. unfold reductions, total_booleans. destruct (ev col e []) as [[p r] s] eqn:E. cbn.
  destruct (ev_le col e H _ _ _ _ E). lia.
Qed.

(* the root is never collapsed (it has no parent to push into) *)
Lemma reductions_tree : forall col i ks, wf (Op i ks) = true -> NoDup (iids (Op i ks)) -> col i = false ->
  reductions col (Op i ks) = total_booleans (Op i ks).
Proof.
  intros col i ks H Hnd Hc. unfold reductions, total_booleans. destruct (ev col (Op i ks) []) as [[p r] s] eqn:E. cbn [fst snd].
  destruct (ev_tree col _ H _ _ _ _ E Hnd (fun _ _ => eq_refl)) as [A _].
  rewrite ev_op in E. cbn [mem existsb] in E. destruct (ev_kids col ks []) as [[p0 r0] s0]. rewrite Hc in E.
  assert (p = 1) by (inversion E; reflexivity). subst p. remember (num_leaves (Op i ks)) as L. lia.
Qed.

(* F1: x = a + b shared under two parents with distinct transforms *)
Definition f1_expr : expr := Op 1 [Op 0 [Leaf; Leaf]; Op 0 [Leaf; Leaf]].
Lemma f1_counts : wf f1_expr = true /\ total_booleans f1_expr = 3 /\ reductions (fun _ => false) f1_expr = 2.
Proof. repeat split; vm_compute; reflexivity. Qed.

(* poisoning *)
Lemma poison_sticky : forall stack cache i, In i stack -> cache i = None -> to_leaf_cached (poison stack cache) i = Some CCancelled.
Proof.
  intros stack cache i Hi Hc. unfold to_leaf_cached, poison.
  assert (M : mem i stack = true) by (unfold mem; apply existsb_exists; exists i; split; [auto | apply Nat.eqb_refl]).
  rewrite M, Hc. reflexivity.
Qed.
Lemma poison_keeps_done : forall stack cache i c, cache i = Some c -> poison stack cache i = Some c.
Proof. intros. unfold poison. destruct (mem i stack); rewrite H; reflexivity. Qed.

(* ---- progress of one evaluation: reset (numerators first) then K credits per reduction ---- *)
Definition order_pinned : list rstep := [RDone; RDone; RTotal; RTotal].

Lemma fold_credits : forall n d t, fold_left pstep (repeat (PCredit 1) n) (d, t) = (d + n, t).
Proof. induction n; intros d t; cbn; [f_equal; lia|]. rewrite IHn. f_equal. lia. Qed.

Lemma repeat_credit_all : forall n, Forall (fun e => match e with PCredit _ => True | _ => False end) (repeat (PCredit 1) n).
Proof. induction n; cbn; constructor; auto. Qed.

Lemma progress_bounds_lemma : forall K col e d0 t0, wf e = true -> d0 <= t0 ->
  Forall (fun s => fst s <= snd s) (pstates (d0, t0) (eval_events K order_pinned col e)) /\
  mono_done (pstates (0, K * total_booleans e) (repeat (PCredit 1) (K * reductions col e))).
Proof.
  intros K col e d0 t0 Hwf Hle. split.
  - unfold eval_events, order_pinned. cbn [reset_events map app pstates pstep fst snd].
    repeat (constructor; [cbn; lia|]).
    apply pstates_bound; [|apply repeat_credit_all].
    rewrite credits_sum_repeat. cbn [fst snd]. apply Nat.mul_le_mono_l. apply reductions_le. exact Hwf.
  - apply pstates_mono. apply repeat_credit_all.
Qed.

Lemma progress_complete_tree : forall K col i ks d0 t0, wf (Op i ks) = true -> NoDup (iids (Op i ks)) -> col i = false ->
  fold_left pstep (eval_events K order_pinned col (Op i ks)) (d0, t0) =
  (K * total_booleans (Op i ks), K * total_booleans (Op i ks)).
Proof.
  intros K col i ks d0 t0 Hwf Hnd Hc. unfold eval_events. rewrite fold_left_app.
  unfold order_pinned. cbn [reset_events map fold_left pstep fst snd].
  rewrite fold_credits. rewrite (reductions_tree col i ks Hwf Hnd Hc). reflexivity.
Qed.

Lemma progress_dag_refuted : exists e col, wf e = true /\
  fold_left pstep (eval_events 11 order_pinned col e) (0, 0) = (22, 33).
Proof. exists f1_expr, (fun _ => false). split; vm_compute; reflexivity. Qed.

(* ---- variant with the completion top-up in GetCsgLeafNode (fix of F1): after an uncancelled
   ToLeafNode, donePhases := totalPhases ---- *)
Definition eval_events_topup (K : nat) (col : nat -> bool) (e : expr) : list pev :=
  eval_events K order_pinned col e ++ [PCredit (K * total_booleans e - K * reductions col e)].

Lemma progress_complete_topup_lemma : forall K col e d0 t0, wf e = true ->
  fold_left pstep (eval_events_topup K col e) (d0, t0) = (K * total_booleans e, K * total_booleans e).
Proof.
  intros K col e d0 t0 Hwf.
  unfold eval_events_topup, eval_events. rewrite !fold_left_app.
  unfold order_pinned. cbn [reset_events map fold_left pstep fst snd]. rewrite fold_credits. cbn [fold_left pstep fst snd].
  pose proof (Nat.mul_le_mono_l _ _ K (reductions_le col e Hwf)). f_equal. lia.
Qed.

Lemma credits_sum_app : forall l1 l2,
  fold_right (fun e a => match e with PCredit v => v + a | _ => a end) 0 (l1 ++ l2) =
  fold_right (fun e a => match e with PCredit v => v + a | _ => a end) 0 l1 +
  fold_right (fun e a => match e with PCredit v => v + a | _ => a end) 0 l2.
Proof. induction l1 as [|e l1 IH]; intros l2; cbn; [reflexivity|]. rewrite IH. destruct e; lia. Qed.

(* bounds and monotonicity with the completion top-up (current code) *)
Lemma progress_bounds_topup_lemma : forall K col e d0 t0, wf e = true -> d0 <= t0 ->
  Forall (fun s => fst s <= snd s) (pstates (d0, t0) (eval_events_topup K col e)) /\
  mono_done (pstates (0, K * total_booleans e)
               (repeat (PCredit 1) (K * reductions col e) ++ [PCredit (K * total_booleans e - K * reductions col e)])).
Proof.
  intros K col e d0 t0 Hwf Hle.
  assert (Hall : Forall (fun e => match e with PCredit _ => True | _ => False end)
                   (repeat (PCredit 1) (K * reductions col e) ++ [PCredit (K * total_booleans e - K * reductions col e)])).
  { apply Forall_app. split; [apply repeat_credit_all | repeat constructor]. }
  split.
  - unfold eval_events_topup, eval_events, order_pinned. rewrite <- app_assoc.
    cbn [reset_events map app pstates pstep fst snd].
    repeat (constructor; [cbn; lia|]).
    apply pstates_bound; [|exact Hall].
    rewrite credits_sum_app, credits_sum_repeat. cbn [fst snd fold_right].
    pose proof (Nat.mul_le_mono_l _ _ K (reductions_le col e Hwf)). lia.
  - apply pstates_mono. exact Hall.
Qed.

(* ---- cancel branch of ToLeafNode ---- *)
Lemma cancel_preserves_evaluated_lemma : forall stack root cache i v,
  cache root = None -> cache i = Some v -> cancel_branch true stack root cache i = Some v.
Proof.
  intros stack root cache i v Hr Hi. unfold cancel_branch.
  destruct (Nat.eqb i root) eqn:E; [apply Nat.eqb_eq in E; subst; congruence|].
  destruct (mem i stack); rewrite Hi; reflexivity.
Qed.

Lemma cancel_poisons_unevaluated_lemma : forall g stack root cache i,
  (i = root \/ In i stack) -> cache i = None -> cancel_branch g stack root cache i = Some VCancelled.
Proof.
  intros g stack root cache i H Hi. unfold cancel_branch.
  destruct (Nat.eqb i root) eqn:E; [reflexivity|].
  destruct H as [H|H]; [subst; rewrite Nat.eqb_refl in E; discriminate|].
  assert (M : mem i stack = true) by (unfold mem; apply existsb_exists; exists i; split; [auto | apply Nat.eqb_refl]).
  rewrite M, Hi. destruct g; reflexivity.
Qed.

Lemma cancel_unguarded_overwrites_lemma :
  exists stack root cache i r, cache root = None /\ cache i = Some (VRes r) /\
    cancel_branch false stack root cache i = Some VCancelled.
Proof. exists [0; 1], 0, (fun i => if Nat.eqb i 1 then Some (VRes 7) else None), 1, 7. repeat split. Qed.
