(* C06 — lockset protocol model (definitions only, no proofs).

   Threads execute lists of events; an execution is an interleaving in which
   every acquire respects mutual exclusion.  Locks and memory locations are
   pairs (object id, field id) so that the class-level lock table generated
   from the C++ sources (coq/Gen/LockTable.v) can be instantiated on any
   number of objects.

   What the model does NOT contain: weak-memory effects (executions are
   sequentially consistent interleavings; happens-before is defined on them),
   the internals of std::mutex / shared_ptr control blocks / TBB / the
   allocator.  *)
From Coq Require Import List Arith Bool PeanoNat String.
Import ListNotations.

Definition tid := nat.
Definition lock := (nat * nat)%type.   (* (object, mutex field)  *)
Definition loc := (nat * nat)%type.    (* (object, data field)   *)

Definition pair_eqb (a b : nat * nat) : bool :=
  (fst a =? fst b) && (snd a =? snd b).

Inductive event :=
| Acq (l : lock)                (* lock_guard / GetGuard: blocking acquire        *)
| AcqMulti (ls : list lock)     (* std::scoped_lock(a,b,..): deadlock-free all-or-nothing acquire *)
| Rel (l : lock)                (* end of the guard's scope                       *)
| Rd (x : loc) | Wr (x : loc)   (* plain (non-atomic) read / write                *)
| ARd (x : loc) | AWr (x : loc) | ARMW (x : loc).   (* atomic load / store / read-modify-write *)

Definition acquires (e : event) : list lock :=
  match e with Acq l => [l] | AcqMulti ls => ls | _ => [] end.

(* ---- lock counts of one thread (recursive mutexes count re-entries) ---- *)
Definition lstate := lock -> nat.
Definition bump (h : lstate) (l : lock) (f : nat -> nat) : lstate :=
  fun l' => if pair_eqb l' l then f (h l') else h l'.
Definition step1 (h : lstate) (e : event) : lstate :=
  match e with
  | Rel l => bump h l pred
  | _ => fold_left (fun h l => bump h l S) (acquires e) h
  end.
Definition held1 (p : list event) : lstate := fold_left step1 p (fun _ => 0).

(* ---- traces ---- *)
Definition trace := list (tid * event).
Definition proj (t : tid) (tr : trace) : list event :=
  map snd (filter (fun te => fst te =? t) tr).
(* number of times thread t holds lock l after the trace tr *)
Definition held (tr : trace) (t : tid) : lstate := held1 (proj t tr).

(* ---- when may thread t (of n threads) perform e after trace tr ---- *)
Definition free_forb (n : nat) (recursive : lock -> bool) (tr : trace) (t : tid) (l : lock) : bool :=
  forallb (fun t' => (t' =? t) || (held tr t' l =? 0)) (seq 0 n)
  && (recursive l || (held tr t l =? 0)).   (* re-locking a plain mutex one owns never succeeds *)

Fixpoint nodupb (ls : list lock) : bool :=
  match ls with
  | [] => true
  | l :: r => negb (existsb (pair_eqb l) r) && nodupb r
  end.

Definition enabledb (n : nat) (recursive : lock -> bool) (tr : trace) (t : tid) (e : event) : bool :=
  match e with
  | Acq l => free_forb n recursive tr t l
  | AcqMulti ls => nodupb ls && forallb (free_forb n recursive tr t) ls
  | Rel l => negb (held tr t l =? 0)          (* unlocking a mutex one does not own is UB: no step *)
  | _ => true
  end.

(* Interleaving semantics.  progs t is the whole program of thread t < n; its
   next event is determined by how many of its events are already in tr. *)
Inductive exec (n : nat) (recursive : lock -> bool) (progs : tid -> list event) : trace -> Prop :=
| exec_nil : exec n recursive progs []
| exec_step : forall tr t e rest,
    exec n recursive progs tr ->
    t < n ->
    progs t = proj t tr ++ e :: rest ->
    enabledb n recursive tr t e = true ->
    exec n recursive progs (tr ++ [(t, e)]).

(* ---- data races (C++ [intro.races], on SC interleavings) ---- *)
Definition access_loc (e : event) : option loc :=
  match e with Rd x | Wr x | ARd x | AWr x | ARMW x => Some x | _ => None end.
Definition is_write (e : event) : bool :=
  match e with Wr _ | AWr _ | ARMW _ => true | _ => false end.
Definition is_atomic (e : event) : bool :=
  match e with ARd _ | AWr _ | ARMW _ => true | _ => false end.
(* two accesses conflict: same location, at least one writes, not both atomic *)
Definition conflict (e1 e2 : event) (x : loc) : Prop :=
  access_loc e1 = Some x /\ access_loc e2 = Some x /\
  (is_write e1 || is_write e2 = true) /\ (is_atomic e1 && is_atomic e2 = false).

(* happens-before on positions of a trace: program order, and every release of
   a lock synchronises with every later acquire of the same lock; closed under
   transitivity.  (Atomic operations deliberately add NO edge: fewer edges make
   "no data race" a stronger claim.) *)
Inductive hb (tr : trace) : nat -> nat -> Prop :=
| hb_po : forall i j t e1 e2, i < j ->
    nth_error tr i = Some (t, e1) -> nth_error tr j = Some (t, e2) -> hb tr i j
| hb_sw : forall i j t1 t2 l e2, i < j ->
    nth_error tr i = Some (t1, Rel l) -> nth_error tr j = Some (t2, e2) ->
    In l (acquires e2) -> hb tr i j
| hb_trans : forall i j k, hb tr i j -> hb tr j k -> hb tr i k.

Definition data_race (tr : trace) : Prop :=
  exists i j t1 t2 e1 e2 x,
    i < j /\ nth_error tr i = Some (t1, e1) /\ nth_error tr j = Some (t2, e2) /\
    t1 <> t2 /\ conflict e1 e2 x /\ ~ hb tr i j.

(* ---- the locking discipline (hypotheses of the theorems) ---- *)
(* protects x: the (fixed) set of locks guarding x; [] means "atomic-only".
   A plain read holds at least one of them, a plain write holds all of them
   (with a singleton set this is the usual single-guard discipline). *)
Definition access_ok (protects : loc -> list lock) (h : lstate) (e : event) : Prop :=
  match e with
  | Rd x => exists l, In l (protects x) /\ h l > 0
  | Wr x => protects x <> [] /\ forall l, In l (protects x) -> h l > 0
  | ARd x | AWr x | ARMW x => protects x = []
  | _ => True
  end.
Definition disciplined (protects : loc -> list lock) (p : list event) : Prop :=
  forall pre e post, p = pre ++ e :: post -> access_ok protects (held1 pre) e.

(* nested acquisitions climb a rank (a strict order on locks); re-entering a
   recursive mutex one already holds is allowed when nothing of higher rank is
   held; scoped_lock may be used when everything held ranks below all of its
   arguments; every unlock matches a lock; a finished thread holds nothing. *)
Definition acq_ok (rank : lock -> nat) (recursive : lock -> bool) (h : lstate) (e : event) : Prop :=
  match e with
  | Acq l => forall l', h l' > 0 -> rank l' < rank l \/ (l' = l /\ recursive l = true)
  | AcqMulti ls => nodupb ls = true /\ forall l l', In l ls -> h l' > 0 -> rank l' < rank l
  | Rel l => h l > 0
  | _ => True
  end.
Definition ordered (rank : lock -> nat) (recursive : lock -> bool) (p : list event) : Prop :=
  (forall pre e post, p = pre ++ e :: post -> acq_ok rank recursive (held1 pre) e) /\
  (forall l, held1 p l = 0).

Definition unfinished (progs : tid -> list event) (tr : trace) (t : tid) : Prop :=
  exists e rest, progs t = proj t tr ++ e :: rest.
(* every thread that still has something to do cannot take its next step *)
Definition deadlocked (n : nat) (recursive : lock -> bool) (progs : tid -> list event) (tr : trace) : Prop :=
  (exists t, t < n /\ unfinished progs tr t) /\
  (forall t e rest, t < n -> progs t = proj t tr ++ e :: rest -> enabledb n recursive tr t e = false).

(* ---- boolean checker for one event list ---- *)
Fixpoint countl (l : lock) (hl : list lock) : nat :=
  match hl with [] => 0 | a :: r => (if pair_eqb l a then 1 else 0) + countl l r end.
Fixpoint remove1 (l : lock) (hl : list lock) : list lock :=
  match hl with [] => [] | a :: r => if pair_eqb a l then r else a :: remove1 l r end.
Definition heldb (l : lock) (hl : list lock) : bool := existsb (pair_eqb l) hl.

Definition ev_okb (protects : loc -> list lock) (rank : lock -> nat) (recursive : lock -> bool)
           (hl : list lock) (e : event) : bool :=
  match e with
  | Rd x => existsb (fun l => heldb l hl) (protects x)
  | Wr x => negb (match protects x with [] => true | _ => false end) && forallb (fun l => heldb l hl) (protects x)
  | ARd x | AWr x | ARMW x => match protects x with [] => true | _ => false end
  | Acq l => forallb (fun l' => (rank l' <? rank l) || (pair_eqb l' l && recursive l)) hl
  | AcqMulti ls => nodupb ls && forallb (fun l => forallb (fun l' => rank l' <? rank l) hl) ls
  | Rel l => heldb l hl
  end.
Definition next_hl (hl : list lock) (e : event) : list lock :=
  match e with
  | Acq l => l :: hl
  | AcqMulti ls => ls ++ hl
  | Rel l => remove1 l hl
  | _ => hl
  end.
Fixpoint check_prog (protects : loc -> list lock) (rank : lock -> nat) (recursive : lock -> bool)
         (hl : list lock) (p : list event) : bool :=
  match p with
  | [] => match hl with [] => true | _ => false end
  | e :: p' => ev_okb protects rank recursive hl e
               && check_prog protects rank recursive (next_hl hl e) p'
  end.

(* ---- class-level lock table (what translate/c06_locks.py regenerates) ---- *)
(* In a table, the object component of a lock/location is a *reference
   variable* of the method (0 = this, 1 = other, ...); fields and mutexes are
   numbered per class by the translator.  guards f = the mutex fields (of the
   same object) that guard data field f; rank/recursive depend on the mutex
   field only. *)
Record table := {
  t_guards : list (nat * list nat);      (* data field -> guarding mutex fields; absent = atomic-only *)
  t_rank : list (nat * nat);             (* mutex field -> rank *)
  t_recursive : list nat;                (* recursive mutex fields *)
  t_methods : list (string * list event)
}.
Fixpoint lookup {A} (d : A) (k : nat) (m : list (nat * A)) : A :=
  match m with [] => d | (k', v) :: r => if k =? k' then v else lookup d k r end.
Definition protects_of (tb : table) (x : loc) : list lock :=
  map (fun m => (fst x, m)) (lookup [] (snd x) (t_guards tb)).
Definition rank_of (tb : table) (l : lock) : nat := lookup 0 (snd l) (t_rank tb).
Definition recursive_of (tb : table) (l : lock) : bool := existsb (Nat.eqb (snd l)) (t_recursive tb).

Definition lockset_ok (tb : table) : bool :=
  forallb (fun m => check_prog (protects_of tb) (rank_of tb) (recursive_of tb) [] (snd m)) (t_methods tb).

(* instantiate the reference variables of a method body with objects *)
Definition inst_pair (rho : nat -> nat) (a : nat * nat) : nat * nat := (rho (fst a), snd a).
Definition inst (rho : nat -> nat) (e : event) : event :=
  match e with
  | Acq l => Acq (inst_pair rho l)
  | AcqMulti ls => AcqMulti (map (inst_pair rho) ls)
  | Rel l => Rel (inst_pair rho l)
  | Rd x => Rd (inst_pair rho x) | Wr x => Wr (inst_pair rho x)
  | ARd x => ARd (inst_pair rho x) | AWr x => AWr (inst_pair rho x) | ARMW x => ARMW (inst_pair rho x)
  end.
Definition injective (rho : nat -> nat) : Prop := forall a b, rho a = rho b -> a = b.

(* a client thread: any sequence of calls of table methods, each on objects of
   its choice (distinct reference variables of ONE call denote distinct
   objects; different calls may reuse objects freely) *)
Inductive from_table (tb : table) : list event -> Prop :=
| ft_nil : from_table tb []
| ft_call : forall name body rho p,
    In (name, body) (t_methods tb) -> injective rho -> from_table tb p ->
    from_table tb (map (inst rho) body ++ p).
