(* C05 - concrete tables and histories for the copy-on-write model:
   a disciplined table (every history keeps old observations) and an
   undisciplined one (a write with no MakeUnique after an Impl copy) on which
   an old object's observation really changes. *)
From Coq Require Import ZArith List Bool Arith.
From MV Require Import Proto.CowDefs Proto.CowModel.
Import ListNotations.
Local Open Scope Z_scope.

(* 0: constructor (entry, no object parameter): Impl x; x.halfedge_ = Halfedges(data); x.vertPos_ = ...
   1: Impl method (this): halfedge_.MakeUnique(); loop { write start_, propVert_ }
   2: operation (entry, one borrowed Impl): Impl p; p = *old (copy ASSIGNMENT: shares); p.method1(); p.vertPos_ = ...
   4: public method (entry): p = make_shared<Impl>( *old ) (copy CONSTRUCTOR: deep copy); write without MakeUnique is fine
   3: Impl::Transform-like const method (entry): Impl r; r.halfedge_ = this->halfedge_; if (mirror) { r.MakeUnique; write } *)
Definition good_tbl : list fn :=
  [ mkFn 0 true  [ENewFresh; EAssignFresh 0; EWritePlain 0];
    mkFn 1 false [EMakeUnique 0; EBlock [EWrite 0 0; EWrite 0 2]];
    mkFn 1 true  [ENewFresh; EAssignShare 1 0; ECall 1 [1]; EWritePlain 1];
    mkFn 1 true  [ENewFresh; EAssignShare 1 0; EBlock [EMakeUnique 1; EWrite 1 0; EWrite 1 1; EWrite 1 2]];
    mkFn 1 true  [ENewCopy 0; EWrite 1 1] ]%nat.

(* same, but method 1 lost its MakeUnique *)
Definition bad_tbl : list fn :=
  [ mkFn 0 true  [ENewFresh; EAssignFresh 0; EWritePlain 0];
    mkFn 1 false [EBlock [EWrite 0 0; EWrite 0 2]];
    mkFn 1 true  [ENewFresh; EAssignShare 1 0; ECall 1 [1]; EWritePlain 1] ]%nat.

Definition hist1 : list hop :=
  [ HRun 0 [] [[1;2;3]; [10;20]];              (* a = new object            -> handle 0 *)
    HCopy 0;                                     (* b = a                     -> handle 1 *)
    HRun 2 [1%nat] [[0;0]; [7;7;7]; [8;8;8]; [7]; [8]; [30]];  (* c = b.method()  -> handle 2 *)
    HLazy 0 (-5);                                (* d = a.Mirror/Translate    -> handle 3 *)
    HForce 3;
    HRun 3 [2%nat] [[0]; [4]; [5]; [6]];         (* e = transform-like of c   -> handle 4 *)
    HRun 4 [0%nat] [[42]];                       (* f = deep copy of a, written in place -> handle 5 *)
    HDrop 1 ].

Lemma good_tbl_ok : discipline_ok good_tbl = true.
Proof. vm_compute. reflexivity. Qed.

(* the history runs, the derived object c differs from a, and a, b still
   observe what they observed at creation; d is a's mirror image *)
Lemma hist1_runs :
  exists hs, hrun good_tbl h0 hist1 = Some hs /\
    obs_handle hs 0 = Some ([[1;2;3]; [1;2;3]; [1;2;3]], [10;20]) /\
    obs_handle hs 2 = Some ([[7]; [1;2;3]; [8]], [30]) /\
    obs_handle hs 3 = Some ([[3;2;1]; [3;2;1]; [3;2;1]], [5;15]) /\
    obs_handle hs 4 = Some ([[4]; [5]; [6]], []) /\
    obs_handle hs 5 = Some ([[1;2;3]; [42]; [1;2;3]], [10;20]) /\
    obs_handle hs 1 = None.
Proof. eexists. vm_compute. repeat split. Qed.

Lemma bad_tbl_rejected : discipline_ok bad_tbl = false.
Proof. vm_compute. reflexivity. Qed.

(* without the discipline: b shares a's buffers by assignment; b.method() overwrites a's halfedge storage *)
Lemma bad_tbl_changes_old_object :
  exists ops hs op hs' h v,
    hrun bad_tbl h0 ops = Some hs /\ hstep bad_tbl hs op = Some hs' /\
    obs_handle hs h = Some v /\ op <> HDrop h /\ obs_handle hs' h <> Some v.
Proof.
  exists [HRun 0%nat [] [[1;2;3]; [10;20]]].
  eexists. exists (HRun 2%nat [0%nat] [[0]; [7;7;7]; [8]; [30]]). eexists. exists 0%nat. eexists.
  split; [vm_compute; reflexivity|]. split; [vm_compute; reflexivity|].
  split; [vm_compute; reflexivity|]. split; [discriminate|]. vm_compute. discriminate.
Qed.
