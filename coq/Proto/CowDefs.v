(* C05 - copy-on-write storage as src/vec.h / src/shared.h / src/impl.h do it.
   Model only (no proofs).

   * a buffer is a heap cell (id -> contents); SharedVec<int> handles refer to
     buffers by id.  The atomic use count of a buffer is the number of live
     Vec handles that refer to it (Vec copy = fetch_add, dealloc = fetch_sub);
     the model computes it from the store (`shared`) instead of storing it.
   * an Impl has NB = 3 shared buffers (Halfedges::start_/paired_/propVert_)
     and plain, deeply copied vectors (`plain`).
   * SharedVec's copy CONSTRUCTOR makes a deep copy (vec.h: `*this = Vec(vec.view())`:
     a fresh buffer, then move); only copy ASSIGNMENT shares the buffer and
     bumps the count.  So `make_shared<Impl>( *old )` / `Impl b = a` own fresh
     buffers, while `a.halfedge_ = b.halfedge_` (Impl::Transform) and Impl
     copy assignment share.  MakeUnique clones a buffer iff its count is > 1; a WRITE goes to the buffer WITHOUT looking at the count
     (VecView::operator[] has no check; AssertUnique in resize/push_back/...
     is compiled out unless MANIFOLD_DEBUG).
   * functions of the library are event trees over frame-local Impl objects
     (object 0..nparams-1 are the Impl parameters, `this` first); the table of
     functions is generated from /repo by translate/c05_cow.py.
   * handles: Manifold -> CsgLeafNode -> shared_ptr<const Impl> plus a pending
     transform; forcing replaces the pointer by a transformed Impl.           *)
From Coq Require Import ZArith List Bool Arith.
Import ListNotations.

Definition NB : nat := 3.
Definition data := list Z.

Record impl := mkImpl { bufs : nat -> nat; plain : data }.
Record mstate := mkSt { heap : nat -> data; nextb : nat; impls : list impl }.

Definition dimpl : impl := mkImpl (fun _ => 0) [].
Definition getI (st : mstate) (i : nat) : impl := nth i (impls st) dimpl.

Definition upd {A} (f : nat -> A) (x : nat) (v : A) : nat -> A :=
  fun y => if y =? x then v else f y.

Fixpoint set_nth {A} (l : list A) (n : nat) (v : A) : list A :=
  match l, n with
  | [], _ => []
  | _ :: t, O => v :: t
  | h :: t, S n' => h :: set_nth t n' v
  end.

(* count_ > 1 for buffer k of Impl i: some other Vec handle refers to it *)
Definition shared (st : mstate) (i k : nat) : bool :=
  existsb (fun j => existsb (fun k' =>
      negb ((j =? i) && (k' =? k)) && (bufs (getI st j) k' =? bufs (getI st i) k))
    (seq 0 NB)) (seq 0 (length (impls st))).

Definition set_impl (st : mstate) (i : nat) (im : impl) : mstate :=
  mkSt (heap st) (nextb st) (set_nth (impls st) i im).

(* SharedVec::MakeUnique: if (count_ > 1) *this = Vec(view())  -- a fresh copy *)
Definition make_unique_k (st : mstate) (i k : nat) : mstate :=
  if shared st i k then
    let im := getI st i in
    mkSt (upd (heap st) (nextb st) (heap st (bufs im k))) (S (nextb st))
         (set_nth (impls st) i (mkImpl (upd (bufs im) k (nextb st)) (plain im)))
  else st.

(* Halfedges::MakeUnique: start_, paired_, propVert_ in turn *)
Definition make_unique (st : mstate) (i : nat) : mstate :=
  make_unique_k (make_unique_k (make_unique_k st i 0) i 1) i 2.

(* NB brand-new buffers holding d *)
Definition alloc (st : mstate) (d : data) : mstate :=
  mkSt (fun b => if (nextb st <=? b) && (b <? nextb st + NB) then d else heap st b)
       (nextb st + NB) (impls st).
Definition fresh_bufs (st : mstate) : nat -> nat := fun k => nextb st + k.

(* Impl x;  /  make_shared<Impl>(mesh) *)
Definition new_fresh (st : mstate) : mstate :=
  let st1 := alloc st [] in
  mkSt (heap st1) (nextb st1) (impls st ++ [mkImpl (fresh_bufs st) []]).
(* make_shared<Impl>( *old ) / Impl b = a : implicit copy constructor.  The
   SharedVec copy constructor deep-copies: NB new buffers with the same contents. *)
Definition new_copy (st : mstate) (i : nat) : mstate :=
  let im := getI st i in
  let n := nextb st in
  mkSt (fun b => if (n <=? b) && (b <? n + NB) then heap st (bufs im (b - n)) else heap st b)
       (n + NB) (impls st ++ [mkImpl (fresh_bufs st) (plain im)]).
(* halfedge_.SetStart(..) / start_[i] = .. / resize / push_back : no count check *)
Definition write_buf (st : mstate) (i k : nat) (d : data) : mstate :=
  mkSt (upd (heap st) (bufs (getI st i) k) d) (nextb st) (impls st).
Definition write_plain (st : mstate) (i : nat) (d : data) : mstate :=
  set_impl st i (mkImpl (bufs (getI st i)) d).
(* halfedge_ = Halfedges(...) : new buffers *)
Definition assign_fresh (st : mstate) (i : nat) (d : data) : mstate :=
  set_impl (alloc st d) i (mkImpl (fresh_bufs st) (plain (getI st i))).
(* a.halfedge_ = b.halfedge_ : shares *)
Definition assign_share (st : mstate) (i j : nat) : mstate :=
  set_impl st i (mkImpl (bufs (getI st j)) (plain (getI st i))).

(* ------------------------------------------------------------------ events *)
Inductive ev :=
| ENewFresh                       (* new local Impl, own buffers *)
| ENewCopy (src : nat)            (* new local Impl copy-constructed from object src: deep copy, own buffers *)
| EMakeUnique (o : nat)           (* o.halfedge_.MakeUnique() *)
| EWrite (o k : nat)              (* write into buffer k of o *)
| EWritePlain (o : nat)           (* write into a deep-copied vector of o *)
| EAssignFresh (o : nat)          (* o.halfedge_ = Halfedges(..) *)
| EAssignShare (o src : nat)      (* o.halfedge_ = src.halfedge_ *)
| EMoveOut (o : nat)              (* std::move(o.halfedge_) : o left with empty storage *)
| ECall (f : nat) (args : list nat)  (* call of table function f, objects passed by reference *)
| EBlock (body : list ev).        (* { ... } executed 0..n times (if / loop / lambda body) *)

Record fn := mkFn { fn_nparams : nat; fn_entry : bool; fn_body : list ev }.

(* ------------------------------------------------- executable semantics
   frame: object index -> Impl id.  Oracle `ch`: one element is consumed by
   each write (the data written), fresh assignment, and block (its length is
   the number of iterations).  When the oracle is exhausted at such a point the
   function returns early (halt = true): every prefix of a run is a run.     *)
Definition xres := (list nat * mstate * list data * bool)%type.

Fixpoint iter_block (run : mstate -> list data -> option xres) (fr : list nat)
         (n : nat) (st : mstate) (ch : list data) : option xres :=
  match n with
  | O => Some (fr, st, ch, false)
  | S n' => match run st ch with
            | None => None
            | Some (_, st1, ch1, true) => Some (fr, st1, ch1, true)
            | Some (_, st1, ch1, false) => iter_block run fr n' st1 ch1
            end
  end.

Fixpoint all_some {A} (l : list (option A)) : option (list A) :=
  match l with
  | [] => Some []
  | None :: _ => None
  | Some a :: t => match all_some t with Some r => Some (a :: r) | None => None end
  end.

Definition continue_with (k : list nat -> mstate -> list data -> option xres) (r : option xres) : option xres :=
  match r with
  | None => None
  | Some (fr1, st1, ch1, true) => Some (fr1, st1, ch1, true)
  | Some (fr1, st1, ch1, false) => k fr1 st1 ch1
  end.

Fixpoint exec (fuel : nat) (tbl : list fn) (es : list ev) (fr : list nat)
         (st : mstate) (ch : list data) : option xres :=
  match fuel with
  | O => None
  | S f =>
    match es with
    | [] => Some (fr, st, ch, false)
    | e :: rest =>
      let continue := continue_with (exec f tbl rest) in
      match e with
      | ENewFresh => continue (Some (fr ++ [length (impls st)], new_fresh st, ch, false))
      | ENewCopy s =>
        match nth_error fr s with
        | None => None
        | Some i => continue (Some (fr ++ [length (impls st)], new_copy st i, ch, false))
        end
      | EMakeUnique o =>
        match nth_error fr o with
        | None => None
        | Some i => continue (Some (fr, make_unique st i, ch, false))
        end
      | EWrite o k =>
        match nth_error fr o with
        | None => None
        | Some i => if k <? NB then
                      match ch with
                      | [] => Some (fr, st, [], true)
                      | d :: ch1 => continue (Some (fr, write_buf st i k d, ch1, false))
                      end
                    else None
        end
      | EWritePlain o =>
        match nth_error fr o with
        | None => None
        | Some i => match ch with
                    | [] => Some (fr, st, [], true)
                    | d :: ch1 => continue (Some (fr, write_plain st i d, ch1, false))
                    end
        end
      | EAssignFresh o =>
        match nth_error fr o with
        | None => None
        | Some i => match ch with
                    | [] => Some (fr, st, [], true)
                    | d :: ch1 => continue (Some (fr, assign_fresh st i d, ch1, false))
                    end
        end
      | EAssignShare o s =>
        match nth_error fr o, nth_error fr s with
        | Some i, Some j => continue (Some (fr, assign_share st i j, ch, false))
        | _, _ => None
        end
      | EMoveOut o =>
        match nth_error fr o with
        | None => None
        | Some i => continue (Some (fr, assign_fresh st i [], ch, false))
        end
      | ECall g args =>
        match nth_error tbl g, all_some (map (nth_error fr) args) with
        | Some fd, Some cfr =>
          if length args =? fn_nparams fd then
            match exec f tbl (fn_body fd) cfr st ch with
            | None => None
            | Some (_, st1, ch1, h) => continue (Some (fr, st1, ch1, h))
            end
          else None
        | _, _ => None
        end
      | EBlock b =>
        match ch with
        | [] => Some (fr, st, [], true)
        | d :: ch1 => continue (iter_block (exec f tbl b fr) fr (length d) st ch1)
        end
      end
    end
  end.

(* ------------------------------------------------- the discipline (static)
   abstract value of a frame object: borrowed (an Impl that existed before the
   entry function started: reachable from live Manifolds through
   shared_ptr<const Impl>) or owned with, per buffer, "known to be unique".   *)
Inductive aobj := ABorrowed | AOwned (u : nat -> bool).

Definition all_true : nat -> bool := fun _ => true.
Definition all_false : nat -> bool := fun _ => false.

Definition clear_obj (a : aobj) : aobj :=
  match a with ABorrowed => ABorrowed | AOwned _ => AOwned all_false end.

Definition meet_obj (a b : aobj) : aobj :=
  match a, b with
  | AOwned u, AOwned v => AOwned (fun k => u k && v k)
  | _, _ => a
  end.

(* a below b : every flag claimed by a is claimed by b, same kind *)
Definition le_obj (a b : aobj) : bool :=
  match a, b with
  | ABorrowed, ABorrowed => true
  | AOwned u, AOwned v => forallb (fun k => implb (u k) (v k)) (seq 0 NB)
  | _, _ => false
  end.

Fixpoint meet_fr (a b : list aobj) : list aobj :=
  match a, b with
  | x :: a', y :: b' => meet_obj x y :: meet_fr a' b'
  | _, _ => a
  end.

Fixpoint le_fr (a b : list aobj) : bool :=
  match a, b with
  | [], _ => true
  | x :: a', y :: b' => le_obj x y && le_fr a' b'
  | _ :: _, [] => false
  end.

Fixpoint pos (o : nat) (l : list nat) : option nat :=
  match l with
  | [] => None
  | x :: t => if x =? o then Some 0 else match pos o t with Some p => Some (S p) | None => None end
  end.

Fixpoint nodupb (l : list nat) : bool :=
  match l with
  | [] => true
  | x :: t => negb (existsb (Nat.eqb x) t) && nodupb t
  end.

(* results of a call written back to the caller's objects *)
Definition write_back (args : list nat) (vals : list aobj) (af : list aobj) : list aobj :=
  map (fun oa : nat * aobj =>
         match pos (fst oa) args with
         | Some p => match nth_error vals p with Some a' => a' | None => snd oa end
         | None => snd oa
         end) (combine (seq 0 (length af)) af).

Definition is_owned (a : option aobj) : bool :=
  match a with Some (AOwned _) => true | _ => false end.

Fixpoint check (fuel : nat) (tbl : list fn) (es : list ev) (af : list aobj) : option (list aobj) :=
  match fuel with
  | O => None
  | S f =>
    match es with
    | [] => Some af
    | e :: rest =>
      match e with
      | ENewFresh => check f tbl rest (af ++ [AOwned all_true])
      | ENewCopy s =>
        match nth_error af s with
        | None => None
        | Some _ => check f tbl rest (af ++ [AOwned all_true])
        end
      | EMakeUnique o =>
        match nth_error af o with
        | Some (AOwned _) => check f tbl rest (set_nth af o (AOwned all_true))
        | _ => None      (* MakeUnique on a borrowed (published, const) Impl: not allowed *)
        end
      | EWrite o k =>
        match nth_error af o with
        | Some (AOwned u) => if (k <? NB) && u k then check f tbl rest af else None
        | _ => None
        end
      | EWritePlain o =>
        match nth_error af o with
        | Some (AOwned _) => check f tbl rest af
        | _ => None
        end
      | EAssignFresh o =>
        match nth_error af o with
        | Some (AOwned _) => check f tbl rest (set_nth af o (AOwned all_true))
        | _ => None
        end
      | EAssignShare o s =>
        match nth_error af o, nth_error af s with
        | Some (AOwned _), Some a =>
          if o =? s then None
          else check f tbl rest (set_nth (set_nth af s (clear_obj a)) o (AOwned all_false))
        | _, _ => None
        end
      | EMoveOut o =>
        match nth_error af o with
        | Some (AOwned _) => check f tbl rest (set_nth af o (AOwned all_false))
        | _ => None
        end
      | ECall g args =>
        match nth_error tbl g, all_some (map (nth_error af) args) with
        | Some fd, Some vals =>
          if (length args =? fn_nparams fd) && nodupb args then
            match check f tbl (fn_body fd) vals with
            | None => None
            | Some vals' => check f tbl rest (write_back args vals' af)
            end
          else None
        | _, _ => None
        end
      | EBlock b =>
        (* loop invariant m below af: one round from af, meet, re-check from the meet *)
        match check f tbl b af with
        | None => None
        | Some af1 =>
          if le_fr af af1 then check f tbl rest af      (* the body loses nothing: af itself is the invariant *)
          else
          let m := meet_fr af af1 in
          match check f tbl b m with
          | None => None
          | Some af2 => if le_fr m af2 && le_fr m af && (length m =? length af) then check f tbl rest m else None
          end
        end
      end
    end
  end.

Definition FUEL : nat := 4000.

(* entry functions are run on Impls that live Manifolds point to: all object
   parameters borrowed. *)
Definition entry_ok (tbl : list fn) (fd : fn) : bool :=
  if fn_entry fd then
    match check FUEL tbl (fn_body fd) (repeat ABorrowed (fn_nparams fd)) with
    | Some _ => true
    | None => false
    end
  else true.

Definition discipline_ok (tbl : list fn) : bool := forallb (entry_ok tbl) tbl.

(* indices of the entries that fail (for the report) *)
Definition failing_entries (tbl : list fn) : list nat :=
  map fst (filter (fun p => negb (entry_ok tbl (snd p))) (combine (seq 0 (length tbl)) tbl)).

(* ------------------------------------------------------------ handle level *)
Record hstate := mkH { mst : mstate; handles : list (option (nat * Z)) }.

Definition obs := (list data * data)%type.
Definition obs_impl (st : mstate) (i : nat) : obs :=
  (map (fun k => heap st (bufs (getI st i) k)) (seq 0 NB), plain (getI st i)).

(* what a pending transform t does to the value: negative = mirrored: triangles
   flipped (every halfedge array reversed here), positions moved. *)
Definition xform (t : Z) (v : obs) : obs :=
  if Z.eqb t 0 then v
  else ((if Z.ltb t 0 then map (@rev Z) (fst v) else fst v), map (Z.add t) (snd v)).

Definition obs_handle (hs : hstate) (h : nat) : option obs :=
  match nth_error (handles hs) h with
  | Some (Some (i, t)) => Some (xform t (obs_impl (mst hs) i))
  | _ => None
  end.

(* CsgLeafNode::GetImpl with a non-identity transform: Impl::Transform builds
   a new Impl that SHARES the halfedge buffers (result.halfedge_ = halfedge_, copy ASSIGNMENT),
   clones and flips them when mirrored, transforms the plain vectors; then the
   node's pointer is replaced (never the pointee). *)
Definition force_impl (st : mstate) (i : nat) (t : Z) : mstate :=
  let n := length (impls st) in
  let st1 := new_fresh st in                       (* Impl result; *)
  let st2 := assign_share st1 n i in               (* result.halfedge_ = halfedge_; *)
  let st3 := write_plain st2 n (map (Z.add t) (plain (getI st i))) in
  if Z.ltb t 0 then
    let st4 := make_unique st3 n in                (* if (invert) { result.halfedge_.MakeUnique(); FlipTris } *)
    write_buf (write_buf (write_buf st4 n 0 (rev (heap st4 (bufs (getI st4 n) 0))))
                         n 1 (rev (heap st4 (bufs (getI st4 n) 1))))
              n 2 (rev (heap st4 (bufs (getI st4 n) 2)))
  else st3.

Inductive hop :=
| HRun (f : nat) (args : list nat) (ch : list data)  (* public operation: entry function f on the Impls of handles args; every Impl it creates is published as a new handle *)
| HCopy (h : nat)                                    (* Manifold b = a : same node *)
| HLazy (h : nat) (t : Z)                            (* a.Transform(t): new node, same Impl pointer, pending transform *)
| HForce (h : nat)                                   (* GetCsgLeafNode().GetImpl() on a node with pending transform *)
| HDrop (h : nat).

Definition set_handle (hs : hstate) (h : nat) (v : option (nat * Z)) : hstate :=
  mkH (mst hs) (set_nth (handles hs) h v).

Definition handle_impl (hs : hstate) (h : nat) : option nat :=
  match nth_error (handles hs) h with
  | Some (Some (i, t)) => if Z.eqb t 0 then Some i else None   (* public methods force first *)
  | _ => None
  end.

Definition hstep (tbl : list fn) (hs : hstate) (op : hop) : option hstate :=
  match op with
  | HRun f args ch =>
    match nth_error tbl f, all_some (map (handle_impl hs) args) with
    | Some fd, Some fr =>
      if fn_entry fd && (length args =? fn_nparams fd) then
        match exec FUEL tbl (fn_body fd) fr (mst hs) ch with
        | Some (_, st', _, _) =>
          Some (mkH st' (handles hs ++
                 map (fun i => Some (i, 0%Z))
                     (seq (length (impls (mst hs))) (length (impls st') - length (impls (mst hs))))))
        | None => None
        end
      else None
    | _, _ => None
    end
  | HCopy h =>
    match nth_error (handles hs) h with
    | Some (Some v) => Some (mkH (mst hs) (handles hs ++ [Some v]))
    | _ => None
    end
  | HLazy h t =>
    match nth_error (handles hs) h with
    | Some (Some (i, t0)) =>
      if Z.eqb t0 0 then Some (mkH (mst hs) (handles hs ++ [Some (i, t)])) else None
    | _ => None
    end
  | HForce h =>
    match nth_error (handles hs) h with
    | Some (Some (i, t)) =>
      if Z.eqb t 0 then Some hs
      else Some (set_handle (mkH (force_impl (mst hs) i t) (handles hs)) h
                            (Some (length (impls (mst hs)), 0%Z)))
    | _ => None
    end
  | HDrop h =>
    match nth_error (handles hs) h with
    | Some (Some _) => Some (set_handle hs h None)
    | _ => None
    end
  end.

Fixpoint hrun (tbl : list fn) (hs : hstate) (ops : list hop) : option hstate :=
  match ops with
  | [] => Some hs
  | op :: rest => match hstep tbl hs op with
                  | None => None
                  | Some hs' => hrun tbl hs' rest
                  end
  end.

Definition h0 : hstate := mkH (mkSt (fun _ => []) 0 []) [].
