(* C20 — object lifecycle of the C binding: a heap model with caller-supplied
   storage (T_size() bytes provided by the caller), library storage
   (manifold_alloc_T), placement construction by API calls, manifold_destruct_T
   and manifold_delete_T.  Definitions only; proofs are in Life.v. *)
From Coq Require Import List Bool Arith.
Import ListNotations.

Definition addr := nat.
Definition ty := nat.                 (* index of the C++ type in the handle table *)

Inductive origin := Caller | Lib.

Inductive cell :=
| Absent                              (* not storage the program may touch *)
| Raw (o : origin) (t : ty)           (* storage of sizeof(t) bytes holding no object *)
| Live (o : origin) (t : ty).         (* storage holding a constructed object of type t *)

(* What one API call does.  c_mems / c_args are what the caller passes (the C
   signature); c_constructs / c_allocs / c_destroys are what the wrapper's body
   actually does (from the generated table: placement-news, plain news,
   deletes). *)
Record call := {
  c_mems : list (addr * ty);          (* storage passed for results, with the type the header advertises for it *)
  c_args : list addr;                 (* handles passed as inputs *)
  c_constructs : list (addr * ty);    (* placement-constructions performed *)
  c_allocs : nat;                     (* objects created with plain new and not handed to the caller *)
  c_destroys : list addr }.           (* input objects destroyed by the call *)

Inductive op :=
| OSupply (a : addr) (t : ty)         (* the caller sets aside manifold_T_size() bytes at a *)
| OAlloc (a : addr) (t : ty)          (* a = manifold_alloc_T() *)
| OCall (c : call)
| ODestruct (a : addr) (t : ty)       (* manifold_destruct_T(a) *)
| ODelete (a : addr) (t : ty)         (* manifold_delete_T(a) *)
| ORelease (a : addr).                (* the caller gives its own storage back (free / scope exit) *)

Record heap := { cells : addr -> cell; leaked : nat }.

Definition upd (f : addr -> cell) (a : addr) (v : cell) : addr -> cell :=
  fun x => if Nat.eqb x a then v else f x.

Definition is_live (c : cell) : bool := match c with Live _ _ => true | _ => false end.

Definition init : heap := {| cells := fun _ => Absent; leaked := 0 |}.

(* destroy the object at a (a wrapper that frees one of its inputs) *)
Definition destroy1 (f : addr -> cell) (a : addr) : option (addr -> cell) :=
  match f a with Live o t => Some (upd f a (Raw o t)) | _ => None end.   (* destroying a dead object: double destruction *)

Fixpoint destroy_all (f : addr -> cell) (l : list addr) : option (addr -> cell) :=
  match l with
  | [] => Some f
  | a :: r => match destroy1 f a with Some f' => destroy_all f' r | None => None end
  end.

(* placement-construct a t at a: needs storage of exactly that type's size holding no object *)
Definition construct1 (f : addr -> cell) (at_ : addr * ty) : option (addr -> cell) :=
  match f (fst at_) with
  | Raw o t => if Nat.eqb t (snd at_) then Some (upd f (fst at_) (Live o t)) else None   (* wrong size: overflow *)
  | Live _ _ => None          (* constructing over a live object leaks it *)
  | Absent => None            (* write to memory the program does not own *)
  end.

Fixpoint construct_all (f : addr -> cell) (l : list (addr * ty)) : option (addr -> cell) :=
  match l with
  | [] => Some f
  | x :: r => match construct1 f x with Some f' => construct_all f' r | None => None end
  end.

Definition step (h : heap) (o : op) : option heap :=
  match o with
  | OSupply a t => match cells h a with
                   | Absent => Some {| cells := upd (cells h) a (Raw Caller t); leaked := leaked h |}
                   | _ => None end
  | OAlloc a t => match cells h a with
                  | Absent => Some {| cells := upd (cells h) a (Raw Lib t); leaked := leaked h |}
                  | _ => None end
  | OCall c =>
      if forallb (fun a => is_live (cells h a)) (c_args c)          (* else: use after destruction *)
      then match destroy_all (cells h) (c_destroys c) with
           | Some f1 => match construct_all f1 (c_constructs c) with
                        | Some f2 => Some {| cells := f2; leaked := leaked h + c_allocs c |}
                        | None => None end
           | None => None end
      else None
  | ODestruct a t => match cells h a with
                     | Live o t' => if Nat.eqb t t' then Some {| cells := upd (cells h) a (Raw o t'); leaked := leaked h |} else None
                     | _ => None end                                 (* double destruction / never constructed *)
  | ODelete a t => match cells h a with
                   | Live Lib t' => if Nat.eqb t t' then Some {| cells := upd (cells h) a Absent; leaked := leaked h |} else None
                   | _ => None end                                   (* double delete / delete of caller storage *)
  | ORelease a => match cells h a with
                  | Raw Caller _ => Some {| cells := upd (cells h) a Absent; leaked := leaked h |}
                  | _ => None end                                    (* releasing storage that still holds an object leaks it *)
  end.

Fixpoint run (p : list op) (h : heap) : option heap :=
  match p with
  | [] => Some h
  | o :: r => match step h o with Some h' => run r h' | None => None end
  end.

(* no object alive, no storage outstanding, nothing allocated behind the caller's back *)
Definition clean (h : heap) : Prop := (forall a, cells h a = Absent) /\ leaked h = 0.

(* executes without double destruction / use after destruction / overflow, and ends clean *)
Definition safe (p : list op) : Prop := exists h, run p init = Some h /\ clean h.

(* The header's view of a call: it constructs one object of the advertised
   type in every mem it is given, allocates nothing else, destroys nothing. *)
Definition advertise (c : call) : call :=
  {| c_mems := c_mems c; c_args := c_args c; c_constructs := c_mems c; c_allocs := 0; c_destroys := [] |}.

Definition advertise_op (o : op) : op := match o with OCall c => OCall (advertise c) | _ => o end.

Definition faithful (c : call) : Prop :=
  c_constructs c = c_mems c /\ c_allocs c = 0 /\ c_destroys c = [].

(* The header's contract on the caller: under the advertised behaviour of
   every call, the program constructs before use, destructs or deletes every
   object exactly once, does not use it afterwards, and returns all storage. *)
Definition contract (p : list op) : Prop := safe (map advertise_op p).

(* counting, per address: constructions and destructions actually performed *)
Definition count_addr (a : addr) (l : list addr) : nat := length (filter (Nat.eqb a) l).

Definition constructed_by (o : op) (a : addr) : nat :=
  match o with OCall c => count_addr a (map fst (c_constructs c)) | _ => 0 end.

Definition destroyed_by (o : op) (a : addr) : nat :=
  match o with
  | OCall c => count_addr a (c_destroys c)
  | ODestruct b _ | ODelete b _ => if Nat.eqb a b then 1 else 0
  | _ => 0
  end.

Fixpoint total (f : op -> addr -> nat) (p : list op) (a : addr) : nat :=
  match p with [] => 0 | o :: r => f o a + total f r a end.

Definition live_count (h : heap) (a : addr) : nat := if is_live (cells h a) then 1 else 0.
