(* C06 — non-vacuity examples for the lockset theorems. *)
From Coq Require Import List Arith Bool PeanoNat Lia String.
From MV Require Import Proto.LocksetDefs Proto.LocksetModel.
Import ListNotations.

Definition xm : lock := (7, 0).          (* object 7, mutex field 0 *)
Definition xf : loc := (7, 0).           (* object 7, data field 0  *)
Definition ex_protects (x : loc) : list lock := if pair_eqb x xf then [xm] else [].
Definition no_rec (l : lock) := false.
Definition rank0 (l : lock) := snd l.

(* a racy two-thread program: thread 0 writes, thread 1 reads, no lock *)
Definition racy (t : tid) : list event :=
  match t with 0 => [Wr xf] | 1 => [Rd xf] | _ => [] end.
Definition racy_trace : trace := [(0, Wr xf); (1, Rd xf)].

Lemma hb_lt : forall tr i j, hb tr i j -> i < j.
Proof. induction 1; lia. Qed.

Lemma racy_exec : exec 2 no_rec racy racy_trace.
Proof.
  change racy_trace with (([] ++ [(0, Wr xf)]) ++ [(1, Rd xf)]).
  eapply exec_step with (rest := []); [eapply exec_step with (rest := []); [constructor|lia|reflexivity|reflexivity]|lia|reflexivity|reflexivity].
Qed.
Lemma racy_has_race_lemma : exec 2 no_rec racy racy_trace /\ data_race racy_trace.
Proof.
  split; [exact racy_exec|].
  exists 0, 1, 0, 1, (Wr xf), (Rd xf), xf. repeat split; try reflexivity; try lia.
  intros H. inversion H as [i j t e1 e2 Hlt H0 H1|i j t1 t2 l e2 Hlt H0 H1 Hin|i j k Hik Hkj]; subst.
  - cbn in H0, H1. inversion H0; inversion H1; subst; discriminate.
  - cbn in H0; discriminate.
  - apply hb_lt in Hik; apply hb_lt in Hkj; lia.
Qed.
Lemma racy_rejected_lemma :
  check_prog ex_protects rank0 no_rec [] (racy 0) = false /\ check_prog ex_protects rank0 no_rec [] (racy 1) = false.
Proof. split; vm_compute; reflexivity. Qed.

(* the same accesses under the guard: accepted, and a complete interleaving exists *)
Definition guarded (t : tid) : list event :=
  match t with 0 => [Acq xm; Wr xf; Rel xm] | 1 => [Acq xm; Rd xf; Rel xm] | _ => [] end.
Definition guarded_trace : trace :=
  [(0, Acq xm); (0, Wr xf); (0, Rel xm); (1, Acq xm); (1, Rd xf); (1, Rel xm)].
Lemma guarded_accepted_lemma :
  check_prog ex_protects rank0 no_rec [] (guarded 0) = true /\ check_prog ex_protects rank0 no_rec [] (guarded 1) = true.
Proof. split; vm_compute; reflexivity. Qed.
Lemma guarded_exec_lemma : exec 2 no_rec guarded guarded_trace.
Proof.
  change guarded_trace with (((((([] ++ [(0, Acq xm)]) ++ [(0, Wr xf)]) ++ [(0, Rel xm)]) ++ [(1, Acq xm)]) ++ [(1, Rd xf)]) ++ [(1, Rel xm)]).
  eapply exec_step with (rest := []); [|lia|reflexivity|vm_compute; reflexivity].
  eapply exec_step with (rest := [Rel xm]); [|lia|reflexivity|vm_compute; reflexivity].
  eapply exec_step with (rest := [Rd xf; Rel xm]); [|lia|reflexivity|vm_compute; reflexivity].
  eapply exec_step with (rest := []); [|lia|reflexivity|vm_compute; reflexivity].
  eapply exec_step with (rest := [Rel xm]); [|lia|reflexivity|vm_compute; reflexivity].
  eapply exec_step with (rest := [Wr xf; Rel xm]); [|lia|reflexivity|vm_compute; reflexivity].
  constructor.
Qed.

(* lock-order inversion: reachable deadlock, rejected by the checker *)
Definition la : lock := (1, 0).
Definition lb : lock := (2, 1).
Definition inverted (t : tid) : list event :=
  match t with 0 => [Acq la; Acq lb; Rel lb; Rel la] | 1 => [Acq lb; Acq la; Rel la; Rel lb] | _ => [] end.
Definition inverted_trace : trace := [(0, Acq la); (1, Acq lb)].
Lemma inverted_deadlocks_lemma :
  exec 2 no_rec inverted inverted_trace /\ deadlocked 2 no_rec inverted inverted_trace /\
  check_prog (fun _ => []) rank0 no_rec [] (inverted 1) = false.
Proof.
  split; [|split].
  - change inverted_trace with (([] ++ [(0, Acq la)]) ++ [(1, Acq lb)]).
    eapply exec_step with (rest := [Acq la; Rel la; Rel lb]); [|lia|reflexivity|vm_compute; reflexivity].
    eapply exec_step with (rest := [Acq lb; Rel lb; Rel la]); [constructor|lia|reflexivity|vm_compute; reflexivity].
  - split.
    + exists 0; split; [lia|]. exists (Acq lb), [Rel lb; Rel la]; reflexivity.
    + intros t e rest Hlt Hp. destruct t as [|[|t]]; [| |lia]; cbn in Hp; inversion Hp; subst; vm_compute; reflexivity.
  - vm_compute; reflexivity.
Qed.
