(* C15 -- cancellation / progress protocol: executable model, no proofs.
   Level A: an operation on raw arrays is the bracketed path word of its
            uncancelled execution; the semantics derives every cancelled run.
   Level B: progress counters, leaf reductions of a CSG expression (with
            sharing), op-node cache poisoning.
   Table types for the generated file Gen/CancelSites.v are at the top. *)
From Coq Require Import List String ZArith Bool Arith.
Import ListNotations.

(* ---------- generated-table types (translate/c15_sites.py) ---------- *)
Inductive skind := SLoop | SCall.
Inductive fkind := FDecl | FRelease | FCtxCall | FRet | FNoop | FAllowed | FUse.
Inductive tkind := TCheckP | TCheckF | TEndCallee | TEndTop.
Record site := mkSite { s_id : string; s_kind : skind; s_followers : list fkind; s_terms : list tkind }.
Inductive ckind := KLoopEntry | KLoopChunk | KAbortP | KAbortF | KObserve.
Inductive rstep := RDone | RTotal.

Definition f_neutral (f : fkind) : bool := match f with FUse => false | _ => true end.
Definition t_ok (t : tkind) : bool := match t with TEndTop => false | _ => true end.
(* every ctx-aware call is followed, on every path, by an aborting check before
   any statement that may read its output, and no path leaves an API function first *)
Definition site_ok (s : site) : bool :=
  forallb f_neutral (s_followers s) && forallb t_ok (s_terms s) && negb (Nat.eqb (List.length (s_terms s)) 0).
Definition sites_ok (t : list site) : bool := forallb site_ok t.
Definition phase_counts_match (t : list (string * Z * Z)) : bool :=
  forallb (fun r => Z.eqb (snd (fst r)) (snd r)) t && negb (Nat.eqb (List.length t) 0).
(* numerators are stored before denominators *)
Fixpoint reset_order_ok (l : list rstep) (seen_total : bool) : bool :=
  match l with
  | [] => true
  | RDone :: l' => negb seen_total && reset_order_ok l' seen_total
  | RTotal :: l' => reset_order_ok l' true
  end.

(* ---------- Level A: path words ---------- *)
Inductive tok :=
  | TLoop (chunks : nat)   (* ctx-aware loop: entry check + one check per chunk *)
  | TEnter | TLeave        (* body of an open ctx-aware callee *)
  | TAbortP                (* if (IsCancelled(ctx)) return;            leaves the innermost callee *)
  | TAbortF                (* if (IsCancelled(ctx)) { MakeEmpty(Cancelled); return; } / phase() / ADVANCE_PHASE_OR_RETURN *)
  | TUse                   (* reads what earlier loops / callees wrote *)
  | TNeutral.

Inductive outcome :=
  | Complete (outs : list (list bool))   (* per loop: which chunks ran *)
  | CancelledEmpty
  | PartialEscaped
  | Undefined.                           (* a statement consumed a partial output *)

Section Run.
  Variable flag : nat -> bool.          (* value read by the i-th check (1-based) *)
  Variable par : bool.
  Variable sched : nat -> nat -> nat.   (* par: order in which the chunks of a loop reach their check *)

  Fixpoint seq_chunks (n c : nat) : nat * list bool :=
    match c with
    | 0 => (n, [])
    | S c' => if flag (S n) then (S n, repeat false (S c'))
              else let '(n', r) := seq_chunks (S n) c' in (n', true :: r)
    end.

  Definition loop (n c : nat) : nat * list bool :=
    if flag (S n) then (S n, repeat false c)
    else if par then (S n + c, map (fun j => negb (flag (S (S n) + (sched n j) mod c))) (seq 0 c))
    else seq_chunks (S n) c.

  (* n: checks made so far; d: callee depth; s: >0 while skipping to the end of a callee that returned early *)
  Fixpoint run (w : list tok) (n : nat) (dirty : bool) (d s : nat) (outs : list (list bool)) : outcome :=
    match w with
    | [] => if dirty then PartialEscaped else Complete (rev outs)
    | t :: w' =>
      match s with
      | S s' =>
        match t with
        | TEnter => run w' n dirty d (S s) outs
        | TLeave => match s' with 0 => run w' n dirty (pred d) 0 outs | _ => run w' n dirty d s' outs end
        | _ => run w' n dirty d s outs
        end
      | 0 =>
        match t with
        | TLoop c => let '(n', ran) := loop n c in run w' n' (dirty || negb (forallb (fun b => b) ran)) d 0 (ran :: outs)
        | TEnter => run w' n dirty (S d) 0 outs
        | TLeave => run w' n dirty (pred d) 0 outs
        | TAbortP => if flag (S n)
                     then match d with 0 => PartialEscaped | S _ => run w' (S n) true d 1 outs end
                     else run w' (S n) dirty d 0 outs
        | TAbortF => if flag (S n) then CancelledEmpty else run w' (S n) dirty d 0 outs
        | TUse => if dirty then Undefined else run w' n dirty d 0 outs
        | TNeutral => run w' n dirty d 0 outs
        end
      end
    end.
End Run.

(* static discipline on the word: the word-level reading of sites_ok *)
Fixpoint word_ok (w : list tok) (pending : bool) (d : nat) : bool :=
  match w with
  | [] => negb pending && Nat.eqb d 0
  | t :: w' =>
    match t with
    | TLoop _ => word_ok w' true d
    | TEnter => word_ok w' pending (S d)
    | TLeave => match d with 0 => false | S d' => word_ok w' true d' end
    | TAbortP => match d with 0 => false | S _ => word_ok w' false d end
    | TAbortF => word_ok w' false d
    | TUse => negb pending && word_ok w' pending d
    | TNeutral => word_ok w' pending d
    end
  end.

Definition never : nat -> bool := fun _ => false.
Definition cancel_at (k : nat) : nat -> bool := fun i => (k <=? i) && negb (k =? 0).
Definition exec (flag : nat -> bool) (par : bool) (sched : nat -> nat -> nat) (w : list tok) : outcome :=
  run flag par sched w 0 false 0 0 [].

(* ---------- automaton on the logged word of a (possibly cancelled) run ---------- *)
Inductive verdict := VComplete | VFinal | VEscape | VBad.
(* st: 0 flag never read true, 1 some loop/plain return saw it (unchecked partial state), 2 a Cancelled object was produced *)
Fixpoint accept (w : list (ckind * bool)) (st : nat) : verdict :=
  match w with
  | [] => match st with 0 => VComplete | 1 => VEscape | _ => VFinal end
  | (k, false) :: w' => match st with 0 => accept w' 0 | _ => VBad end   (* the flag is sticky *)
  | (k, true) :: w' =>
    match k with
    | KAbortF => accept w' 2
    | KObserve => accept w' st
    | _ => accept w' (Nat.max st 1)
    end
  end.

(* ---------- Level B: progress counters ---------- *)
(* one observable step of the counters; a reset is two stores *)
Inductive pev := PStoreDone (v : nat) | PStoreTotal (v : nat) | PCredit (v : nat).
Definition pstep (st : nat * nat) (e : pev) : nat * nat :=
  match e with PStoreDone v => (v, snd st) | PStoreTotal v => (fst st, v) | PCredit v => (fst st + v, snd st) end.
Fixpoint pstates (st : nat * nat) (l : list pev) : list (nat * nat) :=
  match l with [] => [st] | e :: l' => st :: pstates (pstep st e) l' end.
Definition reset_events (order : list rstep) (total : nat) : list pev :=
  map (fun r => match r with RDone => PStoreDone 0 | RTotal => PStoreTotal total end) order.

(* CSG expressions; the nat of an op node names its (possibly shared) children vector impl_ *)
Inductive expr := Leaf | Op (iid : nat) (kids : list expr).

Fixpoint num_leaves (e : expr) : nat :=       (* CsgOpNode::NumLeaves on a not yet evaluated expression: once per parent *)
  match e with
  | Leaf => 1
  | Op _ ks => (fix go (ks : list expr) : nat := match ks with [] => 0 | k :: ks' => num_leaves k + go ks' end) ks
  end.

Fixpoint wf (e : expr) : bool :=
  match e with
  | Leaf => true
  | Op _ ks => negb (Nat.eqb (List.length ks) 0) &&
               (fix go (ks : list expr) : bool := match ks with [] => true | k :: ks' => wf k && go ks' end) ks
  end.

Fixpoint iids (e : expr) : list nat :=
  match e with
  | Leaf => []
  | Op i ks => i :: (fix go (ks : list expr) : list nat := match ks with [] => [] | k :: ks' => iids k ++ go ks' end) ks
  end.

Definition mem (i : nat) (l : list nat) : bool := existsb (Nat.eqb i) l.

(* ToLeafNode: (leaves handed to the parent, leaf reductions performed, impl_ vectors reduced so far).
   col i: the node is collapsed into its parent (same op, unshared) -- an oracle. *)
Fixpoint ev (col : nat -> bool) (e : expr) (st : list nat) : nat * nat * list nat :=
  match e with
  | Leaf => (1, 0, st)
  | Op i ks =>
    if mem i st then (1, 0, st)       (* impl_ already holds its single result: one leaf, no work *)
    else
      let '(p, r, st') :=
        (fix go (ks : list expr) (st : list nat) : nat * nat * list nat :=
           match ks with
           | [] => (0, 0, st)
           | k :: ks' => let '(p1, r1, s1) := ev col k st in
                         let '(p2, r2, s2) := go ks' s1 in (p1 + p2, r1 + r2, s2)
           end) ks st in
      if col i then (p, r, st') else (1, r + (p - 1), i :: st')
  end.

Definition reductions (col : nat -> bool) (e : expr) : nat := snd (fst (ev col e [])).
Definition total_booleans (e : expr) : nat := num_leaves e - 1.

(* credits of an uncancelled evaluation: K per reduction (phase() x K, or PhaseBalance's top-up) *)
Definition eval_events (K : nat) (order : list rstep) (col : nat -> bool) (e : expr) : list pev :=
  reset_events order (K * total_booleans e) ++ repeat (PCredit 1) (K * reductions col e).

(* op-node caches: None = not evaluated *)
Inductive cst := COk | CCancelled.
Definition poison (stack : list nat) (cache : nat -> option cst) : nat -> option cst :=
  fun i => if mem i stack then (match cache i with None => Some CCancelled | c => c end) else cache i.
(* ToLeafNode on a node whose cache is set returns it without looking at any context *)
Definition to_leaf_cached (cache : nat -> option cst) (i : nat) : option cst := cache i.

(* ---------- ToLeafNode's cancel branch with denotations ----------
   cache i = None: op node i not evaluated; Some (VRes r): evaluated, denotes r; Some VCancelled: poisoned.
   The branch walks the explicit stack and writes the Cancelled leaf into frame->op_node->cache_ -- only where no cache
   exists when `guarded` (the `if (!frame->op_node->cache_)` test; read from the source by the translator) -- and then
   unconditionally into this->cache_ (`root`; unset on entry, ToLeafNode returns early otherwise). *)
Inductive cval := VRes (r : nat) | VCancelled.
Definition cancel_branch (guarded : bool) (stack : list nat) (root : nat) (cache : nat -> option cval) : nat -> option cval :=
  fun i => if Nat.eqb i root then Some VCancelled
           else if mem i stack
                then (if guarded then match cache i with None => Some VCancelled | c => c end else Some VCancelled)
                else cache i.
