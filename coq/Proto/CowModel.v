(* C05 - lemmas about the copy-on-write model of CowDefs.v *)
From Coq Require Import ZArith List Bool Arith Lia.
From MV Require Import Proto.CowDefs.
Import ListNotations.

(* ------------------------------------------------------------ list helpers *)
Lemma length_set_nth : forall A (l : list A) n v, length (set_nth l n v) = length l.
Proof. induction l; destruct n; simpl; intros; auto. Qed.

Lemma nth_set_nth_eq : forall A (l : list A) n v d, n < length l -> nth n (set_nth l n v) d = v.
Proof. induction l; destruct n; simpl; intros; try lia; auto. apply IHl; lia. Qed.

Lemma nth_set_nth_neq : forall A (l : list A) n m v d, n <> m -> nth m (set_nth l n v) d = nth m l d.
Proof. induction l; destruct n; destruct m; simpl; intros; try lia; auto. Qed.

Lemma nth_error_set_nth_eq : forall A (l : list A) n v, n < length l -> nth_error (set_nth l n v) n = Some v.
Proof. induction l; destruct n; simpl; intros; try lia; auto. apply IHl; lia. Qed.

Lemma nth_error_set_nth_neq : forall A (l : list A) n m v, n <> m -> nth_error (set_nth l n v) m = nth_error l m.
Proof. induction l; destruct n; destruct m; simpl; intros; try lia; auto. Qed.

Lemma nth_error_lt : forall A (l : list A) n x, nth_error l n = Some x -> n < length l.
Proof. intros. apply nth_error_Some. congruence. Qed.

Lemma all_some_nth : forall A (l : list (option A)) r, all_some l = Some r ->
  length r = length l /\ forall p, nth_error l p = option_map Some (nth_error r p).
Proof.
  induction l as [|x l IH]; simpl; intros r H.
  - inversion H; subst. split; auto. intros [|p]; reflexivity.
  - destruct x; try discriminate. destruct (all_some l) eqn:E; try discriminate.
    inversion H; subst. destruct (IH l0 eq_refl) as [L N]. split; [simpl; lia|].
    intros [|p]; simpl; auto.
Qed.

(* ------------------------------------------------------------ store facts *)
Definition wf (st : mstate) : Prop :=
  forall j k, j < length (impls st) -> k < NB -> bufs (getI st j) k < nextb st.

Definition uniq (st : mstate) (i k : nat) : Prop :=
  forall j k', j < length (impls st) -> k' < NB ->
    bufs (getI st j) k' = bufs (getI st i) k -> j = i /\ k' = k.

(* what a piece of execution may do, seen from outside: T = Impl ids whose
   record or sharing it may have touched; base = number of Impls that existed
   when the public operation started *)
Definition trans (base : nat) (T : list nat) (st st' : mstate) : Prop :=
  wf st' /\ length (impls st) <= length (impls st') /\
  (forall j, j < length (impls st) -> ~ In j T ->
     getI st' j = getI st j /\ forall k, k < NB -> uniq st j k -> uniq st' j k) /\
  (forall j, j < base -> j < length (impls st) -> getI st' j = getI st j /\
     forall k, k < NB -> heap st' (bufs (getI st j) k) = heap st (bufs (getI st j) k)).

Lemma trans_refl : forall base T st, wf st -> trans base T st st.
Proof. unfold trans; intuition. Qed.

Lemma trans_weaken : forall base T T' st st', trans base T st st' -> incl T T' -> trans base T' st st'.
Proof.
  unfold trans; intros base T T' st st' (W & L & F & P) I. split; [auto|]. split; [auto|]. split; [|exact P].
  intros j Hj Hn. apply F; auto.
Qed.

Lemma trans_trans : forall base T T1 st st1 st2,
  trans base T st st1 -> trans base T1 st1 st2 ->
  (forall x, In x T1 -> In x T \/ length (impls st) <= x) ->
  trans base T st st2.
Proof.
  unfold trans; intros base T T1 st st1 st2 (W & L & F & P) (W1 & L1 & F1 & P1) I.
  split; auto. split; [lia|]. split.
  - intros j Hj Hn. destruct (F j Hj Hn) as [G U].
    assert (Hn1 : ~ In j T1) by (intro X; destruct (I _ X); [tauto|lia]).
    destruct (F1 j ltac:(lia) Hn1) as [G1 U1]. split; [congruence|]. intros; auto.
  - intros j Hj Hl. destruct (P j Hj Hl) as [G H]. destruct (P1 j Hj ltac:(lia)) as [G1 H1].
    split; [congruence|]. intros k Hk. rewrite <- (H k Hk). rewrite <- G. apply H1; auto.
Qed.

Lemma getI_set_impl_eq : forall st i im, i < length (impls st) -> getI (set_impl st i im) i = im.
Proof. intros. unfold getI, set_impl; simpl. apply nth_set_nth_eq; auto. Qed.

Lemma getI_set_impl_neq : forall st i j im, i <> j -> getI (set_impl st i im) j = getI st j.
Proof. intros. unfold getI, set_impl; simpl. apply nth_set_nth_neq; auto. Qed.

(* generic: replace the buffers of Impl i by bf where every new buffer is either
   a fresh id (>= old nextb) or was already referenced by an Impl in T *)
Lemma trans_set_bufs : forall base st st0 i bf pl T,
  wf st -> i < length (impls st) -> base <= i -> In i T ->
  impls st0 = impls st -> nextb st <= nextb st0 ->
  (forall b, b < nextb st -> heap st0 b = heap st b) ->
  (forall k, k < NB -> (nextb st <= bf k < nextb st0) \/
                       (exists j k', In j T /\ j < length (impls st) /\ k' < NB /\ bf k = bufs (getI st j) k')) ->
  trans base T st (set_impl st0 i (mkImpl bf pl)).
Proof.
  intros base st st0 i bf pl T W Hi Hb HT EI NX HP BF.
  assert (GI : forall j, getI st0 j = getI st j) by (intro; unfold getI; rewrite EI; auto).
  unfold trans. split; [|split; [|split]].
  - intros j k Hj Hk. simpl in *. rewrite length_set_nth in Hj. rewrite EI in Hj.
    destruct (Nat.eq_dec i j) as [->|N].
    + rewrite getI_set_impl_eq by (rewrite EI; auto). simpl.
      destruct (BF k Hk) as [?|(j' & k' & _ & Hj' & Hk' & ->)]; [lia|].
      specialize (W j' k' Hj' Hk'). lia.
    + rewrite getI_set_impl_neq by auto. rewrite GI. specialize (W j k Hj Hk). lia.
  - simpl. rewrite length_set_nth, EI. lia.
  - intros j Hj Hn. assert (N : i <> j) by (intro; subst; tauto).
    split. { rewrite getI_set_impl_neq by auto. apply GI. }
    intros k Hk U j1 k1 Hj1 Hk1. simpl in Hj1. rewrite length_set_nth, EI in Hj1.
    rewrite (getI_set_impl_neq st0 i j) by auto. rewrite GI.
    destruct (Nat.eq_dec i j1) as [<-|N1].
    + rewrite getI_set_impl_eq by (rewrite EI; auto). simpl. intro E.
      destruct (BF k1 Hk1) as [?|(j' & k' & Tj & Hj' & Hk' & E')].
      * specialize (W j k Hj Hk). lia.
      * rewrite E' in E. destruct (U j' k' Hj' Hk' E). subst. tauto.
    + rewrite getI_set_impl_neq by auto. rewrite GI. apply U; auto.
  - intros j Hj Hl. assert (N : i <> j) by lia. split.
    { rewrite getI_set_impl_neq by auto. apply GI. }
    intros k Hk. simpl. apply HP. apply W; auto.
Qed.

Lemma wf_alloc : forall st d, wf st -> wf (alloc st d).
Proof. unfold wf, alloc; simpl; intros. specialize (H j k H0 H1). unfold getI in *; simpl. lia. Qed.

Lemma heap_alloc_old : forall st d b, b < nextb st -> heap (alloc st d) b = heap st b.
Proof. intros. unfold alloc; simpl. destruct (nextb st <=? b) eqn:E; simpl; auto. apply Nat.leb_le in E. lia. Qed.

(* -------- MakeUnique on one buffer *)
Lemma shared_false_uniq : forall st i k, i < length (impls st) -> k < NB -> shared st i k = false -> uniq st i k.
Proof.
  unfold shared, uniq; intros st i k Hi Hk H j k' Hj Hk' E.
  destruct (Nat.eq_dec j i) as [->|Nj]; [destruct (Nat.eq_dec k' k) as [->|Nk]; auto|]; exfalso.
  - assert (X : existsb (fun j => existsb (fun k'0 => negb ((j =? i) && (k'0 =? k)) && (bufs (getI st j) k'0 =? bufs (getI st i) k)) (seq 0 NB)) (seq 0 (length (impls st))) = true).
    { apply existsb_exists. exists i. split; [apply in_seq; lia|]. apply existsb_exists. exists k'. split; [apply in_seq; lia|].
      rewrite E. rewrite !Nat.eqb_refl. apply Nat.eqb_neq in Nk. rewrite Nk. reflexivity. }
    congruence.
  - assert (X : existsb (fun j => existsb (fun k'0 => negb ((j =? i) && (k'0 =? k)) && (bufs (getI st j) k'0 =? bufs (getI st i) k)) (seq 0 NB)) (seq 0 (length (impls st))) = true).
    { apply existsb_exists. exists j. split; [apply in_seq; lia|]. apply existsb_exists. exists k'. split; [apply in_seq; lia|].
      rewrite E. rewrite Nat.eqb_refl. apply Nat.eqb_neq in Nj. rewrite Nj. reflexivity. }
    congruence.
Qed.

Lemma make_unique_k_spec : forall base st i k,
  wf st -> i < length (impls st) -> base <= i -> k < NB ->
  let st' := make_unique_k st i k in
  trans base [i] st st' /\ length (impls st') = length (impls st) /\
  uniq st' i k /\ (forall k0, k0 < NB -> uniq st i k0 -> uniq st' i k0) /\
  plain (getI st' i) = plain (getI st i) /\
  (forall k0, k0 < NB -> heap st' (bufs (getI st' i) k0) = heap st (bufs (getI st i) k0)).
Proof.
  intros base st i k W Hi Hb Hk. unfold make_unique_k. destruct (shared st i k) eqn:Sh; cbv zeta.
  2:{ split; [apply trans_refl; auto|]. split; auto. split; [apply shared_false_uniq; auto|]. auto. }
  set (st0 := mkSt (upd (heap st) (nextb st) (heap st (bufs (getI st i) k))) (S (nextb st)) (impls st)).
  change (mkSt _ _ (set_nth (impls st) i ?im)) with (set_impl st0 i im).
  assert (T : trans base [i] st (set_impl st0 i (mkImpl (upd (bufs (getI st i)) k (nextb st)) (plain (getI st i))))).
  { apply trans_set_bufs; simpl; auto.
    - intros b Hb'. unfold upd. destruct (b =? nextb st) eqn:E; auto. apply Nat.eqb_eq in E; lia.
    - intros k0 Hk0. unfold upd. destruct (k0 =? k) eqn:E; [left; lia|].
      right. exists i, k0. auto. }
  split; auto. split; [simpl; apply length_set_nth|].
  assert (G : getI (set_impl st0 i (mkImpl (upd (bufs (getI st i)) k (nextb st)) (plain (getI st i)))) i
              = mkImpl (upd (bufs (getI st i)) k (nextb st)) (plain (getI st i))) by (apply getI_set_impl_eq; auto).
  assert (GN : forall j, j <> i -> getI (set_impl st0 i (mkImpl (upd (bufs (getI st i)) k (nextb st)) (plain (getI st i)))) j = getI st j).
  { intros. rewrite getI_set_impl_neq by auto. reflexivity. }
  split; [|split; [|split]].
  - intros j k' Hj Hk'. simpl in Hj. rewrite length_set_nth in Hj. rewrite G. simpl. unfold upd at 2. rewrite Nat.eqb_refl.
    destruct (Nat.eq_dec j i) as [->|N].
    + rewrite G; simpl. unfold upd. destruct (k' =? k) eqn:E; [apply Nat.eqb_eq in E; auto|].
      intro X. specialize (W i k' Hi Hk'). lia.
    + rewrite GN by auto. intro X. specialize (W j k' Hj Hk'). lia.
  - intros k0 Hk0 U j k' Hj Hk'. simpl in Hj. rewrite length_set_nth in Hj. rewrite G. simpl.
    unfold upd at 2. destruct (k0 =? k) eqn:E0.
    + apply Nat.eqb_eq in E0; subst k0.
      destruct (Nat.eq_dec j i) as [->|N].
      * rewrite G; simpl. unfold upd. destruct (k' =? k) eqn:E; [apply Nat.eqb_eq in E; auto|].
        intro X. specialize (W i k' Hi Hk'). lia.
      * rewrite GN by auto. intro X. specialize (W j k' Hj Hk'). lia.
    + destruct (Nat.eq_dec j i) as [->|N].
      * rewrite G; simpl. unfold upd. destruct (k' =? k) eqn:E.
        -- intro X. specialize (W i k0 Hi Hk0). lia.
        -- intro X. apply (U i k' Hi Hk' X).
      * rewrite GN by auto. intro X. apply (U j k' Hj Hk' X).
  - rewrite G; reflexivity.
  - intros k0 Hk0. rewrite G; simpl. unfold upd. destruct (k0 =? k) eqn:E.
    + rewrite Nat.eqb_refl. apply Nat.eqb_eq in E; subst; auto.
    + specialize (W i k0 Hi Hk0). destruct (bufs (getI st i) k0 =? nextb st) eqn:E1; auto.
      apply Nat.eqb_eq in E1. lia.
Qed.

Lemma make_unique_spec : forall base st i,
  wf st -> i < length (impls st) -> base <= i ->
  let st' := make_unique st i in
  trans base [i] st st' /\ length (impls st') = length (impls st) /\
  (forall k, k < NB -> uniq st' i k) /\
  plain (getI st' i) = plain (getI st i) /\
  (forall k0, k0 < NB -> heap st' (bufs (getI st' i) k0) = heap st (bufs (getI st i) k0)).
Proof.
  intros base st i W Hi Hb. unfold make_unique.
  destruct (make_unique_k_spec base st i 0 W Hi Hb ltac:(unfold NB; lia)) as (T0 & L0 & U0 & K0 & P0 & H0).
  set (s0 := make_unique_k st i 0) in *.
  assert (W0 : wf s0) by apply T0.
  destruct (make_unique_k_spec base s0 i 1 W0 ltac:(lia) Hb ltac:(unfold NB; lia)) as (T1 & L1 & U1 & K1 & P1 & H1).
  set (s1 := make_unique_k s0 i 1) in *.
  assert (W1 : wf s1) by apply T1.
  destruct (make_unique_k_spec base s1 i 2 W1 ltac:(lia) Hb ltac:(unfold NB; lia)) as (T2 & L2 & U2 & K2 & P2 & H2).
  set (s2 := make_unique_k s1 i 2) in *.
  cbv zeta. split; [|split; [lia|split; [|split]]].
  - eapply trans_trans; [eapply trans_trans; [exact T0|exact T1|]|exact T2|]; simpl; intuition.
  - intros k Hk. unfold NB in *.
    assert (k = 0 \/ k = 1 \/ k = 2) as [->|[->| ->]] by lia.
    + apply K2; [lia|]. apply K1; [lia|]. exact U0.
    + apply K2; [lia|]. exact U1.
    + exact U2.
  - congruence.
  - intros k0 Hk0. rewrite H2, H1, H0; auto.
Qed.

(* -------- the other primitives *)
Lemma getI_app_old : forall st st' x j, impls st' = impls st ++ [x] -> j < length (impls st) -> getI st' j = getI st j.
Proof. intros. unfold getI. rewrite H. apply app_nth1; auto. Qed.

Lemma getI_app_new : forall st st' x, impls st' = impls st ++ [x] -> getI st' (length (impls st)) = x.
Proof. intros. unfold getI. rewrite H. rewrite app_nth2 by lia. rewrite Nat.sub_diag. reflexivity. Qed.

Lemma new_fresh_spec : forall base st, wf st ->
  let st' := new_fresh st in
  trans base [] st st' /\ length (impls st') = S (length (impls st)) /\
  (forall k, k < NB -> uniq st' (length (impls st)) k).
Proof.
  intros base st W. cbv zeta.
  assert (EI : impls (new_fresh st) = impls st ++ [mkImpl (fresh_bufs st) []]) by reflexivity.
  assert (L : length (impls (new_fresh st)) = S (length (impls st))) by (rewrite EI, app_length; simpl; lia).
  assert (GN := getI_app_new st _ _ EI).
  assert (GO := fun j => getI_app_old st _ _ j EI).
  split; [|split; auto].
  - unfold trans. split; [|split; [lia|split]].
    + intros j k Hj Hk. rewrite L in Hj. change (nextb (new_fresh st)) with (nextb st + NB).
      destruct (Nat.eq_dec j (length (impls st))) as [->|N].
      * rewrite GN. simpl. unfold fresh_bufs. lia.
      * rewrite GO by lia. specialize (W j k ltac:(lia) Hk). lia.
    + intros j Hj _. split; [apply GO; auto|]. intros k Hk U j1 k1 Hj1 Hk1. rewrite L in Hj1. rewrite (GO j) by auto.
      destruct (Nat.eq_dec j1 (length (impls st))) as [->|N].
      * rewrite GN. simpl. unfold fresh_bufs. intro X. specialize (W j k Hj Hk). lia.
      * rewrite GO by lia. apply U; auto; lia.
    + intros j Hj Hl. split; [apply GO; auto|].
      intros k Hk. simpl. specialize (W j k Hl Hk).
      destruct (nextb st <=? bufs (getI st j) k) eqn:E; simpl; auto. apply Nat.leb_le in E. lia.
  - intros k Hk j k' Hj Hk'. rewrite L in Hj. rewrite GN. simpl. unfold fresh_bufs.
    destruct (Nat.eq_dec j (length (impls st))) as [->|N].
    + rewrite GN. simpl. unfold fresh_bufs. intro; split; auto; lia.
    + rewrite GO by lia. intro X. specialize (W j k' ltac:(lia) Hk'). lia.
Qed.

Lemma uniq_same_bufs : forall st st' i k,
  length (impls st') = length (impls st) ->
  (forall j, bufs (getI st' j) = bufs (getI st j)) ->
  uniq st i k -> uniq st' i k.
Proof.
  unfold uniq; intros st st' i k L B U j k' Hj Hk'. rewrite !B. apply U; auto. lia.
Qed.

Lemma new_copy_spec : forall base st i, wf st -> i < length (impls st) ->
  let st' := new_copy st i in
  trans base [] st st' /\ length (impls st') = S (length (impls st)) /\
  (forall k, k < NB -> uniq st' (length (impls st)) k).
Proof.
  intros base st i W Hi. cbv zeta.
  assert (EI : impls (new_copy st i) = impls st ++ [mkImpl (fresh_bufs st) (plain (getI st i))]) by reflexivity.
  assert (L : length (impls (new_copy st i)) = S (length (impls st))) by (rewrite EI, app_length; simpl; lia).
  assert (GN := getI_app_new st _ _ EI).
  assert (GO := fun j => getI_app_old st _ _ j EI).
  split; [|split; auto].
  - unfold trans. split; [|split; [lia|split]].
    + intros j k Hj Hk. rewrite L in Hj. change (nextb (new_copy st i)) with (nextb st + NB).
      destruct (Nat.eq_dec j (length (impls st))) as [->|N].
      * rewrite GN. simpl. unfold fresh_bufs. lia.
      * rewrite GO by lia. specialize (W j k ltac:(lia) Hk). lia.
    + intros j Hj _. split; [apply GO; auto|]. intros k Hk U j1 k1 Hj1 Hk1. rewrite L in Hj1. rewrite (GO j) by auto.
      destruct (Nat.eq_dec j1 (length (impls st))) as [->|N].
      * rewrite GN. simpl. unfold fresh_bufs. intro X. specialize (W j k Hj Hk). lia.
      * rewrite GO by lia. apply U; auto; lia.
    + intros j Hj Hl. split; [apply GO; auto|].
      intros k Hk. simpl. specialize (W j k Hl Hk).
      destruct (nextb st <=? bufs (getI st j) k) eqn:E; simpl; auto. apply Nat.leb_le in E. lia.
  - intros k Hk j k' Hj Hk'. rewrite L in Hj. rewrite GN. simpl. unfold fresh_bufs.
    destruct (Nat.eq_dec j (length (impls st))) as [->|N].
    + rewrite GN. simpl. unfold fresh_bufs. intro; split; auto; lia.
    + rewrite GO by lia. intro X. specialize (W j k' ltac:(lia) Hk'). lia.
Qed.

Lemma write_buf_spec : forall base st i k d, wf st -> i < length (impls st) -> base <= i -> uniq st i k ->
  trans base [] st (write_buf st i k d).
Proof.
  intros base st i k d W Hi Hb U. unfold trans. split; [|split; [simpl; lia|split]].
  - exact W.
  - intros j Hj _. split; [reflexivity|]. intros k0 Hk0 U0. apply (uniq_same_bufs st); auto.
  - intros j Hj Hl. split; [reflexivity|]. intros k0 Hk0. simpl. unfold upd.
    destruct (bufs (getI st j) k0 =? bufs (getI st i) k) eqn:E; auto.
    apply Nat.eqb_eq in E. destruct (U j k0 Hl Hk0 E). lia.
Qed.

Lemma write_plain_spec : forall base st i d, wf st -> i < length (impls st) -> base <= i ->
  let st' := write_plain st i d in
  trans base [i] st st' /\ (forall j k, uniq st j k -> uniq st' j k) /\ length (impls st') = length (impls st).
Proof.
  intros base st i d W Hi Hb. cbv zeta. split; [|split].
  - unfold write_plain. apply trans_set_bufs; simpl; auto.
    intros k Hk. right. exists i, k. simpl; auto.
  - intros j k U. apply (uniq_same_bufs st); auto.
    + simpl. apply length_set_nth.
    + intro j0. unfold write_plain. destruct (Nat.eq_dec i j0) as [<-|N].
      * rewrite getI_set_impl_eq; auto.
      * rewrite getI_set_impl_neq; auto.
  - simpl. apply length_set_nth.
Qed.

Lemma assign_fresh_spec : forall base st i d, wf st -> i < length (impls st) -> base <= i ->
  let st' := assign_fresh st i d in
  trans base [i] st st' /\ (forall k, k < NB -> uniq st' i k) /\ length (impls st') = length (impls st).
Proof.
  intros base st i d W Hi Hb. cbv zeta. split; [|split].
  - unfold assign_fresh. apply trans_set_bufs; simpl; auto; try lia.
    + intros b Hb'. destruct (nextb st <=? b) eqn:E; simpl; auto. apply Nat.leb_le in E. lia.
    + intros k Hk. left. unfold fresh_bufs. lia.
  - intros k Hk j k' Hj Hk'. unfold assign_fresh in *. simpl in Hj. rewrite length_set_nth in Hj. simpl in Hj.
    rewrite (getI_set_impl_eq (alloc st d) i) by (simpl; auto). simpl.
    destruct (Nat.eq_dec i j) as [<-|N].
    + rewrite getI_set_impl_eq by (simpl; auto). simpl. unfold fresh_bufs. intro; split; auto; lia.
    + rewrite getI_set_impl_neq by auto. intro X. specialize (W j k' Hj Hk'). unfold fresh_bufs in X.
      change (getI (alloc st d) j) with (getI st j) in X. lia.
  - simpl. apply length_set_nth.
Qed.

Lemma assign_share_spec : forall base st i j, wf st -> i < length (impls st) -> j < length (impls st) -> base <= i ->
  let st' := assign_share st i j in
  trans base [i; j] st st' /\ length (impls st') = length (impls st).
Proof.
  intros base st i j W Hi Hj Hb. cbv zeta. split.
  - unfold assign_share. apply trans_set_bufs; simpl; auto.
    intros k Hk. right. exists j, k. simpl; auto.
  - simpl. apply length_set_nth.
Qed.

(* ------------------------------------------------ abstract/concrete frames *)
Definition obj_ok (base : nat) (st : mstate) (i : nat) (a : option aobj) : Prop :=
  match a with
  | Some ABorrowed => i < base
  | Some (AOwned u) => base <= i /\ forall k, k < NB -> u k = true -> uniq st i k
  | None => False
  end.

Definition sat (base : nat) (af : list aobj) (fr : list nat) (st : mstate) : Prop :=
  length af = length fr /\
  (forall o i, nth_error fr o = Some i -> i < length (impls st)) /\
  (forall o o' i, nth_error fr o = Some i -> nth_error fr o' = Some i -> base <= i -> o = o') /\
  (forall o i, nth_error fr o = Some i -> obj_ok base st i (nth_error af o)).

Lemma obj_ok_trans : forall base T st st' i a,
  trans base T st st' -> i < length (impls st) -> ~ In i T -> obj_ok base st i a -> obj_ok base st' i a.
Proof.
  intros base T st st' i a (W & L & F & P) Hi Hn H. destruct a as [[|u]|]; simpl in *; auto.
  destruct H as [Hb U]. split; auto. intros k Hk Hu. apply (F i Hi Hn); auto.
Qed.

Lemma sat_step : forall base af af' fr st st' T,
  sat base af fr st -> trans base T st st' -> length af' = length af ->
  (forall o i, nth_error fr o = Some i -> ~ In i T -> nth_error af' o = nth_error af o) ->
  (forall o i, nth_error fr o = Some i -> In i T -> obj_ok base st' i (nth_error af' o)) ->
  sat base af' fr st'.
Proof.
  intros base af af' fr st st' T (L & B & D & O) Tr L' Same Touched.
  split; [lia|]. split; [|split; auto].
  - intros o i H. specialize (B o i H). destruct Tr as (_ & X & _). lia.
  - intros o i H. destruct (in_dec Nat.eq_dec i T) as [I|N].
    + apply Touched; auto.
    + rewrite (Same o i H N). eapply obj_ok_trans; eauto.
Qed.

Lemma sat_extend : forall base af fr st n u,
  sat base af fr st -> length (impls st) = S n ->
  (forall o i, nth_error fr o = Some i -> i < n) -> base <= n ->
  (forall k, k < NB -> u k = true -> uniq st n k) ->
  sat base (af ++ [AOwned u]) (fr ++ [n]) st.
Proof.
  intros base af fr st n u (L & B & D & O) Ln Lt Hb U.
  assert (NE : forall o i, nth_error (fr ++ [n]) o = Some i ->
             (o < length fr /\ nth_error fr o = Some i) \/ (o = length fr /\ i = n)).
  { intros o i H. destruct (Nat.lt_ge_cases o (length fr)).
    - left. rewrite nth_error_app1 in H; auto.
    - right. rewrite nth_error_app2 in H by auto. destruct (o - length fr) eqn:E; simpl in H.
      + inversion H. split; auto; lia.
      + destruct n0; discriminate. }
  split; [rewrite !app_length; simpl; lia|]. split; [|split].
  - intros o i H. destruct (NE o i H) as [[_ H']|[_ ->]]; [specialize (B o i H')|]; lia.
  - intros o o' i H H' Hi. destruct (NE o i H) as [[X1 H1]|[X1 Y1]]; destruct (NE o' i H') as [[X2 H2]|[X2 Y2]].
    + eapply D; eauto. + subst. specialize (Lt _ _ H1). lia.
    + subst. specialize (Lt _ _ H2). lia. + lia.
  - intros o i H. destruct (NE o i H) as [[X1 H1]|[X1 Y1]].
    + rewrite nth_error_app1 by lia. apply O; auto.
    + subst. rewrite nth_error_app2 by lia. rewrite L, Nat.sub_diag. simpl. auto.
Qed.

Lemma le_obj_ok : forall base st i m a, le_obj m a = true -> obj_ok base st i (Some a) -> obj_ok base st i (Some m).
Proof.
  intros base st i m a H O. destruct m as [|u], a as [|v]; cbn [le_obj obj_ok] in *; try discriminate; auto.
  destruct O as [Hb U]. split; auto. intros k Hk Hu. apply U; auto.
  rewrite forallb_forall in H. specialize (H k ltac:(apply in_seq; lia)). rewrite Hu in H. simpl in H. auto.
Qed.

Lemma le_fr_nth : forall m a o x, le_fr m a = true -> nth_error m o = Some x ->
  exists y, nth_error a o = Some y /\ le_obj x y = true.
Proof.
  induction m as [|x0 m IH]; intros a o x H N; [destruct o; discriminate|].
  destruct a as [|y0 a]; simpl in H; [discriminate|]. apply andb_true_iff in H. destruct H as [H1 H2].
  destruct o; simpl in N.
  - inversion N; subst. exists y0; auto.
  - apply (IH a o x H2 N).
Qed.

Lemma sat_restrict_weaken : forall base af2 fr news st m,
  sat base af2 (fr ++ news) st -> le_fr m af2 = true -> length m = length fr -> sat base m fr st.
Proof.
  intros base af2 fr news st m (L & B & D & O) Le Lm.
  assert (NE : forall o i, nth_error fr o = Some i -> nth_error (fr ++ news) o = Some i).
  { intros o i H. rewrite nth_error_app1; auto. eapply nth_error_lt; eauto. }
  split; auto. split; [|split].
  - intros o i H. eapply B; eauto.
  - intros o o' i H H' Hi. eapply D; eauto.
  - intros o i H. specialize (O o i (NE o i H)).
    destruct (nth_error m o) eqn:E.
    + destruct (le_fr_nth m af2 o a Le E) as (y & Y1 & Y2). rewrite Y1 in O. eapply le_obj_ok; eauto.
    + apply nth_error_None in E. apply nth_error_lt in H. lia.
Qed.

(* ------------------------------------------------ soundness of the checker *)
Definition post (base : nat) (af' : list aobj) (fr : list nat) (st : mstate) (r : xres) : Prop :=
  match r with
  | (fr', st', _, h) =>
    trans base fr st st' /\
    (exists news, fr' = fr ++ news /\ Forall (fun n => length (impls st) <= n) news) /\
    (h = false -> sat base af' fr' st')
  end.

Lemma post_seq : forall base af1 af' fr st fr1 st1 ch1 r,
  post base af1 fr st (fr1, st1, ch1, false) -> post base af' fr1 st1 r -> post base af' fr st r.
Proof.
  intros base af1 af' fr st fr1 st1 ch1 [[[fr' st'] ch'] h] (T1 & (n1 & E1 & F1) & _) (T2 & (n2 & E2 & F2) & S2).
  simpl. split; [|split; auto].
  - eapply trans_trans; eauto. intros x Hx. subst fr1. apply in_app_or in Hx. destruct Hx; auto.
    right. rewrite Forall_forall in F1. auto.
  - exists (n1 ++ n2). split; [subst; rewrite app_assoc; auto|]. apply Forall_app. split; auto.
    eapply Forall_impl; [|exact F2]. intros a Ha. destruct T1 as (_ & L & _). simpl in *. lia.
Qed.

Lemma continue_post : forall base (k : list nat -> mstate -> list data -> option xres) af1 af' fr st r0 r,
  (forall fr1 st1 ch1 r, sat base af1 fr1 st1 -> wf st1 -> base <= length (impls st1) ->
                         k fr1 st1 ch1 = Some r -> post base af' fr1 st1 r) ->
  base <= length (impls st) ->
  post base af1 fr st r0 ->
  continue_with k (Some r0) = Some r -> post base af' fr st r.
Proof.
  intros base k af1 af' fr st [[[fr1 st1] ch1] h1] r K B P C. simpl in C. destruct h1.
  - inversion C; subst. destruct P as (T & N & _). simpl. split; auto. split; auto. discriminate.
  - eapply post_seq; [exact P|]. destruct P as (T & N & S). eapply K; eauto. apply T. destruct T as (_ & L & _). lia.
Qed.

Lemma obj_ok_mono : forall base st st' i a,
  (forall k, uniq st i k -> uniq st' i k) -> obj_ok base st i a -> obj_ok base st' i a.
Proof. intros base st st' i [[|u]|] H O; simpl in *; auto. destruct O; split; auto. Qed.

Lemma touched_clear : forall base af fr st s i a,
  sat base af fr st -> nth_error fr s = Some i -> nth_error af s = Some a ->
  forall o st', nth_error fr o = Some i -> obj_ok base st' i (nth_error (set_nth af s (clear_obj a)) o).
Proof.
  intros base af fr st s i a (L & B & D & O) Fs As o st' Fo.
  assert (Hs : s < length af) by (eapply nth_error_lt; eauto).
  pose proof (O s i Fs) as Os. rewrite As in Os.
  destruct (Nat.eq_dec s o) as [<-|N].
  - rewrite nth_error_set_nth_eq by auto. destruct a; simpl in *; auto. destruct Os; split; auto. intros; discriminate.
  - rewrite nth_error_set_nth_neq by auto. pose proof (O o i Fo) as Oo.
    destruct (nth_error af o) as [[|u]|]; simpl in *; auto. destruct Oo as [Hb _].
    exfalso. apply N. eapply D; eauto.
Qed.

Lemma touched_owned : forall base af fr st o i v,
  sat base af fr st -> nth_error fr o = Some i -> base <= i ->
  forall o', nth_error fr o' = Some i -> nth_error (set_nth af o v) o' = Some v.
Proof.
  intros base af fr st o i v (L & B & D & O) Fo Hb o' Fo'.
  assert (o' = o) by (eapply D; eauto). subst.
  apply nth_error_set_nth_eq. rewrite L. eapply nth_error_lt; eauto.
Qed.

Lemma owned_base : forall base af fr st o i u,
  sat base af fr st -> nth_error fr o = Some i -> nth_error af o = Some (AOwned u) ->
  base <= i /\ i < length (impls st) /\ forall k, k < NB -> u k = true -> uniq st i k.
Proof.
  intros base af fr st o i u (L & B & D & O) Fo Ao. specialize (O o i Fo). rewrite Ao in O. simpl in O.
  destruct O as [O1 O2]. split; [auto|]. split; [eapply B; eauto|exact O2].
Qed.

Lemma all_some_map_nth : forall A (f : nat -> option A) args r, all_some (map f args) = Some r ->
  length r = length args /\
  forall p x, nth_error r p = Some x -> exists o, nth_error args p = Some o /\ f o = Some x.
Proof.
  intros A f args r H. destruct (all_some_nth _ _ _ H) as [L N]. rewrite map_length in L. split; auto.
  intros p x Hx. specialize (N p). rewrite Hx in N. simpl in N. rewrite nth_error_map in N.
  destruct (nth_error args p) as [o|]; simpl in N; [|discriminate]. exists o. split; auto. congruence.
Qed.

Lemma all_some_map_nth2 : forall A (f : nat -> option A) args r, all_some (map f args) = Some r ->
  forall p o, nth_error args p = Some o -> exists x, nth_error r p = Some x /\ f o = Some x.
Proof.
  intros A f args r H p o Hp. destruct (all_some_nth _ _ _ H) as [L N]. specialize (N p).
  rewrite nth_error_map, Hp in N. simpl in N. destruct (nth_error r p) as [x|]; simpl in N; [|discriminate].
  exists x. split; auto. congruence.
Qed.

Lemma pos_Some : forall o l p, pos o l = Some p -> nth_error l p = Some o.
Proof.
  induction l as [|x l IH]; simpl; intros p H; [discriminate|].
  destruct (x =? o) eqn:E. { inversion H; subst. apply Nat.eqb_eq in E. subst; auto. }
  destruct (pos o l); [|discriminate]. inversion H; subst. simpl. auto.
Qed.

Lemma pos_None : forall o l, pos o l = None -> ~ In o l.
Proof.
  induction l as [|x l IH]; simpl; intros H; [tauto|].
  destruct (x =? o) eqn:E; [discriminate|]. destruct (pos o l); [discriminate|].
  apply Nat.eqb_neq in E. intros [X|X]; auto. apply IH; auto.
Qed.

Lemma nodupb_NoDup : forall l, nodupb l = true -> NoDup l.
Proof.
  induction l as [|x l IH]; simpl; intros H; [constructor|]. apply andb_true_iff in H. destruct H as [H1 H2].
  constructor; auto. intro I. apply negb_true_iff in H1.
  assert (existsb (Nat.eqb x) l = true) by (apply existsb_exists; exists x; split; auto; apply Nat.eqb_refl). congruence.
Qed.

Lemma combine_seq_nth : forall A (af : list A) s o,
  nth_error (combine (seq s (length af)) af) o = option_map (fun a => (s + o, a)) (nth_error af o).
Proof.
  induction af as [|y af IH]; intros s o; simpl; [destruct o; reflexivity|].
  destruct o; simpl. - rewrite Nat.add_0_r. reflexivity.
  - rewrite IH. replace (S s + o) with (s + S o) by lia. reflexivity.
Qed.

Lemma wb_nth : forall args vals af o,
  nth_error (write_back args vals af) o =
  match nth_error af o with
  | None => None
  | Some a => Some (match pos o args with
                    | Some p => match nth_error vals p with Some a' => a' | None => a end
                    | None => a end)
  end.
Proof.
  intros. unfold write_back. rewrite nth_error_map, combine_seq_nth.
  destruct (nth_error af o); reflexivity.
Qed.

Lemma iter_sound : forall base m af2 fr (run : mstate -> list data -> option xres),
  le_fr m af2 = true -> length m = length fr ->
  (forall st ch r, sat base m fr st -> wf st -> base <= length (impls st) ->
                   run st ch = Some r -> post base af2 fr st r) ->
  forall n st ch r, sat base m fr st -> wf st -> base <= length (impls st) ->
    iter_block run fr n st ch = Some r -> post base m fr st r.
Proof.
  intros base m af2 fr run Le Lm BI. induction n as [|n IHn]; intros st ch r S W B E; simpl in E.
  - inversion E; subst. simpl. split; [apply trans_refl; auto|]. split; auto. exists []. rewrite app_nil_r; auto.
  - destruct (run st ch) as [[[[frx st1] ch1] h1]|] eqn:R; [|discriminate].
    pose proof (BI st ch _ S W B R) as (T & (news & EN & FN) & SS).
    destruct h1.
    + inversion E; subst. simpl. split; auto. split; [exists []; rewrite app_nil_r; auto|discriminate].
    + assert (S1 : sat base m fr st1). { eapply sat_restrict_weaken; eauto. rewrite <- EN. auto. }
      assert (P1 : post base m fr st (fr, st1, ch1, false)).
      { simpl. split; auto. split; auto. exists []. rewrite app_nil_r; auto. }
      eapply post_seq; [exact P1|]. apply (IHn st1 ch1); auto. apply T. destruct T as (_ & L & _). lia.
Qed.

Lemma exec_sound : forall tbl base fe fc es af af' fr st ch r,
  check fc tbl es af = Some af' -> sat base af fr st -> wf st -> base <= length (impls st) ->
  exec fe tbl es fr st ch = Some r -> post base af' fr st r.
Proof.
  intros tbl base. induction fe as [|fe IH]; intros fc es af af' fr st ch r C S W B E; [discriminate|].
  destruct fc as [|fc]; [discriminate|].
  destruct es as [|e rest].
  { simpl in C, E. inversion C; inversion E; subst. simpl. split; [apply trans_refl; auto|]. split; auto.
    exists []. rewrite app_nil_r; auto. }
  assert (K : forall af1, check fc tbl rest af1 = Some af' -> forall fr1 st1 ch1 r,
             sat base af1 fr1 st1 -> wf st1 -> base <= length (impls st1) ->
             exec fe tbl rest fr1 st1 ch1 = Some r -> post base af' fr1 st1 r).
  { intros; eapply IH; eauto. }
  assert (HALT : post base af' fr st (fr, st, @nil data, true)).
  { simpl. split; [apply trans_refl; auto|]. split; [exists []; rewrite app_nil_r; auto|discriminate]. }
  pose proof S as (SL & SB & SD & SO).
  assert (INFR : forall o i, nth_error fr o = Some i -> In i fr) by (intros; eapply nth_error_In; eauto).
  destruct e; cbn [check exec] in C, E.
  - (* ENewFresh *)
    eapply continue_post; [apply (K _ C)|auto| |exact E].
    destruct (new_fresh_spec base st W) as (T & L & U).
    simpl. split; [eapply trans_weaken; [exact T|intros x []]|].
    split; [exists [length (impls st)]; split; auto|]. intros _.
    apply sat_extend; auto.
    + eapply sat_step with (T := []); eauto; intros ? ? _ [].
  - (* ENewCopy *)
    destruct (nth_error af src) as [a|] eqn:As; [|discriminate].
    destruct (nth_error fr src) as [i|] eqn:Fs; [|discriminate].
    assert (Hi := SB _ _ Fs).
    eapply continue_post; [apply (K _ C)|auto| |exact E].
    destruct (new_copy_spec base st i W Hi) as (T & L & U).
    simpl. split; [eapply trans_weaken; [exact T|intros x []]|].
    split; [exists [length (impls st)]; split; auto|]. intros _.
    apply sat_extend; auto.
    + eapply sat_step with (T := []); eauto; intros ? ? _ [].
  - (* EMakeUnique *)
    destruct (nth_error af o) as [[|u]|] eqn:Ao; try discriminate.
    destruct (nth_error fr o) as [i|] eqn:Fo; [|discriminate].
    destruct (owned_base _ _ _ _ _ _ _ S Fo Ao) as (Hb & Hi & _).
    eapply continue_post; [apply (K _ C)|auto| |exact E].
    destruct (make_unique_spec base st i W Hi Hb) as (T & L & U & _).
    simpl. split; [eapply trans_weaken; [exact T|intros x [<-|[]]; eauto]|].
    split; [exists []; rewrite app_nil_r; auto|]. intros _.
    eapply sat_step with (T := [i]); eauto.
    + apply length_set_nth.
    + intros o' i0 Fo' Hn. apply nth_error_set_nth_neq. intro; subst. rewrite Fo in Fo'. inversion Fo'; subst. simpl in Hn; tauto.
    + intros o' i0 Fo' [<-|[]]. erewrite touched_owned; eauto. simpl. split; auto.
  - (* EWrite *)
    destruct (nth_error af o) as [[|u]|] eqn:Ao; try discriminate.
    destruct ((k <? NB) && u k) eqn:Ck; [|discriminate]. apply andb_true_iff in Ck. destruct Ck as [Ck Uk].
    destruct (nth_error fr o) as [i|] eqn:Fo; [|discriminate]. rewrite Ck in E.
    destruct (owned_base _ _ _ _ _ _ _ S Fo Ao) as (Hb & Hi & UU).
    destruct ch as [|d ch1]. { inversion E; subst. exact HALT. }
    eapply continue_post; [apply (K _ C)|auto| |exact E].
    apply Nat.ltb_lt in Ck.
    pose proof (write_buf_spec base st i k d W Hi Hb (UU k Ck Uk)) as T.
    simpl. split; [eapply trans_weaken; [exact T|intros x []]|].
    split; [exists []; rewrite app_nil_r; auto|]. intros _.
    eapply sat_step with (T := []); eauto; intros ? ? _ [].
  - (* EWritePlain *)
    destruct (nth_error af o) as [[|u]|] eqn:Ao; try discriminate.
    destruct (nth_error fr o) as [i|] eqn:Fo; [|discriminate].
    destruct (owned_base _ _ _ _ _ _ _ S Fo Ao) as (Hb & Hi & UU).
    destruct ch as [|d ch1]. { inversion E; subst. exact HALT. }
    eapply continue_post; [apply (K _ C)|auto| |exact E].
    destruct (write_plain_spec base st i d W Hi Hb) as (T & UP & L).
    simpl. split; [eapply trans_weaken; [exact T|intros x [<-|[]]; eauto]|].
    split; [exists []; rewrite app_nil_r; auto|]. intros _.
    eapply sat_step with (T := [i]); eauto.
    intros o' i0 Fo' [<-|[]]. eapply obj_ok_mono; [|apply SO; auto]. intros; apply UP; auto.
  - (* EAssignFresh *)
    destruct (nth_error af o) as [[|u]|] eqn:Ao; try discriminate.
    destruct (nth_error fr o) as [i|] eqn:Fo; [|discriminate].
    destruct (owned_base _ _ _ _ _ _ _ S Fo Ao) as (Hb & Hi & UU).
    destruct ch as [|d ch1]. { inversion E; subst. exact HALT. }
    eapply continue_post; [apply (K _ C)|auto| |exact E].
    destruct (assign_fresh_spec base st i d W Hi Hb) as (T & U & L).
    simpl. split; [eapply trans_weaken; [exact T|intros x [<-|[]]; eauto]|].
    split; [exists []; rewrite app_nil_r; auto|]. intros _.
    eapply sat_step with (T := [i]); eauto.
    + apply length_set_nth.
    + intros o' i0 Fo' Hn. apply nth_error_set_nth_neq. intro; subst. rewrite Fo in Fo'. inversion Fo'; subst. simpl in Hn; tauto.
    + intros o' i0 Fo' [<-|[]]. erewrite touched_owned; eauto. simpl. split; auto.
  - (* EAssignShare *)
    destruct (nth_error af o) as [[|u]|] eqn:Ao; try discriminate.
    destruct (nth_error af src) as [a|] eqn:As; [|discriminate].
    destruct (o =? src) eqn:Eos; [discriminate|]. apply Nat.eqb_neq in Eos.
    destruct (nth_error fr o) as [i|] eqn:Fo; [|discriminate].
    destruct (nth_error fr src) as [j|] eqn:Fs; [|discriminate].
    destruct (owned_base _ _ _ _ _ _ _ S Fo Ao) as (Hb & Hi & UU).
    assert (Hj := SB _ _ Fs).
    eapply continue_post; [apply (K _ C)|auto| |exact E].
    destruct (assign_share_spec base st i j W Hi Hj Hb) as (T & L).
    simpl. split; [eapply trans_weaken; [exact T|intros x [<-|[<-|[]]]; eauto]|].
    split; [exists []; rewrite app_nil_r; auto|]. intros _.
    eapply sat_step with (T := [i; j]); eauto.
    + rewrite !length_set_nth; auto.
    + intros o' i0 Fo' Hn. rewrite !nth_error_set_nth_neq; auto.
      * intro; subst. rewrite Fs in Fo'. inversion Fo'; subst. simpl in Hn; tauto.
      * intro; subst. rewrite Fo in Fo'. inversion Fo'; subst. simpl in Hn; tauto.
    + intros o' i0 Fo' Hin.
      destruct (Nat.eq_dec o o') as [<-|N].
      * rewrite nth_error_set_nth_eq. 2:{ rewrite length_set_nth, SL. eapply nth_error_lt; eauto. }
        rewrite Fo in Fo'. inversion Fo'; subst. simpl. split; auto. intros; discriminate.
      * rewrite nth_error_set_nth_neq by auto.
        assert (i0 = j).
        { destruct Hin as [<-|[<-|[]]]; auto. exfalso. apply N. eapply SD; eauto. }
        subst. eapply touched_clear; eauto.
  - (* EMoveOut *)
    destruct (nth_error af o) as [[|u]|] eqn:Ao; try discriminate.
    destruct (nth_error fr o) as [i|] eqn:Fo; [|discriminate].
    destruct (owned_base _ _ _ _ _ _ _ S Fo Ao) as (Hb & Hi & UU).
    eapply continue_post; [apply (K _ C)|auto| |exact E].
    destruct (assign_fresh_spec base st i [] W Hi Hb) as (T & U & L).
    simpl. split; [eapply trans_weaken; [exact T|intros x [<-|[]]; eauto]|].
    split; [exists []; rewrite app_nil_r; auto|]. intros _.
    eapply sat_step with (T := [i]); eauto.
    + apply length_set_nth.
    + intros o' i0 Fo' Hn. apply nth_error_set_nth_neq. intro; subst. rewrite Fo in Fo'. inversion Fo'; subst. simpl in Hn; tauto.
    + intros o' i0 Fo' [<-|[]]. erewrite touched_owned; eauto. simpl. split; auto; intros; discriminate.
  - (* ECall *)
    destruct (nth_error tbl f) as [fd|]; [|discriminate].
    destruct (all_some (map (nth_error af) args)) as [vals|] eqn:AV; [|discriminate].
    destruct ((length args =? fn_nparams fd) && nodupb args) eqn:Cc; [|discriminate].
    apply andb_true_iff in Cc. destruct Cc as [Cl Nd].
    destruct (check fc tbl (fn_body fd) vals) as [vals'|] eqn:CB; [|discriminate].
    destruct (all_some (map (nth_error fr) args)) as [cfr|] eqn:AF; [|discriminate].
    rewrite Cl in E.
    destruct (exec fe tbl (fn_body fd) cfr st ch) as [[[[cfrx st1] ch1] h]|] eqn:EB; [|discriminate].
    destruct (all_some_map_nth _ _ _ _ AV) as [LV NV]. destruct (all_some_map_nth _ _ _ _ AF) as [LF NF].
    assert (ND := nodupb_NoDup _ Nd).
    assert (Sc : sat base vals cfr st).
    { split; [lia|]. split; [|split].
      - intros p i Hp. destruct (NF p i Hp) as (o & _ & Ho). eapply SB; eauto.
      - intros p p' i Hp Hp' Hbi. destruct (NF p i Hp) as (o & Ao & Ho). destruct (NF p' i Hp') as (o' & Ao' & Ho').
        assert (o = o') by (eapply SD; eauto). subst o'.
        eapply (proj1 (NoDup_nth_error args) ND); [eapply nth_error_lt; eauto|congruence].
      - intros p i Hp. destruct (NF p i Hp) as (o & Ao & Ho).
        destruct (all_some_map_nth2 _ _ _ _ AV p o Ao) as (x & X1 & X2). rewrite X1. rewrite <- X2. apply SO; auto. }
    pose proof (IH fc _ _ _ _ _ _ _ CB Sc W B EB) as (Tc & (news & EN & FN) & Sc').
    eapply continue_post; [apply (K _ C)|auto| |exact E].
    assert (INC : incl cfr fr).
    { intros x Hx. apply In_nth_error in Hx. destruct Hx as [p Hp]. destruct (NF p x Hp) as (o & _ & Ho). eauto. }
    simpl. split; [eapply trans_weaken; eauto|]. split; [exists []; rewrite app_nil_r; auto|]. intros ->.
    specialize (Sc' eq_refl). subst cfrx. destruct Sc' as (SL' & SB' & SD' & SO').
    eapply sat_step with (T := cfr); eauto.
    + unfold write_back. rewrite map_length, combine_length, seq_length. lia.
    + intros o i Fo Hn. rewrite wb_nth. destruct (nth_error af o) eqn:Ao; auto.
      destruct (pos o args) as [p|] eqn:Pp; auto. exfalso. apply Hn.
      apply pos_Some in Pp. destruct (all_some_map_nth2 _ _ _ _ AF p o Pp) as (x & X1 & X2).
      rewrite Fo in X2. inversion X2; subst. eapply nth_error_In; eauto.
    + intros o i Fo Hin. rewrite wb_nth. pose proof (SO o i Fo) as Oo.
      destruct (nth_error af o) as [a|] eqn:Ao; [|simpl in Oo; tauto].
      destruct (pos o args) as [p|] eqn:Pp.
      * apply pos_Some in Pp. destruct (all_some_map_nth2 _ _ _ _ AF p o Pp) as (x & X1 & X2).
        rewrite Fo in X2. inversion X2; subst x.
        assert (X3 : nth_error (cfr ++ news) p = Some i) by (rewrite nth_error_app1; auto; eapply nth_error_lt; eauto).
        specialize (SO' p i X3). destruct (nth_error vals' p); [exact SO'|simpl in SO'; tauto].
      * apply pos_None in Pp. apply In_nth_error in Hin. destruct Hin as [p Hp]. destruct (NF p i Hp) as (o1 & A1 & H1).
        assert (o1 <> o) by (intro; subst; apply Pp; eapply nth_error_In; eauto).
        destruct a as [|u]; simpl in *; auto. destruct Oo as [Hbi _]. exfalso. apply H. eapply SD; eauto.
  - (* EBlock *)
    destruct (check fc tbl body af) as [af1|] eqn:C1; [|discriminate].
    destruct (le_fr af af1) eqn:Le0.
    { destruct ch as [|d ch1]. { inversion E; subst. exact HALT. }
      destruct (iter_block (exec fe tbl body fr) fr (length d) st ch1) as [r0|] eqn:IT; [|discriminate].
      eapply continue_post; [apply (K _ C)|auto| |exact E].
      eapply iter_sound with (af2 := af1) (run := exec fe tbl body fr); eauto; try lia. }
    set (m := meet_fr af af1) in *.
    destruct (check fc tbl body m) as [af2|] eqn:C2; [|discriminate].
    destruct (le_fr m af2 && le_fr m af && (length m =? length af)) eqn:Cc; [|discriminate].
    apply andb_true_iff in Cc. destruct Cc as [Cc Lm]. apply andb_true_iff in Cc. destruct Cc as [Le2 Le1].
    apply Nat.eqb_eq in Lm.
    destruct ch as [|d ch1]. { inversion E; subst. exact HALT. }
    destruct (iter_block (exec fe tbl body fr) fr (length d) st ch1) as [r0|] eqn:IT; [|discriminate].
    eapply continue_post; [apply (K _ C)|auto| |exact E].
    assert (Sm : sat base m fr st).
    { eapply sat_restrict_weaken with (news := []); eauto; try lia. rewrite app_nil_r. exact S. }
    eapply iter_sound with (af2 := af2) (run := exec fe tbl body fr); eauto; try lia.
Qed.

(* ------------------------------------------------------------ handle level *)
Definition hwf (hs : hstate) : Prop :=
  wf (mst hs) /\
  forall h i t, nth_error (handles hs) h = Some (Some (i, t)) -> i < length (impls (mst hs)).

Lemma obs_impl_eq : forall st st' j,
  getI st' j = getI st j ->
  (forall k, k < NB -> heap st' (bufs (getI st j) k) = heap st (bufs (getI st j) k)) ->
  obs_impl st' j = obs_impl st j.
Proof.
  intros st st' j G H. unfold obs_impl. rewrite G. f_equal.
  apply map_ext_in. intros k Hk. apply in_seq in Hk. apply H. lia.
Qed.

Lemma trans_obs : forall base T st st' j, trans base T st st' -> j < base -> j < length (impls st) ->
  obs_impl st' j = obs_impl st j.
Proof. intros base T st st' j (_ & _ & _ & P) Hb Hl. destruct (P j Hb Hl). apply obs_impl_eq; auto. Qed.

Local Opaque FUEL.

Lemma entry_sound : forall tbl fd fr st ch fr' st' ch' h,
  entry_ok tbl fd = true -> fn_entry fd = true -> wf st ->
  length fr = fn_nparams fd -> (forall o i, nth_error fr o = Some i -> i < length (impls st)) ->
  exec FUEL tbl (fn_body fd) fr st ch = Some (fr', st', ch', h) ->
  wf st' /\ length (impls st) <= length (impls st') /\
  forall j, j < length (impls st) -> obs_impl st' j = obs_impl st j.
Proof.
  intros tbl fd fr st ch fr' st' ch' h EO EN W L Bd E. unfold entry_ok in EO. rewrite EN in EO.
  destruct (check FUEL tbl (fn_body fd) (repeat ABorrowed (fn_nparams fd))) as [af'|] eqn:C; [|discriminate].
  assert (S : sat (length (impls st)) (repeat ABorrowed (fn_nparams fd)) fr st).
  { split; [rewrite repeat_length; lia|]. split; auto. split.
    - intros o o' i H _ Hb. specialize (Bd o i H). lia.
    - intros o i H. assert (Ho : o < fn_nparams fd) by (rewrite <- L; eapply nth_error_lt; eauto).
      assert (X : nth_error (repeat ABorrowed (fn_nparams fd)) o = Some ABorrowed) by (apply nth_error_repeat; auto).
      rewrite X. simpl. eauto. }
  pose proof (exec_sound tbl _ _ _ _ _ _ _ _ _ _ C S W (le_n _) E) as (T & _ & _).
  split; [apply T|]. split; [apply T|]. intros j Hj. eapply trans_obs; eauto.
Qed.

Lemma write3_spec : forall base st n d0 d1 d2,
  wf st -> n < length (impls st) -> base <= n -> (forall k, k < NB -> uniq st n k) ->
  let st' := write_buf (write_buf (write_buf st n 0 d0) n 1 d1) n 2 d2 in
  trans base [] st st' /\ impls st' = impls st /\
  heap st' (bufs (getI st n) 0) = d0 /\ heap st' (bufs (getI st n) 1) = d1 /\ heap st' (bufs (getI st n) 2) = d2.
Proof.
  intros base st n d0 d1 d2 W Hn Hb U. cbv zeta.
  assert (N01 : bufs (getI st n) 0 <> bufs (getI st n) 1).
  { intro X. destruct (U 1 ltac:(unfold NB; lia) n 0 Hn ltac:(unfold NB; lia) X). lia. }
  assert (N02 : bufs (getI st n) 0 <> bufs (getI st n) 2).
  { intro X. destruct (U 2 ltac:(unfold NB; lia) n 0 Hn ltac:(unfold NB; lia) X). lia. }
  assert (N12 : bufs (getI st n) 1 <> bufs (getI st n) 2).
  { intro X. destruct (U 2 ltac:(unfold NB; lia) n 1 Hn ltac:(unfold NB; lia) X). lia. }
  set (s0 := write_buf st n 0 d0). set (s1 := write_buf s0 n 1 d1).
  assert (T0 : trans base [] st s0) by exact (write_buf_spec base st n 0 d0 W Hn Hb (U 0 ltac:(unfold NB; lia))).
  assert (U0 : forall k, k < NB -> uniq s0 n k) by (intros; apply (uniq_same_bufs st); auto).
  assert (T1 : trans base [] s0 s1) by exact (write_buf_spec base s0 n 1 d1 W Hn Hb (U0 1 ltac:(unfold NB; lia))).
  assert (U1 : forall k, k < NB -> uniq s1 n k) by (intros; apply (uniq_same_bufs s0); auto).
  assert (T2 : trans base [] s1 (write_buf s1 n 2 d2)) by exact (write_buf_spec base s1 n 2 d2 W Hn Hb (U1 2 ltac:(unfold NB; lia))).
  split. { eapply trans_trans; [eapply trans_trans; [exact T0|exact T1|]|exact T2|]; simpl; tauto. }
  split; [reflexivity|].
  simpl. unfold upd. change (getI s1 n) with (getI st n). change (getI s0 n) with (getI st n).
  rewrite !Nat.eqb_refl.
  apply Nat.eqb_neq in N01. apply Nat.eqb_neq in N02. apply Nat.eqb_neq in N12.
  rewrite N01, N02, N12. auto.
Qed.

Lemma force_spec : forall st i t, wf st -> i < length (impls st) -> t <> 0%Z ->
  let st' := force_impl st i t in
  wf st' /\ length (impls st') = S (length (impls st)) /\
  (forall j, j < length (impls st) -> obs_impl st' j = obs_impl st j) /\
  obs_impl st' (length (impls st)) = xform t (obs_impl st i).
Proof.
  intros st i t W Hi Ht. cbv zeta. unfold force_impl.
  set (n := length (impls st)).
  destruct (new_fresh_spec n st W) as (T1 & L1 & _). set (st1 := new_fresh st) in *.
  assert (W1 : wf st1) by apply T1.
  assert (GO1 : getI st1 i = getI st i) by (apply (getI_app_old st st1 (mkImpl (fresh_bufs st) [])); auto; reflexivity).
  destruct (assign_share_spec n st1 n i W1 ltac:(lia) ltac:(lia) (le_n _)) as (T2 & L2). set (st2 := assign_share st1 n i) in *.
  assert (W2 : wf st2) by apply T2.
  assert (G2 : bufs (getI st2 n) = bufs (getI st i)).
  { unfold st2, assign_share. rewrite getI_set_impl_eq by lia. simpl. rewrite GO1. reflexivity. }
  set (d := map (Z.add t) (plain (getI st i))).
  destruct (write_plain_spec n st2 n d W2 ltac:(lia) (le_n _)) as (T3 & U3 & L3). set (st3 := write_plain st2 n d) in *.
  assert (G3 : getI st3 n = mkImpl (bufs (getI st i)) d).
  { unfold st3, write_plain. rewrite getI_set_impl_eq by lia. rewrite G2. reflexivity. }
  assert (W3 : wf st3) by apply T3.
  assert (HP : forall b, b < nextb st -> heap st3 b = heap st b).
  { intros b Hb. change (heap st3 b) with (heap (alloc st []) b). apply heap_alloc_old; auto. }
  assert (T13 : trans n [i] st st3).
  { eapply trans_trans; [eapply trans_trans; [eapply trans_weaken; [exact T1|intros x []]|exact T2|]|exact T3|].
    - intros x [<-|[<-|[]]]; [right; unfold n; lia|left; simpl; auto].
    - intros x [<-|[]]. right. unfold n; lia. }
  assert (XF : Z.eqb t 0 = false) by (apply Z.eqb_neq; auto).
  destruct (Z.ltb t 0) eqn:Lt.
  - destruct (make_unique_spec n st3 n W3 ltac:(lia) (le_n _)) as (T4 & L4 & U4 & P4 & H4).
    set (st4 := make_unique st3 n) in *.
    assert (W4 : wf st4) by apply T4.
    destruct (write3_spec n st4 n (rev (heap st4 (bufs (getI st4 n) 0))) (rev (heap st4 (bufs (getI st4 n) 1)))
                (rev (heap st4 (bufs (getI st4 n) 2))) W4 ltac:(lia) (le_n _) U4) as (T5 & I5 & A0 & A1 & A2).
    set (st5 := write_buf _ n 2 _) in *.
    assert (T : trans n [i] st st5).
    { eapply trans_trans; [eapply trans_trans; [exact T13|exact T4|]|exact T5|].
      - intros x [<-|[]]. right. unfold n; lia. - intros x []. }
    split; [apply T|]. split; [rewrite I5; lia|]. split.
    + intros j Hj. eapply trans_obs; eauto.
    + unfold obs_impl, xform. rewrite XF, Lt. simpl fst. simpl snd.
      assert (G5 : getI st5 n = getI st4 n) by (unfold getI; rewrite I5; reflexivity).
      rewrite G5, P4, G3. simpl plain. f_equal.
      unfold NB. cbn [seq map]. rewrite A0, A1, A2.
      rewrite !H4 by (unfold NB; lia). rewrite G3. simpl bufs.
      rewrite !HP by (apply W; auto; unfold NB; lia). reflexivity.
  - split; [auto|]. split; [lia|]. split.
    + intros j Hj. eapply trans_obs; eauto.
    + unfold obs_impl, xform. rewrite XF, Lt, G3. cbn [bufs plain fst snd]. f_equal.
      apply map_ext_in. intros k Hk. apply in_seq in Hk. apply HP. apply W; auto. lia.
Qed.

Lemma all_some_handles : forall hs args fr, hwf hs -> all_some (map (handle_impl hs) args) = Some fr ->
  length fr = length args /\ forall o i, nth_error fr o = Some i -> i < length (impls (mst hs)).
Proof.
  intros hs args fr [W H] A. destruct (all_some_map_nth _ _ _ _ A) as [L N]. split; auto.
  intros o i Ho. destruct (N o i Ho) as (h & _ & Hh). unfold handle_impl in Hh.
  destruct (nth_error (handles hs) h) as [[[i0 t]|]|] eqn:E; try discriminate.
  destruct (Z.eqb t 0); inversion Hh; subst. eapply H; eauto.
Qed.

Lemma hstep_sound : forall tbl, discipline_ok tbl = true ->
  forall hs op hs', hwf hs -> hstep tbl hs op = Some hs' ->
  hwf hs' /\
  (forall h v, obs_handle hs h = Some v -> op <> HDrop h -> obs_handle hs' h = Some v) /\
  (forall h, op = HCopy h -> obs_handle hs' (length (handles hs)) = obs_handle hs h).
Proof.
  intros tbl D hs op hs' HW E. pose proof HW as [W HB].
  destruct op as [f args ch|h|h t|h|h]; cbn [hstep] in E.
  - (* HRun *)
    destruct (nth_error tbl f) as [fd|] eqn:Ef; [|discriminate].
    destruct (all_some (map (handle_impl hs) args)) as [fr|] eqn:A; [|discriminate].
    destruct (fn_entry fd && (length args =? fn_nparams fd)) eqn:C; [|discriminate].
    apply andb_true_iff in C. destruct C as [En Ln]. apply Nat.eqb_eq in Ln.
    destruct (exec FUEL tbl (fn_body fd) fr (mst hs) ch) as [[[[fr' st'] ch'] hh]|] eqn:X; [|discriminate].
    inversion E; subst hs'; clear E.
    destruct (all_some_handles hs args fr HW A) as [Lf Bf].
    assert (EO : entry_ok tbl fd = true).
    { unfold discipline_ok in D. rewrite forallb_forall in D. apply D. eapply nth_error_In; eauto. }
    destruct (entry_sound tbl fd fr (mst hs) ch fr' st' ch' hh EO En W ltac:(lia) Bf X) as (W' & L' & O').
    split; [|split].
    + split; auto. simpl. intros h i t Hh. destruct (Nat.lt_ge_cases h (length (handles hs))).
      * rewrite nth_error_app1 in Hh by auto. specialize (HB _ _ _ Hh). lia.
      * rewrite nth_error_app2 in Hh by auto. rewrite nth_error_map in Hh.
        destruct (nth_error (seq _ _) (h - length (handles hs))) eqn:Es; simpl in Hh; [|discriminate].
        inversion Hh; subst. apply nth_error_In in Es. apply in_seq in Es. lia.
    + intros h v Ho _. unfold obs_handle in *. simpl.
      destruct (nth_error (handles hs) h) as [[[i t]|]|] eqn:Eh; try discriminate.
      rewrite nth_error_app1 by (eapply nth_error_lt; eauto). rewrite Eh.
      rewrite O'; auto. eapply HB; eauto.
    + intros; discriminate.
  - (* HCopy *)
    destruct (nth_error (handles hs) h) as [[v|]|] eqn:Eh; try discriminate. inversion E; subst hs'; clear E.
    split; [|split].
    + split; auto. simpl. intros h1 i t Hh. destruct (Nat.lt_ge_cases h1 (length (handles hs))).
      * rewrite nth_error_app1 in Hh by auto. eapply HB; eauto.
      * rewrite nth_error_app2 in Hh by auto. destruct (h1 - length (handles hs)) as [|[|]]; simpl in Hh; try discriminate.
        inversion Hh; subst. eapply HB; eauto.
    + intros h1 v1 Ho _. unfold obs_handle in *. simpl.
      destruct (nth_error (handles hs) h1) eqn:E1; try discriminate.
      rewrite nth_error_app1 by (eapply nth_error_lt; eauto). rewrite E1. auto.
    + intros h1 X. inversion X; subst h1. unfold obs_handle. simpl.
      rewrite nth_error_app2 by auto. rewrite Nat.sub_diag. simpl. rewrite Eh. reflexivity.
  - (* HLazy *)
    destruct (nth_error (handles hs) h) as [[[i t0]|]|] eqn:Eh; try discriminate.
    destruct (Z.eqb t0 0); [|discriminate]. inversion E; subst hs'; clear E.
    split; [|split].
    + split; auto. simpl. intros h1 i1 t1 Hh. destruct (Nat.lt_ge_cases h1 (length (handles hs))).
      * rewrite nth_error_app1 in Hh by auto. eapply HB; eauto.
      * rewrite nth_error_app2 in Hh by auto. destruct (h1 - length (handles hs)) as [|[|]]; simpl in Hh; try discriminate.
        inversion Hh; subst. eapply HB; eauto.
    + intros h1 v1 Ho _. unfold obs_handle in *. simpl.
      destruct (nth_error (handles hs) h1) eqn:E1; try discriminate.
      rewrite nth_error_app1 by (eapply nth_error_lt; eauto). rewrite E1. auto.
    + intros; discriminate.
  - (* HForce *)
    destruct (nth_error (handles hs) h) as [[[i t]|]|] eqn:Eh; try discriminate.
    destruct (Z.eqb t 0) eqn:Et.
    { inversion E; subst hs'. split; auto. split; auto. intros; discriminate. }
    inversion E; subst hs'; clear E. apply Z.eqb_neq in Et.
    assert (Hi := HB _ _ _ Eh).
    destruct (force_spec (mst hs) i t W Hi Et) as (W' & L' & O' & N').
    split; [|split].
    + split; auto. simpl. intros h1 i1 t1 Hh. destruct (Nat.eq_dec h h1) as [<-|Nh].
      * rewrite nth_error_set_nth_eq in Hh by (eapply nth_error_lt; eauto). inversion Hh; subst. lia.
      * rewrite nth_error_set_nth_neq in Hh by auto. specialize (HB _ _ _ Hh). lia.
    + intros h1 v1 Ho _. unfold obs_handle in *. simpl.
      destruct (Nat.eq_dec h h1) as [<-|Nh].
      * rewrite nth_error_set_nth_eq by (eapply nth_error_lt; eauto). rewrite Eh in Ho.
        rewrite N'. unfold xform at 1. simpl. auto.
      * rewrite nth_error_set_nth_neq by auto.
        destruct (nth_error (handles hs) h1) as [[[i1 t1]|]|] eqn:E1; try discriminate.
        rewrite O'; auto. eapply HB; eauto.
    + intros; discriminate.
  - (* HDrop *)
    destruct (nth_error (handles hs) h) as [[v|]|] eqn:Eh; try discriminate. inversion E; subst hs'; clear E.
    split; [|split].
    + split; auto. simpl. intros h1 i1 t1 Hh. destruct (Nat.eq_dec h h1) as [<-|Nh].
      * rewrite nth_error_set_nth_eq in Hh by (eapply nth_error_lt; eauto). discriminate.
      * rewrite nth_error_set_nth_neq in Hh by auto. eapply HB; eauto.
    + intros h1 v1 Ho Hd. unfold obs_handle in *. simpl.
      rewrite nth_error_set_nth_neq by (intro; subst; apply Hd; reflexivity). auto.
    + intros; discriminate.
Qed.

Lemma hwf_h0 : hwf h0.
Proof. split; [intros j k H; simpl in H; lia|]. intros h i t H. destruct h; discriminate. Qed.

Lemma hrun_hwf : forall tbl, discipline_ok tbl = true -> forall ops hs hs', hwf hs -> hrun tbl hs ops = Some hs' -> hwf hs'.
Proof.
  intros tbl D. induction ops as [|op ops IH]; intros hs hs' HW R; simpl in R.
  - inversion R; subst; auto.
  - destruct (hstep tbl hs op) as [hs1|] eqn:E; [|discriminate].
    eapply IH; [|exact R]. eapply hstep_sound; eauto.
Qed.

Lemma discipline_sound_lemma : forall tbl, discipline_ok tbl = true ->
  forall ops hs op hs', hrun tbl h0 ops = Some hs -> hstep tbl hs op = Some hs' ->
  (forall h v, obs_handle hs h = Some v -> op <> HDrop h -> obs_handle hs' h = Some v) /\
  (forall h, op = HCopy h -> obs_handle hs' (length (handles hs)) = obs_handle hs h).
Proof.
  intros tbl D ops hs op hs' R E.
  assert (HW : hwf hs) by (eapply hrun_hwf; eauto; apply hwf_h0).
  destruct (hstep_sound tbl D hs op hs' HW E) as (_ & A & B). split; auto.
Qed.
