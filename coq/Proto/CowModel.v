(* C05 - lemmas about the copy-on-write model of CowDefs.v *)
From Coq Require Import ZArith List Bool Arith Lia.
From MV Require Import Proto.CowDefs.
Import ListNotations.

(* ------------------------------------------------------------ list helpers *)
Lemma length_set_nth : forall A (l : list A) n v, length (set_nth l n v) = length l.
Proof. induction l; destruct n; simpl; intros; auto. Qed.

Lemma nth_set_nth_eq : forall A (l : list A) n v d, n < length l -> nth n (set_nth l n v) d = v.
Proof. induction l; destruct n; simpl; intros; try lia; auto. apply IHl; lia. Qed.

Lemma nth_set_nth_neq : forall A (l : list A) n m v d, n <> m -> nth m (set_nth l n v) d = nth m l d.
Proof. induction l; destruct n; destruct m; simpl; intros; try lia; auto. Qed.

Lemma nth_error_set_nth_eq : forall A (l : list A) n v, n < length l -> nth_error (set_nth l n v) n = Some v.
Proof. induction l; destruct n; simpl; intros; try lia; auto. apply IHl; lia. Qed.

Lemma nth_error_set_nth_neq : forall A (l : list A) n m v, n <> m -> nth_error (set_nth l n v) m = nth_error l m.
Proof. induction l; destruct n; destruct m; simpl; intros; try lia; auto. Qed.

Lemma nth_error_lt : forall A (l : list A) n x, nth_error l n = Some x -> n < length l.
Proof. intros. apply nth_error_Some. congruence. Qed.

Lemma all_some_nth : forall A (l : list (option A)) r, all_some l = Some r ->
  length r = length l /\ forall p, nth_error l p = option_map Some (nth_error r p).
Proof.
  induction l as [|x l IH]; simpl; intros r H.
  - inversion H; subst. split; auto. intros [|p]; reflexivity.
  - destruct x; try discriminate. destruct (all_some l) eqn:E; try discriminate.
    inversion H; subst. destruct (IH l0 eq_refl) as [L N]. split; [simpl; lia|].
    intros [|p]; simpl; auto.
Qed.

(* ------------------------------------------------------------ store facts *)
Definition wf (st : mstate) : Prop :=
  forall j k, j < length (impls st) -> k < NB -> bufs (getI st j) k < nextb st.

Definition uniq (st : mstate) (i k : nat) : Prop :=
  forall j k', j < length (impls st) -> k' < NB ->
    bufs (getI st j) k' = bufs (getI st i) k -> j = i /\ k' = k.

(* what a piece of execution may do, seen from outside: T = Impl ids whose
   record or sharing it may have touched; base = number of Impls that existed
   when the public operation started *)
Definition trans (base : nat) (T : list nat) (st st' : mstate) : Prop :=
  wf st' /\ length (impls st) <= length (impls st') /\
  (forall j, j < length (impls st) -> ~ In j T ->
     getI st' j = getI st j /\ forall k, k < NB -> uniq st j k -> uniq st' j k) /\
  (forall j, j < base -> j < length (impls st) -> getI st' j = getI st j /\
     forall k, k < NB -> heap st' (bufs (getI st j) k) = heap st (bufs (getI st j) k)).

Lemma trans_refl : forall base T st, wf st -> trans base T st st.
Proof. unfold trans; intuition. Qed.

Lemma trans_weaken : forall base T T' st st', trans base T st st' -> incl T T' -> trans base T' st st'.
Proof.
  unfold trans; intros base T T' st st' (W & L & F & P) I. split; [auto|]. split; [auto|]. split; [|exact P].
  intros j Hj Hn. apply F; auto.
Qed.

Lemma trans_trans : forall base T T1 st st1 st2,
  trans base T st st1 -> trans base T1 st1 st2 ->
  (forall x, In x T1 -> In x T \/ length (impls st) <= x) ->
  trans base T st st2.
Proof.
  unfold trans; intros base T T1 st st1 st2 (W & L & F & P) (W1 & L1 & F1 & P1) I.
  split; auto. split; [lia|]. split.
  - intros j Hj Hn. destruct (F j Hj Hn) as [G U].
    assert (Hn1 : ~ In j T1) by (intro X; destruct (I _ X); [tauto|lia]).
    destruct (F1 j ltac:(lia) Hn1) as [G1 U1]. split; [congruence|]. intros; auto.
  - intros j Hj Hl. destruct (P j Hj Hl) as [G H]. destruct (P1 j Hj ltac:(lia)) as [G1 H1].
    split; [congruence|]. intros k Hk. rewrite <- (H k Hk). rewrite <- G. apply H1; auto.
Qed.

Lemma getI_set_impl_eq : forall st i im, i < length (impls st) -> getI (set_impl st i im) i = im.
Proof. intros. unfold getI, set_impl; simpl. apply nth_set_nth_eq; auto. Qed.

Lemma getI_set_impl_neq : forall st i j im, i <> j -> getI (set_impl st i im) j = getI st j.
Proof. intros. unfold getI, set_impl; simpl. apply nth_set_nth_neq; auto. Qed.

(* generic: replace the buffers of Impl i by bf where every new buffer is either
   a fresh id (>= old nextb) or was already referenced by an Impl in T *)
Lemma trans_set_bufs : forall base st st0 i bf pl T,
  wf st -> i < length (impls st) -> base <= i -> In i T ->
  impls st0 = impls st -> nextb st <= nextb st0 ->
  (forall b, b < nextb st -> heap st0 b = heap st b) ->
  (forall k, k < NB -> (nextb st <= bf k < nextb st0) \/
                       (exists j k', In j T /\ j < length (impls st) /\ k' < NB /\ bf k = bufs (getI st j) k')) ->
  trans base T st (set_impl st0 i (mkImpl bf pl)).
Proof.
  intros base st st0 i bf pl T W Hi Hb HT EI NX HP BF.
  assert (GI : forall j, getI st0 j = getI st j) by (intro; unfold getI; rewrite EI; auto).
  unfold trans. split; [|split; [|split]].
  - intros j k Hj Hk. simpl in *. rewrite length_set_nth in Hj. rewrite EI in Hj.
    destruct (Nat.eq_dec i j) as [->|N].
    + rewrite getI_set_impl_eq by (rewrite EI; auto). simpl.
      destruct (BF k Hk) as [?|(j' & k' & _ & Hj' & Hk' & ->)]; [lia|].
      specialize (W j' k' Hj' Hk'). lia.
    + rewrite getI_set_impl_neq by auto. rewrite GI. specialize (W j k Hj Hk). lia.
  - simpl. rewrite length_set_nth, EI. lia.
  - intros j Hj Hn. assert (N : i <> j) by (intro; subst; tauto).
    split. { rewrite getI_set_impl_neq by auto. apply GI. }
    intros k Hk U j1 k1 Hj1 Hk1. simpl in Hj1. rewrite length_set_nth, EI in Hj1.
    rewrite (getI_set_impl_neq st0 i j) by auto. rewrite GI.
    destruct (Nat.eq_dec i j1) as [<-|N1].
    + rewrite getI_set_impl_eq by (rewrite EI; auto). simpl. intro E.
      destruct (BF k1 Hk1) as [?|(j' & k' & Tj & Hj' & Hk' & E')].
      * specialize (W j k Hj Hk). lia.
      * rewrite E' in E. destruct (U j' k' Hj' Hk' E). subst. tauto.
    + rewrite getI_set_impl_neq by auto. rewrite GI. apply U; auto.
  - intros j Hj Hl. assert (N : i <> j) by lia. split.
    { rewrite getI_set_impl_neq by auto. apply GI. }
    intros k Hk. simpl. apply HP. apply W; auto.
Qed.

Lemma wf_alloc : forall st d, wf st -> wf (alloc st d).
Proof. unfold wf, alloc; simpl; intros. specialize (H j k H0 H1). unfold getI in *; simpl. lia. Qed.

Lemma heap_alloc_old : forall st d b, b < nextb st -> heap (alloc st d) b = heap st b.
Proof. intros. unfold alloc; simpl. destruct (nextb st <=? b) eqn:E; simpl; auto. apply Nat.leb_le in E. lia. Qed.

(* -------- MakeUnique on one buffer *)
Lemma shared_false_uniq : forall st i k, i < length (impls st) -> k < NB -> shared st i k = false -> uniq st i k.
Proof.
  unfold shared, uniq; intros st i k Hi Hk H j k' Hj Hk' E.
  destruct (Nat.eq_dec j i) as [->|Nj]; [destruct (Nat.eq_dec k' k) as [->|Nk]; auto|]; exfalso.
  - assert (X : existsb (fun j => existsb (fun k'0 => negb ((j =? i) && (k'0 =? k)) && (bufs (getI st j) k'0 =? bufs (getI st i) k)) (seq 0 NB)) (seq 0 (length (impls st))) = true).
    { apply existsb_exists. exists i. split; [apply in_seq; lia|]. apply existsb_exists. exists k'. split; [apply in_seq; lia|].
      rewrite E. rewrite !Nat.eqb_refl. apply Nat.eqb_neq in Nk. rewrite Nk. reflexivity. }
    congruence.
  - assert (X : existsb (fun j => existsb (fun k'0 => negb ((j =? i) && (k'0 =? k)) && (bufs (getI st j) k'0 =? bufs (getI st i) k)) (seq 0 NB)) (seq 0 (length (impls st))) = true).
    { apply existsb_exists. exists j. split; [apply in_seq; lia|]. apply existsb_exists. exists k'. split; [apply in_seq; lia|].
      rewrite E. rewrite Nat.eqb_refl. apply Nat.eqb_neq in Nj. rewrite Nj. reflexivity. }
    congruence.
Qed.

Lemma make_unique_k_spec : forall base st i k,
  wf st -> i < length (impls st) -> base <= i -> k < NB ->
  let st' := make_unique_k st i k in
  trans base [i] st st' /\ length (impls st') = length (impls st) /\
  uniq st' i k /\ (forall k0, k0 < NB -> uniq st i k0 -> uniq st' i k0) /\
  plain (getI st' i) = plain (getI st i) /\
  (forall k0, k0 < NB -> heap st' (bufs (getI st' i) k0) = heap st (bufs (getI st i) k0)).
Proof.
  intros base st i k W Hi Hb Hk. unfold make_unique_k. destruct (shared st i k) eqn:Sh; cbv zeta.
  2:{ split; [apply trans_refl; auto|]. split; auto. split; [apply shared_false_uniq; auto|]. auto. }
  set (st0 := mkSt (upd (heap st) (nextb st) (heap st (bufs (getI st i) k))) (S (nextb st)) (impls st)).
  change (mkSt _ _ (set_nth (impls st) i ?im)) with (set_impl st0 i im).
  assert (T : trans base [i] st (set_impl st0 i (mkImpl (upd (bufs (getI st i)) k (nextb st)) (plain (getI st i))))).
  { apply trans_set_bufs; simpl; auto.
    - intros b Hb'. unfold upd. destruct (b =? nextb st) eqn:E; auto. apply Nat.eqb_eq in E; lia.
    - intros k0 Hk0. unfold upd. destruct (k0 =? k) eqn:E; [left; lia|].
      right. exists i, k0. auto. }
  split; auto. split; [simpl; apply length_set_nth|].
  assert (G : getI (set_impl st0 i (mkImpl (upd (bufs (getI st i)) k (nextb st)) (plain (getI st i)))) i
              = mkImpl (upd (bufs (getI st i)) k (nextb st)) (plain (getI st i))) by (apply getI_set_impl_eq; auto).
  assert (GN : forall j, j <> i -> getI (set_impl st0 i (mkImpl (upd (bufs (getI st i)) k (nextb st)) (plain (getI st i)))) j = getI st j).
  { intros. rewrite getI_set_impl_neq by auto. reflexivity. }
  split; [|split; [|split]].
  - intros j k' Hj Hk'. simpl in Hj. rewrite length_set_nth in Hj. rewrite G. simpl. unfold upd at 2. rewrite Nat.eqb_refl.
    destruct (Nat.eq_dec j i) as [->|N].
    + rewrite G; simpl. unfold upd. destruct (k' =? k) eqn:E; [apply Nat.eqb_eq in E; auto|].
      intro X. specialize (W i k' Hi Hk'). lia.
    + rewrite GN by auto. intro X. specialize (W j k' Hj Hk'). lia.
  - intros k0 Hk0 U j k' Hj Hk'. simpl in Hj. rewrite length_set_nth in Hj. rewrite G. simpl.
    unfold upd at 2. destruct (k0 =? k) eqn:E0.
    + apply Nat.eqb_eq in E0; subst k0.
      destruct (Nat.eq_dec j i) as [->|N].
      * rewrite G; simpl. unfold upd. destruct (k' =? k) eqn:E; [apply Nat.eqb_eq in E; auto|].
        intro X. specialize (W i k' Hi Hk'). lia.
      * rewrite GN by auto. intro X. specialize (W j k' Hj Hk'). lia.
    + destruct (Nat.eq_dec j i) as [->|N].
      * rewrite G; simpl. unfold upd. destruct (k' =? k) eqn:E.
        -- intro X. specialize (W i k0 Hi Hk0). lia.
        -- intro X. apply (U i k' Hi Hk' X).
      * rewrite GN by auto. intro X. apply (U j k' Hj Hk' X).
  - rewrite G; reflexivity.
  - intros k0 Hk0. rewrite G; simpl. unfold upd. destruct (k0 =? k) eqn:E.
    + rewrite Nat.eqb_refl. apply Nat.eqb_eq in E; subst; auto.
    + specialize (W i k0 Hi Hk0). destruct (bufs (getI st i) k0 =? nextb st) eqn:E1; auto.
      apply Nat.eqb_eq in E1. lia.
Qed.

Lemma make_unique_spec : forall base st i,
  wf st -> i < length (impls st) -> base <= i ->
  let st' := make_unique st i in
  trans base [i] st st' /\ length (impls st') = length (impls st) /\
  (forall k, k < NB -> uniq st' i k) /\
  plain (getI st' i) = plain (getI st i) /\
  (forall k0, k0 < NB -> heap st' (bufs (getI st' i) k0) = heap st (bufs (getI st i) k0)).
Proof.
  intros base st i W Hi Hb. unfold make_unique.
  destruct (make_unique_k_spec base st i 0 W Hi Hb ltac:(unfold NB; lia)) as (T0 & L0 & U0 & K0 & P0 & H0).
  set (s0 := make_unique_k st i 0) in *.
  assert (W0 : wf s0) by apply T0.
  destruct (make_unique_k_spec base s0 i 1 W0 ltac:(lia) Hb ltac:(unfold NB; lia)) as (T1 & L1 & U1 & K1 & P1 & H1).
  set (s1 := make_unique_k s0 i 1) in *.
  assert (W1 : wf s1) by apply T1.
  destruct (make_unique_k_spec base s1 i 2 W1 ltac:(lia) Hb ltac:(unfold NB; lia)) as (T2 & L2 & U2 & K2 & P2 & H2).
  set (s2 := make_unique_k s1 i 2) in *.
  cbv zeta. split; [|split; [lia|split; [|split]]].
  - eapply trans_trans; [eapply trans_trans; [exact T0|exact T1|]|exact T2|]; simpl; intuition.
  - intros k Hk. unfold NB in *.
    assert (k = 0 \/ k = 1 \/ k = 2) as [->|[->| ->]] by lia.
    + apply K2; [lia|]. apply K1; [lia|]. exact U0.
    + apply K2; [lia|]. exact U1.
    + exact U2.
  - congruence.
  - intros k0 Hk0. rewrite H2, H1, H0; auto.
Qed.

(* -------- the other primitives *)
Lemma getI_app_old : forall st st' x j, impls st' = impls st ++ [x] -> j < length (impls st) -> getI st' j = getI st j.
Proof. intros. unfold getI. rewrite H. apply app_nth1; auto. Qed.

Lemma getI_app_new : forall st st' x, impls st' = impls st ++ [x] -> getI st' (length (impls st)) = x.
Proof. intros. unfold getI. rewrite H. rewrite app_nth2 by lia. rewrite Nat.sub_diag. reflexivity. Qed.

Lemma new_fresh_spec : forall base st, wf st ->
  let st' := new_fresh st in
  trans base [] st st' /\ length (impls st') = S (length (impls st)) /\
  (forall k, k < NB -> uniq st' (length (impls st)) k).
Proof.
  intros base st W. cbv zeta.
  assert (EI : impls (new_fresh st) = impls st ++ [mkImpl (fresh_bufs st) []]) by reflexivity.
  assert (L : length (impls (new_fresh st)) = S (length (impls st))) by (rewrite EI, app_length; simpl; lia).
  assert (GN := getI_app_new st _ _ EI).
  assert (GO := fun j => getI_app_old st _ _ j EI).
  split; [|split; auto].
  - unfold trans. split; [|split; [lia|split]].
    + intros j k Hj Hk. rewrite L in Hj. change (nextb (new_fresh st)) with (nextb st + NB).
      destruct (Nat.eq_dec j (length (impls st))) as [->|N].
      * rewrite GN. simpl. unfold fresh_bufs. lia.
      * rewrite GO by lia. specialize (W j k ltac:(lia) Hk). lia.
    + intros j Hj _. split; [apply GO; auto|]. intros k Hk U j1 k1 Hj1 Hk1. rewrite L in Hj1. rewrite (GO j) by auto.
      destruct (Nat.eq_dec j1 (length (impls st))) as [->|N].
      * rewrite GN. simpl. unfold fresh_bufs. intro X. specialize (W j k Hj Hk). lia.
      * rewrite GO by lia. apply U; auto; lia.
    + intros j Hj Hl. split; [apply GO; auto|].
      intros k Hk. simpl. specialize (W j k Hl Hk).
      destruct (nextb st <=? bufs (getI st j) k) eqn:E; simpl; auto. apply Nat.leb_le in E. lia.
  - intros k Hk j k' Hj Hk'. rewrite L in Hj. rewrite GN. simpl. unfold fresh_bufs.
    destruct (Nat.eq_dec j (length (impls st))) as [->|N].
    + rewrite GN. simpl. unfold fresh_bufs. intro; split; auto; lia.
    + rewrite GO by lia. intro X. specialize (W j k' ltac:(lia) Hk'). lia.
Qed.

Lemma uniq_same_bufs : forall st st' i k,
  length (impls st') = length (impls st) ->
  (forall j, bufs (getI st' j) = bufs (getI st j)) ->
  uniq st i k -> uniq st' i k.
Proof.
  unfold uniq; intros st st' i k L B U j k' Hj Hk'. rewrite !B. apply U; auto. lia.
Qed.

Lemma new_copy_spec : forall base st i, wf st -> i < length (impls st) ->
  let st' := new_copy st i in
  trans base [i] st st' /\ length (impls st') = S (length (impls st)).
Proof.
  intros base st i W Hi. cbv zeta.
  assert (EI : impls (new_copy st i) = impls st ++ [getI st i]) by reflexivity.
  assert (L : length (impls (new_copy st i)) = S (length (impls st))) by (rewrite EI, app_length; simpl; lia).
  assert (GN := getI_app_new st _ _ EI).
  assert (GO := fun j => getI_app_old st _ _ j EI).
  split; auto. unfold trans. split; [|split; [lia|split]].
  - intros j k Hj Hk. rewrite L in Hj. change (nextb (new_copy st i)) with (nextb st).
    destruct (Nat.eq_dec j (length (impls st))) as [->|N].
    + rewrite GN. apply W; auto.
    + rewrite GO by lia. apply W; auto. lia.
  - intros j Hj Hn. split; [apply GO; auto|]. intros k Hk U j1 k1 Hj1 Hk1. rewrite L in Hj1. rewrite (GO j) by auto.
    destruct (Nat.eq_dec j1 (length (impls st))) as [->|N].
    + rewrite GN. intro X. destruct (U i k1 Hi Hk1 X). subst. simpl in Hn. tauto.
    + rewrite GO by lia. apply U; auto; lia.
  - intros j Hj Hl. split; [apply GO; auto|]. intros; reflexivity.
Qed.

Lemma write_buf_spec : forall base st i k d, wf st -> i < length (impls st) -> base <= i -> uniq st i k ->
  trans base [] st (write_buf st i k d).
Proof.
  intros base st i k d W Hi Hb U. unfold trans. split; [|split; [simpl; lia|split]].
  - exact W.
  - intros j Hj _. split; [reflexivity|]. intros k0 Hk0 U0. apply (uniq_same_bufs st); auto.
  - intros j Hj Hl. split; [reflexivity|]. intros k0 Hk0. simpl. unfold upd.
    destruct (bufs (getI st j) k0 =? bufs (getI st i) k) eqn:E; auto.
    apply Nat.eqb_eq in E. destruct (U j k0 Hl Hk0 E). lia.
Qed.

Lemma write_plain_spec : forall base st i d, wf st -> i < length (impls st) -> base <= i ->
  let st' := write_plain st i d in
  trans base [i] st st' /\ (forall j k, uniq st j k -> uniq st' j k) /\ length (impls st') = length (impls st).
Proof.
  intros base st i d W Hi Hb. cbv zeta. split; [|split].
  - unfold write_plain. apply trans_set_bufs; simpl; auto.
    intros k Hk. right. exists i, k. simpl; auto.
  - intros j k U. apply (uniq_same_bufs st); auto.
    + simpl. apply length_set_nth.
    + intro j0. unfold write_plain. destruct (Nat.eq_dec i j0) as [<-|N].
      * rewrite getI_set_impl_eq; auto.
      * rewrite getI_set_impl_neq; auto.
  - simpl. apply length_set_nth.
Qed.

Lemma assign_fresh_spec : forall base st i d, wf st -> i < length (impls st) -> base <= i ->
  let st' := assign_fresh st i d in
  trans base [i] st st' /\ (forall k, k < NB -> uniq st' i k) /\ length (impls st') = length (impls st).
Proof.
  intros base st i d W Hi Hb. cbv zeta. split; [|split].
  - unfold assign_fresh. apply trans_set_bufs; simpl; auto; try lia.
    + intros b Hb'. destruct (nextb st <=? b) eqn:E; simpl; auto. apply Nat.leb_le in E. lia.
    + intros k Hk. left. unfold fresh_bufs. lia.
  - intros k Hk j k' Hj Hk'. unfold assign_fresh in *. simpl in Hj. rewrite length_set_nth in Hj. simpl in Hj.
    rewrite (getI_set_impl_eq (alloc st d) i) by (simpl; auto). simpl.
    destruct (Nat.eq_dec i j) as [<-|N].
    + rewrite getI_set_impl_eq by (simpl; auto). simpl. unfold fresh_bufs. intro; split; auto; lia.
    + rewrite getI_set_impl_neq by auto. intro X. specialize (W j k' Hj Hk'). unfold fresh_bufs in X.
      change (getI (alloc st d) j) with (getI st j) in X. lia.
  - simpl. apply length_set_nth.
Qed.

Lemma assign_share_spec : forall base st i j, wf st -> i < length (impls st) -> j < length (impls st) -> base <= i ->
  let st' := assign_share st i j in
  trans base [i; j] st st' /\ length (impls st') = length (impls st).
Proof.
  intros base st i j W Hi Hj Hb. cbv zeta. split.
  - unfold assign_share. apply trans_set_bufs; simpl; auto.
    intros k Hk. right. exists j, k. simpl; auto.
  - simpl. apply length_set_nth.
Qed.

(* ------------------------------------------------ abstract/concrete frames *)
Definition obj_ok (base : nat) (st : mstate) (i : nat) (a : option aobj) : Prop :=
  match a with
  | Some ABorrowed => i < base
  | Some (AOwned u) => base <= i /\ forall k, k < NB -> u k = true -> uniq st i k
  | None => False
  end.

Definition sat (base : nat) (af : list aobj) (fr : list nat) (st : mstate) : Prop :=
  length af = length fr /\
  (forall o i, nth_error fr o = Some i -> i < length (impls st)) /\
  (forall o o' i, nth_error fr o = Some i -> nth_error fr o' = Some i -> base <= i -> o = o') /\
  (forall o i, nth_error fr o = Some i -> obj_ok base st i (nth_error af o)).

Lemma obj_ok_trans : forall base T st st' i a,
  trans base T st st' -> i < length (impls st) -> ~ In i T -> obj_ok base st i a -> obj_ok base st' i a.
Proof.
  intros base T st st' i a (W & L & F & P) Hi Hn H. destruct a as [[|u]|]; simpl in *; auto.
  destruct H as [Hb U]. split; auto. intros k Hk Hu. apply (F i Hi Hn); auto.
Qed.

Lemma sat_step : forall base af af' fr st st' T,
  sat base af fr st -> trans base T st st' -> length af' = length af ->
  (forall o i, nth_error fr o = Some i -> ~ In i T -> nth_error af' o = nth_error af o) ->
  (forall o i, nth_error fr o = Some i -> In i T -> obj_ok base st' i (nth_error af' o)) ->
  sat base af' fr st'.
Proof.
  intros base af af' fr st st' T (L & B & D & O) Tr L' Same Touched.
  split; [lia|]. split; [|split; auto].
  - intros o i H. specialize (B o i H). destruct Tr as (_ & X & _). lia.
  - intros o i H. destruct (in_dec Nat.eq_dec i T) as [I|N].
    + apply Touched; auto.
    + rewrite (Same o i H N). eapply obj_ok_trans; eauto.
Qed.

Lemma sat_extend : forall base af fr st n u,
  sat base af fr st -> length (impls st) = S n ->
  (forall o i, nth_error fr o = Some i -> i < n) -> base <= n ->
  (forall k, k < NB -> u k = true -> uniq st n k) ->
  sat base (af ++ [AOwned u]) (fr ++ [n]) st.
Proof.
  intros base af fr st n u (L & B & D & O) Ln Lt Hb U.
  assert (NE : forall o i, nth_error (fr ++ [n]) o = Some i ->
             (o < length fr /\ nth_error fr o = Some i) \/ (o = length fr /\ i = n)).
  { intros o i H. destruct (Nat.lt_ge_cases o (length fr)).
    - left. rewrite nth_error_app1 in H; auto.
    - right. rewrite nth_error_app2 in H by auto. destruct (o - length fr) eqn:E; simpl in H.
      + inversion H. split; auto; lia.
      + destruct n0; discriminate. }
  split; [rewrite !app_length; simpl; lia|]. split; [|split].
  - intros o i H. destruct (NE o i H) as [[_ H']|[_ ->]]; [specialize (B o i H')|]; lia.
  - intros o o' i H H' Hi. destruct (NE o i H) as [[X1 H1]|[X1 Y1]]; destruct (NE o' i H') as [[X2 H2]|[X2 Y2]].
    + eapply D; eauto. + subst. specialize (Lt _ _ H1). lia.
    + subst. specialize (Lt _ _ H2). lia. + lia.
  - intros o i H. destruct (NE o i H) as [[X1 H1]|[X1 Y1]].
    + rewrite nth_error_app1 by lia. apply O; auto.
    + subst. rewrite nth_error_app2 by lia. rewrite L, Nat.sub_diag. simpl. auto.
Qed.

Lemma le_obj_ok : forall base st i m a, le_obj m a = true -> obj_ok base st i (Some a) -> obj_ok base st i (Some m).
Proof.
  intros base st i m a H O. destruct m as [|u], a as [|v]; cbn [le_obj obj_ok] in *; try discriminate; auto.
  destruct O as [Hb U]. split; auto. intros k Hk Hu. apply U; auto.
  rewrite forallb_forall in H. specialize (H k ltac:(apply in_seq; lia)). rewrite Hu in H. simpl in H. auto.
Qed.

Lemma le_fr_nth : forall m a o x, le_fr m a = true -> nth_error m o = Some x ->
  exists y, nth_error a o = Some y /\ le_obj x y = true.
Proof.
  induction m as [|x0 m IH]; intros a o x H N; [destruct o; discriminate|].
  destruct a as [|y0 a]; simpl in H; [discriminate|]. apply andb_true_iff in H. destruct H as [H1 H2].
  destruct o; simpl in N.
  - inversion N; subst. exists y0; auto.
  - apply (IH a o x H2 N).
Qed.

Lemma sat_restrict_weaken : forall base af2 fr news st m,
  sat base af2 (fr ++ news) st -> le_fr m af2 = true -> length m = length fr -> sat base m fr st.
Proof.
  intros base af2 fr news st m (L & B & D & O) Le Lm.
  assert (NE : forall o i, nth_error fr o = Some i -> nth_error (fr ++ news) o = Some i).
  { intros o i H. rewrite nth_error_app1; auto. eapply nth_error_lt; eauto. }
  split; auto. split; [|split].
  - intros o i H. eapply B; eauto.
  - intros o o' i H H' Hi. eapply D; eauto.
  - intros o i H. specialize (O o i (NE o i H)).
    destruct (nth_error m o) eqn:E.
    + destruct (le_fr_nth m af2 o a Le E) as (y & Y1 & Y2). rewrite Y1 in O. eapply le_obj_ok; eauto.
    + apply nth_error_None in E. apply nth_error_lt in H. lia.
Qed.
