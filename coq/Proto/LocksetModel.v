(* C06 — lemmas about the lockset model: mutual exclusion, lock hand-off,
   data-race freedom, deadlock freedom, checker soundness, instantiation. *)
From Coq Require Import List Arith Bool PeanoNat Lia String.
From MV Require Import Proto.LocksetDefs.
Import ListNotations.

(* ------------------------------------------------------------------ basics *)
Lemma pair_eqb_eq : forall a b, pair_eqb a b = true <-> a = b.
Proof.
  intros [a1 a2] [b1 b2]; unfold pair_eqb; cbn.
  rewrite andb_true_iff, !Nat.eqb_eq. split.
  - intros [-> ->]; reflexivity.
  - intros H; inversion H; auto.
Qed.
Lemma pair_eqb_refl : forall a, pair_eqb a a = true.
Proof. intros; apply pair_eqb_eq; reflexivity. Qed.
Lemma pair_eqb_neq : forall a b, pair_eqb a b = false <-> a <> b.
Proof.
  intros a b; split.
  - intros H E; apply pair_eqb_eq in E; congruence.
  - intros H; destruct (pair_eqb a b) eqn:E; auto. apply pair_eqb_eq in E; contradiction.
Qed.
Lemma pair_eqb_sym : forall a b, pair_eqb a b = pair_eqb b a.
Proof.
  intros a b; destruct (pair_eqb a b) eqn:E.
  - apply pair_eqb_eq in E; subst; symmetry; apply pair_eqb_refl.
  - symmetry; apply pair_eqb_neq; apply pair_eqb_neq in E; congruence.
Qed.

Lemma bump_same : forall h l f, bump h l f l = f (h l).
Proof. intros; unfold bump; rewrite pair_eqb_refl; reflexivity. Qed.
Lemma bump_other : forall h l f l', l' <> l -> bump h l f l' = h l'.
Proof. intros h l f l' H; unfold bump. apply pair_eqb_neq in H; rewrite H; reflexivity. Qed.

Lemma fold_bump : forall ls h l0,
  fold_left (fun h l => bump h l S) ls h l0 = h l0 + countl l0 ls.
Proof.
  induction ls as [|a r IH]; intros h l0; cbn [fold_left countl].
  - lia.
  - rewrite IH. unfold bump at 1. destruct (pair_eqb l0 a); lia.
Qed.

Lemma countl_pos_in : forall l ls, countl l ls > 0 -> In l ls.
Proof.
  induction ls as [|a r IH]; cbn; intros H; [lia|].
  destruct (pair_eqb l a) eqn:E.
  - left; symmetry; apply pair_eqb_eq; exact E.
  - right; apply IH; lia.
Qed.
Lemma in_countl_pos : forall l ls, In l ls -> countl l ls > 0.
Proof.
  induction ls as [|a r IH]; cbn; intros H; [contradiction|].
  destruct H as [->|H].
  - rewrite pair_eqb_refl; lia.
  - specialize (IH H); lia.
Qed.
Lemma countl_app : forall l a b, countl l (a ++ b) = countl l a + countl l b.
Proof. induction a as [|x a IH]; intros; cbn; [reflexivity|]. rewrite IH; lia. Qed.

(* effect of one event on one lock count *)
Lemma step1_val : forall h e l,
  step1 h e l = match e with
                | Rel l0 => if pair_eqb l l0 then pred (h l) else h l
                | _ => h l + countl l (acquires e)
                end.
Proof.
  intros h e l; destruct e; cbn [step1 acquires]; try (rewrite fold_bump; reflexivity).
  unfold bump; reflexivity.
Qed.
Lemma step1_gt : forall h e l, step1 h e l > h l -> In l (acquires e).
Proof.
  intros h e l; rewrite step1_val; destruct e; cbn [acquires]; intros H;
    try (apply countl_pos_in; cbn [acquires countl] in *; lia).
  destruct (pair_eqb l l0); lia.
Qed.
Lemma step1_lt : forall h e l, step1 h e l < h l -> e = Rel l.
Proof.
  intros h e l; rewrite step1_val; destruct e; intros H; try lia.
  destruct (pair_eqb l l0) eqn:E; [|lia]. apply pair_eqb_eq in E; subst; reflexivity.
Qed.
Lemma step1_ext : forall h h' e, (forall l, h l = h' l) -> forall l, step1 h e l = step1 h' e l.
Proof. intros h h' e H l; rewrite !step1_val; destruct e; rewrite ?H; reflexivity. Qed.
Lemma fold_step1_ext : forall p h h', (forall l, h l = h' l) ->
  forall l, fold_left step1 p h l = fold_left step1 p h' l.
Proof.
  induction p as [|e p IH]; intros h h' H l; cbn; [apply H|].
  apply IH; intros; apply step1_ext; exact H.
Qed.

Lemma held1_snoc : forall pre e, held1 (pre ++ [e]) = step1 (held1 pre) e.
Proof. intros; unfold held1; rewrite fold_left_app; reflexivity. Qed.
Lemma held1_app : forall p q, held1 (p ++ q) = fold_left step1 q (held1 p).
Proof. intros; unfold held1; rewrite fold_left_app; reflexivity. Qed.

Lemma proj_snoc_same : forall t tr e, proj t (tr ++ [(t, e)]) = proj t tr ++ [e].
Proof.
  intros; unfold proj; rewrite filter_app, map_app; cbn. rewrite Nat.eqb_refl; reflexivity.
Qed.
Lemma proj_snoc_other : forall t t0 tr e, t0 <> t -> proj t (tr ++ [(t0, e)]) = proj t tr.
Proof.
  intros t t0 tr e H; unfold proj; rewrite filter_app, map_app; cbn.
  apply Nat.eqb_neq in H; rewrite H; cbn; apply app_nil_r.
Qed.
Lemma held_snoc_same : forall tr t e, held (tr ++ [(t, e)]) t = step1 (held tr t) e.
Proof. intros; unfold held; rewrite proj_snoc_same; apply held1_snoc. Qed.
Lemma held_snoc_other : forall tr t t0 e, t0 <> t -> held (tr ++ [(t0, e)]) t = held tr t.
Proof. intros; unfold held; rewrite proj_snoc_other; auto. Qed.

Lemma firstn_snoc : forall A (l : list A) k x,
  nth_error l k = Some x -> firstn (S k) l = firstn k l ++ [x].
Proof.
  induction l as [|a l IH]; intros [|k] x H; cbn in *; try discriminate.
  - inversion H; reflexivity.
  - f_equal; apply IH; exact H.
Qed.
Lemma firstn_none : forall A (l : list A) k,
  nth_error l k = None -> firstn (S k) l = firstn k l.
Proof.
  intros A l k H; apply nth_error_None in H.
  rewrite !firstn_all2; auto; lia.
Qed.

(* ------------------------------------------------------------ executions *)
Section Exec.
Variable n : nat.
Variable recursive : lock -> bool.
Variable progs : tid -> list event.
Notation exec := (exec n recursive progs).

Lemma exec_snoc_inv : forall tr t e,
  exec (tr ++ [(t, e)]) ->
  exec tr /\ t < n /\ (exists rest, progs t = proj t tr ++ e :: rest) /\
  enabledb n recursive tr t e = true.
Proof.
  intros tr t e H; inversion H as [Hnil | tr0 t0 e0 rest H0 Hlt Hp Hen Heq].
  - destruct tr; discriminate.
  - apply app_inj_tail in Heq; destruct Heq as [-> Heq]; inversion Heq; subst.
    repeat split; eauto.
Qed.

Lemma exec_firstn : forall tr, exec tr -> forall k, exec (firstn k tr).
Proof.
  induction 1 as [|tr t e rest H IH Hlt Hp Hen]; intros k.
  - rewrite firstn_nil; constructor.
  - rewrite firstn_app. destruct (Nat.le_gt_cases k (List.length tr)) as [Hk|Hk].
    + replace (k - List.length tr) with 0 by lia. cbn; rewrite app_nil_r; apply IH.
    + rewrite firstn_all2 by lia.
      destruct (k - List.length tr) as [|m] eqn:E; [lia|]. cbn. rewrite firstn_nil.
      econstructor; eauto.
Qed.

Lemma exec_at : forall tr i t e, exec tr -> nth_error tr i = Some (t, e) ->
  exec (firstn i tr) /\ t < n /\ (exists rest, progs t = proj t (firstn i tr) ++ e :: rest) /\
  enabledb n recursive (firstn i tr) t e = true.
Proof.
  intros tr i t e H Hn. apply exec_snoc_inv. rewrite <- (firstn_snoc _ _ _ _ Hn).
  apply exec_firstn; exact H.
Qed.

Lemma held_support : forall tr, exec tr -> forall t l, held tr t l > 0 -> t < n.
Proof.
  induction 1 as [|tr t0 e rest H IH Hlt Hp Hen]; intros t l Hh.
  - cbn in Hh; lia.
  - destruct (Nat.eq_dec t0 t) as [->|Hne]; [exact Hlt|].
    rewrite held_snoc_other in Hh by exact Hne. eapply IH; eauto.
Qed.

Lemma free_forb_spec : forall tr t l, free_forb n recursive tr t l = true ->
  (forall t', t' < n -> t' <> t -> held tr t' l = 0) /\ (recursive l = false -> held tr t l = 0).
Proof.
  intros tr t l H; unfold free_forb in H. apply andb_true_iff in H; destruct H as [H1 H2]. split.
  - intros t' Hlt Hne. rewrite forallb_forall in H1.
    assert (Hin : In t' (seq 0 n)) by (apply in_seq; lia).
    specialize (H1 _ Hin). apply orb_true_iff in H1; destruct H1 as [H1|H1].
    + apply Nat.eqb_eq in H1; contradiction.
    + apply Nat.eqb_eq in H1; exact H1.
  - intros Hr; rewrite Hr in H2; cbn in H2. apply Nat.eqb_eq in H2; exact H2.
Qed.

Lemma enabled_acquires : forall tr t e l, enabledb n recursive tr t e = true ->
  In l (acquires e) -> free_forb n recursive tr t l = true.
Proof.
  intros tr t e l H Hin; destruct e; cbn in Hin; try contradiction.
  - destruct Hin as [<-|[]]; exact H.
  - cbn in H. apply andb_true_iff in H; destruct H as [_ H].
    rewrite forallb_forall in H; apply H; exact Hin.
Qed.

(* mutual exclusion *)
Lemma mutex : forall tr, exec tr -> forall t t' l,
  held tr t l > 0 -> held tr t' l > 0 -> t = t'.
Proof.
  induction 1 as [|tr t0 e rest H IH Hlt Hp Hen]; intros t t' l H1 H2.
  - cbn in H1; lia.
  - destruct (Nat.eq_dec t t') as [|Hne]; [assumption|exfalso].
    assert (Hkey : forall a b, a <> b -> a = t0 -> held (tr ++ [(t0, e)]) a l > 0 ->
                   held (tr ++ [(t0, e)]) b l > 0 -> False).
    { intros a b Hab -> Ha Hb.
      rewrite held_snoc_other in Hb by congruence.
      rewrite held_snoc_same in Ha.
      destruct (Nat.eq_dec (held tr t0 l) 0) as [Hz|Hnz].
      - assert (Hin : In l (acquires e)) by (apply (step1_gt (held tr t0)); lia).
        pose proof (enabled_acquires _ _ _ _ Hen Hin) as Hf.
        apply free_forb_spec in Hf; destruct Hf as [Hf _].
        assert (b < n) by (eapply held_support; eauto).
        specialize (Hf b); lia.
      - assert (t0 = b) by (apply (IH t0 b l); lia). congruence. }
    destruct (Nat.eq_dec t t0) as [Ht|Ht]; [eapply (Hkey t t'); eauto|].
    destruct (Nat.eq_dec t' t0) as [Ht'|Ht']; [eapply (Hkey t' t); eauto|].
    rewrite held_snoc_other in H1, H2 by congruence.
    apply Hne; eapply IH; eauto.
Qed.

(* discrete intermediate-value lemmas *)
Lemma rise : forall (f : nat -> nat) i j, i <= j -> f i = 0 -> f j > 0 ->
  exists a, i <= a < j /\ f a = 0 /\ f (S a) > 0.
Proof.
  intros f i j Hij; induction Hij as [|j Hij IH]; intros H0 Hj; [lia|].
  destruct (Nat.eq_dec (f j) 0) as [Hz|Hnz].
  - exists j; repeat split; auto; lia.
  - destruct IH as (a & Ha & Ha0 & Ha1); auto; [lia|]. exists a; repeat split; auto; lia.
Qed.
Lemma drop : forall (f : nat -> nat) i a, i <= a -> f i > 0 -> f a = 0 ->
  exists r, i <= r < a /\ f (S r) < f r.
Proof.
  intros f i a Hia; induction Hia as [|a Hia IH]; intros Hi Ha; [lia|].
  destruct (Nat.eq_dec (f a) 0) as [Hz|Hnz].
  - destruct IH as (r & Hr & Hlt); auto. exists r; split; [lia|exact Hlt].
  - exists a; split; [lia|lia].
Qed.

(* what changes thread t's count of l between positions k and k+1 *)
Lemma held_change : forall tr k t l,
  held (firstn (S k) tr) t l <> held (firstn k tr) t l ->
  exists e, nth_error tr k = Some (t, e) /\
            held (firstn (S k) tr) t l = step1 (held (firstn k tr) t) e l.
Proof.
  intros tr k t l H. destruct (nth_error tr k) as [[t0 e]|] eqn:E.
  - rewrite (firstn_snoc _ _ _ _ E) in *.
    destruct (Nat.eq_dec t0 t) as [->|Hne].
    + exists e; split; auto. rewrite held_snoc_same; reflexivity.
    + rewrite held_snoc_other in H by exact Hne. contradiction.
  - rewrite (firstn_none _ _ _ E) in H; contradiction.
Qed.

(* If t1 holds l at position i and t2 <> t1 holds l at a later position j, then
   in between t1 released l and afterwards t2 acquired it. *)
Lemma lock_handoff : forall tr, exec tr -> forall i j t1 t2 l,
  i <= j -> t1 <> t2 ->
  held (firstn i tr) t1 l > 0 -> held (firstn j tr) t2 l > 0 ->
  exists r a ea, i <= r /\ r < a /\ a < j /\
    nth_error tr r = Some (t1, Rel l) /\
    nth_error tr a = Some (t2, ea) /\ In l (acquires ea).
Proof.
  intros tr H i j t1 t2 l Hij Hne H1 H2.
  assert (Hg0 : held (firstn i tr) t2 l = 0).
  { destruct (Nat.eq_dec (held (firstn i tr) t2 l) 0) as [|Hnz]; auto.
    exfalso; apply Hne. apply (mutex _ (exec_firstn _ H i) t1 t2 l); lia. }
  destruct (rise (fun k => held (firstn k tr) t2 l) i j Hij Hg0 H2) as (a & Ha & Ha0 & Ha1).
  cbn beta in Ha0, Ha1.
  destruct (held_change tr a t2 l) as (ea & Hea & Hst); [lia|].
  assert (Hin : In l (acquires ea)) by (apply (step1_gt (held (firstn a tr) t2)); lia).
  destruct (exec_at _ _ _ _ H Hea) as (Hexa & _ & _ & Hen).
  pose proof (enabled_acquires _ _ _ _ Hen Hin) as Hf.
  apply free_forb_spec in Hf; destruct Hf as [Hf _].
  assert (Ht1n : t1 < n) by (eapply (held_support _ (exec_firstn _ H i)); eauto).
  assert (Hf1 : held (firstn a tr) t1 l = 0) by (apply Hf; auto).
  destruct (drop (fun k => held (firstn k tr) t1 l) i a) as (r & Hr & Hlt); [lia|exact H1|exact Hf1|].
  cbn beta in Hlt.
  destruct (held_change tr r t1 l) as (er & Her & Hstr); [lia|].
  rewrite Hstr in Hlt. apply step1_lt in Hlt; subst er.
  exists r, a, ea. repeat split; auto; lia.
Qed.

(* ------------------------------------------------- data-race freedom *)
Variable protects : loc -> list lock.
Hypothesis Hdisc : forall t, t < n -> disciplined protects (progs t).

Lemma access_ok_at : forall tr i t e, exec tr -> nth_error tr i = Some (t, e) ->
  access_ok protects (held (firstn i tr) t) e.
Proof.
  intros tr i t e H Hn. destruct (exec_at _ _ _ _ H Hn) as (_ & Hlt & (rest & Hp) & _).
  unfold held. eapply (Hdisc t Hlt); eauto.
Qed.

Lemma common_lock : forall h1 h2 e1 e2 x,
  conflict e1 e2 x -> access_ok protects h1 e1 -> access_ok protects h2 e2 ->
  exists l, In l (protects x) /\ h1 l > 0 /\ h2 l > 0.
Proof.
  intros h1 h2 e1 e2 x (Ha1 & Ha2 & Hw & Hat) A1 A2.
  destruct e1; cbn in Ha1; try discriminate; inversion Ha1; subst; clear Ha1;
  destruct e2; cbn in Ha2; try discriminate; inversion Ha2; subst; clear Ha2;
  cbn in Hw, Hat, A1, A2; try discriminate.
  - (* Rd, Wr *) destruct A1 as (l & Hin & Hl). exists l; repeat split; auto. apply A2; auto.
  - (* Rd, AWr *) destruct A1 as (l & Hin & _). rewrite A2 in Hin; contradiction.
  - (* Rd, ARMW *) destruct A1 as (l & Hin & _). rewrite A2 in Hin; contradiction.
  - (* Wr, Rd *) destruct A2 as (l & Hin & Hl). exists l; repeat split; auto. apply A1; auto.
  - (* Wr, Wr *) destruct A1 as (Hne & A1). destruct (protects x) as [|l r] eqn:E; [congruence|].
    exists l; repeat split; [left; reflexivity| apply A1; left; reflexivity | apply A2; left; reflexivity].
  - destruct A1 as (Hne & _); congruence.
  - destruct A1 as (Hne & _); congruence.
  - destruct A1 as (Hne & _); congruence.
  - destruct A2 as (Hne & _); congruence.
  - destruct A2 as (l & Hin & _). rewrite A1 in Hin; contradiction.
  - destruct A2 as (Hne & _); congruence.
  - destruct A2 as (l & Hin & _). rewrite A1 in Hin; contradiction.
  - destruct A2 as (Hne & _); congruence.
Qed.

Lemma drf_explicit : forall tr, exec tr ->
  forall i j t1 t2 e1 e2 x,
    i < j -> nth_error tr i = Some (t1, e1) -> nth_error tr j = Some (t2, e2) ->
    t1 <> t2 -> conflict e1 e2 x ->
    exists l r a ea, In l (protects x) /\ i < r /\ r < a /\ a < j /\
      nth_error tr r = Some (t1, Rel l) /\
      nth_error tr a = Some (t2, ea) /\ In l (acquires ea).
Proof.
  intros tr H i j t1 t2 e1 e2 x Hij H1 H2 Hne Hc.
  pose proof (access_ok_at _ _ _ _ H H1) as A1.
  pose proof (access_ok_at _ _ _ _ H H2) as A2.
  destruct (common_lock _ _ _ _ _ Hc A1 A2) as (l & Hin & Hl1 & Hl2).
  destruct (lock_handoff _ H i j t1 t2 l) as (r & a & ea & Hr & Hra & Haj & Er & Ea & Hacq); auto; [lia|].
  exists l, r, a, ea. repeat split; auto.
  destruct (Nat.eq_dec r i) as [->|]; [|lia].
  rewrite Er in H1; inversion H1; subst. destruct Hc as (Hc & _); cbn in Hc; discriminate.
Qed.

Lemma no_race : forall tr, exec tr -> ~ data_race tr.
Proof.
  intros tr H (i & j & t1 & t2 & e1 & e2 & x & Hij & H1 & H2 & Hne & Hc & Hnhb).
  destruct (drf_explicit _ H _ _ _ _ _ _ _ Hij H1 H2 Hne Hc)
    as (l & r & a & ea & _ & Hir & Hra & Haj & Er & Ea & Hacq).
  apply Hnhb.
  eapply hb_trans; [eapply hb_po; [exact Hir| exact H1 | exact Er]|].
  eapply hb_trans; [eapply hb_sw; [exact Hra | exact Er | exact Ea | exact Hacq]|].
  eapply hb_po; [exact Haj | exact Ea | exact H2].
Qed.

End Exec.

(* ------------------------------------------------- deadlock freedom *)
Lemma forallb_false_ex : forall A (f : A -> bool) l, forallb f l = false ->
  exists x, In x l /\ f x = false.
Proof.
  induction l as [|a l IH]; cbn; intros H; [discriminate|].
  destruct (f a) eqn:E; cbn in H.
  - destruct (IH H) as (x & Hin & Hx); exists x; auto.
  - exists a; auto.
Qed.

Section Deadlock.
Variable n : nat.
Variable recursive : lock -> bool.
Variable progs : tid -> list event.
Variable rank : lock -> nat.
Hypothesis Hord : forall t, t < n -> ordered rank recursive (progs t).
Notation exec := (exec n recursive progs).

Lemma exec_prefix : forall tr, exec tr -> forall t, exists rest, progs t = proj t tr ++ rest.
Proof.
  induction 1 as [|tr t0 e rest H IH Hlt Hp Hen]; intros t.
  - exists (progs t); reflexivity.
  - destruct (Nat.eq_dec t0 t) as [->|Hne].
    + exists rest. rewrite proj_snoc_same, <- app_assoc; exact Hp.
    + rewrite proj_snoc_other by exact Hne. apply IH.
Qed.

Lemma holder_unfinished : forall tr t l, exec tr -> t < n -> held tr t l > 0 ->
  unfinished progs tr t.
Proof.
  intros tr t l H Hlt Hh. destruct (exec_prefix _ H t) as ([|e rest] & Hp).
  - exfalso. rewrite app_nil_r in Hp. destruct (Hord t Hlt) as [_ Hz].
    unfold held in Hh. rewrite <- Hp in Hh. specialize (Hz l); lia.
  - exists e, rest; exact Hp.
Qed.

Lemma next_acq_ok : forall tr t e rest, t < n -> progs t = proj t tr ++ e :: rest ->
  acq_ok rank recursive (held tr t) e.
Proof. intros tr t e rest Hlt Hp. destruct (Hord t Hlt) as [Ho _]. unfold held; eapply Ho; eauto. Qed.

Lemma not_free_holder : forall tr t l, free_forb n recursive tr t l = false ->
  (exists t', t' < n /\ t' <> t /\ held tr t' l > 0) \/ (recursive l = false /\ held tr t l > 0).
Proof.
  intros tr t l H; unfold free_forb in H. apply andb_false_iff in H; destruct H as [H|H].
  - left. apply forallb_false_ex in H; destruct H as (t' & Hin & Hf).
    apply in_seq in Hin. apply orb_false_iff in Hf; destruct Hf as [Hf1 Hf2].
    apply Nat.eqb_neq in Hf1, Hf2. exists t'; repeat split; auto; lia.
  - right. apply orb_false_iff in H; destruct H as [H1 H2]. apply Nat.eqb_neq in H2. split; auto; lia.
Qed.

(* a thread whose next event is not enabled waits for a lock another thread holds *)
Lemma blocked_waits : forall tr t e rest, t < n -> progs t = proj t tr ++ e :: rest ->
  enabledb n recursive tr t e = false ->
  exists l t', In l (acquires e) /\ t' < n /\ t' <> t /\ held tr t' l > 0.
Proof.
  intros tr t e rest Hlt Hp Hen. pose proof (next_acq_ok _ _ _ _ Hlt Hp) as Hok.
  destruct e; cbn in Hen; try discriminate.
  - (* Acq *) destruct (not_free_holder _ _ _ Hen) as [(t' & A & B & C)|[Hr Hh]].
    + exists l, t'; cbn; auto.
    + exfalso. cbn in Hok. destruct (Hok l Hh) as [Hlt'|[_ Hr']]; [lia|congruence].
  - (* AcqMulti *) cbn in Hok; destruct Hok as [Hnd Hok]. rewrite Hnd in Hen; cbn in Hen.
    apply forallb_false_ex in Hen; destruct Hen as (l & Hin & Hf).
    destruct (not_free_holder _ _ _ Hf) as [(t' & A & B & C)|[Hr Hh]].
    + exists l, t'; cbn; auto.
    + exfalso. specialize (Hok l l Hin Hh); lia.
  - (* Rel *) exfalso. cbn in Hok. apply negb_false_iff in Hen. apply Nat.eqb_eq in Hen; lia.
Qed.

Definition waits (tr : trace) (t : tid) (l : lock) : Prop :=
  t < n /\ exists e rest, progs t = proj t tr ++ e :: rest /\ In l (acquires e) /\
  exists t', t' < n /\ t' <> t /\ held tr t' l > 0.

Lemma waits_step : forall tr, exec tr -> deadlocked n recursive progs tr ->
  forall t l, waits tr t l -> exists t2 l2, waits tr t2 l2 /\ rank l < rank l2.
Proof.
  intros tr H [_ Hblk] t l (Hlt & e & rest & Hp & Hin & t' & Hlt' & Hne & Hh).
  destruct (holder_unfinished _ _ _ H Hlt' Hh) as (e' & rest' & Hp').
  pose proof (Hblk _ _ _ Hlt' Hp') as Hen'.
  destruct (blocked_waits _ _ _ _ Hlt' Hp' Hen') as (l2 & t'' & Hin2 & Hlt'' & Hne'' & Hh'').
  exists t', l2. split.
  - split; [exact Hlt'|]. exists e', rest'. repeat split; auto. exists t''; auto.
  - pose proof (next_acq_ok _ _ _ _ Hlt' Hp') as Hok.
    destruct e'; cbn in Hin2; try contradiction.
    + destruct Hin2 as [<-|[]]. cbn in Hok. destruct (Hok l Hh) as [|[-> _]]; [assumption|].
      exfalso. apply Hne''. symmetry. eapply (mutex n recursive progs); eauto.
    + cbn in Hok; destruct Hok as [_ Hok]. eapply Hok; eauto.
Qed.

Lemma waits_unbounded : forall tr, exec tr -> deadlocked n recursive progs tr ->
  forall t l, waits tr t l -> forall k, exists t2 l2, waits tr t2 l2 /\ k <= rank l2.
Proof.
  intros tr H D t l W k; induction k as [|k IH].
  - exists t, l; split; [exact W|lia].
  - destruct IH as (t2 & l2 & W2 & Hk).
    destruct (waits_step _ H D _ _ W2) as (t3 & l3 & W3 & Hlt). exists t3, l3; split; [exact W3|lia].
Qed.

Definition all_acq_ranks : list nat :=
  map rank (flat_map acquires (flat_map progs (seq 0 n))).

Lemma waits_bounded : forall tr t l, waits tr t l -> rank l <= list_max all_acq_ranks.
Proof.
  intros tr t l (Hlt & e & rest & Hp & Hin & _).
  assert (HF : Forall (fun k => k <= list_max all_acq_ranks) all_acq_ranks) by (apply list_max_le; lia).
  rewrite Forall_forall in HF. apply HF. unfold all_acq_ranks.
  apply in_map. apply in_flat_map. exists e; split; [|exact Hin].
  apply in_flat_map. exists t; split; [apply in_seq; lia|]. rewrite Hp. apply in_or_app; right; left; reflexivity.
Qed.

Lemma no_deadlock_lemma : forall tr, exec tr -> ~ deadlocked n recursive progs tr.
Proof.
  intros tr H D. pose proof D as [(t & Hlt & e & rest & Hp) Hblk].
  pose proof (Hblk _ _ _ Hlt Hp) as Hen.
  destruct (blocked_waits _ _ _ _ Hlt Hp Hen) as (l & t' & Hin & Hlt' & Hne & Hh).
  assert (W : waits tr t l) by (split; [exact Hlt|]; exists e, rest; repeat split; auto; exists t'; auto).
  destruct (waits_unbounded _ H D _ _ W (S (list_max all_acq_ranks))) as (t2 & l2 & W2 & Hk).
  pose proof (waits_bounded _ _ _ W2). lia.
Qed.

End Deadlock.

(* ------------------------------------------------- checker soundness *)
Definition good (protects : loc -> list lock) (rank : lock -> nat) (recursive : lock -> bool)
           (h0 : lstate) (p : list event) : Prop :=
  (forall pre e post, p = pre ++ e :: post ->
     access_ok protects (fold_left step1 pre h0) e /\ acq_ok rank recursive (fold_left step1 pre h0) e) /\
  (forall l, fold_left step1 p h0 l = 0).

Lemma good_disciplined_ordered : forall P rk rc p, good P rk rc (fun _ => 0) p ->
  disciplined P p /\ ordered rk rc p.
Proof.
  intros P rk rc p [G1 G2]. split; [|split].
  - intros pre e post E; apply (G1 _ _ _ E).
  - intros pre e post E; apply (G1 _ _ _ E).
  - exact G2.
Qed.

Lemma access_ok_ext : forall P h h' e, (forall l, h l = h' l) -> access_ok P h e -> access_ok P h' e.
Proof.
  intros P h h' e H A; destruct e; cbn in *; auto.
  - destruct A as (l & Hin & Hl); exists l; split; auto; rewrite <- H; exact Hl.
  - destruct A as (Hne & A); split; auto; intros l Hin; rewrite <- H; auto.
Qed.
Lemma acq_ok_ext : forall rk rc h h' e, (forall l, h l = h' l) -> acq_ok rk rc h e -> acq_ok rk rc h' e.
Proof.
  intros rk rc h h' e H A; destruct e; cbn in *; auto.
  - intros l' Hl; apply A; rewrite H; exact Hl.
  - destruct A as [Hnd A]; split; auto; intros l l' Hin Hl; eapply A; eauto; rewrite H; exact Hl.
  - rewrite <- H; exact A.
Qed.

Lemma heldb_count : forall l hl, heldb l hl = true <-> countl l hl > 0.
Proof.
  intros l hl; unfold heldb; split.
  - intros H; apply existsb_exists in H; destruct H as (a & Hin & E).
    apply pair_eqb_eq in E; subst. apply in_countl_pos; exact Hin.
  - intros H; apply existsb_exists. exists l; split; [apply countl_pos_in; exact H|apply pair_eqb_refl].
Qed.

Lemma countl_remove1 : forall l l0 hl,
  countl l (remove1 l0 hl) = if pair_eqb l l0 then pred (countl l hl) else countl l hl.
Proof.
  induction hl as [|a r IH]; cbn [remove1 countl].
  - destruct (pair_eqb l l0); reflexivity.
  - destruct (pair_eqb a l0) eqn:Ea.
    + apply pair_eqb_eq in Ea; subst a. destruct (pair_eqb l l0); cbn; lia.
    + cbn [countl]. rewrite IH. destruct (pair_eqb l l0) eqn:El; [|reflexivity].
      apply pair_eqb_eq in El; subst l0. rewrite (pair_eqb_sym l a), Ea. cbn; reflexivity.
Qed.

Lemma next_hl_count : forall hl h e, (forall l, countl l hl = h l) ->
  forall l, countl l (next_hl hl e) = step1 h e l.
Proof.
  intros hl h e H l; rewrite step1_val; destruct e; cbn [next_hl acquires countl]; rewrite <- ?H; try lia.
  - rewrite countl_app; lia.
  - apply countl_remove1.
Qed.

Lemma ev_okb_sound : forall P rk rc hl h e, (forall l, countl l hl = h l) ->
  ev_okb P rk rc hl e = true -> access_ok P h e /\ acq_ok rk rc h e.
Proof.
  intros P rk rc hl h e H E.
  assert (Hh : forall l, heldb l hl = true -> h l > 0) by (intros l Hl; rewrite <- H; apply heldb_count; exact Hl).
  assert (Hin : forall l, h l > 0 -> In l hl) by (intros l Hl; apply countl_pos_in; rewrite H; exact Hl).
  destruct e; cbn in E |- *.
  - split; [exact I|]. intros l' Hl'. rewrite forallb_forall in E. specialize (E _ (Hin _ Hl')).
    apply orb_true_iff in E; destruct E as [E|E].
    + left; apply Nat.ltb_lt; exact E.
    + apply andb_true_iff in E; destruct E as [E1 E2]. apply pair_eqb_eq in E1. right; auto.
  - split; [exact I|]. apply andb_true_iff in E; destruct E as [E1 E2]. split; [exact E1|].
    intros l l' Hl Hl'. rewrite forallb_forall in E2. specialize (E2 _ Hl).
    rewrite forallb_forall in E2. specialize (E2 _ (Hin _ Hl')). apply Nat.ltb_lt; exact E2.
  - split; [exact I|]. apply Hh; exact E.
  - split; [|exact I]. apply existsb_exists in E; destruct E as (l & Hl & El). exists l; split; auto.
  - split; [|exact I]. apply andb_true_iff in E; destruct E as [E1 E2]. split.
    + destruct (P x); [discriminate|congruence].
    + intros l Hl. rewrite forallb_forall in E2. apply Hh; apply E2; exact Hl.
  - split; [|exact I]. destruct (P x); [reflexivity|discriminate].
  - split; [|exact I]. destruct (P x); [reflexivity|discriminate].
  - split; [|exact I]. destruct (P x); [reflexivity|discriminate].
Qed.

Lemma check_prog_sound : forall P rk rc p hl h, (forall l, countl l hl = h l) ->
  check_prog P rk rc hl p = true -> good P rk rc h p.
Proof.
  induction p as [|e0 p IH]; intros hl h H C; cbn in C.
  - split.
    + intros pre e post E; destruct pre; discriminate.
    + intros l; cbn. destruct hl; [|discriminate]. rewrite <- H; reflexivity.
  - apply andb_true_iff in C; destruct C as [C1 C2].
    pose proof (next_hl_count hl h e0 H) as Hn.
    destruct (IH _ _ Hn C2) as [G1 G2]. split.
    + intros pre e post E. destruct pre as [|e1 pre]; cbn in E; inversion E; subst.
      * cbn. eapply ev_okb_sound; eauto.
      * cbn. apply (G1 pre e post); reflexivity.
    + intros l; cbn; apply G2.
Qed.

Lemma good_app : forall P rk rc p q, good P rk rc (fun _ => 0) p -> good P rk rc (fun _ => 0) q ->
  good P rk rc (fun _ => 0) (p ++ q).
Proof.
  intros P rk rc p q [Gp1 Gp2] [Gq1 Gq2]. split.
  - intros pre e post E. apply app_eq_app in E. destruct E as (l' & [[E1 E2]|[E1 E2]]).
    + destruct l' as [|e' l''].
      * cbn in E2. rewrite app_nil_r in E1; subst pre.
        destruct (Gq1 [] e post (eq_sym E2)) as [A B]. cbn in A, B. split.
        -- eapply access_ok_ext; [|exact A]. intros l; symmetry; apply Gp2.
        -- eapply acq_ok_ext; [|exact B]. intros l; symmetry; apply Gp2.
      * cbn in E2. injection E2 as He Hpost. subst e'. apply (Gp1 pre e l''); exact E1.
    + subst pre. destruct (Gq1 l' e post E2) as [A B]. rewrite fold_left_app. split.
      * eapply access_ok_ext; [|exact A]. intros l; apply fold_step1_ext; intros l0; symmetry; apply Gp2.
      * eapply acq_ok_ext; [|exact B]. intros l; apply fold_step1_ext; intros l0; symmetry; apply Gp2.
  - intros l. rewrite fold_left_app. rewrite (fold_step1_ext q _ (fun _ => 0) Gp2). apply Gq2.
Qed.

(* ------------------------------------------------- instantiation *)
Section Inst.
Variable rho : nat -> nat.
Hypothesis Hinj : injective rho.

Lemma inst_pair_inj : forall a b, inst_pair rho a = inst_pair rho b -> a = b.
Proof.
  intros [a1 a2] [b1 b2] H; unfold inst_pair in H; cbn in H. inversion H. f_equal; auto.
Qed.
Lemma inst_pair_eqb : forall a b, pair_eqb (inst_pair rho a) (inst_pair rho b) = pair_eqb a b.
Proof.
  intros a b; destruct (pair_eqb a b) eqn:E.
  - apply pair_eqb_eq in E; subst; apply pair_eqb_refl.
  - apply pair_eqb_neq; apply pair_eqb_neq in E; intros H; apply E; apply inst_pair_inj; exact H.
Qed.
Lemma countl_inst : forall l ls, countl (inst_pair rho l) (map (inst_pair rho) ls) = countl l ls.
Proof. induction ls as [|a r IH]; cbn; [reflexivity|]. rewrite inst_pair_eqb, IH; reflexivity. Qed.
Lemma acquires_inst : forall e, acquires (inst rho e) = map (inst_pair rho) (acquires e).
Proof. destruct e; reflexivity. Qed.
Lemma existsb_inst : forall a r,
  existsb (pair_eqb (inst_pair rho a)) (map (inst_pair rho) r) = existsb (pair_eqb a) r.
Proof. induction r as [|b r IHr]; cbn; [reflexivity|]. rewrite inst_pair_eqb, IHr; reflexivity. Qed.
Lemma nodupb_inst : forall ls, nodupb (map (inst_pair rho) ls) = nodupb ls.
Proof.
  induction ls as [|a r IH]; cbn; [reflexivity|]. rewrite IH, existsb_inst; reflexivity.
Qed.

Lemma step1_inst : forall h h' e l, h' (inst_pair rho l) = h l ->
  step1 h' (inst rho e) (inst_pair rho l) = step1 h e l.
Proof.
  intros h h' e l H. rewrite !step1_val. destruct e; cbn [inst acquires countl map];
    rewrite ?inst_pair_eqb, ?H, ?countl_inst; try reflexivity.
Qed.

Lemma held1_inst : forall pre l, held1 (map (inst rho) pre) (inst_pair rho l) = held1 pre l.
Proof.
  intros pre; induction pre as [|e pre IH] using rev_ind; intros l; [reflexivity|].
  rewrite map_app; cbn [map]. rewrite !held1_snoc. apply step1_inst. apply IH.
Qed.

Lemma held1_inst_pre : forall pre L, held1 (map (inst rho) pre) L > 0 ->
  exists l, L = inst_pair rho l /\ held1 pre l > 0.
Proof.
  intros pre; induction pre as [|e pre IH] using rev_ind; intros L H; [cbn in H; lia|].
  assert (Hex : exists l, L = inst_pair rho l).
  { rewrite map_app in H; cbn [map] in H. rewrite held1_snoc in H.
    destruct (Nat.eq_dec (held1 (map (inst rho) pre) L) 0) as [Hz|Hnz].
    - assert (Hin : In L (acquires (inst rho e))) by (apply (step1_gt (held1 (map (inst rho) pre))); lia).
      rewrite acquires_inst in Hin. apply in_map_iff in Hin. destruct Hin as (l & El & _). exists l; auto.
    - destruct (IH L) as (l & El & _); [lia|]. exists l; exact El. }
  destruct Hex as (l & ->). exists l; split; [reflexivity|]. rewrite held1_inst in H; exact H.
Qed.

Variable tb : table.
Notation P := (protects_of tb).
Notation rk := (rank_of tb).
Notation rc := (recursive_of tb).

Lemma protects_inst : forall x, P (inst_pair rho x) = map (inst_pair rho) (P x).
Proof. intros [o f]; unfold protects_of, inst_pair; cbn. rewrite map_map; reflexivity. Qed.

Lemma good_inst : forall p, good P rk rc (fun _ => 0) p -> good P rk rc (fun _ => 0) (map (inst rho) p).
Proof.
  intros p [G1 G2]. split.
  - intros pre' e' post' E.
    apply map_eq_app in E. destruct E as (pre & tl & -> & <- & Etl).
    apply map_eq_cons in Etl. destruct Etl as (e & post & -> & <- & <-).
    destruct (G1 pre e post eq_refl) as [A B].
    change (fold_left step1 (map (inst rho) pre) (fun _ => 0)) with (held1 (map (inst rho) pre)).
    change (fold_left step1 pre (fun _ => 0)) with (held1 pre) in A, B.
    split.
    + destruct e; cbn in A |- *; auto.
      * destruct A as (l & Hin & Hl). exists (inst_pair rho l). split.
        -- rewrite protects_inst; apply in_map; exact Hin.
        -- rewrite held1_inst; exact Hl.
      * destruct A as (Hne & A). split.
        -- rewrite protects_inst. destruct (P x); [congruence|discriminate].
        -- intros L HL. rewrite protects_inst in HL. apply in_map_iff in HL. destruct HL as (l & <- & Hl).
           rewrite held1_inst; apply A; exact Hl.
      * rewrite protects_inst, A; reflexivity.
      * rewrite protects_inst, A; reflexivity.
      * rewrite protects_inst, A; reflexivity.
    + destruct e; cbn in B |- *; auto.
      * intros L' HL'. destruct (held1_inst_pre _ _ HL') as (l' & -> & Hl').
        destruct (B l' Hl') as [Hlt|[-> Hr]]; [left; exact Hlt|right; split; auto].
      * destruct B as [Hnd B]. split; [rewrite nodupb_inst; exact Hnd|].
        intros L L' HL HL'. apply in_map_iff in HL. destruct HL as (l & <- & Hl).
        destruct (held1_inst_pre _ _ HL') as (l' & -> & Hl'). exact (B l l' Hl Hl').
      * rewrite held1_inst; exact B.
  - intros L. change (fold_left step1 (map (inst rho) p) (fun _ => 0)) with (held1 (map (inst rho) p)).
    destruct (held1 (map (inst rho) p) L) eqn:E; [reflexivity|exfalso].
    destruct (held1_inst_pre p L) as (l & _ & Hl); [lia|]. specialize (G2 l). unfold held1 in Hl. lia.
Qed.
End Inst.

Lemma lockset_ok_methods : forall tb, lockset_ok tb = true ->
  forall name body, In (name, body) (t_methods tb) ->
  good (protects_of tb) (rank_of tb) (recursive_of tb) (fun _ => 0) body.
Proof.
  intros tb H name body Hin. unfold lockset_ok in H. rewrite forallb_forall in H.
  specialize (H _ Hin); cbn in H. eapply check_prog_sound; [|exact H]. reflexivity.
Qed.

Lemma from_table_good : forall tb, lockset_ok tb = true -> forall p, from_table tb p ->
  good (protects_of tb) (rank_of tb) (recursive_of tb) (fun _ => 0) p.
Proof.
  intros tb H p F; induction F as [|name body rho p Hin Hinj F IH].
  - split; [intros pre e post E; destruct pre; discriminate|reflexivity].
  - apply good_app; [|exact IH]. apply good_inst; [exact Hinj|]. eapply lockset_ok_methods; eauto.
Qed.

Lemma table_threads_safe_lemma : forall tb, lockset_ok tb = true ->
  forall n progs, (forall t, t < n -> from_table tb (progs t)) ->
  forall tr, exec n (recursive_of tb) progs tr ->
    ~ data_race tr /\ ~ deadlocked n (recursive_of tb) progs tr.
Proof.
  intros tb H n progs Hp tr Hex.
  assert (G : forall t, t < n -> disciplined (protects_of tb) (progs t) /\
                                 ordered (rank_of tb) (recursive_of tb) (progs t)).
  { intros t Hlt; apply good_disciplined_ordered; apply from_table_good; auto. }
  split.
  - eapply no_race; eauto. intros t Hlt; apply (G t Hlt).
  - eapply no_deadlock_lemma; eauto. intros t Hlt; apply (G t Hlt).
Qed.
