(* C03 - a CSG expression denotes one solid however it is built, shared or
   evaluated.  Only statements closed by `exact`, each followed by Print
   Assumptions.  Model: Csg/CsgDefs.v (port of src/csg_tree.cpp).
   A : CsgOps is ANY carrier of solids and transforms satisfying CsgLaws
   (Boolean-algebra laws needed + monoid action); O : oracles A is ANY answer to
   every use_count / bounding-box / NumVert question, the bounding-box oracle
   being sound (boxes that do not overlap bound disjoint solids) - that is the
   hypothesis the C++ relies on for Compose - and kMaxUnionSize >= 2.
   spec_hops is the eager, purely algebraic reading of a history. *)
From Coq Require Import List ZArith Bool Arith Permutation.
From MV Require Import Csg.CsgDefs Csg.CsgAlgebra Csg.CsgHeap Csg.CsgVisit Csg.CsgModel
     Csg.CsgVoxelDefs Csg.CsgVoxel Csg.CsgThms Csg.CsgStack Csg.CsgFinal Csg.CsgStatusDefs Csg.CsgStatus Csg.CsgStatusThms.
Import ListNotations.

(* Run ANY history of client operations (constructors, BatchBoolean, + - ^,
   transforms, copies, drops, forcing calls anywhere), then force ANY live
   handle: for every oracle answer the big-step evaluator is defined with fuel
   = length of the history + 1, the heaps are well formed, the forced handle
   holds a LEAF whose solid equals the value of the handle's original
   expression, every node that existed before the force denotes what it did,
   and every handle has its algebraic value before and after. *)
Theorem force_denotes :
  forall (A : CsgOps), CsgLaws A ->
  forall (O : oracles A) (l : list (hop A)) (sp : list (option (sol A))) (a : nat) (v : sol A),
    oracles_ok A O -> spec_hops A [] l = Some sp -> sp_handle A sp a = Some v ->
    exists s s' lid lf,
      run A O (S (length l)) false l = Some s /\
      run A O (S (length l)) false (l ++ [HForce A a]) = Some s' /\
      wf A (st_heap A s) /\ wf A (st_heap A s') /\
      handle A s' a = Some lid /\ get_node A (st_heap A s') lid = Some (NLeaf A lf) /\
      eqS A (lden A lf) v /\
      (forall id, id < length (nodes A (st_heap A s)) ->
                  eqS A (dn A (st_heap A s') id) (dn A (st_heap A s) id)) /\
      (forall b w, sp_handle A sp b = Some w ->
         exists i i', handle A s b = Some i /\ handle A s' b = Some i' /\
                      eqS A (dn A (st_heap A s) i) w /\ eqS A (dn A (st_heap A s') i') w).
Proof. exact force_denotes_thm. Qed.
Print Assumptions force_denotes.

(* lazy = eager = any interleaving: histories equal up to their forcing calls,
   evaluated under two unrelated sets of oracle answers *)
Theorem lazy_eq_eager :
  forall (A : CsgOps), CsgLaws A ->
  forall (O1 O2 : oracles A) (l1 l2 : list (hop A)) sp1 sp2 (a : nat) (v : sol A),
    oracles_ok A O1 -> oracles_ok A O2 ->
    strip_force A l1 = strip_force A l2 ->
    spec_hops A [] l1 = Some sp1 -> spec_hops A [] l2 = Some sp2 ->
    sp_handle A sp1 a = Some v ->
    sp1 = sp2 /\
    exists s1 s2 lid1 lid2 lf1 lf2,
      run A O1 (S (length l1)) false (l1 ++ [HForce A a]) = Some s1 /\
      run A O2 (S (length l2)) false (l2 ++ [HForce A a]) = Some s2 /\
      handle A s1 a = Some lid1 /\ get_node A (st_heap A s1) lid1 = Some (NLeaf A lf1) /\
      handle A s2 a = Some lid2 /\ get_node A (st_heap A s2) lid2 = Some (NLeaf A lf2) /\
      eqS A (lden A lf1) (lden A lf2).
Proof. exact lazy_eq_eager_thm. Qed.
Print Assumptions lazy_eq_eager.

(* differently built: whenever two programs give two handles equal algebraic
   values, forcing them yields equal solids *)
Theorem same_value_same_solid :
  forall (A : CsgOps), CsgLaws A ->
  forall (O1 O2 : oracles A) (l1 l2 : list (hop A)) sp1 sp2 (a1 a2 : nat) (v1 v2 : sol A),
    oracles_ok A O1 -> oracles_ok A O2 ->
    spec_hops A [] l1 = Some sp1 -> spec_hops A [] l2 = Some sp2 ->
    sp_handle A sp1 a1 = Some v1 -> sp_handle A sp2 a2 = Some v2 -> eqS A v1 v2 ->
    exists s1 s2 lid1 lid2 lf1 lf2,
      run A O1 (S (length l1)) false (l1 ++ [HForce A a1]) = Some s1 /\
      run A O2 (S (length l2)) false (l2 ++ [HForce A a2]) = Some s2 /\
      handle A s1 a1 = Some lid1 /\ get_node A (st_heap A s1) lid1 = Some (NLeaf A lf1) /\
      handle A s2 a2 = Some lid2 /\ get_node A (st_heap A s2) lid2 = Some (NLeaf A lf2) /\
      eqS A (lden A lf1) (lden A lf2).
Proof. exact same_value_same_solid_thm. Qed.
Print Assumptions same_value_same_solid.

(* (a - b) - c = a - (b + c), both sides built and forced by the evaluator *)
Theorem sub_sub_is_sub_union :
  forall (A : CsgOps), CsgLaws A ->
  forall (O1 O2 : oracles A) (a b c : sol A),
    oracles_ok A O1 -> oracles_ok A O2 ->
    let l1 := [HLeaf A a; HLeaf A b; HLeaf A c; HBool A Sub 0 1; HBool A Sub 3 2] in
    let l2 := [HLeaf A a; HLeaf A b; HLeaf A c; HBool A Add 1 2; HBool A Sub 0 3] in
    exists s1 s2 lid1 lid2 lf1 lf2,
      run A O1 6 false (l1 ++ [HForce A 4]) = Some s1 /\
      run A O2 6 false (l2 ++ [HForce A 4]) = Some s2 /\
      handle A s1 4 = Some lid1 /\ get_node A (st_heap A s1) lid1 = Some (NLeaf A lf1) /\
      handle A s2 4 = Some lid2 /\ get_node A (st_heap A s2) lid2 = Some (NLeaf A lf2) /\
      eqS A (lden A lf1) (lden A lf2).
Proof. exact sub_sub_is_sub_union_thm. Qed.
Print Assumptions sub_sub_is_sub_union.

(* nested = flat batch, for operand lists of any length at any position; with
   same_value_same_solid this transfers to the evaluator *)
Theorem nested_eq_flat :
  forall (A : CsgOps), CsgLaws A ->
  forall (o : op) (l1 l2 l3 : list (sol A)), o <> Sub -> l2 <> [] ->
    eqS A (den_op A o (l1 ++ den_op A o l2 :: l3)) (den_op A o (l1 ++ l2 ++ l3)).
Proof. exact nested_eq_flat_value. Qed.
Print Assumptions nested_eq_flat.

(* a chain of transforms of any length = its product applied once (values),
   and the two-step chain on an op node through the evaluator *)
Theorem transform_chain_value :
  forall (A : CsgOps), CsgLaws A ->
  forall (ms : list (tr A)) (v : sol A), eqS A (act_chain A ms v) (act A (mprod A ms) v).
Proof. exact transform_chain_value. Qed.
Print Assumptions transform_chain_value.

Theorem transform_chain_is_product :
  forall (A : CsgOps), CsgLaws A ->
  forall (O1 O2 : oracles A) (a b : sol A) (m1 m2 : tr A),
    oracles_ok A O1 -> oracles_ok A O2 ->
    let l1 := [HLeaf A a; HLeaf A b; HBool A Int 0 1; HTransform A 2 m1; HTransform A 3 m2] in
    let l2 := [HLeaf A a; HLeaf A b; HBool A Int 0 1; HTransform A 2 (mmul A m2 m1)] in
    exists s1 s2 lid1 lid2 lf1 lf2,
      run A O1 6 false (l1 ++ [HForce A 4]) = Some s1 /\
      run A O2 5 false (l2 ++ [HForce A 3]) = Some s2 /\
      handle A s1 4 = Some lid1 /\ get_node A (st_heap A s1) lid1 = Some (NLeaf A lf1) /\
      handle A s2 3 = Some lid2 /\ get_node A (st_heap A s2) lid2 = Some (NLeaf A lf2) /\
      eqS A (lden A lf1) (lden A lf2).
Proof. exact transform_chain_is_product_thm. Qed.
Print Assumptions transform_chain_is_product.

(* one op node x = a + b reused under two transforms (they share x's children
   cell, exactly as CsgOpNode::Transform does) *)
Theorem shared_under_transforms :
  forall (A : CsgOps), CsgLaws A ->
  forall (O : oracles A) (a b : sol A) (m1 m2 : tr A),
    oracles_ok A O ->
    let l := [HLeaf A a; HLeaf A b; HBool A Add 0 1; HTransform A 2 m1; HTransform A 2 m2; HBool A Sub 3 4] in
    exists s lid lf,
      run A O 7 false (l ++ [HForce A 5]) = Some s /\
      handle A s 5 = Some lid /\ get_node A (st_heap A s) lid = Some (NLeaf A lf) /\
      eqS A (lden A lf) (diff A (act A m1 (union A a b)) (act A m2 (union A a b))).
Proof. exact shared_under_transforms_thm. Qed.
Print Assumptions shared_under_transforms.

(* BatchBoolean: any NumVert answers (any pop order), any order of the operands *)
Theorem batch_heap_order_irrelevant :
  forall (A : CsgOps), CsgLaws A ->
  forall (o : op) (sz1 sz2 : (sol A * tr A) -> Z) (l1 l2 : list (sol A * tr A)),
    o <> Sub -> l1 <> [] -> Permutation l1 l2 ->
    exists r1 r2, batch_boolean A sz1 o l1 = Some r1 /\ batch_boolean A sz2 o l2 = Some r2 /\
                  eqS A (lden A r1) (lden A r2) /\
                  eqS A (lden A r1) (big1 A (bop A o) (map (lden A) l1)).
Proof. exact batch_heap_order_irrelevant_thm. Qed.
Print Assumptions batch_heap_order_irrelevant.

(* any binary combination tree over any permutation of the operands (covers
   every task_group completion order of the parallel build) *)
Theorem any_combination_tree :
  forall (A : CsgOps), CsgLaws A ->
  forall (o : op) (t : btree A) (l : list (sol A)),
    o <> Sub -> Permutation (bt_leaves A t) l ->
    eqS A (bt_eval A (bop A o) t) (big1 A (bop A o) l).
Proof. exact any_combination_tree_thm. Qed.
Print Assumptions any_combination_tree.

(* BatchUnion (greedy box-disjoint partition + Compose + BatchBoolean, chunks
   of kmax): the union, PROVIDED non-overlapping boxes bound disjoint solids *)
Theorem compose_is_union_when_disjoint :
  forall (A : CsgOps), CsgLaws A ->
  forall (ovl : (sol A * tr A) -> (sol A * tr A) -> bool) (sz : (sol A * tr A) -> Z) (kmax : nat)
         (l : list (sol A * tr A)),
    ovl_sound A ovl -> 2 <= kmax -> l <> [] ->
    exists r, batch_union A ovl sz kmax l = Some r /\ eqS A (lden A r) (bigU A (map (lden A) l)).
Proof. exact compose_is_union_when_disjoint_thm. Qed.
Print Assumptions compose_is_union_when_disjoint.

(* termination of ToLeafNode (big-step): fuel = number of children cells *)
Theorem to_leaf_terminates :
  forall (A : CsgOps), CsgLaws A ->
  forall (uniq : heap A -> nat -> bool) (ovl : (sol A * tr A) -> (sol A * tr A) -> bool)
         (sz : (sol A * tr A) -> Z) (kmax : nat),
    ovl_sound A ovl -> 2 <= kmax ->
  forall (h : heap A) (id : nat) (o : op) (t : tr A) (c : nat) (ca : option nat) (fuel : nat),
    wf A h -> get_node A h id = Some (NOp A o t c ca) -> length (cells A h) <= fuel ->
    exists h' cid l, to_leaf_rec A uniq ovl sz kmax fuel h id = Some (h', cid) /\
      wf A h' /\ ext A h h' /\ get_node A h' cid = Some (NLeaf A l) /\
      eqS A (lden A l) (dn A h id) /\ cache_of A h' id = Some cid.
Proof. exact to_leaf_rec_ok. Qed.
Print Assumptions to_leaf_terminates.

(* the hypotheses are satisfiable: lattice cells with translations, quarter
   turns and mirrors satisfy every law, and boxes computed from the cells are
   a sound oracle; ex_all_agree in CsgThms.v runs the evaluator on it *)
Theorem laws_have_a_model : CsgLaws VoxOps /\ ovl_sound VoxOps vovl.
Proof. exact (conj VoxLaws vovl_sound). Qed.
Print Assumptions laws_have_a_model.

(* The explicit stack, frame for frame (CsgDefs.step / run / to_leaf_stack): whatever
   the big-step evaluator returns for CsgOpNode::ToLeafNode - heap and cache node -
   the stack machine returns too, after some number of loop iterations.  No law
   of the carrier and no invariant is needed: it is a fact about the two programs. *)
Theorem stack_refines_bigstep :
  forall (A : CsgOps) (uniq : heap A -> nat -> bool) (ovl : (sol A * tr A) -> (sol A * tr A) -> bool)
         (sz : (sol A * tr A) -> Z) (kmax : nat) (fuel : nat) (h : heap A) (id : nat) (r : heap A * nat),
    to_leaf_rec A uniq ovl sz kmax fuel h id = Some r ->
    exists fuel', to_leaf_stack A uniq ovl sz kmax fuel' h id = Some r.
Proof. exact stack_refines_bigstep_thm. Qed.
Print Assumptions stack_refines_bigstep.

(* hence force_denotes holds for the frame-for-frame machine: any history, any
   oracle answers, then force any live handle *)
Theorem stack_force_denotes :
  forall (A : CsgOps), CsgLaws A ->
  forall (O : oracles A) (l : list (hop A)) (sp : list (option (sol A))) (a : nat) (v : sol A),
    oracles_ok A O -> spec_hops A [] l = Some sp -> sp_handle A sp a = Some v ->
    exists fuel s' lid lf,
      run A O fuel true (l ++ [HForce A a]) = Some s' /\
      wf A (st_heap A s') /\
      handle A s' a = Some lid /\ get_node A (st_heap A s') lid = Some (NLeaf A lf) /\
      eqS A (lden A lf) v /\
      (forall b w, sp_handle A sp b = Some w ->
         exists i', handle A s' b = Some i' /\ eqS A (dn A (st_heap A s') i') w).
Proof. exact stack_force_denotes_thm. Qed.
Print Assumptions stack_force_denotes.

(* ---------------- "... and the same Status" ---------------- *)
(* StatOps A E ejoin eqE (CsgStatusDefs.v): the carrier lifted to "a solid or an error code" with the forwarding rules
   of Boolean3::Result / CsgLeafNode::Compose / Impl::Transform; first_wins is the pinned rule (the first errored
   operand's code), any_code identifies all codes.  status_same: for every history, every oracle answer, two histories
   that differ only in forcing calls force a handle to leaves that are both errored or both fine with the same solid,
   and errored exactly when the eager algebraic reading is. *)
Theorem status_same :
  forall (A : CsgOps), CsgLaws A -> forall (E : Type),
  let S1 := StatOps A E first_wins any_code in
  forall (O1 O2 : oracles S1) (l1 l2 : list (hop S1)) sp1 sp2 (a : nat) (v : sol S1),
    oracles_ok S1 O1 -> oracles_ok S1 O2 ->
    strip_force S1 l1 = strip_force S1 l2 ->
    spec_hops S1 [] l1 = Some sp1 -> spec_hops S1 [] l2 = Some sp2 ->
    sp_handle S1 sp1 a = Some v ->
    exists s1 s2 lid1 lid2 lf1 lf2,
      run S1 O1 (S (length l1)) false (l1 ++ [HForce S1 a]) = Some s1 /\
      run S1 O2 (S (length l2)) false (l2 ++ [HForce S1 a]) = Some s2 /\
      handle S1 s1 a = Some lid1 /\ get_node S1 (st_heap S1 s1) lid1 = Some (NLeaf S1 lf1) /\
      handle S1 s2 a = Some lid2 /\ get_node S1 (st_heap S1 s2) lid2 = Some (NLeaf S1 lf2) /\
      is_err (lden S1 lf1) = is_err (lden S1 lf2) /\ is_err (lden S1 lf1) = is_err v /\
      (forall x y, lden S1 lf1 = Ok x -> lden S1 lf2 = Ok y -> eqS A x y).
Proof. exact status_same_thm. Qed.
Print Assumptions status_same.

(* WHICH code is reported is NOT history independent on the pinned tree: e1 (code 1), e2 (code 10), c a cube,
   r = (e1 ^ e2) ^ c: forced lazily (the temporary collapses, BatchBoolean pops c then e2) the Status is 10, with
   e1 ^ e2 forced first it is 1 - for the explicit stack and the big-step evaluator alike.  Replayed on the real code
   by checks/C03.py (status_witness): same two codes. *)
Theorem status_code_refuted :
  oracles_ok SVoxOps st_oracles /\
  strip_force SVoxOps st_lazy = strip_force SVoxOps st_eager /\
  st_result true st_lazy 4 = Some (Some 10%Z) /\ st_result true st_eager 4 = Some (Some 1%Z) /\
  st_result false st_lazy 4 = Some (Some 10%Z) /\ st_result false st_eager 4 = Some (Some 1%Z).
Proof. exact status_code_refuted_thm. Qed.
Print Assumptions status_code_refuted.

(* with an order-independent forwarding rule (the smallest code wins) the exact Status is history independent *)
Theorem status_exact_if_min_wins :
  forall (A : CsgOps), CsgLaws A ->
  let S2 := StatOps A Z Z.min (@eq Z) in
  forall (O1 O2 : oracles S2) (l1 l2 : list (hop S2)) sp1 sp2 (a : nat) (v : sol S2),
    oracles_ok S2 O1 -> oracles_ok S2 O2 ->
    strip_force S2 l1 = strip_force S2 l2 ->
    spec_hops S2 [] l1 = Some sp1 -> spec_hops S2 [] l2 = Some sp2 ->
    sp_handle S2 sp1 a = Some v ->
    exists s1 s2 lid1 lid2 lf1 lf2,
      run S2 O1 (S (length l1)) false (l1 ++ [HForce S2 a]) = Some s1 /\
      run S2 O2 (S (length l2)) false (l2 ++ [HForce S2 a]) = Some s2 /\
      handle S2 s1 a = Some lid1 /\ get_node S2 (st_heap S2 s1) lid1 = Some (NLeaf S2 lf1) /\
      handle S2 s2 a = Some lid2 /\ get_node S2 (st_heap S2 s2) lid2 = Some (NLeaf S2 lf2) /\
      code_of (lden S2 lf1) = code_of (lden S2 lf2).
Proof. exact status_exact_if_min_wins_thm. Qed.
Print Assumptions status_exact_if_min_wins.

(* ---------------- reference counts instead of an oracle ---------------- *)
(* do_hops_rc takes every canCollapse decision from uniq_rc: no handle on the node, at most one entry in the children
   vectors of live (reachable) nodes, no other live node on the same children vector.  force_denotes holds for it
   (big-step, fuel = length + 1, and explicit stack, same final state). *)
Theorem rc_force_denotes :
  forall (A : CsgOps), CsgLaws A ->
  forall (ovl : (sol A * tr A) -> (sol A * tr A) -> bool) (sz : (sol A * tr A) -> Z) (kmax : nat)
         (l : list (hop A)) (sp : list (option (sol A))) (a : nat) (v : sol A),
    ovl_sound A ovl -> 2 <= kmax -> spec_hops A [] l = Some sp -> sp_handle A sp a = Some v ->
    exists fuel s' lid lf,
      do_hops_rc A ovl sz kmax (S (length l)) false (init_state A) (l ++ [HForce A a]) = Some s' /\
      do_hops_rc A ovl sz kmax fuel true (init_state A) (l ++ [HForce A a]) = Some s' /\
      wf A (st_heap A s') /\
      handle A s' a = Some lid /\ get_node A (st_heap A s') lid = Some (NLeaf A lf) /\ eqS A (lden A lf) v /\
      (forall b w, sp_handle A sp b = Some w ->
         exists i', handle A s' b = Some i' /\ eqS A (dn A (st_heap A s') i') w).
Proof. exact rc_force_denotes_thm. Qed.
Print Assumptions rc_force_denotes.

Theorem uniq_rc_spec :
  forall (A : CsgOps) (hs : list (option nat)) (h : heap A) (id : nat),
    uniq_rc A hs h id = true <->
    count_occ Nat.eq_dec (handle_ids hs) id = 0 /\
    child_refs A h (alive A h hs) id <= 1 /\
    exists c, cell_of A h id = Some c /\ cell_owners A h (alive A h hs) c <= 1.
Proof. exact uniq_rc_spec_thm. Qed.
Print Assumptions uniq_rc_spec.

(* ---------------- the bounding-box hypothesis discharged at the instance ---------------- *)
(* In VoxOps Compose is juxtaposition (a cell covered twice drops out: CsgThms.compose_of_overlapping_is_not_union),
   the oracle vovl is the closed axis-aligned box of the cells, proved sound (laws_have_a_model); so BatchUnion is
   the union with NO hypothesis left; CsgThms.batch_union_sound_vs_lying_oracle shows a lying oracle breaks it. *)
Theorem compose_is_union_voxels :
  forall (sz : (list vox * list gen) -> Z) (kmax : nat) (l : list (list vox * list gen)),
    2 <= kmax -> l <> [] ->
    exists r, batch_union VoxOps vovl sz kmax l = Some r /\
              (forall p, In p (lden VoxOps r) <-> exists x, In x l /\ In p (lden VoxOps x)).
Proof. exact compose_is_union_voxels_thm. Qed.
Print Assumptions compose_is_union_voxels.
