(* C08 — MeshGL export and re-import is lossless (index / run / tangent structure).
   Only statements closed by `exact`, each followed by Print Assumptions.
   Model: Codec/MeshGLDefs.v.  Numeric payloads (positions, property values,
   tangent vectors, transforms) are abstract identifiers: the code copies them
   verbatim; the theorems are about WHERE they are put.  Not modelled here:
   CreateHalfedges / DedupePropVerts / SortGeometry on the import side (the
   harness compares the real export of the real re-import field by field). *)
From Coq Require Import ZArith List Bool.
From MV Require Import Codec.IngestDefs Codec.ExportIngestDefs Codec.ExportIngestModel Codec.MeshGLDefs Codec.MeshGLModel.
From MV Require Gen.Ladder.
Import ListNotations.
Local Open Scope Z_scope.

(* merge_vectors_restore: for every sequence of triangle corners (position vertex,
   property vertex) in output order, the property-vertex duplication loop of
   GetMeshGLImpl emits output indices and merge vectors such that the import's
   merge map (prop2vert[from] = to over iota) sends every output index to
   rep(position vertex), and rep is injective on the position vertices used:
   the merged triangles are the internal triangles under an injective renaming,
   hence have the internal topology. *)
Theorem merge_vectors_restore :
  forall corners : list (Z * Z),
    let st := dup corners in
    Forall2 (fun c i => p2v (merges st) i = rep st (fst c) /\ 0 <= rep st (fst c)) corners (rev (outIdx st)) /\
    (forall c d, In c corners -> In d corners -> rep st (fst c) = rep st (fst d) -> fst c = fst d).
Proof. exact merge_restore_model. Qed.
Print Assumptions merge_vectors_restore.

(* runs_roundtrip: per-triangle (originalID, run transform, run flags, exported
   faceID), in export order, are the same after export -> import -> export, for
   every non-original Impl whose relation agrees with its triRefs and whose
   coplanarIDs are non-negative, and every start ID handed out by ReserveIDs.
   (Runs without triangles: see runs_roundtrip_with_empty_runs.) *)
Theorem runs_roundtrip :
  forall (s : impl) (startID : Z),
    isOriginal s = false ->
    (forall t, In t (tris s) -> rOrig (relation s (meshID t)) = origID t) ->
    (forall t, In t (tris s) -> 0 <= coplanarID t) ->
    map attrs (export_fixed (reimport startID s)) = map attrs (export_fixed s) /\
    map attrs (export_pinned (reimport startID s)) = map attrs (export_pinned s).
Proof.
  exact (fun s startID Ho Hc Hcp =>
    let H := eq_trans (eq_trans (export_fixed_attrs (reimport startID s)) (runs_roundtrip_model s startID Ho Hc Hcp))
                      (eq_sym (export_fixed_attrs s)) in
    conj H (eq_trans (eq_trans (pinned_vs_fixed_attrs (reimport startID s)) H) (eq_sym (pinned_vs_fixed_attrs s)))).
Qed.
Print Assumptions runs_roundtrip.

(* The same with the trailing EMPTY runs the exporter appends for every relation
   entry whose mesh contributed no triangle (`extra`, ascending meshIDs): after
   export -> import -> export the non-empty runs' per-triangle attributes are
   unchanged AND the empty runs come back with the same (originalID, transform,
   flags), in the same order. *)
Theorem runs_roundtrip_with_empty_runs :
  forall (s : impl) (startID : Z) (extra : list Z),
    isOriginal s = false ->
    (forall t, In t (tris s) -> rOrig (relation s (meshID t)) = origID t) ->
    (forall t, In t (tris s) -> 0 <= coplanarID t) ->
    let srt := sorted_tris s in
    let rl' := reimport_relation_e (relation s) startID srt extra in
    map (attr_of rl') (isort (import_tris (relation s) startID (-1) (-1) 0 srt)) = map (attr_of (relation s)) srt /\
    export_empty_attrs rl' (reimport_extra startID srt extra) = export_empty_attrs (relation s) extra.
Proof. exact runs_roundtrip_empty_model. Qed.
Print Assumptions runs_roundtrip_with_empty_runs.

(* export_tables_accepted (ties the C08 export model to the C09 ingest ladder):
   for every rung table t without a rung that rejects equal neighbours in
   runIndex (the Boolean accepts_export_tables, evaluated by the check on the
   table regenerated from src/impl.h), every sorted triangle list with
   non-negative meshIDs, every number k of trailing empty runs, with or without
   runTransform: no run-table rung of t (TransformWrongLength, the two
   RunIndexWrongLength rungs) fires on the record the exporter emits. *)
Theorem export_tables_accepted :
  forall (t : list item) (srt : list itri) (k : nat) (withTransform : bool) (m : meshgl) (r : rung) (e : error),
    accepts_export_tables t = true ->
    srt <> [] -> (forall x, In x srt -> 0 <= meshID x) ->
    exported_runs srt k withTransform m ->
    In (IRung r e) t -> is_run_rung r = true ->
    cond r m (st_runs m) = false.
Proof. exact tables_accepted. Qed.
Print Assumptions export_tables_accepted.

(* ... and a rung demanding strictly increasing runIndex rejects the export of
   any result with an operand that contributed no triangle: table {0, 6, 6}. *)
Theorem strict_run_rung_rejects_export :
  exported_runs w_srt 1 true w_empty_run_mesh /\
  cond RRunIndexShape w_empty_run_mesh (st_runs w_empty_run_mesh) = false /\
  cond RRunIndexShapeStrict w_empty_run_mesh (st_runs w_empty_run_mesh) = true.
Proof. exact strict_rejects_empty_run. Qed.
Print Assumptions strict_run_rung_rejects_export.

(* The tangent statement is FALSE for the pinned exporter: it sorts triangles
   into runs (triNew2Old) but copies halfedgeTangent_ in internal order.
   Witness: two triangles of two runs stored in the order (run 2, run 1). *)
Theorem roundtrip_tangent_refuted :
  exists s : impl, isOriginal s = false /\ length (tris s) = 2%nat /\
    ~ tangent_preserved s (export_pinned s).
Proof. exact (ex_intro _ w_two_runs pinned_tangent_refuted). Qed.
Print Assumptions roundtrip_tangent_refuted.

(* With hooks/fix_C08_1.patch (tangents permuted by triNew2Old) every exported
   triangle carries the tangents of the internal triangle with its corners. *)
Theorem roundtrip_tangent_fixed :
  forall s : impl, tangent_preserved s (export_fixed s).
Proof. exact fixed_tangent_preserved. Qed.
Print Assumptions roundtrip_tangent_fixed.

(* stable_sort model: the run sort is a sort, and does nothing on sorted input *)
Theorem run_sort_sorted_and_idempotent :
  forall l : list itri, sortedk (isort l) /\ isort (isort l) = isort l /\ (forall t, In t (isort l) <-> In t l).
Proof. exact (fun l => conj (isort_sorted l) (conj (isort_id _ (isort_sorted l)) (in_isort l))). Qed.
Print Assumptions run_sort_sorted_and_idempotent.

(* merge vectors emitted to->from do not restore the topology (mutant of section 10) *)
Theorem merge_direction_matters :
  let st := dup [(0, 0); (1, 1); (0, 5)] in
  p2v (merges st) 2 = rep st 0 /\ p2v_swapped (merges st) 2 <> rep st 0.
Proof. exact swapped_merge_breaks. Qed.
Print Assumptions merge_direction_matters.
