(* C08 — MeshGL export and re-import is lossless (index / run / tangent structure).
   Only statements closed by `exact`, each followed by Print Assumptions.
   Model: Codec/MeshGLDefs.v.  Numeric payloads (positions, property values,
   tangent vectors, transforms) are abstract identifiers: the code copies them
   verbatim; the theorems are about WHERE they are put.  Not modelled here:
   CreateHalfedges / DedupePropVerts / SortGeometry on the import side (the
   harness compares the real export of the real re-import field by field). *)
From Coq Require Import QArith.
From MV Require Import Codec.ObjDigits.
From Coq Require Import ZArith List Bool.
From MV Require Import Codec.IngestDefs Codec.ExportIngestDefs Codec.ExportIngestModel Codec.MeshGLDefs Codec.MeshGLModel.
From MV Require Import Codec.RoundtripDefs Codec.RoundtripModel.
From MV Require Par.Containers Codec.MergeDefs Codec.MergeModel.
From MV Require Gen.Ladder Gen.ObjPrecision.
From Coq Require Import Permutation.
Import ListNotations.
Local Open Scope Z_scope.

(* merge_vectors_restore: for every sequence of triangle corners (position vertex,
   property vertex) in output order, the property-vertex duplication loop of
   GetMeshGLImpl emits output indices and merge vectors such that the import's
   merge map (prop2vert[from] = to over iota) sends every output index to
   rep(position vertex), and rep is injective on the position vertices used:
   the merged triangles are the internal triangles under an injective renaming,
   hence have the internal topology. *)
Theorem merge_vectors_restore :
  forall corners : list (Z * Z),
    let st := dup corners in
    Forall2 (fun c i => p2v (merges st) i = rep st (fst c) /\ 0 <= rep st (fst c)) corners (rev (outIdx st)) /\
    (forall c d, In c corners -> In d corners -> rep st (fst c) = rep st (fst d) -> fst c = fst d).
Proof. exact merge_restore_model. Qed.
Print Assumptions merge_vectors_restore.

(* runs_roundtrip: per-triangle (originalID, run transform, run flags, exported
   faceID), in export order, are the same after export -> import -> export, for
   every non-original Impl whose relation agrees with its triRefs and whose
   coplanarIDs are non-negative, and every start ID handed out by ReserveIDs.
   (Runs without triangles: see runs_roundtrip_with_empty_runs.) *)
Theorem runs_roundtrip :
  forall (s : impl) (startID : Z),
    isOriginal s = false ->
    (forall t, In t (tris s) -> rOrig (relation s (meshID t)) = origID t) ->
    (forall t, In t (tris s) -> 0 <= coplanarID t) ->
    map attrs (export_fixed (reimport startID s)) = map attrs (export_fixed s) /\
    map attrs (export_pinned (reimport startID s)) = map attrs (export_pinned s).
Proof.
  exact (fun s startID Ho Hc Hcp =>
    let H := eq_trans (eq_trans (export_fixed_attrs (reimport startID s)) (runs_roundtrip_model s startID Ho Hc Hcp))
                      (eq_sym (export_fixed_attrs s)) in
    conj H (eq_trans (eq_trans (pinned_vs_fixed_attrs (reimport startID s)) H) (eq_sym (pinned_vs_fixed_attrs s)))).
Qed.
Print Assumptions runs_roundtrip.

(* The same with the trailing EMPTY runs the exporter appends for every relation
   entry whose mesh contributed no triangle (`extra`, ascending meshIDs): after
   export -> import -> export the non-empty runs' per-triangle attributes are
   unchanged AND the empty runs come back with the same (originalID, transform,
   flags), in the same order. *)
Theorem runs_roundtrip_with_empty_runs :
  forall (s : impl) (startID : Z) (extra : list Z),
    isOriginal s = false ->
    (forall t, In t (tris s) -> rOrig (relation s (meshID t)) = origID t) ->
    (forall t, In t (tris s) -> 0 <= coplanarID t) ->
    let srt := sorted_tris s in
    let rl' := reimport_relation_e (relation s) startID srt extra in
    map (attr_of rl') (isort (import_tris (relation s) startID (-1) (-1) 0 srt)) = map (attr_of (relation s)) srt /\
    export_empty_attrs rl' (reimport_extra startID srt extra) = export_empty_attrs (relation s) extra.
Proof. exact runs_roundtrip_empty_model. Qed.
Print Assumptions runs_roundtrip_with_empty_runs.

(* export_tables_accepted (ties the C08 export model to the C09 ingest ladder):
   for every rung table t without a rung that rejects equal neighbours in
   runIndex (the Boolean accepts_export_tables, evaluated by the check on the
   table regenerated from src/impl.h), every sorted triangle list with
   non-negative meshIDs, every number k of trailing empty runs, with or without
   runTransform: no run-table rung of t (TransformWrongLength, the two
   RunIndexWrongLength rungs) fires on the record the exporter emits. *)
Theorem export_tables_accepted :
  forall (t : list item) (srt : list itri) (k : nat) (withTransform : bool) (m : meshgl) (r : rung) (e : error),
    accepts_export_tables t = true ->
    srt <> [] -> (forall x, In x srt -> 0 <= meshID x) ->
    exported_runs srt k withTransform m ->
    In (IRung r e) t -> is_run_rung r = true ->
    cond r m (st_runs m) = false.
Proof. exact tables_accepted. Qed.
Print Assumptions export_tables_accepted.

(* ... and a rung demanding strictly increasing runIndex rejects the export of
   any result with an operand that contributed no triangle: table {0, 6, 6}. *)
Theorem strict_run_rung_rejects_export :
  exported_runs w_srt 1 true w_empty_run_mesh /\
  cond RRunIndexShape w_empty_run_mesh (st_runs w_empty_run_mesh) = false /\
  cond RRunIndexShapeStrict w_empty_run_mesh (st_runs w_empty_run_mesh) = true.
Proof. exact strict_rejects_empty_run. Qed.
Print Assumptions strict_run_rung_rejects_export.

(* runTransform absent (the field is optional; absent = identity): the relation entry
   the importer records for a run equals the exported one - so runs_roundtrip's
   hypothesis-free attribute equality carries over - whenever the field is present, and
   when it is absent provided every transform is the identity AND the importer honours
   the back-side bit in that arm (flag read from src/impl.h into Gen/Ladder.v; the
   obligation the check evaluates) or the run is front-side.  Before
   hooks/fix_C08_3.patch the arm recorded `false`: refuted for a back-side run. *)
Theorem runs_roundtrip_without_runtransform :
  forall (honours : bool) (identity : Z) (r : rel),
    import_rel honours true identity r = r /\
    (rXform r = identity -> (honours = true \/ rFlags r mod 2 = 0) -> import_rel honours false identity r = r).
Proof. exact (fun h i r => conj (import_rel_present h i r) (import_rel_absent h i r)). Qed.
Print Assumptions runs_roundtrip_without_runtransform.

Theorem runs_without_runtransform_refuted_before_fix :
  import_rel false false 0 (mkRel 5 0 1) <> mkRel 5 0 1 /\ import_rel false false 0 (mkRel 5 0 3) = mkRel 5 0 2.
Proof. exact import_rel_absent_refuted. Qed.
Print Assumptions runs_without_runtransform_refuted_before_fix.

(* The tangent statement is FALSE for the pinned exporter: it sorts triangles
   into runs (triNew2Old) but copies halfedgeTangent_ in internal order.
   Witness: two triangles of two runs stored in the order (run 2, run 1). *)
Theorem roundtrip_tangent_refuted :
  exists s : impl, isOriginal s = false /\ length (tris s) = 2%nat /\
    ~ tangent_preserved s (export_pinned s).
Proof. exact (ex_intro _ w_two_runs pinned_tangent_refuted). Qed.
Print Assumptions roundtrip_tangent_refuted.

(* With hooks/fix_C08_1.patch (tangents permuted by triNew2Old) every exported
   triangle carries the tangents of the internal triangle with its corners. *)
Theorem roundtrip_tangent_fixed :
  forall s : impl, tangent_preserved s (export_fixed s).
Proof. exact fixed_tangent_preserved. Qed.
Print Assumptions roundtrip_tangent_fixed.

(* stable_sort model: the run sort is a sort, and does nothing on sorted input *)
Theorem run_sort_sorted_and_idempotent :
  forall l : list itri, sortedk (isort l) /\ isort (isort l) = isort l /\ (forall t, In t (isort l) <-> In t l).
Proof. exact (fun l => conj (isort_sorted l) (conj (isort_id _ (isort_sorted l)) (in_isort l))). Qed.
Print Assumptions run_sort_sorted_and_idempotent.

(* merge vectors emitted to->from do not restore the topology (mutant of section 10) *)
Theorem merge_direction_matters :
  let st := dup [(0, 0); (1, 1); (0, 5)] in
  p2v (merges st) 2 = rep st 0 /\ p2v_swapped (merges st) 2 <> rep st 0.
Proof. exact swapped_merge_breaks. Qed.
Print Assumptions merge_direction_matters.

(* OBJ text (fix c2786ed5): with `std::scientific` and precision p such that
   10^p > 2^53 (precision_ok; p = 16 gives 17 significant digits) the printed
   decimal d of a positive double x - within half a decimal step a/(2*10^p) of
   x, a <= x the decade of x - is strictly closer to x than to any other
   double y (doubles in x's binade [b, 2b) are b/2^52 apart, those just below b
   are b/2^53 apart), so a correctly rounded parse returns x.  Rational
   arithmetic; the sign is symmetric and zero is printed exactly.  The
   precision constant and the notation are read from src/impl.cpp into
   Gen/ObjPrecision.v and the check evaluates obj_format_ok on them. *)
Theorem obj_decimal_digits_determine_double :
  forall (p : Z) (b a x y d delta : Q),
    precision_ok p = true ->
    (0 < b -> b <= x -> x < 2 * b ->
     0 < a -> a <= x ->
     2 * inject_Z (10 ^ p) * delta == a ->
     x - delta <= d -> d <= x + delta ->
     (x + b / inject_Z (2 ^ 52) <= y \/ y <= x - b / inject_Z (2 ^ 52) \/
      (x == b /\ y <= x - b / inject_Z (2 ^ 53))) ->
     (d - x < y - d /\ x - d < y - d) \/ (d - x < d - y /\ x - d < d - y))%Q.
Proof. exact obj_digits_roundtrip. Qed.
Print Assumptions obj_decimal_digits_determine_double.

Theorem obj_precision_threshold :
  precision_ok 16 = true /\ precision_ok 15 = false.
Proof. exact precision_16_ok. Qed.
Print Assumptions obj_precision_threshold.

(* roundtrip (partial): export (import (export s)) carries the same per-triangle
   records as export s - (originalID, run transform, flags, faceID), the
   position of every corner, the property row of every corner, the tangent of
   every edge - up to a permutation of the triangles, for EVERY vertex
   renumbering sigma (SortVerts), property-vertex compaction tau and
   DedupePropVerts map q, every face permutation oracle `perm` (SortFaces)
   and start ID; no triangle is dropped as degenerate (the merge vectors send the
   three corners of a triangle to three different vertices).
   _partial: CreateHalfedges' pairing and its removal of opposed triangle pairs,
   IsManifold, CleanupTopology being a no-op on the export of a clean Impl and
   SetNormalsAndCoplanar are NOT modelled (hypotheses; the harness runs the real
   code); import is modelled on the exported data of the composed export. *)
Theorem roundtrip_records_partial :
  forall (sigma tau q : Z -> Z) (perm : list rtri -> list rtri) (startID : Z) (s : rimpl),
    (forall l, Permutation (perm l) l) ->
    rel_ok s ->
    Permutation (export_recs (reimport_full sigma tau q perm startID s)) (export_recs s).
Proof. exact roundtrip_records_model. Qed.
Print Assumptions roundtrip_records_partial.

Example roundtrip_example_two_runs :
  (rel_ok w_rimpl /\ consistent (rtris w_rimpl)) /\
  export_recs (reimport_full (fun v => v + 7) (fun p => p + 3) (fun i => i) (fun l => rev l) 50 w_rimpl)
  = export_recs w_rimpl.
Proof. exact (conj w_rimpl_ok roundtrip_example). Qed.

(* the vertex bijection: every corner's vertex v becomes sigma (rep v), a function
   of v alone, where rep is injective on the vertices in use (and so is the
   composite when sigma is) - positions travel with the corners *)
Theorem roundtrip_vertex_renaming :
  forall (sigma tau q : Z -> Z) (l : list rtri) (t : rtri) (ib : itri),
    In t l -> well_shaped t ->
    tverts (base (import_one sigma tau q (dup (corners_of l)) t ib))
    = map (fun v => sigma (rep (dup (corners_of l)) v)) (tverts (base t)) /\
    (forall v w p p', In (v, p) (corners_of l) -> In (w, p') (corners_of l) ->
       rep (dup (corners_of l)) v = rep (dup (corners_of l)) w -> v = w).
Proof.
  exact (fun sigma tau q l t ib Ht Hw =>
    conj (imported_verts sigma tau q l t ib Ht Hw) (fun v w p p' => rep_injective (corners_of l) v w p p')).
Qed.
Print Assumptions roundtrip_vertex_renaming.

(* the re-imported state is again a consistent Impl (an index determines its position /
   property row), provided DedupePropVerts only unites property vertices of one vertex
   with exactly equal rows (dedupe_sound: what its union-find over equal rows yields)
   and the renumberings are injective *)
Theorem roundtrip_consistent :
  forall (sigma tau q : Z -> Z) (perm : list rtri -> list rtri) (startID : Z) (s : rimpl),
    (forall l, Permutation (perm l) l) ->
    rel_ok s -> consistent (rtris s) ->
    let srt := rsort (rtris s) in let st := dup (corners_of srt) in
    dedupe_sound q st srt ->
    inj_on sigma (fun r => 0 <= r) -> inj_on tau (fun _ => True) ->
    consistent (rtris (reimport_full sigma tau q perm startID s)).
Proof. exact reimport_consistent. Qed.
Print Assumptions roundtrip_consistent.

(* merge_rederives (partial): on a mesh without merge vectors, with the collider
   reporting exactly the overlapping pairs of open-edge vertices (C14) and
   positions further apart than the merge tolerance unless equal, MeshGL::Merge's
   union-find (C13's sequential model) merges two vertices exactly when they are
   equal or both lie on open edges at the same position.
   _partial: that every duplicate of a property seam IS an open-edge vertex (a
   statement about fans of a closed manifold) is not proved; Morton sorting and
   the tolerance boxes are inside the collider oracle. *)
Theorem merge_rederives_partial :
  forall (n : nat) (tris : list (nat * nat * nat)) (pos : nat -> Z) (overlap : nat -> nat -> bool)
         (reported : list (nat * nat)) (st : Containers.uf_state),
    MergeDefs.collider_exact tris overlap reported -> MergeDefs.separated pos overlap ->
    Forall (Containers.valid n) reported ->
    Containers.uf_run_seq n reported = Some st ->
    forall a b, (a < n)%nat -> (b < n)%nat ->
      (MergeDefs.merged st a b <->
       (a = b \/ (MergeDefs.is_open tris a = true /\ MergeDefs.is_open tris b = true /\ pos a = pos b))).
Proof. exact MergeModel.merge_partition. Qed.
Print Assumptions merge_rederives_partial.
