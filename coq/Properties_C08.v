(* C08 — MeshGL export and re-import is lossless (index / run / tangent structure).
   Only statements closed by `exact`, each followed by Print Assumptions.
   Model: Codec/MeshGLDefs.v.  Numeric payloads (positions, property values,
   tangent vectors, transforms) are abstract identifiers: the code copies them
   verbatim; the theorems are about WHERE they are put.  Not modelled here:
   CreateHalfedges / DedupePropVerts / SortGeometry on the import side (the
   harness compares the real export of the real re-import field by field). *)
From Coq Require Import ZArith List Bool.
From MV Require Import Codec.MeshGLDefs Codec.MeshGLModel.
Import ListNotations.
Local Open Scope Z_scope.

(* merge_vectors_restore: for every sequence of triangle corners (position vertex,
   property vertex) in output order, the property-vertex duplication loop of
   GetMeshGLImpl emits output indices and merge vectors such that the import's
   merge map (prop2vert[from] = to over iota) sends every output index to
   rep(position vertex), and rep is injective on the position vertices used:
   the merged triangles are the internal triangles under an injective renaming,
   hence have the internal topology. *)
Theorem merge_vectors_restore :
  forall corners : list (Z * Z),
    let st := dup corners in
    Forall2 (fun c i => p2v (merges st) i = rep st (fst c) /\ 0 <= rep st (fst c)) corners (rev (outIdx st)) /\
    (forall c d, In c corners -> In d corners -> rep st (fst c) = rep st (fst d) -> fst c = fst d).
Proof. exact merge_restore_model. Qed.
Print Assumptions merge_vectors_restore.

(* runs_roundtrip: per-triangle (originalID, run transform, run flags, exported
   faceID), in export order, are the same after export -> import -> export, for
   every non-original Impl whose relation agrees with its triRefs and whose
   coplanarIDs are non-negative, and every start ID handed out by ReserveIDs.
   (Runs without triangles are not modelled.) *)
Theorem runs_roundtrip :
  forall (s : impl) (startID : Z),
    isOriginal s = false ->
    (forall t, In t (tris s) -> rOrig (relation s (meshID t)) = origID t) ->
    (forall t, In t (tris s) -> 0 <= coplanarID t) ->
    map attrs (export_fixed (reimport startID s)) = map attrs (export_fixed s) /\
    map attrs (export_pinned (reimport startID s)) = map attrs (export_pinned s).
Proof.
  exact (fun s startID Ho Hc Hcp =>
    let H := eq_trans (eq_trans (export_fixed_attrs (reimport startID s)) (runs_roundtrip_model s startID Ho Hc Hcp))
                      (eq_sym (export_fixed_attrs s)) in
    conj H (eq_trans (eq_trans (pinned_vs_fixed_attrs (reimport startID s)) H) (eq_sym (pinned_vs_fixed_attrs s)))).
Qed.
Print Assumptions runs_roundtrip.

(* The tangent statement is FALSE for the pinned exporter: it sorts triangles
   into runs (triNew2Old) but copies halfedgeTangent_ in internal order.
   Witness: two triangles of two runs stored in the order (run 2, run 1). *)
Theorem roundtrip_tangent_refuted :
  exists s : impl, isOriginal s = false /\ length (tris s) = 2%nat /\
    ~ tangent_preserved s (export_pinned s).
Proof. exact (ex_intro _ w_two_runs pinned_tangent_refuted). Qed.
Print Assumptions roundtrip_tangent_refuted.

(* With hooks/fix_C08_1.patch (tangents permuted by triNew2Old) every exported
   triangle carries the tangents of the internal triangle with its corners. *)
Theorem roundtrip_tangent_fixed :
  forall s : impl, tangent_preserved s (export_fixed s).
Proof. exact fixed_tangent_preserved. Qed.
Print Assumptions roundtrip_tangent_fixed.

(* stable_sort model: the run sort is a sort, and does nothing on sorted input *)
Theorem run_sort_sorted_and_idempotent :
  forall l : list itri, sortedk (isort l) /\ isort (isort l) = isort l /\ (forall t, In t (isort l) <-> In t l).
Proof. exact (fun l => conj (isort_sorted l) (conj (isort_id _ (isort_sorted l)) (in_isort l))). Qed.
Print Assumptions run_sort_sorted_and_idempotent.

(* merge vectors emitted to->from do not restore the topology (mutant of section 10) *)
Theorem merge_direction_matters :
  let st := dup [(0, 0); (1, 1); (0, 5)] in
  p2v (merges st) 2 = rep st 0 /\ p2v_swapped (merges st) 2 <> rep st 0.
Proof. exact swapped_merge_breaks. Qed.
Print Assumptions merge_direction_matters.
