(* C10 — Triangulate returns a correct triangulation of epsilon-valid polygons.
   Only statements closed by `exact`, each followed by Print Assumptions.

   What is proved, for EVERY oracle (= every outcome of the floating-point
   predicates: degenerate test, hole/outer classification, hole order, keyhole
   connector, queue membership, ear order):
     - the ported EarClip keeps  boundary(emitted) + edges(live lists) = input contours,
       uses only input indices and clips every record at most once
       (earclip_contract_partial, earclip_count_partial);
     - TriangulateConvex satisfies the same identities (convex_strip_chain, n <= 200);
     - the area identity follows from the chain identity (area_sum);
     - the exact checker run on the implementation's outputs is sound (tri_check_soundness).
   What is NOT proved:
     - each triangle CCW within epsilon (floating ear costs): decided on outputs by tri_check;
     - earclip_contract_partial keeps two executable hypotheses: nbad = 0 (JoinPolygons only
       joins two different live rings, no ring of <= 2 records is clipped) and rings_closed
       (DEBUG_ASSERT(v->right == v->left)); both are evaluated on every replayed run of the
       implementation, not proved for every oracle;
     - fuel sufficiency of Loop / ClipIfDegenerate (results are stated for runs that return). *)
From Coq Require Import ZArith List Bool.
From MV Require Import Base.Chain Tri.EarClipDefs Tri.EarClipModel Tri.EarClipInit Tri.ConvexModel
  Tri.TriCheckDefs Tri.TriCheckModel.
Import ListNotations.

(* earclip_chain / earclip_count / indices.  For every oracle and every run that returns:
   if the ghost counter nbad is 0 (JoinPolygons was only called on a live start and a live
   connector other than start->right; TriangulatePoly never clipped a ring of <= 2 records)
   the chain invariant, index validity and the clip counts hold; if moreover every remaining
   ring is closed (rings_closed = the code's DEBUG_ASSERT(v->right == v->left)) the emitted
   triangles satisfy the chain identity: every input edge once in its direction, every other
   edge cancelled by its reverse.
   PARTIAL: nbad = 0 and rings_closed are executable and are evaluated on every replayed run
   of the implementation, but not proved to hold for every oracle (that needs the ghost ring
   decomposition: holes and outers lie in different rings, Loop counts exactly its ring);
   fuel sufficiency of Loop / ClipIfDegenerate is not proved either (statement is for runs
   that return). *)
Theorem earclip_contract_partial :
  forall (orc : Oracle) (fuel : nat) (polys : list (list Z)) (st : St),
  triangulate orc fuel polys = Some st -> nbad st = 0 ->
  (forall a b, coef (boundaries (tris st) ++ live_edges st) a b = coef (contours polys) a b) /\
  TrisIn (concat polys) st /\
  length (tris st) + nfilt st = nclip st /\
  nclip st + nlive st = numVert polys + 2 * njoin st /\
  (rings_closed st = true -> ceq (boundaries (tris st)) (contours polys)).
Proof. exact earclip_contract_init. Qed.
Print Assumptions earclip_contract_partial.

(* the hypotheses are satisfiable: a pentagon with a triangular hole, 8 = V-2+2h-2(o-1) triangles *)
Example earclip_contract_example :
  exists st st1 starts,
    triangulate example_oracle 20 example_polys = Some st /\
    initialize (reset example_polys) example_polys = Some (st1, starts) /\
    init_ok example_polys st1 = true /\ nbad st = 0 /\ rings_closed st = true /\
    njoin st = 1 /\ nlive st = 2 /\ nfilt st = 0 /\ length (tris st) = 8.
Proof. exact example_run. Qed.

(* Initialize, for every polygon set: one closed ring per contour, all invariants, every record
   live, live edges = input contour edges (no hypothesis). *)
Theorem initialize_establishes_invariants :
  forall (polys : list (list Z)) (st1 : St) (starts : list nat),
  initialize (reset polys) polys = Some (st1, starts) ->
  Good (concat polys) (numVert polys) st1 /\ nbad st1 = 0 /\ ceq (chain_of st1) (contours polys).
Proof. exact initialize_good_state. Qed.
Print Assumptions initialize_establishes_invariants.

(* V-2+2h-2(o-1) when every hole was joined (h joins: two extra records each), the o
   remaining rings end with 2 records each and no topological degenerate was filtered.
   PARTIAL in the same sense as earclip_contract_partial (hypothesis nbad = 0). *)
Theorem earclip_count_partial :
  forall (orc : Oracle) (fuel : nat) (polys : list (list Z)) (st : St) (h o : nat),
  triangulate orc fuel polys = Some st -> nbad st = 0 ->
  njoin st = h -> nlive st = 2 * o -> nfilt st = 0 ->
  (Z.of_nat (length (tris st)) = Z.of_nat (numVert polys) - 2 + 2 * Z.of_nat h - 2 * (Z.of_nat o - 1))%Z.
Proof. exact earclip_count_init. Qed.
Print Assumptions earclip_count_partial.

(* every list operation is a Step for every oracle: the ghost counter never decreases and,
   while it is 0, the structural invariants, index validity, the clip count and the chain
   are preserved — here for JoinPolygons (CutKeyhole), the only operation adding records *)
Theorem join_polygons_preserves :
  forall (orc : Oracle) (ids : list Z) (V fuel : nat) (st0 : St) (s c : nat) (st' : St),
  joinPolygons orc fuel st0 s c = Some st' ->
  nbad st0 <= nbad st' /\
  (nbad st' = 0 -> Good ids V st0 ->
     Good ids V st' /\ (forall a b, coef (chain_of st') a b = coef (chain_of st0) a b)).
Proof. exact joinPolygons_step. Qed.
Print Assumptions join_polygons_preserves.

(* earclip_terminates, partial: TriangulatePoly's counted loop performs exactly k ClipEar
   calls whenever it returns (it has no fuel; it can only fail on an out-of-range iterator).
   Missing: fuel sufficiency of Loop and of the ClipIfDegenerate recursion. *)
Theorem earclip_terminates_partial :
  forall (orc : Oracle) (k : nat) (st : St) (q : list nat) (v : nat) (st' : St),
  clip_loop orc k st q v = Some st' -> nclip st' = nclip st + k.
Proof. exact clip_loop_count. Qed.
Print Assumptions earclip_terminates_partial.

(* TriangulateConvex: same chain identity and count n-2 per contour, so taking the fast path
   changes the triangles, not the contract.  Bound in the statement: contours of 3..200 vertices
   (positional sweep by vm_compute + naturality in the vertex names). *)
Theorem convex_strip_chain :
  forall (polys : list (list Z)),
  Forall (fun p => 3 <= length p <= 200) polys ->
  exists ts, triangulateConvex polys = Some ts /\ ceq (boundaries ts) (contours polys) /\
             (Z.of_nat (length ts) = Z.of_nat (numVert polys) - 2 * Z.of_nat (length polys))%Z.
Proof. exact convex_strip_contract. Qed.
Print Assumptions convex_strip_chain.

(* HalfedgeTriangulation: Triangles() reads back what AddTriangle stored; with the chain
   identity every halfedge (reversed contour edges and triangle edges) is cancelled by a
   reverse one, which is what the hash pairing of AddHalfedge/Finalize needs. *)
Theorem halfedges_closed :
  forall (polys : list (list Z)) (ts : list tri),
  het_triangles (boundaries ts) = ts /\
  (ceq (boundaries ts) (contours polys) -> ceq (het_halfedges polys ts) []).
Proof. exact (fun polys ts => conj (het_roundtrip ts) (het_closed polys ts)). Qed.
Print Assumptions halfedges_closed.

Local Open Scope Z_scope.

(* The exact checker run on every output of the implementation is sound. *)
Theorem tri_check_soundness :
  forall (polys : list (list pvert)) (ts : list tri) (tolsq : Z),
  let m := build_map (all_verts polys) in
  let v := tri_check polys ts tolsq in
  (v_consistent v = true -> positions_ok polys (px_of m) (py_of m)) /\
  (v_consistent v = true -> v_index v = true -> indices_ok polys ts) /\
  (v_chain v = true -> chain_ok polys ts) /\
  (v_area v = true -> area_ok polys ts (px_of m) (py_of m)) /\
  (v_count v = true -> count_ok polys ts (px_of m) (py_of m)) /\
  (v_ccw v = true -> forall t, In t ts -> ccw_ok (px_of m) (py_of m) tolsq t).
Proof. exact tri_check_sound. Qed.
Print Assumptions tri_check_soundness.

(* area_sum: the area identity is a corollary of the chain identity, for every assignment
   of integer positions to indices (shoelace is a linear functional of the chain). *)
Theorem area_sum :
  forall (polys : list (list pvert)) (ts : list tri) (px py : Z -> Z),
  chain_ok polys ts -> area_ok polys ts px py.
Proof. exact chain_implies_area. Qed.
Print Assumptions area_sum.

(* chain equality is decided exactly by the executable normal form *)
Theorem chain_eqb_decides :
  forall c1 c2 : chain, chain_eqb c1 c2 = true <-> ceq c1 c2.
Proof. exact chain_eqb_spec. Qed.
Print Assumptions chain_eqb_decides.
