(* C10 — Triangulate returns a correct triangulation of epsilon-valid polygons.
   Only statements closed by `exact`, each followed by Print Assumptions.

   What is proved, for EVERY oracle (= every outcome of the floating-point
   predicates: degenerate test, hole/outer classification, hole order, keyhole
   connector, queue membership, ear order):
     - the ported EarClip terminates without undefined behaviour (earclip_terminates) and its
       triangles satisfy the chain identity, use only input indices, #triangles + #filtered =
       V + 2*joins - #live (earclip_chain, earclip_total_correctness, earclip_count);
     - AddHalfedge's hash pairing is reciprocal with swapped endpoints and complete exactly for
       zero chains (pairing_reciprocal);
     - TriangulateConvex satisfies the same identities (convex_strip_chain, all n);
     - the area identity follows from the chain identity (area_sum);
     - the exact checker run on the implementation's outputs is sound (tri_check_soundness).
   What is NOT proved:
     - each triangle CCW within epsilon (floating ear costs): decided on outputs by tri_check;
     - that no topological degenerate is filtered (nfilt = 0) for epsilon-valid input: the count
       theorem is exact up to nfilt, which the checker sees as a wrong count;
     (fuel sufficiency is proved: earclip_terminates) *)
From Coq Require Import ZArith List Bool.
From MV Require Import Base.Chain Tri.EarClipDefs Tri.EarClipModel Tri.EarClipInit Tri.EarClipRings Tri.EarClipTerm Tri.HalfedgePairDefs Tri.HalfedgePairModel Tri.ConvexModel
  Tri.TriCheckDefs Tri.TriCheckModel.
Import ListNotations.

(* earclip_chain / indices / clip counts, FULL: for every oracle and every run that returns,
   the emitted triangles satisfy the chain identity (every input edge once in its direction,
   every other edge cancelled by its reverse), use only input indices, #triangles + #filtered =
   #ClipEar and #ClipEar + #live = V + 2*joins.  The two ghost conditions of the earlier
   certificate form are now conclusions: nbad = 0 (JoinPolygons is only ever applied to a live
   start and a live connector of a different ring; TriangulatePoly never clips a ring of <= 2
   records) and rings_closed (every remaining ring has <= 2 records, the code's
   DEBUG_ASSERT(v->right == v->left)).  Proof: ghost ring decomposition (EarClipRings.v): a label
   per record preserved along ->left/->right, one circular list per label containing exactly the
   live records of that label; Loop visits exactly the ring of its start; holes, outers and
   simples lie in pairwise different rings until JoinPolygons merges two of them. *)
Theorem earclip_chain :
  forall (orc : Oracle) (fuel : nat) (polys : list (list Z)) (st : St),
  triangulate orc fuel polys = Some st ->
  ceq (boundaries (tris st)) (contours polys) /\
  TrisIn (concat polys) st /\
  length (tris st) + nfilt st = nclip st /\
  nclip st + nlive st = numVert polys + 2 * njoin st /\
  nbad st = 0 /\ rings_closed st = true.
Proof. exact earclip_contract_full. Qed.
Print Assumptions earclip_chain.

(* the invariant form (also for intermediate use): chain of emitted triangles + live edges *)
Theorem earclip_chain_invariant :
  forall (orc : Oracle) (fuel : nat) (polys : list (list Z)) (st : St),
  triangulate orc fuel polys = Some st -> nbad st = 0 ->
  (forall a b, coef (boundaries (tris st) ++ live_edges st) a b = coef (contours polys) a b) /\
  TrisIn (concat polys) st /\
  length (tris st) + nfilt st = nclip st /\
  nclip st + nlive st = numVert polys + 2 * njoin st /\
  (rings_closed st = true -> ceq (boundaries (tris st)) (contours polys)).
Proof. exact earclip_contract_init. Qed.
Print Assumptions earclip_chain_invariant.

(* the hypotheses are satisfiable: a pentagon with a triangular hole, 8 = V-2+2h-2(o-1) triangles *)
Example earclip_contract_example :
  exists st st1 starts,
    triangulate example_oracle 20 example_polys = Some st /\
    initialize (reset example_polys) example_polys = Some (st1, starts) /\
    init_ok example_polys st1 = true /\ nbad st = 0 /\ rings_closed st = true /\
    njoin st = 1 /\ nlive st = 2 /\ nfilt st = 0 /\ length (tris st) = 8.
Proof. exact example_run. Qed.

(* Initialize, for every polygon set: one closed ring per contour, all invariants, every record
   live, live edges = input contour edges (no hypothesis). *)
Theorem initialize_establishes_invariants :
  forall (polys : list (list Z)) (st1 : St) (starts : list nat),
  initialize (reset polys) polys = Some (st1, starts) ->
  Good (concat polys) (numVert polys) st1 /\ nbad st1 = 0 /\ ceq (chain_of st1) (contours polys).
Proof. exact initialize_good_state. Qed.
Print Assumptions initialize_establishes_invariants.

(* earclip_count, FULL: for every oracle, if every input contour has at least two vertices,
   #triangles + #filtered topological degenerates = V - 2 + 2h - 2(o-1), where h = number of
   JoinPolygons calls (holes key-holed into an outer: two extra records each) and o = #contours - h
   = the rings left to TriangulatePoly (outers, and holes that found no outer).  Proof: the ring
   decomposition also counts the non-empty rings (#non-empty + joins = #contours, every non-empty
   ring keeps >= 2 records, every ring ends with <= 2), and #live = sum of the ring lengths. *)
Theorem earclip_count :
  forall (orc : Oracle) (fuel : nat) (polys : list (list Z)) (st : St),
  triangulate orc fuel polys = Some st -> Forall (fun p : list Z => 2 <= length p) polys ->
  let h := njoin st in let o := length polys - njoin st in
  h <= length polys /\
  (Z.of_nat (length (tris st)) + Z.of_nat (nfilt st) =
   Z.of_nat (numVert polys) - 2 + 2 * Z.of_nat h - 2 * (Z.of_nat o - 1))%Z.
Proof. exact earclip_count_full. Qed.
Print Assumptions earclip_count.

(* every list operation is a Step for every oracle: the ghost counter never decreases and,
   while it is 0, the structural invariants, index validity, the clip count and the chain
   are preserved — here for JoinPolygons (CutKeyhole), the only operation adding records *)
Theorem join_polygons_preserves :
  forall (orc : Oracle) (ids : list Z) (V fuel : nat) (st0 : St) (s c : nat) (st' : St),
  joinPolygons orc fuel st0 s c = Some st' ->
  nbad st0 <= nbad st' /\
  (nbad st' = 0 -> Good ids V st0 ->
     Good ids V st' /\ (forall a b, coef (chain_of st') a b = coef (chain_of st0) a b)).
Proof. exact joinPolygons_step. Qed.
Print Assumptions join_polygons_preserves.

(* earclip_terminates, FULL: for every oracle and every polygon set without empty contours
   (an empty contour dereferences poly.begin()) the ported Triangulate returns a state once
   fuel >= 2*(V + 2*#contours) + 4: no iterator leaves polygon_, no push_back exceeds the
   reserved capacity (V + 2*#contours), Loop terminates from live and from clipped starts
   (clip times increase along ->right of clipped records), the ClipIfDegenerate recursion is
   bounded by the ring size. *)
Theorem earclip_terminates :
  forall (orc : Oracle) (fuel : nat) (polys : list (list Z)),
  (forall p, In p polys -> p <> []) ->
  2 * (numVert polys + 2 * length polys) + 4 <= fuel ->
  exists st, triangulate orc fuel polys = Some st.
Proof. exact triangulate_some. Qed.
Print Assumptions earclip_terminates.

(* total correctness in one statement *)
Theorem earclip_total_correctness :
  forall (orc : Oracle) (polys : list (list Z)),
  (forall p, In p polys -> p <> []) ->
  exists st, triangulate orc (2 * (numVert polys + 2 * length polys) + 4) polys = Some st /\
    ceq (boundaries (tris st)) (contours polys) /\ TrisIn (concat polys) st /\
    length (tris st) + nfilt st = nclip st /\ nclip st + nlive st = numVert polys + 2 * njoin st.
Proof. exact triangulate_total_correct. Qed.
Print Assumptions earclip_total_correctness.

(* TriangulatePoly's counted loop performs exactly k ClipEar calls *)
Theorem clip_loop_exact_count :
  forall (orc : Oracle) (k : nat) (st : St) (q : list nat) (v : nat) (st' : St),
  clip_loop orc k st q v = Some st' -> nclip st' = nclip st + k.
Proof. exact clip_loop_count. Qed.
Print Assumptions clip_loop_exact_count.

(* TriangulateConvex: same chain identity and count n-2 per contour, so taking the fast path
   changes the triangles, not the contract.  FULL: every contour length >= 3, by induction on the
   zig-zag strip (invariant: boundary(emitted) + path p_i..p_k + chord p_k->p_i = contour). *)
Theorem convex_strip_chain :
  forall (polys : list (list Z)),
  Forall (fun p => 3 <= length p) polys ->
  exists ts, triangulateConvex polys = Some ts /\ ceq (boundaries ts) (contours polys) /\
             (Z.of_nat (length ts) = Z.of_nat (numVert polys) - 2 * Z.of_nat (length polys))%Z.
Proof. exact convex_strip_all. Qed.
Print Assumptions convex_strip_chain.

(* independent check of the same statement by computation on positions 0..n-1, n = 3..200 *)
Example convex_strip_sweep : forallb convex_pos_ok (seq 3 198) = true.
Proof. exact convex_sweep. Qed.

(* HalfedgeTriangulation: Triangles() reads back what AddTriangle stored; with the chain
   identity every halfedge (reversed contour edges and triangle edges) is cancelled by a
   reverse one, which is what the hash pairing of AddHalfedge/Finalize needs. *)
Theorem halfedges_closed :
  forall (polys : list (list Z)) (ts : list tri),
  het_triangles (boundaries ts) = ts /\
  (ceq (boundaries ts) (contours polys) -> ceq (het_halfedges polys ts) []).
Proof. exact (fun polys ts => conj (het_roundtrip ts) (het_closed polys ts)). Qed.
Print Assumptions halfedges_closed.

(* pairing_reciprocal: the ported hash pairing of HalfedgeTriangulation::AddHalfedge (per-key
   stacks, most recent first).  For every list of halfedges without loops (start <> end):
   every recorded pairing is in range, reciprocal and has swapped endpoints; nothing stays in
   edge2halfedge exactly when every directed edge is cancelled by a reverse one; hence, with the
   chain identity of earclip_chain, all of Finalize()'s debug conditions hold.  No assumption
   that directed edges are unique (duplicates pair like a stack, as in the code). *)
Theorem pairing_reciprocal :
  forall (es : chain),
  NoLoop es ->
  let ht := addHalfedges es in
  hedges ht = es /\
  (forall i, i < length es -> nth i (hpair ht) 0%Z <> (-1)%Z -> pair_ok ht i) /\
  (hpend ht = [] <-> ceq es []) /\
  (ceq es [] -> finalize_ok ht).
Proof. exact pairing_reciprocal_thm. Qed.
Print Assumptions pairing_reciprocal.

Theorem pairing_of_triangulation_ok :
  forall (polys : list (list Z)) (ts : list tri),
  NoLoop (het_halfedges polys ts) -> ceq (boundaries ts) (contours polys) ->
  finalize_ok (addHalfedges (het_halfedges polys ts)).
Proof. exact pairing_of_triangulation. Qed.
Print Assumptions pairing_of_triangulation_ok.

Local Open Scope Z_scope.

(* The exact checker run on every output of the implementation is sound. *)
Theorem tri_check_soundness :
  forall (polys : list (list pvert)) (ts : list tri) (tolsq : Z),
  let m := build_map (all_verts polys) in
  let v := tri_check polys ts tolsq in
  (v_consistent v = true -> positions_ok polys (px_of m) (py_of m)) /\
  (v_consistent v = true -> v_index v = true -> indices_ok polys ts) /\
  (v_chain v = true -> chain_ok polys ts) /\
  (v_area v = true -> area_ok polys ts (px_of m) (py_of m)) /\
  (v_count v = true -> count_ok polys ts (px_of m) (py_of m)) /\
  (v_ccw v = true -> forall t, In t ts -> ccw_ok (px_of m) (py_of m) tolsq t).
Proof. exact tri_check_sound. Qed.
Print Assumptions tri_check_soundness.

(* area_sum: the area identity is a corollary of the chain identity, for every assignment
   of integer positions to indices (shoelace is a linear functional of the chain). *)
Theorem area_sum :
  forall (polys : list (list pvert)) (ts : list tri) (px py : Z -> Z),
  chain_ok polys ts -> area_ok polys ts px py.
Proof. exact chain_implies_area. Qed.
Print Assumptions area_sum.

(* chain equality is decided exactly by the executable normal form *)
Theorem chain_eqb_decides :
  forall c1 c2 : chain, chain_eqb c1 c2 = true <-> ceq c1 c2.
Proof. exact chain_eqb_spec. Qed.
Print Assumptions chain_eqb_decides.
