From Coq Require Import Extraction ExtrOcamlBasic ZArith List.
From MV Require Import Par.Sched Par.ParDefs Par.Containers Par.RadixBuf.
Extraction Language OCaml.
Extraction "../build/ml/c13_model.ml"
  legal_for legal_reduce legal_scan legal_scan_inplace excl_scan_inplace incl_scan_inplace legal_invoke legal_combinable exec_leaves
  merge isort pmerge merge_sort merge_sort_buf radix_sort lsb_radix_sort
  reduce_par reduce_seq all_of_par
  excl_scan_par incl_scan_par copy_if_par copy_if_body_par remove_if_par unique_par dedup
  uf_run_seq ht_run ht_find lsb_radix_sort_buf
  par_for seq_for fe_for_each fe_transform fe_copy fe_fill fe_sequence fe_gather fe_scatter.
