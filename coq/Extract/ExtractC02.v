From Coq Require Import Extraction ExtrOcamlBasic ZArith List.
From MV Require Import Geo.WindingDefs.
Extraction Language OCaml.
Extraction "../build/ml/c02_model.ml" winding_fast winding inside volume6 lattice_check csg_inside csg_wf box_tris
  Z.mul Z.add Z.shiftl.
