From Coq Require Import Extraction ExtrOcamlBasic ZArith List.
From MV Require Import Base.Chain Tri.EarClipDefs Tri.TriCheckDefs Tri.HalfedgePairDefs.
Extraction Language OCaml.
Extraction "../build/ml/c10_model.ml" triangulate triangulateConvex tri_check tri_check_all
  het_halfedges het_triangles chain_eqb boundaries contours nlive
  initialize reset init_ok rings_closed addHalfedges.
