From Coq Require Import Extraction ExtrOcamlBasic ZArith List QArith.
From MV Require Import Codec.RelationDefs.
Extraction Language OCaml.
Extraction "../build/ml/c07_model.ml" get_mesh_runs merge_maps increment_mesh_ids initialize_original
  compose_relation impl_transform m_set m_find asc_b get_barycentric interp_channel.
