From Coq Require Import Extraction ExtrOcamlBasic ZArith List.
From MV Require Import Bvh.BvhDefs Bvh.BvhModel Bvh.BvhSmall Bvh.Sweep2Defs Bvh.BvhTransform.
Extraction Language OCaml.
Extraction "../build/ml/c14_model.ml" build_tree find_collision wf_check shape_check
  overlap overlap_pt bunion spread_bits3 box_of tree_of leaves sweep_pairs build_two_d_tree query_two_d_tree query_two_d_tree_stk btransform.
