From Coq Require Import Extraction ExtrOcamlBasic ZArith List QArith.
From MV Require Import Geo.WindingDefs Geo.MeasureDefs Topo.CheckMeshDefs.
Extraction Language OCaml.
Extraction "../build/ml/c18_model.ml" winding_fast volume6 vol_check area_check bbox_check
  mingap2 tri_dist2 pt_tri_dist2 o3 det3 orient2 norm2 cross psub qtri_of seg_crossings polys_wind shadow_count decompose uf_edges comp_labels mesh_edges
  check_mesh Qle_bool Qeq_bool Qmult Qplus Qminus Qred inject_Z Z.sqrt Z.mul Z.add Z.sub Z.compare Z.abs.
