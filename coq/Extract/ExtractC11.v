From Coq Require Import Extraction ExtrOcamlBasic ZArith List.
From MV Require Import Geo.Wind2Defs Geo.RegularDefs.
From MV Require Geo.Vert1DDefs Geo.WalkDefs.
Extraction Language OCaml.
Extraction "../build/ml/c11_model.ml"
  wind2 area2 regular_check formula_check count_far wind_sum wind01 no_conflicts contour_ok
  seg_conflict far_all feval is_inside boolean2d_inside
  Vert1DDefs.merge_verticals_1d WalkDefs.out_edges_to_polygons_z WalkDefs.walks_z.
