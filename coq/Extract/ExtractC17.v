From Coq Require Import Extraction ExtrOcamlBasic ZArith List.
From MV Require Import Geo.CtorDefs Geo.WindingDefs.
Extraction Language OCaml.
Extraction "../build/ml/c17_model.ml" ext_sides ext_nverts extrude_tris rev_polys revolve_tris rev_nslices
  circ_segments sphere_n cylinder_n manifold_closedb chain_closedb tri_in_rangeb
  winding_fast volume6 mat_rot apply transform_tris pvolume6 det34.
