From Coq Require Import Extraction ExtrOcamlBasic ZArith List.
From MV Require Import Topo.CheckMeshDefs.
Extraction Language OCaml.
Extraction "../build/ml/c01_model.ml" check_mesh check_counts.
