From Coq Require Import Extraction ExtrOcamlBasic ZArith List.
From MV Require Import Topo.CheckMeshDefs Topo.PipelineDefs Topo.HalfedgeDefs Gen.Pipelines.
Extraction Language OCaml.
Extraction "../build/ml/c01_model.ml" check_mesh check_counts pipeline_verdicts pipeline_ok
  create_halfedges is_manifold gate_case balanced halfedge_inv.
