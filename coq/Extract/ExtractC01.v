From Coq Require Import Extraction ExtrOcamlBasic ZArith List.
From MV Require Import Topo.CheckMeshDefs Topo.PipelineDefs Topo.HalfedgeDefs Topo.EdgeOpsDefs Topo.UmbrellaDefs Gen.Pipelines.
Extraction Language OCaml.
Extraction "../build/ml/c01_model.ml" check_mesh check_counts pipeline_verdicts pipeline_ok
  create_halfedges is_manifold gate_case balanced halfedge_inv
  pair_up collapse_tri tri_of remove_if_folded flip_tris reindex_verts sort_verts sort_faces
  remove_unreferenced_verts nan_iff_unreferenced starts_in_range tris_of all_live live_edges
  check_vertex_manifold check_mesh_v.
