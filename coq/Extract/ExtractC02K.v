From Coq Require Import Extraction ExtrOcamlBasic ZArith QArith List.
From MV Require Import Gen.BoolConsts Geo.KernelDefs Geo.FloodDefs.
Extraction Language OCaml.
Extraction "../build/ml/c02k_model.ml" shadow01_g kernel02_g kernel11_g kernel12_g w03_sum_g gen_shadowsQ
  face_edges hend unbroken_edges winding03 uf_build uf_unite uf_init uf_find closed_meshb Qred.
