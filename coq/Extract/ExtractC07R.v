(* pure extraction of the related_check checker: Z stays the inductive type *)
From Coq Require Import Extraction ExtrOcamlBasic ZArith List.
From MV Require Import Codec.RelationDefs Codec.RelatedCheckDefs.
Extraction Language OCaml.
Extraction "../build/ml/c07_rc_model.ml" prep prep_x check_triangle face_by_id coplanar_b.
