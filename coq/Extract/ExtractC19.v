From Coq Require Import Extraction ExtrOcamlBasic ExtrOCamlFloats ExtrOCamlInt63 ZArith List QArith Floats.
From MV Require Import Tri.PartitionDefs Tri.PartitionCheck.
Extraction Language OCaml.
Definition reindex_f := reindex float.
Extraction "../build/ml/c19_model.ml" get_partition_f reindex_f tiles_ok_float eps_float key_tiles_exact
  set_tolerance simplify_tolerances.
