From Coq Require Import Extraction ExtrOcamlBasic ExtrOCamlFloats ExtrOCamlInt63 ZArith List QArith Floats.
From MV Require Import Tri.PartitionDefs Tri.PartitionCheck Tri.SubdivideDefs.
Extraction Language OCaml.
Definition reindex_f := reindex float.
Definition subdivide_tris_f := subdivide_tris float 0%float 1%float flerp.
Definition subdivide_numvert_f := subdivide_numvert float 0%float 1%float flerp.
Definition vert_owner_f := vert_owner float.
Definition sub_parts_f := sub_parts float 0%float 1%float flerp.
Extraction "../build/ml/c19_model.ml" get_partition_f reindex_f tiles_ok_float eps_float key_tiles_exact
  set_tolerance simplify_tolerances subdivide_tris_f subdivide_numvert_f vert_owner_f sub_parts_f.
From MV Require Tri.SubdivideQuadDefs.
Definition subdivide_tris_q_f := SubdivideQuadDefs.subdivide_tris_q float 0%float 1%float flerp.
Definition subdivide_numvert_q_f := SubdivideQuadDefs.subdivide_numvert_q float 0%float 1%float flerp.
Extraction "../build/ml/c19_subq.ml" subdivide_tris_q_f subdivide_numvert_q_f.
From MV Require Tri.SimplifyDefs Tri.SimplifyInvDefs.
Extraction "../build/ml/c19_simplify.ml" SimplifyDefs.collapse_edge2 SimplifyDefs.swap_edge SimplifyDefs.num_live SimplifyDefs.slots SimplifyDefs.mkState
  SimplifyInvDefs.pair_inv SimplifyInvDefs.collapse_edge2_guard SimplifyInvDefs.swap_edge_guard.
