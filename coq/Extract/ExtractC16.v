From Coq Require Import Extraction ExtrOcamlBasic ZArith List QArith.
From MV Require Import Geo.WindingDefs Geo.MeasureDefs Topo.CheckMeshDefs Geo.Hull3Defs.
Extraction Language OCaml.
Extraction "../build/ml/c16_model.ml" hull_check_code hull_input_flat winding_fast volume6 pt_tri_dist2
  o3 det3 norm2 cross psub dot fnormal check_mesh
  Qle_bool Qeq_bool Qmult Qplus Qminus Qred inject_Z Z.sqrt Z.mul Z.add Z.sub Z.compare Z.abs.
