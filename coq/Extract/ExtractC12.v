From Coq Require Import Extraction ExtrOcamlBasic ZArith QArith List.
From MV Require Import Geo.Wind2Defs Geo.Hull2Defs Geo.Simplify2Defs Geo.Decomp2Defs Geo.Offset2CheckDefs.
Extraction Language OCaml.
Extraction "../build/ml/c12_model.ml" simplify_ring subseq_b ring_dev_ok hull2 hull2_check
  decompose_rings decomp_check offset_check sample_verdict params_ok all_edges mono_check regular_out_check
  area2 wind2 decompose ring_inside area2_contour wind_fast must_in must_out.
