From Coq Require Import Extraction ExtrOcamlBasic ZArith List.
From MV Require Import Csg.CsgDefs Csg.CsgVoxelDefs.
Extraction Language OCaml.
Extraction "../build/ml/c03_model.ml" do_hop init_state VoxOps vovl vbox lden handle get_node cache_of
  nodes cells tick st_heap st_handles apply_tr vmem.
