From Coq Require Import Extraction ExtrOcamlBasic ZArith List.
From MV Require Import Csg.CsgDefs Csg.CsgVoxelDefs Csg.CsgStatusDefs.
Extraction Language OCaml.
Extraction "../build/ml/c03_model.ml" do_hop do_hop_rc uniq_rc alive init_state VoxOps SVoxOps SVoxOpsMin vovl svovl vbox lden
  handle get_node cache_of nodes cells tick st_heap st_handles apply_tr vmem.
