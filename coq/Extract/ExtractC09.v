From Coq Require Import Extraction ExtrOcamlBasic ZArith List.
From MV Require Import Codec.IngestDefs Codec.StatusDefs.
From MV Require Gen.Ladder Gen.Status.
Extraction Language OCaml.

Definition predict (t : list item) (m : meshgl) (o : oracle) : verdict * option access :=
  let '(v, a) := run t m o (st0 m) in (v, first_oob a).
Definition current_table : list item := Gen.Ladder.table.
Definition table_safe_current : bool := ladder_table_safe Gen.Ladder.table.
Definition table_safe_strong_current : bool := ladder_table_safe_strong Gen.Ladder.table.
Definition unsafe_weak_current : list item := filter (fun it => match it with IPost _ => false | _ => true end) (unsafe_items facts0 Gen.Ladder.table).
Definition unsafe_current : list item := unsafe_items facts0 Gen.Ladder.table.
Definition status_ok_current : bool := status_table_ok Gen.Status.methods Gen.Status.internal.
Definition status_bad_current : list (String.string * fwd) :=
  filter (fun nk => negb (kind_ok (snd nk))) Gen.Status.methods.

Extraction "../build/ml/c09_model.ml" predict current_table patched_table pinned_table
  table_safe_current table_safe_strong_current unsafe_weak_current unsafe_current status_ok_current status_bad_current error_code
  Z.add Z.mul.
