(* second extraction of the same checker with the standard library's
   ExtrOcamlZBigInt directives (Z -> zarith big integers).  Its verdicts are
   compared with the pure extraction on every run (checks/C07.py). *)
From Coq Require Import Extraction ExtrOcamlBasic ExtrOcamlZBigInt ZArith List.
From MV Require Import Codec.RelationDefs Codec.RelatedCheckDefs.
Extraction Language OCaml.
Extraction "../build/ml/c07_rcb_model.ml" prep prep_x check_triangle face_by_id coplanar_b.
