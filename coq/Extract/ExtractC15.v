From Coq Require Import Extraction ExtrOcamlBasic List.
From MV Require Import Proto.CancelDefs.
Extraction Language OCaml.
Extraction "../build/ml/c15_model.ml" accept exec cancel_at never word_ok reductions total_booleans num_leaves wf.
