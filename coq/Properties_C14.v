(* C14 — spatial indices report exactly the overlapping pairs.
   Only statements closed by `exact`, each followed by Print Assumptions. *)
From Coq Require Import ZArith List Bool.
From MV Require Import Bvh.BvhDefs Bvh.BvhModel Bvh.BvhSmall Bvh.Sweep2Defs Bvh.Sweep2Model Bvh.Kd2Model.
From MV Require Import Bvh.Karras3 Bvh.Kd2Stack Bvh.BvhTransform.
Import ListNotations.
Local Open Scope Z_scope.

(* Box queries: for any arrays accepted by the certificate wf_check (a binary
   tree of depth <= 64 over leaves 0..n-1 whose internal boxes are the unions of
   their children), the stack traversal terminates without overflowing its
   64-entry stack and records leaf i exactly when the closed-interval test
   accepts (query, leaf box i); each pair once; q = l skipped iff selfCollision. *)
Theorem collisions_exact_box :
  forall children bbox n self (q : box) qi,
    wf_check children bbox n = true ->
    exists res, find_collision children bbox self (fun b => overlap b q) qi (Z.to_nat (2 * n)) = Some res /\
      NoDup res /\
      forall i, In i res <-> (0 <= i < n /\ overlap (bbox (leaf2node i)) q = true /\ ~ (self = true /\ i = qi)).
Proof.
  intros children bbox n self q qi.
  exact (wf_check_collisions_exact children bbox n self (fun b => overlap b q) qi
           (fun a b => overlap_union_l a b q) (fun a b => overlap_union_r a b q)).
Qed.
Print Assumptions collisions_exact_box.

(* Point queries use the xy-only test. *)
Theorem collisions_exact_point :
  forall children bbox n self (px py : Z) qi,
    wf_check children bbox n = true ->
    exists res, find_collision children bbox self (fun b => overlap_pt b px py) qi (Z.to_nat (2 * n)) = Some res /\
      NoDup res /\
      forall i, In i res <-> (0 <= i < n /\ overlap_pt (bbox (leaf2node i)) px py = true /\ ~ (self = true /\ i = qi)).
Proof.
  intros children bbox n self px py qi.
  exact (wf_check_collisions_exact children bbox n self (fun b => overlap_pt b px py) qi
           (fun a b => overlap_pt_union_l a b px py) (fun a b => overlap_pt_union_r a b px py)).
Qed.
Print Assumptions collisions_exact_point.

(* The documented closed-interval test is "the boxes share a point". *)
Theorem overlap_is_shared_point :
  forall a b,
  bminx a <= bmaxx a -> bminy a <= bmaxy a -> bminz a <= bmaxz a ->
  bminx b <= bmaxx b -> bminy b <= bmaxy b -> bminz b <= bmaxz b ->
  (overlap a b = true <->
   exists x y z, (bminx a <= x <= bmaxx a /\ bminy a <= y <= bmaxy a /\ bminz a <= z <= bmaxz a) /\
                 (bminx b <= x <= bmaxx b /\ bminy b <= y <= bmaxy b /\ bminz b <= z <= bmaxz b)).
Proof. exact overlap_shares_point. Qed.
Print Assumptions overlap_is_shared_point.

(* Radix tree construction, exhaustive up to the stated bound: for every
   non-decreasing code list of length 2..7 over the codes {0,1,2,3,4,7,2^31}
   (all multisets: many identical codes, all identical, all distinct) the
   ported CreateRadixTree yields arrays that pass the shape certificate. *)
Theorem radix_tree_wf_small : forallb radix_case_ok (small_code_lists 7) = true.
Proof. exact radix_small_ok. Qed.
Print Assumptions radix_tree_wf_small.

(* SpreadBits3 spreads the low 10 bits to every third position. *)
Theorem spread_bits3_correct : forall v, 0 <= v < 1024 -> spread_bits3 v = spread_ref 10 v.
Proof. exact spread_bits3_ok. Qed.
Print Assumptions spread_bits3_correct.

(* 2-D edge-pair broad phase, x-sorted sweep branch of CollectIntersectionPairs
   (used below kEdgePairBvhThreshold edges): for every list of valid boxes and
   every symmetric skip predicate (SharedEndpointSafelySkippable), the reported
   pairs are exactly the index pairs a < b whose boxes overlap and are not
   skipped.  (The BVH branch reuses CreateRadixTree and the same stack traversal
   as the 3-D collider: collisions_exact_box with z = 0.) *)
Theorem sweep_pairs_exact :
  forall (skip : Z -> Z -> bool) (boxes : list box2),
    (forall i j, skip i j = skip j i) ->
    Forall valid2 boxes ->
    forall a b, In (a, b) (sweep_pairs skip boxes) <->
      (a < b /\ exists ba bb, box_at boxes a = Some ba /\ box_at boxes b = Some bb /\
                 overlap2 ba bb = true /\ skip a b = false).
Proof. intros skip boxes Hs Hv. exact (sweep_pairs_spec skip Hs boxes Hv). Qed.
Print Assumptions sweep_pairs_exact.

(* ... and each such pair is reported exactly once (no hypothesis on the boxes). *)
Theorem sweep_pairs_once :
  forall (skip : Z -> Z -> bool) (boxes : list box2), NoDup (sweep_pairs skip boxes).
Proof. exact sweep_pairs_nodup. Qed.
Print Assumptions sweep_pairs_once.

(* Polygon k-d tree: QueryTwoDTree on the tree BuildTwoDTree builds from ANY
   point list reports exactly the points inside the (closed) rectangle, each as
   often as it occurs. (Stated for the recursive form of the traversal; the
   loop with the explicit 64-entry stack is query_stack_never_overflows below.) *)
Theorem kd_query_exact_multiset :
  forall (points : list pt) (r : rect),
    Permutation.Permutation points (build_two_d_tree points) /\
    Permutation.Permutation (query_two_d_tree (build_two_d_tree points) r)
                            (filter (contains r) (build_two_d_tree points)).
Proof. exact kd_query_exact_perm. Qed.
Print Assumptions kd_query_exact_multiset.

(* Radix tree construction, for ALL inputs: for every n in [2, 2^30) and every
   non-decreasing array of 32-bit codes (duplicates allowed), the ported
   CreateRadixTree (RangeEnd growth + binary search, FindSplit, PrefixLength with
   the index tie-break; kInitialLength = 128, kLengthMultiple = 4) terminates
   within its fuel, never evaluates clz(0), and yields a children array that
   describes a binary tree rooted at kRoot whose leaves are 0..n-1 in order and
   whose depth is at most 64 (the traversal stack size). *)
Theorem radix_tree_wf_all : forall (n : Z) (code : Z -> Z),
  2 <= n < 2 ^ 30 ->
  (forall i, 0 <= i < n -> 0 <= code i < 2 ^ 32) ->
  (forall i j, 0 <= i -> i <= j -> j < n -> code i <= code j) ->
  exists ch, build_tree 128 4 n code = Some ch /\ length ch = Z.to_nat (n - 1) /\
    exists t, tree_of (nthP ch) (Z.to_nat (2 * n)) kRoot = Some t /\ is_nd t /\
              leaves t = zseq (Z.to_nat n) 0 /\ (depth t <= 64)%nat.
Proof. exact radix_tree_wf. Qed.
Print Assumptions radix_tree_wf_all.

(* QueryTwoDTree as written in tree2d.h — a loop over three 64-entry arrays
   (rectStack, viewStack, levelStack): for every point array of fewer than 2^64
   points (every array a 64-bit process can hold) and every query rectangle the
   loop terminates, its stack pointer never reaches 64 (the model returns None
   exactly where the DEBUG_ASSERT would fail / a release build would write past
   the arrays), and it reports the points of the recursive traversal in the
   same order. This is the form the extracted driver runs against the C++. *)
Theorem query_stack_never_overflows :
  forall (points : list pt) (r : rect),
    (Z.of_nat (length points) < 2 ^ 64)%Z ->
    query_two_d_tree_stk points r = Some (query_two_d_tree points r).
Proof. exact query_stack_safe. Qed.
Print Assumptions query_stack_never_overflows.

(* Collider::Transform with an axis-aligned matrix (every row of the linear part has one
   non-zero entry: btransform is Box::Transform for such a matrix) maps every node box; if the
   arrays passed the certificate before and the leaf boxes are non-empty, they pass it afterwards
   (the image of a union is the union of the images), so box queries are again exact - now with
   respect to the transformed leaf boxes. (UpdateBoxes recomputes the unions and is covered by
   the certificate directly.) *)
Theorem collisions_exact_after_transform :
  forall children bbox n (T : atrans) (self : bool) (q : box) (qi : Z),
    (forall i, 0 <= i < n -> bvalid (bbox (leaf2node i))) ->
    wf_check children bbox n = true ->
    let bbox' := fun k => btransform T (bbox k) in
    wf_check children bbox' n = true /\
    exists res, find_collision children bbox' self (fun b => overlap b q) qi (Z.to_nat (2 * n)) = Some res /\
      NoDup res /\
      forall i, In i res <-> (0 <= i < n /\ overlap (bbox' (leaf2node i)) q = true /\ ~ (self = true /\ i = qi)).
Proof.
  intros children bbox n T self q qi Hv Hw bbox'.
  assert (Hw' : wf_check children bbox' n = true) by exact (transform_keeps_certificate children bbox n T Hv Hw).
  split; [exact Hw'|].
  exact (wf_check_collisions_exact children bbox' n self (fun b => overlap b q) qi
           (fun a b => overlap_union_l a b q) (fun a b => overlap_union_r a b q) Hw').
Qed.
Print Assumptions collisions_exact_after_transform.
