(* C06 — the obligation on the lock table regenerated from the C++ sources by
   translate/c06_locks.py on every run (coq/Gen/LockTable.v). *)
From Coq Require Import List Arith Bool PeanoNat String.
From MV Require Import Proto.LocksetDefs Proto.LocksetModel Gen.LockTable.
Import ListNotations.

Lemma table_ok_lemma : lockset_ok Gen.LockTable.table = true.
Proof. vm_compute. reflexivity. Qed.

Theorem table_ok : lockset_ok Gen.LockTable.table = true.
Proof. exact table_ok_lemma. Qed.
Print Assumptions table_ok.

(* Instance of Properties_C06.table_threads_safe for the library's table. *)
Theorem library_threads_safe :
  forall n progs, (forall t, t < n -> from_table Gen.LockTable.table (progs t)) ->
  forall tr, exec n (recursive_of Gen.LockTable.table) progs tr ->
    ~ data_race tr /\ ~ deadlocked n (recursive_of Gen.LockTable.table) progs tr.
Proof. exact (table_threads_safe_lemma Gen.LockTable.table table_ok_lemma). Qed.
Print Assumptions library_threads_safe.
