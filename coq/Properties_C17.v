(* C17 — constructors and transforms produce the solid their parameters define.
   Proved part: index arithmetic of Extrude/Revolve for all parameters, finite
   tables, segment counts, affine algebra, sind/cosd at multiples of 90.
   Only statements closed by `exact`, each followed by Print Assumptions.
   (The geometric claim "point outside the faceting band is inside iff the
   defining inequality holds" is NOT proved: it is decided on outputs by the
   exact classifier Geo/WindingDefs.winding in checks/C17.py.) *)
From Coq Require Import ZArith List Bool.
From MV Require Import Geo.CtorDefs Geo.CtorModel Geo.CtorTables Geo.CtorFloatDefs Geo.CtorFloat Gen.C17Shapes.
Import ListNotations.
Local Open Scope Z_scope.

(* Extrude, side triangles (src/constructors.cpp:243-272), for EVERY list of
   contour sizes (even sizes < 3), every nDivisions >= 0, cone or not:
   all indices are < vertPos.size(), and the boundary chain of the side
   triangles is  (contours at level 0) - (contours at the top level)
   [cone: (contours at level 0), the apex vertices being interior]. *)
Theorem extrude_chain :
  forall (sizes : list nat) (nDivisions : nat) (isCone : bool),
    Forall (tri_in_range (ext_nverts sizes nDivisions isCone)) (ext_sides sizes nDivisions isCone) /\
    forall a b,
      tcoef (ext_sides sizes nDivisions isCone) a b =
      ccoef (contours zid 0 sizes) a b -
      (if isCone then 0 else ccoef (contours zid (total sizes * zn (S nDivisions)) sizes) a b).
Proof. exact (fun s n c => conj (ext_sides_range s n c) (ext_sides_coef s n c)). Qed.
Print Assumptions extrude_chain.

(* With caps from a triangulation whose boundary chain is the contours (the
   triangulator's contract, property C10) the whole triVerts list handed to
   CreateHalfedges is a closed oriented pseudo-surface: every directed edge is
   matched by its reverse. *)
Theorem extrude_closed :
  forall (sizes : list nat) (nDivisions : nat) (isCone : bool) (top : list itri),
    (forall a b, tcoef top a b = ccoef (contours zid 0 sizes) a b) ->
    closed (extrude_tris sizes nDivisions isCone top).
Proof. exact extrude_closed_l. Qed.
Print Assumptions extrude_closed.

Example extrude_closed_hyp_satisfiable :
  forall a b, tcoef [(0, 1, 2)] a b = ccoef (contours zid 0 [3%nat]) a b.
Proof. intros a b. unfold tcoef. cbn -[ecoef]. Lia.lia. Qed.

(* The 2x2 map Extrude applies to the contour at each division (entries
   regenerated from the source statements on every run) is the documented
   "scale is applied after twist": rotate (x,y) by phi, then scale by
   (sx, sy) = lerp(1, scaleTop, alpha) — for all symbolic sx sy c s. *)
Theorem extrude_scale_after_twist :
  forall sx sy c s x y : Z,
    (extrude_m_xx sx sy c s * x + extrude_m_xy sx sy c s * y,
     extrude_m_yx sx sy c s * x + extrude_m_yy sx sy c s * y) =
    (sx * (c * x - s * y), sy * (s * x + c * y)).
Proof. exact extrude_map_l. Qed.
Print Assumptions extrude_scale_after_twist.

(* Revolve, side triangles (src/constructors.cpp:362-414), for every list of
   clipped polygons given as flags (x > 0 / x == 0), every nDivisions >= 1,
   full or partial revolution: indices < vertPos.size(); the boundary chain is
   0 for a full revolution and (end contours) - (start contours) otherwise,
   the contours being taken through endPoses / startPoses. *)
Theorem revolve_chain :
  forall (polys : list (list bool)) (nDivisions : nat) (full : bool),
    (1 <= nDivisions)%nat ->
    let '(sides, startPoses, endPoses, nVerts) :=
        rev_polys polys nDivisions (rev_nslices nDivisions full) full 0 in
    Forall (tri_in_range nVerts) sides /\
    forall a b,
      tcoef sides a b =
      (if full then 0
       else ccoef (contours (nthz endPoses) 0 (sizes_of polys)) a b
            - ccoef (contours (nthz startPoses) 0 (sizes_of polys)) a b).
Proof.
  intros polys n full Hn.
  pose proof (revolve_sides_range_l polys n full Hn) as H1.
  pose proof (fun a b => revolve_sides_l polys n full a b Hn) as H2.
  destruct (rev_polys polys n (rev_nslices n full) full 0) as [[[ts st] en] nv].
  exact (conj H1 H2).
Qed.
Print Assumptions revolve_chain.

(* Closedness of the whole Revolve list.  The contract of the front
   triangulation is stated on the triangles as emitted (mapped through
   startPoses / endPoses); pushing the contract "boundary = input contours"
   through these two (injective) index maps is not proved here. *)
Theorem revolve_closed_partial :
  forall (polys : list (list bool)) (nDivisions : nat) (full : bool) (front : list itri),
    (1 <= nDivisions)%nat ->
    let '(_, st, en, _) := rev_polys polys nDivisions (rev_nslices nDivisions full) full 0 in
    (full = false ->
     (forall a b, tcoef (map (map_tri (nthz st)) front) a b = ccoef (contours (nthz st) 0 (sizes_of polys)) a b) /\
     (forall a b, tcoef (map (map_tri (nthz en)) front) a b = ccoef (contours (nthz en) 0 (sizes_of polys)) a b)) ->
    closed (fst (revolve_tris polys nDivisions full front)).
Proof. exact revolve_closed_l. Qed.
Print Assumptions revolve_closed_partial.

Example revolve_closed_example :
  closed (fst (revolve_tris [[true; true; false]] 2 false [(0, 1, 2)])).
Proof. apply manifold_closedb_sound. vm_compute. reflexivity. Qed.

(* Tetrahedron / Cube / Octahedron tables of Impl(Shape) (regenerated from
   src/impl.cpp): indices in range, each directed edge exactly once with its
   reverse exactly once (closed 2-manifold), positive 6*volume (outward). *)
Theorem shape_tables_closed :
  (closed tetra_tris /\ Forall (tri_in_range (zn (length tetra_verts))) tetra_tris /\ 0 < pvolume6 (tris_of tetra_verts tetra_tris)) /\
  (closed cube_tris /\ Forall (tri_in_range (zn (length cube_verts))) cube_tris /\ 0 < pvolume6 (tris_of cube_verts cube_tris)) /\
  (closed octa_tris /\ Forall (tri_in_range (zn (length octa_verts))) octa_tris /\ 0 < pvolume6 (tris_of octa_verts octa_tris)).
Proof.
  exact (conj (shape_ok_closed _ _ (proj1 shapes_ok))
        (conj (shape_ok_closed _ _ (proj1 (proj2 shapes_ok))) (shape_ok_closed _ _ (proj2 (proj2 shapes_ok))))).
Qed.
Print Assumptions shape_tables_closed.

(* Marching tetrahedra tables tetTri0/tetTri1 (regenerated from src/sdf.cpp):
   for all 16 sign patterns the triangles use exactly the crossing edges,
   their normals point from inside (distance > 0) to outside corners on the
   reference tetrahedron, the patch boundary is one cycle through the crossing
   edges, and the directed segments left on each face depend only on that
   face's three signs. *)
Theorem tet_tables_consistent : tet_tables_ok tet_tri0 tet_tri1 = true.
Proof. exact tet_tables_ok_l. Qed.
Print Assumptions tet_tables_consistent.

(* EncodeIndex / DecodeIndex round trip, all grid powers 1..4 per axis. *)
Theorem encode_decode :
  forall px py pz x y z w,
    1 <= px <= 4 -> 1 <= py <= 4 -> 1 <= pz <= 4 ->
    0 <= x < 2 ^ px -> 0 <= y < 2 ^ py -> 0 <= z < 2 ^ pz -> 0 <= w < 2 ->
    decode_index (encode_index x y z w py pz) px py pz = (x, y, z, w).
Proof. exact encode_decode_l. Qed.
Print Assumptions encode_decode.

(* Quality::GetCircularSegments: an explicit setting wins; otherwise, with m the
   integer part of fmin(nSegA, nSegL): max(4, m rounded up to a multiple of 4). *)
Theorem circular_segments_spec :
  forall explicit m, 0 <= m ->
    circ_segments explicit m = (if 0 <? explicit then explicit else Z.max 4 (4 * ((m + 3) / 4))) /\
    (4 * ((m + 3) / 4)) mod 4 = 0 /\ m <= 4 * ((m + 3) / 4) < m + 4.
Proof. exact (fun e m H => conj (circ_segments_spec_l e m H) (round_up_4 m H)). Qed.
Print Assumptions circular_segments_spec.

(* Transform matrices compose as point maps; Translate/Scale/Mirror matrices
   as CsgNode builds them act as documented; determinants. *)
Theorem affine_action :
  (forall a b p, apply (compose a b) p = apply a (apply b p)) /\
  (forall a b, det34 (compose a b) = det34 a * det34 b) /\
  (forall t p, apply (mat_translate t) p = vadd p t) /\
  (forall v p, apply (mat_scale v) p = (vx v * vx p, vy v * vy p, vz v * vz p)) /\
  (forall v, det34 (mat_scale v) = vx v * vy v * vz v) /\
  (forall n, let d := vx n * vx n + vy n * vy n + vz n * vz n in
             det34 (mat_mirror_scaled n) = - (d * d * d) /\ apply (mat_mirror_scaled n) n = vscale (- d) n).
Proof.
  exact (conj apply_compose (conj det_compose (conj apply_translate (conj apply_scale (conj det_scale
        (fun n => conj (det_mirror n) (mirror_normal n))))))).
Qed.
Print Assumptions affine_action.

(* Impl::Transform flips every triangle when det < 0, so that
   6*volume(result) = |det| * 6*volume(input).  Proved for matrices without
   translation; with a translation the identity needs the closedness of the
   surface (not proved here, checked on outputs). *)
Theorem flip_on_negative_det_partial :
  forall m ts, c3 m = (0, 0, 0) ->
    pvolume6 (transform_tris m ts) = Z.abs (det34 m) * pvolume6 ts.
Proof. exact transform_volume. Qed.
Print Assumptions flip_on_negative_det_partial.

(* Structurally, for every k >= 0: the integer kernel of remquo maps the exact
   multiple 90k to quotient k and remainder 0, and the quadrant chosen from
   the low three quotient bits is k mod 4 (so sind(90k) is +-msin(+0) or
   +-mcos(+0), see sind_cosd_exact for the two kernel values). *)
Theorem sind_quadrant_all_k :
  forall k, 0 <= k -> remquo_z (k * 90) 90 = (k, 0) /\ (k mod 8) mod 4 = k mod 4.
Proof. exact (fun k H => conj (remquo_z_multiple k 90 eq_refl) (quadrant_of_quo k H)). Qed.
Print Assumptions sind_quadrant_all_k.

(* sind / cosd (ported with the math::sin / math::cos kernels) on primitive
   binary64 floats: the kernels are exact at the reduced argument +0, and
   sind(90k), cosd(90k) are exactly 0, 1 or -1 by the quadrant table for every
   |k| <= 720. *)
Theorem sind_cosd_exact :
  PrimFloat.eqb (msin (radians PrimFloat.zero)) PrimFloat.zero = true /\
  PrimFloat.eqb (mcos (radians PrimFloat.zero)) PrimFloat.one = true /\
  forall k, -720 <= k <= 720 ->
    PrimFloat.eqb (sind (float_of_Z (90 * k))) (float_of_Z (quad_sin k)) &&
    PrimFloat.eqb (cosd (float_of_Z (90 * k))) (float_of_Z (quad_cos k)) = true.
Proof. exact (conj msin_zero (conj mcos_zero sind_cosd_exact_l)). Qed.

(* hence CsgNode::Rotate by multiples of 90 degrees has a signed permutation
   matrix of determinant 1 (all 64 quadrant combinations): integer meshes are
   rotated exactly. *)
Theorem rot90_exact :
  forallb (fun x : Z * Z => forallb (fun y : Z * Z => forallb (fun z : Z * Z =>
    signed_perm (mat_rot (fst x) (snd x) (fst y) (snd y) (fst z) (snd z))) quads) quads) quads = true.
Proof. exact rot90_signed_perm. Qed.
Print Assumptions rot90_exact.
Print Assumptions sind_cosd_exact.
