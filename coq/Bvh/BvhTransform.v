(* Collider::Transform (axis-aligned) keeps the certificate: if every internal
   box is the union of its children's boxes and the leaf boxes are non-empty,
   the same holds after every node box has been mapped by Box::Transform. *)
From Coq Require Import ZArith List Bool Lia.
From MV Require Import Bvh.BvhDefs Bvh.BvhModel.
Import ListNotations.
Local Open Scope Z_scope.

(* one row of an axis-aligned mat3x4: the single non-zero linear entry sits in
   column [sel] (0 = x, 1 = y, 2 = z) with value [sc]; translation [tr] *)
Record arow := mkRow { sel : Z; sc : Z; tr : Z }.
Record atrans := mkTrans { rx : arow; ry : arow; rz : arow }.

Definition lo_of (s : Z) (b : box) : Z := if s =? 0 then bminx b else if s =? 1 then bminy b else bminz b.
Definition hi_of (s : Z) (b : box) : Z := if s =? 0 then bmaxx b else if s =? 1 then bmaxy b else bmaxz b.
Definition amap (r : arow) (v : Z) : Z := sc r * v + tr r.

(* Box::Transform: minT = M*(min,1), maxT = M*(max,1), out = (min(minT,maxT), max(minT,maxT)) *)
Definition btransform (T : atrans) (b : box) : box :=
  let lo r := amap r (lo_of (sel r) b) in
  let hi r := amap r (hi_of (sel r) b) in
  mkBox (Z.min (lo (rx T)) (hi (rx T))) (Z.min (lo (ry T)) (hi (ry T))) (Z.min (lo (rz T)) (hi (rz T)))
        (Z.max (lo (rx T)) (hi (rx T))) (Z.max (lo (ry T)) (hi (ry T))) (Z.max (lo (rz T)) (hi (rz T))).

Definition bvalid (b : box) : Prop := bminx b <= bmaxx b /\ bminy b <= bmaxy b /\ bminz b <= bmaxz b.

Lemma bunion_valid a b : bvalid a -> bvalid b -> bvalid (bunion a b).
Proof. unfold bvalid, bunion; simpl. lia. Qed.

Lemma lo_hi_valid s b : bvalid b -> lo_of s b <= hi_of s b.
Proof. unfold bvalid, lo_of, hi_of. intros (?&?&?). destruct (s =? 0); [lia|]. destruct (s =? 1); lia. Qed.

Lemma lo_of_union s a b : lo_of s (bunion a b) = Z.min (lo_of s a) (lo_of s b).
Proof. unfold lo_of, bunion; simpl. destruct (s =? 0); [reflexivity|]. destruct (s =? 1); reflexivity. Qed.
Lemma hi_of_union s a b : hi_of s (bunion a b) = Z.max (hi_of s a) (hi_of s b).
Proof. unfold hi_of, bunion; simpl. destruct (s =? 0); [reflexivity|]. destruct (s =? 1); reflexivity. Qed.

(* the image of an interval hull is the hull of the images *)
Lemma amap_union r l1 h1 l2 h2 : l1 <= h1 -> l2 <= h2 ->
  Z.min (amap r (Z.min l1 l2)) (amap r (Z.max h1 h2)) =
    Z.min (Z.min (amap r l1) (amap r h1)) (Z.min (amap r l2) (amap r h2)) /\
  Z.max (amap r (Z.min l1 l2)) (amap r (Z.max h1 h2)) =
    Z.max (Z.max (amap r l1) (amap r h1)) (Z.max (amap r l2) (amap r h2)).
Proof.
  intros H1 H2. unfold amap. set (s := sc r). set (t := tr r).
  destruct (Z.min_spec l1 l2) as [[Hl ->]|[Hl ->]]; destruct (Z.max_spec h1 h2) as [[Hh ->]|[Hh ->]];
  destruct (Z.le_gt_cases 0 s) as [Hs|Hs].
  all: try (assert (s * l1 <= s * h1) by (apply Z.mul_le_mono_nonneg_l; lia);
            assert (s * l2 <= s * h2) by (apply Z.mul_le_mono_nonneg_l; lia);
            assert (l1 <= l2 -> s * l1 <= s * l2) by (intros; apply Z.mul_le_mono_nonneg_l; lia);
            assert (l2 <= l1 -> s * l2 <= s * l1) by (intros; apply Z.mul_le_mono_nonneg_l; lia);
            assert (h1 <= h2 -> s * h1 <= s * h2) by (intros; apply Z.mul_le_mono_nonneg_l; lia);
            assert (h2 <= h1 -> s * h2 <= s * h1) by (intros; apply Z.mul_le_mono_nonneg_l; lia); lia).
  all: assert (s * h1 <= s * l1) by (apply Z.mul_le_mono_nonpos_l; lia);
       assert (s * h2 <= s * l2) by (apply Z.mul_le_mono_nonpos_l; lia);
       assert (l1 <= l2 -> s * l2 <= s * l1) by (intros; apply Z.mul_le_mono_nonpos_l; lia);
       assert (l2 <= l1 -> s * l1 <= s * l2) by (intros; apply Z.mul_le_mono_nonpos_l; lia);
       assert (h1 <= h2 -> s * h2 <= s * h1) by (intros; apply Z.mul_le_mono_nonpos_l; lia);
       assert (h2 <= h1 -> s * h1 <= s * h2) by (intros; apply Z.mul_le_mono_nonpos_l; lia); lia.
Qed.

Lemma btransform_union T a b : bvalid a -> bvalid b ->
  btransform T (bunion a b) = bunion (btransform T a) (btransform T b).
Proof.
  intros Ha Hb. unfold btransform. cbv zeta. rewrite !lo_of_union, !hi_of_union.
  destruct (amap_union (rx T) _ _ _ _ (lo_hi_valid (sel (rx T)) a Ha) (lo_hi_valid (sel (rx T)) b Hb)) as [X1 X2].
  destruct (amap_union (ry T) _ _ _ _ (lo_hi_valid (sel (ry T)) a Ha) (lo_hi_valid (sel (ry T)) b Hb)) as [Y1 Y2].
  destruct (amap_union (rz T) _ _ _ _ (lo_hi_valid (sel (rz T)) a Ha) (lo_hi_valid (sel (rz T)) b Hb)) as [Z1 Z2].
  unfold bunion; simpl. rewrite X1, X2, Y1, Y2, Z1, Z2. reflexivity.
Qed.

Lemma box_eqb_refl a : box_eqb a a = true.
Proof. unfold box_eqb. rewrite !Z.eqb_refl. reflexivity. Qed.

Lemma boxes_okb_complete bbox t : boxes_ok bbox t -> boxes_okb bbox t = true.
Proof.
  induction t as [i|k l IHl r IHr]; simpl; [trivial|].
  intros (Hb & Hl & Hr). rewrite Hb, box_eqb_refl, IHl, IHr by assumption. reflexivity.
Qed.

Section Tr.
  Variable bbox : Z -> box.
  Variable T : atrans.

  Lemma node_valid t : boxes_ok bbox t -> (forall i, In i (leaves t) -> bvalid (bbox (leaf2node i))) ->
    bvalid (bbox (node_of t)).
  Proof.
    induction t as [i|k l IHl r IHr]; simpl; intros Hb Hv.
    - apply Hv. left. reflexivity.
    - destruct Hb as (Hb & Hl & Hr). rewrite Hb. apply bunion_valid.
      + apply IHl; [assumption|]. intros i Hi. apply Hv. apply in_or_app. left. assumption.
      + apply IHr; [assumption|]. intros i Hi. apply Hv. apply in_or_app. right. assumption.
  Qed.

  Lemma transform_boxes_ok t : boxes_ok bbox t -> (forall i, In i (leaves t) -> bvalid (bbox (leaf2node i))) ->
    boxes_ok (fun k => btransform T (bbox k)) t.
  Proof.
    induction t as [i|k l IHl r IHr]; simpl; intros Hb Hv; [trivial|].
    destruct Hb as (Hb & Hl & Hr).
    assert (Hvl : forall i, In i (leaves l) -> bvalid (bbox (leaf2node i))) by (intros i Hi; apply Hv, in_or_app; left; assumption).
    assert (Hvr : forall i, In i (leaves r) -> bvalid (bbox (leaf2node i))) by (intros i Hi; apply Hv, in_or_app; right; assumption).
    repeat split; [|apply IHl; assumption|apply IHr; assumption].
    rewrite Hb. apply btransform_union; apply node_valid; assumption.
  Qed.
End Tr.

Theorem transform_keeps_certificate children bbox n T :
  (forall i, 0 <= i < n -> bvalid (bbox (leaf2node i))) ->
  wf_check children bbox n = true ->
  wf_check children (fun k => btransform T (bbox k)) n = true.
Proof.
  intros Hv. unfold wf_check. destruct (tree_of children (Z.to_nat (2 * n)) kRoot) as [t|]; [|discriminate].
  rewrite !andb_true_iff. intros ((((Hnd & Hd) & Hlv) & Hb) & Hs).
  repeat split; try assumption.
  apply boxes_okb_complete, transform_boxes_ok; [apply boxes_okb_sound; assumption|].
  intros i Hi. apply Hv. apply list_eqb_eq in Hlv. rewrite Hlv, in_zseq in Hi. lia.
Qed.
