(* Exactness of QueryTwoDTree on the tree built by BuildTwoDTree. *)
From Coq Require Import ZArith List Bool Lia Permutation Sorting.Sorted Sorting.Mergesort RelationClasses Arith.
From MV Require Import Bvh.Sweep2Defs.
Import ListNotations.
Local Open Scope Z_scope.

Definition coord (level : nat) (p : pt) : Z := if Nat.even level then px p else py p.

Definition within (c : orect) (p : pt) : Prop :=
  le_opt_lo (ominx c) (px p) = true /\ le_opt_lo (ominy c) (py p) = true /\
  le_opt_hi (px p) (omaxx c) = true /\ le_opt_hi (py p) (omaxy c) = true.

(* tree-orderedness of a view, as far as the query relies on it *)
Fixpoint kd_ok (fuel : nat) (level : nat) (view : list pt) : Prop :=
  match fuel with
  | O => (length view <= 8)%nat
  | S f =>
    if Nat.leb (length view) 8 then True
    else match skipn (Nat.div (length view) 2) view with
         | [] => False
         | m :: rightv =>
           let leftv := firstn (Nat.div (length view) 2) view in
           (forall p, In p leftv -> coord level p <= coord level m) /\
           (forall p, In p rightv -> coord level m <= coord level p) /\
           kd_ok f (S level) leftv /\ kd_ok f (S level) rightv
         end
  end.

Lemma le_opt_lo_false lo v : le_opt_lo lo v = false -> exists a, lo = Some a /\ v < a.
Proof. destruct lo as [a|]; simpl; [|discriminate]. intros H. apply Z.leb_gt in H. eauto. Qed.
Lemma le_opt_hi_false v hi : le_opt_hi v hi = false -> exists a, hi = Some a /\ a < v.
Proof. destruct hi as [a|]; simpl; [|discriminate]. intros H. apply Z.leb_gt in H. eauto. Qed.

(* a sub-rectangle that does not overlap r contains no point of r *)
Lemma no_overlap_no_point c r p : ooverlap c r = false -> within c p -> contains r p = false.
Proof.
  unfold ooverlap, within, contains. intros Ho (H1 & H2 & H3 & H4).
  rewrite !andb_false_iff in Ho.
  destruct Ho as [[[Ho|Ho]|Ho]|Ho].
  - apply le_opt_lo_false in Ho. destruct Ho as (a & E & Hlt). rewrite E in H1. simpl in H1. apply Z.leb_le in H1.
    rewrite !andb_false_iff. left. right. apply Z.leb_gt. lia.
  - apply le_opt_lo_false in Ho. destruct Ho as (a & E & Hlt). rewrite E in H2. simpl in H2. apply Z.leb_le in H2.
    rewrite !andb_false_iff. right. apply Z.leb_gt. lia.
  - apply le_opt_hi_false in Ho. destruct Ho as (a & E & Hlt). rewrite E in H3. simpl in H3. apply Z.leb_le in H3.
    rewrite !andb_false_iff. left. left. left. apply Z.leb_gt. lia.
  - apply le_opt_hi_false in Ho. destruct Ho as (a & E & Hlt). rewrite E in H4. simpl in H4. apply Z.leb_le in H4.
    rewrite !andb_false_iff. left. left. right. apply Z.leb_gt. lia.
Qed.

Lemma filter_none {A} (f : A -> bool) l : (forall x, In x l -> f x = false) -> filter f l = [].
Proof.
  induction l as [|a l IH]; intros H; simpl; [reflexivity|].
  rewrite H by (left; reflexivity). apply IH. intros; apply H; right; assumption.
Qed.

Lemma query2d_exact r : forall fuel level cur view,
  (length view <= fuel)%nat -> kd_ok fuel level view -> (forall p, In p view -> within cur p) ->
  query2d fuel level cur r view = filter (contains r) view \/
  Permutation (query2d fuel level cur r view) (filter (contains r) view).
Proof.
  induction fuel as [|f IH]; intros level cur view Hlen Hok Hin.
  { destruct view; simpl in *; [left; reflexivity|lia]. }
  cbn [query2d kd_ok] in *.
  destruct (Nat.leb (length view) 8) eqn:E8; [left; reflexivity|].
  apply Nat.leb_gt in E8.
  set (h := Nat.div (length view) 2) in *.
  assert (Hh : (h < length view)%nat) by (apply Nat.div_lt; lia).
  destruct (skipn h view) as [|m rightv] eqn:Esk; [destruct Hok|].
  destruct Hok as (Hl & Hr & Hokl & Hokr).
  assert (Hview : view = firstn h view ++ m :: rightv) by (rewrite <- Esk; symmetry; apply firstn_skipn).
  set (leftv := firstn h view) in *.
  assert (Hll : (length leftv <= f)%nat) by (unfold leftv; rewrite firstn_length; lia).
  assert (Hlr : (length rightv <= f)%nat).
  { assert (length view = length leftv + S (length rightv))%nat by (rewrite Hview at 1; rewrite app_length; reflexivity). lia. }
  assert (Hinl : forall p, In p leftv -> In p view) by (intros p Hp; rewrite Hview; apply in_or_app; left; assumption).
  assert (Hinr : forall p, In p rightv -> In p view) by (intros p Hp; rewrite Hview; apply in_or_app; right; right; assumption).
  assert (Hm : In m view) by (rewrite Hview; apply in_or_app; right; left; reflexivity).
  right.
  assert (Hgoal : forall left right,
     (forall p, In p leftv -> within left p) -> (forall p, In p rightv -> within right p) ->
     Permutation ((if contains r m then [m] else []) ++
        (if ooverlap left r then query2d f (S level) left r leftv ++ (if ooverlap right r then query2d f (S level) right r rightv else [])
         else query2d f (S level) right r rightv))
       (filter (contains r) view)).
  { intros left right Wl Wr.
    assert (PL : Permutation (query2d f (S level) left r leftv) (filter (contains r) leftv)).
    { destruct (IH (S level) left leftv Hll Hokl Wl) as [->|P]; [apply Permutation_refl|exact P]. }
    assert (PR : Permutation (query2d f (S level) right r rightv) (filter (contains r) rightv)).
    { destruct (IH (S level) right rightv Hlr Hokr Wr) as [->|P]; [apply Permutation_refl|exact P]. }
    rewrite Hview. rewrite filter_app. cbn [filter].
    assert (EL : ooverlap left r = false -> filter (contains r) leftv = []).
    { intros E. apply filter_none. intros p Hp. eapply no_overlap_no_point; eauto. }
    assert (ER : ooverlap right r = false -> filter (contains r) rightv = []).
    { intros E. apply filter_none. intros p Hp. eapply no_overlap_no_point; eauto. }
    destruct (ooverlap left r) eqn:Eol.
    - destruct (ooverlap right r) eqn:Eor.
      + rewrite PL, PR. destruct (contains r m); cbn [app].
        * apply Permutation_middle.
        * apply Permutation_refl.
      + rewrite (ER eq_refl), PL. rewrite !app_nil_r. destruct (contains r m); cbn [app].
        * apply Permutation_cons_append.
        * rewrite app_nil_r. apply Permutation_refl.
    - rewrite (EL eq_refl), PR. cbn [app]. destruct (contains r m); apply Permutation_refl. }
  destruct (Nat.even level) eqn:Ev.
  - apply Hgoal.
    + intros p Hp. specialize (Hl p Hp). unfold coord in Hl. rewrite Ev in Hl.
      destruct (Hin p (Hinl p Hp)) as (W1 & W2 & W3 & W4). unfold within; simpl. repeat split; try assumption. apply Z.leb_le. lia.
    + intros p Hp. specialize (Hr p Hp). unfold coord in Hr. rewrite Ev in Hr.
      destruct (Hin p (Hinr p Hp)) as (W1 & W2 & W3 & W4). unfold within; simpl. repeat split; try assumption. apply Z.leb_le. lia.
  - apply Hgoal.
    + intros p Hp. specialize (Hl p Hp). unfold coord in Hl. rewrite Ev in Hl.
      destruct (Hin p (Hinl p Hp)) as (W1 & W2 & W3 & W4). unfold within; simpl. repeat split; try assumption. apply Z.leb_le. lia.
    + intros p Hp. specialize (Hr p Hp). unfold coord in Hr. rewrite Ev in Hr.
      destruct (Hin p (Hinr p Hp)) as (W1 & W2 & W3 & W4). unfold within; simpl. repeat split; try assumption. apply Z.leb_le. lia.
Qed.

(* ---------- the build produces an ordered tree ---------- *)
Definition sort_by (sortX : bool) (l : list pt) : list pt := if sortX then ssort px l else ssort py l.
Definition key (sortX : bool) (p : pt) : Z := if sortX then px p else py p.

Lemma sinsert_perm k x l : Permutation (x :: l) (sinsert k x l).
Proof.
  induction l as [|y r IH]; simpl; [apply Permutation_refl|].
  destruct (k x <=? k y); [apply Permutation_refl|].
  eapply Permutation_trans; [apply perm_swap|]. constructor. exact IH.
Qed.
Lemma ssort_perm k l : Permutation l (ssort k l).
Proof.
  induction l as [|x l IH]; simpl; [constructor|].
  eapply Permutation_trans; [|apply sinsert_perm]. constructor. exact IH.
Qed.
Lemma sinsert_sorted k x l :
  StronglySorted (fun a b => k a <= k b) l -> StronglySorted (fun a b => k a <= k b) (sinsert k x l).
Proof.
  induction l as [|y r IH]; intros H; simpl.
  - constructor; constructor.
  - inversion H as [|? ? Hr Hy]; subst.
    destruct (Z.leb_spec (k x) (k y)) as [Hle|Hgt].
    + constructor; [exact H|]. constructor; [exact Hle|].
      rewrite Forall_forall in *. intros z Hz. specialize (Hy z Hz). lia.
    + constructor; [apply IH; exact Hr|].
      rewrite Forall_forall in *. intros z Hz.
      apply (Permutation_in _ (Permutation_sym (sinsert_perm k x r))) in Hz.
      destruct Hz as [<-|Hz]; [lia|apply Hy; exact Hz].
Qed.
Lemma ssort_sorted k l : StronglySorted (fun a b => k a <= k b) (ssort k l).
Proof. induction l as [|x l IH]; simpl; [constructor|apply sinsert_sorted; exact IH]. Qed.

Lemma sort_by_perm sx l : Permutation l (sort_by sx l).
Proof. destruct sx; apply ssort_perm. Qed.

Lemma sort_by_sorted sx l : StronglySorted (fun a b => key sx a <= key sx b) (sort_by sx l).
Proof. destruct sx; apply ssort_sorted. Qed.

Lemma sorted_split (R : pt -> pt -> Prop) : forall l1 m l2,
  StronglySorted R (l1 ++ m :: l2) -> (forall p, In p l1 -> R p m) /\ (forall p, In p l2 -> R m p).
Proof.
  induction l1 as [|a l1 IH]; intros m l2 H; simpl in H.
  - inversion H; subst. split; [intros p []|]. rewrite Forall_forall in H3. exact H3.
  - inversion H; subst. destruct (IH m l2 H2) as [A B]. split; [|exact B].
    intros p [->|Hp]; [|apply A; exact Hp]. rewrite Forall_forall in H3. apply H3. apply in_or_app. right. left. reflexivity.
Qed.

Lemma build2d_perm : forall fuel sx l, Permutation l (build2d fuel sx l).
Proof.
  induction fuel as [|f IH]; intros sx l; cbn [build2d]; [apply Permutation_refl|].
  fold (sort_by sx l). set (s := sort_by sx l).
  assert (Ps : Permutation l s) by apply sort_by_perm.
  destruct (Nat.ltb (length s) 2); [exact Ps|].
  set (h := Nat.div (length s) 2).
  rewrite Ps. rewrite <- (firstn_skipn h s) at 1.
  apply Permutation_app; [apply IH|].
  destruct (skipn h s) as [|m r]; [constructor|]. constructor. apply IH.
Qed.

Lemma build2d_length fuel sx l : length (build2d fuel sx l) = length l.
Proof. symmetry. apply Permutation_length. apply build2d_perm. Qed.

Lemma build2d_ok : forall fuel level sx l,
  (length l <= fuel)%nat -> sx = Nat.even level ->
  kd_ok fuel level (build2d fuel sx l).
Proof.
  induction fuel as [|f IH]; intros level sx l Hlen Hsx.
  { simpl. lia. }
  cbn [kd_ok]. rewrite build2d_length.
  destruct (Nat.leb (length l) 8) eqn:E8; [trivial|]. apply Nat.leb_gt in E8.
  cbn [build2d]. fold (sort_by sx l). set (s := sort_by sx l).
  assert (Ps : Permutation l s) by apply sort_by_perm.
  assert (Ls : length s = length l) by (symmetry; apply Permutation_length; exact Ps).
  destruct (Nat.ltb (length s) 2) eqn:E2; [apply Nat.ltb_lt in E2; lia|].
  rewrite <- Ls. set (h := Nat.div (length s) 2).
  assert (Hh : (h < length s)%nat) by (apply Nat.div_lt; lia).
  destruct (skipn h s) as [|m r] eqn:Esk.
  { exfalso. assert (length (skipn h s) = length s - h)%nat by apply skipn_length. rewrite Esk in H. simpl in H. lia. }
  assert (Hs : s = firstn h s ++ m :: r) by (rewrite <- Esk; symmetry; apply firstn_skipn).
  assert (Lf : length (firstn h s) = h) by (rewrite firstn_length; lia).
  set (bl := build2d f (negb sx) (firstn h s)). set (br := build2d f (negb sx) r).
  assert (Lbl : length bl = h) by (unfold bl; rewrite build2d_length; exact Lf).
  rewrite skipn_app, Lbl, Nat.sub_diag. rewrite skipn_all2 by lia. cbn [skipn app].
  rewrite firstn_app, Lbl, Nat.sub_diag. rewrite firstn_all2 by lia. cbn [firstn]. rewrite app_nil_r.
  pose proof (sort_by_sorted sx l) as Hsorted. fold s in Hsorted. rewrite Hs in Hsorted.
  destruct (sorted_split _ _ _ _ Hsorted) as [A B].
  assert (Hkey : forall p, key sx p = coord level p) by (intros p; unfold key, coord; rewrite Hsx; reflexivity).
  assert (Lr : (length r <= f)%nat).
  { assert (length s = h + S (length r))%nat by (rewrite Hs at 1; rewrite app_length, Lf; reflexivity). lia. }
  repeat split.
  - intros p Hp. rewrite <- !Hkey. apply A. eapply Permutation_in; [apply Permutation_sym, build2d_perm|exact Hp].
  - intros p Hp. rewrite <- !Hkey. apply B. eapply Permutation_in; [apply Permutation_sym, build2d_perm|exact Hp].
  - apply IH; [rewrite Lf; lia|]. rewrite Hsx, Nat.even_succ, <- Nat.negb_even. reflexivity.
  - apply IH; [lia|]. rewrite Hsx, Nat.even_succ, <- Nat.negb_even. reflexivity.
Qed.

Theorem kd_query_exact_perm (points : list pt) (r : rect) :
  Permutation points (build_two_d_tree points) /\
  Permutation (query_two_d_tree (build_two_d_tree points) r) (filter (contains r) (build_two_d_tree points)).
Proof.
  unfold build_two_d_tree, query_two_d_tree.
  destruct (Nat.leb (length points) 8) eqn:E8.
  - split; [apply Permutation_refl|]. rewrite E8. apply Permutation_refl.
  - rewrite build2d_length, E8. split; [apply build2d_perm|].
    destruct (query2d_exact r (S (length points)) 0 ofull (build2d (S (length points)) true points)) as [->|P].
    + rewrite build2d_length. lia.
    + apply build2d_ok; [lia|reflexivity].
    + intros p _. unfold within, ofull; simpl. auto.
    + apply Permutation_refl.
    + exact P.
Qed.

Corollary kd_query_exact (points : list pt) (r : rect) (p : pt) :
  In p (query_two_d_tree (build_two_d_tree points) r) <-> In p points /\ contains r p = true.
Proof.
  destruct (kd_query_exact_perm points r) as [P1 P2].
  rewrite (Permutation_in' (eq_refl p) P2), filter_In, <- (Permutation_in' (eq_refl p) P1). reflexivity.
Qed.
