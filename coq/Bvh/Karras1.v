(* Karras radix tree, part 1: the common-prefix function of CreateRadixTree.
   For sorted codes, prefix_length i j is the number of leading bits shared by
   the 64-bit keys  key i = code i * 2^32 + i  (strictly increasing in i).
   Everything later only uses the five facts pl_out, pl_bounds, pl_sym, pl_min
   and pl_neq proved here. *)
From Coq Require Import ZArith List Bool Lia.
From MV Require Import Bvh.BvhDefs.
Local Open Scope Z_scope.

(* log2 of a xor, as equality of floor quotients *)
Lemma log2_lxor_lt x y k : 0 <= x -> 0 <= y -> x <> y -> 0 <= k ->
  (Z.log2 (Z.lxor x y) < k <-> x / 2 ^ k = y / 2 ^ k).
Proof.
  intros Hx Hy Hne Hk.
  assert (Hnn : 0 <= Z.lxor x y) by (apply Z.lxor_nonneg; tauto).
  assert (Hnz : Z.lxor x y <> 0) by (rewrite Z.lxor_eq_0_iff; exact Hne).
  rewrite <- !Z.shiftr_div_pow2 by exact Hk.
  rewrite <- Z.lxor_eq_0_iff, <- Z.shiftr_lxor, Z.shiftr_eq_0_iff. lia.
Qed.

Lemma pow2_pos k : 0 <= k -> 0 < 2 ^ k.
Proof. intros Hk. apply Z.pow_pos_nonneg; lia. Qed.

Section Keys.
  Variable n : Z.
  Variable code : Z -> Z.
  Hypothesis Hn : n <= 1073741824.                                        (* 2^30 *)
  Hypothesis Hcode : forall i, 0 <= i < n -> 0 <= code i < 4294967296.    (* 2^32 *)
  Hypothesis Hsorted : forall i j, 0 <= i -> i <= j -> j < n -> code i <= code j.

  Definition key (i : Z) : Z := code i * 4294967296 + i.
  Notation D := (prefix_length n code).

  Lemma key_mono i j : 0 <= i -> i < j -> j < n -> key i < key j.
  Proof.
    intros Hi Hij Hj. unfold key.
    pose proof (Hsorted i j ltac:(lia) ltac:(lia) ltac:(lia)) as Hs. lia.
  Qed.

  Lemma key_nonneg i : 0 <= i < n -> 0 <= key i.
  Proof. intros Hi. unfold key. pose proof (Hcode i Hi). lia. Qed.

  Lemma key_div_lo i k : 0 <= k <= 32 -> key i / 2 ^ k = code i * 2 ^ (32 - k) + i / 2 ^ k.
  Proof.
    intros Hk. unfold key.
    replace 4294967296 with (2 ^ (32 - k) * 2 ^ k).
    - rewrite Z.mul_assoc, Z.div_add_l by (apply Z.pow_nonzero; lia). reflexivity.
    - rewrite <- Z.pow_add_r by lia. replace (32 - k + k) with 32 by lia. reflexivity.
  Qed.

  Lemma key_div_hi i k : 0 <= i < n -> 32 <= k -> key i / 2 ^ k = code i / 2 ^ (k - 32).
  Proof.
    intros Hi Hk.
    replace k with (32 + (k - 32)) at 1 by lia.
    rewrite Z.pow_add_r by lia.
    rewrite <- Z.div_div by (try apply pow2_pos; try apply Z.pow_nonzero; lia).
    f_equal. unfold key. change (2 ^ 32) with 4294967296.
    rewrite Z.div_add_l by lia. rewrite Z.div_small by lia. lia.
  Qed.

  (* the workhorse: d leading bits are shared iff the quotients by 2^(64-d) agree *)
  Lemma pl_ge_iff i j d : 0 <= i < n -> 0 <= j < n -> i <> j -> 0 <= d <= 64 ->
    (D i j >= d <-> key i / 2 ^ (64 - d) = key j / 2 ^ (64 - d)).
  Proof.
    intros Hi Hj Hne Hd. unfold prefix_length, clz32.
    destruct (Z.ltb_spec j 0) as [Hj0|Hj0]; [lia|].
    destruct (Z.geb_spec j n) as [Hjn|Hjn]; [lia|]. cbn [orb].
    pose proof (Hcode i Hi) as Hci. pose proof (Hcode j Hj) as Hcj.
    destruct (Z.eqb_spec (code i) (code j)) as [Hc|Hc].
    - (* equal codes: the indices decide *)
      pose proof (log2_lxor_lt i j (64 - d) ltac:(lia) ltac:(lia) Hne ltac:(lia)) as Hx.
      destruct (Z.le_gt_cases (64 - d) 32) as [Hk|Hk].
      + rewrite !key_div_lo by lia. rewrite Hc. lia.
      + rewrite !key_div_hi by lia. rewrite Hc.
        assert (Hp : 4294967296 < 2 ^ (64 - d)).
        { change 4294967296 with (2 ^ 32). apply Z.pow_lt_mono_r; lia. }
        rewrite !Z.div_small in Hx by lia. lia.
    - (* different codes *)
      pose proof (Z.log2_nonneg (Z.lxor (code i) (code j))) as Hl.
      destruct (Z.le_gt_cases d 32) as [Hk|Hk].
      + pose proof (log2_lxor_lt (code i) (code j) (32 - d) ltac:(lia) ltac:(lia) Hc ltac:(lia)) as Hx.
        rewrite !key_div_hi by lia. replace (64 - d - 32) with (32 - d) by lia. lia.
      + rewrite !key_div_lo by lia.
        set (M := 2 ^ (32 - (64 - d))).
        assert (HM : 0 < M) by (apply pow2_pos; lia).
        assert (Hr : forall x, 0 <= x < n -> 0 <= x / 2 ^ (64 - d) < M).
        { intros x Hx. split.
          - apply Z.div_pos; [lia|apply pow2_pos; lia].
          - apply Z.div_lt_upper_bound; [apply pow2_pos; lia|].
            unfold M. rewrite <- Z.pow_add_r by lia.
            replace (64 - d + (32 - (64 - d))) with 32 by lia. change (2 ^ 32) with 4294967296. lia. }
        pose proof (Hr i Hi) as Hri. pose proof (Hr j Hj) as Hrj.
        split; [lia|]. intros He. exfalso.
        destruct (Z.lt_ge_cases (code i) (code j)) as [Hlt|Hge].
        * assert ((code i + 1) * M <= code j * M) by (apply Z.mul_le_mono_nonneg_r; lia). lia.
        * assert ((code j + 1) * M <= code i * M) by (apply Z.mul_le_mono_nonneg_r; lia). lia.
  Qed.

  (* ---------- the five facts ---------- *)
  Lemma pl_out i j : j < 0 \/ n <= j -> D i j = -1.
  Proof.
    intros Hj. unfold prefix_length.
    destruct (Z.ltb_spec j 0); destruct (Z.geb_spec j n); cbn [orb]; try reflexivity; lia.
  Qed.

  Lemma pl_bounds i j : 0 <= i < n -> 0 <= j < n -> i <> j -> 0 <= D i j <= 63.
  Proof.
    intros Hi Hj Hne.
    pose proof (pl_ge_iff i j 0 Hi Hj Hne ltac:(lia)) as H0.
    pose proof (pl_ge_iff i j 64 Hi Hj Hne ltac:(lia)) as H64.
    change (2 ^ (64 - 64)) with 1 in H64. rewrite !Z.div_1_r in H64.
    pose proof (key_nonneg i Hi) as Ki. pose proof (key_nonneg j Hj) as Kj.
    pose proof (Hcode i Hi) as Hci. pose proof (Hcode j Hj) as Hcj.
    assert (Hb : forall x, 0 <= x < n -> key x / 2 ^ (64 - 0) = 0).
    { intros x Hx. apply Z.div_small. pose proof (Hcode x Hx). unfold key.
      change (2 ^ (64 - 0)) with 18446744073709551616. lia. }
    rewrite (Hb i Hi), (Hb j Hj) in H0.
    assert (key i <> key j).
    { destruct (Z.lt_ge_cases i j); [pose proof (key_mono i j); lia|pose proof (key_mono j i); lia]. }
    lia.
  Qed.

  Lemma pl_sym i j : 0 <= i < n -> 0 <= j < n -> D i j = D j i.
  Proof.
    intros Hi Hj. destruct (Z.eq_dec i j) as [->|Hne]; [reflexivity|].
    pose proof (pl_bounds i j Hi Hj Hne) as B1.
    pose proof (pl_bounds j i Hj Hi ltac:(lia)) as B2.
    pose proof (pl_ge_iff i j (D i j) Hi Hj Hne ltac:(lia)) as H1.
    pose proof (pl_ge_iff j i (D i j) Hj Hi ltac:(lia) ltac:(lia)) as H1'.
    pose proof (pl_ge_iff j i (D j i) Hj Hi ltac:(lia) ltac:(lia)) as H2.
    pose proof (pl_ge_iff i j (D j i) Hi Hj Hne ltac:(lia)) as H2'.
    assert (D j i >= D i j) by (apply H1'; symmetry; apply H1; lia).
    assert (D i j >= D j i) by (apply H2'; symmetry; apply H2; lia).
    lia.
  Qed.

  Lemma quot_mono i j k : 0 <= i -> i <= j -> j < n -> 0 <= k -> key i / 2 ^ k <= key j / 2 ^ k.
  Proof.
    intros Hi Hij Hj Hk. apply Z.div_le_mono; [apply pow2_pos; lia|].
    destruct (Z.eq_dec i j) as [->|]; [lia|]. pose proof (key_mono i j). lia.
  Qed.

  Lemma pl_ge_split i j l d : 0 <= i -> i < j -> j < l -> l < n -> 0 <= d <= 64 ->
    (D i l >= d <-> D i j >= d /\ D j l >= d).
  Proof.
    intros Hi Hij Hjl Hl Hd.
    rewrite (pl_ge_iff i l d), (pl_ge_iff i j d), (pl_ge_iff j l d) by lia.
    pose proof (quot_mono i j (64 - d)). pose proof (quot_mono j l (64 - d)). lia.
  Qed.

  Lemma pl_min i j l : 0 <= i -> i < j -> j < l -> l < n -> D i l = Z.min (D i j) (D j l).
  Proof.
    intros Hi Hij Hjl Hl.
    pose proof (pl_bounds i l ltac:(lia) ltac:(lia) ltac:(lia)) as B1.
    pose proof (pl_bounds i j ltac:(lia) ltac:(lia) ltac:(lia)) as B2.
    pose proof (pl_bounds j l ltac:(lia) ltac:(lia) ltac:(lia)) as B3.
    pose proof (pl_ge_split i j l (D i l) Hi Hij Hjl Hl ltac:(lia)) as H1.
    pose proof (pl_ge_split i j l (Z.min (D i j) (D j l)) Hi Hij Hjl Hl ltac:(lia)) as H2.
    lia.
  Qed.

  (* two consecutive gaps never have the same common prefix *)
  Lemma pl_neq i j l : 0 <= i -> i < j -> j < l -> l < n -> D i j <> D j l.
  Proof.
    intros Hi Hij Hjl Hl He.
    pose proof (pl_bounds i j ltac:(lia) ltac:(lia) ltac:(lia)) as B2.
    set (e := D i j) in *.
    pose proof (pl_ge_iff i j e ltac:(lia) ltac:(lia) ltac:(lia) ltac:(lia)) as A1.
    pose proof (pl_ge_iff j l e ltac:(lia) ltac:(lia) ltac:(lia) ltac:(lia)) as A2.
    pose proof (pl_ge_iff i j (e + 1) ltac:(lia) ltac:(lia) ltac:(lia) ltac:(lia)) as A3.
    pose proof (pl_ge_iff j l (e + 1) ltac:(lia) ltac:(lia) ltac:(lia) ltac:(lia)) as A4.
    fold e in A1, A3. rewrite <- He in A2, A4.
    pose proof (quot_mono i j (64 - (e + 1)) ltac:(lia) ltac:(lia) ltac:(lia) ltac:(lia)) as M1.
    pose proof (quot_mono j l (64 - (e + 1)) ltac:(lia) ltac:(lia) ltac:(lia) ltac:(lia)) as M2.
    assert (Hh : forall x, key x / 2 ^ (64 - e) = key x / 2 ^ (64 - (e + 1)) / 2).
    { intros x. rewrite Z.div_div by (try apply Z.pow_nonzero; lia).
      f_equal. replace (64 - e) with (Z.succ (64 - (e + 1))) by lia.
      rewrite Z.pow_succ_r by lia. lia. }
    rewrite !Hh in A1, A2.
    set (a := key i / 2 ^ (64 - (e + 1))) in *.
    set (b := key j / 2 ^ (64 - (e + 1))) in *.
    set (c := key l / 2 ^ (64 - (e + 1))) in *.
    pose proof (Z.div_mod a 2 ltac:(lia)). pose proof (Z.mod_pos_bound a 2 ltac:(lia)).
    pose proof (Z.div_mod b 2 ltac:(lia)). pose proof (Z.mod_pos_bound b 2 ltac:(lia)).
    pose proof (Z.div_mod c 2 ltac:(lia)). pose proof (Z.mod_pos_bound c 2 ltac:(lia)).
    lia.
  Qed.
End Keys.
