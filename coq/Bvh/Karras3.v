(* Karras radix tree, part 3: for ALL sorted code arrays the ported
   CreateRadixTree (build_tree) yields children arrays that describe a binary
   tree over leaves 0..n-1 in order, of depth at most 64.

   Range invariants (D = prefix_length, -1 outside the array):
     InvR f l : node f owns [f,l]   D l (l+1) <= D f (f-1) <  D f l
     InvL f l : node l owns [f,l]   D f (f-1) <= D l (l+1) <  D f l
   The root [0,n-1] satisfies InvR; a node that splits at G hands [f,G] to
   node G (InvL) and [G+1,l] to node G+1 (InvR). *)
From Coq Require Import ZArith List Bool Lia.
From MV Require Import Bvh.BvhDefs Bvh.BvhModel Bvh.BvhSmall Bvh.Karras1 Bvh.Karras2.
Import ListNotations.
Local Open Scope Z_scope.

(* ---------- generic facts about trees and zseq ---------- *)
Lemma zseq_app p : forall q i, zseq p i ++ zseq q (i + Z.of_nat p) = zseq (p + q) i.
Proof.
  induction p as [|p IH]; intros q i.
  - cbn [zseq app Nat.add]. f_equal. lia.
  - cbn [zseq app Nat.add]. f_equal. rewrite <- IH. f_equal. f_equal. lia.
Qed.

Lemma zseq_length p : forall i, length (zseq p i) = p.
Proof. induction p as [|p IH]; intros i; cbn [zseq length]; [reflexivity|rewrite IH; reflexivity]. Qed.

Lemma depth_lt_leaves t : (depth t < length (leaves t))%nat.
Proof.
  induction t as [i|k l IHl r IHr]; cbn [depth leaves length]; [lia|].
  rewrite app_length. lia.
Qed.

Lemma repr_tree_of children t : forall fuel, repr children t -> (depth t < fuel)%nat ->
  tree_of children fuel (node_of t) = Some t.
Proof.
  induction t as [i|k l IHl r IHr]; intros fuel Hr Hf; (destruct fuel as [|fuel]; [lia|]);
    cbn [tree_of node_of].
  - cbn [repr] in Hr.
    destruct (Z.ltb_spec (leaf2node i) 0) as [H|H]; [unfold leaf2node in H; lia|].
    rewrite is_leaf_leaf, node2leaf_leaf. reflexivity.
  - cbn [repr] in Hr. destruct Hr as (Hk & Hc & Hrl & Hrr). cbn [depth] in Hf.
    destruct (Z.ltb_spec (internal2node k) 0) as [H|H]; [unfold internal2node in H; lia|].
    rewrite is_leaf_internal, node2internal_internal, Hc.
    rewrite IHl by (try assumption; lia). rewrite IHr by (try assumption; lia). reflexivity.
Qed.

Lemma max_prefix (P : Z -> bool) lo : forall m : nat,
  exists G, lo <= G <= lo + Z.of_nat m /\ (forall s, lo < s <= G -> P s = true) /\
            (G < lo + Z.of_nat m -> P (G + 1) = false).
Proof.
  induction m as [|m IH].
  - exists lo. repeat split; intros; lia.
  - destruct IH as (G & HG & Hy & Hn).
    destruct (Z.lt_ge_cases G (lo + Z.of_nat m)) as [Hlt|Hge].
    + exists G. repeat split; try lia; auto.
    + destruct (P (G + 1)) eqn:E.
      * exists (G + 1). repeat split; try lia.
        intros s Hs. destruct (Z.eq_dec s (G + 1)) as [->|]; [exact E|apply Hy; lia].
      * exists G. repeat split; try lia; auto.
Qed.

Section Tree.
  Variables a b n : Z.
  Variable code : Z -> Z.
  Hypothesis Ha : 0 <= a <= 64.
  Hypothesis Hb : 1 <= b <= 32.
  Hypothesis Hn : n < 1073741824.
  Hypothesis Hcode : forall i, 0 <= i < n -> 0 <= code i < 4294967296.
  Hypothesis Hsorted : forall i j, 0 <= i -> i <= j -> j < n -> code i <= code j.

  Notation D := (prefix_length n code).
  Notation bnode := (build_node (2 ^ a) (2 ^ b) n code).

  Lemma Hn' : n <= 1073741824. Proof. lia. Qed.
  Definition Dout := pl_out n code.
  Definition Dbounds := pl_bounds n code Hn' Hcode Hsorted.
  Definition Dsym := pl_sym n code Hn' Hcode Hsorted.
  Definition Dmin := pl_min n code Hn' Hcode Hsorted.
  Definition Dneq := pl_neq n code Hn' Hcode Hsorted.

  Lemma D_ge_m1 i j : 0 <= i < n -> i <> j -> -1 <= D i j.
  Proof.
    intros Hi Hne. destruct (Z.lt_ge_cases j 0) as [H|H]; [rewrite Dout by lia; lia|].
    destruct (Z.lt_ge_cases j n) as [H'|H']; [|rewrite Dout by lia; lia].
    pose proof (Dbounds i j ltac:(lia) ltac:(lia) Hne). lia.
  Qed.

  Lemma D_mono_r f s l : 0 <= f -> f < s -> s <= l -> l < n -> D f l <= D f s.
  Proof.
    intros H0 H1 H2 H3. destruct (Z.eq_dec s l) as [->|]; [lia|].
    pose proof (Dmin f s l ltac:(lia) ltac:(lia) ltac:(lia) ltac:(lia)). lia.
  Qed.

  Lemma D_mono_l f s l : 0 <= f -> f <= s -> s < l -> l < n -> D f l <= D s l.
  Proof.
    intros H0 H1 H2 H3. destruct (Z.eq_dec f s) as [->|]; [lia|].
    pose proof (Dmin f s l ltac:(lia) ltac:(lia) ltac:(lia) ltac:(lia)). lia.
  Qed.

  (* looking beyond the right end never beats the gap at the right end *)
  Lemma D_ext_r f l k : 0 <= f -> f < l -> l < n -> l < k -> D f k <= D l (l + 1).
  Proof.
    intros H0 H1 H2 H3.
    pose proof (D_ge_m1 l (l + 1) ltac:(lia) ltac:(lia)) as Hm.
    destruct (Z.lt_ge_cases k n) as [Hk|Hk]; [|rewrite (Dout f k) by lia; lia].
    pose proof (D_mono_r f (l + 1) k ltac:(lia) ltac:(lia) ltac:(lia) ltac:(lia)).
    pose proof (Dmin f l (l + 1) ltac:(lia) ltac:(lia) ltac:(lia) ltac:(lia)). lia.
  Qed.

  Lemma D_ext_l f l k : 0 <= f -> f < l -> l < n -> k < f -> D l k <= D f (f - 1).
  Proof.
    intros H0 H1 H2 H3.
    pose proof (D_ge_m1 f (f - 1) ltac:(lia) ltac:(lia)) as Hm.
    destruct (Z.lt_ge_cases k 0) as [Hk|Hk]; [rewrite (Dout l k) by lia; lia|].
    rewrite (Dsym l k) by lia.
    pose proof (D_mono_l k (f - 1) l ltac:(lia) ltac:(lia) ltac:(lia) ltac:(lia)).
    pose proof (Dmin (f - 1) f l ltac:(lia) ltac:(lia) ltac:(lia) ltac:(lia)).
    rewrite (Dsym f (f - 1)) by lia. lia.
  Qed.

  Definition InvR (f l : Z) : Prop :=
    0 <= f /\ f < l /\ l < n /\ D l (l + 1) <= D f (f - 1) /\ D f (f - 1) < D f l.
  Definition InvL (f l : Z) : Prop :=
    0 <= f /\ f < l /\ l + 1 < n /\ D f (f - 1) <= D l (l + 1) /\ D l (l + 1) < D f l.

  (* ---------- RangeEnd ---------- *)
  Lemma range_end_R f l : InvR f l -> range_end (2 ^ a) (2 ^ b) n code f = Some l.
  Proof.
    intros (H0 & H1 & H2 & H3 & H4).
    replace (Some l) with (Some (f + 1 * (l - f))) by (f_equal; lia).
    apply range_end_spec; try assumption; try lia.
    - apply Z.sgn_pos.
      pose proof (D_mono_r f (f + 1) l ltac:(lia) ltac:(lia) ltac:(lia) ltac:(lia)). lia.
    - intros k Hk. replace (f + 1 * k) with (f + k) by lia.
      pose proof (D_mono_r f (f + k) l ltac:(lia) ltac:(lia) ltac:(lia) ltac:(lia)). lia.
    - intros k Hk. replace (f + 1 * k) with (f + k) by lia.
      pose proof (D_ext_r f l (f + k) ltac:(lia) ltac:(lia) ltac:(lia) ltac:(lia)). lia.
  Qed.

  Lemma range_end_L f l : InvL f l -> range_end (2 ^ a) (2 ^ b) n code l = Some f.
  Proof.
    intros (H0 & H1 & H2 & H3 & H4).
    replace (Some f) with (Some (l + -1 * (l - f))) by (f_equal; lia).
    apply range_end_spec; try assumption; try lia.
    - apply Z.sgn_neg. rewrite (Dsym l (l - 1)) by lia.
      pose proof (D_mono_l f (l - 1) l ltac:(lia) ltac:(lia) ltac:(lia) ltac:(lia)). lia.
    - intros k Hk. replace (l + -1 * k) with (l - k) by lia. replace (l - -1) with (l + 1) by lia.
      rewrite (Dsym l (l - k)) by lia.
      pose proof (D_mono_l f (l - k) l ltac:(lia) ltac:(lia) ltac:(lia) ltac:(lia)). lia.
    - intros k Hk. replace (l + -1 * k) with (l - k) by lia. replace (l - -1) with (l + 1) by lia.
      pose proof (D_ext_l f l (l - k) ltac:(lia) ltac:(lia) ltac:(lia) ltac:(lia)). lia.
  Qed.

  (* ---------- FindSplit ---------- *)
  Lemma split_exists f l : 0 <= f -> f < l -> l < n ->
    exists G, f <= G < l /\ find_split n code f l = Some G /\ D G (G + 1) = D f l /\
              (f < G -> D f l < D f G) /\ (G + 1 < l -> D f l < D (G + 1) l).
  Proof.
    intros H0 H1 H2. set (c := D f l).
    destruct (max_prefix (fun s => D f s >? c) f (Z.to_nat (l - 1 - f))) as (G & HG & Hy & Hno).
    rewrite Z2Nat.id in HG, Hno by lia.
    assert (Hyes : forall s, f < s <= G -> D f s > c).
    { intros s Hs. specialize (Hy s Hs). cbv beta in Hy. rewrite Z.gtb_ltb in Hy.
      apply Z.ltb_lt in Hy. lia. }
    assert (Hno' : G + 1 < l -> D f (G + 1) <= c).
    { intros Hlt. specialize (Hno ltac:(lia)). cbv beta in Hno. rewrite Z.gtb_ltb in Hno.
      apply Z.ltb_ge in Hno. exact Hno. }
    assert (Hfg : D f (G + 1) = c).
    { destruct (Z.eq_dec (G + 1) l) as [->|Hne]; [reflexivity|].
      pose proof (D_mono_r f (G + 1) l ltac:(lia) ltac:(lia) ltac:(lia) ltac:(lia)).
      specialize (Hno' ltac:(lia)). fold c in H. lia. }
    assert (Hgg : D G (G + 1) = c).
    { destruct (Z.eq_dec G f) as [->|Hne]; [exact Hfg|].
      pose proof (Hyes G ltac:(lia)).
      pose proof (Dmin f G (G + 1) ltac:(lia) ltac:(lia) ltac:(lia) ltac:(lia)). lia. }
    exists G. split; [lia|]. split; [|split; [exact Hgg|split]].
    - apply (find_split_spec n code f l c G); [lia|exact Hyes| |lia|reflexivity].
      intros s Hs.
      pose proof (D_mono_r f (G + 1) s ltac:(lia) ltac:(lia) ltac:(lia) ltac:(lia)).
      specialize (Hno' ltac:(lia)). lia.
    - intros Hlt. pose proof (Hyes G ltac:(lia)). lia.
    - intros Hlt.
      pose proof (D_mono_l f (G + 1) l ltac:(lia) ltac:(lia) ltac:(lia) ltac:(lia)) as Hm.
      pose proof (Dneq G (G + 1) l ltac:(lia) ltac:(lia) ltac:(lia) ltac:(lia)) as Hq.
      fold c in Hm. lia.
  Qed.

  (* ---------- one node ---------- *)
  Definition lchild (f G : Z) : Z := if G =? f then leaf2node G else internal2node G.
  Definition rchild (G l : Z) : Z := if G + 1 =? l then leaf2node (G + 1) else internal2node (G + 1).

  Lemma build_node_R f l G : InvR f l -> find_split n code f l = Some G ->
    bnode f = Some (lchild f G, rchild G l).
  Proof.
    intros HI HG. unfold build_node. rewrite (range_end_R f l HI).
    destruct HI as (H0 & H1 & _). rewrite Z.min_l, Z.max_r by lia. rewrite HG. reflexivity.
  Qed.

  Lemma build_node_L f l G : InvL f l -> find_split n code f l = Some G ->
    bnode l = Some (lchild f G, rchild G l).
  Proof.
    intros HI HG. unfold build_node. rewrite (range_end_L f l HI).
    destruct HI as (H0 & H1 & _). rewrite Z.min_r, Z.max_l by lia. rewrite HG. reflexivity.
  Qed.

  (* ---------- the whole tree ---------- *)
  Fixpoint brepr (t : tree) : Prop :=
    match t with
    | Lf i => 0 <= i
    | Nd k l r => 0 <= k < n - 1 /\ bnode k = Some (node_of l, node_of r) /\ brepr l /\ brepr r
    end.

  Definition Inv (r : bool) (f l : Z) : Prop := if r then InvR f l else InvL f l.
  Definition owner (r : bool) (f l : Z) : Z := if r then f else l.
  Definition covers (r : bool) (f l k : Z) : Prop := if r then f <= k < l else f < k <= l.

  Definition good (r : bool) (f l : Z) (t : tree) : Prop :=
    node_of t = (if f =? l then leaf2node f else internal2node (owner r f l)) /\
    brepr t /\
    leaves t = zseq (Z.to_nat (l - f + 1)) f /\
    Z.of_nat (depth t) <= (if f =? l then 0 else 64 - D f l) /\
    (forall k, covers r f l k -> bnode k <> None).

  Lemma build_node_owner r f l G : Inv r f l -> find_split n code f l = Some G ->
    bnode (owner r f l) = Some (lchild f G, rchild G l).
  Proof.
    destruct r; cbn [Inv owner]; [apply build_node_R|apply build_node_L].
  Qed.

  Lemma subtree : forall (m : nat) f l r, (Z.to_nat (l - f) <= m)%nat ->
    0 <= f -> f <= l -> l < n -> (f < l -> Inv r f l) -> exists t, good r f l t.
  Proof.
    induction m as [|m IH]; intros f l r Hm H0 H1 H2 HI.
    - assert (l = f) by lia. subst l. exists (Lf f). unfold good.
      rewrite Z.eqb_refl. cbn [node_of brepr leaves depth].
      replace (f - f + 1) with 1 by lia. cbn [Z.to_nat Pos.to_nat Pos.iter_op zseq].
      repeat split; try lia. intros k Hk. destruct r; cbn [covers] in Hk; lia.
    - destruct (Z.eq_dec f l) as [<-|Hne].
      { apply (IH f f r); try lia. }
      specialize (HI ltac:(lia)).
      destruct (split_exists f l ltac:(lia) ltac:(lia) ltac:(lia)) as (G & HG & Hfs & Hgg & HlG & HGl).
      pose proof (build_node_owner r f l G HI Hfs) as Hbn.
      (* facts shared by both modes *)
      assert (Hc : D f (f - 1) <= D f l /\ D l (l + 1) <= D f l /\ 0 <= D f l <= 63 /\
                   0 <= owner r f l < n - 1).
      { pose proof (Dbounds f l ltac:(lia) ltac:(lia) ltac:(lia)).
        destruct r; cbn [Inv owner] in *; unfold InvR, InvL in HI; lia. }
      destruct Hc as (Hc1 & Hc2 & Hc3 & Hown).
      destruct (IH f G false) as (tl & Nl & Bl & Ll & Dl & Cl); try lia.
      { intros Hlt. cbn [Inv]. unfold InvL.
        assert (l + 1 <= n) by lia. specialize (HlG Hlt). lia. }
      destruct (IH (G + 1) l true) as (tr & Nr & Br & Lr & Dr & Cr); try lia.
      { intros Hlt. cbn [Inv]. unfold InvR. specialize (HGl Hlt).
        replace (G + 1 - 1) with G by lia. rewrite (Dsym (G + 1) G) by lia. lia. }
      cbn [owner] in Nl, Nr.
      exists (Nd (owner r f l) tl tr). unfold good.
      destruct (Z.eqb_spec f l) as [|_]; [lia|].
      split; [reflexivity|]. split; [|split; [|split]].
      + cbn [brepr]. split; [exact Hown|]. split; [|split; assumption].
        rewrite Hbn, Nl, Nr. unfold lchild, rchild. rewrite (Z.eqb_sym G f).
        destruct (Z.eqb_spec f G) as [->|]; reflexivity.
      + cbn [leaves]. rewrite Ll, Lr.
        replace (G + 1) with (f + Z.of_nat (Z.to_nat (G - f + 1))) at 2 by lia.
        rewrite zseq_app. f_equal. lia.
      + cbn [depth]. rewrite Nat2Z.inj_succ, Nat2Z.inj_max.
        destruct (Z.eqb_spec f G) as [|Hfg]; destruct (Z.eqb_spec (G + 1) l) as [|HGl'];
          try specialize (HlG ltac:(lia)); try specialize (HGl ltac:(lia)); lia.
      + intros k Hk.
        destruct (Z.eq_dec k (owner r f l)) as [->|Hko]; [rewrite Hbn; discriminate|].
        destruct (Z.le_gt_cases k G) as [HkG|HkG].
        * apply Cl. destruct r; cbn [covers owner] in *; lia.
        * apply Cr. destruct r; cbn [covers owner] in *; lia.
  Qed.

  (* ---------- the array ---------- *)
  Lemma build_all_spec : forall (m : nat) i,
    (forall k, i <= k < i + Z.of_nat m -> bnode k <> None) ->
    exists ch, build_all (2 ^ a) (2 ^ b) n code m i = Some ch /\ length ch = m /\
      forall k, i <= k < i + Z.of_nat m -> bnode k = Some (nth (Z.to_nat (k - i)) ch (-1, -1)).
  Proof.
    induction m as [|m IH]; intros i Hall.
    - exists []. cbn [build_all length]. repeat split. intros k Hk. lia.
    - destruct (IH (i + 1)) as (ch & Hch & Hlen & Hnth).
      { intros k Hk. apply Hall. lia. }
      cbn [build_all]. destruct (bnode i) as [c|] eqn:Ei; [|exfalso; apply (Hall i); [lia|exact Ei]].
      rewrite Hch. exists (c :: ch). split; [reflexivity|]. split; [cbn [length]; lia|].
      intros k Hk. destruct (Z.eq_dec k i) as [->|Hne].
      + replace (i - i) with 0 by lia. exact Ei.
      + replace (Z.to_nat (k - i)) with (S (Z.to_nat (k - (i + 1)))) by lia.
        cbn [nth]. apply Hnth. lia.
  Qed.

  Lemma brepr_repr ch t :
    (forall k, 0 <= k < n - 1 -> bnode k = Some (nthP ch k)) -> brepr t -> repr (nthP ch) t.
  Proof.
    intros Hch. induction t as [i|k l IHl r IHr]; cbn [brepr repr]; [trivial|].
    intros (Hk & Hbk & Hl & Hr). split; [lia|]. split; [|split; auto].
    rewrite (Hch k Hk) in Hbk. injection Hbk as Hbk. exact Hbk.
  Qed.

  Theorem radix_tree_wf_section : 2 <= n ->
    exists ch, build_tree (2 ^ a) (2 ^ b) n code = Some ch /\ length ch = Z.to_nat (n - 1) /\
      exists t, tree_of (nthP ch) (Z.to_nat (2 * n)) kRoot = Some t /\ is_nd t /\
                leaves t = zseq (Z.to_nat n) 0 /\ (depth t <= 64)%nat.
  Proof.
    intros H2.
    destruct (subtree (Z.to_nat (n - 1)) 0 (n - 1) true) as (t & Nt & Bt & Lt & Dt & Ct); try lia.
    { intros _. cbn [Inv]. unfold InvR.
      pose proof (Dbounds 0 (n - 1) ltac:(lia) ltac:(lia) ltac:(lia)).
      rewrite !Dout by lia. lia. }
    destruct (Z.eqb_spec 0 (n - 1)) as [|_]; [lia|]. cbn [owner] in Nt.
    destruct (build_all_spec (Z.to_nat (n - 1)) 0) as (ch & Hch & Hlen & Hnth).
    { intros k Hk. apply Ct. cbn [covers]. lia. }
    exists ch. split; [exact Hch|]. split; [exact Hlen|].
    exists t.
    replace (n - 1 - 0 + 1) with n in Lt by lia.
    assert (Hd : (depth t < Z.to_nat n)%nat).
    { pose proof (depth_lt_leaves t) as Hdl. rewrite Lt, zseq_length in Hdl. exact Hdl. }
    split; [|split; [|split]].
    - change kRoot with (internal2node 0). rewrite <- Nt.
      apply repr_tree_of; [|lia].
      apply brepr_repr; [|exact Bt].
      intros k Hk. unfold nthP. rewrite (Hnth k ltac:(lia)). repeat f_equal. lia.
    - destruct t; [|exact I]. cbn [node_of] in Nt. unfold leaf2node, internal2node in Nt. lia.
    - exact Lt.
    - pose proof (Dbounds 0 (n - 1) ltac:(lia) ltac:(lia) ltac:(lia)). lia.
  Qed.
End Tree.

(* ---------- closed statements ---------- *)
Theorem radix_tree_wf_pow2 : forall (a b n : Z) (code : Z -> Z),
  0 <= a <= 64 -> 1 <= b <= 32 ->
  2 <= n < 2 ^ 30 ->
  (forall i, 0 <= i < n -> 0 <= code i < 2 ^ 32) ->
  (forall i j, 0 <= i -> i <= j -> j < n -> code i <= code j) ->
  exists ch, build_tree (2 ^ a) (2 ^ b) n code = Some ch /\ length ch = Z.to_nat (n - 1) /\
    exists t, tree_of (nthP ch) (Z.to_nat (2 * n)) kRoot = Some t /\ is_nd t /\
              leaves t = zseq (Z.to_nat n) 0 /\ (depth t <= 64)%nat.
Proof.
  intros a b n code Ha Hb Hn Hcode Hsorted.
  change (2 ^ 30) with 1073741824 in Hn. change (2 ^ 32) with 4294967296 in Hcode.
  apply radix_tree_wf_section; try assumption; lia.
Qed.

Theorem radix_tree_wf : forall (n : Z) (code : Z -> Z),
  2 <= n < 2 ^ 30 ->
  (forall i, 0 <= i < n -> 0 <= code i < 2 ^ 32) ->
  (forall i j, 0 <= i -> i <= j -> j < n -> code i <= code j) ->
  exists ch, build_tree 128 4 n code = Some ch /\ length ch = Z.to_nat (n - 1) /\
    exists t, tree_of (nthP ch) (Z.to_nat (2 * n)) kRoot = Some t /\ is_nd t /\
              leaves t = zseq (Z.to_nat n) 0 /\ (depth t <= 64)%nat.
Proof.
  intros n code Hn Hcode Hsorted.
  change 128 with (2 ^ 7). change 4 with (2 ^ 2) at 1.
  apply radix_tree_wf_pow2; try assumption; lia.
Qed.

Lemma list_eqb_refl l : list_eqb l l = true.
Proof. induction l as [|x l IH]; cbn [list_eqb]; [reflexivity|]. rewrite Z.eqb_refl, IH. reflexivity. Qed.

(* the same, as the shape certificate used by the exhaustive small-case sweep *)
Theorem radix_tree_shape_check : forall (n : Z) (code : Z -> Z),
  2 <= n < 2 ^ 30 ->
  (forall i, 0 <= i < n -> 0 <= code i < 2 ^ 32) ->
  (forall i j, 0 <= i -> i <= j -> j < n -> code i <= code j) ->
  exists ch, build_tree 128 4 n code = Some ch /\ length ch = Z.to_nat (n - 1) /\
             shape_check (nthP ch) n = true.
Proof.
  intros n code Hn Hcode Hsorted.
  destruct (radix_tree_wf n code Hn Hcode Hsorted) as (ch & Hch & Hlen & t & Ht & Hnd & Hl & Hd).
  exists ch. split; [exact Hch|]. split; [exact Hlen|].
  unfold shape_check. rewrite Ht. rewrite Hl, list_eqb_refl.
  destruct t; [destruct Hnd|]. cbn [is_ndb andb].
  apply Nat.leb_le in Hd. rewrite Hd. reflexivity.
Qed.

(* ---------- composition with the certificate theorem of BvhModel ---------- *)
Lemma size_leaves t : (size t + 1 = 2 * length (leaves t))%nat.
Proof.
  induction t as [i|k l IHl r IHr]; cbn [size leaves length]; [reflexivity|].
  rewrite app_length. lia.
Qed.

(* Whatever boxes are stored, if they are the unions of their children along the
   tree CreateRadixTree built, the arrays pass wf_check, so
   wf_check_collisions_exact applies to every sorted input. *)
Theorem radix_tree_wf_check : forall (n : Z) (code : Z -> Z),
  2 <= n < 2 ^ 30 ->
  (forall i, 0 <= i < n -> 0 <= code i < 2 ^ 32) ->
  (forall i j, 0 <= i -> i <= j -> j < n -> code i <= code j) ->
  exists ch t, build_tree 128 4 n code = Some ch /\
    tree_of (nthP ch) (Z.to_nat (2 * n)) kRoot = Some t /\
    forall bbox, boxes_okb bbox t = true -> wf_check (nthP ch) bbox n = true.
Proof.
  intros n code Hn Hcode Hsorted.
  destruct (radix_tree_wf n code Hn Hcode Hsorted) as (ch & Hch & Hlen & t & Ht & Hnd & Hl & Hd).
  exists ch, t. split; [exact Hch|]. split; [exact Ht|].
  intros bbox Hbox. unfold wf_check. rewrite Ht, Hbox, Hl, list_eqb_refl.
  destruct t as [|k l r]; [destruct Hnd|]. cbn [is_ndb andb].
  apply Nat.leb_le in Hd. rewrite Hd. cbn [andb]. apply Nat.leb_le.
  pose proof (size_leaves (Nd k l r)) as Hs. rewrite Hl, zseq_length in Hs. lia.
Qed.
