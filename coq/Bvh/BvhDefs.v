(* Executable Gallina port of src/collider.h (radix tree construction,
   internal boxes, stack traversal) and of Box::DoesOverlap / Box::Union.
   Model only: no proofs here, so the model still runs when a proof breaks.
   Arrays are functions Z -> _ (the OCaml driver backs them with arrays).
   Every C++ behaviour that would be undefined (clz(0), stack overflow, a loop
   that does not stop within its fuel) yields None. *)
From Coq Require Import ZArith List Bool Lia.
Import ListNotations.
Local Open Scope Z_scope.

Record box := mkBox { bminx : Z; bminy : Z; bminz : Z; bmaxx : Z; bmaxy : Z; bmaxz : Z }.

(* Box::DoesOverlap(const Box&): closed intervals *)
Definition overlap (a b : box) : bool :=
  (bminx a <=? bmaxx b) && (bminy a <=? bmaxy b) && (bminz a <=? bmaxz b) &&
  (bmaxx a >=? bminx b) && (bmaxy a >=? bminy b) && (bmaxz a >=? bminz b).

(* Box::DoesOverlap(vec3): projected in z *)
Definition overlap_pt (a : box) (px py : Z) : bool :=
  (px <=? bmaxx a) && (px >=? bminx a) && (py <=? bmaxy a) && (py >=? bminy a).

Definition bunion (a b : box) : box :=
  mkBox (Z.min (bminx a) (bminx b)) (Z.min (bminy a) (bminy b)) (Z.min (bminz a) (bminz b))
        (Z.max (bmaxx a) (bmaxx b)) (Z.max (bmaxy a) (bmaxy b)) (Z.max (bmaxz a) (bmaxz b)).

Definition is_leaf (node : Z) : bool := Z.even node.
Definition is_internal (node : Z) : bool := Z.odd node.
Definition node2internal (node : Z) : Z := (node - 1) / 2.
Definition internal2node (i : Z) : Z := 2 * i + 1.
Definition node2leaf (node : Z) : Z := node / 2.
Definition leaf2node (l : Z) : Z := 2 * l.
Definition kRoot : Z := 1.

Section Radix.
  Variable kInitialLength kLengthMultiple : Z.   (* regenerated from the source: Gen/BvhConsts.v *)
  Variable n : Z.            (* leafMorton_.size() *)
  Variable code : Z -> Z.    (* leafMorton_[i], 0 <= i < n, each in [0, 2^32) *)

  (* __builtin_clz on a non-zero 32-bit word; clz(0) is undefined in C++ *)
  Definition clz32 (x : Z) : Z := 31 - Z.log2 x.

  Definition prefix_length (i j : Z) : Z :=
    if (j <? 0) || (j >=? n) then -1
    else if code i =? code j then 32 + clz32 (Z.lxor i j)
    else clz32 (Z.lxor (code i) (code j)).

  Fixpoint grow (fuel : nat) (i dir cp ml : Z) : option Z :=
    match fuel with
    | O => None
    | S f => if prefix_length i (i + dir * ml) >? cp
             then grow f i dir cp (ml * kLengthMultiple) else Some ml
    end.

  Fixpoint bsearch (fuel : nat) (i dir cp step len : Z) : option Z :=
    match fuel with
    | O => None
    | S f =>
      if step >? 0 then
        let len' := if prefix_length i (i + dir * (len + step)) >? cp then len + step else len in
        bsearch f i dir cp (step / 2) len'
      else Some len
    end.

  Definition range_end (i : Z) : option Z :=
    let d := prefix_length i (i + 1) - prefix_length i (i - 1) in
    let dir := Z.sgn d in
    if dir =? 0 then None (* PrefixLength(i,i): clz(0) *) else
    let cp := prefix_length i (i - dir) in
    match grow 40 i dir cp kInitialLength with
    | None => None
    | Some ml =>
      match bsearch 80 i dir cp (ml / 2) 0 with
      | None => None
      | Some len => Some (i + dir * len)
      end
    end.

  Fixpoint fs_loop (fuel : nat) (first last cp split step : Z) : option Z :=
    match fuel with
    | O => None
    | S f =>
      let step := (step + 1) / 2 in
      let ns := split + step in
      let split := if (ns <? last) && (prefix_length first ns >? cp) then ns else split in
      if step >? 1 then fs_loop f first last cp split step else Some split
    end.

  Definition find_split (first last : Z) : option Z :=
    fs_loop 80 first last (prefix_length first last) first (last - first).

  (* CreateRadixTree::operator()(internal): the two children, as node numbers *)
  Definition build_node (internal : Z) : option (Z * Z) :=
    match range_end internal with
    | None => None
    | Some e =>
      let first := Z.min internal e in
      let last := Z.max internal e in
      match find_split first last with
      | None => None
      | Some split =>
        let c1 := if split =? first then leaf2node split else internal2node split in
        let s2 := split + 1 in
        let c2 := if s2 =? last then leaf2node s2 else internal2node s2 in
        Some (c1, c2)
      end
    end.

  Fixpoint build_all (k : nat) (i : Z) : option (list (Z * Z)) :=
    match k with
    | O => Some []
    | S k' => match build_node i, build_all k' (i + 1) with
              | Some c, Some r => Some (c :: r)
              | _, _ => None
              end
    end.
  (* the whole internalChildren_ array *)
  Definition build_tree : option (list (Z * Z)) := build_all (Z.to_nat (n - 1)) 0.
End Radix.

(* The implicit tree, reconstructed from the arrays (certificate form) *)
Inductive tree := Lf (leaf : Z) | Nd (internal : Z) (l r : tree).

Definition node_of (t : tree) : Z :=
  match t with Lf i => leaf2node i | Nd k _ _ => internal2node k end.

Fixpoint leaves (t : tree) : list Z :=
  match t with Lf i => [i] | Nd _ l r => leaves l ++ leaves r end.

Fixpoint depth (t : tree) : nat :=
  match t with Lf _ => O | Nd _ l r => S (Nat.max (depth l) (depth r)) end.

Fixpoint size (t : tree) : nat :=
  match t with Lf _ => 1%nat | Nd _ l r => S (size l + size r) end.

Section Traverse.
  Variable children : Z -> Z * Z.   (* internalChildren_[internal] *)
  Variable bbox : Z -> box.         (* nodeBBox_[node] *)

  Fixpoint tree_of (fuel : nat) (node : Z) : option tree :=
    match fuel with
    | O => None
    | S f =>
      if node <? 0 then None else
      if is_leaf node then Some (Lf (node2leaf node))
      else let '(c1, c2) := children (node2internal node) in
           match tree_of f c1, tree_of f c2 with
           | Some l, Some r => Some (Nd (node2internal node) l r)
           | _, _ => None
           end
    end.

  (* BuildInternalBoxes, order independent: the box of an internal node *)
  Fixpoint box_of (leafbox : Z -> box) (t : tree) : box :=
    match t with
    | Lf i => leafbox i
    | Nd _ l r => bunion (box_of leafbox l) (box_of leafbox r)
    end.

  Section Query.
    Variable self : bool.                (* selfCollision *)
    Variable ov : box -> bool.           (* box.DoesOverlap(query) for the query at hand *)
    Variable qi : Z.                     (* queryIdx *)

    (* RecordCollision: (should traverse, recorded leaves) *)
    Definition record_collision (node : Z) : bool * list Z :=
      let o := ov (bbox node) in
      (o && is_internal node,
       if o && is_leaf node && negb (self && (node2leaf node =? qi)) then [node2leaf node] else []).

    (* FindCollision::operator(): acc is kept reversed *)
    Fixpoint fc_loop (fuel : nat) (node : Z) (stack : list Z) (acc : list Z) : option (list Z) :=
      match fuel with
      | O => None
      | S f =>
        let '(c1, c2) := children (node2internal node) in
        let '(t1, r1) := record_collision c1 in
        let '(t2, r2) := record_collision c2 in
        let acc := r2 ++ r1 ++ acc in
        if negb t1 && negb t2 then
          match stack with
          | [] => Some (rev acc)
          | s :: st => fc_loop f s st acc
          end
        else
          let node' := if t1 then c1 else c2 in
          if t1 && t2 then
            if (64 <=? Z.of_nat (length stack)) then None (* int stack[64] overflow *)
            else fc_loop f node' (c2 :: stack) acc
          else fc_loop f node' stack acc
      end.

    Definition find_collision (fuel : nat) : option (list Z) := fc_loop fuel kRoot [] [].
  End Query.
End Traverse.

(* SpreadBits3 / MortonCode integer part *)
Definition u32 (x : Z) : Z := x mod 4294967296.
Definition spread_bits3 (v : Z) : Z :=
  let v := Z.land 4278190335 (u32 (v * 65537)) in
  let v := Z.land 251719695 (u32 (v * 257)) in
  let v := Z.land 3272356035 (u32 (v * 17)) in
  let v := Z.land 1227133513 (u32 (v * 5)) in v.
Definition morton_of_cells (x y z : Z) : Z :=
  u32 (spread_bits3 x * 4 + spread_bits3 y * 2 + spread_bits3 z).

(* reference: interleave the 10 bits of x, y, z *)
Fixpoint interleave (k : nat) (x y z : Z) : Z :=
  match k with
  | O => 0
  | S k' => (Z.b2z (Z.testbit x (Z.of_nat k')) * 4 + Z.b2z (Z.testbit y (Z.of_nat k')) * 2
             + Z.b2z (Z.testbit z (Z.of_nat k'))) * 8 ^ (Z.of_nat k') + interleave k' x y z
  end.
