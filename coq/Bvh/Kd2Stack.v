(* QueryTwoDTree's explicit 64-entry stack never overflows and the loop computes
   what the recursive model query2d computes. *)
From Coq Require Import ZArith List Bool Lia Arith.
From MV Require Import Bvh.Sweep2Defs.
Import ListNotations.
Local Open Scope nat_scope.

Lemma skipn_cons_lengths {A} (h : nat) (l : list A) m r :
  skipn h l = m :: r -> length (firstn h l) = h /\ length l = h + S (length r).
Proof.
  intros E. assert (L := skipn_length h l). rewrite E in L. cbn [length] in L.
  split; [apply firstn_length_le; lia | lia].
Qed.

Lemma query2d_fuel r : forall f1 f2 level cur view,
  length view < f1 -> length view < f2 ->
  query2d f1 level cur r view = query2d f2 level cur r view.
Proof.
  induction f1 as [|f1 IH]; intros f2 level cur view H1 H2; [lia|].
  destruct f2 as [|f2]; [lia|].
  cbn [query2d].
  destruct (Nat.leb (length view) 8) eqn:E8; [reflexivity|].
  destruct (skipn (Nat.div (length view) 2) view) as [|m rightv] eqn:Es; [reflexivity|].
  destruct (skipn_cons_lengths _ _ _ _ Es) as [Lf Ll].
  assert (Hl : length (firstn (Nat.div (length view) 2) view) < f1 /\ length (firstn (Nat.div (length view) 2) view) < f2) by lia.
  assert (Hr : length rightv < f1 /\ length rightv < f2) by lia.
  destruct (Nat.even level);
    rewrite !(IH f2 _ _ (firstn (Nat.div (length view) 2) view)) by tauto;
    rewrite !(IH f2 _ _ rightv) by tauto; reflexivity.
Qed.

Definition q2 (r : rect) (fr : kframe) : list pt :=
  let '(c, v, l) := fr in query2d (S (length v)) l c r v.

Fixpoint stack_out (r : rect) (st : list kframe) : list pt :=
  match st with [] => [] | fr :: st' => q2 r fr ++ stack_out r st' end.

Definition wt (v : list pt) : nat := 2 * length v + 1.
Fixpoint wts (st : list kframe) : nat :=
  match st with [] => 0 | (_, v, _) :: st' => wt v + wts st' end.

(* a view processed while s frames are below it holds fewer than 2^(64-s) points *)
Definition room (s : nat) (v : list pt) : Prop :=
  (Z.of_nat (length v) < 2 ^ (64 - Z.of_nat s))%Z.
Fixpoint stack_room (st : list kframe) : Prop :=
  match st with [] => True | (_, v, _) :: st' => room (length st') v /\ stack_room st' end.

Lemma pow_step (k : Z) : (0 <= k)%Z -> (2 ^ (k + 1) = 2 * 2 ^ k)%Z.
Proof. intros. rewrite Z.pow_add_r by lia. lia. Qed.

Lemma room_big s v : room s v -> 8 < length v -> s < 61.
Proof.
  unfold room. intros R H.
  destruct (Nat.lt_ge_cases s 61) as [|G]; [assumption|exfalso].
  destruct (Z.lt_ge_cases (64 - Z.of_nat s) 0) as [N|P].
  - rewrite Z.pow_neg_r in R by assumption. lia.
  - assert ((2 ^ (64 - Z.of_nat s) <= 2 ^ 3)%Z) by (apply Z.pow_le_mono_r; lia).
    change (2 ^ 3)%Z with 8%Z in *. lia.
Qed.

Lemma room_half s (v : list pt) (n' : nat) : room s v -> s < 61 -> 2 * n' <= length v -> (Z.of_nat n' < 2 ^ (64 - Z.of_nat (S s)))%Z.
Proof.
  unfold room. intros R S61 H.
  replace (64 - Z.of_nat s)%Z with ((64 - Z.of_nat (S s)) + 1)%Z in R by lia.
  rewrite pow_step in R by lia. lia.
Qed.

Lemma room_weaken s (v' : list pt) : (Z.of_nat (length v') < 2 ^ (64 - Z.of_nat (S s)))%Z -> s < 61 -> room s v'.
Proof.
  unfold room. intros R S61.
  replace (64 - Z.of_nat s)%Z with ((64 - Z.of_nat (S s)) + 1)%Z by lia.
  rewrite pow_step by lia.
  assert (0 < 2 ^ (64 - Z.of_nat (S s)))%Z by (apply Z.pow_pos_nonneg; lia). lia.
Qed.

Lemma option_map_some {A B} (f : A -> B) o x : o = Some x -> option_map f o = Some (f x).
Proof. intros ->. reflexivity. Qed.

Lemma query_stk_spec r : forall fuel level cur view stack,
  wt view + wts stack < fuel ->
  room (length stack) view -> stack_room stack ->
  query_stk fuel level cur r view stack =
    Some (query2d (S (length view)) level cur r view ++ stack_out r stack).
Proof.
  induction fuel as [|f IH]; intros level cur view stack W R SR; [lia|].
  cbn [query_stk query2d].
  destruct (Nat.leb (length view) 8) eqn:E8.
  - destruct stack as [|[[c' v'] l'] st].
    + cbn [stack_out]. rewrite app_nil_r. reflexivity.
    + cbn [stack_out q2 wts stack_room length] in *. destruct SR as [R' SR'].
      rewrite (option_map_some _ _ _ (IH l' c' v' st ltac:(unfold wt in *; lia) R' SR')).
      reflexivity.
  - apply Nat.leb_gt in E8.
    destruct (skipn (Nat.div (length view) 2) view) as [|m rightv] eqn:Es.
    { exfalso. assert (L := skipn_length (Nat.div (length view) 2) view). rewrite Es in L. cbn [length] in L.
      assert (Nat.div (length view) 2 < length view) by (apply Nat.div_lt; lia). lia. }
    destruct (skipn_cons_lengths _ _ _ _ Es) as [Lf Ll].
    set (h := Nat.div (length view) 2) in *.
    assert (Hh : 2 * h <= length view) by (subst h; apply Nat.mul_div_le; lia).
    assert (Hh2 : length view < 2 * h + 2).
    { subst h. pose proof (Nat.div_mod (length view) 2 ltac:(lia)) as D.
      pose proof (Nat.mod_upper_bound (length view) 2 ltac:(lia)). lia. }
    assert (S61 := room_big _ _ R E8).
    assert (Rl : (Z.of_nat (length (firstn h view)) < 2 ^ (64 - Z.of_nat (S (length stack))))%Z)
      by (apply (room_half _ view); [assumption|assumption|lia]).
    assert (Rr : (Z.of_nat (length rightv) < 2 ^ (64 - Z.of_nat (S (length stack))))%Z)
      by (apply (room_half _ view); [assumption|assumption|lia]).
    destruct (Nat.even level); cbv beta iota;
    rewrite (query2d_fuel r (length view) (S (length (firstn h view))) _ _ (firstn h view)) by lia;
    rewrite (query2d_fuel r (length view) (S (length rightv)) _ _ rightv) by lia;
    match goal with |- context [ooverlap ?l r] => destruct (ooverlap l r) eqn:OL end;
    try match goal with |- context [ooverlap ?l r] => destruct (ooverlap l r) eqn:OR end.
    all: try (replace (Nat.ltb (length stack) kStackSize) with true
               by (symmetry; apply Nat.ltb_lt; unfold kStackSize; lia)).
    all: match goal with
         | |- option_map _ (query_stk _ ?lv ?c _ ?v ?st) = _ =>
           rewrite (option_map_some _ _ _ (IH lv c v st
             ltac:(cbn [wts]; unfold wt in *; lia)
             ltac:(cbn [length]; first [exact Rl | exact Rr | apply room_weaken; assumption])
             ltac:(cbn [stack_room]; first [exact SR | split; [apply room_weaken; assumption | exact SR]])))
         end.
    all: cbn [stack_out q2]; rewrite <- ?app_assoc; reflexivity.
Qed.

Theorem query_stack_safe (points : list pt) (r : rect) :
  (Z.of_nat (length points) < 2 ^ 64)%Z ->
  query_two_d_tree_stk points r = Some (query_two_d_tree points r).
Proof.
  intros H. unfold query_two_d_tree_stk, query_two_d_tree.
  destruct (Nat.leb (length points) 8); [reflexivity|].
  rewrite (query_stk_spec r (2 * length points + 2) 0 ofull points []).
  - cbn [stack_out]. rewrite app_nil_r. reflexivity.
  - cbn [wts]. unfold wt. lia.
  - unfold room. cbn [length]. exact H.
  - exact I.
Qed.
