(* Finite sweeps (stated bounds) for the radix tree and SpreadBits3. *)
From Coq Require Import ZArith List Bool Lia.
From MV Require Import Bvh.BvhDefs Bvh.BvhModel.
Import ListNotations.
Local Open Scope Z_scope.

Definition nthZ (l : list Z) (i : Z) : Z := nth (Z.to_nat i) l 0.
Definition nthP (l : list (Z * Z)) (i : Z) : Z * Z := nth (Z.to_nat i) l (-1, -1).

(* shape part of the certificate (no boxes) *)
Definition shape_check (children : Z -> Z * Z) (n : Z) : bool :=
  match tree_of children (Z.to_nat (2 * n)) kRoot with
  | Some t => is_ndb t && (Nat.leb (depth t) 64) && list_eqb (leaves t) (zseq (Z.to_nat n) 0)
  | None => false
  end.

Definition radix_case_ok (codes : list Z) : bool :=
  let n := Z.of_nat (length codes) in
  match build_tree 128 4 n (nthZ codes) with
  | Some ch => shape_check (nthP ch) n
  | None => false
  end.

Definition alphabet : list Z := [0; 1; 2; 3; 4; 7; 2147483648].

(* all non-decreasing lists of length k over the suffixes of the alphabet *)
Fixpoint sorted_lists (k : nat) (alpha : list Z) : list (list Z) :=
  match k with
  | O => [[]]
  | S k' =>
    (fix go (a : list Z) : list (list Z) :=
       match a with
       | [] => []
       | x :: a' => map (cons x) (sorted_lists k' a) ++ go a'
       end) alpha
  end.

Fixpoint small_code_lists (k : nat) : list (list Z) :=
  match k with
  | O | S O => []
  | S k' => sorted_lists k alphabet ++ small_code_lists k'
  end.

Lemma radix_small_ok : forallb radix_case_ok (small_code_lists 7) = true.
Proof. vm_compute. reflexivity. Qed.

Fixpoint spread_ref (k : nat) (v : Z) : Z :=
  match k with
  | O => 0
  | S k' => Z.b2z (Z.testbit v (Z.of_nat k')) * 8 ^ (Z.of_nat k') + spread_ref k' v
  end.

Lemma spread_sweep : forallb (fun v => spread_bits3 v =? spread_ref 10 v) (zseq 1024 0) = true.
Proof. vm_compute. reflexivity. Qed.

Lemma spread_bits3_ok : forall v, 0 <= v < 1024 -> spread_bits3 v = spread_ref 10 v.
Proof.
  intros v Hv. pose proof spread_sweep as H. rewrite forallb_forall in H.
  apply Z.eqb_eq. apply H. apply in_zseq. simpl. lia.
Qed.
