(* Karras radix tree, part 2: the three searches of CreateRadixTree
   (exponential growth, binary search for the range length, ceil-halving search
   for the split) return the boundary of a downward-closed predicate, within
   the fuel the model gives them.  Independent of the meaning of prefix_length. *)
From Coq Require Import ZArith List Bool Lia.
From MV Require Import Bvh.BvhDefs.
Local Open Scope Z_scope.

Section Search.
  Variable n : Z.
  Variable code : Z -> Z.
  Notation D := (prefix_length n code).

  (* ---------- RangeEnd: growth and binary search along direction dir ---------- *)
  Section Dir.
    Variable i dir cp L : Z.
    Hypothesis Hyes : forall k, 1 <= k <= L -> D i (i + dir * k) > cp.
    Hypothesis Hno : forall k, L < k -> D i (i + dir * k) <= cp.

    Lemma test_true k : 1 <= k <= L -> (D i (i + dir * k) >? cp) = true.
    Proof. intros Hk. pose proof (Hyes k Hk). rewrite Z.gtb_ltb. apply Z.ltb_lt. lia. Qed.
    Lemma test_false k : L < k -> (D i (i + dir * k) >? cp) = false.
    Proof. intros Hk. pose proof (Hno k Hk). rewrite Z.gtb_ltb. apply Z.ltb_ge. lia. Qed.

    Lemma grow_spec b : 1 <= b -> forall f e, 0 <= e -> L < 2 ^ (e + b * Z.of_nat f) ->
      exists e', grow (2 ^ b) n code (S f) i dir cp (2 ^ e) = Some (2 ^ e') /\
                 e <= e' /\ L < 2 ^ e' /\ (e' = e \/ 2 ^ (e' - b) <= L).
    Proof.
      intros Hb. induction f as [|f IH]; intros e He HLt.
      - exists e. cbn [grow].
        replace (e + b * Z.of_nat 0) with e in HLt by lia.
        rewrite test_false by lia. repeat split; try lia.
      - cbn [grow]. destruct (D i (i + dir * 2 ^ e) >? cp) eqn:E.
        + assert (Hle : 2 ^ e <= L).
          { destruct (Z.le_gt_cases (2 ^ e) L) as [H|H]; [exact H|].
            rewrite test_false in E by lia. discriminate. }
          rewrite <- Z.pow_add_r by lia.
          destruct (IH (e + b) ltac:(lia)) as (e' & Hg & He' & HL' & Hor).
          { replace (e + b + b * Z.of_nat f) with (e + b * Z.of_nat (S f)) by lia. exact HLt. }
          exists e'. split; [exact Hg|]. split; [lia|]. split; [exact HL'|]. right.
          destruct Hor as [->|Hor]; [|exact Hor].
          replace (e + b - b) with e by lia. exact Hle.
        + exists e. assert (0 < 2 ^ e) by (apply Z.pow_pos_nonneg; lia).
          assert (Hgt : L < 2 ^ e).
          { destruct (Z.le_gt_cases (2 ^ e) L) as [H'|H']; [|lia].
            rewrite test_true in E by lia. discriminate. }
          repeat split; try lia.
    Qed.

    Lemma bsearch_zero fuel len : bsearch n code (S fuel) i dir cp 0 len = Some len.
    Proof. reflexivity. Qed.

    Lemma bsearch_spec : forall (s fuel : nat) len, (s + 2 <= fuel)%nat ->
      0 <= len <= L -> L < len + 2 ^ (Z.of_nat s + 1) ->
      bsearch n code fuel i dir cp (2 ^ Z.of_nat s) len = Some L.
    Proof.
      induction s as [|s IH]; intros fuel len Hf Hlen HLt.
      - destruct fuel as [|fuel]; [lia|].
        change (2 ^ Z.of_nat 0) with 1. change (2 ^ (Z.of_nat 0 + 1)) with 2 in HLt.
        cbn [bsearch]. change (1 >? 0) with true. cbn iota.
        change (1 / 2) with 0. destruct fuel as [|fuel]; [lia|]. rewrite bsearch_zero. f_equal.
        destruct (Z.le_gt_cases (len + 1) L) as [H|H].
        + rewrite test_true by lia. lia.
        + rewrite test_false by lia. lia.
      - destruct fuel as [|fuel]; [lia|].
        assert (Hp : 0 < 2 ^ Z.of_nat s) by (apply Z.pow_pos_nonneg; lia).
        assert (Hs : 2 ^ Z.of_nat (S s) = 2 * 2 ^ Z.of_nat s).
        { rewrite Nat2Z.inj_succ, Z.pow_succ_r by lia. reflexivity. }
        assert (Hs1 : 2 ^ (Z.of_nat (S s) + 1) = 2 * 2 ^ Z.of_nat (S s)).
        { replace (Z.of_nat (S s) + 1) with (Z.succ (Z.of_nat (S s))) by lia.
          rewrite Z.pow_succ_r by lia. reflexivity. }
        assert (Hs2 : 2 ^ (Z.of_nat s + 1) = 2 ^ Z.of_nat (S s)).
        { rewrite Nat2Z.inj_succ. f_equal; lia. }
        cbn [bsearch].
        assert (Hgt : (2 ^ Z.of_nat (S s) >? 0) = true) by (rewrite Z.gtb_ltb; apply Z.ltb_lt; lia).
        rewrite Hgt.
        assert (Hhalf : 2 ^ Z.of_nat (S s) / 2 = 2 ^ Z.of_nat s).
        { rewrite Hs. rewrite Z.mul_comm. apply Z.div_mul. lia. }
        rewrite Hhalf.
        destruct (Z.le_gt_cases (len + 2 ^ Z.of_nat (S s)) L) as [H|H].
        + rewrite test_true by lia. apply IH; [lia|lia|]. rewrite Hs2. lia.
        + rewrite test_false by lia. apply IH; [lia|lia|]. rewrite Hs2. lia.
    Qed.
  End Dir.

  (* RangeEnd, for kInitialLength = 2^a and kLengthMultiple = 2^b *)
  Lemma range_end_spec a b i dir L :
    0 <= a <= 64 -> 1 <= b <= 32 ->
    dir = 1 \/ dir = -1 ->
    Z.sgn (D i (i + 1) - D i (i - 1)) = dir ->
    0 <= L < 1073741824 ->
    (forall k, 1 <= k <= L -> D i (i + dir * k) > D i (i - dir)) ->
    (forall k, L < k -> D i (i + dir * k) <= D i (i - dir)) ->
    range_end (2 ^ a) (2 ^ b) n code i = Some (i + dir * L).
  Proof.
    intros Ha Hb Hdir Hsgn HL Hyes Hno. unfold range_end. rewrite Hsgn.
    assert (Hd0 : (dir =? 0) = false) by (apply Z.eqb_neq; lia). rewrite Hd0.
    destruct (grow_spec i dir (D i (i - dir)) L Hyes Hno b ltac:(lia) 39%nat a ltac:(lia))
      as (e' & Hg & He' & HL' & Hor).
    { apply Z.lt_le_trans with (2 ^ 30); [change (2 ^ 30) with 1073741824; lia|].
      apply Z.pow_le_mono_r; lia. }
    rewrite Hg.
    assert (He79 : e' <= 79).
    { destruct Hor as [->|Hor]; [lia|].
      destruct (Z.le_gt_cases e' 79) as [H|H]; [exact H|exfalso].
      assert (2 ^ 30 <= 2 ^ (e' - b)) by (apply Z.pow_le_mono_r; lia).
      change (2 ^ 30) with 1073741824 in *. lia. }
    destruct (Z.eq_dec e' 0) as [->|Hne].
    - change (2 ^ 0 / 2) with 0. change (bsearch n code 80 i dir (D i (i - dir)) 0 0) with (Some 0).
      change (2 ^ 0) with 1 in HL'. replace L with 0 by lia. reflexivity.
    - assert (Hhalf : 2 ^ e' / 2 = 2 ^ Z.of_nat (Z.to_nat (e' - 1))).
      { rewrite Z2Nat.id by lia. replace e' with (Z.succ (e' - 1)) at 1 by lia.
        rewrite Z.pow_succ_r by lia. rewrite Z.mul_comm. apply Z.div_mul. lia. }
      rewrite Hhalf.
      rewrite (bsearch_spec i dir (D i (i - dir)) L Hyes Hno (Z.to_nat (e' - 1)) 80%nat 0); [reflexivity|lia|lia|].
      rewrite Z2Nat.id by lia. replace (e' - 1 + 1) with e' by lia. lia.
  Qed.

  (* ---------- FindSplit ---------- *)
  Section Split.
    Variable first last cp G : Z.
    Hypothesis HG : first <= G < last.
    Hypothesis Hyes : forall s, first < s <= G -> D first s > cp.
    Hypothesis Hno : forall s, G < s < last -> D first s <= cp.

    Lemma fs_test ns : first < ns -> ((ns <? last) && (D first ns >? cp)) = (ns <=? G).
    Proof.
      intros Hns. destruct (Z.leb_spec ns G) as [H|H].
      - pose proof (Hyes ns ltac:(lia)).
        apply andb_true_iff. split; [apply Z.ltb_lt; lia|rewrite Z.gtb_ltb; apply Z.ltb_lt; lia].
      - destruct (Z.ltb_spec ns last) as [H'|H']; [|reflexivity].
        pose proof (Hno ns ltac:(lia)). cbn [andb]. rewrite Z.gtb_ltb. apply Z.ltb_ge. lia.
    Qed.

    Lemma fs_spec : forall (k fuel : nat) split step, (k + 1 <= fuel)%nat ->
      1 <= step <= 2 ^ Z.of_nat k -> first <= split -> split <= G < split + step ->
      fs_loop n code fuel first last cp split step = Some G.
    Proof.
      induction k as [|k IH]; intros fuel split step Hf Hstep Hfs Hinv;
        (destruct fuel as [|fuel]; [lia|]); cbn [fs_loop].
      - change (2 ^ Z.of_nat 0) with 1 in Hstep. assert (step = 1) by lia. subst step.
        change ((1 + 1) / 2) with 1. change (1 >? 1) with false. cbn iota.
        rewrite fs_test by lia. destruct (Z.leb_spec (split + 1) G); f_equal; lia.
      - assert (Hs : 2 ^ Z.of_nat (S k) = 2 * 2 ^ Z.of_nat k).
        { rewrite Nat2Z.inj_succ, Z.pow_succ_r by lia. reflexivity. }
        set (step' := (step + 1) / 2).
        assert (Hst : 2 * step' - 1 <= step <= 2 * step').
        { unfold step'. pose proof (Z.div_mod (step + 1) 2 ltac:(lia)).
          pose proof (Z.mod_pos_bound (step + 1) 2 ltac:(lia)). lia. }
        rewrite fs_test by lia.
        destruct (Z.gtb_spec step' 1) as [H1|H1].
        + apply IH; [lia|lia| |]; destruct (Z.leb_spec (split + step') G); lia.
        + f_equal. destruct (Z.leb_spec (split + step') G); lia.
    Qed.

    Lemma find_split_spec : last - first < 1073741824 -> cp = D first last ->
      find_split n code first last = Some G.
    Proof.
      intros Hlen Hcp. unfold find_split. rewrite <- Hcp.
      apply (fs_spec 30 80); [lia| |lia|lia].
      change (2 ^ Z.of_nat 30) with 1073741824. lia.
    Qed.
  End Split.
End Search.
