(* Characterising lemmas for the collider model (C14). *)
From Coq Require Import ZArith List Bool Lia Permutation.
From MV Require Import Bvh.BvhDefs.
Import ListNotations.
Local Open Scope Z_scope.

(* ---------- boxes ---------- *)
Lemma overlap_sym a b : overlap a b = overlap b a.
Proof.
  unfold overlap.
  rewrite !Z.geb_leb.
  repeat match goal with |- context [?x <=? ?y] => let H := fresh in destruct (Z.leb_spec x y) as [H|H]; revert H end;
  intros; simpl; try reflexivity; try lia.
Qed.

Lemma overlap_union_l a b q : overlap a q = true -> overlap (bunion a b) q = true.
Proof.
  unfold overlap, bunion; simpl. rewrite !andb_true_iff, !Z.geb_leb, !Z.leb_le. lia.
Qed.
Lemma overlap_union_r a b q : overlap b q = true -> overlap (bunion a b) q = true.
Proof.
  unfold overlap, bunion; simpl. rewrite !andb_true_iff, !Z.geb_leb, !Z.leb_le. lia.
Qed.
Lemma overlap_pt_union_l a b x y : overlap_pt a x y = true -> overlap_pt (bunion a b) x y = true.
Proof.
  unfold overlap_pt, bunion; simpl. rewrite !andb_true_iff, !Z.geb_leb, !Z.leb_le. lia.
Qed.
Lemma overlap_pt_union_r a b x y : overlap_pt b x y = true -> overlap_pt (bunion a b) x y = true.
Proof.
  unfold overlap_pt, bunion; simpl. rewrite !andb_true_iff, !Z.geb_leb, !Z.leb_le. lia.
Qed.

(* the declarative meaning of the closed-interval test *)
Lemma overlap_spec a b :
  overlap a b = true <->
  (bminx a <= bmaxx b /\ bminx b <= bmaxx a) /\ (bminy a <= bmaxy b /\ bminy b <= bmaxy a) /\
  (bminz a <= bmaxz b /\ bminz b <= bmaxz a).
Proof. unfold overlap. rewrite !andb_true_iff, !Z.geb_leb, !Z.leb_le. lia. Qed.

(* two non-empty boxes pass the test iff they share a point *)
Lemma overlap_shares_point a b :
  bminx a <= bmaxx a -> bminy a <= bmaxy a -> bminz a <= bmaxz a ->
  bminx b <= bmaxx b -> bminy b <= bmaxy b -> bminz b <= bmaxz b ->
  (overlap a b = true <->
   exists x y z, (bminx a <= x <= bmaxx a /\ bminy a <= y <= bmaxy a /\ bminz a <= z <= bmaxz a) /\
                 (bminx b <= x <= bmaxx b /\ bminy b <= y <= bmaxy b /\ bminz b <= z <= bmaxz b)).
Proof.
  intros. rewrite overlap_spec. split.
  - intros (Hx & Hy & Hz).
    exists (Z.max (bminx a) (bminx b)), (Z.max (bminy a) (bminy b)), (Z.max (bminz a) (bminz b)). lia.
  - intros (x & y & z & Ha & Hb). lia.
Qed.

(* ---------- node numbering ---------- *)
Lemma is_leaf_leaf i : is_leaf (leaf2node i) = true.
Proof. unfold is_leaf, leaf2node. rewrite Z.even_mul. reflexivity. Qed.
Lemma is_internal_leaf i : is_internal (leaf2node i) = false.
Proof. unfold is_internal, leaf2node. rewrite Z.odd_mul. reflexivity. Qed.
Lemma is_internal_internal k : is_internal (internal2node k) = true.
Proof. unfold is_internal, internal2node. rewrite Z.odd_add, Z.odd_mul. reflexivity. Qed.
Lemma is_leaf_internal k : is_leaf (internal2node k) = false.
Proof. unfold is_leaf, internal2node. rewrite Z.even_add, Z.even_mul. reflexivity. Qed.
Lemma node2leaf_leaf i : node2leaf (leaf2node i) = i.
Proof. unfold node2leaf, leaf2node. rewrite Z.mul_comm. apply Z.div_mul. lia. Qed.
Lemma node2internal_internal k : node2internal (internal2node k) = k.
Proof. unfold node2internal, internal2node. replace (2 * k + 1 - 1) with (k * 2) by lia. apply Z.div_mul. lia. Qed.

Section Spec.
  Variable children : Z -> Z * Z.
  Variable bbox : Z -> box.

  (* the arrays describe tree t *)
  Fixpoint repr (t : tree) : Prop :=
    match t with
    | Lf i => 0 <= i
    | Nd k l r => 0 <= k /\ children k = (node_of l, node_of r) /\ repr l /\ repr r
    end.

  (* every internal box is the union of its children's boxes (BuildInternalBoxes) *)
  Fixpoint boxes_ok (t : tree) : Prop :=
    match t with
    | Lf _ => True
    | Nd k l r => bbox (internal2node k) = bunion (bbox (node_of l)) (bbox (node_of r))
                  /\ boxes_ok l /\ boxes_ok r
    end.

  Definition box_eqb (a b : box) : bool :=
    (bminx a =? bminx b) && (bminy a =? bminy b) && (bminz a =? bminz b) &&
    (bmaxx a =? bmaxx b) && (bmaxy a =? bmaxy b) && (bmaxz a =? bmaxz b).
  Lemma box_eqb_eq a b : box_eqb a b = true -> a = b.
  Proof.
    destruct a, b; unfold box_eqb; simpl. rewrite !andb_true_iff, !Z.eqb_eq.
    intros (((((->&->)&->)&->)&->)&->). reflexivity.
  Qed.
  Fixpoint boxes_okb (t : tree) : bool :=
    match t with
    | Lf _ => true
    | Nd k l r => box_eqb (bbox (internal2node k)) (bunion (bbox (node_of l)) (bbox (node_of r)))
                  && boxes_okb l && boxes_okb r
    end.
  Lemma boxes_okb_sound t : boxes_okb t = true -> boxes_ok t.
  Proof.
    induction t as [i|k l IHl r IHr]; simpl; [trivial|].
    rewrite !andb_true_iff. intros ((Hb & Hl) & Hr). auto using box_eqb_eq.
  Qed.

  Lemma tree_of_repr fuel : forall node t, tree_of children fuel node = Some t -> repr t /\ node_of t = node.
  Proof.
    induction fuel as [|f IH]; intros node t; simpl; [discriminate|].
    destruct (Z.ltb_spec node 0) as [Hn|Hn]; [discriminate|].
    destruct (is_leaf node) eqn:El.
    - intros [= <-]. simpl. unfold node2leaf, leaf2node, is_leaf in *.
      apply Z.even_spec in El. destruct El as [m ->].
      replace (2 * m / 2) with m by (rewrite Z.mul_comm, Z.div_mul; lia). split; lia.
    - destruct (children (node2internal node)) as [c1 c2] eqn:Ec.
      destruct (tree_of children f c1) as [l|] eqn:E1; [|discriminate].
      destruct (tree_of children f c2) as [r|] eqn:E2; [|discriminate].
      intros [= <-]. apply IH in E1. apply IH in E2. destruct E1 as [R1 N1], E2 as [R2 N2].
      assert (Ho : Z.odd node = true) by (unfold is_leaf in El; rewrite <- Z.negb_even, El; reflexivity).
      apply Z.odd_spec in Ho. destruct Ho as [m ->].
      assert (Hk : node2internal (2 * m + 1) = m) by apply (node2internal_internal m).
      rewrite Hk in *. simpl. rewrite N1, N2. repeat split; try assumption; try lia.
  Qed.

  Section Query.
    Variable self : bool.
    Variable ov : box -> bool.
    Variable qi : Z.
    Hypothesis ov_union_l : forall a b, ov a = true -> ov (bunion a b) = true.
    Hypothesis ov_union_r : forall a b, ov b = true -> ov (bunion a b) = true.

    Definition hit (i : Z) : bool := ov (bbox (leaf2node i)) && negb (self && (i =? qi)).
    Definition hits (t : tree) : list Z := filter hit (leaves t).

    Definition rec1 (t : tree) : list Z :=
      match t with Lf i => if hit i then [i] else [] | Nd _ _ _ => [] end.
    Definition trav (t : tree) : bool :=
      match t with Lf _ => false | Nd k _ _ => ov (bbox (internal2node k)) end.
    Fixpoint visit (t : tree) : list Z :=
      match t with
      | Lf _ => []
      | Nd k l r => rec1 l ++ rec1 r ++ (if trav l then visit l else []) ++ (if trav r then visit r else [])
      end.

    Lemma record_collision_spec t :
      record_collision bbox self ov qi (node_of t) = (trav t, rec1 t).
    Proof.
      unfold record_collision. destruct t as [i|k l r]; simpl.
      - rewrite is_internal_leaf, is_leaf_leaf, node2leaf_leaf, andb_false_r, andb_true_r.
        unfold hit. reflexivity.
      - rewrite is_internal_internal, is_leaf_internal, andb_true_r, andb_false_r. reflexivity.
    Qed.

    Definition is_nd (t : tree) : Prop := match t with Nd _ _ _ => True | Lf _ => False end.

    Fixpoint tsize (ts : list tree) : nat :=
      match ts with [] => O | t :: r => (size t + tsize r)%nat end.
    Fixpoint stack_ok (ts : list tree) : Prop :=
      match ts with
      | [] => True
      | s :: st => (depth s + length st <= 64)%nat /\ stack_ok st
      end.

    Lemma rec1_rev t : rev (rec1 t) = rec1 t.
    Proof. destruct t; simpl; [destruct (hit leaf)|]; reflexivity. Qed.

    Lemma trav_is_nd t : trav t = true -> is_nd t.
    Proof. destruct t; simpl; [discriminate|trivial]. Qed.

    Lemma depth_nd t : is_nd t -> (1 <= depth t)%nat.
    Proof. destruct t; simpl; [tauto|lia]. Qed.

    (* the explicit-stack loop computes visit of the current node, then of the stack *)
    Lemma fc_loop_spec : forall fuel t ts acc,
      (size t + tsize ts <= fuel)%nat ->
      is_nd t -> repr t -> Forall (fun s => is_nd s /\ repr s) ts -> stack_ok (t :: ts) ->
      fc_loop children bbox self ov qi fuel (node_of t) (map node_of ts) acc
      = Some (rev acc ++ visit t ++ concat (map visit ts)).
    Proof.
      induction fuel as [|f IH]; intros t ts acc Hfuel Hnd Hr Hts Hst.
      { destruct t; simpl in *; lia. }
      destruct t as [i|k l r]; [destruct Hnd|].
      simpl in Hr. destruct Hr as (Hk & Hc & Hrl & Hrr).
      cbn [fc_loop node_of]. rewrite node2internal_internal, Hc.
      rewrite (record_collision_spec l), (record_collision_spec r).
      assert (Hrev : forall a, rev (rec1 r ++ rec1 l ++ a) = rev a ++ rec1 l ++ rec1 r).
      { intros a. rewrite !rev_app_distr, !rec1_rev, <- !app_assoc. reflexivity. }
      simpl in Hst. destruct Hst as (Hd & Hst'). simpl in Hfuel.
      destruct (trav l) eqn:Tl; destruct (trav r) eqn:Tr; cbn [negb andb].
      - (* both: go left, push right *)
        pose proof (depth_nd l (trav_is_nd l Tl)) as Dl.
        destruct (Z.leb_spec 64 (Z.of_nat (length (map node_of ts)))) as [Hov|Hov].
        { rewrite map_length in Hov. lia. }
        change (node_of r :: map node_of ts) with (map node_of (r :: ts)).
        rewrite IH.
        + rewrite Hrev. cbn [visit map concat]. rewrite Tl, Tr, <- !app_assoc. reflexivity.
        + simpl. lia.
        + apply trav_is_nd; assumption.
        + assumption.
        + constructor; [split; [apply trav_is_nd; assumption|assumption]|assumption].
        + cbn [stack_ok length]. repeat split; try assumption; lia.
      - rewrite IH.
        + rewrite Hrev. cbn [visit]. rewrite Tl, Tr, app_nil_r, <- !app_assoc. reflexivity.
        + lia.
        + apply trav_is_nd; assumption.
        + assumption.
        + assumption.
        + cbn [stack_ok]. split; [lia|assumption].
      - rewrite IH.
        + rewrite Hrev. cbn [visit]. rewrite Tl, Tr. cbn [app]. rewrite <- !app_assoc. reflexivity.
        + lia.
        + apply trav_is_nd; assumption.
        + assumption.
        + assumption.
        + cbn [stack_ok]. split; [lia|assumption].
      - destruct ts as [|s st]; cbn [map].
        + rewrite Hrev. cbn [visit concat map]. rewrite Tl, Tr, !app_nil_r. reflexivity.
        + inversion Hts as [|? ? [Hs1 Hs2] Hts']; subst.
          rewrite IH.
          * rewrite Hrev. cbn [visit concat map]. rewrite Tl, Tr. cbn [app]. rewrite <- !app_assoc. reflexivity.
          * simpl. simpl in Hfuel. lia.
          * assumption.
          * assumption.
          * assumption.
          * assumption.
    Qed.

    Lemma no_hits_below t :
      boxes_ok t -> ov (bbox (node_of t)) = false -> forall i, In i (leaves t) -> ov (bbox (leaf2node i)) = false.
    Proof.
      induction t as [j|k l IHl r IHr]; simpl; intros Hb Hov i Hi.
      - destruct Hi as [<-|[]]. assumption.
      - destruct Hb as (Hu & Hbl & Hbr). rewrite Hu in Hov.
        apply in_app_or in Hi. destruct Hi as [Hi|Hi].
        + apply IHl; try assumption.
          destruct (ov (bbox (node_of l))) eqn:E; [|reflexivity].
          rewrite (ov_union_l _ (bbox (node_of r)) E) in Hov. discriminate.
        + apply IHr; try assumption.
          destruct (ov (bbox (node_of r))) eqn:E; [|reflexivity].
          rewrite (ov_union_r (bbox (node_of l)) _ E) in Hov. discriminate.
    Qed.

    Definition sub (t : tree) : list Z := rec1 t ++ (if trav t then visit t else []).

    Lemma sub_hits t : boxes_ok t -> Permutation (sub t) (hits t).
    Proof.
      induction t as [j|k l IHl r IHr]; intros Hb.
      - unfold sub, hits; simpl. destruct (hit j); simpl; constructor; constructor.
      - unfold sub. cbn [rec1 trav app]. destruct (ov (bbox (internal2node k))) eqn:E.
        + simpl in Hb. destruct Hb as (_ & Hbl & Hbr).
          specialize (IHl Hbl). specialize (IHr Hbr).
          cbn [visit]. unfold hits. cbn [leaves]. rewrite filter_app.
          fold (hits l) (hits r). unfold sub in IHl, IHr.
          rewrite <- IHl, <- IHr.
          rewrite !app_assoc. apply Permutation_app_tail.
          rewrite <- !app_assoc. apply Permutation_app_head. apply Permutation_app_comm.
        + replace (hits (Nd k l r)) with (@nil Z); [constructor|].
          symmetry. unfold hits.
          assert (forall i, In i (leaves (Nd k l r)) -> hit i = false).
          { intros i Hi. unfold hit. rewrite (no_hits_below (Nd k l r) Hb E i Hi). reflexivity. }
          induction (leaves (Nd k l r)) as [|a q IHq]; [reflexivity|].
          simpl. rewrite H by (left; reflexivity). apply IHq. intros; apply H; right; assumption.
    Qed.

    Lemma visit_hits t : is_nd t -> boxes_ok t -> Permutation (visit t) (hits t).
    Proof.
      destruct t as [j|k l r]; [intros []|]. intros _ Hb. simpl in Hb. destruct Hb as (_ & Hbl & Hbr).
      cbn [visit]. unfold hits. cbn [leaves]. rewrite filter_app. fold (hits l) (hits r).
      rewrite <- (sub_hits l Hbl), <- (sub_hits r Hbr). unfold sub.
      rewrite !app_assoc. apply Permutation_app_tail.
      rewrite <- !app_assoc. apply Permutation_app_head. apply Permutation_app_comm.
    Qed.

    (* main statement, certificate form: any arrays that describe a binary tree
       of depth <= 64 with union boxes *)
    Lemma find_collision_exact t fuel :
      tree_of children fuel kRoot = Some t -> is_nd t -> boxes_ok t ->
      (depth t <= 64)%nat -> (size t <= fuel)%nat ->
      exists res, find_collision children bbox self ov qi fuel = Some res /\ Permutation res (hits t).
    Proof.
      intros Ht Hnd Hb Hd Hf. apply tree_of_repr in Ht. destruct Ht as [Hr Hn].
      unfold find_collision. rewrite <- Hn.
      change (@nil Z) with (map node_of []) at 1.
      rewrite fc_loop_spec; try assumption.
      - eexists; split; [reflexivity|]. simpl. rewrite app_nil_r. apply visit_hits; assumption.
      - simpl. lia.
      - constructor.
      - simpl. split; [lia|trivial].
    Qed.
  End Query.
End Spec.

(* ---------- leaves 0..n-1, each once ---------- *)
Fixpoint zseq (k : nat) (i : Z) : list Z :=
  match k with O => [] | S k' => i :: zseq k' (i + 1) end.
Lemma in_zseq k : forall i x, In x (zseq k i) <-> i <= x < i + Z.of_nat k.
Proof.
  induction k as [|k IH]; intros i x; simpl; [lia|].
  rewrite IH. lia.
Qed.
Lemma nodup_zseq k : forall i, NoDup (zseq k i).
Proof.
  induction k as [|k IH]; intros i; simpl; constructor; [|apply IH].
  rewrite in_zseq. lia.
Qed.
Fixpoint list_eqb (a b : list Z) : bool :=
  match a, b with
  | [], [] => true
  | x :: a', y :: b' => (x =? y) && list_eqb a' b'
  | _, _ => false
  end.
Lemma list_eqb_eq a : forall b, list_eqb a b = true -> a = b.
Proof.
  induction a as [|x a IH]; destruct b as [|y b]; simpl; try discriminate; [reflexivity|].
  rewrite andb_true_iff, Z.eqb_eq. intros [-> H]. f_equal. auto.
Qed.

Definition is_ndb (t : tree) : bool := match t with Nd _ _ _ => true | Lf _ => false end.

(* the certificate the checker evaluates on every tree the implementation built *)
Definition wf_check (children : Z -> Z * Z) (bbox : Z -> box) (n : Z) : bool :=
  match tree_of children (Z.to_nat (2 * n)) kRoot with
  | Some t => is_ndb t && (Nat.leb (depth t) 64) && list_eqb (leaves t) (zseq (Z.to_nat n) 0)
              && boxes_okb bbox t && Nat.leb (size t) (Z.to_nat (2 * n))
  | None => false
  end.

Theorem wf_check_collisions_exact children bbox n self ov qi :
  (forall a b, ov a = true -> ov (bunion a b) = true) ->
  (forall a b, ov b = true -> ov (bunion a b) = true) ->
  wf_check children bbox n = true ->
  exists res, find_collision children bbox self ov qi (Z.to_nat (2 * n)) = Some res /\
    NoDup res /\
    forall i, In i res <-> (0 <= i < n /\ ov (bbox (leaf2node i)) = true /\ ~ (self = true /\ i = qi)).
Proof.
  intros Hl Hr Hw. unfold wf_check in Hw.
  destruct (tree_of children (Z.to_nat (2 * n)) kRoot) as [t|] eqn:Et; [|discriminate].
  rewrite !andb_true_iff in Hw. destruct Hw as ((((Hnd & Hd) & Hlv) & Hb) & Hs).
  apply Nat.leb_le in Hd. apply Nat.leb_le in Hs. apply list_eqb_eq in Hlv. apply boxes_okb_sound in Hb.
  assert (Hnd' : is_nd t) by (destruct t; simpl in *; [discriminate|trivial]).
  destruct (find_collision_exact children bbox self ov qi Hl Hr t _ Et Hnd' Hb Hd Hs) as (res & Hres & Hperm).
  exists res. split; [assumption|]. split.
  - apply (Permutation_NoDup (Permutation_sym Hperm)). unfold hits. apply NoDup_filter. rewrite Hlv. apply nodup_zseq.
  - intros i. split.
    + intros Hi. apply (Permutation_in _ Hperm) in Hi. unfold hits in Hi. apply filter_In in Hi.
      destruct Hi as [Hi Hh]. rewrite Hlv, in_zseq in Hi. unfold hit in Hh.
      apply andb_true_iff in Hh. destruct Hh as [Ho Hn].
      split; [lia|]. split; [assumption|]. intros [-> ->]. rewrite Z.eqb_refl in Hn. discriminate.
    + intros (Hi & Ho & Hn). apply (Permutation_in _ (Permutation_sym Hperm)).
      unfold hits. apply filter_In. split; [rewrite Hlv, in_zseq; lia|].
      unfold hit. rewrite Ho. simpl. destruct self; simpl; [|reflexivity].
      destruct (Z.eqb_spec i qi) as [->|]; [exfalso; apply Hn; split; reflexivity|reflexivity].
Qed.
