(* Exactness of the x-sorted sweep (CollectIntersectionPairs, small inputs). *)
From Coq Require Import ZArith List Bool Lia Permutation Sorting.Sorted Sorting.Mergesort RelationClasses.
From MV Require Import Bvh.Sweep2Defs.
Import ListNotations.
Local Open Scope Z_scope.

Definition valid2 (b : box2) : Prop := b2minx b <= b2maxx b /\ b2miny b <= b2maxy b.

Lemma overlap2_sym a b : overlap2 a b = overlap2 b a.
Proof.
  unfold overlap2. rewrite !Z.geb_leb.
  destruct (b2minx a <=? b2maxx b), (b2minx b <=? b2maxx a), (b2miny a <=? b2maxy b), (b2miny b <=? b2maxy a); reflexivity.
Qed.

Lemma edge_leb_trans : Transitive (fun a b => is_true (EdgeOrder.leb a b)).
Proof.
  intros a b c. unfold is_true, EdgeOrder.leb.
  destruct (Z.eqb_spec (b2minx (snd a)) (b2minx (snd b))); destruct (Z.eqb_spec (b2minx (snd b)) (b2minx (snd c)));
  destruct (Z.eqb_spec (b2minx (snd a)) (b2minx (snd c))); rewrite ?Z.leb_le, ?Z.ltb_lt; lia.
Qed.

Lemma edge_leb_minx a b : EdgeOrder.leb a b = true -> b2minx (snd a) <= b2minx (snd b).
Proof.
  unfold EdgeOrder.leb. destruct (Z.eqb_spec (b2minx (snd a)) (b2minx (snd b))); rewrite ?Z.ltb_lt; lia.
Qed.

Section Sweep.
  Variable skip : Z -> Z -> bool.
  Hypothesis skip_sym : forall i j, skip i j = skip j i.

  (* what one inner pass over a sorted tail records *)
  Lemma sweep_inner_spec i bi : forall rest,
    valid2 bi ->
    Forall (fun e => valid2 (snd e) /\ b2minx bi <= b2minx (snd e)) rest ->
    StronglySorted (fun a b => is_true (EdgeOrder.leb a b)) rest ->
    forall a b, In (a, b) (sweep_inner skip i bi rest) <->
      exists j bj, In (j, bj) rest /\ overlap2 bi bj = true /\ skip i j = false /\ a = Z.min i j /\ b = Z.max i j.
  Proof.
    induction rest as [|[j bj] r IH]; intros Hv Hall Hs a b; simpl.
    - split; [intros []|intros (j & bj & [] & _)].
    - inversion Hall as [|? ? [Hvj Hmj] Hall']; subst. inversion Hs as [|? ? Hs' Hhd]; subst. simpl in Hvj, Hmj.
      destruct (Z.gtb_spec (b2minx bj) (b2maxx bi)) as [Hbreak|Hgo].
      + split; [intros []|]. intros (k & bk & Hin & Hov & _). exfalso.
        assert (Hk : b2minx bj <= b2minx bk).
        { destruct Hin as [E|Hin]; [inversion E; subst; lia|].
          rewrite Forall_forall in Hhd. specialize (Hhd _ Hin). apply edge_leb_minx in Hhd. exact Hhd. }
        unfold overlap2 in Hov. rewrite !andb_true_iff, !Z.geb_leb, !Z.leb_le in Hov. lia.
      + rewrite in_app_iff, (IH Hv Hall' Hs' a b).
        assert (Hovj : overlap2 bi bj = (b2miny bi <=? b2maxy bj) && (b2maxy bi >=? b2miny bj)).
        { unfold overlap2. destruct Hv as [Hv1 Hv2], Hvj as [Hj1 Hj2].
          replace (b2minx bi <=? b2maxx bj) with true by (symmetry; apply Z.leb_le; lia).
          replace (b2maxx bi >=? b2minx bj) with true by (symmetry; rewrite Z.geb_leb; apply Z.leb_le; lia).
          reflexivity. }
        split.
        * intros [H|H].
          -- destruct ((b2miny bi <=? b2maxy bj) && (b2maxy bi >=? b2miny bj) && negb (skip i j)) eqn:E; [|destruct H].
             destruct H as [H|[]]. inversion H; subst.
             apply andb_true_iff in E. destruct E as [E1 E2]. apply negb_true_iff in E2.
             exists j, bj. rewrite Hovj. auto.
          -- destruct H as (k & bk & Hin & Hrest). exists k, bk. split; [right; assumption|assumption].
        * intros (k & bk & [E|Hin] & Hov & Hsk & -> & ->).
          -- inversion E; subst. left. rewrite <- Hovj, Hov, Hsk. simpl. left. reflexivity.
          -- right. exists k, bk. auto.
  Qed.

  Lemma sweep_outer_spec : forall l,
    Forall (fun e => valid2 (snd e)) l ->
    StronglySorted (fun a b => is_true (EdgeOrder.leb a b)) l ->
    forall a b, In (a, b) (sweep_outer skip l) <->
      exists l1 i bi l2, l = l1 ++ (i, bi) :: l2 /\
        exists j bj, In (j, bj) l2 /\ overlap2 bi bj = true /\ skip i j = false /\ a = Z.min i j /\ b = Z.max i j.
  Proof.
    induction l as [|[i bi] r IH]; intros Hv Hs a b; simpl.
    - split; [intros []|]. intros (l1 & i & bi & l2 & E & _). destruct l1; discriminate.
    - inversion Hv as [|? ? Hvi Hv']; subst. inversion Hs as [|? ? Hs' Hhd]; subst. simpl in Hvi.
      rewrite in_app_iff, (IH Hv' Hs' a b), sweep_inner_spec; try assumption.
      + split.
        * intros [H|(l1 & k & bk & l2 & -> & H)].
          -- exists [], i, bi, r. split; [reflexivity|assumption].
          -- exists ((i, bi) :: l1), k, bk, l2. split; [reflexivity|assumption].
        * intros (l1 & k & bk & l2 & E & H). destruct l1 as [|x l1]; simpl in E; inversion E; subst.
          -- left. assumption.
          -- right. exists l1, k, bk, l2. split; [reflexivity|assumption].
      + rewrite Forall_forall in *. intros e He. split; [apply Hv'; assumption|].
        apply (edge_leb_minx (i, bi) e). apply Hhd. assumption.
  Qed.

  (* indices *)
  Lemma index_from_in : forall l i k b, In (k, b) (index_from i l) <-> i <= k < i + Z.of_nat (length l) /\ nth_error l (Z.to_nat (k - i)) = Some b.
  Proof.
    induction l as [|x l IH]; intros i k b; simpl.
    - split; [intros []|]. intros [H _]. lia.
    - rewrite IH. split.
      + intros [E|[H1 H2]].
        * inversion E; subst. split; [lia|]. replace (k - k) with 0 by lia. reflexivity.
        * split; [lia|]. replace (Z.to_nat (k - i)) with (S (Z.to_nat (k - (i + 1)))) by lia. assumption.
      + intros [H1 H2]. destruct (Z.eq_dec k i) as [->|Hne].
        * left. replace (i - i) with 0 in H2 by lia. simpl in H2. inversion H2. reflexivity.
        * right. split; [lia|]. replace (Z.to_nat (k - i)) with (S (Z.to_nat (k - (i + 1)))) in H2 by lia. assumption.
  Qed.

  Lemma index_from_fst_nodup : forall l i, NoDup (map fst (index_from i l)).
  Proof.
    induction l as [|x l IH]; intros i; simpl; constructor; [|apply IH].
    intros H. apply in_map_iff in H. destruct H as ([k b] & Hk & Hin). simpl in Hk. subst.
    apply index_from_in in Hin. lia.
  Qed.

  Definition box_at (boxes : list box2) (i : Z) : option box2 :=
    if i <? 0 then None else nth_error boxes (Z.to_nat i).

  (* positions in a list with distinct keys *)
  Lemma split_two {A} (l : list A) x y :
    In x l -> In y l -> x <> y ->
    (exists l1 l2 l3, l = l1 ++ x :: l2 ++ y :: l3) \/ (exists l1 l2 l3, l = l1 ++ y :: l2 ++ x :: l3).
  Proof.
    intros Hx Hy Hne. apply in_split in Hx. destruct Hx as (l1 & l2 & ->).
    apply in_app_or in Hy. destruct Hy as [Hy|[Hy|Hy]].
    - apply in_split in Hy. destruct Hy as (m1 & m2 & ->). right. exists m1, m2, l2. rewrite <- app_assoc. reflexivity.
    - exfalso. auto.
    - apply in_split in Hy. destruct Hy as (m1 & m2 & ->). left. exists l1, m1, m2. reflexivity.
  Qed.

  Theorem sweep_pairs_spec (boxes : list box2) :
    Forall valid2 boxes ->
    forall a b, In (a, b) (sweep_pairs skip boxes) <->
      (a < b /\ exists ba bb, box_at boxes a = Some ba /\ box_at boxes b = Some bb /\
                 overlap2 ba bb = true /\ skip a b = false).
  Proof.
    intros Hv a b. unfold sweep_pairs.
    set (L := EdgeSort.sort (index_from 0 boxes)).
    assert (HP : Permutation (index_from 0 boxes) L) by apply EdgeSort.Permuted_sort.
    assert (HS : StronglySorted (fun a b => is_true (EdgeOrder.leb a b)) L) by (apply EdgeSort.StronglySorted_sort; exact edge_leb_trans).
    assert (HinL : forall k bk, In (k, bk) L <-> 0 <= k < Z.of_nat (length boxes) /\ nth_error boxes (Z.to_nat k) = Some bk).
    { intros k bk. rewrite <- (Permutation_in' (eq_refl (k, bk)) HP), index_from_in.
      replace (k - 0) with k by lia. simpl. reflexivity. }
    assert (HvL : Forall (fun e => valid2 (snd e)) L).
    { rewrite Forall_forall. intros [k bk] Hin. apply HinL in Hin. destruct Hin as [_ Hn]. simpl.
      rewrite Forall_forall in Hv. apply Hv. eapply nth_error_In; eassumption. }
    assert (HndL : NoDup (map fst L)).
    { eapply Permutation_NoDup; [apply Permutation_map; exact HP|apply index_from_fst_nodup]. }
    rewrite <- (Permutation_in' (eq_refl (a, b)) (PairSort.Permuted_sort _)).
    rewrite (sweep_outer_spec L HvL HS a b).
    assert (Hbox : forall k bk, In (k, bk) L -> box_at boxes k = Some bk).
    { intros k bk Hin. apply HinL in Hin. destruct Hin as [Hr Hn]. unfold box_at.
      destruct (Z.ltb_spec k 0); [lia|assumption]. }
    split.
    - intros (l1 & i & bi & l2 & EL & j & bj & Hj & Hov & Hsk & -> & ->).
      assert (Hi : In (i, bi) L) by (rewrite EL; apply in_or_app; right; left; reflexivity).
      assert (Hj' : In (j, bj) L) by (rewrite EL; apply in_or_app; right; right; assumption).
      assert (Hne : i <> j).
      { intros ->. rewrite EL, map_app in HndL. simpl in HndL. apply NoDup_remove_2 in HndL.
        apply HndL. apply in_or_app. right. change j with (fst (j, bj)). apply in_map. assumption. }
      split; [lia|].
      destruct (Z.lt_ge_cases i j) as [Hlt|Hge].
      + rewrite Z.min_l, Z.max_r by lia. exists bi, bj. repeat split; auto.
      + rewrite Z.min_r, Z.max_l by lia. exists bj, bi. repeat split; auto.
        * rewrite overlap2_sym. assumption.
        * rewrite skip_sym. assumption.
    - intros (Hlt & ba & bb & Ha & Hb & Hov & Hsk).
      assert (Ha' : In (a, ba) L).
      { apply HinL. unfold box_at in Ha. destruct (Z.ltb_spec a 0); [discriminate|].
        split; [|assumption]. split; [lia|]. assert (Z.to_nat a < length boxes)%nat by (apply nth_error_Some; rewrite Ha; discriminate). lia. }
      assert (Hb' : In (b, bb) L).
      { apply HinL. unfold box_at in Hb. destruct (Z.ltb_spec b 0); [discriminate|].
        split; [|assumption]. split; [lia|]. assert (Z.to_nat b < length boxes)%nat by (apply nth_error_Some; rewrite Hb; discriminate). lia. }
      destruct (split_two L (a, ba) (b, bb) Ha' Hb') as [(l1 & l2 & l3 & E)|(l1 & l2 & l3 & E)].
      + intros E; inversion E; lia.
      + exists l1, a, ba, (l2 ++ (b, bb) :: l3). split; [assumption|].
        exists b, bb. repeat split; auto; try lia. apply in_or_app. right. left. reflexivity.
      + exists l1, b, bb, (l2 ++ (a, ba) :: l3). split; [assumption|].
        exists a, ba. repeat split; try lia.
        * apply in_or_app. right. left. reflexivity.
        * rewrite overlap2_sym. assumption.
        * rewrite skip_sym. assumption.
  Qed.
End Sweep.

(* ---------- each pair is reported once ---------- *)
Lemma nodup_app {A} (l1 l2 : list A) :
  NoDup l1 -> NoDup l2 -> (forall x, In x l1 -> ~ In x l2) -> NoDup (l1 ++ l2).
Proof.
  induction l1 as [|x l1 IH]; intros H1 H2 Hd; simpl; [assumption|].
  inversion H1 as [|? ? Hx H1']; subst. constructor.
  - intros Hin. apply in_app_or in Hin. destruct Hin as [Hin|Hin]; [auto|]. apply (Hd x); [left; reflexivity|assumption].
  - apply IH; auto. intros y Hy. apply Hd. right. assumption.
Qed.

Lemma minmax_inj i j j' : Z.min i j = Z.min i j' -> Z.max i j = Z.max i j' -> j = j'.
Proof. lia. Qed.

Section SweepNoDup.
  Variable skip : Z -> Z -> bool.

  Lemma sweep_inner_form i bi : forall rest a b,
    In (a, b) (sweep_inner skip i bi rest) -> exists j, In j (map fst rest) /\ a = Z.min i j /\ b = Z.max i j.
  Proof.
    induction rest as [|[j bj] r IH]; intros a b H; simpl in H; [destruct H|].
    destruct (b2minx bj >? b2maxx bi); [destruct H|].
    apply in_app_or in H. destruct H as [H|H].
    - destruct ((b2miny bi <=? b2maxy bj) && (b2maxy bi >=? b2miny bj) && negb (skip i j)); [|destruct H].
      destruct H as [H|[]]. inversion H; subst. exists j. simpl. auto.
    - destruct (IH a b H) as (k & Hk & Ha & Hb). exists k. simpl. auto.
  Qed.

  Lemma sweep_inner_nodup i bi : forall rest, NoDup (map fst rest) -> NoDup (sweep_inner skip i bi rest).
  Proof.
    induction rest as [|[j bj] r IH]; intros Hnd; simpl; [constructor|].
    simpl in Hnd. inversion Hnd as [|? ? Hj Hnd']; subst.
    destruct (b2minx bj >? b2maxx bi); [constructor|].
    apply nodup_app; [|apply IH; assumption|].
    - destruct ((b2miny bi <=? b2maxy bj) && (b2maxy bi >=? b2miny bj) && negb (skip i j)); repeat constructor. intros [].
    - intros [a b] Hin Hin2.
      destruct ((b2miny bi <=? b2maxy bj) && (b2maxy bi >=? b2miny bj) && negb (skip i j)); [|destruct Hin].
      destruct Hin as [E|[]]. inversion E; subst.
      destruct (sweep_inner_form i bi r _ _ Hin2) as (k & Hk & Ha & Hb).
      assert (j = k) by (eapply minmax_inj; eassumption). subst. auto.
  Qed.

  Lemma sweep_outer_form : forall l a b,
    In (a, b) (sweep_outer skip l) ->
    exists k j, In k (map fst l) /\ In j (map fst l) /\ a = Z.min k j /\ b = Z.max k j.
  Proof.
    induction l as [|[i bi] r IH]; intros a b H; simpl in H; [destruct H|].
    apply in_app_or in H. destruct H as [H|H].
    - destruct (sweep_inner_form i bi r a b H) as (j & Hj & Ha & Hb). exists i, j. simpl. auto.
    - destruct (IH a b H) as (k & j & Hk & Hj & Ha & Hb). exists k, j. simpl. auto.
  Qed.

  Lemma sweep_outer_nodup : forall l, NoDup (map fst l) -> NoDup (sweep_outer skip l).
  Proof.
    induction l as [|[i bi] r IH]; intros Hnd; simpl; [constructor|].
    simpl in Hnd. inversion Hnd as [|? ? Hi Hnd']; subst.
    apply nodup_app; [apply sweep_inner_nodup; assumption|apply IH; assumption|].
    intros [a b] H1 H2.
    destruct (sweep_inner_form i bi r a b H1) as (j & Hj & Ha & Hb).
    destruct (sweep_outer_form r a b H2) as (k & j' & Hk & Hj' & Ha' & Hb').
    assert (i = k \/ i = j') by lia.
    destruct H; subst; auto.
  Qed.

  Theorem sweep_pairs_nodup (boxes : list box2) : NoDup (sweep_pairs skip boxes).
  Proof.
    unfold sweep_pairs.
    eapply Permutation_NoDup; [apply PairSort.Permuted_sort|].
    apply sweep_outer_nodup.
    eapply Permutation_NoDup; [apply Permutation_map; apply EdgeSort.Permuted_sort|].
    apply index_from_fst_nodup.
  Qed.
End SweepNoDup.
