(* Executable ports of the 2-D broad phases used by boolean2.cpp and polygon.cpp:
   - the x-sorted sweep of CollectIntersectionPairs (bvh.leafToOrig empty),
     before the shared-endpoint filter (a predicate [skip] here);
   - BuildTwoDTreeImpl / QueryTwoDTree (alternating x/y median tree). *)
From Coq Require Import ZArith List Bool Lia Sorting.Mergesort Orders.
Import ListNotations.
Local Open Scope Z_scope.

Record box2 := mkBox2 { b2minx : Z; b2miny : Z; b2maxx : Z; b2maxy : Z }.

(* Box2::DoesOverlap *)
Definition overlap2 (a b : box2) : bool :=
  (b2minx a <=? b2maxx b) && (b2maxx a >=? b2minx b) && (b2miny a <=? b2maxy b) && (b2maxy a >=? b2miny b).

(* order used by the stable_sort of indices: (min.x, index) *)
Module EdgeOrder <: TotalLeBool.
  Definition t := (Z * box2)%type.
  Definition leb (a b : t) : bool :=
    if b2minx (snd a) =? b2minx (snd b) then fst a <=? fst b else b2minx (snd a) <? b2minx (snd b).
  Lemma leb_total a b : leb a b = true \/ leb b a = true.
  Proof.
    unfold leb. rewrite (Z.eqb_sym (b2minx (snd b))).
    destruct (Z.eqb_spec (b2minx (snd a)) (b2minx (snd b))) as [E|E].
    - destruct (Z.leb_spec (fst a) (fst b)); destruct (Z.leb_spec (fst b) (fst a)); auto; lia.
    - destruct (Z.ltb_spec (b2minx (snd a)) (b2minx (snd b))); destruct (Z.ltb_spec (b2minx (snd b)) (b2minx (snd a))); auto; lia.
  Qed.
End EdgeOrder.
Module EdgeSort := Sort EdgeOrder.

Module PairOrder <: TotalLeBool.
  Definition t := (Z * Z)%type.
  Definition leb (a b : t) : bool :=
    if fst a =? fst b then snd a <=? snd b else fst a <? fst b.
  Lemma leb_total a b : leb a b = true \/ leb b a = true.
  Proof.
    unfold leb. rewrite (Z.eqb_sym (fst b)).
    destruct (Z.eqb_spec (fst a) (fst b)) as [E|E].
    - destruct (Z.leb_spec (snd a) (snd b)); destruct (Z.leb_spec (snd b) (snd a)); auto; lia.
    - destruct (Z.ltb_spec (fst a) (fst b)); destruct (Z.ltb_spec (fst b) (fst a)); auto; lia.
  Qed.
End PairOrder.
Module PairSort := Sort PairOrder.

Section Sweep.
  Variable skip : Z -> Z -> bool.   (* SharedEndpointSafelySkippable(edges[i], edges[j]) *)

  (* inner loop: for oj > oi ... break when bj.min.x > bi.max.x *)
  Fixpoint sweep_inner (i : Z) (bi : box2) (rest : list (Z * box2)) : list (Z * Z) :=
    match rest with
    | [] => []
    | (j, bj) :: r =>
      if b2minx bj >? b2maxx bi then []
      else (if (b2miny bi <=? b2maxy bj) && (b2maxy bi >=? b2miny bj) && negb (skip i j)
            then [(Z.min i j, Z.max i j)] else []) ++ sweep_inner i bi r
    end.

  Fixpoint sweep_outer (l : list (Z * box2)) : list (Z * Z) :=
    match l with
    | [] => []
    | (i, bi) :: r => sweep_inner i bi r ++ sweep_outer r
    end.

  Fixpoint index_from (i : Z) (l : list box2) : list (Z * box2) :=
    match l with [] => [] | b :: r => (i, b) :: index_from (i + 1) r end.

  (* the whole sweep branch: pairs grouped by first, seconds ascending *)
  Definition sweep_pairs (boxes : list box2) : list (Z * Z) :=
    PairSort.sort (sweep_outer (EdgeSort.sort (index_from 0 boxes))).
End Sweep.

(* ---------- alternating median tree ---------- *)
Record pt := mkPt { px : Z; py : Z; pidx : Z }.

(* std::stable_sort with comparator key(a) < key(b): stable insertion sort *)
Fixpoint sinsert (key : pt -> Z) (x : pt) (l : list pt) : list pt :=
  match l with
  | [] => [x]
  | y :: r => if key x <=? key y then x :: y :: r else y :: sinsert key x r
  end.
Definition ssort (key : pt -> Z) (l : list pt) : list pt := fold_right (sinsert key) [] l.

(* BuildTwoDTreeImpl: stable sort on one coordinate, recurse on the halves
   around the middle element with the other coordinate *)
Fixpoint build2d (fuel : nat) (sortX : bool) (l : list pt) : list pt :=
  match fuel with
  | O => l
  | S f =>
    let s := if sortX then ssort px l else ssort py l in
    let n := length s in
    if Nat.ltb n 2 then s
    else
      let h := Nat.div n 2 in
      build2d f (negb sortX) (firstn h s) ++
      match skipn h s with
      | [] => []
      | m :: r => m :: build2d f (negb sortX) r
      end
  end.

(* extended bound: None = infinite *)
Definition le_opt_lo (lo : option Z) (v : Z) : bool := match lo with None => true | Some a => a <=? v end.
Definition le_opt_hi (v : Z) (hi : option Z) : bool := match hi with None => true | Some a => v <=? a end.

Record rect := mkRect { rminx : Z; rminy : Z; rmaxx : Z; rmaxy : Z }.
Definition contains (r : rect) (p : pt) : bool :=
  (rminx r <=? px p) && (rminy r <=? py p) && (px p <=? rmaxx r) && (py p <=? rmaxy r).

(* the running rectangle `current` of QueryTwoDTree *)
Record orect := mkORect { ominx : option Z; ominy : option Z; omaxx : option Z; omaxy : option Z }.
Definition ofull := mkORect None None None None.
(* Rect::DoesOverlap(current', r): current'.min <= r.max && current'.max >= r.min *)
Definition ooverlap (c : orect) (r : rect) : bool :=
  le_opt_lo (ominx c) (rmaxx r) && le_opt_lo (ominy c) (rmaxy r) &&
  le_opt_hi (rminx r) (omaxx c) && le_opt_hi (rminy r) (omaxy c).

Fixpoint query2d (fuel : nat) (level : nat) (cur : orect) (r : rect) (view : list pt) : list pt :=
  match fuel with
  | O => []
  | S f =>
    let n := length view in
    if Nat.leb n 8 then filter (contains r) view
    else
      let h := Nat.div n 2 in
      match skipn h view with
      | [] => []
      | m :: rightv =>
        let leftv := firstn h view in
        let (left, right) :=
          if Nat.even level
          then (mkORect (ominx cur) (ominy cur) (Some (px m)) (omaxy cur),
                mkORect (Some (px m)) (ominy cur) (omaxx cur) (omaxy cur))
          else (mkORect (ominx cur) (ominy cur) (omaxx cur) (Some (py m)),
                mkORect (ominx cur) (Some (py m)) (omaxx cur) (omaxy cur)) in
        (if contains r m then [m] else []) ++
        (if ooverlap left r
         then query2d f (S level) left r leftv ++
              (if ooverlap right r then query2d f (S level) right r rightv else [])
         else query2d f (S level) right r rightv)
      end
  end.

(* QueryTwoDTree's two entry cases *)
Definition query_two_d_tree (points : list pt) (r : rect) : list pt :=
  if Nat.leb (length points) 8 then filter (contains r) points
  else query2d (S (length points)) 0 ofull r points.
Definition build_two_d_tree (points : list pt) : list pt :=
  if Nat.leb (length points) 8 then points else build2d (S (length points)) true points.

(* ---------- QueryTwoDTree with its explicit 64-entry stack ----------
   The loop of tree2d.h literally: `stack` is (rectStack, viewStack, levelStack)
   with the top first; None = the DEBUG_ASSERT(stackPointer < 64) would fail
   (in release builds: a write past the three std::array<_, 64>) or the fuel
   ran out. *)
Definition kframe := (orect * list pt * nat)%type.
Definition kStackSize : nat := 64.

Fixpoint query_stk (fuel : nat) (level : nat) (cur : orect) (r : rect) (view : list pt)
         (stack : list kframe) : option (list pt) :=
  match fuel with
  | O => None
  | S f =>
    let n := length view in
    if Nat.leb n 8 then
      let out := filter (contains r) view in
      match stack with
      | [] => Some out
      | (c', v', l') :: st => option_map (app out) (query_stk f l' c' r v' st)
      end
    else
      let h := Nat.div n 2 in
      match skipn h view with
      | [] => None
      | m :: rightv =>
        let leftv := firstn h view in
        let (left, right) :=
          if Nat.even level
          then (mkORect (ominx cur) (ominy cur) (Some (px m)) (omaxy cur),
                mkORect (Some (px m)) (ominy cur) (omaxx cur) (omaxy cur))
          else (mkORect (ominx cur) (ominy cur) (omaxx cur) (Some (py m)),
                mkORect (ominx cur) (Some (py m)) (omaxx cur) (omaxy cur)) in
        let out := if contains r m then [m] else [] in
        if ooverlap left r then
          if ooverlap right r then
            if Nat.ltb (length stack) kStackSize
            then option_map (app out) (query_stk f (S level) left r leftv ((right, rightv, S level) :: stack))
            else None
          else option_map (app out) (query_stk f (S level) left r leftv stack)
        else option_map (app out) (query_stk f (S level) right r rightv stack)
      end
  end.

Definition query_two_d_tree_stk (points : list pt) (r : rect) : option (list pt) :=
  if Nat.leb (length points) 8 then Some (filter (contains r) points)
  else query_stk (2 * length points + 2) 0 ofull r points [].
