(* Instances of the generic scan / cell theorems for the concrete bodies of
   parallel.h: ScanBody (exclusive_scan), the lambda form (inclusive_scan),
   CopyIfScanBody (copy_if, remove_if, unique). *)
From Coq Require Import List Arith Bool Lia Permutation ZArith.
From MV Require Import Par.Sched Par.ParDefs Par.ScanModel.
Import ListNotations.

Lemma fold_left_map_idx : forall {T} (g : T -> nat -> T) (h : nat -> nat) l a,
    fold_left g (map h l) a = fold_left (fun t i => g t (h i)) l a.
Proof. intros T g h l. induction l as [|x l IH]; intros a; cbn; auto. Qed.

Lemma fold_seq_firstn : forall {T} (f : T -> T -> T) (d : T) xs k init, k <= length xs ->
    fold_left (fun t i => f t (nth i xs d)) (seq 0 k) init = fold_left f (firstn k xs) init.
Proof.
  intros T f d xs. induction xs as [|x xs IH]; intros k init Hk.
  - cbn in Hk. assert (k = 0) by lia. subst. reflexivity.
  - destruct k as [|k]; [reflexivity|]. cbn [seq fold_left firstn nth].
    rewrite <- seq_shift, fold_left_map_idx. cbn [nth]. apply IH. cbn in Hk. lia.
Qed.

(* ----------------------------------------------------- exclusive_scan *)
Section Excl.
  Context {T : Type}.
  Variable identity : T.
  Variable f : T -> T -> T.
  Hypothesis f_assoc : forall a b c, f (f a b) c = f a (f b c).
  Hypothesis id_l : forall a, f identity a = a.
  Hypothesis id_r : forall a, f a identity = a.

  Lemma excl_scan_correct : forall xs init ops out0,
      legal_scan (length xs) ops = true ->
      fst (excl_scan_par identity f xs init ops out0) = fold_left f xs init /\
      forall p, snd (excl_scan_par identity f xs init ops out0) p =
                if p <? length xs then fold_left f (firstn p xs) init else out0 p.
  Proof.
    intros xs init ops out0 HL. unfold excl_scan_par.
    set (m := fun i => nth i xs identity). set (emit := fun (t : T) (i : nat) => Some (i, t)).
    assert (Hinj : inj_on (sW f m emit init) (seq 0 (length xs))).
    { intros i j q _ _. unfold sW, emit. intros [= <-] [= <-]. reflexivity. }
    destruct (scan_par_seq identity f m emit f_assoc id_l id_r init (length xs) ops out0 HL Hinj) as [Hs Ho].
    rewrite scan_seq_closed in Hs, Ho. cbn [fst snd] in Hs, Ho.
    split.
    - rewrite Hs. unfold pre, prefix, m. rewrite fold_seq_firstn by lia. rewrite firstn_all. reflexivity.
    - intros p. rewrite Ho. rewrite run_idxs_identity_cells by reflexivity.
      destruct (p <? length xs) eqn:E; [|reflexivity]. apply Nat.ltb_lt in E.
      unfold sH, emit, pre, prefix, m. apply fold_seq_firstn. lia.
  Qed.
End Excl.

(* ----------------------------------------------------- inclusive_scan *)
Lemma incl_scan_correct : forall xs ops out0,
    legal_scan (length xs) ops = true ->
    forall p, snd (incl_scan_par xs ops out0) p =
              if p <? length xs then fold_left Z.add (firstn (S p) xs) 0%Z else out0 p.
Proof.
  intros xs ops out0 HL. unfold incl_scan_par.
  set (m := fun i => nth i xs 0%Z). set (emit := fun (t : Z) (i : nat) => Some (i, (t + nth i xs 0)%Z)).
  assert (Hinj : inj_on (sW Z.add m emit 0%Z) (seq 0 (length xs))).
  { intros i j q _ _. unfold sW, emit. intros [= <-] [= <-]. reflexivity. }
  destruct (scan_par_seq 0%Z Z.add m emit (fun a b c => eq_sym (Z.add_assoc a b c)) Z.add_0_l Z.add_0_r
             0%Z (length xs) ops out0 HL Hinj) as [_ Ho].
  rewrite scan_seq_closed in Ho. cbn [snd] in Ho.
  intros p. rewrite Ho.
  rewrite run_idxs_identity_cells by reflexivity.
  destruct (p <? length xs) eqn:E; [|reflexivity]. apply Nat.ltb_lt in E.
  unfold sH, emit. rewrite <- (fold_seq_firstn Z.add 0%Z xs (S p) 0%Z) by lia.
  rewrite seq_S, fold_left_app. cbn [fold_left plus]. reflexivity.
Qed.

(* ----------------------------------------------------- CopyIfScanBody *)
Section CopyIf.
  Context {V : Type}.
  Variable pred : nat -> bool.
  Variable input : nat -> V.

  Definition cm (i : nat) : nat := if pred i then 1 else 0.
  Definition cemit (t : nat) (i : nat) : option (nat * V) := if pred i then Some (t, input i) else None.
  Definition cnt (k : nat) : nat := pre Nat.add cm 0 k.

  Lemma cnt_S : forall k, cnt (S k) = cnt k + cm k.
  Proof. intros. apply pre_S. Qed.
  Lemma cnt_mono : forall i j, i <= j -> cnt i <= cnt j.
  Proof. intros i j H. induction H; [lia|]. rewrite cnt_S. lia. Qed.

  Lemma copy_if_inj : forall n, inj_on (sW Nat.add cm cemit 0) (seq 0 n).
  Proof.
    intros n i j q _ _. unfold sW, cemit. fold (cnt i) (cnt j).
    destruct (pred i) eqn:Pi; [|discriminate]. destruct (pred j) eqn:Pj; [|discriminate].
    intros [= <-] [= E].
    destruct (Nat.lt_trichotomy i j) as [L|[L|L]]; auto; exfalso.
    - pose proof (cnt_mono (S i) j L) as M. rewrite cnt_S in M. unfold cm in M. rewrite Pi in M. lia.
    - pose proof (cnt_mono (S j) i L) as M. rewrite cnt_S in M. unfold cm in M. rewrite Pj in M. lia.
  Qed.

  (* the protocol under any legal schedule = the sequential final scan of the body *)
  Lemma copy_if_body_seq : forall n ops out0, legal_scan n ops = true ->
      fst (copy_if_body_par pred input ops out0) = fst (scan_seq Nat.add cm cemit n 0 out0) /\
      forall q, snd (copy_if_body_par pred input ops out0) q = snd (scan_seq Nat.add cm cemit n 0 out0) q.
  Proof.
    intros n ops out0 HL. unfold copy_if_body_par.
    apply (scan_par_seq 0 Nat.add cm cemit); auto using copy_if_inj.
    - intros; lia.
  Qed.
End CopyIf.

Section CopyIfList.
  Context {V : Type}.
  Variable d : V.
  Variable p : V -> bool.

  (* the sequential final scan of CopyIfScanBody over a list IS the std::copy_if loop *)
  Lemma scan_seq_is_copy_if : forall xs l lo t out,
      (forall i, i < length l -> nth (lo + i) xs d = nth i l d) ->
      scan_range Nat.add (cm (fun i => p (nth i xs d)))
                 (cemit (fun i => p (nth i xs d)) (fun i => nth i xs d)) true (seq lo (length l)) t out
      = copy_if_seq_from p l t out.
  Proof.
    intros xs l. induction l as [|x l IH]; intros lo t out Hn; [reflexivity|].
    cbn [length seq scan_range copy_if_seq_from].
    assert (E : nth lo xs d = x) by (specialize (Hn 0); cbn in Hn; rewrite Nat.add_0_r in Hn; apply Hn; lia).
    replace (cm (fun i => p (nth i xs d)) lo) with (if p x then 1 else 0)
      by (unfold cm; rewrite E; reflexivity).
    replace (cemit (fun i => p (nth i xs d)) (fun i => nth i xs d) t lo) with (if p x then Some (t, x) else None)
      by (unfold cemit; rewrite E; reflexivity).
    destruct (p x).
    - rewrite Nat.add_1_r. apply IH. intros i Hi. specialize (Hn (S i)). cbn in Hn.
      rewrite <- Nat.add_succ_comm in Hn. apply Hn. lia.
    - rewrite Nat.add_0_r. apply IH. intros i Hi. specialize (Hn (S i)). cbn in Hn.
      rewrite <- Nat.add_succ_comm in Hn. apply Hn. lia.
  Qed.

  Lemma copy_if_seq_from_spec : forall xs k out,
      fst (copy_if_seq_from p xs k out) = k + length (filter p xs) /\
      map (snd (copy_if_seq_from p xs k out)) (seq k (length (filter p xs))) = filter p xs /\
      forall q, q < k \/ k + length (filter p xs) <= q -> snd (copy_if_seq_from p xs k out) q = out q.
  Proof.
    induction xs as [|x xs IH]; intros k out; cbn [copy_if_seq_from filter].
    - cbn. repeat split; auto.
    - destruct (p x) eqn:Px.
      + destruct (IH (S k) (upd k x out)) as (H1 & H2 & H3). cbn [length seq map]. repeat split.
        * rewrite H1. lia.
        * rewrite H2. f_equal. rewrite H3 by lia. unfold upd. rewrite Nat.eqb_refl. reflexivity.
        * intros q Hq. rewrite H3 by lia. unfold upd.
          destruct (q =? k) eqn:E; [apply Nat.eqb_eq in E; lia| reflexivity].
      + apply IH.
  Qed.

  Lemma copy_if_seq_from_ext : forall xs k o1 o2, (forall q, o1 q = o2 q) ->
      fst (copy_if_seq_from p xs k o1) = fst (copy_if_seq_from p xs k o2) /\
      forall q, snd (copy_if_seq_from p xs k o1) q = snd (copy_if_seq_from p xs k o2) q.
  Proof.
    induction xs as [|x xs IH]; intros k o1 o2 He; cbn [copy_if_seq_from]; [auto|].
    destruct (p x); auto. apply IH. intros q. unfold upd. destruct (q =? k); auto.
  Qed.

  (* the CopyIfScanBody protocol on a list, any legal schedule *)
  Lemma copy_if_body_correct : forall xs ops out0, legal_scan (length xs) ops = true ->
      let r := copy_if_body_par (fun i => p (nth i xs d)) (fun i => nth i xs d) ops out0 in
      fst r = length (filter p xs) /\
      map (snd r) (seq 0 (fst r)) = filter p xs /\
      forall q, fst r <= q -> snd r q = out0 q.
  Proof.
    intros xs ops out0 HL r.
    destruct (copy_if_body_seq (fun i => p (nth i xs d)) (fun i => nth i xs d) (length xs) ops out0 HL) as [Hf Hs].
    fold r in Hf, Hs. unfold scan_seq in Hf, Hs.
    rewrite (scan_seq_is_copy_if xs xs 0 0 out0) in Hf, Hs by (intros; reflexivity).
    destruct (copy_if_seq_from_spec xs 0 out0) as (H1 & H2 & H3). cbn [plus] in *.
    split; [rewrite Hf; exact H1|]. split.
    - rewrite Hf, H1. etransitivity; [|exact H2]. apply map_ext. intros; apply Hs.
    - intros q Hq. rewrite Hs. apply H3. right. rewrite <- H1, <- Hf. exact Hq.
  Qed.

  (* manifold::copy_if(Par,...): the scan, then (fall-through) std::copy_if again *)
  Lemma copy_if_par_correct : forall xs ops out0, legal_scan (length xs) ops = true ->
      let r := copy_if_par d p xs ops out0 in
      fst r = length (filter p xs) /\
      map (snd r) (seq 0 (fst r)) = filter p xs /\
      forall q, fst r <= q -> snd r q = out0 q.
  Proof.
    intros xs ops out0 HL r. unfold copy_if_par in r.
    destruct (copy_if_body_correct xs ops out0 HL) as (B1 & B2 & B3).
    destruct (copy_if_body_par (fun i => p (nth i xs d)) (fun i => nth i xs d) ops out0) as [k o] eqn:Eb.
    cbn [fst snd] in *. subst r. unfold copy_if_seq.
    destruct (copy_if_seq_from_spec xs 0 o) as (H1 & H2 & H3). cbn [plus] in *.
    split; [exact H1|]. split; [rewrite H1; exact H2|].
    intros q Hq. rewrite H3 by (right; lia). apply B3. rewrite B1. rewrite <- H1. exact Hq.
  Qed.

End CopyIfList.

Lemma remove_if_par_correct : forall {V} (d : V) p xs ops, legal_scan (length xs) ops = true ->
    remove_if_par d p xs ops = filter (fun v => negb (p v)) xs.
Proof.
  intros V d p xs ops HL. unfold remove_if_par.
  destruct (copy_if_par_correct d (fun v => negb (p v)) xs ops (fun _ => d) HL) as (H1 & H2 & _).
  destruct (copy_if_par d (fun v => negb (p v)) xs ops (fun _ => d)) as [k o]. cbn [fst snd] in *.
  exact H2.
Qed.

(* ------------------------------------------------------------- unique *)
(* one legal schedule per chunk: the serial one *)
Definition serial_ops (n : nat) : list scan_op := if n =? 0 then [] else [OFinal 0 0 n].

(* F10: a run of equal values that straddles a chunk boundary keeps a duplicate *)
Lemma unique_chunk_boundary_counterexample :
  legal_scan 1 (serial_ops 1) = true /\ legal_scan 0 (serial_ops 0) = true /\
  unique_par 2 [serial_ops 1; serial_ops 0] [7; 7; 7]%Z = Some [7; 7]%Z /\
  dedup [7; 7; 7]%Z = [7]%Z.
Proof. repeat split. Qed.
