(* Instances of the generic scan / cell theorems for the concrete bodies of
   parallel.h: ScanBody (exclusive_scan), the lambda form (inclusive_scan),
   CopyIfScanBody (copy_if, remove_if, unique). *)
From Coq Require Import List Arith Bool Lia Permutation ZArith.
From MV Require Import Par.Sched Par.ParDefs Par.ScanModel.
Import ListNotations.

Lemma fold_left_map_idx : forall {T} (g : T -> nat -> T) (h : nat -> nat) l a,
    fold_left g (map h l) a = fold_left (fun t i => g t (h i)) l a.
Proof. intros T g h l. induction l as [|x l IH]; intros a; cbn; auto. Qed.

Lemma fold_seq_firstn : forall {T} (f : T -> T -> T) (d : T) xs k init, k <= length xs ->
    fold_left (fun t i => f t (nth i xs d)) (seq 0 k) init = fold_left f (firstn k xs) init.
Proof.
  intros T f d xs. induction xs as [|x xs IH]; intros k init Hk.
  - cbn in Hk. assert (k = 0) by lia. subst. reflexivity.
  - destruct k as [|k]; [reflexivity|]. cbn [seq fold_left firstn nth].
    rewrite <- seq_shift, fold_left_map_idx. cbn [nth]. apply IH. cbn in Hk. lia.
Qed.

(* ----------------------------------------------------- exclusive_scan *)
Section Excl.
  Context {T : Type}.
  Variable identity : T.
  Variable f : T -> T -> T.
  Hypothesis f_assoc : forall a b c, f (f a b) c = f a (f b c).
  Hypothesis id_l : forall a, f identity a = a.
  Hypothesis id_r : forall a, f a identity = a.

  Lemma excl_scan_correct : forall xs init ops out0,
      legal_scan (length xs) ops = true ->
      fst (excl_scan_par identity f xs init ops out0) = fold_left f xs init /\
      forall p, snd (excl_scan_par identity f xs init ops out0) p =
                if p <? length xs then fold_left f (firstn p xs) init else out0 p.
  Proof.
    intros xs init ops out0 HL. unfold excl_scan_par.
    set (m := fun i => nth i xs identity). set (emit := fun (t : T) (i : nat) => Some (i, t)).
    assert (Hinj : inj_on (sW f m emit init) (seq 0 (length xs))).
    { intros i j q _ _. unfold sW, emit. intros [= <-] [= <-]. reflexivity. }
    destruct (scan_par_seq identity f m emit f_assoc id_l id_r init (length xs) ops out0 HL Hinj) as [Hs Ho].
    rewrite scan_seq_closed in Hs, Ho. cbn [fst snd] in Hs, Ho.
    split.
    - rewrite Hs. unfold pre, prefix, m. rewrite fold_seq_firstn by lia. rewrite firstn_all. reflexivity.
    - intros p. rewrite Ho. rewrite run_idxs_identity_cells by reflexivity.
      destruct (p <? length xs) eqn:E; [|reflexivity]. apply Nat.ltb_lt in E.
      unfold sH, emit, pre, prefix, m. apply fold_seq_firstn. lia.
  Qed.
End Excl.

(* ----------------------------------------------------- inclusive_scan *)
Lemma incl_scan_correct : forall xs ops out0,
    legal_scan (length xs) ops = true ->
    forall p, snd (incl_scan_par xs ops out0) p =
              if p <? length xs then fold_left Z.add (firstn (S p) xs) 0%Z else out0 p.
Proof.
  intros xs ops out0 HL. unfold incl_scan_par.
  set (m := fun i => nth i xs 0%Z). set (emit := fun (t : Z) (i : nat) => Some (i, (t + nth i xs 0)%Z)).
  assert (Hinj : inj_on (sW Z.add m emit 0%Z) (seq 0 (length xs))).
  { intros i j q _ _. unfold sW, emit. intros [= <-] [= <-]. reflexivity. }
  destruct (scan_par_seq 0%Z Z.add m emit (fun a b c => eq_sym (Z.add_assoc a b c)) Z.add_0_l Z.add_0_r
             0%Z (length xs) ops out0 HL Hinj) as [_ Ho].
  rewrite scan_seq_closed in Ho. cbn [snd] in Ho.
  intros p. rewrite Ho.
  rewrite run_idxs_identity_cells by reflexivity.
  destruct (p <? length xs) eqn:E; [|reflexivity]. apply Nat.ltb_lt in E.
  unfold sH, emit. rewrite <- (fold_seq_firstn Z.add 0%Z xs (S p) 0%Z) by lia.
  rewrite seq_S, fold_left_app. cbn [fold_left plus]. reflexivity.
Qed.

(* ----------------------------------------------------- CopyIfScanBody *)
Section CopyIf.
  Context {V : Type}.
  Variable pred : nat -> bool.
  Variable input : nat -> V.

  Definition cm (i : nat) : nat := if pred i then 1 else 0.
  Definition cemit (t : nat) (i : nat) : option (nat * V) := if pred i then Some (t, input i) else None.
  Definition cnt (k : nat) : nat := pre Nat.add cm 0 k.

  Lemma cnt_S : forall k, cnt (S k) = cnt k + cm k.
  Proof. intros. apply pre_S. Qed.
  Lemma cnt_mono : forall i j, i <= j -> cnt i <= cnt j.
  Proof. intros i j H. induction H; [lia|]. rewrite cnt_S. lia. Qed.

  Lemma copy_if_inj : forall n, inj_on (sW Nat.add cm cemit 0) (seq 0 n).
  Proof.
    intros n i j q _ _. unfold sW, cemit. fold (cnt i) (cnt j).
    destruct (pred i) eqn:Pi; [|discriminate]. destruct (pred j) eqn:Pj; [|discriminate].
    intros [= <-] [= E].
    destruct (Nat.lt_trichotomy i j) as [L|[L|L]]; auto; exfalso.
    - pose proof (cnt_mono (S i) j L) as M. rewrite cnt_S in M. unfold cm in M. rewrite Pi in M. lia.
    - pose proof (cnt_mono (S j) i L) as M. rewrite cnt_S in M. unfold cm in M. rewrite Pj in M. lia.
  Qed.

  (* the protocol under any legal schedule = the sequential final scan of the body *)
  Lemma copy_if_body_seq : forall n ops out0, legal_scan n ops = true ->
      fst (copy_if_body_par pred input ops out0) = fst (scan_seq Nat.add cm cemit n 0 out0) /\
      forall q, snd (copy_if_body_par pred input ops out0) q = snd (scan_seq Nat.add cm cemit n 0 out0) q.
  Proof.
    intros n ops out0 HL. unfold copy_if_body_par.
    apply (scan_par_seq 0 Nat.add cm cemit); auto using copy_if_inj.
    - intros; lia.
  Qed.
End CopyIf.

Section CopyIfList.
  Context {V : Type}.
  Variable d : V.
  Variable p : V -> bool.

  (* the sequential final scan of CopyIfScanBody over a list IS the std::copy_if loop *)
  Lemma scan_seq_is_copy_if : forall xs l lo t out,
      (forall i, i < length l -> nth (lo + i) xs d = nth i l d) ->
      scan_range Nat.add (cm (fun i => p (nth i xs d)))
                 (cemit (fun i => p (nth i xs d)) (fun i => nth i xs d)) true (seq lo (length l)) t out
      = copy_if_seq_from p l t out.
  Proof.
    intros xs l. induction l as [|x l IH]; intros lo t out Hn; [reflexivity|].
    cbn [length seq scan_range copy_if_seq_from].
    assert (E : nth lo xs d = x) by (specialize (Hn 0); cbn in Hn; rewrite Nat.add_0_r in Hn; apply Hn; lia).
    replace (cm (fun i => p (nth i xs d)) lo) with (if p x then 1 else 0)
      by (unfold cm; rewrite E; reflexivity).
    replace (cemit (fun i => p (nth i xs d)) (fun i => nth i xs d) t lo) with (if p x then Some (t, x) else None)
      by (unfold cemit; rewrite E; reflexivity).
    destruct (p x).
    - rewrite Nat.add_1_r. apply IH. intros i Hi. specialize (Hn (S i)). cbn in Hn.
      rewrite <- Nat.add_succ_comm in Hn. apply Hn. lia.
    - rewrite Nat.add_0_r. apply IH. intros i Hi. specialize (Hn (S i)). cbn in Hn.
      rewrite <- Nat.add_succ_comm in Hn. apply Hn. lia.
  Qed.

  Lemma copy_if_seq_from_spec : forall xs k out,
      fst (copy_if_seq_from p xs k out) = k + length (filter p xs) /\
      map (snd (copy_if_seq_from p xs k out)) (seq k (length (filter p xs))) = filter p xs /\
      forall q, q < k \/ k + length (filter p xs) <= q -> snd (copy_if_seq_from p xs k out) q = out q.
  Proof.
    induction xs as [|x xs IH]; intros k out; cbn [copy_if_seq_from filter].
    - cbn. repeat split; auto.
    - destruct (p x) eqn:Px.
      + destruct (IH (S k) (upd k x out)) as (H1 & H2 & H3). cbn [length seq map]. repeat split.
        * rewrite H1. lia.
        * rewrite H2. f_equal. rewrite H3 by lia. unfold upd. rewrite Nat.eqb_refl. reflexivity.
        * intros q Hq. rewrite H3 by lia. unfold upd.
          destruct (q =? k) eqn:E; [apply Nat.eqb_eq in E; lia| reflexivity].
      + apply IH.
  Qed.

  Lemma copy_if_seq_from_ext : forall xs k o1 o2, (forall q, o1 q = o2 q) ->
      fst (copy_if_seq_from p xs k o1) = fst (copy_if_seq_from p xs k o2) /\
      forall q, snd (copy_if_seq_from p xs k o1) q = snd (copy_if_seq_from p xs k o2) q.
  Proof.
    induction xs as [|x xs IH]; intros k o1 o2 He; cbn [copy_if_seq_from]; [auto|].
    destruct (p x); auto. apply IH. intros q. unfold upd. destruct (q =? k); auto.
  Qed.

  (* the CopyIfScanBody protocol on a list, any legal schedule *)
  Lemma copy_if_body_correct : forall xs ops out0, legal_scan (length xs) ops = true ->
      let r := copy_if_body_par (fun i => p (nth i xs d)) (fun i => nth i xs d) ops out0 in
      fst r = length (filter p xs) /\
      map (snd r) (seq 0 (fst r)) = filter p xs /\
      forall q, fst r <= q -> snd r q = out0 q.
  Proof.
    intros xs ops out0 HL r.
    destruct (copy_if_body_seq (fun i => p (nth i xs d)) (fun i => nth i xs d) (length xs) ops out0 HL) as [Hf Hs].
    fold r in Hf, Hs. unfold scan_seq in Hf, Hs.
    rewrite (scan_seq_is_copy_if xs xs 0 0 out0) in Hf, Hs by (intros; reflexivity).
    destruct (copy_if_seq_from_spec xs 0 out0) as (H1 & H2 & H3). cbn [plus] in *.
    split; [rewrite Hf; exact H1|]. split.
    - rewrite Hf, H1. etransitivity; [|exact H2]. apply map_ext. intros; apply Hs.
    - intros q Hq. rewrite Hs. apply H3. right. rewrite <- H1, <- Hf. exact Hq.
  Qed.

  (* manifold::copy_if(Par,...): the scan, then (fall-through) std::copy_if again *)
  Lemma copy_if_par_correct : forall xs ops out0, legal_scan (length xs) ops = true ->
      let r := copy_if_par d p xs ops out0 in
      fst r = length (filter p xs) /\
      map (snd r) (seq 0 (fst r)) = filter p xs /\
      forall q, fst r <= q -> snd r q = out0 q.
  Proof.
    intros xs ops out0 HL r. unfold copy_if_par in r.
    destruct (copy_if_body_correct xs ops out0 HL) as (B1 & B2 & B3).
    destruct (copy_if_body_par (fun i => p (nth i xs d)) (fun i => nth i xs d) ops out0) as [k o] eqn:Eb.
    cbn [fst snd] in *. subst r. unfold copy_if_seq.
    destruct (copy_if_seq_from_spec xs 0 o) as (H1 & H2 & H3). cbn [plus] in *.
    split; [exact H1|]. split; [rewrite H1; exact H2|].
    intros q Hq. rewrite H3 by (right; lia). apply B3. rewrite B1. rewrite <- H1. exact Hq.
  Qed.

End CopyIfList.

Lemma remove_if_par_correct : forall {V} (d : V) p xs ops, legal_scan (length xs) ops = true ->
    remove_if_par d p xs ops = filter (fun v => negb (p v)) xs.
Proof.
  intros V d p xs ops HL. unfold remove_if_par.
  destruct (copy_if_par_correct d (fun v => negb (p v)) xs ops (fun _ => d) HL) as (H1 & H2 & _).
  destruct (copy_if_par d (fun v => negb (p v)) xs ops (fun _ => d)) as [k o]. cbn [fst snd] in *.
  exact H2.
Qed.

(* ------------------------------------------------------------- unique *)
Section CopyIfGeneral.
  Context {V : Type}.
  Variable pred : nat -> bool.
  Variable input : nat -> V.

  Lemma scan_range_copyif_spec : forall l t out,
      let r := scan_range Nat.add (cm pred) (cemit pred input) true l t out in
      fst r = t + length (filter pred l) /\
      map (snd r) (seq t (length (filter pred l))) = map input (filter pred l) /\
      forall q, q < t \/ t + length (filter pred l) <= q -> snd r q = out q.
  Proof.
    induction l as [|i l IH]; intros t out; cbn [scan_range filter].
    - cbn. repeat split; auto.
    - change (cm pred i) with (if pred i then 1 else 0).
      change (cemit pred input t i) with (if pred i then Some (t, input i) else None).
      destruct (pred i) eqn:Pi.
      + rewrite Nat.add_1_r. destruct (IH (S t) (upd t (input i) out)) as (H1 & H2 & H3).
        cbn zeta in *. cbn [length seq map]. repeat split.
        * rewrite H1. lia.
        * rewrite H2. f_equal. rewrite H3 by lia. unfold upd. rewrite Nat.eqb_refl. reflexivity.
        * intros q Hq. rewrite H3 by lia. unfold upd.
          destruct (q =? t) eqn:E; [apply Nat.eqb_eq in E; lia| reflexivity].
      + rewrite Nat.add_0_r. apply IH.
  Qed.

  Lemma copy_if_body_general : forall n ops out0, legal_scan n ops = true ->
      let r := copy_if_body_par pred input ops out0 in
      fst r = length (filter pred (seq 0 n)) /\
      map (snd r) (seq 0 (fst r)) = map input (filter pred (seq 0 n)) /\
      forall q, fst r <= q -> snd r q = out0 q.
  Proof.
    intros n ops out0 HL r. destruct (copy_if_body_seq pred input n ops out0 HL) as [Hf Hs].
    fold r in Hf, Hs. unfold scan_seq in Hf, Hs.
    destruct (scan_range_copyif_spec (seq 0 n) 0 out0) as (H1 & H2 & H3). cbn zeta in *. cbn [plus] in *.
    split; [rewrite Hf; exact H1|]. split.
    - rewrite Hf, H1. etransitivity; [|exact H2]. apply map_ext. intros; apply Hs.
    - intros q Hq. rewrite Hs. apply H3. right. rewrite <- H1, <- Hf. exact Hq.
  Qed.
End CopyIfGeneral.

Local Open Scope Z_scope.
Fixpoint dedup_from (prev : Z) (l : list Z) : list Z :=
  match l with
  | [] => []
  | y :: r => if Z.eqb prev y then dedup_from y r else y :: dedup_from y r
  end.
Fixpoint adj (prev : Z) (l : list Z) : list (Z * Z) :=
  match l with [] => [] | y :: r => (prev, y) :: adj y r end.
Local Close Scope Z_scope.

Lemma dedup_cons : forall r x, dedup (x :: r) = x :: dedup_from x r.
Proof.
  induction r as [|y r IH]; intros x; [reflexivity|].
  change (dedup (x :: y :: r)) with (if Z.eqb x y then dedup (y :: r) else x :: dedup (y :: r)).
  cbn [dedup_from]. rewrite IH. destruct (Z.eqb x y) eqn:E; [|reflexivity].
  apply Z.eqb_eq in E. subst. reflexivity.
Qed.

Lemma last_cons_default : forall (a : list Z) y p, last (y :: a) p = last a y.
Proof.
  induction a as [|z a IH]; intros y p; [reflexivity|].
  change (last (y :: z :: a) p) with (last (z :: a) p). rewrite (IH z p), (IH z y). reflexivity.
Qed.

Lemma dedup_from_app : forall a b p, dedup_from p (a ++ b) = dedup_from p a ++ dedup_from (last a p) b.
Proof.
  induction a as [|y a IH]; intros b p; [reflexivity|].
  cbn [app dedup_from]. rewrite IH, last_cons_default. destruct (Z.eqb p y); reflexivity.
Qed.

Lemma dedup_app : forall P C, P <> [] -> dedup (P ++ C) = dedup P ++ dedup_from (last P 0%Z) C.
Proof.
  intros [|x r] C HP; [congruence|]. cbn [app]. rewrite !dedup_cons, dedup_from_app.
  rewrite last_cons_default. reflexivity.
Qed.

Lemma last_dedup : forall r x d, last (x :: dedup_from x r) d = last r x.
Proof.
  induction r as [|y r IH]; intros x d; [reflexivity|].
  cbn [dedup_from]. destruct (Z.eqb x y) eqn:E.
  - apply Z.eqb_eq in E. subst. rewrite IH. symmetry. apply last_cons_default.
  - change (last (x :: y :: dedup_from y r) d) with (last (y :: dedup_from y r) d).
    rewrite IH, last_cons_default. reflexivity.
Qed.

Lemma dedup_from_adj : forall l p,
    dedup_from p l = map snd (filter (fun ab => negb (Z.eqb (fst ab) (snd ab))) (adj p l)).
Proof.
  induction l as [|y l IH]; intros p; [reflexivity|].
  cbn [dedup_from adj filter fst snd]. destruct (Z.eqb p y); cbn [negb map snd]; rewrite IH; reflexivity.
Qed.

Lemma adj_length : forall l p, length (adj p l) = length l.
Proof. induction l; intros; cbn; auto. Qed.

Lemma nth_adj : forall l p i, i < length l ->
    nth i (adj p l) (0%Z, 0%Z) = (nth i (p :: l) 0%Z, nth (S i) (p :: l) 0%Z).
Proof.
  induction l as [|y l IH]; intros p i Hi; [cbn in Hi; lia|].
  destruct i as [|i]; [reflexivity|]. cbn [adj nth]. rewrite IH by (cbn in Hi; lia). reflexivity.
Qed.

Lemma filter_map_comm : forall {X Y} (p : Y -> bool) (g : X -> Y) l,
    filter p (map g l) = map g (filter (fun x => p (g x)) l).
Proof. intros X Y p g l. induction l as [|x l IH]; cbn; [reflexivity|]. destruct (p (g x)); cbn; rewrite IH; reflexivity. Qed.

(* what the scan body of one chunk (x0 :: rest) writes = dedup_from x0 rest *)
Lemma chunk_scan_writes : forall x0 rest,
    let tmp := x0 :: rest in
    map (fun i => nth (S i) tmp 0%Z)
        (filter (fun i => negb (Z.eqb (nth i tmp 0%Z) (nth (S i) tmp 0%Z))) (seq 0 (length rest)))
    = dedup_from x0 rest.
Proof.
  intros x0 rest tmp. rewrite dedup_from_adj.
  set (g := fun i => nth i (adj x0 rest) (0%Z, 0%Z)).
  set (ne := fun ab : Z * Z => negb (Z.eqb (fst ab) (snd ab))).
  rewrite <- (map_nth_seq (adj x0 rest) (0%Z, 0%Z)) at 1. rewrite adj_length.
  fold g. rewrite filter_map_comm, map_map.
  assert (E : filter (fun i => negb (Z.eqb (nth i tmp 0%Z) (nth (S i) tmp 0%Z))) (seq 0 (length rest))
              = filter (fun x => ne (g x)) (seq 0 (length rest))).
  { apply filter_ext_in. intros i Hi. apply in_seq in Hi. unfold ne, g. rewrite nth_adj by lia. reflexivity. }
  rewrite E. apply map_ext_in. intros i Hi. apply filter_In in Hi. destruct Hi as [Hi _]. apply in_seq in Hi.
  unfold g. rewrite nth_adj by lia. reflexivity.
Qed.

Lemma map_seq_last : forall (out : nat -> Z) n L d, 1 <= n -> map out (seq 0 n) = L -> out (n - 1) = last L d.
Proof.
  intros out n L d Hn E. destruct n as [|m]; [lia|]. rewrite seq_S, map_app in E. cbn in E. subst L.
  rewrite last_last. f_equal. lia.
Qed.

Lemma map_upd_snoc : forall (out : nat -> Z) k x, map (upd k x out) (seq 0 (k + 1)) = map out (seq 0 k) ++ [x].
Proof.
  intros out k x. rewrite Nat.add_1_r, seq_S, map_app. cbn [map plus]. f_equal.
  - apply map_ext_in. intros q Hq. apply in_seq in Hq. unfold upd.
    destruct (q =? k) eqn:E; [apply Nat.eqb_eq in E; lia|reflexivity].
  - unfold upd. rewrite Nat.eqb_refl. reflexivity.
Qed.

Lemma map_rebase : forall (o1 o2 : nat -> Z) a b,
    map (fun q => if q <? a then o1 q else o2 (q - a)) (seq 0 (a + b)) = map o1 (seq 0 a) ++ map o2 (seq 0 b).
Proof.
  intros o1 o2 a b. rewrite seq_app, map_app. f_equal.
  - apply map_ext_in. intros q Hq. apply in_seq in Hq.
    assert (q <? a = true) by (apply Nat.ltb_lt; lia). rewrite H. reflexivity.
  - cbn [plus]. induction b as [|b IH]; [reflexivity|].
    rewrite !seq_S, !map_app, IH. cbn [map plus]. f_equal.
    assert (a + b <? a = false) by (apply Nat.ltb_ge; lia). rewrite H.
    f_equal. f_equal. lia.
Qed.

Lemma removelast_map_seq : forall (out : nat -> Z) n, 1 <= n -> map out (seq 0 (n - 1)) = removelast (map out (seq 0 n)).
Proof.
  intros out n Hn. destruct n as [|m]; [lia|]. rewrite seq_S, map_app. cbn [map].
  rewrite removelast_last. f_equal. f_equal. lia.
Qed.

Lemma unique_chunks_correct : forall fuel maxbuf scheds started src out first P,
    1 <= maxbuf -> length src < fuel ->
    scheds_legal fuel maxbuf (length src) scheds ->
    (started = false -> P = [] /\ first = 0) -> (started = true -> P <> []) ->
    map out (seq 0 first) = dedup P ->
    exists o k, unique_chunks fuel maxbuf scheds started src out first = Some (o, k) /\
                map o (seq 0 k) = dedup (P ++ src).
Proof.
  induction fuel as [|fu IH]; intros maxbuf scheds started src out first P Hmb Hf HS Hns Hst Hacc; [lia|].
  cbn [unique_chunks]. destruct src as [|x0 tl].
  - exists out, first. rewrite app_nil_r. auto.
  - set (src := x0 :: tl) in *.
    set (len := Nat.min maxbuf (length src)).
    assert (Hlen : 1 <= len <= length src) by (subst len src; cbn [length]; lia).
    cbn [scheds_legal] in HS. assert (E0 : (length src =? 0) = false) by (apply Nat.eqb_neq; subst src; cbn; lia).
    rewrite E0 in HS. fold len in HS. destruct HS as [HL HS'].
    set (rest := firstn (len - 1) tl).
    assert (Htmp : firstn len src = x0 :: rest).
    { subst src rest. destruct len as [|l']; [lia|]. cbn [firstn]. f_equal. f_equal. lia. }
    assert (Hrl : length rest = len - 1).
    { subst rest. rewrite firstn_length. subst src. cbn [length] in Hlen. lia. }
    rewrite Htmp.
    set (first' := if started && Z.eqb (out (first - 1)) x0 then first - 1 else first).
    set (out1 := upd first' x0 out).
    (* the output so far, including this chunk's head *)
    assert (Hacc1 : map out1 (seq 0 (first' + 1)) ++ dedup_from x0 rest = dedup (P ++ (x0 :: rest))).
    { subst out1. rewrite map_upd_snoc. destruct started.
      - specialize (Hst eq_refl). rewrite dedup_app by auto.
        assert (Hfirst : 1 <= first).
        { destruct P as [|p0 pr]; [congruence|]. rewrite dedup_cons in Hacc.
          apply (f_equal (@length Z)) in Hacc. rewrite map_length, seq_length in Hacc. cbn in Hacc. lia. }
        assert (Hlast : out (first - 1) = last P 0%Z).
        { rewrite (map_seq_last out first (dedup P) 0%Z Hfirst Hacc).
          destruct P as [|p0 pr]; [congruence|]. rewrite dedup_cons, last_dedup. symmetry. apply last_cons_default. }
        subst first'. cbn [andb]. rewrite Hlast. cbn [dedup_from].
        destruct (Z.eqb (last P 0%Z) x0) eqn:E.
        + apply Z.eqb_eq in E. rewrite removelast_map_seq by auto. rewrite Hacc.
          assert (Hne : dedup P <> []) by (destruct P as [|p0 pr]; [congruence| rewrite dedup_cons; discriminate]).
          rewrite (app_removelast_last 0%Z Hne) at 2.
          replace (last (dedup P) 0%Z) with x0; [reflexivity|].
          destruct P as [|p0 pr]; [congruence|]. rewrite dedup_cons, last_dedup, <- E. apply last_cons_default.
        + rewrite Hacc, <- app_assoc. reflexivity.
      - destruct (Hns eq_refl) as [-> ->]. subst first'. cbn [andb app map seq]. rewrite dedup_cons. reflexivity. }
    destruct (copy_if_body_par
                (fun i => negb (Z.eqb (nth i (x0 :: rest) 0%Z) (nth (S i) (x0 :: rest) 0%Z)))
                (fun i => nth (S i) (x0 :: rest) 0%Z) (hd [] scheds) (fun q => out1 (first' + 1 + q)))
      as [sum out2] eqn:Ebody.
    pose proof (copy_if_body_general
                  (fun i => negb (Z.eqb (nth i (x0 :: rest) 0%Z) (nth (S i) (x0 :: rest) 0%Z)))
                  (fun i => nth (S i) (x0 :: rest) 0%Z) (len - 1) (hd [] scheds)
                  (fun q => out1 (first' + 1 + q)) HL) as G.
    rewrite Ebody in G. cbn zeta in G. cbn [fst snd] in G. destruct G as (G1 & G2 & _).
    rewrite <- Hrl in G2. rewrite chunk_scan_writes in G2.
    destruct (len =? 0) eqn:El; [apply Nat.eqb_eq in El; lia|].
    assert (Hsrc : src = (x0 :: rest) ++ skipn len src) by (rewrite <- Htmp; symmetry; apply firstn_skipn).
    destruct (IH maxbuf (List.tl scheds) true (skipn len src)
                 (fun q => if q <? first' + 1 then out1 q else out2 (q - (first' + 1)))
                 (first' + sum + 1) (P ++ (x0 :: rest))) as (o & k & Hrun & Hres); auto.
    + rewrite skipn_length. lia.
    + rewrite skipn_length. exact HS'.
    + discriminate.
    + intros _. destruct P; discriminate.
    + replace (first' + sum + 1) with ((first' + 1) + sum) by lia.
      rewrite map_rebase, G2. exact Hacc1.
    + exists o, k. split; [exact Hrun|]. rewrite Hres, <- app_assoc, <- Hsrc. reflexivity.
Qed.

(* unique(Par) = std::unique for every chunk size >= 1 and every legal schedule of every chunk's scan *)
Lemma unique_par_correct : forall maxbuf scheds src,
    1 <= maxbuf -> scheds_legal (S (length src)) maxbuf (length src) scheds ->
    unique_par maxbuf scheds src = Some (dedup src).
Proof.
  intros maxbuf scheds src Hmb HS. unfold unique_par. destruct src as [|x0 tl]; [reflexivity|].
  destruct (unique_chunks_correct (S (length (x0 :: tl))) maxbuf scheds false (x0 :: tl) (fun _ => 0%Z) 0 [])
    as (o & k & Hrun & Hres); auto; try discriminate.
  rewrite Hrun, Hres. reflexivity.
Qed.

Definition serial_ops (n : nat) : list scan_op := if n =? 0 then [] else [OFinal 0 0 n].
Lemma unique_example :
  scheds_legal 4 2 3 [serial_ops 1; serial_ops 0] /\
  unique_par 2 [serial_ops 1; serial_ops 0] [7; 7; 7]%Z = Some [7]%Z.
Proof. repeat split. Qed.

(* ------------------------------------------------- scans run in place *)
Section InPlaceFacts.
  Context {T : Type}.
  Variable identity : T.
  Variable f : T -> T -> T.
  Variable wr : T -> T -> T.
  Variable m : nat -> T.                      (* the ORIGINAL content of the shared buffer *)
  Definition emitw (t : T) (i : nat) : option (nat * T) := Some (i, wr t (m i)).

  Lemma scan_range_outside : forall fin idxs t out q, ~ In q idxs ->
      snd (scan_range f m emitw fin idxs t out) q = out q.
  Proof.
    intros fin idxs. induction idxs as [|i r IH]; intros t out q Hq; [reflexivity|].
    cbn [scan_range]. rewrite IH by (intros H; apply Hq; right; auto).
    destruct fin; [|reflexivity]. unfold emitw, upd.
    destruct (Nat.eqb_spec q i) as [->|]; [exfalso; apply Hq; left; auto| reflexivity].
  Qed.

  (* as long as every index about to be visited still holds its original value,
     the in-place loop behaves like the out-of-place one *)
  Lemma ascan_range_sim : forall fin idxs t buf out, NoDup idxs ->
      (forall p, buf p = out p) -> (forall i, In i idxs -> out i = m i) ->
      fst (ascan_range f wr fin idxs t buf) = fst (scan_range f m emitw fin idxs t out) /\
      forall p, snd (ascan_range f wr fin idxs t buf) p = snd (scan_range f m emitw fin idxs t out) p.
  Proof.
    intros fin idxs. induction idxs as [|i r IH]; intros t buf out Hnd Hb Hm; [cbn; auto|].
    inversion Hnd as [|? ? Hni Hnd']; subst. cbn [ascan_range scan_range].
    assert (Ex : buf i = m i) by (rewrite Hb; apply Hm; left; auto). rewrite Ex.
    apply IH; auto.
    - intros p. destruct fin; [|apply Hb]. unfold emitw, upd. destruct (p =? i); auto.
    - intros j Hj. destruct fin; [|apply Hm; right; auto]. unfold emitw, upd.
      destruct (Nat.eqb_spec j i) as [->|]; [contradiction| apply Hm; right; auto].
  Qed.

  Lemma forallb_not_done : forall done lo k,
      forallb (fun i => negb (existsb (Nat.eqb i) done)) (seq lo k) = true ->
      forall i, In i (seq lo k) -> ~ In i done.
  Proof.
    intros done lo k H i Hi Hd. rewrite forallb_forall in H. specialize (H i Hi).
    apply negb_true_iff in H. assert (existsb (Nat.eqb i) done = true); [|congruence].
    apply existsb_exists. exists i. split; auto. apply Nat.eqb_refl.
  Qed.

  Lemma inplace_sim : forall ops done sums buf out, pbf done ops = true ->
      (forall p, buf p = out p) -> (forall i, ~ In i done -> out i = m i) ->
      fst (fold_left (acstep identity f wr) ops (sums, buf)) = fst (fold_left (cstep identity f m emitw) ops (sums, out)) /\
      forall p, snd (fold_left (acstep identity f wr) ops (sums, buf)) p = snd (fold_left (cstep identity f m emitw) ops (sums, out)) p.
  Proof.
    induction ops as [|op ops IH]; intros done sums buf out Hp Hb Hm; [cbn; auto|].
    cbn [fold_left]. destruct op as [b c|b lo hi|b lo hi|b a|b a]; cbn [pbf acstep cstep] in *.
    - apply (IH done); auto.
    - apply andb_true_iff in Hp. destruct Hp as [Hd Hp].
      pose proof (forallb_not_done _ _ _ Hd) as Hnd.
      destruct (ascan_range_sim false (seq lo (hi - lo)) (nth b sums identity) buf out (seq_NoDup _ _) Hb
                  (fun i Hi => Hm i (Hnd i Hi))) as [E1 E2].
      destruct (ascan_range f wr false (seq lo (hi - lo)) (nth b sums identity) buf) as [sa ba].
      destruct (scan_range f m emitw false (seq lo (hi - lo)) (nth b sums identity) out) as [s o] eqn:Es.
      cbn [fst snd] in *. subst sa. apply (IH done); auto.
      intros i Hi. pose proof (scan_range_outside false (seq lo (hi - lo)) (nth b sums identity) out i) as O.
      rewrite Es in O. cbn [snd] in O.
      destruct (in_dec Nat.eq_dec i (seq lo (hi - lo))) as [Hin|Hout]; [|rewrite O; auto].
      (* a pre-scan writes nothing *)
      pose proof (scan_range_pre f m emitw (seq lo (hi - lo)) (nth b sums identity) out) as P.
      rewrite Es in P. injection P as _ ->. auto.
    - apply andb_true_iff in Hp. destruct Hp as [Hd Hp].
      pose proof (forallb_not_done _ _ _ Hd) as Hnd.
      destruct (ascan_range_sim true (seq lo (hi - lo)) (nth b sums identity) buf out (seq_NoDup _ _) Hb
                  (fun i Hi => Hm i (Hnd i Hi))) as [E1 E2].
      destruct (ascan_range f wr true (seq lo (hi - lo)) (nth b sums identity) buf) as [sa ba].
      destruct (scan_range f m emitw true (seq lo (hi - lo)) (nth b sums identity) out) as [s o] eqn:Es.
      cbn [fst snd] in *. subst sa. apply (IH (seq lo (hi - lo) ++ done)); auto.
      intros i Hi. pose proof (scan_range_outside true (seq lo (hi - lo)) (nth b sums identity) out i) as O.
      rewrite Es in O. cbn [snd] in O. rewrite O by (intros H; apply Hi, in_or_app; auto).
      apply Hm. intros H; apply Hi, in_or_app; auto.
    - apply (IH done); auto.
    - apply (IH done); auto.
  Qed.

  Lemma ascan_par_is_scan_par : forall init ops, pbf [] ops = true ->
      fst (ascan_par identity f wr init ops m) = fst (scan_par identity f m emitw init ops m) /\
      forall p, snd (ascan_par identity f wr init ops m) p = snd (scan_par identity f m emitw init ops m) p.
  Proof.
    intros init ops Hp. unfold ascan_par, scan_par.
    destruct (inplace_sim ops [] [init] m m Hp (fun _ => eq_refl) (fun _ _ => eq_refl)) as [E1 E2].
    destruct (fold_left (acstep identity f wr) ops ([init], m)) as [sa ba].
    destruct (fold_left (cstep identity f m emitw) ops ([init], m)) as [s o].
    cbn [fst snd] in *. subst. auto.
  Qed.
End InPlaceFacts.

(* exclusive_scan(Par, v, v, init, f, identity) in place = std::exclusive_scan in place *)
Lemma excl_scan_inplace_correct : forall {T} (identity : T) (f : T -> T -> T),
    (forall a b c, f (f a b) c = f a (f b c)) -> (forall a, f identity a = a) -> (forall a, f a identity = a) ->
    forall xs init ops, legal_scan_inplace (length xs) ops = true ->
      fst (excl_scan_inplace identity f xs init ops) = fold_left f xs init /\
      forall p, snd (excl_scan_inplace identity f xs init ops) p =
                if p <? length xs then fold_left f (firstn p xs) init else nth p xs identity.
Proof.
  intros T identity f Ha Hl Hr xs init ops HL. unfold legal_scan_inplace in HL. apply andb_true_iff in HL.
  destruct HL as [HL Hp]. unfold excl_scan_inplace.
  destruct (ascan_par_is_scan_par identity f (fun temp _ => temp) (fun i => nth i xs identity) init ops Hp) as [E1 E2].
  destruct (excl_scan_correct identity f Ha Hl Hr xs init ops (fun i => nth i xs identity) HL) as [C1 C2].
  unfold excl_scan_par in C1, C2. unfold emitw in E1, E2. split.
  - rewrite E1. exact C1.
  - intros p. rewrite E2. apply C2.
Qed.

Lemma incl_scan_inplace_correct : forall xs ops, legal_scan_inplace (length xs) ops = true ->
    forall p, snd (incl_scan_inplace xs ops) p =
              if p <? length xs then fold_left Z.add (firstn (S p) xs) 0%Z else nth p xs 0%Z.
Proof.
  intros xs ops HL. unfold legal_scan_inplace in HL. apply andb_true_iff in HL. destruct HL as [HL Hp].
  unfold incl_scan_inplace.
  destruct (ascan_par_is_scan_par 0%Z Z.add (fun temp x => (temp + x)%Z) (fun i => nth i xs 0%Z) 0%Z ops Hp) as [_ E2].
  pose proof (incl_scan_correct xs ops (fun i => nth i xs 0%Z) HL) as C. unfold incl_scan_par in C. unfold emitw in E2.
  intros p. rewrite E2. apply C.
Qed.

(* reading input[i] after the store (the temporary dropped) is NOT the exclusive scan when run in place *)
Lemma read_after_write_breaks_inplace :
  snd (ascan_range_read_after_write Z.add (seq 0 3) 0%Z (fun i => nth i [1; 2; 3]%Z 0%Z)) 2 = 0%Z /\
  snd (ascan_range Z.add (fun temp _ => temp) true (seq 0 3) 0%Z (fun i => nth i [1; 2; 3]%Z 0%Z)) 2 = 3%Z.
Proof. split; reflexivity. Qed.
