(* Lemmas about the sorting part of Par/ParDefs.v: the parallel merge and the
   parallel merge sort equal the stable insertion sort, for every threshold
   >= 2 (with a threshold of 0 or 1 mergeRec does not terminate: see
   pmerge_threshold_one_diverges). *)
From Coq Require Import List Arith Bool Lia Sorted Permutation.
From MV Require Import Par.Sched Par.ParDefs.
Import ListNotations.

Section SortFacts.
  Context {A : Type}.
  Variable lt : A -> A -> bool.
  Hypothesis lt_asym : forall a b, lt a b = true -> lt b a = false.
  Hypothesis lt_negtrans : forall a b c, lt a b = false -> lt b c = false -> lt a c = false.

  Lemma lt_trans : forall a b c, lt a b = true -> lt b c = true -> lt a c = true.
  Proof.
    intros a b c Hab Hbc. destruct (lt a c) eqn:Hac; auto.
    pose proof (lt_asym _ _ Hbc) as Hcb.
    rewrite (lt_negtrans _ _ _ Hac Hcb) in Hab. discriminate.
  Qed.

  (* x :: l sorted: nothing later is smaller than x *)
  Definition le (a b : A) : Prop := lt b a = false.
  Definition sorted (l : list A) : Prop := StronglySorted le l.

  Lemma merge_nil_l : forall l, merge lt [] l = l.
  Proof. destruct l; reflexivity. Qed.
  Lemma merge_nil_r : forall l, merge lt l [] = l.
  Proof. destruct l; reflexivity. Qed.
  Lemma merge_cons : forall a l1 b l2,
      merge lt (a :: l1) (b :: l2) = if lt b a then b :: merge lt (a :: l1) l2 else a :: merge lt l1 (b :: l2).
  Proof. reflexivity. Qed.

  Lemma merge_single_insert : forall x s, merge lt [x] s = insert lt x s.
  Proof.
    intros x s. induction s as [|y s IH]; [reflexivity|].
    rewrite merge_cons. cbn [insert]. destruct (lt y x); [rewrite IH; reflexivity|].
    rewrite merge_nil_l. reflexivity.
  Qed.

  Lemma merge_insert : forall x s1 s2, merge lt (insert lt x s1) s2 = insert lt x (merge lt s1 s2).
  Proof.
    intros x s1. induction s1 as [|a s1 IH1]; intros s2.
    - rewrite merge_nil_l. apply merge_single_insert.
    - cbn [insert]. destruct (lt a x) eqn:Hax.
      + induction s2 as [|b s2 IH2].
        * rewrite !merge_nil_r. cbn [insert]. rewrite Hax. reflexivity.
        * rewrite !merge_cons. destruct (lt b a) eqn:Hba.
          -- cbn [insert]. rewrite (lt_trans _ _ _ Hba Hax). rewrite IH2. reflexivity.
          -- cbn [insert]. rewrite Hax. rewrite <- IH1. reflexivity.
      + induction s2 as [|b s2 IH2].
        * rewrite !merge_nil_r. cbn [insert]. rewrite Hax. reflexivity.
        * rewrite (merge_cons x). rewrite (merge_cons a). destruct (lt b a) eqn:Hba.
          -- cbn [insert]. destruct (lt b x) eqn:Hbx.
             ++ rewrite IH2. reflexivity.
             ++ reflexivity.
          -- cbn [insert]. rewrite Hax. rewrite (lt_negtrans _ _ _ Hba Hax). reflexivity.
  Qed.

  Lemma isort_app : forall l1 l2, isort lt (l1 ++ l2) = merge lt (isort lt l1) (isort lt l2).
  Proof.
    induction l1 as [|x l1 IH]; intros l2; cbn [isort fold_right app].
    - rewrite merge_nil_l. reflexivity.
    - fold (isort lt (l1 ++ l2)). fold (isort lt l1). rewrite IH, merge_insert. reflexivity.
  Qed.

  Lemma insert_In : forall x y l, In y (insert lt x l) -> y = x \/ In y l.
  Proof.
    intros x y l. induction l as [|z l IH]; cbn [insert]; intros H.
    - destruct H as [H|[]]; auto.
    - destruct (lt z x).
      + destruct H as [H|H]; [right; left; auto|]. destruct (IH H); auto. right; right; auto.
      + destruct H as [H|H]; auto.
  Qed.

  Lemma insert_sorted : forall x l, sorted l -> sorted (insert lt x l).
  Proof.
    intros x l Hs. induction Hs as [|z l Hs IH Hz]; cbn [insert].
    - constructor; constructor.
    - destruct (lt z x) eqn:Hzx.
      + constructor; auto. apply Forall_forall. intros y Hy.
        destruct (insert_In _ _ _ Hy) as [->|Hy'].
        * unfold le. apply lt_asym; auto.
        * rewrite Forall_forall in Hz. apply Hz; auto.
      + constructor; [constructor; auto|]. constructor; [exact Hzx|].
        apply Forall_forall. intros y Hy. rewrite Forall_forall in Hz. unfold le in *.
        apply (lt_negtrans y z x); auto.
  Qed.

  Lemma isort_sorted : forall l, sorted (isort lt l).
  Proof. induction l; cbn; [constructor| apply insert_sorted; auto]. Qed.

  Lemma insert_perm : forall x l, Permutation (x :: l) (insert lt x l).
  Proof.
    intros x l. induction l as [|y l IH]; cbn [insert]; auto.
    destruct (lt y x); auto. eapply perm_trans; [apply perm_swap|]. constructor; auto.
  Qed.
  Lemma isort_perm : forall l, Permutation l (isort lt l).
  Proof.
    induction l as [|x l IH]; cbn; auto. eapply perm_trans; [|apply insert_perm]. constructor; auto.
  Qed.
  Lemma isort_length : forall l, length (isort lt l) = length l.
  Proof. intros. symmetry. apply Permutation_length, isort_perm. Qed.

  (* stability, stated directly: among elements that compare equivalent to a
     given key the original order is kept *)
  Lemma insert_filter_equiv : forall (p : A -> bool) x l,
      (forall y, p y = true -> p x = true -> lt y x = false) ->
      filter p (insert lt x l) = filter p (x :: l).
  Proof.
    intros p x l Hp. induction l as [|y l IH]; cbn [insert]; [reflexivity|].
    destruct (lt y x) eqn:Hyx; [|reflexivity].
    cbn [filter] in *. destruct (p y) eqn:Hpy.
    - destruct (p x) eqn:Hpx.
      + rewrite (Hp y Hpy eq_refl) in Hyx. discriminate.
      + rewrite IH. reflexivity.
    - rewrite IH. reflexivity.
  Qed.

  Lemma isort_stable : forall (p : A -> bool) l,
      (forall x y, p x = true -> p y = true -> lt x y = false) ->
      filter p (isort lt l) = filter p l.
  Proof.
    intros p l Hp. induction l as [|x l IH]; [reflexivity|].
    cbn [isort fold_right]. fold (isort lt l).
    rewrite insert_filter_equiv by (intros; apply Hp; auto).
    cbn [filter]. rewrite IH. reflexivity.
  Qed.

  (* ---------------------------------------------------------- merge splitting *)
  Lemma merge_split : forall a1 a2 b1 b2,
      (forall x y, In x a1 -> In y b2 -> lt y x = false) ->
      (forall y x, In y b1 -> In x a2 -> lt y x = true) ->
      merge lt (a1 ++ a2) (b1 ++ b2) = merge lt a1 b1 ++ merge lt a2 b2.
  Proof.
    induction a1 as [|x a1 IHa]; intros a2 b1 b2 C1 C2.
    - rewrite merge_nil_l. cbn [app].
      induction b1 as [|y b1 IHb]; [reflexivity|].
      cbn [app]. destruct a2 as [|x a2].
      + rewrite !merge_nil_l. reflexivity.
      + rewrite merge_cons. rewrite (C2 y x) by (left; reflexivity).
        rewrite IHb; [reflexivity|]. intros; apply C2; auto. right; auto.
    - induction b1 as [|y b1 IHb].
      + rewrite merge_nil_r. cbn [app]. destruct b2 as [|y b2].
        * rewrite !merge_nil_r. reflexivity.
        * rewrite merge_cons. rewrite (C1 x y) by (left; reflexivity).
          f_equal. specialize (IHa a2 [] (y :: b2)). cbn [app] in IHa. rewrite merge_nil_r in IHa.
          apply IHa; [intros; apply C1; auto; right; auto | intros ? ? []].
      + cbn [app]. rewrite !merge_cons. destruct (lt y x) eqn:Hyx.
        * cbn [app]. f_equal. cbn [app] in IHb. apply IHb. intros; apply C2; auto. right; auto.
        * cbn [app]. f_equal. specialize (IHa a2 (y :: b1) b2). cbn [app] in IHa. apply IHa; auto.
          intros; apply C1; auto. right; auto.
  Qed.

  (* ------------------------------------------------------------ bounds *)
  Lemma lower_bound_le : forall l v, lower_bound lt l v <= length l.
  Proof. induction l; intros; cbn; [lia|]. destruct (lt a v); [specialize (IHl v)|]; lia. Qed.
  Lemma upper_bound_le : forall l v, upper_bound lt l v <= length l.
  Proof. induction l; intros; cbn; [lia|]. destruct (lt v a); [|specialize (IHl v)]; lia. Qed.

  Lemma lower_bound_firstn : forall l v y, In y (firstn (lower_bound lt l v) l) -> lt y v = true.
  Proof.
    induction l as [|z l IH]; intros v y; cbn [lower_bound]; [intros []|].
    destruct (lt z v) eqn:Hz; cbn [firstn]; [|intros []].
    intros [<-|H]; auto.
  Qed.
  Lemma lower_bound_skipn : forall l v y, sorted l -> In y (skipn (lower_bound lt l v) l) -> lt y v = false.
  Proof.
    induction l as [|z l IH]; intros v y Hs; cbn [lower_bound]; [intros []|].
    inversion Hs as [|? ? Hs' Hz]; subst.
    destruct (lt z v) eqn:Hzv; cbn [skipn].
    - apply IH; auto.
    - intros [<-|H]; auto. rewrite Forall_forall in Hz. unfold le in Hz.
      apply (lt_negtrans y z v); auto.
  Qed.
  Lemma upper_bound_firstn : forall l v x, In x (firstn (upper_bound lt l v) l) -> lt v x = false.
  Proof.
    induction l as [|z l IH]; intros v x; cbn [upper_bound]; [intros []|].
    destruct (lt v z) eqn:Hz; cbn [firstn]; [intros []|].
    intros [<-|H]; auto.
  Qed.
  Lemma upper_bound_skipn : forall l v x, sorted l -> In x (skipn (upper_bound lt l v) l) -> lt v x = true.
  Proof.
    induction l as [|z l IH]; intros v x Hs; cbn [upper_bound]; [intros []|].
    inversion Hs as [|? ? Hs' Hz]; subst.
    destruct (lt v z) eqn:Hvz; cbn [skipn].
    - intros [<-|H]; auto. rewrite Forall_forall in Hz. unfold le in Hz.
      destruct (lt v x) eqn:Hvx; auto.
      rewrite (lt_negtrans v x z Hvx (Hz x H)) in Hvz. discriminate.
    - apply IH; auto.
  Qed.

  Lemma sorted_app_inv : forall l1 l2, sorted (l1 ++ l2) ->
      sorted l1 /\ sorted l2 /\ forall x y, In x l1 -> In y l2 -> lt y x = false.
  Proof.
    induction l1 as [|a l1 IH]; intros l2 H; cbn [app] in H.
    - split; [constructor|]. split; auto; intros ? ? [].
    - inversion H as [|? ? Hs Ha]; subst. destruct (IH _ Hs) as (S1 & S2 & S3).
      rewrite Forall_forall in Ha. split; [|split; auto].
      + constructor; auto. apply Forall_forall. intros; apply Ha, in_or_app; auto.
      + intros x y [<-|Hx] Hy; [apply Ha, in_or_app; auto| apply S3; auto].
  Qed.

  Lemma sorted_firstn : forall n l, sorted l -> sorted (firstn n l).
  Proof. intros n l H. rewrite <- (firstn_skipn n l) in H. apply sorted_app_inv in H. tauto. Qed.
  Lemma sorted_skipn : forall n l, sorted l -> sorted (skipn n l).
  Proof. intros n l H. rewrite <- (firstn_skipn n l) in H. apply sorted_app_inv in H. tauto. Qed.

  Lemma nth_error_skipn_cons : forall (l : list A) q pv, nth_error l q = Some pv ->
      exists r, skipn q l = pv :: r.
  Proof.
    induction l as [|a l IH]; intros [|q] pv; cbn; try discriminate.
    - intros [= ->]; eauto.
    - apply IH.
  Qed.

  (* --------------------------------------------------------------- mergeRec *)
  Lemma pmerge_correct : forall fuel thr l1 l2,
      2 <= thr -> sorted l1 -> sorted l2 -> length l1 + length l2 < fuel ->
      pmerge lt fuel thr l1 l2 = Some (merge lt l1 l2).
  Proof.
    induction fuel as [|fu IH]; intros thr l1 l2 Hthr S1 S2 Hf; [lia|].
    cbn [pmerge].
    destruct l1 as [|a1 t1]; [rewrite merge_nil_l; reflexivity|].
    destruct l2 as [|a2 t2]; [reflexivity|].
    set (l1 := a1 :: t1) in *. set (l2 := a2 :: t2) in *.
    destruct (length l1 + length l2 <=? thr) eqn:Hsmall; [reflexivity|].
    apply Nat.leb_gt in Hsmall.
    assert (Hn1 : 1 <= length l1) by (subst l1; cbn; lia).
    assert (Hn2 : 1 <= length l2) by (subst l2; cbn; lia).
    destruct (length l2 <? length l1) eqn:Hside.
    - (* left pivot *)
      apply Nat.ltb_lt in Hside.
      assert (Hq : 1 <= length l1 / 2 < length l1).
      { split; [apply Nat.div_le_lower_bound; lia| apply Nat.div_lt; lia]. }
      destruct (nth_error l1 (length l1 / 2)) as [pv|] eqn:Hpv;
        [|apply nth_error_None in Hpv; lia].
      set (q1 := length l1 / 2) in *. set (q2 := lower_bound lt l2 pv).
      pose proof (lower_bound_le l2 pv) as Hq2. fold q2 in Hq2.
      destruct (nth_error_skipn_cons _ _ _ Hpv) as [r Hr].
      rewrite IH; auto using sorted_firstn; [|rewrite !firstn_length; lia].
      rewrite IH; auto using sorted_skipn; [|rewrite !skipn_length; lia].
      rewrite <- merge_split.
      + rewrite !firstn_skipn. reflexivity.
      + intros x y Hx Hy.
        pose proof (lower_bound_skipn _ _ _ S2 Hy) as Hyp.
        pose proof S1 as S1'. rewrite <- (firstn_skipn q1 l1) in S1'.
        apply sorted_app_inv in S1'. destruct S1' as (_ & _ & S13).
        assert (Hpx : lt pv x = false) by (apply S13; auto; rewrite Hr; left; reflexivity).
        apply (lt_negtrans y pv x); auto.
      + intros y x Hy Hx.
        pose proof (lower_bound_firstn _ _ _ Hy) as Hyp.
        rewrite Hr in Hx. destruct Hx as [<-|Hx]; auto.
        pose proof (sorted_skipn q1 _ S1) as S1'. rewrite Hr in S1'.
        inversion S1' as [|? ? _ Hall]; subst. rewrite Forall_forall in Hall.
        specialize (Hall x Hx). unfold le in Hall.
        destruct (lt y x) eqn:Hyx; auto.
        rewrite (lt_negtrans y x pv Hyx Hall) in Hyp. discriminate.
    - (* right pivot *)
      apply Nat.ltb_ge in Hside.
      assert (Hq : 1 <= length l2 / 2 < length l2).
      { split; [apply Nat.div_le_lower_bound; lia| apply Nat.div_lt; lia]. }
      destruct (nth_error l2 (length l2 / 2)) as [pv|] eqn:Hpv;
        [|apply nth_error_None in Hpv; lia].
      set (q2 := length l2 / 2) in *. set (q1 := upper_bound lt l1 pv).
      pose proof (upper_bound_le l1 pv) as Hq1. fold q1 in Hq1.
      destruct (nth_error_skipn_cons _ _ _ Hpv) as [r Hr].
      rewrite IH; auto using sorted_firstn; [|rewrite !firstn_length; lia].
      rewrite IH; auto using sorted_skipn; [|rewrite !skipn_length; lia].
      rewrite <- merge_split.
      + rewrite !firstn_skipn. reflexivity.
      + intros x y Hx Hy.
        pose proof (upper_bound_firstn _ _ _ Hx) as Hxp.
        rewrite Hr in Hy. destruct Hy as [<-|Hy]; auto.
        pose proof (sorted_skipn q2 _ S2) as S2'. rewrite Hr in S2'.
        inversion S2' as [|? ? _ Hall]; subst. rewrite Forall_forall in Hall.
        specialize (Hall y Hy). unfold le in Hall.
        apply (lt_negtrans y pv x); auto.
      + intros y x Hy Hx.
        pose proof (upper_bound_skipn _ _ _ S1 Hx) as Hxp.
        pose proof S2 as S2'. rewrite <- (firstn_skipn q2 l2) in S2'.
        apply sorted_app_inv in S2'. destruct S2' as (_ & _ & S23).
        assert (Hpy : lt pv y = false) by (apply S23; auto; rewrite Hr; left; reflexivity).
        destruct (lt y x) eqn:Hyx; auto.
        rewrite (lt_negtrans pv y x Hpy Hyx) in Hxp. discriminate.
  Qed.

  (* ----------------------------------------------------------- mergeSortRec *)
  Lemma msort_correct : forall fuel thr l,
      2 <= thr -> length l < fuel -> msort lt fuel thr l = Some (isort lt l).
  Proof.
    induction fuel as [|fu IH]; intros thr l Hthr Hf; [lia|].
    cbn [msort]. destruct (length l <=? thr) eqn:Hsmall; [reflexivity|].
    apply Nat.leb_gt in Hsmall.
    assert (Hm : 1 <= length l / 2 < length l).
    { split; [apply Nat.div_le_lower_bound; lia| apply Nat.div_lt; lia]. }
    rewrite IH; auto; [|rewrite firstn_length; lia].
    rewrite IH; auto; [|rewrite skipn_length; lia].
    rewrite pmerge_correct; auto using isort_sorted.
    - rewrite <- isort_app, firstn_skipn. reflexivity.
    - rewrite !isort_length, firstn_length, skipn_length. lia.
  Qed.

  Lemma merge_sort_correct : forall thr l, 2 <= thr -> merge_sort lt thr l = Some (isort lt l).
  Proof. intros. unfold merge_sort. apply msort_correct; auto. Qed.
End SortFacts.

(* mergeRec with kSeqThreshold < 2 recurses for ever on two runs of one element
   that are out of order (the right-pivot branch makes no progress): for every
   fuel the model runs out.  The pinned constant is 10^4. *)
Lemma pmerge_threshold_one_diverges : forall fuel, pmerge Nat.ltb fuel 1 [2] [1] = None.
Proof.
  induction fuel as [|fu IH]; [reflexivity|].
  cbn [pmerge length Nat.add Nat.leb Nat.ltb Nat.div Nat.divmod fst nth_error upper_bound firstn skipn].
  cbn. cbn in IH. rewrite IH. destruct fu; reflexivity.
Qed.
