(* C04 x C13: parallel.h's merge sort (C13's model Par/ParDefs.merge_sort of
   mergeSort / mergeSortRec / mergeRec, proved equal to the stable insertion
   sort in Par/SortModel.v and tied to the source by C13's correspondence)
   meets the specification of "stable sort" that every C04 theorem is stated
   for.  So the sort_after_combine family applies to manifold::stable_sort on
   the parallel path, not only to std::stable_sort. *)
From Coq Require Import List Arith Bool Permutation Sorted.
From MV Require Import Par.NormaliseDefs Par.Normalise Par.ParDefs Par.SortModel.
Import ListNotations.

Lemma parallel_merge_sort_meets_spec_lemma {A} (lt : A -> A -> bool) :
  strict_weak lt ->
  forall (thr : nat) (l : list A), 2 <= thr ->
    exists o, merge_sort lt thr l = Some o /\ is_stable_sort_of lt l o.
Proof.
  intros SW thr l Ht.
  assert (Ha : forall a b, lt a b = true -> lt b a = false) by (apply (lt_asym lt SW)).
  assert (Hn : forall a b c, lt a b = false -> lt b c = false -> lt a c = false).
  { intros a b c H1 H2. exact (le_trans lt SW c b a H2 H1). }
  exists (isort lt l). split.
  - apply (merge_sort_correct lt Ha Hn thr l Ht).
  - split.
    + exact (isort_sorted lt Ha Hn l).
    + intros x. unfold class_of. symmetry. apply isort_stable.
      intros y z Ey Ez.
      assert (E : eqv lt y z = true).
      { rewrite (eqv_sym lt) in Ey. exact (sw_eqv_trans lt SW _ _ _ Ey Ez). }
      unfold eqv in E. apply andb_true_iff in E. destruct E as [E _].
      apply negb_true_iff in E. exact E.
Qed.
