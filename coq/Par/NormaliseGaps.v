(* C04, named gaps 1 and 2: what can be proved about Face2Tri's loop assembly
   (AssembleHalfedges) and about Winding03_'s component representatives. *)
From Coq Require Import ZArith List Bool Arith Permutation Sorted Lia.
From MV Require Import Par.NormaliseDefs Par.Normalise Par.Containers Par.UFConc.
Import ListNotations.

(* ------------------------------------------------------------------ *)
(* assemble_loop commutes with a relabelling f of the edge identities that is
   injective where it matters *)
Section AssembleMap.
  Context {V W : Type}.
  Variables (eqV : V -> V -> bool) (endV : V -> Z) (eqW : W -> W -> bool) (endW : W -> Z).
  Variable f : V -> W.
  Variable P : V -> Prop.
  Hypothesis Heq : forall a b, P a -> P b -> eqW (f a) (f b) = eqV a b.
  Hypothesis Hend : forall a, endW (f a) = endV a.

  Definition mapM (M : list (Z * V)) : list (Z * W) := map (fun kv => (fst kv, f (snd kv))) M.
  Definition PM (M : list (Z * V)) : Prop := Forall (fun kv => P (snd kv)) M.

  Lemma mm_find_map k M :
    mm_find k (mapM M) =
    match mm_find k M with Some (v, M') => Some (f v, mapM M') | None => None end.
  Proof.
    induction M as [|[k' v] r IH]; [reflexivity|]. cbn.
    destruct (Z.eqb k' k); [reflexivity|].
    fold (mapM r). rewrite IH. destruct (mm_find k r) as [[x r']|]; reflexivity.
  Qed.

  Lemma mm_find_P k M v M' : PM M -> mm_find k M = Some (v, M') -> P v /\ PM M'.
  Proof.
    revert v M'. induction M as [|[k' x] r IH]; intros v M' HP H; [discriminate|].
    cbn in H. inversion HP as [|? ? Px Pr]; subst. cbn in Px.
    destruct (Z.eqb k' k).
    - inversion H; subst. split; assumption.
    - destruct (mm_find k r) as [[y r']|] eqn:E; [|discriminate]. inversion H; subst.
      destruct (IH _ _ Pr eq_refl) as [Py Pr']. split; [assumption|]. constructor; assumption.
  Qed.

  Lemma rev_map_rev_map (polys : list (list V)) :
    rev (map (@rev W) (map (map f) polys)) = map (map f) (rev (map (@rev V) polys)).
  Proof.
    induction polys as [|p ps IH]; [reflexivity|]. cbn.
    rewrite IH, map_app. cbn. rewrite (map_rev f p). reflexivity.
  Qed.

  Lemma assemble_loop_map fuel :
    forall M s t polys, PM M -> P s -> P t ->
      assemble_loop eqW endW fuel (mapM M) (f s) (f t) (map (map f) polys) =
      option_map (map (map f)) (assemble_loop eqV endV fuel M s t polys).
  Proof.
    induction fuel as [|n IH]; intros M s t polys HM Hs Ht; [reflexivity|].
    assert (GO : forall M s t polys, PM M -> P s -> P t ->
      match map (map f) polys with
      | [] => None
      | p :: ps => match mm_find (endW (f t)) (mapM M) with
                   | None => None
                   | Some (nxt, M') => assemble_loop eqW endW n M' (f s) nxt ((f t :: p) :: ps)
                   end
      end =
      option_map (map (map f))
        match polys with
        | [] => None
        | p :: ps => match mm_find (endV t) M with
                     | None => None
                     | Some (nxt, M') => assemble_loop eqV endV n M' s nxt ((t :: p) :: ps)
                     end
        end).
    { clear M s t polys HM Hs Ht. intros M s t polys HM Hs Ht.
      destruct polys as [|p ps]; [reflexivity|]. cbn [map].
      rewrite Hend, mm_find_map.
      destruct (mm_find (endV t) M) as [[nxt M']|] eqn:E; [|reflexivity].
      destruct (mm_find_P _ _ _ _ HM E) as [Pn PM'].
      change ((f t :: map f p) :: map (map f) ps) with (map (map f) ((t :: p) :: ps)).
      apply IH; assumption. }
    cbn [assemble_loop]. rewrite (Heq t s Ht Hs).
    destruct (eqV t s).
    - destruct M as [|[k v] r].
      + cbn. rewrite rev_map_rev_map. reflexivity.
      + cbn [mapM map fst snd]. inversion HM as [|? ? Pv Pr]; subst. cbn in Pv.
        exact (GO ((k, v) :: r) v v ([] :: polys) HM Pv Pv).
    - exact (GO M s t polys HM Hs Ht).
  Qed.
End AssembleMap.

Lemma assemble_loop_start_irrelevant {V} (eqV : V -> V -> bool) endV n M (s s' : V) :
  eqV s s = true -> eqV s' s' = true ->
  assemble_loop eqV endV (S n) M s s [] = assemble_loop eqV endV (S n) M s' s' [].
Proof. intros E E'. cbn [assemble_loop]. rewrite E, E'. destruct M as [|[k v] r]; reflexivity. Qed.

(* ------------------------------------------------------------------ *)
Lemma key_lt_strict_weak {V} : strict_weak (@NormaliseDefs.key_lt V).
Proof.
  eapply strict_weak_ext; [|apply (lex_strict_weak [fun x : Z * V => fst x])].
  intros a b. unfold NormaliseDefs.key_lt. cbn. rewrite andb_false_r, orb_false_r. reflexivity.
Qed.

Lemma insert_map_key {V W} (g : Z * V -> Z * W) (Hg : forall a, fst (g a) = fst a) x l :
  map g (insert NormaliseDefs.key_lt x l) = insert NormaliseDefs.key_lt (g x) (map g l).
Proof.
  induction l as [|y t IH]; [reflexivity|]. cbn. unfold NormaliseDefs.key_lt at 1 3. rewrite !Hg.
  destruct (Z.ltb (fst y) (fst x)); cbn; [rewrite IH|]; reflexivity.
Qed.

Lemma stable_sort_map_key {V W} (g : Z * V -> Z * W) (Hg : forall a, fst (g a) = fst a) l :
  map g (stable_sort NormaliseDefs.key_lt l) = stable_sort NormaliseDefs.key_lt (map g l).
Proof.
  induction l as [|a l IH]; [reflexivity|]. cbn [stable_sort fold_right map].
  fold (stable_sort NormaliseDefs.key_lt l). fold (stable_sort NormaliseDefs.key_lt (map g l)).
  rewrite insert_map_key by assumption. rewrite IH. reflexivity.
Qed.

Definition hkey (e : Z * Z) : Z * (Z * Z) := (fst e, e).

Lemma combine_seq_contents d (es : list (Z * Z)) :
  forall pre,
    map (fun ki : Z * nat => (fst ki, nth (snd ki) (pre ++ es) d))
        (combine (map fst es) (seq (length pre) (length es))) = map hkey es.
Proof.
  induction es as [|e es IH]; intros pre; [reflexivity|]. cbn.
  rewrite app_nth2 by lia. rewrite Nat.sub_diag. cbn. f_equal.
  specialize (IH (pre ++ [e])). rewrite <- app_assoc in IH. cbn in IH.
  rewrite app_length in IH. cbn in IH. rewrite Nat.add_1_r in IH. exact IH.
Qed.

Lemma face_multimap_contents (es : list (Z * Z)) :
  map (fun ki : Z * nat => (fst ki, nth (snd ki) es (0, 0)%Z)) (face_multimap es) =
  stable_sort NormaliseDefs.key_lt (map hkey es).
Proof.
  unfold face_multimap. rewrite stable_sort_map_key by reflexivity.
  f_equal. exact (combine_seq_contents (0, 0)%Z es []).
Qed.

Lemma multimap_contents_perm (es es' : list (Z * Z)) :
  Permutation es es' -> NoDup (map fst es) ->
  stable_sort NormaliseDefs.key_lt (map hkey es) = stable_sort NormaliseDefs.key_lt (map hkey es').
Proof.
  intros Pm ND.
  apply (sort_after_permutation NormaliseDefs.key_lt key_lt_strict_weak (map hkey es) (map hkey es')).
  - apply Permutation_map. assumption.
  - intros a b Ha Hb E. apply in_map_iff in Ha, Hb.
    destruct Ha as [e1 [<- H1]], Hb as [e2 [<- H2]].
    assert (F : fst e1 = fst e2).
    { unfold eqv, NormaliseDefs.key_lt in E. cbn in E. apply andb_true_iff in E. destruct E as [E1 E2].
      apply negb_true_iff in E1, E2. apply Z.ltb_ge in E1, E2. lia. }
    rewrite (nodup_map_inj fst es e1 e2 ND H1 H2 F). reflexivity.
  - apply stable_sort_spec. apply key_lt_strict_weak.
  - apply stable_sort_spec. apply key_lt_strict_weak.
Qed.

Lemma face_multimap_in_range (es : list (Z * Z)) :
  Forall (fun ki : Z * nat => snd ki < length es) (face_multimap es).
Proof.
  apply Forall_forall. intros [k i] H. unfold face_multimap in H.
  destruct (stable_sort_spec NormaliseDefs.key_lt key_lt_strict_weak (combine (map fst es) (seq 0 (length es)))) as [_ C].
  assert (In (k, i) (combine (map fst es) (seq 0 (length es)))).
  { specialize (C (k, i)). unfold class_of in C.
    assert (I : In (k, i) (filter (eqv NormaliseDefs.key_lt (k, i)) (stable_sort NormaliseDefs.key_lt (combine (map fst es) (seq 0 (length es)))))).
    { apply filter_In. split; [assumption|]. apply (eqv_refl NormaliseDefs.key_lt key_lt_strict_weak). }
    rewrite <- C in I. apply filter_In in I. tauto. }
  apply in_combine_r in H0. apply in_seq in H0. cbn. lia.
Qed.

Lemma nth_fst_inj (es : list (Z * Z)) i j :
  NoDup (map fst es) -> i < length es -> j < length es ->
  Z.eqb (fst (nth i es (0, 0)%Z)) (fst (nth j es (0, 0)%Z)) = Nat.eqb i j.
Proof.
  intros ND Hi Hj.
  destruct (Nat.eqb_spec i j) as [->|N]; [apply Z.eqb_refl|].
  apply Z.eqb_neq. intros E. apply N.
  apply (proj1 (NoDup_nth (map fst es) 0%Z) ND); rewrite ?map_length; try assumption.
  change 0%Z with (fst (0, 0)%Z). rewrite !map_nth. exact E.
Qed.

Lemma assemble_contents_canonical (es : list (Z * Z)) :
  NoDup (map fst es) -> es <> [] ->
  option_map (contents es) (assemble_halfedges es) =
  assemble_loop (fun a b : Z * Z => Z.eqb (fst a) (fst b)) snd (2 * length es + 2)
                (stable_sort NormaliseDefs.key_lt (map hkey es)) (nth 0 es (0, 0)%Z) (nth 0 es (0, 0)%Z) [].
Proof.
  intros ND NE. unfold assemble_halfedges, contents.
  set (f := fun i : nat => nth i es (0, 0)%Z).
  rewrite <- (assemble_loop_map Nat.eqb (fun i => snd (nth i es (0, 0)%Z))
                (fun a b : Z * Z => Z.eqb (fst a) (fst b)) snd f (fun i => i < length es)).
  - unfold mapM. fold f. rewrite <- face_multimap_contents. reflexivity.
  - intros a b Ha Hb. unfold f. apply nth_fst_inj; assumption.
  - reflexivity.
  - apply face_multimap_in_range.
  - destruct es; [congruence|cbn; lia].
  - destruct es; [congruence|cbn; lia].
Qed.

Lemma assemble_slot_order_independent_lemma (es es' : list (Z * Z)) :
  Permutation es es' -> NoDup (map fst es) ->
  option_map (contents es) (assemble_halfedges es) =
  option_map (contents es') (assemble_halfedges es').
Proof.
  intros Pm ND.
  destruct es as [|e0 es0].
  { apply Permutation_nil in Pm. subst. reflexivity. }
  assert (NE' : es' <> []).
  { intros ->. apply Permutation_sym, Permutation_nil in Pm. discriminate. }
  assert (ND' : NoDup (map fst es')).
  { eapply Permutation_NoDup; [apply Permutation_map; exact Pm|assumption]. }
  rewrite assemble_contents_canonical by (assumption || discriminate).
  rewrite assemble_contents_canonical by assumption.
  rewrite <- (Permutation_length Pm).
  rewrite <- (multimap_contents_perm _ _ Pm ND).
  replace (2 * length (e0 :: es0) + 2) with (S (2 * length (e0 :: es0) + 1)) by lia.
  apply assemble_loop_start_irrelevant; apply Z.eqb_refl.
Qed.

(* ------------------------------------------------------------------ *)
(* gap 2 *)
Lemma root_of_same st v r : root_of st v r -> same st v r.
Proof.
  intros H. exists r. split; [assumption|].
  destruct (root_of_is_root _ _ _ H) as [L U]. apply RO_root; assumption.
Qed.

Lemma winding03_lemma :
  forall (n : nat) (ths0 : list thread) (st1 : uf_state) (ths1 : list thread)
         (st2 : uf_state) (ths2 : list thread) (wind : nat -> Z) (root1 root2 : nat -> nat),
    Forall (init_thread n) ths0 ->
    creach (uf_init n, ths0) (st1, ths1) -> Forall finished ths1 ->
    creach (uf_init n, ths0) (st2, ths2) -> Forall finished ths2 ->
    (forall v, v < n -> root_of st1 v (root1 v)) ->
    (forall v, v < n -> root_of st2 v (root2 v)) ->
    (forall a b, a < n -> b < n -> uf_equiv n (calls_of ths0) a b -> wind a = wind b) ->
    (forall a b, a < n -> b < n -> (same st1 a b <-> same st2 a b)) /\
    forall v, v < n -> w03_result wind root1 v = w03_result wind root2 v.
Proof.
  intros n ths0 st1 ths1 st2 ths2 wind root1 root2 I R1 F1 R2 F2 H1 H2 HW.
  destruct (uf_concurrent_partition n ths0 st1 ths1 I R1 F1) as [L1 [_ S1]].
  destruct (uf_concurrent_partition n ths0 st2 ths2 I R2 F2) as [L2 [_ S2]].
  split.
  - intros a b Ha Hb. rewrite (S1 a b Ha Hb), (S2 a b Ha Hb). tauto.
  - intros v Hv. unfold w03_result.
    assert (B1 : root1 v < n).
    { destruct (root_of_is_root _ _ _ (H1 v Hv)) as [L _]. lia. }
    assert (B2 : root2 v < n).
    { destruct (root_of_is_root _ _ _ (H2 v Hv)) as [L _]. lia. }
    rewrite <- (HW v (root1 v) Hv B1) by (apply S1; try assumption; apply root_of_same; auto).
    apply (HW v (root2 v) Hv B2). apply S2; try assumption. apply root_of_same; auto.
Qed.

(* ------------------------------------------------------------------ *)
(* witnesses *)
Local Open Scope Z_scope.
Definition face_a : list (Z * Z) := [(1,2);(2,3);(3,4);(4,1);(5,6);(6,7);(7,5)].
Definition face_a_perm : list (Z * Z) := [(7,5);(3,4);(5,6);(1,2);(4,1);(6,7);(2,3)].

Lemma face_a_example :
  Permutation face_a face_a_perm /\ NoDup (map fst face_a) /\
  assemble_halfedges face_a <> assemble_halfedges face_a_perm /\
  option_map (contents face_a) (assemble_halfedges face_a) =
    Some [[(1,2);(2,3);(3,4);(4,1)]; [(5,6);(6,7);(7,5)]] /\
  option_map (contents face_a_perm) (assemble_halfedges face_a_perm) =
    Some [[(1,2);(2,3);(3,4);(4,1)]; [(5,6);(6,7);(7,5)]].
Proof.
  split.
  { unfold face_a, face_a_perm.
    apply Permutation_sym.
    apply Permutation_cons_app with (l1 := [(1,2);(2,3);(3,4);(4,1);(5,6);(6,7)]) (l2 := []).
    apply Permutation_cons_app with (l1 := [(1,2);(2,3)]) (l2 := [(4,1);(5,6);(6,7)]).
    apply Permutation_cons_app with (l1 := [(1,2);(2,3);(4,1)]) (l2 := [(6,7)]).
    apply perm_skip.
    apply Permutation_cons_app with (l1 := [(2,3)]) (l2 := [(6,7)]).
    apply perm_swap. }
  split; [repeat constructor; cbn; intuition (try discriminate; try lia)|].
  split; [vm_compute; discriminate|]. split; vm_compute; reflexivity.
Qed.

(* a face that visits vertex 1 twice (pinched): the tie in the multimap is
   broken by slot order and the contours come out in a different order *)
Lemma assemble_pinched_face_depends_on_slots :
  exists es es' : list (Z * Z),
    Permutation es es' /\
    option_map (contents es) (assemble_halfedges es) <> option_map (contents es') (assemble_halfedges es').
Proof.
  exists [(1,2);(2,3);(3,1);(1,4);(4,5);(5,1)], [(1,4);(4,5);(5,1);(1,2);(2,3);(3,1)].
  split; [|vm_compute; discriminate].
  change (Permutation ([(1,2);(2,3);(3,1)] ++ [(1,4);(4,5);(5,1)]) ([(1,4);(4,5);(5,1)] ++ [(1,2);(2,3);(3,1)])).
  apply Permutation_app_comm.
Qed.

Lemma winding03_example :
  Forall (init_thread 2) [] /\ creach (uf_init 2, []) (uf_init 2, []) /\ Forall finished [] /\
  (forall v, (v < 2)%nat -> root_of (uf_init 2) v v).
Proof.
  split; [constructor|]. split; [constructor|]. split; [constructor|].
  intros v Hv. apply RO_root; [cbn; lia|].
  destruct v as [|[|v]]; [reflexivity|reflexivity|lia].
Qed.
