(* C04: lemmas about the determinism idioms of Par/NormaliseDefs.v. *)
From Coq Require Import ZArith List Bool Arith Permutation Sorted Lia.
From MV Require Import Par.NormaliseDefs.
Import ListNotations.

(* ------------------------------------------------------------------ *)
(* generic list facts *)

Lemma perm_filter {A} (f : A -> bool) (l l' : list A) :
  Permutation l l' -> Permutation (filter f l) (filter f l').
Proof.
  induction 1; cbn.
  - constructor.
  - destruct (f x); auto.
  - destruct (f x), (f y); auto using perm_swap.
  - eapply perm_trans; eauto.
Qed.

Lemma perm_concat {A} (l l' : list (list A)) :
  Permutation l l' -> Permutation (concat l) (concat l').
Proof.
  induction 1; cbn.
  - constructor.
  - apply Permutation_app_head; assumption.
  - rewrite !app_assoc. apply Permutation_app_tail. apply Permutation_app_comm.
  - eapply perm_trans; eauto.
Qed.

Lemma all_equal_perm_eq {A} (c1 : list A) :
  forall c2, (forall a b, In a c1 -> In b c1 -> a = b) -> Permutation c1 c2 -> c1 = c2.
Proof.
  induction c1 as [|a t IH]; intros c2 Heq Hp.
  - apply Permutation_nil in Hp. congruence.
  - destruct c2 as [|b t2].
    + apply Permutation_sym, Permutation_nil in Hp. discriminate.
    + assert (b = a).
      { apply Heq; [|left; reflexivity].
        eapply Permutation_in; [apply Permutation_sym; exact Hp|left; reflexivity]. }
      subst b. f_equal. apply IH.
      * intros x y Hx Hy. apply Heq; right; assumption.
      * eapply Permutation_cons_inv; exact Hp.
Qed.

Lemma filter_split_perm {A} (f : A -> bool) (l : list A) :
  Permutation l (filter f l ++ filter (fun x => negb (f x)) l).
Proof.
  induction l as [|x l IH]; cbn; [constructor|].
  destruct (f x); cbn.
  - constructor; assumption.
  - apply Permutation_cons_app. assumption.
Qed.

(* ------------------------------------------------------------------ *)
Section SortThy.
  Context {A : Type}.
  Variable lt : A -> A -> bool.
  Hypothesis SW : strict_weak lt.

  Lemma eqv_refl a : eqv lt a a = true.
  Proof. unfold eqv. rewrite (sw_irrefl lt SW). reflexivity. Qed.

  Lemma eqv_sym a b : eqv lt a b = eqv lt b a.
  Proof. unfold eqv. apply andb_comm. Qed.

  Lemma lt_asym a b : lt a b = true -> lt b a = false.
  Proof.
    intros H. destruct (lt b a) eqn:E; [|reflexivity].
    pose proof (sw_trans lt SW _ _ _ H E) as F. rewrite (sw_irrefl lt SW) in F. discriminate.
  Qed.

  (* "not greater" is transitive *)
  Lemma le_trans a b c : lt b a = false -> lt c b = false -> lt c a = false.
  Proof.
    intros Hba Hcb. destruct (lt c a) eqn:Hca; [|reflexivity]. exfalso.
    assert (Ebc : eqv lt b c = true).
    { unfold eqv. rewrite Hcb. destruct (lt b c) eqn:Hbc; [|reflexivity].
      pose proof (sw_trans lt SW _ _ _ Hbc Hca). congruence. }
    assert (Eab : eqv lt a b = true).
    { unfold eqv. rewrite Hba. destruct (lt a b) eqn:Hab; [|reflexivity].
      pose proof (sw_trans lt SW _ _ _ Hca Hab). congruence. }
    pose proof (sw_eqv_trans lt SW _ _ _ Eab Ebc) as Eac.
    unfold eqv in Eac. rewrite Hca in Eac. rewrite andb_false_r in Eac. discriminate.
  Qed.

  Lemma insert_in x l y : In y (insert lt x l) <-> y = x \/ In y l.
  Proof.
    induction l as [|z t IH]; cbn.
    - intuition.
    - destruct (lt z x); cbn; rewrite ?IH; intuition.
  Qed.

  Lemma insert_sorted x l : sorted_by lt l -> sorted_by lt (insert lt x l).
  Proof.
    unfold sorted_by. induction 1 as [|y t Hs IH Hf]; cbn.
    - constructor; constructor.
    - destruct (lt y x) eqn:E.
      + constructor; [assumption|].
        apply Forall_forall. intros b Hb. apply insert_in in Hb. destruct Hb as [->|Hb].
        * apply lt_asym; assumption.
        * rewrite Forall_forall in Hf. auto.
      + constructor; [constructor; assumption|].
        constructor; [assumption|].
        rewrite Forall_forall in *. intros b Hb. eapply le_trans; [exact E|auto].
  Qed.

  Lemma insert_class z x l : class_of lt z (insert lt x l) = class_of lt z (x :: l).
  Proof.
    unfold class_of. induction l as [|y t IH]; [reflexivity|].
    cbn [insert]. destruct (lt y x) eqn:E.
    - cbn [filter] in *. rewrite IH.
      destruct (eqv lt z x) eqn:Ezx; [|reflexivity].
      assert (Ezy : eqv lt z y = false).
      { destruct (eqv lt z y) eqn:Ezy; [|reflexivity].
        rewrite eqv_sym in Ezx. pose proof (sw_eqv_trans lt SW _ _ _ Ezx Ezy) as F.
        unfold eqv in F. rewrite (lt_asym _ _ E) in F. rewrite E in F. cbn in F. discriminate. }
      rewrite Ezy. reflexivity.
    - reflexivity.
  Qed.

  Lemma stable_sort_sorted l : sorted_by lt (stable_sort lt l).
  Proof.
    induction l as [|a l IH]; cbn.
    - constructor.
    - apply insert_sorted. assumption.
  Qed.

  Lemma stable_sort_classes l : same_classes lt l (stable_sort lt l).
  Proof.
    intros z. induction l as [|a l IH]; [reflexivity|].
    cbn [stable_sort fold_right]. fold (stable_sort lt l).
    rewrite insert_class. unfold class_of in *. cbn [filter]. rewrite IH. reflexivity.
  Qed.

  Lemma stable_sort_spec l : is_stable_sort_of lt l (stable_sort lt l).
  Proof. split; [apply stable_sort_sorted|apply stable_sort_classes]. Qed.

  Lemma class_head_in z a l r : class_of lt z l = a :: r -> In a l.
  Proof.
    unfold class_of. intros H.
    assert (In a (filter (eqv lt z) l)) by (rewrite H; left; reflexivity).
    apply filter_In in H0. tauto.
  Qed.

  (* a list sorted w.r.t. the comparator is determined by its classes *)
  Lemma sorted_classes_unique l1 :
    forall l2, sorted_by lt l1 -> sorted_by lt l2 -> same_classes lt l1 l2 -> l1 = l2.
  Proof.
    unfold sorted_by, same_classes.
    induction l1 as [|a t1 IH]; intros l2 S1 S2 C.
    - destruct l2 as [|b t2]; [reflexivity|].
      specialize (C b). unfold class_of in C. cbn in C. rewrite eqv_refl in C. discriminate.
    - destruct l2 as [|b t2].
      { specialize (C a). unfold class_of in C. cbn in C. rewrite eqv_refl in C. discriminate. }
      inversion S1 as [|? ? S1' F1]; subst. inversion S2 as [|? ? S2' F2]; subst.
      rewrite Forall_forall in F1, F2.
      assert (Hab : a = b).
      { pose proof (C a) as Ca. unfold class_of in Ca. cbn in Ca. rewrite eqv_refl in Ca.
        destruct (eqv lt a b) eqn:Eab; [congruence|].
        symmetry in Ca. apply class_head_in in Ca. apply F2 in Ca.
        pose proof (C b) as Cb. unfold class_of in Cb. cbn in Cb. rewrite eqv_refl in Cb.
        rewrite eqv_sym in Eab. rewrite Eab in Cb.
        apply class_head_in in Cb. apply F1 in Cb.
        unfold eqv in Eab. rewrite Ca, Cb in Eab. discriminate. }
      subst b. f_equal. apply IH; try assumption.
      intros z. specialize (C z). unfold class_of in *. cbn in C.
      destruct (eqv lt z a); congruence.
  Qed.

  (* The characterisation used everywhere: the output of a stable sort depends
     only on the per-class subsequences of its input. *)
  Lemma stable_sort_determined l1 l2 o1 o2 :
    same_classes lt l1 l2 -> is_stable_sort_of lt l1 o1 -> is_stable_sort_of lt l2 o2 -> o1 = o2.
  Proof.
    intros C [S1 C1] [S2 C2]. apply sorted_classes_unique; try assumption.
    intros z. rewrite <- C1, <- C2. apply C.
  Qed.

  Lemma injective_perm_same_classes l1 l2 :
    Permutation l1 l2 -> key_injective_on lt l1 -> same_classes lt l1 l2.
  Proof.
    intros P Inj z. unfold class_of. apply all_equal_perm_eq.
    - intros a b Ha Hb. apply filter_In in Ha, Hb. destruct Ha as [Ha Ea], Hb as [Hb Eb].
      apply Inj; try assumption.
      rewrite eqv_sym in Ea. eapply (sw_eqv_trans lt SW); eassumption.
    - apply perm_filter. assumption.
  Qed.

  Lemma key_injective_perm l1 l2 :
    Permutation l1 l2 -> key_injective_on lt l1 -> key_injective_on lt l2.
  Proof.
    intros P Inj a b Ha Hb. apply Inj; eapply Permutation_in; try eassumption; apply Permutation_sym; assumption.
  Qed.

  Lemma sort_after_permutation l1 l2 o1 o2 :
    Permutation l1 l2 -> key_injective_on lt l1 ->
    is_stable_sort_of lt l1 o1 -> is_stable_sort_of lt l2 o2 -> o1 = o2.
  Proof.
    intros P Inj. apply stable_sort_determined. apply injective_perm_same_classes; assumption.
  Qed.

  (* with a separating comparator even an unstable sort has one possible output *)
  Lemma unstable_is_stable_when_injective l o :
    key_injective_on lt l -> is_unstable_sort_of lt l o -> is_stable_sort_of lt l o.
  Proof.
    intros Inj [S P]. split; [assumption|]. apply injective_perm_same_classes; assumption.
  Qed.

  (* runs: equal keys occur only inside one atomically pushed run *)
  Lemma concat_perm_one_nonempty (L1 L2 : list (list A)) :
    Permutation L1 L2 ->
    (forall u v, In u L1 -> In v L1 -> u <> [] -> v <> [] -> u = v) ->
    concat L1 = concat L2.
  Proof.
    induction 1 as [|x l l' P IH|x y l|l l' l'' P1 IH1 P2 IH2]; intros H.
    - reflexivity.
    - cbn. f_equal. apply IH. intros u v Hu Hv. apply H; right; assumption.
    - cbn. rewrite !app_assoc. f_equal.
      destruct x as [|x0 xs]; [rewrite app_nil_r; reflexivity|].
      destruct y as [|y0 ys]; [cbn; rewrite app_nil_r; reflexivity|].
      assert (E : y0 :: ys = x0 :: xs).
      { apply H; [left; reflexivity|right; left; reflexivity|discriminate|discriminate]. }
      rewrite E. reflexivity.
    - rewrite IH1 by assumption. apply IH2.
      intros u v Hu Hv. apply H; eapply Permutation_in; try eassumption; apply Permutation_sym; assumption.
  Qed.

  Lemma filter_concat (f : A -> bool) (L : list (list A)) :
    filter f (concat L) = concat (map (filter f) L).
  Proof.
    induction L as [|x L IH]; [reflexivity|]. cbn. rewrite filter_app, IH. reflexivity.
  Qed.

  Lemma runs_same_classes (R1 R2 : list (list A)) :
    Permutation R1 R2 ->
    (forall r1 r2 a b, In r1 R1 -> In r2 R1 -> In a r1 -> In b r2 -> eqv lt a b = true -> r1 = r2) ->
    same_classes lt (concat R1) (concat R2).
  Proof.
    intros P H z. unfold class_of. rewrite !filter_concat.
    apply concat_perm_one_nonempty.
    - apply Permutation_map. assumption.
    - intros u v Hu Hv Nu Nv.
      apply in_map_iff in Hu. destruct Hu as [r1 [<- Hr1]].
      apply in_map_iff in Hv. destruct Hv as [r2 [<- Hr2]].
      destruct (filter (eqv lt z) r1) as [|a ?] eqn:F1; [congruence|].
      destruct (filter (eqv lt z) r2) as [|b ?] eqn:F2; [congruence|].
      assert (Ia : In a (filter (eqv lt z) r1)) by (rewrite F1; left; reflexivity).
      assert (Ib : In b (filter (eqv lt z) r2)) by (rewrite F2; left; reflexivity).
      apply filter_In in Ia, Ib. destruct Ia as [Ia Ea], Ib as [Ib Eb].
      assert (r1 = r2).
      { eapply H; try eassumption. rewrite eqv_sym in Ea. eapply (sw_eqv_trans lt SW); eassumption. }
      subst r2. congruence.
  Qed.

  Lemma heap_top_unique (l : list A) a b :
    is_heap_top lt l a -> is_heap_top lt l b -> eqv lt a b = true.
  Proof.
    intros [Ha Ma] [Hb Mb]. unfold eqv. rewrite (Ma b Hb), (Mb a Ha). reflexivity.
  Qed.
End SortThy.

(* ------------------------------------------------------------------ *)
(* combinable *)

Lemma local_of_filter_other {A} (w w' : nat) (e : @exec A) :
  w' <> w ->
  local_of w' (filter (fun p => negb (Nat.eqb (fst p) w)) e) = local_of w' e.
Proof.
  intros N. unfold local_of. f_equal. f_equal.
  induction e as [|p e IH]; [reflexivity|]. cbn.
  destruct (Nat.eqb (fst p) w) eqn:E1; cbn.
  - apply Nat.eqb_eq in E1.
    destruct (Nat.eqb (fst p) w') eqn:E2; [apply Nat.eqb_eq in E2; congruence|]. assumption.
  - destruct (Nat.eqb (fst p) w'); [f_equal|]; assumption.
Qed.

Lemma flat_map_ext_in {A B} (f g : A -> list B) (l : list A) :
  (forall x, In x l -> f x = g x) -> flat_map f l = flat_map g l.
Proof.
  induction l as [|x l IH]; intros H; [reflexivity|]. cbn.
  rewrite (H x) by (left; reflexivity). f_equal. apply IH. intros y Hy. apply H. right; assumption.
Qed.

Lemma combine_each_perm {A} (visit : list nat) :
  forall (e : @exec A), NoDup visit -> (forall p, In p e -> In (fst p) visit) ->
  Permutation (concat (map snd e)) (combine_each visit e).
Proof.
  induction visit as [|w vs IH]; intros e ND Cov.
  - destruct e as [|p e]; [constructor|]. exfalso. apply (Cov p). left; reflexivity.
  - inversion ND as [|? ? Nin ND']; subst.
    unfold combine_each. cbn [flat_map]. fold (combine_each vs e).
    set (f := fun p : nat * list A => Nat.eqb (fst p) w).
    eapply perm_trans.
    { apply perm_concat. apply Permutation_map. apply (filter_split_perm f). }
    rewrite map_app, concat_app. apply Permutation_app.
    + apply Permutation_refl.
    + replace (combine_each vs e) with (combine_each vs (filter (fun p => negb (f p)) e)).
      * apply IH; [assumption|].
        intros p Hp. apply filter_In in Hp. destruct Hp as [Hp Ne].
        destruct (Cov p Hp) as [E|I]; [|assumption].
        unfold f in Ne. rewrite <- E in Ne. rewrite Nat.eqb_refl in Ne. discriminate.
      * unfold combine_each. apply flat_map_ext_in.
        intros w' Hw'. apply local_of_filter_other. intros ->. contradiction.
Qed.

Lemma legal_run_perm {A} (chunks : list (list A)) e visit :
  legal_run chunks e visit -> Permutation (concat chunks) (combine_each visit e).
Proof.
  intros [P [ND Cov]]. eapply perm_trans; [|apply combine_each_perm; assumption].
  apply perm_concat. apply Permutation_sym. assumption.
Qed.

Lemma sort_after_combine_lemma {A} (lt : A -> A -> bool) :
  strict_weak lt ->
  forall chunks e1 v1 e2 v2 o1 o2,
    legal_run chunks e1 v1 -> legal_run chunks e2 v2 ->
    key_injective_on lt (concat chunks) ->
    is_stable_sort_of lt (combine_each v1 e1) o1 ->
    is_stable_sort_of lt (combine_each v2 e2) o2 ->
    o1 = o2.
Proof.
  intros SW chunks e1 v1 e2 v2 o1 o2 L1 L2 Inj.
  apply legal_run_perm in L1, L2.
  apply (sort_after_permutation lt SW).
  - eapply perm_trans; [apply Permutation_sym; exact L1|exact L2].
  - eapply key_injective_perm; eassumption.
Qed.

(* ------------------------------------------------------------------ *)
(* lexicographic comparators *)

Lemma lex_lt_irrefl {A} (fs : list (A -> Z)) a : lex_lt fs a a = false.
Proof.
  induction fs as [|f r IH]; [reflexivity|]. cbn. rewrite Z.ltb_irrefl, Z.eqb_refl, IH. reflexivity.
Qed.

Lemma lex_lt_trans {A} (fs : list (A -> Z)) a b c :
  lex_lt fs a b = true -> lex_lt fs b c = true -> lex_lt fs a c = true.
Proof.
  induction fs as [|f r IH]; cbn; [congruence|].
  intros H1 H2.
  apply orb_true_iff in H1. apply orb_true_iff in H2. apply orb_true_iff.
  destruct H1 as [H1|H1], H2 as [H2|H2];
    rewrite ?andb_true_iff, ?Z.ltb_lt, ?Z.eqb_eq in *.
  - left; lia.
  - left; lia.
  - left; lia.
  - right. split; [lia|]. apply IH; tauto.
Qed.

Lemma lex_eqv_iff {A} (fs : list (A -> Z)) a b :
  eqv (lex_lt fs) a b = true <-> Forall (fun f => f a = f b) fs.
Proof.
  unfold eqv. induction fs as [|f r IH]; cbn.
  - split; [constructor|reflexivity].
  - destruct (Z.ltb_spec (f a) (f b)); cbn.
    + split; [discriminate|]. intros F. inversion F; subst. lia.
    + destruct (Z.ltb_spec (f b) (f a)); cbn.
      * rewrite andb_false_r. split; [discriminate|]. intros F. inversion F; subst. lia.
      * assert (E : f a = f b) by lia. rewrite E, Z.eqb_refl. cbn.
        rewrite IH. split; [intros; constructor; assumption|intros F; inversion F; assumption].
Qed.

Lemma lex_strict_weak {A} (fs : list (A -> Z)) : strict_weak (lex_lt fs).
Proof.
  constructor.
  - apply lex_lt_irrefl.
  - apply lex_lt_trans.
  - intros a b c H1 H2. rewrite lex_eqv_iff in *.
    rewrite Forall_forall in *. intros f Hf. rewrite (H1 f Hf). apply H2. assumption.
Qed.

Lemma strict_weak_ext {A} (lt1 lt2 : A -> A -> bool) :
  (forall a b, lt1 a b = lt2 a b) -> strict_weak lt1 -> strict_weak lt2.
Proof.
  intros E [I T Q]. constructor.
  - intros a. rewrite <- E. apply I.
  - intros a b c. rewrite <- !E. apply T.
  - intros a b c. unfold eqv. rewrite <- !E. apply Q.
Qed.

(* ------------------------------------------------------------------ *)
(* Intersect12_ *)

Definition i12_fields {P} (forward : bool) : list ((Z * Z) * P -> Z) :=
  [col (negb forward); col (negb (negb forward))].

Lemma i12_lt_is_lex {P} forward (a b : (Z * Z) * P) :
  lex_lt (i12_fields forward) a b = i12_lt forward a b.
Proof.
  unfold i12_lt, i12_fields. cbn. rewrite andb_false_r, orb_false_r. reflexivity.
Qed.

Lemma i12_strict_weak {P} forward : strict_weak (@i12_lt P forward).
Proof. eapply strict_weak_ext; [apply i12_lt_is_lex|apply lex_strict_weak]. Qed.

Lemma i12_key_injective {P} forward (k12 : Z * Z -> P) pairs :
  key_injective_on (i12_lt forward) (i12_records k12 pairs).
Proof.
  intros a b Ha Hb E.
  unfold i12_records in *. apply in_map_iff in Ha, Hb.
  destruct Ha as [[p q] [<- _]], Hb as [[p' q'] [<- _]].
  unfold eqv in E. rewrite <- !i12_lt_is_lex in E. fold (eqv (lex_lt (@i12_fields P forward)) (p, q, k12 (p, q)) (p', q', k12 (p', q'))) in E.
  apply lex_eqv_iff in E. unfold i12_fields in E.
  inversion E as [|? ? E1 E']; subst. inversion E' as [|? ? E2 _]; subst.
  destruct forward; cbn in E1, E2; subst; reflexivity.
Qed.

Lemma intersect12_normalised_lemma {P} (forward : bool) (k12 : Z * Z -> P) :
  forall chunks e1 v1 e2 v2 o1 o2,
    legal_run (map (i12_records k12) chunks) e1 v1 ->
    legal_run (map (i12_records k12) chunks) e2 v2 ->
    is_stable_sort_of (i12_lt forward) (combine_each v1 e1) o1 ->
    is_stable_sort_of (i12_lt forward) (combine_each v2 e2) o2 ->
    o1 = o2.
Proof.
  intros chunks e1 v1 e2 v2 o1 o2 L1 L2.
  apply (sort_after_combine_lemma _ (i12_strict_weak forward) _ _ _ _ _ _ _ L1 L2).
  replace (concat (map (i12_records k12) chunks)) with (i12_records k12 (concat chunks)).
  - apply i12_key_injective.
  - unfold i12_records. rewrite concat_map. reflexivity.
Qed.

(* ------------------------------------------------------------------ *)
(* integers under < (FlagStore::run_par, pinched, duplicates, RadixSortPairs
   after encoding) *)

Lemma z_lt_strict_weak : strict_weak Z.ltb.
Proof.
  eapply strict_weak_ext; [|apply (lex_strict_weak [fun x : Z => x])].
  intros a b. cbn. rewrite andb_false_r, orb_false_r. reflexivity.
Qed.

Lemma z_key_injective (l : list Z) : key_injective_on Z.ltb l.
Proof.
  intros a b _ _ E. unfold eqv in E. apply andb_true_iff in E. destruct E as [E1 E2].
  apply negb_true_iff in E1, E2. apply Z.ltb_ge in E1, E2. lia.
Qed.

Lemma flagstore_lemma :
  forall chunks e1 v1 e2 v2 o1 o2,
    legal_run chunks e1 v1 -> legal_run chunks e2 v2 ->
    is_stable_sort_of Z.ltb (combine_each v1 e1) o1 ->
    is_stable_sort_of Z.ltb (combine_each v2 e2) o2 -> o1 = o2.
Proof.
  intros chunks e1 v1 e2 v2 o1 o2 L1 L2.
  apply (sort_after_combine_lemma _ z_lt_strict_weak _ _ _ _ _ _ _ L1 L2). apply z_key_injective.
Qed.

Lemma mutex_append_sorted_lemma :
  forall (leaves1 leaves2 : list (list Z)) o1 o2,
    Permutation leaves1 leaves2 ->
    is_stable_sort_of Z.ltb (mutex_append leaves1) o1 ->
    is_stable_sort_of Z.ltb (mutex_append leaves2) o2 ->
    unique_z o1 = unique_z o2.
Proof.
  intros l1 l2 o1 o2 P S1 S2. f_equal.
  apply (sort_after_permutation Z.ltb z_lt_strict_weak (mutex_append l1) (mutex_append l2)); try assumption.
  - apply perm_concat. assumption.
  - apply z_key_injective.
Qed.

(* RadixSortPairs: the encoding (first << 32) | second of non-negative 32-bit
   ints is injective and monotone for the lexicographic order *)
Local Open Scope Z_scope.
Definition encode_pair (p : Z * Z) : Z := fst p * 4294967296 + snd p.

Lemma encode_pair_lex (a b : Z * Z) :
  0 <= snd a < 4294967296 -> 0 <= snd b < 4294967296 ->
  Z.ltb (encode_pair a) (encode_pair b) = lex_lt [fst; snd] a b.
Proof.
  intros Ha Hb. unfold encode_pair. cbn. rewrite andb_false_r, orb_false_r.
  destruct (Z.ltb_spec (fst a) (fst b)); cbn.
  - apply Z.ltb_lt. nia.
  - destruct (Z.eqb_spec (fst a) (fst b)) as [E|N]; cbn.
    + rewrite E. destruct (Z.ltb_spec (snd a) (snd b)); [apply Z.ltb_lt|apply Z.ltb_ge]; lia.
    + apply Z.ltb_ge. nia.
Qed.

(* ------------------------------------------------------------------ *)
(* EdgePos *)

Definition edgepos_fields : list (EdgePos -> Z) := [edgePos; collisionId].

Lemma edgepos_lt_is_lex a b : lex_lt edgepos_fields a b = edgepos_lt a b.
Proof. unfold edgepos_lt, edgepos_fields. cbn. rewrite andb_false_r, orb_false_r. reflexivity. Qed.

Lemma edgepos_strict_weak : strict_weak edgepos_lt.
Proof. eapply strict_weak_ext; [apply edgepos_lt_is_lex|apply lex_strict_weak]. Qed.

Lemma edgepos_irrefl a : edgepos_lt a a = false.
Proof. apply (sw_irrefl _ edgepos_strict_weak). Qed.

Lemma edgepos_trans a b c : edgepos_lt a b = true -> edgepos_lt b c = true -> edgepos_lt a c = true.
Proof. apply (sw_trans _ edgepos_strict_weak). Qed.

Lemma edgepos_total a b : collisionId a <> collisionId b -> edgepos_lt a b = true \/ edgepos_lt b a = true.
Proof.
  intros N. unfold edgepos_lt.
  destruct (Z.ltb_spec (edgePos a) (edgePos b)); [left; reflexivity|].
  destruct (Z.ltb_spec (edgePos b) (edgePos a)); [right; reflexivity|].
  assert (E : edgePos a = edgePos b) by lia. rewrite E, Z.eqb_refl. cbn.
  destruct (Z.ltb_spec (collisionId a) (collisionId b)); [left; reflexivity|].
  right. apply Z.ltb_lt. lia.
Qed.

Lemma edgepos_order_total_lemma :
  (forall a, edgepos_lt a a = false) /\
  (forall a b c, edgepos_lt a b = true -> edgepos_lt b c = true -> edgepos_lt a c = true) /\
  (forall a b, collisionId a <> collisionId b -> edgepos_lt a b = true \/ edgepos_lt b a = true).
Proof. split; [apply edgepos_irrefl|split; [apply edgepos_trans|apply edgepos_total]]. Qed.

Lemma nodup_map_inj {A B} (f : A -> B) (l : list A) a b :
  NoDup (map f l) -> In a l -> In b l -> f a = f b -> a = b.
Proof.
  induction l as [|x l IH]; cbn; [tauto|].
  intros ND Ha Hb E. inversion ND as [|? ? Nin ND']; subst.
  destruct Ha as [->|Ha], Hb as [->|Hb]; try reflexivity.
  - exfalso. apply Nin. rewrite E. apply in_map. assumption.
  - exfalso. apply Nin. rewrite <- E. apply in_map. assumption.
  - apply IH; assumption.
Qed.

Lemma edgepos_sort_erases_order_lemma :
  forall l1 l2 o1 o2,
    Permutation l1 l2 -> NoDup (map collisionId l1) ->
    is_stable_sort_of edgepos_lt l1 o1 -> is_stable_sort_of edgepos_lt l2 o2 -> o1 = o2.
Proof.
  intros l1 l2 o1 o2 P ND.
  apply (sort_after_permutation _ edgepos_strict_weak); [assumption|].
  intros a b Ha Hb E.
  apply (nodup_map_inj collisionId l1); try assumption.
  destruct (Z.eq_dec (collisionId a) (collisionId b)) as [|N]; [assumption|].
  unfold eqv in E. destruct (edgepos_total a b N) as [T|T]; rewrite T in E; cbn in E;
    rewrite ?andb_false_r in E; discriminate.
Qed.

Lemma edgepos_bucket_canonical_lemma :
  forall (runs1 runs2 : list (list EdgePos)) o1 o2,
    Permutation runs1 runs2 ->
    (forall r1 r2 a b, In r1 runs1 -> In r2 runs1 -> In a r1 -> In b r2 ->
                       edgePos a = edgePos b -> collisionId a = collisionId b -> r1 = r2) ->
    is_stable_sort_of edgepos_lt (concat runs1) o1 ->
    is_stable_sort_of edgepos_lt (concat runs2) o2 -> o1 = o2.
Proof.
  intros R1 R2 o1 o2 P H.
  apply (stable_sort_determined _ edgepos_strict_weak).
  apply (runs_same_classes _ edgepos_strict_weak); [assumption|].
  intros r1 r2 a b Hr1 Hr2 Ha Hb E.
  unfold eqv in E. rewrite <- !edgepos_lt_is_lex in E.
  fold (eqv (lex_lt edgepos_fields) a b) in E. apply lex_eqv_iff in E.
  inversion E as [|? ? E1 E']; subst. inversion E' as [|? ? E2 _]; subst.
  eapply H; eassumption.
Qed.

(* ------------------------------------------------------------------ *)
(* BatchBoolean heap *)

Definition mc_key {P} (x : (Z * Z) * P) : Z * Z := fst x.
Definition mesh_compare_e {P} (a b : (Z * Z) * P) : bool := mesh_compare (mc_key a) (mc_key b).

Lemma mesh_compare_is_lex {P} (a b : (Z * Z) * P) :
  lex_lt [fun x => fst (mc_key x); fun x => snd (mc_key x)] a b = mesh_compare_e a b.
Proof.
  unfold mesh_compare_e, mesh_compare. cbn. rewrite andb_false_r, orb_false_r.
  destruct (Z.eqb_spec (fst (mc_key a)) (fst (mc_key b))) as [E|N]; cbn.
  - rewrite E, Z.ltb_irrefl. reflexivity.
  - rewrite orb_false_r. reflexivity.
Qed.

Lemma mesh_compare_strict_weak {P} : strict_weak (@mesh_compare_e P).
Proof. eapply strict_weak_ext; [apply mesh_compare_is_lex|apply lex_strict_weak]. Qed.

Lemma mesh_compare_total {P} (a b : (Z * Z) * P) :
  snd (mc_key a) <> snd (mc_key b) -> mesh_compare_e a b = true \/ mesh_compare_e b a = true.
Proof.
  intros N. unfold mesh_compare_e, mesh_compare.
  destruct (Z.eqb_spec (fst (mc_key a)) (fst (mc_key b))) as [E|NE]; cbn.
  - rewrite E, Z.eqb_refl. cbn. destruct (Z.ltb_spec (snd (mc_key a)) (snd (mc_key b))); [left; reflexivity|].
    right. apply Z.ltb_lt. lia.
  - destruct (Z.eqb_spec (fst (mc_key b)) (fst (mc_key a))); [congruence|]. cbn.
    destruct (Z.ltb_spec (fst (mc_key a)) (fst (mc_key b))); [left; reflexivity|].
    right. apply Z.ltb_lt. lia.
Qed.

Lemma heap_top_deterministic {P} (l : list ((Z * Z) * P)) a b :
  NoDup (map (fun x => snd (mc_key x)) l) ->
  is_heap_top mesh_compare_e l a -> is_heap_top mesh_compare_e l b -> a = b.
Proof.
  intros ND Ta Tb.
  pose proof (heap_top_unique _ l a b Ta Tb) as E.
  apply (nodup_map_inj (fun x => snd (mc_key x)) l); try assumption; try apply Ta; try apply Tb.
  destruct (Z.eq_dec (snd (mc_key a)) (snd (mc_key b))) as [|N]; [assumption|].
  unfold eqv in E. destruct (mesh_compare_total a b N) as [T|T]; rewrite T in E; cbn in E;
    rewrite ?andb_false_r in E; discriminate.
Qed.

(* popping until empty: any heap layout (any way of finding a maximum and
   removing it) yields the same sequence *)
Inductive drain {P} : list ((Z * Z) * P) -> list ((Z * Z) * P) -> Prop :=
| drain_nil : drain [] []
| drain_pop : forall l m l' out,
    is_heap_top mesh_compare_e l m -> Permutation l (m :: l') -> drain l' out -> drain l (m :: out).

Lemma heap_top_perm {P} (l l' : list ((Z * Z) * P)) m :
  Permutation l l' -> is_heap_top mesh_compare_e l m -> is_heap_top mesh_compare_e l' m.
Proof.
  intros Pm [I M]. split.
  - eapply Permutation_in; eassumption.
  - intros x Hx. apply M. eapply Permutation_in; [apply Permutation_sym; eassumption|assumption].
Qed.

Lemma drain_deterministic {P} (o1 : list ((Z * Z) * P)) :
  forall l1 l2 o2,
    Permutation l1 l2 -> NoDup (map (fun x => snd (mc_key x)) l1) ->
    drain l1 o1 -> drain l2 o2 -> o1 = o2.
Proof.
  induction o1 as [|m o1 IH]; intros l1 l2 o2 Pm ND D1 D2.
  - inversion D1; subst. apply Permutation_nil in Pm. subst. inversion D2 as [|? ? ? ? T Pp]; subst; [reflexivity|].
    apply Permutation_nil in Pp. discriminate.
  - inversion D1 as [|? ? l1' ? T1 P1 D1']; subst.
    inversion D2 as [|? m2 l2' o2' T2 P2 D2']; subst.
    { apply Permutation_sym, Permutation_nil in Pm. subst. apply Permutation_nil in P1. discriminate. }
    assert (m2 = m).
    { apply (heap_top_deterministic l1); try assumption.
      eapply heap_top_perm; [apply Permutation_sym; exact Pm|exact T2]. }
    subst m2. f_equal.
    apply (IH l1' l2' o2'); try assumption.
    + eapply Permutation_cons_inv. eapply perm_trans; [apply Permutation_sym; exact P1|].
      eapply perm_trans; [exact Pm|exact P2].
    + assert (ND' : NoDup (map (fun x => snd (mc_key x)) (m :: l1'))).
      { eapply Permutation_NoDup; [apply Permutation_map; exact P1|assumption]. }
      inversion ND'; assumption.
Qed.

(* ------------------------------------------------------------------ *)
(* unique slots *)

Lemma upd_comm {A} (l : list A) :
  forall i j v w, i <> j -> upd (upd l i v) j w = upd (upd l j w) i v.
Proof.
  induction l as [|x l IH]; intros i j v w N; [reflexivity|].
  destruct i, j; cbn; try congruence. f_equal. apply IH. congruence.
Qed.

Lemma slot_writes_commute_lemma {A} (ws1 ws2 : list (nat * A)) :
  Permutation ws1 ws2 -> NoDup (map fst ws1) ->
  forall init, apply_writes init ws1 = apply_writes init ws2.
Proof.
  unfold apply_writes.
  induction 1 as [|x l l' P IH|x y l|l l' l'' P1 IH1 P2 IH2]; intros ND init.
  - reflexivity.
  - cbn. apply IH. inversion ND; assumption.
  - cbn. f_equal. apply upd_comm.
    inversion ND as [|? ? Nin _]; subst. intros E. apply Nin. left. symmetry. assumption.
  - rewrite IH1 by assumption. apply IH2.
    eapply Permutation_NoDup; [apply Permutation_map; exact P1|assumption].
Qed.

(* ------------------------------------------------------------------ *)
(* ReorderHalfedges *)

Lemma sel_mod t k : sel t k = sel t (Nat.modulo k 3).
Proof.
  destruct t as [[a b] c]. unfold sel. rewrite Nat.mod_mod by discriminate. reflexivity.
Qed.

Lemma rot_mod t k : rot t k = rot t (Nat.modulo k 3).
Proof.
  unfold rot. f_equal; [f_equal|].
  - apply sel_mod.
  - rewrite (sel_mod t (k + 1)), (sel_mod t (Nat.modulo k 3 + 1)).
    rewrite Nat.add_mod_idemp_l by discriminate. reflexivity.
  - rewrite (sel_mod t (k + 2)), (sel_mod t (Nat.modulo k 3 + 2)).
    rewrite Nat.add_mod_idemp_l by discriminate. reflexivity.
Qed.

Lemma step1_rot_small t k : (k < 3)%nat -> tri_unique_min t -> step1_tri (rot t k) = step1_tri t.
Proof.
  intros Hk. destruct t as [[a b] c]. intros [[Ha [Hb Hc]] Hmin].
  assert (Hk3 : (k = 0 \/ k = 1 \/ k = 2)%nat) by lia.
  destruct Hk3 as [Hk3|[Hk3|Hk3]]; subst k;
    unfold step1_tri, rot, min_index; cbn;
    repeat match goal with
           | |- context [if Z.ltb ?x ?y then 1%nat else 0%nat] => destruct (Z.ltb_spec x y); cbn
           end;
    repeat match goal with
           | |- context [Z.ltb ?x ?y] => destruct (Z.ltb_spec x y); cbn
           end; try reflexivity; try lia.
Qed.

Lemma step1_rot t k : tri_unique_min t -> step1_tri (rot t k) = step1_tri t.
Proof.
  intros H. rewrite rot_mod. apply step1_rot_small; [|assumption].
  apply Nat.mod_upper_bound. discriminate.
Qed.

Lemma sel_rename r t i : sel (rename_tri r t) i = rename_he r (sel t i).
Proof.
  destruct t as [[a b] c]. unfold sel, rename_tri.
  destruct (Nat.modulo i 3) as [|[|?]]; reflexivity.
Qed.

Lemma rename_rot r t k : rot (rename_tri r t) k = rename_tri r (rot t k).
Proof. unfold rot. rewrite !sel_rename. reflexivity. Qed.

Lemma rename_unique_min r t : tri_unique_min t -> tri_unique_min (rename_tri r t).
Proof. destruct t as [[a b] c]. cbn. tauto. Qed.

Lemma step1_rename r t : step1_tri (rename_tri r t) = rename_tri r (step1_tri t).
Proof.
  destruct t as [[a b] c]. unfold step1_tri, min_index, rot. cbn.
  repeat match goal with
         | |- context [if Z.ltb ?x ?y then 1%nat else 0%nat] => destruct (Z.ltb_spec x y); cbn
         end;
  repeat match goal with
         | |- context [Z.ltb ?x ?y] => destruct (Z.ltb_spec x y); cbn
         end; reflexivity.
Qed.

Lemma step1_rotate_tris r' r :
  forall m, Forall tri_unique_min m ->
  map step1_tri (rotate_tris r' (map (rename_tri r) m)) = map (rename_tri r) (map step1_tri m).
Proof.
  induction r' as [|k r' IH]; intros m F.
  - destruct m as [|t0 m0]; cbn; [reflexivity|]. rewrite step1_rename. f_equal.
    rewrite !map_map. apply map_ext. intros t1. apply step1_rename.
  - destruct m as [|t m]; [reflexivity|]. inversion F; subst. cbn.
    rewrite step1_rot by (apply rename_unique_min; assumption).
    rewrite step1_rename. f_equal. apply IH. assumption.
Qed.

Lemma quot_rename r p : Z.quot (rename_pair r p) 3 = Z.quot p 3.
Proof.
  unfold rename_pair. destruct (Z.ltb_spec p 0); [reflexivity|].
  set (x := Nat.modulo _ 3).
  assert (x < 3)%nat by (apply Nat.mod_upper_bound; discriminate).
  assert (0 <= Z.quot p 3) by (apply Z.quot_pos; lia).
  rewrite Z.quot_div_nonneg by lia.
  rewrite Z.div_add_l by lia. rewrite Z.div_small by lia. lia.
Qed.

Lemma end_of_rename r m opp j : end_of (map (rename_tri r) m) opp j = end_of m opp j.
Proof.
  unfold end_of. destruct (Z.ltb opp 0); [reflexivity|].
  rewrite nth_error_map. destruct (nth_error m (Z.to_nat opp)) as [t|]; [|reflexivity].
  cbn [option_map]. rewrite sel_rename. reflexivity.
Qed.

Lemma fix_he_rename r m h : fix_he (map (rename_tri r) m) (rename_he r h) = fix_he m h.
Proof.
  unfold fix_he, find_index. cbn. rewrite quot_rename. rewrite !end_of_rename. reflexivity.
Qed.

Lemma reorder_halfedges_canonical_lemma :
  forall (m : list tri) (r : list nat),
    Forall tri_unique_min m ->
    reorder_halfedges (rotate_mesh r m) = reorder_halfedges m.
Proof.
  intros m r F. unfold reorder_halfedges, rotate_mesh.
  rewrite step1_rotate_tris by assumption.
  set (m1 := map step1_tri m).
  assert (U : Forall tri_unique_min m1).
  { unfold m1. rewrite Forall_forall in *. intros t Ht. apply in_map_iff in Ht.
    destruct Ht as [t0 [<- H0]]. specialize (F t0 H0).
    destruct t0 as [[a b] c]. destruct F as [[Ha [Hb Hc]] Hmin].
    unfold step1_tri, min_index, rot; cbn.
    repeat match goal with
           | |- context [if Z.ltb ?x ?y then 1%nat else 0%nat] => destruct (Z.ltb_spec x y); cbn
           end;
    repeat match goal with
           | |- context [Z.ltb ?x ?y] => destruct (Z.ltb_spec x y); cbn
           end; try lia; (split; [lia|lia]). }
  f_equal. rewrite map_map. apply map_ext_in. intros t Ht.
  rewrite Forall_forall in U. specialize (U t Ht).
  destruct t as [[a b] c]. destruct U as [[Ha [Hb Hc]] _].
  unfold fix_tri. cbn [rename_tri]. rewrite !fix_he_rename. cbn [rename_he he_start].
  destruct (Z.ltb_spec (he_start a) 0); [lia|].
  destruct (Z.ltb_spec (he_start b) 0); [lia|].
  destruct (Z.ltb_spec (he_start c) 0); [lia|]. reflexivity.
Qed.

(* ------------------------------------------------------------------ *)
(* composition: a pipeline whose stages each map every schedule to the same
   result is a function of its input *)
Fixpoint run_pipeline {S X} (stages : list (S -> X -> X)) (scheds : list S) (x : X) : X :=
  match stages, scheds with
  | f :: fs, s :: ss => run_pipeline fs ss (f s x)
  | _, _ => x
  end.

Lemma composition_lemma {S X} (stages : list (S -> X -> X)) :
  Forall (fun f => forall s1 s2 x, f s1 x = f s2 x) stages ->
  forall ss1 ss2 x, length ss1 = length stages -> length ss2 = length stages ->
                    run_pipeline stages ss1 x = run_pipeline stages ss2 x.
Proof.
  induction 1 as [|f fs Hf Hfs IH]; intros ss1 ss2 x L1 L2.
  - reflexivity.
  - destruct ss1 as [|s1 ss1], ss2 as [|s2 ss2]; try discriminate. cbn.
    rewrite (Hf s1 s2 x). apply IH; cbn in *; lia.
Qed.

(* ------------------------------------------------------------------ *)
(* Face2Tri, single triangle: whatever slots the three halfedges of the
   triangle a->b->c->a received, the emitted triangle is a rotation of (a,b,c) *)
Lemma face3_rotation_lemma (a b c : Z) :
  a <> b -> b <> c -> c <> a ->
  forall h0 h1 h2, In (h0, h1, h2) (perms3 (a, b) (b, c) (c, a)) ->
  In (face3 h0 h1 h2) [(a, b, c); (b, c, a); (c, a, b)].
Proof.
  intros Hab Hbc Hca h0 h1 h2 H. unfold perms3 in H. cbn [In] in H.
  repeat (destruct H as [H|H]; [inversion H; subst; clear H; unfold face3; cbn [fst snd];
    repeat match goal with |- context [Z.eqb ?x ?y] => destruct (Z.eqb_spec x y) end;
    cbn; try congruence; tauto|]); contradiction.
Qed.
