(* The index arithmetic of the radix path of src/parallel.h, ported loop by loop
   (Hist::prefixSum with canSkip, shuffle, the a/b buffer swap of
   LSB_radix_sort), and the proof that it REFINES the list-level model of
   Par/ParDefs.v (radix_pass = stable partition by one byte, can_skip,
   radix_passes with its inTmp parity), which Par/RadixModel.v proves correct.
   Buffers are functions nat -> Z; [hist] is the array hist[k][j]. *)
From Coq Require Import List Arith Bool Lia ZArith Permutation.
From MV Require Import Par.Sched Par.ParDefs Par.ScanModel Par.RadixModel.
Import ListNotations.

Definition bkt (k : nat) (x : Z) : nat := Z.to_nat (byte k x).     (* (x >> 8k) & 0xFF as an index *)
Definition cntb (k b : nat) (l : list Z) : nat := length (filter (inb k b) l).

Lemma inb_bkt : forall k b x, inb k b x = (bkt k x =? b).
Proof.
  intros k b x. unfold inb, bkt. pose proof (byte_range k x).
  destruct (Z.eqb_spec (byte k x) (Z.of_nat b)) as [E|E]; destruct (Nat.eqb_spec (Z.to_nat (byte k x)) b) as [E2|E2]; auto.
  - exfalso. apply E2. rewrite E. apply Nat2Z.id.
  - exfalso. apply E. rewrite <- E2. rewrite Z2Nat.id; lia.
Qed.
Lemma bkt_lt : forall k x, bkt k x < 256.
Proof. intros. unfold bkt. pose proof (byte_range k x). lia. Qed.

(* ---------------------------------------------------------------- histogram
   worker: for i: for k < K: ++hist[k][(ptr[i] >> 8k) & 0xFF] *)
Definition hist := nat -> nat -> nat.
Definition hist_incr (nbytes : nat) (h : hist) (x : Z) : hist :=
  fun k b => if (k <? nbytes) && (bkt k x =? b) then S (h k b) else h k b.
Definition histogram (nbytes : nat) (h0 : hist) (l : list Z) : hist := fold_left (hist_incr nbytes) l h0.
(* Hist::merge, used by combine_each over the combinable's accumulators *)
Definition hist_merge (h1 h2 : hist) : hist := fun k b => h1 k b + h2 k b.

Lemma histogram_count : forall nbytes l h0 k b, k < nbytes -> histogram nbytes h0 l k b = h0 k b + cntb k b l.
Proof.
  intros nbytes l. induction l as [|x l IH]; intros h0 k b Hk; [cbn; lia|].
  cbn [histogram fold_left]. fold (histogram nbytes (hist_incr nbytes h0 x) l). rewrite IH by auto.
  unfold hist_incr, cntb. cbn [filter]. rewrite inb_bkt. apply Nat.ltb_lt in Hk. rewrite Hk. cbn [andb].
  destruct (bkt k x =? b); cbn [length]; lia.
Qed.

(* any split of the input into leaves, any assignment of leaves to accumulators
   and any combine order gives the same histogram: it is additive and
   permutation invariant *)
Lemma cntb_app : forall k b l1 l2, cntb k b (l1 ++ l2) = cntb k b l1 + cntb k b l2.
Proof. intros. unfold cntb. rewrite filter_app, app_length. reflexivity. Qed.
Lemma cntb_perm : forall k b l1 l2, Permutation l1 l2 -> cntb k b l1 = cntb k b l2.
Proof.
  intros k b l1 l2 H. unfold cntb. induction H; cbn [filter]; auto.
  - destruct (inb k b x); cbn; auto.
  - destruct (inb k b x), (inb k b y); reflexivity.
  - congruence.
Qed.
Lemma histogram_merge : forall nbytes l1 l2 k b, k < nbytes ->
    hist_merge (histogram nbytes (fun _ _ => 0) l1) (histogram nbytes (fun _ _ => 0) l2) k b
    = histogram nbytes (fun _ _ => 0) (l1 ++ l2) k b.
Proof. intros. unfold hist_merge. rewrite !histogram_count by auto. rewrite cntb_app. lia. Qed.

(* ------------------------------------------------------------- prefixSum
   for k: count = 0; for j in 0..255: tmp = hist[k][j]; hist[k][j] = count; count += tmp;
                                      if (tmp == total) canSkip[k] = true *)
Definition prefix_step (total : nat) (row : nat -> nat) (st : (nat -> nat) * nat * bool) (j : nat)
  : (nat -> nat) * nat * bool :=
  let '(out, count, skip) := st in
  let tmp := row j in
  (fun j' => if j' =? j then count else out j', count + tmp, skip || (tmp =? total)).
Definition prefix_row (total : nat) (row : nat -> nat) : (nat -> nat) * nat * bool :=
  fold_left (prefix_step total row) (seq 0 256) (row, 0, false).

Fixpoint psum (row : nat -> nat) (j : nat) : nat := match j with 0 => 0 | S j' => psum row j' + row j' end.

Lemma prefix_fold : forall total row n out0 skip0,
    let '(out, count, skip) := fold_left (prefix_step total row) (seq 0 n) (out0, 0, skip0) in
    count = psum row n /\ (forall j, out j = if j <? n then psum row j else out0 j) /\
    skip = skip0 || existsb (fun j => row j =? total) (seq 0 n).
Proof.
  intros total row n. induction n as [|n IH]; intros out0 skip0.
  - cbn. repeat split; auto. rewrite orb_false_r. reflexivity.
  - rewrite seq_S, fold_left_app. cbn [plus fold_left].
    specialize (IH out0 skip0).
    destruct (fold_left (prefix_step total row) (seq 0 n) (out0, 0, skip0)) as [[out count] skip].
    destruct IH as (Hc & Ho & Hs). cbn [prefix_step]. subst count. split; [reflexivity|]. split.
    + intros j. destruct (Nat.eqb_spec j n) as [->|Hne].
      * assert (n <? S n = true) by (apply Nat.ltb_lt; lia). rewrite H. reflexivity.
      * rewrite Ho. destruct (j <? n) eqn:E1; destruct (j <? S n) eqn:E2; auto;
          rewrite ?Nat.ltb_lt, ?Nat.ltb_ge in *; lia.
    + rewrite Hs, existsb_app. cbn [existsb]. rewrite orb_false_r, orb_assoc. reflexivity.
Qed.

(* after prefixSum: hist[k][j] = number of elements with a smaller byte k; canSkip as in the list model *)
Lemma prefix_row_spec : forall k l,
    let row := fun b => cntb k b l in
    let '(out, count, skip) := prefix_row (length l) row in
    (forall j, j < 256 -> out j = psum row j) /\ count = psum row 256 /\ skip = can_skip k l.
Proof.
  intros k l row. unfold prefix_row. pose proof (prefix_fold (length l) row 256 row false) as P.
  destruct (fold_left (prefix_step (length l) row) (seq 0 256) (row, 0, false)) as [[out count] skip].
  destruct P as (Hc & Ho & Hs). split; [|split].
  - intros j Hj. rewrite Ho. apply Nat.ltb_lt in Hj. rewrite Hj. reflexivity.
  - exact Hc.
  - rewrite Hs. cbn [orb]. unfold can_skip, row, cntb. reflexivity.
Qed.

(* ----------------------------------------------------------------- shuffle
   for i < n: target[hist[k][(src[i] >> 8k) & 0xFF]++] = src[i] *)
Definition shuffle_step (k : nat) (st : (nat -> nat) * (nat -> Z)) (x : Z) : (nat -> nat) * (nat -> Z) :=
  let '(off, tgt) := st in
  let b := bkt k x in
  (fun b' => if b' =? b then S (off b') else off b', upd (off b) x tgt).
Definition shuffle (k : nat) (off : nat -> nat) (src : list Z) (tgt : nat -> Z) : (nat -> nat) * (nat -> Z) :=
  fold_left (shuffle_step k) src (off, tgt).

Lemma psum_mono : forall row a b, a <= b -> psum row a <= psum row b.
Proof. intros row a b H. induction H; cbn; lia. Qed.

(* invariant of the shuffle loop: after the prefix P of src, bucket b's cursor is
   base(b) + |P restricted to b| and the bucket's region so far holds exactly P restricted to b, in order *)
Lemma shuffle_inv : forall k src,
    let base := psum (fun b => cntb k b src) in
    forall R P off tgt, src = P ++ R ->
      (forall b, off b = base b + cntb k b P) ->
      (forall b, b < 256 -> map tgt (seq (base b) (cntb k b P)) = filter (inb k b) P) ->
      let '(off', tgt') := fold_left (shuffle_step k) R (off, tgt) in
      forall b, b < 256 -> map tgt' (seq (base b) (cntb k b src)) = filter (inb k b) src.
Proof.
  intros k src base R. induction R as [|x R IH]; intros P off tgt Hsrc Hoff Htgt.
  - cbn [fold_left]. rewrite app_nil_r in Hsrc. subst P. exact Htgt.
  - cbn [fold_left shuffle_step].
    assert (Hsrc' : src = (P ++ [x]) ++ R) by (rewrite <- app_assoc; exact Hsrc).
    set (bx := bkt k x).
    assert (Hcx : forall b, cntb k b (P ++ [x]) = cntb k b P + (if b =? bx then 1 else 0)).
    { intros b. rewrite cntb_app. unfold cntb at 2. cbn [filter]. rewrite inb_bkt. fold bx. rewrite (Nat.eqb_sym bx b).
      destruct (b =? bx); reflexivity. }
    (* the position written lies inside bucket bx's region and outside every other region *)
    assert (Hle : forall b, cntb k b (P ++ [x]) <= cntb k b src).
    { intros b. pose proof (cntb_app k b (P ++ [x]) R) as E. rewrite <- Hsrc' in E. lia. }
    assert (Hbase : forall b, base (S b) = base b + cntb k b src) by (intros; reflexivity).
    apply (IH (P ++ [x])); auto.
    + intros b. rewrite Hcx. destruct (Nat.eqb_spec b bx); [rewrite Hoff; lia| rewrite Hoff; lia].
    + intros b Hb. rewrite Hcx. rewrite filter_app. cbn [filter]. rewrite inb_bkt. fold bx. rewrite (Nat.eqb_sym bx b).
      destruct (Nat.eqb_spec b bx) as [->|Hne].
      * rewrite Nat.add_1_r, seq_S, map_app. cbn [map]. f_equal.
        -- rewrite <- (Htgt bx Hb). apply map_ext_in. intros q Hq. apply in_seq in Hq. unfold upd.
           destruct (Nat.eqb_spec q (off bx)); [rewrite Hoff in *; lia| reflexivity].
        -- unfold upd. rewrite Hoff, Nat.eqb_refl. reflexivity.
      * rewrite Nat.add_0_r, app_nil_r. rewrite <- (Htgt b Hb). apply map_ext_in. intros q Hq. apply in_seq in Hq.
        unfold upd. destruct (Nat.eqb_spec q (off bx)) as [E|]; [|reflexivity]. exfalso.
        rewrite Hoff in E. pose proof (Hle bx) as L1. rewrite Hcx, Nat.eqb_refl in L1.
        destruct (Nat.lt_ge_cases b bx) as [Hlt|Hge].
        -- (* region of b ends at base (S b) <= base bx *)
           pose proof (psum_mono (fun b => cntb k b src) (S b) bx Hlt) as M. fold base in M. rewrite Hbase in M.
           pose proof (Hle b) as L2. rewrite Hcx in L2. destruct (b =? bx); lia.
        -- assert (Hgt : S bx <= b) by lia.
           pose proof (psum_mono (fun b => cntb k b src) (S bx) b Hgt) as M. fold base in M. rewrite Hbase in M. lia.
Qed.

Lemma buckets_tile : forall k src (tgt : nat -> Z) n,
    let base := psum (fun b => cntb k b src) in
    (forall b, b < n -> map tgt (seq (base b) (cntb k b src)) = filter (inb k b) src) ->
    map tgt (seq 0 (base n)) = buckets k src 0 n.
Proof.
  intros k src tgt n base. induction n as [|n IH]; intros H; [reflexivity|].
  unfold buckets in *. rewrite seq_S, flat_map_app. cbn [flat_map plus]. rewrite app_nil_r.
  change (base (S n)) with (base n + cntb k n src). rewrite seq_app, map_app. cbn [plus].
  rewrite IH by (intros; apply H; lia). f_equal. apply H. lia.
Qed.

Lemma psum_total : forall k src, psum (fun b => cntb k b src) 256 = length src.
Proof.
  intros k src. pose proof (Permutation_length (radix_pass_perm k src)) as L.
  rewrite L, radix_pass_buckets. unfold buckets. generalize 256. intros n.
  induction n as [|n IH]; [reflexivity|]. rewrite seq_S, flat_map_app, app_length. cbn [flat_map plus psum].
  rewrite app_nil_r, IH. reflexivity.
Qed.

(* shuffle with the prefix-summed histogram row writes exactly the stable partition radix_pass *)
Theorem shuffle_refines_pass : forall k src tgt,
    let off := psum (fun b => cntb k b src) in
    map (snd (shuffle k off src tgt)) (seq 0 (length src)) = radix_pass k src.
Proof.
  intros k src tgt off. unfold shuffle.
  pose proof (shuffle_inv k src src [] off tgt eq_refl) as I. cbv zeta in I.
  destruct (fold_left (shuffle_step k) src (off, tgt)) as [off' tgt'].
  cbn [snd]. rewrite <- (psum_total k src), radix_pass_buckets. apply buckets_tile.
  apply I; [intros b; change (cntb k b []) with 0; unfold off; lia| intros b Hb; reflexivity].
Qed.

(* --------------------------------------------------------- LSB_radix_sort
   T *a = input, *b = tmp; for k: if (!canSkip[k]) { shuffle(a, b, n, hist, k); swap(a, b); }  return a == tmp;
   the histogram rows are those of the ORIGINAL input (bytes are permuted, not changed, by the passes) *)
Definition to_list (buf : nat -> Z) (n : nat) : list Z := map buf (seq 0 n).

Fixpoint lsb_passes_buf (ks : list nat) (orig : list Z) (n : nat) (a b : nat -> Z) (a_is_tmp : bool)
  : (nat -> Z) * (nat -> Z) * bool :=
  match ks with
  | [] => (a, b, a_is_tmp)
  | k :: r =>
      let '(offs, _, skip) := prefix_row n (fun j => cntb k j orig) in
      if skip then lsb_passes_buf r orig n a b a_is_tmp
      else let '(_, b') := shuffle k offs (to_list a n) b in
           lsb_passes_buf r orig n b' a (negb a_is_tmp)
  end.

Definition lsb_radix_sort_buf (nbytes : nat) (l : list Z) (tmp : nat -> Z) : (nat -> Z) * (nat -> Z) * bool :=
  let input := fun i => nth i l 0%Z in
  if is_sortedb l then (input, tmp, false)
  else lsb_passes_buf (seq 0 nbytes) l (length l) input tmp false.

Lemma shuffle_ext_off : forall k src off1 off2 tgt, (forall b, b < 256 -> off1 b = off2 b) ->
    forall p, snd (shuffle k off1 src tgt) p = snd (shuffle k off2 src tgt) p.
Proof.
  intros k src. unfold shuffle. induction src as [|x src IH]; intros off1 off2 tgt H p; [reflexivity|].
  cbn [fold_left shuffle_step]. rewrite (H (bkt k x) (bkt_lt k x)).
  apply IH. intros b Hb. destruct (b =? bkt k x); [rewrite H; auto| auto].
Qed.

Lemma to_list_length : forall buf n, length (to_list buf n) = n.
Proof. intros. unfold to_list. rewrite map_length, seq_length. reflexivity. Qed.

Lemma lsb_passes_refine : forall ks orig n a b t cur,
    length orig = n -> Permutation orig cur -> to_list a n = cur ->
    let '(a', b', t') := lsb_passes_buf ks orig n a b t in
    to_list a' n = fst (radix_passes ks orig cur t) /\ t' = snd (radix_passes ks orig cur t).
Proof.
  induction ks as [|k r IH]; intros orig n a b t cur Hn HP Ha; [cbn; auto|].
  cbn [lsb_passes_buf radix_passes].
  pose proof (prefix_row_spec k orig) as PR. cbv zeta in PR. rewrite Hn in PR.
  destruct (prefix_row n (fun j => cntb k j orig)) as [[offs cnt] skip]. destruct PR as (Hoffs & _ & Hskip).
  rewrite Hskip. destruct (can_skip k orig).
  - apply IH; auto.
  - assert (Hlen : length cur = n) by (rewrite <- (Permutation_length HP); auto).
    destruct (shuffle k offs (to_list a n) b) as [o b'] eqn:Es.
    apply (IH orig n b' a (negb t) (radix_pass k cur)); auto.
    + eapply perm_trans; [exact HP| apply radix_pass_perm].
    + rewrite Ha in Es. unfold to_list. rewrite <- Hlen at 1. rewrite <- (shuffle_refines_pass k cur b).
      apply map_ext. intros p.
      assert (E : b' = snd (shuffle k offs cur b)) by (rewrite Es; reflexivity). rewrite E.
      apply shuffle_ext_off. intros j Hj. rewrite Hoffs by auto.
      (* the rows were computed on orig; cur is a permutation of it *)
      clear -HP. induction j as [|j IHj]; [reflexivity|]. cbn [psum]. rewrite IHj. f_equal. apply cntb_perm; auto.
Qed.

(* the buffer-level LSB_radix_sort: the buffer it reports (input if the flag is
   false, tmp if true) holds the list-level result, with the same flag *)
Theorem lsb_radix_sort_buf_refines : forall nbytes l tmp,
    let '(a, b, t) := lsb_radix_sort_buf nbytes l tmp in
    to_list a (length l) = fst (lsb_radix_sort nbytes l) /\ t = snd (lsb_radix_sort nbytes l).
Proof.
  intros nbytes l tmp. unfold lsb_radix_sort_buf, lsb_radix_sort. destruct (is_sortedb l).
  - cbn [fst snd]. split; auto. unfold to_list. apply map_nth_seq.
  - apply lsb_passes_refine; auto. unfold to_list. apply map_nth_seq.
Qed.
