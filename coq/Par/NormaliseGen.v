(* C04: concrete witnesses (hypotheses are satisfiable, the injectivity
   hypothesis is necessary) and the lemmas that consume the table generated
   from the sources by translate/c04_idioms.py (coq/Gen/Idioms.v). *)
From Coq Require Import ZArith List Bool Arith Permutation Sorted Lia String.
From MV Require Import Par.NormaliseDefs Par.Normalise Gen.Idioms.
Import ListNotations.
Local Open Scope Z_scope.

(* ---- a stable sort leaks the combine order when keys are not injective --- *)
Definition fst_lt (a b : Z * Z) : bool := Z.ltb (fst a) (fst b).

Definition leak_chunks : list (list (Z * Z)) := [[(1, 0)]; [(1, 1)]].
Definition leak_exec : @exec (Z * Z) := [(0%nat, [(1, 0)]); (1%nat, [(1, 1)])].

Lemma fst_lt_strict_weak : strict_weak fst_lt.
Proof.
  eapply strict_weak_ext; [|apply (lex_strict_weak [fun x : Z * Z => fst x])].
  intros a b. unfold fst_lt. cbn. rewrite andb_false_r, orb_false_r. reflexivity.
Qed.

Lemma leak_legal (visit : list nat) :
  visit = [0%nat; 1%nat] \/ visit = [1%nat; 0%nat] -> legal_run leak_chunks leak_exec visit.
Proof.
  intros H. split; [apply Permutation_refl|]. split.
  - destruct H as [-> | ->]; repeat constructor; cbn; intuition (try discriminate; try lia).
  - intros p Hp. cbn in Hp. destruct H as [-> | ->]; cbn; intuition (subst; cbn; auto).
Qed.

Lemma sort_after_combine_needs_injective_key_lemma :
  exists (chunks : list (list (Z * Z))) e v1 v2,
    strict_weak fst_lt /\ legal_run chunks e v1 /\ legal_run chunks e v2 /\
    stable_sort fst_lt (combine_each v1 e) <> stable_sort fst_lt (combine_each v2 e).
Proof.
  exists leak_chunks, leak_exec, [0%nat; 1%nat], [1%nat; 0%nat].
  split; [apply fst_lt_strict_weak|]. split; [apply leak_legal; auto|]. split; [apply leak_legal; auto|].
  vm_compute. discriminate.
Qed.

(* ---- the hypotheses of sort_after_combine are satisfiable (non-trivially) -- *)
Definition ex_pairs : list (list (Z * Z)) := [[(3, 7); (3, 2)]; [(1, 9)]; [(2, 2); (1, 4)]].
Definition ex_k12 (pq : Z * Z) : Z := fst pq * 100 + snd pq.
Definition ex_chunks := map (i12_records ex_k12) ex_pairs.
Definition ex_exec1 : @exec ((Z * Z) * Z) :=
  [(1%nat, nth 2 ex_chunks []); (0%nat, nth 0 ex_chunks []); (1%nat, nth 1 ex_chunks [])].
Definition ex_exec2 : @exec ((Z * Z) * Z) :=
  [(5%nat, nth 1 ex_chunks []); (2%nat, nth 0 ex_chunks []); (7%nat, nth 2 ex_chunks [])].

Lemma ex_legal1 : legal_run ex_chunks ex_exec1 [1%nat; 0%nat].
Proof.
  split; [|split].
  - cbn. eapply perm_trans; [apply perm_swap|]. apply perm_skip. apply perm_swap.
  - repeat constructor; cbn; intuition (try discriminate; try lia).
  - intros p Hp. cbn in Hp. cbn. intuition (subst; cbn; auto).
Qed.

Lemma ex_legal2 : legal_run ex_chunks ex_exec2 [2%nat; 7%nat; 5%nat].
Proof.
  split; [|split].
  - cbn. apply perm_swap.
  - repeat constructor; cbn; intuition (try discriminate; try lia).
  - intros p Hp. cbn in Hp. cbn. intuition (subst; cbn; auto).
Qed.

Lemma ex_sorted_equal :
  combine_each [1%nat; 0%nat] ex_exec1 <> combine_each [2%nat; 7%nat; 5%nat] ex_exec2 /\
  stable_sort (i12_lt true) (combine_each [1%nat; 0%nat] ex_exec1) =
  stable_sort (i12_lt true) (combine_each [2%nat; 7%nat; 5%nat] ex_exec2).
Proof. split; [vm_compute; discriminate|vm_compute; reflexivity]. Qed.

(* ---- EdgePos bucket: runs of one collision keep their j order ------------ *)
Definition ex_runs : list (list EdgePos) :=
  [collision_run 10 4 true 2; collision_run 20 1 false 1; collision_run 30 9 true 3].

Lemma ex_runs_hyp :
  forall r1 r2 a b, In r1 ex_runs -> In r2 ex_runs -> In a r1 -> In b r2 ->
                    edgePos a = edgePos b -> collisionId a = collisionId b -> r1 = r2.
Proof.
  intros r1 r2 a b H1 H2 Ha Hb _ E. cbn in H1, H2.
  repeat (destruct H1 as [H1|H1]; [subst r1|]); try contradiction;
  repeat (destruct H2 as [H2|H2]; [subst r2|]); try contradiction; try reflexivity;
  cbn in Ha, Hb; exfalso;
  repeat (destruct Ha as [Ha|Ha]; [subst a|]); try contradiction;
  repeat (destruct Hb as [Hb|Hb]; [subst b|]); try contradiction; cbn in E; discriminate.
Qed.

Lemma ex_runs_sorted :
  stable_sort edgepos_lt (List.concat ex_runs) = stable_sort edgepos_lt (List.concat (rev ex_runs)).
Proof. vm_compute. reflexivity. Qed.

(* ---- ReorderHalfedges on a tetrahedron whose triangles are rotated ------- *)
Definition tet : list tri :=
  [ (mkHE 0 3 0, mkHE 1 6 1, mkHE 2 9 2);
    (mkHE 0 0 0, mkHE 3 11 3, mkHE 1 7 1)%Z;
    (mkHE 1 1 1, mkHE 3 5 3, mkHE 2 10 2);
    (mkHE 2 2 2, mkHE 3 8 3, mkHE 0 4 0) ].

Lemma tet_unique_min : Forall tri_unique_min tet.
Proof. repeat constructor; cbn; lia. Qed.

Lemma tet_reorder_example :
  rotate_mesh [1; 2; 0; 2]%nat tet <> tet /\
  reorder_halfedges (rotate_mesh [1; 2; 0; 2]%nat tet) = reorder_halfedges tet /\
  exists out, reorder_halfedges tet = Some out.
Proof.
  split; [vm_compute; discriminate|]. split; [vm_compute; reflexivity|].
  eexists. vm_compute. reflexivity.
Qed.

(* without a unique minimum the rotation leaks (degenerate triangle) *)
Lemma reorder_needs_unique_min :
  exists (m : list tri) r, reorder_halfedges (rotate_mesh r m) <> reorder_halfedges m.
Proof.
  exists [ (mkHE 5 3 0, mkHE 5 4 1, mkHE 7 5 2); (mkHE 5 0 0, mkHE 7 1 1, mkHE 5 2 2) ], [1%nat; 0%nat].
  vm_compute. discriminate.
Qed.

(* ---- heap --------------------------------------------------------------- *)
Definition ex_heap : list ((Z * Z) * Z) := [((8, 0), 100); ((24, 1), 101); ((8, 2), 102); ((24, 3), 103)].

Lemma ex_heap_drains :
  NoDup (map (fun x => snd (mc_key x)) ex_heap) /\
  drain ex_heap [((24, 3), 103); ((24, 1), 101); ((8, 2), 102); ((8, 0), 100)].
Proof.
  split; [repeat constructor; cbn; intuition (try discriminate; try lia)|].
  eapply drain_pop with (l' := [((8, 0), 100); ((24, 1), 101); ((8, 2), 102)]).
  { split; [cbn; tauto|]. intros x Hx. cbn in Hx. intuition (subst; reflexivity). }
  { apply Permutation_sym. eapply perm_trans; [apply Permutation_cons_append|]. apply Permutation_refl. }
  eapply drain_pop with (l' := [((8, 0), 100); ((8, 2), 102)]).
  { split; [cbn; tauto|]. intros x Hx. cbn in Hx. intuition (subst; reflexivity). }
  { eapply perm_trans; [apply perm_swap|]. apply Permutation_refl. }
  eapply drain_pop with (l' := [((8, 0), 100)]).
  { split; [cbn; tauto|]. intros x Hx. cbn in Hx. intuition (subst; reflexivity). }
  { apply perm_swap. }
  eapply drain_pop with (l' := []).
  { split; [cbn; tauto|]. intros x Hx. cbn in Hx. intuition (subst; reflexivity). }
  { apply Permutation_refl. }
  constructor.
Qed.

(* ---- the generated table ------------------------------------------------- *)
Local Open Scope string_scope.

Definition norm_tag (n : normalisation) : string :=
  match n with
  | StableSortTotalKey => "StableSortTotalKey" | StableSortThenUnique => "StableSortThenUnique"
  | StableSortRuns => "StableSortRuns" | OrderedIteration => "OrderedIteration"
  | KeyLookupOnly => "KeyLookupOnly" | UniqueSlotOnly => "UniqueSlotOnly"
  | CanonicalRotation => "CanonicalRotation" | HeapTotalOrder => "HeapTotalOrder"
  | NoCombine => "NoCombine" | SequentialPolicy => "SequentialPolicy" | StableMergeBounds => "StableMergeBounds" | Allowed _ => "Allowed" | Flagged _ => "Flagged"
  | UnstableSort => "UnstableSort" | NotNormalised => "NotNormalised"
  end.

Definition has (file tag : string) (n : nat) : bool :=
  Nat.leb n (List.length (filter (fun s => String.eqb (s_file s) file && String.eqb (norm_tag (s_norm s)) tag) sites)).

(* the sites the theorems are about are present in the sources and carry the
   normalisation the theorems assume *)
Definition expected_sites : bool :=
  has "src/boolean3.cpp" "StableSortTotalKey" 1 &&      (* Intersect12_ *)
  has "src/edge_op.cpp" "StableSortTotalKey" 1 &&       (* FlagStore::run_par *)
  has "src/edge_op.cpp" "StableSortThenUnique" 2 &&     (* pinched, duplicates *)
  has "src/boolean2.cpp" "StableSortTotalKey" 3 &&      (* MergeVerts, flatHits, RadixSortPairs *)
  has "src/boolean_result.cpp" "StableSortRuns" 3 &&    (* edgesP, edgesQ, edgesNew *)
  has "src/boolean_result.cpp" "CanonicalRotation" 2 && (* AtomicAdd(facePtr) x2 *)
  has "src/csg_tree.cpp" "HeapTotalOrder" 1 &&
  has "src/parallel.h" "StableMergeBounds" 1 &&
  has "src/sort.cpp" "SequentialPolicy" 1.              (* MeshGL::Merge: union-find roots written to mergeToVert, unite order fixed *)           (* the parallel merge keeps ties in input order *)

Lemma gen_all_combines_normalised : sites_ok sites = true /\ expected_sites = true.
Proof. split; vm_compute; reflexivity. Qed.

Lemma gen_comparators_as_modelled :
  cmp_i12 = Some ["p1q2[_][index]"; "p1q2[_][1-index]"] /\
  cmp_edgepos = Some ["edgePos"; "collisionId"] /\
  cmp_meshCompare = Some ["NumVert"; "second"].
Proof. repeat split; reflexivity. Qed.
