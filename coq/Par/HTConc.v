(* src/hashtable.h  HashTableD::Insert under ANY interleaving of ANY number of
   threads, with the value array and the used_ counter.
   Insert(key, val):  idx = H(key) & mask;
     loop { if (Full()) return;                         [I_full i]  load used_
            found = CAS(keys_[idx], kOpen, key);        [I_cas  i]  strong CAS
            if (found == kOpen) { used_.fetch_add(1);   [I_inc  s]
                                  values_[idx] = val;   [I_val  s]
                                  return; }
            if (found == key) return;
            idx = (idx + step) & mask; }
   Every step is one atomic access (sequentially consistent model; the code's
   acq_rel / relaxed orders are not modelled).  [ho] is ghost state: which
   thread claimed a slot; no program step reads it. *)
From Coq Require Import List Arith Bool Lia.
From MV Require Import Par.Sched Par.ScanModel Par.Containers.
Import ListNotations.

Lemma set_nth_cons' : forall {X} k (x t : X) l, set_nth (S k) x (t :: l) = t :: set_nth k x l.
Proof. reflexivity. Qed.

Lemma nth_error_set_nth : forall {X} (l : list X) k x j, k < length l ->
    nth_error (set_nth k x l) j = if j =? k then Some x else nth_error l j.
Proof.
  induction l as [|t l IH]; intros k x j Hk; [cbn in Hk; lia|].
  destruct k as [|k].
  - unfold set_nth. cbn [firstn skipn app]. destruct j; reflexivity.
  - rewrite set_nth_cons'. destruct j as [|j]; [reflexivity|]. cbn [nth_error]. rewrite IH by (cbn in Hk; lia). reflexivity.
Qed.

Section HTC.
  Variable m : nat.
  Variable h : nat -> nat.
  Variable step : nat.
  Notation pr := (probe m h step).
  Notation hinv := (ht_inv m h step).

  Record hshared := mkSh { hk : list (option nat); hv : list (option nat); hu : nat; ho : list (option nat) }.
  Inductive hres := RFull | RClaimed (s : nat) | RFound (s : nat).
  Inductive hstate := I_full (i : nat) | I_cas (i : nat) | I_inc (s : nat) | I_val (s : nat) | I_ret (r : hres).
  Record hthread := mkTh { tk : nat; tv : nat; ts : hstate }.

  (* one step of thread number k running Insert(K, v) *)
  Inductive hstep (k K v : nat) (sh : hshared) : hstate -> hshared -> hstate -> Prop :=
  | HS_full_yes : forall i, m < hu sh * 2 -> hstep k K v sh (I_full i) sh (I_ret RFull)
  | HS_full_no : forall i, ~ m < hu sh * 2 -> hstep k K v sh (I_full i) sh (I_cas i)
  | HS_cas_claim : forall i, slot (hk sh) (pr K i) = None ->
      hstep k K v sh (I_cas i)
            (mkSh (set_nth (pr K i) (Some K) (hk sh)) (hv sh) (hu sh) (set_nth (pr K i) (Some k) (ho sh)))
            (I_inc (pr K i))
  | HS_cas_found : forall i, slot (hk sh) (pr K i) = Some K -> hstep k K v sh (I_cas i) sh (I_ret (RFound (pr K i)))
  | HS_cas_other : forall i K', slot (hk sh) (pr K i) = Some K' -> K' <> K -> hstep k K v sh (I_cas i) sh (I_full (S i))
  | HS_inc : forall s, hstep k K v sh (I_inc s) (mkSh (hk sh) (hv sh) (S (hu sh)) (ho sh)) (I_val s)
  | HS_val : forall s, hstep k K v sh (I_val s) (mkSh (hk sh) (set_nth s (Some v) (hv sh)) (hu sh) (ho sh)) (I_ret (RClaimed s)).

  Definition hconfig := (hshared * list hthread)%type.
  Inductive hcstep : hconfig -> hconfig -> Prop :=
  | HCS : forall sh ths k t sh' s', nth_error ths k = Some t -> hstep k (tk t) (tv t) sh (ts t) sh' s' ->
      hcstep (sh, ths) (sh', set_nth k (mkTh (tk t) (tv t) s') ths).
  Inductive hreach (c0 : hconfig) : hconfig -> Prop :=
  | HR_refl : hreach c0 c0
  | HR_step : forall c1 c2, hreach c0 c1 -> hcstep c1 c2 -> hreach c0 c2.

  Definition hinit (ths : list hthread) : hconfig :=
    (mkSh (repeat None m) (repeat None m) 0 (repeat None m), ths).

  Definition owns (st : hstate) (s : nat) : Prop := st = I_inc s \/ st = I_val s \/ st = I_ret (RClaimed s).
  Definition prefix_taken (keys : list (option nat)) (K i : nat) : Prop :=
    forall i', i' < i -> exists K', slot keys (pr K i') = Some K' /\ K' <> K.
  Definition tinv (keys : list (option nat)) (t : hthread) : Prop :=
    match ts t with
    | I_full i | I_cas i => prefix_taken keys (tk t) i
    | I_ret (RFound s) => s < m /\ slot keys s = Some (tk t)
    | _ => True
    end.

  Definition Ginv (c : hconfig) : Prop :=
    let sh := fst c in let ths := snd c in
    0 < m /\ length (hk sh) = m /\ length (hv sh) = m /\ length (ho sh) = m /\
    hinv (hk sh) /\
    (forall s K, s < m -> slot (hk sh) s = Some K ->
        exists k t, slot (ho sh) s = Some k /\ nth_error ths k = Some t /\ tk t = K /\ owns (ts t) s) /\
    (forall k t s, nth_error ths k = Some t -> owns (ts t) s ->
        s < m /\ slot (ho sh) s = Some k /\ slot (hk sh) s = Some (tk t)) /\
    (forall k t s, nth_error ths k = Some t -> ts t = I_ret (RClaimed s) -> slot (hv sh) s = Some (tv t)) /\
    (forall k t, nth_error ths k = Some t -> tinv (hk sh) t).

  Lemma pr_lt : forall K i, 0 < m -> pr K i < m.
  Proof. intros. unfold probe. apply Nat.mod_upper_bound. lia. Qed.

  Lemma tinv_keys_grow : forall keys s0 K0 t, length keys = m -> s0 < m -> slot keys s0 = None ->
      tinv keys t -> tinv (set_nth s0 (Some K0) keys) t.
  Proof.
    intros keys s0 K0 t HL Hs0 Hopen Ht. unfold tinv in *.
    assert (G : forall s x, slot keys s = Some x -> slot (set_nth s0 (Some K0) keys) s = Some x).
    { intros s x Hx. rewrite slot_set by lia. destruct (Nat.eqb_spec s s0) as [->|]; [congruence|auto]. }
    destruct (ts t) as [i|i|s|s|[|s|s]]; auto.
    - intros i' Hi'. destruct (Ht i' Hi') as (K' & HK & Hne). eauto.
    - intros i' Hi'. destruct (Ht i' Hi') as (K' & HK & Hne). eauto.
    - destruct Ht; split; auto.
  Qed.

  Lemma hcstep_inv : forall c c', Ginv c -> hcstep c c' -> Ginv c'.
  Proof.
    intros c c' (Hm & Lk & Lv & Lo & Hi & HA & HB & HC & HD) Hstep.
    destruct Hstep as [sh ths k t sh' s' Hn Hs]. cbn [fst snd] in *.
    assert (Hkl : k < length ths) by (apply nth_error_Some; congruence).
    pose proof (HD k t Hn) as Dk.
    set (t' := mkTh (tk t) (tv t) s').
    assert (NE : forall j, nth_error (set_nth k t' ths) j = if j =? k then Some t' else nth_error ths j)
      by (intros; apply nth_error_set_nth; auto).
    (* steps that leave the shared state alone and move thread k between non-owning states *)
    assert (Quiet : sh' = sh -> (forall s, ~ owns (ts t) s) -> (forall s, ~ owns s' s) ->
                    (forall s, s' = I_ret (RClaimed s) -> False) -> tinv (hk sh) t' ->
                    Ginv (sh', set_nth k t' ths)).
    { intros -> Hno Hno' HnC Ht'. unfold Ginv. cbn [fst snd].
      split; auto. split; auto. split; auto. split; auto. split; auto. split; [|split; [|split]].
      - intros s K Hs' HK. destruct (HA s K Hs' HK) as (k0 & t0 & Ho & Hn0 & Hk0 & Hown).
        exists k0, t0. rewrite NE. destruct (Nat.eqb_spec k0 k) as [->|]; auto.
        rewrite Hn in Hn0. injection Hn0 as <-. exfalso. eapply Hno; eauto.
      - intros j tj s Hj Hown. rewrite NE in Hj. destruct (Nat.eqb_spec j k) as [->|]; [|eauto].
        injection Hj as <-. exfalso. eapply Hno'; eauto.
      - intros j tj s Hj Hr. rewrite NE in Hj. destruct (Nat.eqb_spec j k) as [->|]; [|eauto].
        injection Hj as <-. exfalso. eapply HnC; eauto.
      - intros j tj Hj. rewrite NE in Hj. destruct (Nat.eqb_spec j k) as [->|]; [|eauto]. injection Hj as <-. auto. }
    inversion Hs as [i Hf E1 E2 E3|i Hf E1 E2 E3|i Hopen E1 E2 E3|i Hfound E1 E2 E3|i K' HK' Hne E1 E2 E3|s E1 E2 E3|s E1 E2 E3];
      subst s'; try subst sh'; fold t'.
    - apply Quiet; auto; try (intros s [H|[H|H]]; rewrite <- E1 in H; discriminate); try (intros s [H|[H|H]]; discriminate);
        [intros s H; discriminate| unfold tinv; cbn; auto].
    - apply Quiet; auto; try (intros s [H|[H|H]]; rewrite <- E1 in H; discriminate); try (intros s [H|[H|H]]; discriminate);
        [intros s H; discriminate|]. unfold tinv in *. cbn [ts t']. rewrite <- E1 in Dk. exact Dk.
    - (* claim *)
      unfold tinv in Dk. rewrite <- E1 in Dk.
      set (s0 := pr (tk t) i) in *. assert (Hs0 : s0 < m) by (apply pr_lt; auto).
      assert (Hnown : forall s, ~ owns (ts t) s) by (intros s [H|[H|H]]; rewrite <- E1 in H; discriminate).
      unfold Ginv. cbn [fst snd hk hv hu ho].
      split; auto. split; [rewrite length_set_nth; lia|]. split; auto. split; [rewrite length_set_nth; lia|].
      split; [apply ht_claim_preserves with (t := hk sh); auto; apply Claim; auto|].
      split; [|split; [|split]].
      + intros s K Hs' HK. rewrite slot_set in HK by lia. rewrite slot_set by lia.
        destruct (Nat.eqb_spec s s0) as [->|Hne].
        * injection HK as <-. exists k, t'. rewrite NE, Nat.eqb_refl. repeat split; auto. left; reflexivity.
        * destruct (HA s K Hs' HK) as (k0 & t0 & Ho & Hn0 & Hk0 & Hown).
          exists k0, t0. rewrite NE. destruct (Nat.eqb_spec k0 k) as [->|]; auto.
          rewrite Hn in Hn0. injection Hn0 as <-. exfalso. eapply Hnown; eauto.
      + intros j tj s Hj Hown. rewrite NE in Hj. rewrite !slot_set by lia.
        destruct (Nat.eqb_spec j k) as [->|Hjk].
        * injection Hj as <-. cbn [ts t'] in Hown. destruct Hown as [H|[H|H]]; try discriminate.
          injection H as <-. rewrite Nat.eqb_refl. auto.
        * destruct (HB j tj s Hj Hown) as (H1 & H2 & H3).
          destruct (Nat.eqb_spec s s0) as [E|]; [rewrite E in H3; congruence| auto].
      + intros j tj s Hj Hr. rewrite NE in Hj. destruct (Nat.eqb_spec j k) as [->|]; [injection Hj as <-; discriminate| eauto].
      + intros j tj Hj. rewrite NE in Hj. destruct (Nat.eqb_spec j k) as [->|].
        * injection Hj as <-. unfold tinv. cbn. auto.
        * apply tinv_keys_grow; eauto.
    - apply Quiet; auto; try (intros s [H|[H|H]]; rewrite <- E1 in H; discriminate);
        [intros s [H|[H|H]]; discriminate| intros s H; discriminate|].
      unfold tinv. cbn [ts t']. split; [apply pr_lt; auto| exact Hfound].
    - apply Quiet; auto; try (intros s [H|[H|H]]; rewrite <- E1 in H; discriminate); try (intros s [H|[H|H]]; discriminate);
        [intros s H; discriminate|].
      unfold tinv in *. cbn [ts t' tk]. rewrite <- E1 in Dk. intros i' Hi'.
      destruct (Nat.eq_dec i' i) as [->|]; [eauto| apply Dk; lia].
    - (* used_.fetch_add *)
      assert (Hown : owns (ts t) s) by (left; auto).
      unfold Ginv. cbn [fst snd hk hv hu ho].
      split; auto. split; auto. split; auto. split; auto. split; auto. split; [|split; [|split]].
      + intros s1 K Hs' HK. destruct (HA s1 K Hs' HK) as (k0 & t0 & Ho & Hn0 & Hk0 & Hown0).
        destruct (Nat.eq_dec k0 k) as [->|Hk0k].
        * rewrite Hn in Hn0. injection Hn0 as <-. exists k, t'. rewrite NE, Nat.eqb_refl. repeat split; auto.
          rewrite <- E1 in Hown0. destruct Hown0 as [H|[H|H]]; try discriminate. injection H as <-. right; left; reflexivity.
        * exists k0, t0. rewrite NE. destruct (Nat.eqb_spec k0 k); [congruence|]. auto.
      + intros j tj s1 Hj Hown1. rewrite NE in Hj. destruct (Nat.eqb_spec j k) as [->|]; [|eauto].
        injection Hj as <-. cbn [ts t'] in Hown1. destruct Hown1 as [H|[H|H]]; try discriminate. injection H as <-.
        apply (HB k t s Hn Hown).
      + intros j tj s1 Hj Hr. rewrite NE in Hj. destruct (Nat.eqb_spec j k) as [->|]; [injection Hj as <-; discriminate| eauto].
      + intros j tj Hj. rewrite NE in Hj. destruct (Nat.eqb_spec j k) as [->|]; [|eauto]. injection Hj as <-. unfold tinv. cbn. auto.
    - (* values_[s] = val *)
      assert (Hown : owns (ts t) s) by (right; left; auto).
      destruct (HB k t s Hn Hown) as (Hsm & Hos & Hks).
      unfold Ginv. cbn [fst snd hk hv hu ho].
      split; auto. split; auto. split; [rewrite length_set_nth; lia|]. split; auto. split; auto. split; [|split; [|split]].
      + intros s1 K Hs' HK. destruct (HA s1 K Hs' HK) as (k0 & t0 & Ho & Hn0 & Hk0 & Hown0).
        destruct (Nat.eq_dec k0 k) as [->|Hk0k].
        * rewrite Hn in Hn0. injection Hn0 as <-. exists k, t'. rewrite NE, Nat.eqb_refl. repeat split; auto.
          rewrite <- E1 in Hown0. destruct Hown0 as [H|[H|H]]; try discriminate. injection H as <-. right; right; reflexivity.
        * exists k0, t0. rewrite NE. destruct (Nat.eqb_spec k0 k); [congruence|]. auto.
      + intros j tj s1 Hj Hown1. rewrite NE in Hj. destruct (Nat.eqb_spec j k) as [->|]; [|eauto].
        injection Hj as <-. cbn [ts t'] in Hown1. destruct Hown1 as [H|[H|H]]; try discriminate. injection H as <-. auto.
      + intros j tj s1 Hj Hr. rewrite NE in Hj. rewrite slot_set by lia.
        destruct (Nat.eqb_spec j k) as [->|Hjk].
        * injection Hj as <-. cbn [ts t'] in Hr. injection Hr as <-. rewrite Nat.eqb_refl. reflexivity.
        * destruct (Nat.eqb_spec s1 s) as [->|]; [|eauto]. exfalso.
          destruct (HB j tj s Hj) as (_ & Hoj & _); [right; right; auto|]. congruence.
      + intros j tj Hj. rewrite NE in Hj. destruct (Nat.eqb_spec j k) as [->|]; [|eauto]. injection Hj as <-. unfold tinv. cbn. auto.
  Qed.

  Lemma slot_repeat_none : forall n s, slot (repeat None n) s = None.
  Proof.
    intros n s. unfold slot. destruct (Nat.lt_ge_cases s n); [|apply nth_overflow; rewrite repeat_length; auto].
    apply (nth_repeat None n s).
  Qed.

  Lemma hinit_inv : forall ths, 0 < m -> (forall t, In t ths -> ts t = I_full 0) -> Ginv (hinit ths).
  Proof.
    intros ths Hm H0. unfold Ginv, hinit. cbn [fst snd hk hv hu ho]. rewrite !repeat_length.
    split; auto. split; auto. split; auto. split; auto. split; [|split; [|split; [|split]]].
    - split; [apply repeat_length|]. intros s K _ HK. rewrite slot_repeat_none in HK. discriminate.
    - intros s K _ HK. rewrite slot_repeat_none in HK. discriminate.
    - intros k t s Hn [H|[H|H]]; rewrite (H0 t (nth_error_In _ _ Hn)) in H; discriminate.
    - intros k t s Hn H. rewrite (H0 t (nth_error_In _ _ Hn)) in H. discriminate.
    - intros k t Hn. unfold tinv. rewrite (H0 t (nth_error_In _ _ Hn)). intros i' Hi'. lia.
  Qed.

  Theorem ht_reach_inv : forall ths0 c, 0 < m -> (forall t, In t ths0 -> ts t = I_full 0) ->
      hreach (hinit ths0) c -> Ginv c.
  Proof.
    intros ths0 c Hm H0 Hr. induction Hr; [apply hinit_inv; auto| eapply hcstep_inv; eauto].
  Qed.

  (* keys and values of the calls never change *)
  Lemma hcstep_calls : forall c c', hcstep c c' -> map (fun t => (tk t, tv t)) (snd c') = map (fun t => (tk t, tv t)) (snd c).
  Proof.
    intros c c' H. destruct H as [sh ths k t sh' s' Hn _]. cbn [snd].
    revert k Hn. induction ths as [|t0 ths IH]; intros k Hn; [destruct k; discriminate|].
    destruct k as [|k]; cbn in Hn.
    - injection Hn as ->. reflexivity.
    - rewrite set_nth_cons'. cbn [map]. rewrite IH; auto.
  Qed.

  (* Quiescence: every Insert that returned without seeing Full() has its key in
     exactly one slot, operator[] finds that slot, and the slot holds the value
     of an Insert of that key (its own value if it is the one that claimed it). *)
  Theorem hash_insert_concurrent : forall ths0 sh ths, 0 < m -> (forall t, In t ths0 -> ts t = I_full 0) ->
      hreach (hinit ths0) (sh, ths) -> (forall t, In t ths -> exists r, ts t = I_ret r) ->
      forall k t r, nth_error ths k = Some t -> ts t = I_ret r -> r <> RFull ->
      exists s fuel v', s < m /\ slot (hk sh) s = Some (tk t) /\
        ht_find m h step fuel (hk sh) (tk t) 0 = Some s /\
        (forall s2, s2 < m -> slot (hk sh) s2 = Some (tk t) -> s2 = s) /\
        slot (hv sh) s = Some v' /\
        (exists k0 t0, nth_error ths k0 = Some t0 /\ tk t0 = tk t /\ tv t0 = v' /\ ts t0 = I_ret (RClaimed s)) /\
        (r = RClaimed s -> v' = tv t).
  Proof.
    intros ths0 sh ths Hm H0 Hr Hq k t r Hn Hts Hnf.
    destruct (ht_reach_inv ths0 (sh, ths) Hm H0 Hr) as (_ & Lk & Lv & Lo & Hi & HA & HB & HC & HD). cbn [fst snd] in *.
    assert (Hslot : exists s, s < m /\ slot (hk sh) s = Some (tk t) /\ (r = RClaimed s -> slot (hv sh) s = Some (tv t))).
    { destruct r as [|s|s]; [congruence| |].
      - destruct (HB k t s Hn) as (H1 & _ & H3); [right; right; auto|]. exists s. repeat split; auto.
        intros _. eapply HC; eauto.
      - pose proof (HD k t Hn) as D. unfold tinv in D. rewrite Hts in D. destruct D. exists s. repeat split; auto. discriminate. }
    destruct Hslot as (s & Hsm & Hks & Hown).
    destruct (ht_find_present m h step (hk sh) s (tk t) Hi Hsm Hks) as [fuel Hfind].
    destruct (HA s (tk t) Hsm Hks) as (k0 & t0 & Ho & Hn0 & Hk0 & Hown0).
    assert (Hret0 : ts t0 = I_ret (RClaimed s)).
    { destruct (Hq t0 (nth_error_In _ _ Hn0)) as [r0 Hr0]. destruct Hown0 as [H|[H|H]]; congruence. }
    exists s, fuel, (tv t0). repeat split; auto.
    - intros s2 Hs2 Hk2. eapply ht_key_unique; eauto.
    - eapply HC; eauto.
    - exists k0, t0. auto.
    - intros E. specialize (Hown E). pose proof (HC k0 t0 s Hn0 Hret0). congruence.
  Qed.

  (* used_ accounting: used_ + (claims whose fetch_add is still pending) = number of claimed slots *)
  Definition cnt {X} (P : X -> bool) (l : list X) : nat := length (filter P l).
  Definition is_some (o : option nat) : bool := match o with Some _ => true | None => false end.
  Definition in_inc (t : hthread) : bool := match ts t with I_inc _ => true | _ => false end.

  Lemma cnt_set_nth : forall {X} (P : X -> bool) l k x y, nth_error l k = Some x ->
      cnt P (set_nth k y l) + (if P x then 1 else 0) = cnt P l + (if P y then 1 else 0).
  Proof.
    intros X P. induction l as [|z l IH]; intros k x y Hn; [destruct k; discriminate|].
    destruct k as [|k]; cbn in Hn.
    - injection Hn as ->. unfold set_nth, cnt. cbn [firstn skipn app filter]. destruct (P x), (P y); cbn [length]; lia.
    - rewrite set_nth_cons'. unfold cnt in *. cbn [filter]. specialize (IH k x y Hn). destruct (P z); cbn [length]; lia.
  Qed.

  Lemma slot_nth_error : forall (l : list (option nat)) s, s < length l -> nth_error l s = Some (slot l s).
  Proof. intros l s Hs. unfold slot. apply nth_error_nth'. auto. Qed.

  Definition Einv (c : hconfig) : Prop := hu (fst c) + cnt in_inc (snd c) = cnt is_some (hk (fst c)).

  Lemma hcstep_einv : forall c c', Ginv c -> Einv c -> hcstep c c' -> Einv c'.
  Proof.
    intros c c' (Hm & Lk & _) He Hstep. unfold Einv in *.
    destruct Hstep as [sh ths k t sh' s' Hn Hs]. cbn [fst snd] in *.
    pose proof (cnt_set_nth in_inc ths k t (mkTh (tk t) (tv t) s') Hn) as C.
    change (in_inc t) with (match ts t with I_inc _ => true | _ => false end) in C.
    change (in_inc (mkTh (tk t) (tv t) s')) with (match s' with I_inc _ => true | _ => false end) in C.
    inversion Hs as [i Hf E1 E2 E3|i Hf E1 E2 E3|i Hopen E1 E2 E3|i Hfound E1 E2 E3|i K' HK' Hne E1 E2 E3|s E1 E2 E3|s E1 E2 E3];
      subst s'; try subst sh'; rewrite <- E1 in C; cbn [hk hu] in *; try lia.
    assert (Hs0 : probe m h step (tk t) i < length (hk sh)) by (rewrite Lk; apply pr_lt; auto).
    pose proof (cnt_set_nth is_some (hk sh) _ _ (Some (tk t)) (slot_nth_error _ _ Hs0)) as C2.
    rewrite Hopen in C2. cbn [is_some] in C2. lia.
  Qed.

  Lemma cnt_repeat_none : forall n, cnt is_some (repeat None n) = 0.
  Proof. induction n; cbn; auto. Qed.

  Lemma cnt_inc_zero : forall l, (forall t, In t l -> exists i, ts t = I_full i \/ exists r, ts t = I_ret r) -> cnt in_inc l = 0.
  Proof.
    unfold cnt. induction l as [|t l IHl]; intros H; [reflexivity|]. cbn [filter]. unfold in_inc at 1.
    destruct (H t (or_introl eq_refl)) as [i [E|[r E]]]; rewrite E; apply IHl; intros; apply H; right; auto.
  Qed.

  (* at quiescence used_ (= Entries()) is exactly the number of stored keys *)
  Theorem ht_used_accounting : forall ths0 c, 0 < m -> (forall t, In t ths0 -> ts t = I_full 0) ->
      hreach (hinit ths0) c -> Einv c /\
      ((forall t, In t (snd c) -> exists r, ts t = I_ret r) -> hu (fst c) = cnt is_some (hk (fst c))).
  Proof.
    intros ths0 c Hm H0 Hr.
    assert (HE : Einv c).
    { induction Hr as [|c1 c2 Hr IH Hs].
      - unfold Einv, hinit. cbn [fst snd hu hk]. rewrite cnt_repeat_none.
        rewrite cnt_inc_zero; [lia|]. intros t Ht. exists 0. left. auto.
      - eapply hcstep_einv; eauto. eapply ht_reach_inv; eauto. }
    split; auto. intros Hq. unfold Einv in HE.
    rewrite cnt_inc_zero in HE; [lia|]. intros t Ht. exists 0. right. auto.
  Qed.

  (* Probe sequences terminate while the table is not full (step = 1): a thread
     still probing at index i has seen i distinct taken slots, so i < m as long
     as some slot is open. *)
  Lemma probe_surj : step = 1 -> 0 < m -> forall K s, s < m -> exists i, i < m /\ pr K i = s.
  Proof.
    intros Hst Hm K s Hs. unfold probe. subst step. set (a := h K mod m).
    assert (Ha : a < m) by (apply Nat.mod_upper_bound; lia).
    destruct (Nat.le_gt_cases a s).
    - exists (s - a). split; [lia|]. rewrite Nat.mul_1_r, Nat.add_mod by lia. fold a.
      rewrite (Nat.mod_small (s - a)) by lia. replace (a + (s - a)) with s by lia. apply Nat.mod_small; auto.
    - exists (s + m - a). split; [lia|]. rewrite Nat.mul_1_r, Nat.add_mod by lia. fold a.
      rewrite (Nat.mod_small (s + m - a)) by lia. replace (a + (s + m - a)) with (s + 1 * m) by lia.
      rewrite Nat.mod_add by lia. apply Nat.mod_small; auto.
  Qed.

  Theorem ht_probe_terminates : forall ths0 sh ths, step = 1 -> 0 < m -> (forall t, In t ths0 -> ts t = I_full 0) ->
      hreach (hinit ths0) (sh, ths) ->
      forall k t i, nth_error ths k = Some t -> (ts t = I_full i \/ ts t = I_cas i) ->
      (exists s, s < m /\ slot (hk sh) s = None) -> i < m.
  Proof.
    intros ths0 sh ths Hst Hm H0 Hr k t i Hn Hts (s & Hs & Hopen).
    destruct (ht_reach_inv ths0 (sh, ths) Hm H0 Hr) as (_ & _ & _ & _ & _ & _ & _ & _ & HD). cbn [fst snd] in *.
    pose proof (HD k t Hn) as D. unfold tinv in D.
    assert (P : prefix_taken (hk sh) (tk t) i) by (destruct Hts as [E|E]; rewrite E in D; exact D).
    destruct (Nat.lt_ge_cases i m) as [|Hge]; auto. exfalso.
    destruct (probe_surj Hst Hm (tk t) s Hs) as (i' & Hi' & Hp).
    destruct (P i') as (K' & HK' & _); [lia|]. rewrite Hp in HK'. congruence.
  Qed.
End HTC.
