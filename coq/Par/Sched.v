(* Legal behaviours of the TBB constructs used by src/parallel.h, as DATA that
   the theorems of C13 (and C04) quantify over.  Definitions only: no proofs.

   The schedule simulator harness/verif_sched.h logs one record per construct
   in exactly these shapes; the extracted boolean predicates [legal_*] below
   must accept every logged record (checks/C13.py), so what the simulator
   explores is inside what the theorems are about.

   parallel_for(blocked_range(0,n,grain), body)
       a [split_tree] over [0,n): a range may be split (at ANY interior point,
       TBB itself splits in the middle) only while it is divisible, i.e. its
       size is > grain; a leaf is any non-empty range; the body runs once per
       leaf, leaves in ANY order (possibly concurrently: bodies write disjoint
       data, see Properties_C13.for_each_family).  An empty range runs nothing.
   parallel_reduce(range, body)   (imperative and lambda form)
       an [rtree]: as above, and every right child carries a flag: [fresh =
       true]  -> the right half runs in a body made by the splitting
       constructor (lambda form: value := identity) and is join()ed into the
       left body afterwards; [fresh = false] -> the same body continues with
       the right half after it finished the left half (TBB's lazy splitting:
       "a body is split only if the range is split, but not conversely").
   parallel_scan(range, body)
       a list of [scan_op]s over numbered bodies (0 = the caller's body):
       split, pre_scan of a range, final_scan of a range, reverse_join, assign.
       Legality ([legal_scan]) tracks, per body, which index interval its
       running sum summarises ([aval]): a pre_scan must extend the interval on
       the right (or anchor an empty body); a final_scan of [lo,hi) needs a
       body that summarises exactly [0,lo) *including the caller's initial
       state*; b.reverse_join(a) needs a = [s,m) and b = [m,e) (or b empty);
       every index is final-scanned exactly once, pre-scanned at most once;
       body 0 ends holding [0,n) (by assign if another body did the last
       final scan).  This covers TBB's two-pass algorithm for every stealing
       pattern, and more.
   parallel_invoke(f1..fk)
       the tasks run in any order / any interleaving; parallel.h only invokes
       tasks that write disjoint index ranges of one buffer and read data no
       sibling writes, so an execution order (a permutation of 0..k-1) is the
       whole observable schedule.
   combinable<T>
       local() returns one of k >= 1 accumulators (leaf -> slot assignment
       arbitrary), combine_each visits the slots in arbitrary order. *)
From Coq Require Import List Arith Bool.
Import ListNotations.

(* ------------------------------------------------------------ parallel_for *)
Inductive split_tree := Leaf | Node (mid : nat) (l r : split_tree).

Fixpoint wf_tree (grain lo hi : nat) (t : split_tree) : bool :=
  match t with
  | Leaf => lo <? hi
  | Node m l r => (grain <? hi - lo) && (lo <? m) && (m <? hi) &&
                  wf_tree grain lo m l && wf_tree grain m hi r
  end.

Fixpoint leaves (lo hi : nat) (t : split_tree) : list (nat * nat) :=
  match t with
  | Leaf => [(lo, hi)]
  | Node m l r => leaves lo m l ++ leaves m hi r
  end.

(* leaves of the top-level call: an empty range runs nothing *)
Definition top_leaves (n : nat) (t : split_tree) : list (nat * nat) :=
  if n =? 0 then [] else leaves 0 n t.

(* [l] is a permutation of 0..n-1 (boolean; Sched facts: is_perm_seq_sound) *)
Definition is_perm_seq (n : nat) (l : list nat) : bool :=
  (length l =? n) && forallb (fun i => existsb (Nat.eqb i) l) (seq 0 n).

(* a parallel_for schedule: the split tree and the order in which the leaves
   (numbered left to right) are executed *)
Definition for_sched := (split_tree * list nat)%type.

Definition legal_for (grain n : nat) (s : for_sched) : bool :=
  let '(t, order) := s in
  ((n =? 0) || wf_tree grain 0 n t) && is_perm_seq (length (top_leaves n t)) order.

Definition exec_leaves (n : nat) (s : for_sched) : list (nat * nat) :=
  let '(t, order) := s in map (fun i => nth i (top_leaves n t) (0, 0)) order.

(* --------------------------------------------------------- parallel_reduce *)
Inductive rtree := RLeaf | RNode (mid : nat) (fresh : bool) (l r : rtree).

Fixpoint wf_rtree (grain lo hi : nat) (t : rtree) : bool :=
  match t with
  | RLeaf => lo <? hi
  | RNode m _ l r => (grain <? hi - lo) && (lo <? m) && (m <? hi) &&
                     wf_rtree grain lo m l && wf_rtree grain m hi r
  end.

Definition legal_reduce (grain n : nat) (t : rtree) : bool :=
  (n =? 0) || wf_rtree grain 0 n t.

(* Run of a reduction body whose whole state is a value of type T:
     leaf lo hi v   body(range [lo,hi)) applied to a body in state v
     fresh_of v     state of Body(b, split) when b is in state v
     join v w       state of the left body after left.join(right)          *)
Section ReduceRun.
  Context {T : Type}.
  Variable fresh_of : T -> T.
  Variable leaf : nat -> nat -> T -> T.
  Variable join : T -> T -> T.
  Fixpoint reduce_run (lo hi : nat) (t : rtree) (v : T) : T :=
    match t with
    | RLeaf => leaf lo hi v
    | RNode m fresh l r =>
        if fresh
        then (* the split happens when the range is split: before the left half runs *)
             let w := fresh_of v in
             join (reduce_run lo m l v) (reduce_run m hi r w)
        else reduce_run m hi r (reduce_run lo m l v)
    end.
  Definition reduce_top (n : nat) (t : rtree) (v : T) : T :=
    if n =? 0 then v else reduce_run 0 n t v.
End ReduceRun.

(* ----------------------------------------------------------- parallel_scan *)
Inductive scan_op :=
| OSplit (b c : nat)          (* body c := Body(body b, split); c must be the next unused number *)
| OPre (b lo hi : nat)        (* body b (range [lo,hi), pre_scan_tag)   *)
| OFinal (b lo hi : nat)      (* body b (range [lo,hi), final_scan_tag) *)
| ORevJoin (b a : nat)        (* body b .reverse_join(body a)           *)
| OAssign (b a : nat).        (* body b .assign(body a)                 *)

(* what a body's running sum summarises *)
Inductive aval :=
| AEmpty                              (* fresh from the splitting constructor *)
| AIval (base : bool) (s e : nat).    (* inputs [s,e); base = on top of the caller's initial state (then s = 0) *)

Definition set_nth {X} (i : nat) (x : X) (l : list X) : list X :=
  firstn i l ++ x :: skipn (S i) l.

Definition astep (n : nat) (st : list aval) (op : scan_op) : option (list aval) :=
  match op with
  | OSplit b c =>
      if (b <? length st) && (c =? length st) then Some (st ++ [AEmpty]) else None
  | OPre b lo hi =>
      if (b <? length st) && (lo <? hi) && (hi <=? n) then
        match nth b st AEmpty with
        | AEmpty => Some (set_nth b (AIval false lo hi) st)
        | AIval base s e => if e =? lo then Some (set_nth b (AIval base s hi) st) else None
        end
      else None
  | OFinal b lo hi =>
      if (b <? length st) && (lo <? hi) && (hi <=? n) then
        match nth b st AEmpty with
        | AIval true 0 e => if e =? lo then Some (set_nth b (AIval true 0 hi) st) else None
        | _ => None
        end
      else None
  | ORevJoin b a =>
      if (b <? length st) && (a <? length st) && negb (a =? b) then
        match nth a st AEmpty, nth b st AEmpty with
        | AEmpty, x => Some (set_nth b x st)
        | AIval base s m, AEmpty => Some (set_nth b (AIval base s m) st)
        | AIval base s m, AIval false m' e =>
            if m =? m' then Some (set_nth b (AIval base s e) st) else None
        | AIval _ _ _, AIval true _ _ => None
        end
      else None
  | OAssign b a =>
      if (b <? length st) && (a <? length st) then Some (set_nth b (nth a st AEmpty) st) else None
  end.

Fixpoint arun (n : nat) (st : list aval) (ops : list scan_op) : option (list aval) :=
  match ops with
  | [] => Some st
  | op :: rest => match astep n st op with Some st' => arun n st' rest | None => None end
  end.

Definition final_idxs (ops : list scan_op) : list nat :=
  flat_map (fun op => match op with OFinal _ lo hi => seq lo (hi - lo) | _ => [] end) ops.
Definition pre_idxs (ops : list scan_op) : list nat :=
  flat_map (fun op => match op with OPre _ lo hi => seq lo (hi - lo) | _ => [] end) ops.

Fixpoint nodupb (l : list nat) : bool :=
  match l with [] => true | x :: r => negb (existsb (Nat.eqb x) r) && nodupb r end.

Definition legal_scan (n : nat) (ops : list scan_op) : bool :=
  match arun n [AIval true 0 0] ops with
  | Some st => (match nth 0 st AEmpty with AIval true 0 e => e =? n | _ => false end)
               && is_perm_seq n (final_idxs ops) && nodupb (pre_idxs ops)
  | None => false
  end.

(* In-place scans (output buffer = input buffer) additionally rely on what TBB
   guarantees about the ORDER of the two passes: an index is pre-scanned (read)
   only before it is final-scanned (overwritten), and final-scanned once.
   [pbf done ops]: no pre-scan or final scan touches an index already final-scanned. *)
Fixpoint pbf (done : list nat) (ops : list scan_op) : bool :=
  match ops with
  | [] => true
  | OPre _ lo hi :: r =>
      forallb (fun i => negb (existsb (Nat.eqb i) done)) (seq lo (hi - lo)) && pbf done r
  | OFinal _ lo hi :: r =>
      forallb (fun i => negb (existsb (Nat.eqb i) done)) (seq lo (hi - lo)) && pbf (seq lo (hi - lo) ++ done) r
  | _ :: r => pbf done r
  end.
Definition legal_scan_inplace (n : nat) (ops : list scan_op) : bool := legal_scan n ops && pbf [] ops.

(* The schedule TBB produces for a [split_tree] when every right child is
   stolen (two-pass: left-most leaf final-scanned at once, every other leaf
   pre-scanned by its own body, sums propagated left to right by reverse_join,
   then final scans), and the one it produces when nothing is stolen (a single
   sequential final scan per leaf).  Used for the satisfiability Examples and
   by the simulator's self-test. *)
Definition scan_ops_serial (n : nat) (t : split_tree) : list scan_op :=
  map (fun r => OFinal 0 (fst r) (snd r)) (top_leaves n t).

Fixpoint scan_ops_two_pass_aux (ls : list (nat * nat)) (k : nat) : list scan_op * list scan_op * list scan_op :=
  (* leaf number k+1.. each get body k+1..: (splits+prescans, reverse_joins, final scans) *)
  match ls with
  | [] => ([], [], [])
  | (lo, hi) :: rest =>
      let '(p, j, f) := scan_ops_two_pass_aux rest (S k) in
      (OSplit 0 (S k) :: OPre (S k) lo hi :: p,
       ORevJoin (S k) k :: j,
       OFinal k lo hi :: f)
  end.

Definition scan_ops_two_pass (n : nat) (t : split_tree) : list scan_op :=
  match top_leaves n t with
  | [] => []
  | (lo, hi) :: rest =>
      let '(p, j, f) := scan_ops_two_pass_aux rest 0 in
      (* body k holds [0, end of leaf k) after its reverse_join, so leaf k+1 is final-scanned by body k *)
      OFinal 0 lo hi :: p ++ j ++ f ++
      (match rest with [] => [] | _ => [OAssign 0 (length rest - 1)] end)
  end.

(* --------------------------------------------------------- parallel_invoke *)
Definition legal_invoke (k : nat) (order : list nat) : bool := is_perm_seq k order.

(* -------------------------------------------------------------- combinable *)
(* slots: for every local() call (in execution order) the accumulator used;
   order: the order in which combine_each visits the accumulators *)
Definition legal_combinable (nslots : nat) (slots order : list nat) : bool :=
  (0 <? nslots) && forallb (fun s => s <? nslots) slots && is_perm_seq nslots order.
