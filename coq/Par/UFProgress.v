(* Progress measure for the concurrent union-find (Par/UFConc.v): in every
   execution the number of steps that change the shared array — the successful
   compare-exchanges — is bounded by  n*(n*n+1) + n*n.
   Measure:  Phi = (sum of ranks) * (n*n+1) + (n*n - sum over i of above(parent i)),
   where above(x) counts the elements strictly above x in the (rank,id) order.
   A link or a path halving moves one parent pointer strictly up (ranks
   unchanged), a rank bump increases the rank sum; the rank sum is bounded by
   the number of non-roots because every bump is paid for by a link of the same
   thread (invariant: rank sum + threads about to bump <= non-roots). *)
From Coq Require Import List Arith Bool Lia.
From MV Require Import Par.Sched Par.ScanModel Par.Containers Par.UFConc.
Import ListNotations.

Fixpoint sumf (f : nat -> nat) (n : nat) : nat := match n with 0 => 0 | S k => sumf f k + f k end.

Lemma sumf_ext : forall f g n, (forall i, i < n -> f i = g i) -> sumf f n = sumf g n.
Proof. intros f g n. induction n as [|n IH]; intros H; [reflexivity|]. cbn. rewrite IH, H by auto. reflexivity. Qed.

Lemma sumf_update : forall f g n x, x < n -> (forall i, i <> x -> g i = f i) -> sumf g n + f x = sumf f n + g x.
Proof.
  intros f g n x. induction n as [|n IH]; intros Hx H; [lia|]. cbn.
  destruct (Nat.eq_dec x n) as [->|Hne].
  - rewrite (sumf_ext g f n) by (intros i Hi; apply H; lia). lia.
  - rewrite (H n) by lia. specialize (IH ltac:(lia) H). lia.
Qed.

Lemma sumf_le : forall f n b, (forall i, i < n -> f i <= b) -> sumf f n <= n * b.
Proof. intros f n b. induction n as [|n IH]; intros H; [cbn; lia|]. cbn. specialize (IH (fun i Hi => H i ltac:(lia))). specialize (H n ltac:(lia)). lia. Qed.

Definition rk_sum (st : uf_state) : nat := sumf (urank st) (length st).
Definition nonroot (st : uf_state) (i : nat) : nat := if uparent st i =? i then 0 else 1.
Definition nr_cnt (st : uf_state) : nat := sumf (nonroot st) (length st).
Definition mu2 (st : uf_state) : nat := sumf (fun i => above st (uparent st i)) (length st).
Definition Phi (st : uf_state) : nat :=
  let n := length st in rk_sum st * (n * n + 1) + (n * n - mu2 st).

Lemma mu2_le : forall st, mu2 st <= length st * length st.
Proof. intros st. unfold mu2. apply sumf_le. intros. apply above_le. Qed.
Lemma nr_cnt_le : forall st, nr_cnt st <= length st.
Proof. intros st. unfold nr_cnt. rewrite <- (Nat.mul_1_r (length st)) at 2. apply sumf_le. intros. unfold nonroot. destruct (_ =? _); lia. Qed.

(* one word rewritten, ranks untouched, its parent moved strictly up *)
Lemma move_up_measure : forall st x r q q',
    x < length st -> uget st x = (r, q) -> q' < length st -> klt st q q' ->
    let st' := set_nth x (r, q') st in
    rk_sum st' = rk_sum st /\ mu2 st' < mu2 st /\
    (forall i, i <> x -> nonroot st' i = nonroot st i).
Proof.
  intros st x r q q' Hx Hg Hq' Hk st'.
  pose proof (uget_fst_snd _ _ _ _ Hg) as [Hr Hp].
  assert (HL : length st' = length st) by (apply length_set_nth; auto).
  assert (Hrk : forall z, urank st' z = urank st z).
  { intros z. unfold st'. rewrite urank_set by auto. destruct (Nat.eqb_spec z x) as [->|]; auto. }
  assert (Hpar : forall i, i <> x -> uparent st' i = uparent st i).
  { intros i Hi. unfold st'. rewrite uparent_set by auto. destruct (Nat.eqb_spec i x); [congruence|auto]. }
  assert (Hab : forall z, above st' z = above st z) by (intros; apply above_ext; auto).
  split; [|split].
  - unfold rk_sum. rewrite HL. apply sumf_ext. intros; apply Hrk.
  - unfold mu2. rewrite HL.
    pose proof (sumf_update (fun i => above st (uparent st i)) (fun i => above st' (uparent st' i)) (length st) x Hx) as U.
    assert (U' := U (fun i Hi => eq_trans (Hab (uparent st' i)) (f_equal (above st) (Hpar i Hi)))). cbv beta in U'.
    assert (E : uparent st' x = q') by (unfold st'; rewrite uparent_set by auto; rewrite Nat.eqb_refl; reflexivity).
    rewrite E, Hab, Hp in U'. pose proof (above_decr st q q' Hk Hq'). lia.
  - intros i Hi. unfold nonroot. rewrite Hpar by auto. reflexivity.
Qed.

Lemma bump_measure : forall st x r, x < length st -> uget st x = (r, x) ->
    let st' := set_nth x (S r, x) st in
    rk_sum st' = S (rk_sum st) /\ nr_cnt st' = nr_cnt st.
Proof.
  intros st x r Hx Hg st'. pose proof (uget_fst_snd _ _ _ _ Hg) as [Hr Hp].
  assert (HL : length st' = length st) by (apply length_set_nth; auto). split.
  - unfold rk_sum. rewrite HL.
    assert (U : sumf (urank st') (length st) + urank st x = sumf (urank st) (length st) + urank st' x).
    { apply sumf_update; auto. intros i Hi. unfold st'. rewrite urank_set by auto. destruct (Nat.eqb_spec i x); [congruence|auto]. }
    assert (E : urank st' x = S r) by (unfold st'; rewrite urank_set by auto; rewrite Nat.eqb_refl; reflexivity).
    lia.
  - unfold nr_cnt. rewrite HL. apply sumf_ext. intros i Hi. unfold nonroot, st'. rewrite uparent_set by auto.
    destruct (Nat.eqb_spec i x) as [->|]; auto. cbn [snd]. rewrite Hp. reflexivity.
Qed.

(* threads that linked with equal ranks and are about to bump *)
Definition is_bump (th : thread) : bool := match th with TU _ _ (U_bump _ _ _) => true | _ => false end.
Definition bumpers (ths : list thread) : nat := length (filter is_bump ths).

Lemma bumpers_set_nth : forall ths k th th', nth_error ths k = Some th ->
    bumpers (set_nth k th' ths) + (if is_bump th then 1 else 0) = bumpers ths + (if is_bump th' then 1 else 0).
Proof.
  unfold bumpers. induction ths as [|t ths IH]; intros k th th' Hn; [destruct k; discriminate|].
  destruct k as [|k]; cbn in Hn.
  - injection Hn as ->. unfold set_nth. cbn [firstn skipn app filter]. destruct (is_bump th), (is_bump th'); cbn [length]; lia.
  - rewrite set_nth_cons. cbn [filter]. specialize (IH k th th' Hn). destruct (is_bump t); cbn [length]; lia.
Qed.

Definition Kinv (c : config) : Prop := rk_sum (fst c) + bumpers (snd c) <= nr_cnt (fst c).

(* a find step either leaves the array alone or moves one parent strictly up *)
Lemma fstep_progress : forall st o f st' f', ord_inv st -> total st -> finv st o f -> fstep st f st' f' ->
    st' = st \/ (length st' = length st /\ rk_sum st' = rk_sum st /\ nr_cnt st' = nr_cnt st /\ mu2 st' < mu2 st).
Proof.
  intros st o f st' f' Hinv Htot Hf Hs.
  destruct Hs as [id r Hg|id r p Hg Hp|id r p Hg|id r p|id r p|id r p np Hnp Hg|id r p np Hnp]; auto.
  right. cbn [finv] in Hf. destruct Hf as (Hs & Hsn & Hp & Hup).
  pose proof (same_lt_l _ _ _ Hs) as Hid. pose proof (same_lt_l _ _ _ Hsn) as Hnpl.
  destruct Hup as [->|[Hpnr Hk]]; [congruence|].
  destruct (move_up_measure st id r p np Hid Hg Hnpl Hk) as (M1 & M2 & M3).
  split; [apply length_set_nth; auto|]. split; auto. split; auto.
  unfold nr_cnt. rewrite length_set_nth by auto. apply sumf_ext. intros i Hi.
  destruct (Nat.eq_dec i id) as [->|Hne]; [|apply M3; auto].
  pose proof (uget_fst_snd _ _ _ _ Hg) as [_ Hpar]. unfold nonroot. rewrite uparent_set by auto. rewrite Nat.eqb_refl. cbn [snd].
  rewrite Hpar.
  assert (np <> id).
  { intros ->. assert (klt st id p) by (rewrite <- Hpar; apply ord_parent; auto; congruence).
    exact (klt_irrefl _ _ (klt_trans _ _ _ _ H Hk)). }
  destruct (Nat.eqb_spec np id); [congruence|]. destruct (Nat.eqb_spec p id); [congruence|]. reflexivity.
Qed.

Lemma link_progress : forall st c rc pr, c < length st -> pr < length st -> uget st c = (rc, c) -> klt st c pr ->
    let st' := set_nth c (rc, pr) st in
    length st' = length st /\ rk_sum st' = rk_sum st /\ nr_cnt st' = S (nr_cnt st) /\ mu2 st' < mu2 st.
Proof.
  intros st c rc pr Hc Hpr Hg Hk st'.
  destruct (move_up_measure st c rc c pr Hc Hg Hpr Hk) as (M1 & M2 & M3). subst st'.
  split; [apply length_set_nth; auto|]. split; auto. split; auto.
  unfold nr_cnt. rewrite length_set_nth by auto.
  pose proof (sumf_update (nonroot st) (nonroot (set_nth c (rc, pr) st)) (length st) c Hc M3) as U.
  pose proof (uget_fst_snd _ _ _ _ Hg) as [_ Hpar].
  assert (E1 : nonroot st c = 0) by (unfold nonroot; rewrite Hpar, Nat.eqb_refl; reflexivity).
  assert (E2 : nonroot (set_nth c (rc, pr) st) c = 1).
  { unfold nonroot. rewrite uparent_set by auto. rewrite Nat.eqb_refl. cbn [snd].
    destruct (Nat.eqb_spec pr c) as [->|]; [exfalso; exact (klt_irrefl _ _ Hk)| reflexivity]. }
  lia.
Qed.

Definition progress (st st' : uf_state) : Prop := st' = st \/ (length st' = length st /\ Phi st < Phi st').

Lemma Phi_up_mu : forall st st', length st' = length st -> rk_sum st' = rk_sum st -> mu2 st' < mu2 st -> Phi st < Phi st'.
Proof. intros st st' HL Hr Hm. unfold Phi. rewrite HL, Hr. pose proof (mu2_le st). pose proof (mu2_le st'). rewrite HL in *. lia. Qed.
Lemma Phi_up_rk : forall st st', length st' = length st -> rk_sum st' = S (rk_sum st) -> Phi st < Phi st'.
Proof. intros st st' HL Hr. unfold Phi. rewrite HL, Hr. pose proof (mu2_le st). pose proof (mu2_le st'). rewrite HL in *. nia. Qed.

(* every step keeps the accounting invariant and either leaves the array alone or increases Phi *)
Lemma cstep_progress : forall n c c', ginv n c -> Kinv c -> cstep c c' -> Kinv c' /\ progress (fst c) (fst c').
Proof.
  intros n c c' (HL & Hinv & Htot & Hsound & Hth) HK Hstep.
  destruct Hstep as [st ths k th st' th' Hn Ht]. unfold Kinv, progress in *. cbn [fst snd] in *.
  assert (Hthk : thinv st th) by (rewrite Forall_forall in Hth; apply Hth; eapply nth_error_In; eauto).
  pose proof (bumpers_set_nth ths k th th' Hn) as B.
  (* a step of a thread that is not (and does not become) a bumper and makes find-like progress *)
  assert (FindLike : is_bump th = false -> is_bump th' = false ->
            (st' = st \/ (length st' = length st /\ rk_sum st' = rk_sum st /\ nr_cnt st' = nr_cnt st /\ mu2 st' < mu2 st)) ->
            rk_sum st' + bumpers (set_nth k th' ths) <= nr_cnt st' /\ (st' = st \/ (length st' = length st /\ Phi st < Phi st'))).
  { intros B1 B2 [->|(L & R & N & M)]; rewrite B1, B2 in B.
    - split; [lia| auto].
    - split; [lia|]. right. split; auto. apply Phi_up_mu; auto. }
  destruct Ht as [a b s st' s' Hu|o f st' f' Hf]; cbn [thinv] in Hthk.
  - destruct Hthk as (x & y & Hxy & Hs).
    destruct Hu as [id2 f st' f' Hf|id2 r|id1 f st' f' Hf|id1|id1 r Hne|id1 id2|id1 id2 r1 c rc pr rp Hsw
                     |c rc pr Hg|c rc pr rp Hne Hg|c rc pr rp Hg|c pr rp Hg|c pr Hg|c pr rp Hne Hg];
      try (apply FindLike; auto; fail).
    + destruct Hs as [Hfi _]. apply FindLike; auto. eapply fstep_progress; eauto.
    + destruct Hs as [_ Hfi]. apply FindLike; auto. eapply fstep_progress; eauto.
    + (* link, then bump *)
      destruct Hs as (Hne & H1 & H2 & Hrp & Hord).
      pose proof (same_lt_l _ _ _ H1) as Hc. pose proof (same_lt_l _ _ _ H2) as Hpr.
      assert (Hk : klt st c pr).
      { unfold klt, key_lt. pose proof (uget_fst_snd _ _ _ _ Hg) as [Hr _]. rewrite Hr. lia. }
      destruct (link_progress st c rc pr Hc Hpr Hg Hk) as (L & R & N & M). cbn [is_bump] in B.
      split; [lia|]. right. split; auto. apply Phi_up_mu; auto.
    + destruct Hs as (Hne' & H1 & H2 & Hrp & Hord).
      pose proof (same_lt_l _ _ _ H1) as Hc. pose proof (same_lt_l _ _ _ H2) as Hpr.
      assert (Hk : klt st c pr).
      { unfold klt, key_lt. pose proof (uget_fst_snd _ _ _ _ Hg) as [Hr _]. rewrite Hr. lia. }
      destruct (link_progress st c rc pr Hc Hpr Hg Hk) as (L & R & N & M). cbn [is_bump] in B.
      split; [lia|]. right. split; auto. apply Phi_up_mu; auto.
    + (* bump *)
      destruct Hs as (H1 & H2 & Hab). pose proof (same_lt_l _ _ _ H2) as Hpr.
      destruct (bump_measure st pr rp Hpr Hg) as (R & N). cbn [is_bump] in B.
      assert (L : length (set_nth pr (S rp, pr) st) = length st) by (apply length_set_nth; auto).
      split; [lia|]. right. split; auto. apply Phi_up_rk; auto.
    + cbn [is_bump] in B. split; [lia| auto].
    + cbn [is_bump] in B. split; [lia| auto].
  - apply FindLike; auto. eapply fstep_progress; eauto.
Qed.

(* executions with the number of array-changing steps counted *)
Inductive creach_k (c0 : config) : config -> nat -> Prop :=
| CK_refl : creach_k c0 c0 0
| CK_quiet : forall c1 c2 k, creach_k c0 c1 k -> cstep c1 c2 -> fst c2 = fst c1 -> creach_k c0 c2 k
| CK_change : forall c1 c2 k, creach_k c0 c1 k -> cstep c1 c2 -> fst c2 <> fst c1 -> creach_k c0 c2 (S k).

Lemma creach_k_reach : forall c0 c k, creach_k c0 c k -> creach c0 c.
Proof. intros c0 c k H. induction H; [constructor| eapply CR_step; eauto| eapply CR_step; eauto]. Qed.

Lemma init_Kinv : forall n ths0, Forall (init_thread n) ths0 -> Kinv (uf_init n, ths0).
Proof.
  intros n ths0 H0. unfold Kinv. cbn [fst snd].
  assert (B : bumpers ths0 = 0).
  { unfold bumpers. induction ths0 as [|t l IH]; [reflexivity|]. inversion H0 as [|? ? Ht Hl]; subst. cbn [filter].
    destruct t as [a b s|o f]; cbn [init_thread is_bump] in *; [destruct Ht as (_ & _ & ->)|]; apply IH; auto. }
  assert (R : rk_sum (uf_init n) = 0).
  { unfold rk_sum. assert (sumf (urank (uf_init n)) (length (uf_init n)) <= length (uf_init n) * 0); [|lia].
    apply sumf_le. intros i Hi. unfold urank, uget, uf_init in *. rewrite map_length, seq_length in Hi.
    rewrite nth_indep with (d' := (fun i => (0, i)) 0) by (rewrite map_length, seq_length; lia).
    rewrite map_nth. cbn. lia. }
  lia.
Qed.

(* In every execution the number of steps that change the shared array (the
   successful compare-exchanges) is at most n*(n*n+1) + n*n. *)
Theorem uf_cas_bound : forall n ths0 c k, Forall (init_thread n) ths0 ->
    creach_k (uf_init n, ths0) c k -> k <= n * (n * n + 1) + n * n.
Proof.
  intros n ths0 c k H0 Hr.
  assert (G : ginv n c /\ Kinv c /\ k <= Phi (fst c)).
  { induction Hr as [|c1 c2 k Hr IH Hs Hq|c1 c2 k Hr IH Hs Hq].
    - split; [apply init_ginv; auto|]. split; [apply init_Kinv; auto| lia].
    - destruct IH as (G1 & K1 & P1). destruct (cstep_inv n c1 c2 G1 Hs) as [G2 _].
      destruct (cstep_progress n c1 c2 G1 K1 Hs) as [K2 _]. split; auto. split; auto. rewrite Hq. exact P1.
    - destruct IH as (G1 & K1 & P1). destruct (cstep_inv n c1 c2 G1 Hs) as [G2 _].
      destruct (cstep_progress n c1 c2 G1 K1 Hs) as [K2 [E|[_ P]]]; [contradiction|]. split; auto. split; auto. lia. }
  destruct G as ((HL & _) & HK & HP). unfold Kinv in HK.
  pose proof (nr_cnt_le (fst c)). unfold Phi in HP. rewrite HL in *.
  assert (rk_sum (fst c) <= n) by lia.
  assert (rk_sum (fst c) * (n * n + 1) <= n * (n * n + 1)) by (apply Nat.mul_le_mono_r; auto). lia.
Qed.
