(* C04 model: the determinism idioms the library uses to erase scheduling
   order before data reaches an output array.  Ported from the code that
   exists (file:line given at each definition).  Model only: no proofs here.

   Doubles that are only compared (edgePos, NumVert) are Z (finite non-NaN
   doubles embed order-isomorphically, DESIGN 2.1).  Out-of-bounds array
   accesses yield None. *)
From Coq Require Import ZArith List Bool Arith Permutation Sorted.
From Coq Require String.
Import ListNotations.

(* ------------------------------------------------------------------ *)
(* std::stable_sort(first, last, comp) / manifold::stable_sort: specified by
   the two facts the C++ standard gives (sorted w.r.t. comp; equivalent
   elements keep their relative order), plus one executable instance (stable
   insertion sort) showing the specification is inhabited and used for the
   concrete examples.  Every theorem about "the stable sort" is stated for ANY
   output satisfying the specification, so it covers std::stable_sort, the
   merge sort and the LSB radix sort of parallel.h (whose equality with the
   sequential stable sort is C13's subject). *)
Section StableSort.
  Context {A : Type}.
  Variable lt : A -> A -> bool.              (* the C++ comparator *)

  Definition eqv (a b : A) : bool := negb (lt a b) && negb (lt b a).

  Record strict_weak : Prop := {
    sw_irrefl : forall a, lt a a = false;
    sw_trans : forall a b c, lt a b = true -> lt b c = true -> lt a c = true;
    sw_eqv_trans : forall a b c, eqv a b = true -> eqv b c = true -> eqv a c = true }.

  Definition sorted_by (l : list A) : Prop :=
    StronglySorted (fun a b => lt b a = false) l.

  (* the subsequence of the elements equivalent to x, in list order *)
  Definition class_of (x : A) (l : list A) : list A := filter (eqv x) l.

  Definition same_classes (l1 l2 : list A) : Prop :=
    forall x, class_of x l1 = class_of x l2.

  Definition is_stable_sort_of (l out : list A) : Prop :=
    sorted_by out /\ same_classes l out.

  (* x goes before the first element that is not smaller than it *)
  Fixpoint insert (x : A) (l : list A) : list A :=
    match l with
    | [] => [x]
    | y :: t => if lt y x then y :: insert x t else x :: y :: t
    end.

  Definition stable_sort (l : list A) : list A := fold_right insert [] l.

  (* std::sort: sorted, same elements, NO promise about equivalent ones *)
  Definition is_unstable_sort_of (l out : list A) : Prop :=
    sorted_by out /\ Permutation l out.

  (* the comparator separates the records: equivalent => identical *)
  Definition key_injective_on (l : list A) : Prop :=
    forall a b, In a l -> In b l -> eqv a b = true -> a = b.
End StableSort.

(* ------------------------------------------------------------------ *)
(* tbb::combinable<T> fed by a parallel loop (boolean3.cpp:288 Kernel12Recorder,
   edge_op.cpp:49 FlagStore, boolean2.cpp:363/602/717).  A run is described by
   the leaves (chunks) of the loop in the order in which they were executed,
   each labelled by the worker whose local() received its records, and by the
   order in which combine_each visits the workers. *)
Section Combinable.
  Context {A : Type}.

  Definition exec := list (nat * list A).

  Definition local_of (w : nat) (e : exec) : list A :=
    concat (map snd (filter (fun p => Nat.eqb (fst p) w) e)).

  (* store.combine_each(push back) followed by the copy at the offsets *)
  Definition combine_each (visit : list nat) (e : exec) : list A :=
    flat_map (fun w => local_of w e) visit.

  (* legal: the executed leaves are the chunks of the iteration space in SOME
     order (work stealing), every leaf ran on SOME worker, and combine_each
     visits every worker exactly once, in SOME order *)
  Definition legal_run (chunks : list (list A)) (e : exec) (visit : list nat) : Prop :=
    Permutation (map snd e) chunks /\ NoDup visit /\ (forall p, In p e -> In (fst p) visit).
End Combinable.

(* vector appended under a mutex by the leaves (edge_op.cpp:1150 pinched,
   edge_op.cpp:1300 duplicates): leaves in any order *)
Definition mutex_append {A} (e : list (list A)) : list A := concat e.

(* std::unique on a sorted vector of size_t *)
Fixpoint unique_z (l : list Z) : list Z :=
  match l with
  | [] => []
  | x :: t => match t with
              | [] => [x]
              | y :: _ => if Z.eqb x y then unique_z t else x :: unique_z t
              end
  end.

(* ------------------------------------------------------------------ *)
(* lexicographic comparators over integer fields: the shape of every
   comparator involved (translate/c04_idioms.py checks the shape in the source
   and emits the field lists into Gen/Idioms.v) *)
Section Lex.
  Context {A : Type}.
  Fixpoint lex_lt (fs : list (A -> Z)) (a b : A) : bool :=
    match fs with
    | [] => false
    | f :: r => Z.ltb (f a) (f b) || (Z.eqb (f a) (f b) && lex_lt r a b)
    end.
End Lex.

(* boolean3.cpp:360-375  Intersect12_: i12 is stable_sorted with
     p1q2[a][index] < p1q2[b][index] ||
     (p1q2[a][index] == p1q2[b][index] && p1q2[a][1-index] < p1q2[b][1-index])
   with index = forward ? 0 : 1, then p1q2, x12, v12 are permuted by i12.  A
   record is the pair with its payload (x12, v12). *)
Definition col {P : Type} (second : bool) (r : (Z * Z) * P) : Z :=
  if second then snd (fst r) else fst (fst r).

Definition i12_lt {P : Type} (forward : bool) (a b : (Z * Z) * P) : bool :=
  let index := negb forward in
  Z.ltb (col index a) (col index b) ||
  (Z.eqb (col index a) (col index b) && Z.ltb (col (negb index) a) (col (negb index) b)).

(* the records one Intersect12_ produces: Kernel12 is a function of the
   (query, leaf) pair, so the payload is determined by the key *)
Definition i12_records {P : Type} (k12 : Z * Z -> P) (pairs : list (Z * Z)) : list ((Z * Z) * P) :=
  map (fun pq => (pq, k12 pq)) pairs.

(* boolean_result.cpp:191-202 *)
Record EdgePos := mkEdgePos { edgePos : Z; ep_vert : Z; collisionId : Z; isStart : bool }.

Definition edgepos_lt (a b : EdgePos) : bool :=
  Z.ltb (edgePos a) (edgePos b) ||
  (Z.eqb (edgePos a) (edgePos b) && Z.ltb (collisionId a) (collisionId b)).

(* boolean_result.cpp:232-240 AddNewEdgeVerts: under the bucket's mutex one
   collision i pushes |inclusion| entries {0.0, vert + j, i + offset, dir} *)
Definition collision_run (vert id : Z) (dir : bool) (n : nat) : list EdgePos :=
  map (fun j => mkEdgePos 0 (vert + Z.of_nat j) id dir) (seq 0 n).

(* csg_tree.cpp:32-42 MeshCompare on (leaf, serial); NumVert is the oracle *)
Definition mesh_compare (a b : Z * Z) : bool :=     (* (NumVert, serial) *)
  if negb (Z.eqb (fst a) (fst b)) then Z.ltb (fst a) (fst b) else Z.ltb (snd a) (snd b).

(* what std::pop_heap may return for ANY heap layout: an element no other
   element exceeds *)
Definition is_heap_top {A} (lt : A -> A -> bool) (l : list A) (m : A) : Prop :=
  In m l /\ forall x, In x l -> lt m x = false.

(* "index used only as a unique slot": tasks write results[i] (csg_tree.cpp:474
   parallelTmp[i]; w03[verts[i]]; every for_each that writes out[i]) *)
Fixpoint upd {A} (l : list A) (i : nat) (v : A) : list A :=
  match l, i with
  | [], _ => []
  | _ :: t, O => v :: t
  | x :: t, S k => x :: upd t k v
  end.

Definition apply_writes {A} (init : list A) (ws : list (nat * A)) : list A :=
  fold_left (fun acc w => upd acc (fst w) (snd w)) ws init.

(* ------------------------------------------------------------------ *)
(* sort.cpp:563 ReorderHalfedges.  A mesh is a list of triangles, halfedge
   3*t+i is slot i of triangle t; End(e) = Start(NextHalfedge(e)). *)
Record HE := mkHE { he_start : Z; he_pair : Z; he_prop : Z }.
Definition tri : Type := (HE * HE * HE)%type.

Definition sel (t : tri) (i : nat) : HE :=
  let '(a, b, c) := t in
  match Nat.modulo i 3 with O => a | S O => b | _ => c end.

Definition rot (t : tri) (k : nat) : tri := (sel t k, sel t (k + 1), sel t (k + 2)).

(* int index = 0; for (int i : {1, 2}) if (face[i].startVert < face[index].startVert) index = i; *)
Definition min_index (t : tri) : nat :=
  let i1 := if Z.ltb (he_start (sel t 1)) (he_start (sel t 0)) then 1 else 0 in
  if Z.ltb (he_start (sel t 2)) (he_start (sel t i1)) then 2 else i1.

(* step 1 *)
Definition step1_tri (t : tri) : tri :=
  if Z.ltb (he_start (sel t 0)) 0 then t else rot t (min_index t).

(* halfedge_.End(oppositeFace * 3 + j) *)
Definition end_of (m : list tri) (opp : Z) (j : nat) : option Z :=
  if Z.ltb opp 0 then None else
  match nth_error m (Z.to_nat opp) with
  | Some t => Some (he_start (sel t (j + 1)))
  | None => None
  end.

(* int index = -1; for (int j : {0,1,2}) if (startVert == End(opp*3+j)) index = j; *)
Definition find_index (m : list tri) (s opp : Z) : option Z :=
  match end_of m opp 0, end_of m opp 1, end_of m opp 2 with
  | Some e0, Some e1, Some e2 =>
      let i0 := if Z.eqb s e0 then 0%Z else (-1)%Z in
      let i1 := if Z.eqb s e1 then 1%Z else i0 in
      Some (if Z.eqb s e2 then 2%Z else i1)
  | _, _, _ => None
  end.

(* SetPair(currIdx, oppositeFace * 3 + index); C++ int division truncates *)
Definition fix_he (m : list tri) (h : HE) : option HE :=
  let opp := Z.quot (he_pair h) 3 in
  match find_index m (he_start h) opp with
  | Some idx => Some (mkHE (he_start h) (opp * 3 + idx) (he_prop h))
  | None => None
  end.

(* step 2 for one triangle; `if (startVert < 0) return;` leaves the lambda *)
Definition fix_tri (m : list tri) (t : tri) : option tri :=
  let '(a, b, c) := t in
  if Z.ltb (he_start a) 0 then Some t else
  match fix_he m a with None => None | Some a' =>
  if Z.ltb (he_start b) 0 then Some (a', b, c) else
  match fix_he m b with None => None | Some b' =>
  if Z.ltb (he_start c) 0 then Some (a', b', c) else
  match fix_he m c with None => None | Some c' => Some (a', b', c') end end end.

Fixpoint all_some {A} (l : list (option A)) : option (list A) :=
  match l with
  | [] => Some []
  | None :: _ => None
  | Some x :: t => match all_some t with Some r => Some (x :: r) | None => None end
  end.

Definition reorder_halfedges (m : list tri) : option (list tri) :=
  let m1 := map step1_tri m in
  all_some (map (fix_tri m1) m1).

(* The schedule dependence ReorderHalfedges is there for: every triangle's
   three halfedges sit in its three slots in a rotation r(t) that depends on
   which halfedge got the face's first slot (AtomicAdd(facePtr[face], 1) in
   DuplicateHalfedges, boolean_result.cpp:475; Face2Tri's single-triangle
   branch keeps slot 0 first), and pair indices point at the rotated slots. *)
Definition rename_pair (r : list nat) (p : Z) : Z :=
  if Z.ltb p 0 then p else
  let f := Z.quot p 3 in
  let k := Z.to_nat (Z.rem p 3) in
  let rf := Nat.modulo (nth (Z.to_nat f) r 0) 3 in
  (f * 3 + Z.of_nat (Nat.modulo (k + 3 - rf) 3))%Z.

Definition rename_he (r : list nat) (h : HE) : HE :=
  mkHE (he_start h) (rename_pair r (he_pair h)) (he_prop h).

Definition rename_tri (r : list nat) (t : tri) : tri :=
  let '(a, b, c) := t in (rename_he r a, rename_he r b, rename_he r c).

Fixpoint rotate_tris (rs : list nat) (m : list tri) : list tri :=
  match m, rs with
  | t :: m', k :: rs' => rot t k :: rotate_tris rs' m'
  | _, _ => m
  end.

Definition rotate_mesh (r : list nat) (m : list tri) : list tri :=
  rotate_tris r (map (rename_tri r) m).

(* the smallest startVert of the triangle is attained once, and no slot is a
   removed (-1) halfedge *)
Definition tri_unique_min (t : tri) : Prop :=
  let '(a, b, c) := t in
  (0 <= he_start a /\ 0 <= he_start b /\ 0 <= he_start c)%Z /\
  ((he_start a < he_start b /\ he_start a < he_start c) \/
   (he_start b < he_start a /\ he_start b < he_start c) \/
   (he_start c < he_start a /\ he_start c < he_start b))%Z.

(* ------------------------------------------------------------------ *)
(* the table translate/c04_idioms.py generates: one record per place where
   scheduling order enters a data structure *)
Inductive site_kind := Combinable | AtomicCursor | AtomicAccumulate | ConcurrentContainer | MutexAppend | TaskGroup | SortImplementation | UnionFindRoots.

Inductive normalisation :=
| StableSortTotalKey        (* stable_sort, comparator separates the records: sort_after_combine *)
| StableSortThenUnique      (* stable_sort + unique on integers *)
| StableSortRuns            (* stable_sort, equal keys only inside one atomically pushed run: edgepos_bucket_canonical *)
| OrderedIteration          (* ordered container iterated by key *)
| KeyLookupOnly             (* concurrent container only read by key *)
| UniqueSlotOnly            (* index used only as a unique slot: slot_writes_commute *)
| CanonicalRotation         (* Face2Tri + ReorderHalfedges: reorder_halfedges_canonical, named gap *)
| HeapTotalOrder            (* pop order fixed by a total order with serial numbers *)
| NoCombine                 (* thread-local scratch that is never combined *)
| StableMergeBounds         (* parallel.h mergeRec: left pivot splits the right run with lower_bound, right pivot the left run with upper_bound (the stable choice, C13 merge_sort model) *)
| SequentialPolicy          (* the functor's only call sites pass the literal ExecutionPolicy::Seq: AtomicAdd is a plain add in index order *)
| Allowed (reason : String.string) (* justified allow-list entry *)
| Flagged (key : String.string) (* shown schedule dependent by the exploration; key of the violation *)
| UnstableSort              (* std::sort / manifold::sort where equal keys may exist *)
| NotNormalised.

Record site := mkSite { s_file : String.string; s_line : Z; s_what : String.string; s_kind : site_kind; s_norm : normalisation }.

Definition norm_ok (n : normalisation) : bool :=
  match n with
  | UnstableSort | NotNormalised | Flagged _ => false
  | Allowed r => negb (String.eqb r String.EmptyString)
  | _ => true
  end.

Definition site_ok (s : site) : bool := norm_ok (s_norm s).

Definition is_flagged (s : site) : bool :=
  match s_norm s with Flagged _ => true | _ => false end.

(* every site is normalised (or justified), except the ones flagged as defects *)
Definition sites_ok (l : list site) : bool := forallb (fun s => site_ok s || is_flagged s) l.

(* ------------------------------------------------------------------ *)
(* face_op.cpp:226-245  Face2Tri, numEdge == 3: the face's three halfedges
   (startVert, endVert) sit in slots firstEdge+0..2 in the order the slot
   cursors handed out;  tri = (s0, s1, s2);  if (ends[0] == tri[2]) swap 1,2 *)
Definition face3 (h0 h1 h2 : Z * Z) : Z * Z * Z :=
  if Z.eqb (snd h0) (fst h2) then (fst h0, fst h2, fst h1) else (fst h0, fst h1, fst h2).

Definition perms3 {A} (x y z : A) : list (A * A * A) :=
  [(x, y, z); (x, z, y); (y, x, z); (y, z, x); (z, x, y); (z, y, x)].

(* ------------------------------------------------------------------ *)
(* face_op.cpp:41-66  AssembleHalfedges: the loop assembly of one face.
   std::multimap<int,int> vert_edge  (startVert -> local edge index), filled in
   slot order (emplace keeps equal keys in insertion order); modelled as an
   association list sorted by key, stable.  begin() = head, find(k) = the first
   entry with key k, erase(it).  polys is kept reversed at both levels
   (head = back()).  Dereferencing end() / back() of an empty vector is None. *)
Section Assemble.
  Context {V : Type}.
  Variable eqV : V -> V -> bool.        (* thisEdge == startEdge *)
  Variable endOf : V -> Z.              (* (start + thisEdge)->endVert *)

  Fixpoint mm_find (k : Z) (M : list (Z * V)) : option (V * list (Z * V)) :=
    match M with
    | [] => None
    | (k', v) :: r =>
        if Z.eqb k' k then Some (v, r)
        else match mm_find k r with
             | Some (x, r') => Some (x, (k', v) :: r')
             | None => None
             end
    end.

  Fixpoint assemble_loop (fuel : nat) (M : list (Z * V)) (startE thisE : V)
           (polys : list (list V)) : option (list (list V)) :=
    match fuel with
    | O => None
    | S n =>
        let go (M : list (Z * V)) (startE thisE : V) (polys : list (list V)) :=
            (* polys.back().push_back(thisEdge); result = find(endVert); thisEdge = result->second; erase(result) *)
            match polys with
            | [] => None
            | p :: ps =>
                match mm_find (endOf thisE) M with
                | None => None
                | Some (nxt, M') => assemble_loop n M' startE nxt ((thisE :: p) :: ps)
                end
            end in
        if eqV thisE startE then
          match M with
          | [] => Some (rev (map (@rev V) polys))                 (* break *)
          | (_, v) :: _ => go M v v ([] :: polys)                 (* startEdge = begin()->second; push_back({}) *)
          end
        else go M startE thisE polys
    end.
End Assemble.

(* the multimap of one face: (startVert, slot) in slot order, sorted stably by key *)
Definition key_lt {V} (a b : Z * V) : bool := Z.ltb (fst a) (fst b).

Definition face_multimap (es : list (Z * Z)) : list (Z * nat) :=
  stable_sort key_lt (combine (map fst es) (seq 0 (length es))).

(* AssembleHalfedges on the halfedges (startVert, endVert) of one face given in
   slot order; the result lists local edge indices (slots) *)
Definition assemble_halfedges (es : list (Z * Z)) : option (list (list nat)) :=
  assemble_loop Nat.eqb (fun i => snd (nth i es (0, 0)%Z)) (2 * length es + 2)
                (face_multimap es) 0%nat 0%nat [].

(* what reaches the triangulator and the output: the halfedge each slot holds *)
Definition contents (es : list (Z * Z)) (polys : list (list nat)) : list (list (Z * Z)) :=
  map (map (fun i => nth i es (0, 0)%Z)) polys.

(* ------------------------------------------------------------------ *)
(* boolean3.cpp:398-458 Winding03_: after all unite() calls, verts = the set of
   find(v); w03[verts[i]] += s02 over the collisions of that vertex (unique
   slots), then the flood fill w03[i] = w03[find(i)].  With wind v = the sum the
   collider produces for vertex v (an oracle: Kernel02 on doubles), the result
   is wind (root i). *)
Definition w03_result (wind : nat -> Z) (root : nat -> nat) (i : nat) : Z := wind (root i).
