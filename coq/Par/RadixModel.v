(* The radix path of stable_sort (details::radix_sort: LSB_radix_sort per block,
   SortedRange reduce/join) of Par/ParDefs.v sorts: for keys in [0, 256^nbytes)
   (the unsigned integral types the specialisation is now restricted to), every
   threshold >= 2 and every legal reduction tree the result is the (stable)
   insertion sort of the input.  For integers "stable" adds nothing to "sorted
   permutation", but the passes themselves must be stable for the LSD argument:
   pass j is a stable partition by byte j (radix_pass), which turns "sorted by
   the low j bytes" into "sorted by the low j+1 bytes". *)
From Coq Require Import List Arith Bool Lia ZArith Sorted Permutation.
From MV Require Import Par.Sched Par.ParDefs Par.SortModel Par.ScanModel.
Import ListNotations.
Local Open Scope Z_scope.

(* ------------------------------------------------------------ arithmetic *)
Definition B (j : nat) : Z := 256 ^ Z.of_nat j.
Definition key (j : nat) (x : Z) : Z := x mod B j.

Lemma B_pos : forall j, 0 < B j.
Proof. intros. unfold B. apply Z.pow_pos_nonneg; lia. Qed.
Lemma B_S : forall j, B (S j) = B j * 256.
Proof. intros. unfold B. rewrite Nat2Z.inj_succ, Z.pow_succ_r by lia. ring. Qed.

Lemma byte_mod : forall k x, byte k x = (x / B k) mod 256.
Proof.
  intros k x. unfold byte, B. change 255 with (Z.ones 8). rewrite Z.land_ones by lia.
  rewrite Z.shiftr_div_pow2 by lia. rewrite Z.pow_mul_r by lia. reflexivity.
Qed.
Lemma byte_range : forall k x, 0 <= byte k x < 256.
Proof. intros. rewrite byte_mod. apply Z.mod_pos_bound. lia. Qed.

Lemma key_S : forall j x, key (S j) x = B j * byte j x + key j x.
Proof.
  intros j x. unfold key. rewrite B_S, byte_mod. pose proof (B_pos j).
  rewrite Z.rem_mul_r by lia. ring.
Qed.
Lemma key_range : forall j x, 0 <= key j x < B j.
Proof. intros. unfold key. apply Z.mod_pos_bound, B_pos. Qed.

Definition R (j : nat) (x y : Z) : Prop := key j x <= key j y.

Lemma R_S_same_byte : forall j x y, byte j x = byte j y -> R j x y -> R (S j) x y.
Proof. unfold R. intros j x y Hb H. rewrite !key_S, Hb. lia. Qed.
Lemma R_S_lt_byte : forall j x y, byte j x < byte j y -> R (S j) x y.
Proof.
  unfold R. intros j x y Hb. rewrite !key_S. pose proof (key_range j x). pose proof (key_range j y).
  pose proof (B_pos j). nia.
Qed.

(* ------------------------------------------------------ StronglySorted kit *)
Section SS.
  Context {A : Type}.
  Lemma SS_app : forall (Rel : A -> A -> Prop) a b,
      StronglySorted Rel a -> StronglySorted Rel b -> (forall x y, In x a -> In y b -> Rel x y) ->
      StronglySorted Rel (a ++ b).
  Proof.
    intros Rel a b Ha Hb Hab. induction Ha as [|x a Ha IH Hx]; [exact Hb|].
    cbn [app]. constructor.
    - apply IH. intros; apply Hab; auto. right; auto.
    - apply Forall_app. split; [exact Hx|]. apply Forall_forall. intros y Hy. apply Hab; auto. left; auto.
  Qed.
  Lemma SS_filter : forall (Rel : A -> A -> Prop) p l, StronglySorted Rel l -> StronglySorted Rel (filter p l).
  Proof.
    intros Rel p l H. induction H as [|x l H IH Hx]; cbn [filter]; [constructor|].
    destruct (p x); auto. constructor; auto.
    apply Forall_forall. intros y Hy. apply filter_In in Hy. rewrite Forall_forall in Hx. apply Hx. tauto.
  Qed.
  Lemma SS_impl_in : forall (R1 R2 : A -> A -> Prop) l,
      (forall x y, In x l -> In y l -> R1 x y -> R2 x y) -> StronglySorted R1 l -> StronglySorted R2 l.
  Proof.
    intros R1 R2 l Himp H. induction H as [|x l H IH Hx]; [constructor|].
    constructor.
    - apply IH. intros; apply Himp; auto; right; auto.
    - apply Forall_forall. intros y Hy. rewrite Forall_forall in Hx. apply Himp; auto; [left; auto| right; auto].
  Qed.
  Lemma filter_len_le : forall (p : A -> bool) l, (length (filter p l) <= length l)%nat.
  Proof. intros p l. induction l as [|y l IH]; cbn; [lia|]. destruct (p y); cbn; lia. Qed.
  Lemma filter_length_all : forall (p : A -> bool) l, length (filter p l) = length l -> forall x, In x l -> p x = true.
  Proof.
    intros p l. induction l as [|y l IH]; intros H x Hx; [destruct Hx|].
    cbn [filter] in H. destruct (p y) eqn:Py.
    - cbn in H. destruct Hx as [<-|Hx]; [auto| apply IH; auto].
    - exfalso. pose proof (filter_len_le p l). cbn in H. lia.
  Qed.
  Lemma filter_or_perm : forall (p q : A -> bool) l, (forall x, In x l -> p x && q x = false) ->
      Permutation (filter (fun x => p x || q x) l) (filter p l ++ filter q l).
  Proof.
    intros p q l Hd. induction l as [|x l IH]; [constructor|].
    assert (IH' := IH (fun y Hy => Hd y (or_intror Hy))). specialize (Hd x (or_introl eq_refl)).
    cbn [filter]. destruct (p x) eqn:Px, (q x) eqn:Qx; cbn [orb andb] in *; try discriminate.
    - cbn [app]. constructor. exact IH'.
    - eapply perm_trans; [constructor; exact IH'|]. apply Permutation_middle.
    - exact IH'.
  Qed.
End SS.

(* ------------------------------------------------------------ one pass *)
Definition inb (k : nat) (b : nat) (x : Z) : bool := Z.eqb (byte k x) (Z.of_nat b).
Definition buckets (k : nat) (l : list Z) (s n : nat) : list Z :=
  flat_map (fun b : nat => filter (inb k b) l) (seq s n).

Lemma radix_pass_buckets : forall k l, radix_pass k l = buckets k l 0 256.
Proof. reflexivity. Qed.

Lemma buckets_In : forall k l n s x, In x (buckets k l s n) -> In x l /\ Z.of_nat s <= byte k x < Z.of_nat (s + n).
Proof.
  intros k l n s x H. unfold buckets in H. apply in_flat_map in H. destruct H as (b & Hb & Hx).
  apply in_seq in Hb. apply filter_In in Hx. destruct Hx as [Hx E]. unfold inb in E. apply Z.eqb_eq in E. split; auto. lia.
Qed.

Lemma buckets_sorted : forall k l, StronglySorted (R k) l -> forall n s, StronglySorted (R (S k)) (buckets k l s n).
Proof.
  intros k l Hl n. induction n as [|n IH]; intros s; [constructor|].
  unfold buckets. cbn [seq flat_map]. apply SS_app.
  - apply SS_impl_in with (R1 := R k); [|apply SS_filter; exact Hl].
    intros x y Hx Hy. apply filter_In in Hx, Hy. unfold inb in *. destruct Hx as [_ Ex], Hy as [_ Ey].
    apply Z.eqb_eq in Ex, Ey. apply R_S_same_byte. congruence.
  - apply (IH (S s)).
  - intros x y Hx Hy. apply filter_In in Hx. destruct Hx as [_ Ex]. unfold inb in Ex. apply Z.eqb_eq in Ex.
    apply (buckets_In k l n (S s)) in Hy. destruct Hy as [_ Hy]. apply R_S_lt_byte. lia.
Qed.

Lemma buckets_perm : forall k l n s,
    Permutation (filter (fun x => (Z.of_nat s <=? byte k x) && (byte k x <? Z.of_nat (s + n))) l) (buckets k l s n).
Proof.
  intros k l n. induction n as [|n IH]; intros s.
  - unfold buckets. cbn [seq flat_map]. rewrite Nat.add_0_r.
    replace (filter _ l) with (@nil Z); [constructor|]. symmetry.
    induction l as [|x l IHl]; [reflexivity|]. cbn [filter].
    destruct ((Z.of_nat s <=? byte k x) && (byte k x <? Z.of_nat s)) eqn:E; [|exact IHl].
    apply andb_true_iff in E. destruct E as [E1 E2]. apply Z.leb_le in E1. apply Z.ltb_lt in E2. lia.
  - unfold buckets. cbn [seq flat_map]. fold (buckets k l (S s) n).
    eapply perm_trans; [|apply Permutation_app_head; apply (IH (S s))].
    eapply perm_trans; [|apply (filter_or_perm (inb k s) (fun x => (Z.of_nat (S s) <=? byte k x) && (byte k x <? Z.of_nat (S s + n))))].
    + erewrite filter_ext; [apply Permutation_refl|]. intros x. unfold inb.
      destruct (byte k x =? Z.of_nat s) eqn:E1; destruct (Z.of_nat s <=? byte k x) eqn:E2;
        destruct (byte k x <? Z.of_nat (s + S n)) eqn:E3; destruct (Z.of_nat (S s) <=? byte k x) eqn:E4;
        destruct (byte k x <? Z.of_nat (S s + n)) eqn:E5; cbn [andb orb]; try reflexivity; exfalso;
        rewrite ?Z.eqb_eq, ?Z.eqb_neq, ?Z.leb_le, ?Z.leb_gt, ?Z.ltb_lt, ?Z.ltb_ge in *; lia.
    + intros x _. unfold inb. destruct (byte k x =? Z.of_nat s) eqn:E1; [|reflexivity].
      destruct (Z.of_nat (S s) <=? byte k x) eqn:E4; [|reflexivity]. exfalso.
      rewrite ?Z.eqb_eq, ?Z.leb_le in *. lia.
Qed.

Lemma radix_pass_perm : forall k l, Permutation l (radix_pass k l).
Proof.
  intros k l. rewrite radix_pass_buckets. eapply perm_trans; [|apply buckets_perm].
  replace (filter _ l) with l; [apply Permutation_refl|]. symmetry.
  induction l as [|x l IH]; [reflexivity|]. cbn [filter]. pose proof (byte_range k x).
  assert (E : (Z.of_nat 0 <=? byte k x) && (byte k x <? Z.of_nat (0 + 256)) = true).
  { apply andb_true_iff. split; [apply Z.leb_le|apply Z.ltb_lt]; cbn; lia. }
  rewrite E. f_equal. exact IH.
Qed.

Lemma radix_pass_sorted : forall k l, StronglySorted (R k) l -> StronglySorted (R (S k)) (radix_pass k l).
Proof. intros. rewrite radix_pass_buckets. apply buckets_sorted; auto. Qed.

Lemma can_skip_same_byte : forall k l, can_skip k l = true -> forall x y, In x l -> In y l -> byte k x = byte k y.
Proof.
  intros k l H x y Hx Hy. unfold can_skip in H. apply existsb_exists in H. destruct H as (b & _ & E).
  apply Nat.eqb_eq in E.
  pose proof (filter_length_all _ _ E x Hx) as Ex. pose proof (filter_length_all _ _ E y Hy) as Ey.
  cbv beta in Ex, Ey. apply Z.eqb_eq in Ex, Ey. congruence.
Qed.

(* ------------------------------------------------------------ all passes *)
Lemma radix_passes_inv : forall m j orig l t,
    Permutation orig l -> StronglySorted (R j) l ->
    Permutation orig (fst (radix_passes (seq j m) orig l t)) /\
    StronglySorted (R (j + m)) (fst (radix_passes (seq j m) orig l t)).
Proof.
  induction m as [|m IH]; intros j orig l t HP HS.
  - cbn. rewrite Nat.add_0_r. auto.
  - cbn [seq radix_passes]. replace (j + S m)%nat with (S j + m)%nat by lia.
    destruct (can_skip j orig) eqn:Ck.
    + apply IH; auto. apply SS_impl_in with (R1 := R j); auto.
      intros x y Hx Hy. apply R_S_same_byte. apply (can_skip_same_byte j orig Ck);
        eapply Permutation_in; try apply Permutation_sym; eauto.
    + apply IH.
      * eapply perm_trans; [exact HP| apply radix_pass_perm].
      * apply radix_pass_sorted; auto.
Qed.

Definition sortedZ (l : list Z) : Prop := StronglySorted Z.le l.

Lemma is_sortedb_sound : forall l, is_sortedb l = true -> sortedZ l.
Proof.
  induction l as [|x l IH]; intros H; [constructor|].
  cbn [is_sortedb] in H. destruct l as [|y l']; [constructor; constructor|].
  apply andb_true_iff in H. destruct H as [Hxy Hr]. apply Z.leb_le in Hxy.
  specialize (IH Hr). constructor; auto. inversion IH as [|? ? _ Hy]; subst.
  constructor; auto. rewrite Forall_forall in *. intros z Hz. specialize (Hy z Hz). lia.
Qed.

Lemma sorted_perm_eq : forall a b, sortedZ a -> sortedZ b -> Permutation a b -> a = b.
Proof.
  induction a as [|x a IH]; intros b Ha Hb HP.
  - apply Permutation_nil in HP. auto.
  - destruct b as [|y b]; [apply Permutation_sym, Permutation_nil in HP; discriminate|].
    inversion Ha as [|? ? Ha' Hx]; subst. inversion Hb as [|? ? Hb' Hy]; subst.
    rewrite Forall_forall in Hx, Hy.
    assert (x = y).
    { assert (In y (x :: a)) by (eapply Permutation_in; [apply Permutation_sym; exact HP| left; auto]).
      assert (In x (y :: b)) by (eapply Permutation_in; [exact HP| left; auto]).
      destruct H as [->|H]; auto. destruct H0 as [->|H0]; auto.
      specialize (Hx y H). specialize (Hy x H0). lia. }
    subst y. f_equal. apply IH; auto. eapply Permutation_cons_inv; eauto.
Qed.

Lemma Zltb_asym : forall a b, Z.ltb a b = true -> Z.ltb b a = false.
Proof. intros a b H. apply Z.ltb_lt in H. apply Z.ltb_ge. lia. Qed.
Lemma Zltb_negtrans : forall a b c, Z.ltb a b = false -> Z.ltb b c = false -> Z.ltb a c = false.
Proof. intros a b c H1 H2. apply Z.ltb_ge in H1, H2. apply Z.ltb_ge. lia. Qed.

Lemma isort_sortedZ : forall l, sortedZ (isort Z.ltb l).
Proof.
  intros l. apply SS_impl_in with (R1 := fun a b => Z.ltb b a = false).
  - intros x y _ _ H. apply Z.ltb_ge in H. exact H.
  - apply (isort_sorted Z.ltb Zltb_asym Zltb_negtrans).
Qed.

Lemma sortedZ_is_isort : forall l l', sortedZ l' -> Permutation l l' -> l' = isort Z.ltb l.
Proof.
  intros l l' Hs HP. apply sorted_perm_eq; auto using isort_sortedZ.
  eapply perm_trans; [apply Permutation_sym; exact HP| apply isort_perm].
Qed.

(* LSB_radix_sort on keys of nbytes bytes *)
Lemma lsb_radix_sort_correct : forall nbytes l,
    (forall x, In x l -> 0 <= x < B nbytes) ->
    fst (lsb_radix_sort nbytes l) = isort Z.ltb l.
Proof.
  intros nbytes l Hr. unfold lsb_radix_sort. destruct (is_sortedb l) eqn:Es.
  - cbn [fst]. apply sortedZ_is_isort; [apply is_sortedb_sound; auto| apply Permutation_refl].
  - destruct (radix_passes_inv nbytes 0 l l false (Permutation_refl l)) as [HP HS].
    + apply SS_impl_in with (R1 := fun _ _ => True).
      * intros x y _ _ _. unfold R, key, B. cbn. rewrite !Z.mod_1_r. lia.
      * clear. induction l; constructor; auto. apply Forall_forall. auto.
    + apply sortedZ_is_isort; auto. cbn [plus] in HS.
      apply SS_impl_in with (R1 := R nbytes); auto.
      intros x y Hx Hy H. unfold R, key in H.
      rewrite !Z.mod_small in H; auto; apply Hr; eapply Permutation_in; try apply Permutation_sym; eauto.
Qed.

(* --------------------------------------------------- SortedRange join/reduce *)
Lemma merge_concat : forall (la lb : list Z), (forall x y, In x la -> In y lb -> Z.ltb y x = false) ->
    merge Z.ltb la lb = la ++ lb.
Proof.
  intros la lb H. pose proof (merge_split Z.ltb la [] [] lb H (fun y x (Hy : In y []) => match Hy with end)) as M.
  rewrite app_nil_r in M. cbn [app] in M. rewrite M, merge_nil_r, merge_nil_l. reflexivity.
Qed.

Lemma sortedZ_le_last : forall l x d, sortedZ l -> In x l -> x <= last l d.
Proof.
  induction l as [|y l IH]; intros x d Hs Hx; [destruct Hx|].
  inversion Hs as [|? ? Hs' Hy]; subst. destruct l as [|z l'].
  - destruct Hx as [<-|[]]. cbn. lia.
  - change (last (y :: z :: l') d) with (last (z :: l') d). destruct Hx as [<-|Hx].
    + rewrite Forall_forall in Hy. specialize (Hy z (or_introl eq_refl)).
      pose proof (IH z d Hs' (or_introl eq_refl)). lia.
    + apply IH; auto.
Qed.

Lemma sr_join_correct : forall thr P Q ta tb, (2 <= thr)%nat -> P <> [] -> Q <> [] ->
    exists t, sr_join thr (isort Z.ltb P, ta) (isort Z.ltb Q, tb) = Some (isort Z.ltb (P ++ Q), t).
Proof.
  intros thr P Q ta tb Hthr HP HQ. unfold sr_join.
  set (la := isort Z.ltb P). set (lb := isort Z.ltb Q).
  assert (Hla : la <> []) by (intros E; apply (f_equal (@length Z)) in E; subst la; rewrite isort_length in E; destruct P; [congruence|discriminate]).
  assert (Hlb : lb <> []) by (intros E; apply (f_equal (@length Z)) in E; subst lb; rewrite isort_length in E; destruct Q; [congruence|discriminate]).
  destruct la as [|a0 la'] eqn:Ea; [congruence|]. destruct lb as [|b0 lb'] eqn:Eb; [congruence|].
  rewrite <- Ea, <- Eb.
  assert (Hm : merge Z.ltb la lb = isort Z.ltb (P ++ Q)) by (subst la lb; symmetry; apply (isort_app Z.ltb Zltb_asym Zltb_negtrans)).
  destruct (last la 0 >? b0) eqn:Ecmp.
  - rewrite (pmerge_correct Z.ltb Zltb_asym Zltb_negtrans) by
        (auto; try lia; subst la lb; apply (isort_sorted Z.ltb Zltb_asym Zltb_negtrans)).
    rewrite Hm. eauto.
  - rewrite <- Hm, merge_concat; [eauto|].
    intros x y Hx Hy. apply Z.ltb_ge.
    assert (x <= last la 0) by (apply sortedZ_le_last; auto; subst la; apply isort_sortedZ).
    assert (b0 <= y).
    { pose proof (isort_sortedZ Q) as HsQ. fold lb in HsQ. rewrite Eb in HsQ, Hy.
      inversion HsQ as [|? ? _ Hall]; subst. destruct Hy as [<-|Hy]; [lia|]. rewrite Forall_forall in Hall. auto. }
    assert (last la 0 <= b0) by (rewrite Z.gtb_ltb in Ecmp; apply Z.ltb_ge in Ecmp; exact Ecmp). lia.
Qed.

Definition good (v : option sr) (P : list Z) : Prop :=
  (P = [] /\ v = Some None) \/ (P <> [] /\ exists t, v = Some (Some (isort Z.ltb P, t))).

Lemma in_slice : forall (xs : list Z) lo hi x, In x (slice_of xs lo hi) -> In x xs.
Proof.
  intros xs lo hi x H. unfold slice_of in H.
  rewrite <- (firstn_skipn lo xs). apply in_or_app. right.
  rewrite <- (firstn_skipn (hi - lo) (skipn lo xs)). apply in_or_app. left. exact H.
Qed.

Lemma slice_nonempty : forall (xs : list Z) lo hi, (lo < hi)%nat -> (hi <= length xs)%nat -> slice_of xs lo hi <> [].
Proof.
  intros xs lo hi H1 H2 E. apply (f_equal (@length Z)) in E. unfold slice_of in E.
  rewrite firstn_length, skipn_length in E. cbn in E. lia.
Qed.

Lemma radix_reduce_correct : forall thr nbytes xs, (2 <= thr)%nat -> (forall x, In x xs -> 0 <= x < B nbytes) ->
    forall t g lo hi v P, wf_rtree g lo hi t = true -> (hi <= length xs)%nat -> good v P ->
      good (reduce_run (fun _ => Some None) (sr_leaf thr nbytes xs) (sr_joinv thr) lo hi t v) (P ++ slice_of xs lo hi).
Proof.
  intros thr nbytes xs Hthr Hr. induction t as [|mid fresh l IHl r IHr]; intros g lo hi v P Hwf Hhi Hg;
    cbn [reduce_run wf_rtree] in *.
  - apply Nat.ltb_lt in Hwf. pose proof (slice_nonempty xs lo hi Hwf Hhi) as Hne.
    assert (Hin : forall x, In x (slice_of xs lo hi) -> 0 <= x < B nbytes).
    { intros x Hx. apply Hr. eapply in_slice; eauto. }
    unfold sr_leaf. fold (slice_of xs lo hi).
    destruct (lsb_radix_sort nbytes (slice_of xs lo hi)) as [sl st] eqn:El.
    pose proof (lsb_radix_sort_correct nbytes _ Hin) as Hl. rewrite El in Hl. cbn [fst] in Hl. subst sl.
    right. split; [destruct P; cbn; [exact Hne|discriminate]|].
    destruct Hg as [[-> ->]|[HP [tt ->]]].
    + cbn [app]. eauto.
    + destruct (sr_join_correct thr P (slice_of xs lo hi) tt st Hthr HP Hne) as [t' ->]. eauto.
  - rewrite !andb_true_iff in Hwf. destruct Hwf as ((((_ & H1) & H2) & H3) & H4).
    apply Nat.ltb_lt in H1, H2.
    rewrite <- (slice_app xs lo mid hi) by lia. rewrite app_assoc.
    assert (Hmid : (mid <= length xs)%nat) by lia.
    destruct fresh.
    + pose proof (IHl g lo mid v P H3 Hmid Hg) as GL.
      pose proof (IHr g mid hi (Some None) [] H4 Hhi (or_introl (conj eq_refl eq_refl))) as GR. cbn [app] in GR.
      pose proof (slice_nonempty xs lo mid H1 Hmid) as N1. pose proof (slice_nonempty xs mid hi H2 Hhi) as N2.
      destruct GL as [[E _]|[NL [tl ->]]]; [apply app_eq_nil in E; tauto|].
      destruct GR as [[E _]|[NR [tr ->]]]; [congruence|].
      cbn [sr_joinv].
      destruct (sr_join_correct thr (P ++ slice_of xs lo mid) (slice_of xs mid hi) tl tr Hthr NL NR) as [t' ->].
      right. split; [intros E; apply app_eq_nil in E; tauto| eauto].
    + apply (IHr g mid hi); auto. apply (IHl g lo mid); auto.
Qed.

(* details::radix_sort under any legal reduction tree *)
Theorem radix_sort_correct : forall thr nbytes xs grain t,
    (2 <= thr)%nat -> (forall x, In x xs -> 0 <= x < B nbytes) ->
    legal_reduce grain (length xs) t = true ->
    radix_sort thr nbytes xs t = Some (isort Z.ltb xs).
Proof.
  intros thr nbytes xs grain t Hthr Hr HL. unfold radix_sort, reduce_top, legal_reduce in *.
  destruct (length xs =? 0)%nat eqn:E.
  - apply Nat.eqb_eq in E. destruct xs; [reflexivity|discriminate].
  - cbn [orb] in HL.
    pose proof (radix_reduce_correct thr nbytes xs Hthr Hr t grain 0%nat (length xs) (Some None) []
                  HL (le_n _) (or_introl (conj eq_refl eq_refl))) as G.
    cbn [app] in G. unfold slice_of in G. rewrite Nat.sub_0_r in G. cbn [skipn] in G. rewrite firstn_all in G.
    destruct G as [[E0 _]|[_ [tt ->]]]; [subst xs; discriminate| reflexivity].
Qed.
