(* src/disjoint_sets.h: atomic-step model of the lock-free union-find.
   State: one (rank, parent) word per element (mData[i] = rank << 32 | parent).
   Every write in the C++ is a compare-exchange on ONE word; a failed CAS
   changes nothing.  The three kinds of successful CAS are the constructors of
   [uf_step] below, for ANY thread at ANY time (so any interleaving of any
   number of threads is a sequence of such steps interleaved with reads).

   PARTIAL: proved here is the key safety invariant for every interleaving —
   parent pointers strictly increase in the (rank, then smaller id) order, so no
   step can close a cycle — under side conditions on the *current* state that
   the code establishes from possibly stale reads (justified informally by:
   ranks never decrease, a non-root's word only changes by path halving, which
   keeps its rank).  Not proved: that those side conditions follow from the
   thread-local reads (needs the rank-monotonicity history invariant), that the
   final partition is the equivalence closure of the united pairs, and the
   hash table.  Those are exercised with real threads by harness/c13_uf.cpp. *)
From Coq Require Import List Arith Bool Lia.
From MV Require Import Par.Sched Par.ScanModel.
Import ListNotations.

Definition uf_state := list (nat * nat).
Definition uget (st : uf_state) (i : nat) : nat * nat := nth i st (0, i).
Definition urank (st : uf_state) (i : nat) : nat := fst (uget st i).
Definition uparent (st : uf_state) (i : nat) : nat := snd (uget st i).

(* child (rc, c) is below parent (rp, p) *)
Definition key_lt (rc c rp p : nat) : Prop := rc < rp \/ (rc = rp /\ p < c).

Definition ord_inv (st : uf_state) : Prop :=
  forall i, i < length st -> uparent st i <> i ->
            uparent st i < length st /\ key_lt (urank st i) i (urank st (uparent st i)) (uparent st i).

Inductive uf_step (st : uf_state) : uf_state -> Prop :=
| StepLink : forall id1 id2 r1,
    (* unite: mData[id1].compare_exchange_strong((r1,id1), (r1,id2)) succeeded *)
    id1 < length st -> id2 < length st -> id1 <> id2 ->
    uget st id1 = (r1, id1) ->
    key_lt r1 id1 (urank st id2) id2 ->       (* r1 < r2 or r1 = r2 and id2 < id1 were read earlier; rank(id2) can only have grown *)
    uf_step st (set_nth id1 (r1, id2) st)
| StepHalve : forall id r p np,
    (* findImpl: mData[id].compare_exchange_weak((r,p), (r,np)) succeeded, np = an earlier parent(p) *)
    id < length st -> np < length st ->
    uget st id = (r, p) ->
    (np = p \/ key_lt (urank st p) p (urank st np) np) ->
    uf_step st (set_nth id (r, np) st)
| StepBump : forall id2 r2,
    (* unite: mData[id2].compare_exchange_strong((r2,id2), (r2+1,id2)) succeeded *)
    id2 < length st -> uget st id2 = (r2, id2) ->
    uf_step st (set_nth id2 (S r2, id2) st).

Lemma uget_set : forall st b x i, b < length st ->
    uget (set_nth b x st) i = if i =? b then x else uget st i.
Proof. intros. unfold uget. apply nth_set_nth; auto. Qed.

Lemma key_lt_trans : forall r1 a r2 b r3 c, key_lt r1 a r2 b -> key_lt r2 b r3 c -> key_lt r1 a r3 c.
Proof. unfold key_lt. intros. lia. Qed.

Lemma uf_step_preserves_order : forall st st', ord_inv st -> uf_step st st' -> ord_inv st'.
Proof.
  intros st st' Hinv Hstep. destruct Hstep as [id1 id2 r1 H1 H2 Hne Hg Hk | id r p np H1 H2 Hg Hk | id2 r2 H1 Hg];
    intros i Hi.
  all: rewrite length_set_nth in * by auto.
  all: unfold uparent, urank in *.
  all: rewrite uget_set by auto.
  - destruct (i =? id1) eqn:E.
    + apply Nat.eqb_eq in E. subst i. cbn [fst snd]. intros _. split; auto.
      rewrite uget_set by auto. destruct (id2 =? id1) eqn:E2; [apply Nat.eqb_eq in E2; lia|]. exact Hk.
    + intros Hp. destruct (Hinv i Hi Hp) as [Hl Hkk]. unfold uparent, urank in *. split; auto.
      rewrite uget_set by auto. destruct (snd (uget st i) =? id1) eqn:E2; auto.
      apply Nat.eqb_eq in E2. rewrite E2 in Hkk. rewrite Hg in Hkk. rewrite E2. cbn [fst snd] in *. exact Hkk.
  - destruct (i =? id) eqn:E.
    + apply Nat.eqb_eq in E. subst i. cbn [fst snd]. intros Hnp. split; auto.
      rewrite uget_set by auto.
      assert (Hr : fst (if np =? id then (r, np) else uget st np) = fst (uget st np)).
      { destruct (np =? id) eqn:E2; auto. apply Nat.eqb_eq in E2. lia. }
      rewrite Hr.
      destruct (Nat.eq_dec p id) as [->|Hpid].
      * destruct Hk as [->|Hk]; [lia|]. rewrite Hg in Hk. exact Hk.
      * assert (Hp : snd (uget st id) <> id) by (rewrite Hg; exact Hpid).
        destruct (Hinv id H1 Hp) as [_ Hkk]. unfold uparent, urank in Hkk. rewrite Hg in Hkk. cbn [fst snd] in Hkk.
        destruct Hk as [->|Hk]; [exact Hkk| eapply key_lt_trans; eauto].
    + intros Hp. destruct (Hinv i Hi Hp) as [Hl Hkk]. unfold uparent, urank in *. split; auto.
      rewrite uget_set by auto. destruct (snd (uget st i) =? id) eqn:E2; auto.
      apply Nat.eqb_eq in E2. rewrite E2 in Hkk. rewrite Hg in Hkk. rewrite E2. cbn [fst snd] in *. exact Hkk.
  - destruct (i =? id2) eqn:E.
    + apply Nat.eqb_eq in E. subst i. cbn [fst snd]. intros Hc. exfalso. apply Hc. reflexivity.
    + intros Hp. destruct (Hinv i Hi Hp) as [Hl Hkk]. unfold uparent, urank in *. split; auto.
      rewrite uget_set by auto. destruct (snd (uget st i) =? id2) eqn:E2; auto.
      apply Nat.eqb_eq in E2. rewrite E2 in Hkk. rewrite Hg in Hkk. cbn [fst snd] in *.
      unfold key_lt in *. rewrite E2. lia.
  Qed.

(* the initial state (every element its own root, rank 0) satisfies the invariant *)
Lemma ord_inv_init : forall n, ord_inv (map (fun i => (0, i)) (seq 0 n)).
Proof.
  intros n i Hi Hp. exfalso. apply Hp. unfold uparent, uget.
  rewrite map_length, seq_length in Hi.
  rewrite nth_indep with (d' := (fun i => (0, i)) 0) by (rewrite map_length, seq_length; lia).
  rewrite map_nth, seq_nth by lia. reflexivity.
Qed.

(* the order forbids 1- and 2-cycles directly, and any cycle by transitivity/irreflexivity *)
Lemma key_lt_irrefl : forall r a, ~ key_lt r a r a.
Proof. unfold key_lt. intros. lia. Qed.

(* ====================================================================
   Sequential model of DisjointSets (what one thread executes when no CAS
   fails): findImpl with path halving, unite with union by (rank, smaller id).
   Extracted and compared word-for-word (rank, parent of every element) with
   the implementation run by one thread, and partition-for-partition with the
   concurrent runs (harness/c13_uf.cpp). *)
Fixpoint ufind (fuel : nat) (st : uf_state) (id : nat) : option (uf_state * nat) :=
  match fuel with
  | O => None
  | S fu =>
    let '(r, p) := uget st id in
    if p =? id then Some (st, id)
    else let np := uparent st p in
         (* if (value != new_value) mData[id].compare_exchange_weak(value, new_value) *)
         let st' := if np =? p then st else set_nth id (r, np) st in
         ufind fu st' np
  end.

Definition uunite (fuel : nat) (st : uf_state) (a b : nat) : option uf_state :=
  match ufind fuel st a with
  | None => None
  | Some (st1, i1) =>
    match ufind fuel st1 b with
    | None => None
    | Some (st2, i2) =>
      if i1 =? i2 then Some st2
      else
        let r1 := urank st2 i1 in
        let r2 := urank st2 i2 in
        (* if (r1 > r2 || (r1 == r2 && id1 < id2)) swap *)
        let '(c, rc, pr, rp) := if (r2 <? r1) || ((r1 =? r2) && (i1 <? i2)) then (i2, r2, i1, r1) else (i1, r1, i2, r2) in
        let st3 := set_nth c (rc, pr) st2 in
        Some (if rc =? rp then set_nth pr (S rp, pr) st3 else st3)
    end
  end.

Definition uf_init (n : nat) : uf_state := map (fun i => (0, i)) (seq 0 n).

Fixpoint uf_run (fuel : nat) (st : uf_state) (pairs : list (nat * nat)) : option uf_state :=
  match pairs with
  | [] => Some st
  | (a, b) :: rest => match uunite fuel st a b with Some st' => uf_run fuel st' rest | None => None end
  end.
Definition uf_run_seq (n : nat) (pairs : list (nat * nat)) : option uf_state := uf_run (S n) (uf_init n) pairs.

(* r is the root reached from i along parent pointers *)
Inductive root_of (st : uf_state) : nat -> nat -> Prop :=
| RO_root : forall i, i < length st -> uparent st i = i -> root_of st i i
| RO_step : forall i r, i < length st -> uparent st i <> i -> root_of st (uparent st i) r -> root_of st i r.

Definition total (st : uf_state) : Prop := forall i, i < length st -> exists r, root_of st i r.
Definition same (st : uf_state) (a b : nat) : Prop := exists r, root_of st a r /\ root_of st b r.

(* the equivalence closure of the united pairs *)
Inductive uf_equiv (n : nat) (pairs : list (nat * nat)) : nat -> nat -> Prop :=
| EQ_refl : forall a, a < n -> uf_equiv n pairs a a
| EQ_pair : forall a b, In (a, b) pairs -> uf_equiv n pairs a b
| EQ_sym : forall a b, uf_equiv n pairs a b -> uf_equiv n pairs b a
| EQ_trans : forall a b c, uf_equiv n pairs a b -> uf_equiv n pairs b c -> uf_equiv n pairs a c.

Lemma root_of_fun : forall st i r, root_of st i r -> forall r', root_of st i r' -> r = r'.
Proof.
  intros st i r H. induction H as [i Hi Hp|i r Hi Hp H IH]; intros r' H'.
  - inversion H'; subst; auto. congruence.
  - inversion H'; subst; [congruence| auto].
Qed.

Lemma root_of_is_root : forall st i r, root_of st i r -> r < length st /\ uparent st r = r.
Proof. intros st i r H. induction H; auto. Qed.

Lemma root_of_lt : forall st i r, root_of st i r -> i < length st.
Proof. intros st i r H. destruct H; auto. Qed.

Lemma root_of_parent : forall st i x, root_of st i x -> uparent st i <> i -> root_of st (uparent st i) x.
Proof. intros st i x H Hn. inversion H; subst; [congruence| assumption]. Qed.

Lemma uparent_set : forall st b x i, b < length st ->
    uparent (set_nth b x st) i = if i =? b then snd x else uparent st i.
Proof. intros. unfold uparent. rewrite uget_set by auto. destruct (i =? b); reflexivity. Qed.
Lemma urank_set : forall st b x i, b < length st ->
    urank (set_nth b x st) i = if i =? b then fst x else urank st i.
Proof. intros. unfold urank. rewrite uget_set by auto. destruct (i =? b); reflexivity. Qed.

(* path halving keeps every root *)
Lemma halve_keeps_roots : forall st id r0 p,
    ord_inv st -> id < length st -> uget st id = (r0, p) -> p <> id -> uparent st p <> p ->
    forall i r, root_of st i r -> root_of (set_nth id (r0, uparent st p) st) i r.
Proof.
  intros st id r0 p Hinv Hid Hg Hpid Hnp i r H.
  set (np := uparent st p). set (st' := set_nth id (r0, np) st).
  assert (Hlen : length st' = length st) by (subst st'; apply length_set_nth; auto).
  assert (Hpar : uparent st id = p) by (unfold uparent; rewrite Hg; reflexivity).
  assert (Hrk : urank st id = r0) by (unfold urank; rewrite Hg; reflexivity).
  destruct (Hinv id Hid) as [Hplt Hk1]; [rewrite Hpar; auto|]. rewrite Hpar in Hplt, Hk1.
  destruct (Hinv p Hplt Hnp) as [Hnplt Hk2]. fold np in Hnplt, Hk2.
  assert (Hnpid : np <> id).
  { intros E. rewrite E in Hk2. pose proof (key_lt_trans _ _ _ _ _ _ Hk1 Hk2) as K. apply key_lt_irrefl in K. exact K. }
  induction H as [i Hi Hp|i r Hi Hp H IH].
  - assert (i <> id) by (intros ->; congruence).
    apply RO_root; [lia|]. subst st'. rewrite uparent_set by auto.
    destruct (i =? id) eqn:E; [apply Nat.eqb_eq in E; congruence| auto].
  - destruct (Nat.eq_dec i id) as [->|Hne].
    + rewrite Hpar in IH.
      assert (Hp' : uparent st' p = np).
      { subst st'. rewrite uparent_set by auto. destruct (p =? id) eqn:E; [apply Nat.eqb_eq in E; congruence| reflexivity]. }
      assert (Hroot_np : root_of st' np r).
      { inversion IH as [? ? Hpp|? ? ? Hpp Hsub]; subst.
        - rewrite Hp' in Hpp. unfold np in Hpp. congruence.
        - rewrite Hp' in Hsub. exact Hsub. }
      apply RO_step; [lia| |].
      * subst st'. rewrite uparent_set by auto. rewrite Nat.eqb_refl. cbn [snd]. auto.
      * subst st'. rewrite uparent_set by auto. rewrite Nat.eqb_refl. cbn [snd]. exact Hroot_np.
    + assert (Hpi : uparent st' i = uparent st i).
      { subst st'. rewrite uparent_set by auto. destruct (i =? id) eqn:E; [apply Nat.eqb_eq in E; congruence| reflexivity]. }
      apply RO_step; [lia| rewrite Hpi; auto| rewrite Hpi; exact IH].
Qed.

Lemma same_parents_keep_roots : forall st st', length st' = length st -> (forall i, uparent st' i = uparent st i) ->
    forall i r, root_of st i r -> root_of st' i r.
Proof.
  intros st st' HL HP i r H. induction H as [i Hi Hp|i r Hi Hp H IH].
  - apply RO_root; [lia| rewrite HP; auto].
  - apply RO_step; [lia| rewrite HP; auto| rewrite HP; auto].
Qed.

(* linking root c under root pr *)
Lemma link_roots : forall st c rc pr,
    c < length st -> pr < length st -> c <> pr -> uparent st c = c -> uparent st pr = pr ->
    forall i r, root_of st i r -> root_of (set_nth c (rc, pr) st) i (if r =? c then pr else r).
Proof.
  intros st c rc pr Hc Hpr Hne Hrc Hrp i r H.
  set (st' := set_nth c (rc, pr) st).
  assert (Hlen : length st' = length st) by (subst st'; apply length_set_nth; auto).
  assert (Hpr' : root_of st' pr pr).
  { apply RO_root; [lia|]. subst st'. rewrite uparent_set by auto.
    destruct (pr =? c) eqn:E; [apply Nat.eqb_eq in E; congruence| auto]. }
  induction H as [i Hi Hp|i r Hi Hp H IH].
  - destruct (i =? c) eqn:E.
    + apply Nat.eqb_eq in E. subst i. apply RO_step; [lia| |].
      * subst st'. rewrite uparent_set by auto. rewrite Nat.eqb_refl. cbn [snd]. auto.
      * subst st'. rewrite uparent_set by auto. rewrite Nat.eqb_refl. cbn [snd]. exact Hpr'.
    + apply RO_root; [lia|]. subst st'. rewrite uparent_set by auto. rewrite E. auto.
  - assert (i <> c) by (intros ->; congruence).
    assert (Hpi : uparent st' i = uparent st i).
    { subst st'. rewrite uparent_set by auto. destruct (i =? c) eqn:E; [apply Nat.eqb_eq in E; congruence| reflexivity]. }
    apply RO_step; [lia| rewrite Hpi; auto| rewrite Hpi; exact IH].
Qed.

(* findImpl: what it guarantees when it returns *)
Lemma ufind_spec : forall fuel st id st' r,
    ord_inv st -> id < length st -> (exists x, root_of st id x) ->
    ufind fuel st id = Some (st', r) ->
    length st' = length st /\ ord_inv st' /\
    (forall i x, root_of st i x -> root_of st' i x) /\ root_of st' id r /\
    (forall i, urank st' i = urank st i).
Proof.
  induction fuel as [|fu IH]; intros st id st' r Hinv Hid [x Hx] Hrun; [discriminate|].
  cbn [ufind] in Hrun. destruct (uget st id) as [r0 p] eqn:Hg.
  assert (Hpar : uparent st id = p) by (unfold uparent; rewrite Hg; reflexivity).
  destruct (p =? id) eqn:Ep.
  - apply Nat.eqb_eq in Ep. injection Hrun as <- <-.
    split; [reflexivity|]. split; [exact Hinv|]. split; [auto|]. split; [|auto].
    apply RO_root; auto. congruence.
  - apply Nat.eqb_neq in Ep.
    destruct (Hinv id Hid) as [Hplt Hk1]; [rewrite Hpar; auto|]. rewrite Hpar in Hplt, Hk1.
    (* x is also the root of p and of parent(p) *)
    assert (Hxp : root_of st p x).
    { rewrite <- Hpar. apply root_of_parent; auto. rewrite Hpar; auto. }
    set (np := uparent st p) in *.
    destruct (np =? p) eqn:Enp.
    + apply Nat.eqb_eq in Enp. rewrite Enp in Hrun.
      destruct (IH st p st' r Hinv Hplt (ex_intro _ x Hxp) Hrun) as (HL & HI & HK & HR & HRk).
      split; [exact HL|]. split; [exact HI|]. split; [exact HK|]. split; [|exact HRk].
      pose proof (HK _ _ Hx) as Hx'. pose proof (HK _ _ Hxp) as Hxp'.
      rewrite (root_of_fun _ _ _ HR _ Hxp'). exact Hx'.
    + apply Nat.eqb_neq in Enp.
      assert (Hnp : uparent st p <> p) by (fold np; auto).
      destruct (Hinv p Hplt Hnp) as [Hnplt Hk2]. fold np in Hnplt, Hk2.
      assert (Hxnp : root_of st np x).
      { apply root_of_parent; auto. }
      set (st1 := set_nth id (r0, np) st) in *.
      assert (Hinv1 : ord_inv st1).
      { apply (uf_step_preserves_order st); auto. apply StepHalve with (p := p); auto. }
      assert (HL1 : length st1 = length st) by (subst st1; apply length_set_nth; auto).
      assert (HK1 : forall i y, root_of st i y -> root_of st1 i y).
      { intros i y Hy. subst st1 np. apply halve_keeps_roots with (p := p); auto. }
      destruct (IH st1 np st' r Hinv1) as (HL & HI & HK & HR & HRk); auto; [lia| eexists; apply HK1; eauto|].
      split; [lia|]. split; [exact HI|]. split; [intros i y Hy; apply HK, HK1; exact Hy|]. split.
      * pose proof (HK _ _ (HK1 _ _ Hx)) as Hx'. pose proof (HK _ _ (HK1 _ _ Hxnp)) as Hxnp'.
        rewrite (root_of_fun _ _ _ HR _ Hxnp'). exact Hx'.
      * intros i. rewrite HRk. subst st1. rewrite urank_set by auto.
        destruct (i =? id) eqn:E; [apply Nat.eqb_eq in E; subst; cbn [fst]; unfold urank; rewrite Hg; reflexivity| reflexivity].
Qed.

Definition gmap (c pr r : nat) : nat := if r =? c then pr else r.

(* unite: every root is kept, except that the two operands' roots are merged *)
Lemma uunite_spec : forall fuel st a b st',
    ord_inv st -> total st -> a < length st -> b < length st ->
    uunite fuel st a b = Some st' ->
    length st' = length st /\ ord_inv st' /\
    exists ra rb c pr, root_of st a ra /\ root_of st b rb /\
      ((c = ra /\ pr = rb) \/ (c = rb /\ pr = ra)) /\
      forall i x, root_of st i x -> root_of st' i (gmap c pr x).
Proof.
  intros fuel st a b st' Hinv Htot Ha Hb Hrun. unfold uunite in Hrun.
  destruct (ufind fuel st a) as [[st1 i1]|] eqn:F1; [|discriminate].
  destruct (ufind_spec _ _ _ _ _ Hinv Ha (Htot a Ha) F1) as (L1 & I1 & K1 & R1 & Rk1).
  destruct (ufind fuel st1 b) as [[st2 i2]|] eqn:F2; [|discriminate].
  assert (Hb1 : b < length st1) by lia.
  destruct (Htot b Hb) as [xb Hxb].
  destruct (ufind_spec _ _ _ _ _ I1 Hb1 (ex_intro _ xb (K1 _ _ Hxb)) F2) as (L2 & I2 & K2 & R2 & Rk2).
  destruct (Htot a Ha) as [xa Hxa].
  (* the roots found are the roots in the original state *)
  assert (Ea : i1 = xa) by (apply (root_of_fun _ _ _ R1 _ (K1 _ _ Hxa))).
  assert (Eb : i2 = xb) by (apply (root_of_fun _ _ _ R2 _ (K2 _ _ (K1 _ _ Hxb)))).
  subst i1 i2.
  assert (Ra2 : root_of st2 a xa) by (apply K2; exact R1).
  destruct (root_of_is_root _ _ _ Ra2) as [Hxa_lt Hxa_root].
  destruct (root_of_is_root _ _ _ R2) as [Hxb_lt Hxb_root].
  destruct (xa =? xb) eqn:E.
  - apply Nat.eqb_eq in E. subst xb. injection Hrun as <-. split; [lia|]. split; auto.
    exists xa, xa, xa, xa. repeat split; auto.
    intros i x Hx. unfold gmap. destruct (x =? xa) eqn:E2; [apply Nat.eqb_eq in E2; subst x|]; apply K2, K1; auto.
  - apply Nat.eqb_neq in E.
    set (r1 := urank st2 xa) in *. set (r2 := urank st2 xb) in *.
    destruct ((r2 <? r1) || ((r1 =? r2) && (xa <? xb))) eqn:Sw.
    + (* child xb (rank r2) under xa (rank r1) *)
      assert (Hk : key_lt r2 xb r1 xa).
      { apply orb_true_iff in Sw. destruct Sw as [S|S]; [apply Nat.ltb_lt in S; left; auto|].
        apply andb_true_iff in S. destruct S as [S1 S2]. apply Nat.eqb_eq in S1. apply Nat.ltb_lt in S2. right. lia. }
      assert (Hg : uget st2 xb = (r2, xb)).
      { unfold uparent, urank in *. destruct (uget st2 xb) as [q1 q2]. cbn in *. subst r2. congruence. }
      set (st3 := set_nth xb (r2, xa) st2) in *.
      assert (I3 : ord_inv st3).
      { apply (uf_step_preserves_order st2); auto. apply StepLink; auto. }
      assert (L3 : length st3 = length st2) by (subst st3; apply length_set_nth; auto).
      assert (K3 : forall i x, root_of st i x -> root_of st3 i (gmap xb xa x)).
      { intros i x Hx. subst st3. apply link_roots; auto. }
      destruct (r2 =? r1) eqn:Er.
      * apply Nat.eqb_eq in Er. injection Hrun as <-.
        assert (Hg3 : uget st3 xa = (r1, xa)).
        { subst st3. rewrite uget_set by auto. destruct (xa =? xb) eqn:E3; [apply Nat.eqb_eq in E3; congruence|].
          unfold uparent, urank in *. destruct (uget st2 xa) as [q1 q2]. cbn in *. subst r1. congruence. }
        split; [rewrite length_set_nth by lia; lia|]. split.
        { apply (uf_step_preserves_order st3); auto. apply StepBump; auto. lia. }
        exists xa, xb, xb, xa. repeat split; auto.
        intros i x Hx. apply same_parents_keep_roots with (st := st3); auto.
        -- apply length_set_nth. lia.
        -- intros j. rewrite uparent_set by lia. destruct (j =? xa) eqn:E4; [apply Nat.eqb_eq in E4; subst; cbn [snd];
             unfold uparent; rewrite Hg3; reflexivity| reflexivity].
      * injection Hrun as <-. split; [lia|]. split; auto.
        exists xa, xb, xb, xa. repeat split; auto.
    + (* child xa under xb *)
      assert (Hk : key_lt r1 xa r2 xb).
      { apply orb_false_iff in Sw. destruct Sw as [S1 S2]. apply Nat.ltb_ge in S1.
        apply andb_false_iff in S2. destruct S2 as [S2|S2]; [apply Nat.eqb_neq in S2; left; lia|].
        apply Nat.ltb_ge in S2. destruct (Nat.eq_dec r1 r2); [right; lia| left; lia]. }
      assert (Hg : uget st2 xa = (r1, xa)).
      { unfold uparent, urank in *. destruct (uget st2 xa) as [q1 q2]. cbn in *. subst r1. congruence. }
      set (st3 := set_nth xa (r1, xb) st2) in *.
      assert (I3 : ord_inv st3).
      { apply (uf_step_preserves_order st2); auto. apply StepLink; auto. }
      assert (L3 : length st3 = length st2) by (subst st3; apply length_set_nth; auto).
      assert (K3 : forall i x, root_of st i x -> root_of st3 i (gmap xa xb x)).
      { intros i x Hx. subst st3. apply link_roots; auto. }
      destruct (r1 =? r2) eqn:Er.
      * apply Nat.eqb_eq in Er. injection Hrun as <-.
        assert (Hg3 : uget st3 xb = (r2, xb)).
        { subst st3. rewrite uget_set by auto. destruct (xb =? xa) eqn:E3; [apply Nat.eqb_eq in E3; congruence|].
          unfold uparent, urank in *. destruct (uget st2 xb) as [q1 q2]. cbn in *. subst r2. congruence. }
        split; [rewrite length_set_nth by lia; lia|]. split.
        { apply (uf_step_preserves_order st3); auto. apply StepBump; auto. lia. }
        exists xa, xb, xa, xb. repeat split; auto.
        intros i x Hx. apply same_parents_keep_roots with (st := st3); auto.
        -- apply length_set_nth. lia.
        -- intros j. rewrite uparent_set by lia. destruct (j =? xb) eqn:E4; [apply Nat.eqb_eq in E4; subst; cbn [snd];
             unfold uparent; rewrite Hg3; reflexivity| reflexivity].
      * injection Hrun as <-. split; [lia|]. split; auto.
        exists xa, xb, xa, xb. repeat split; auto.
Qed.

(* ------------------------------------------- final partition, sequential run *)
Lemma same_sym : forall st a b, same st a b -> same st b a.
Proof. intros st a b (r & H1 & H2). exists r; auto. Qed.
Lemma same_trans : forall st a b c, same st a b -> same st b c -> same st a c.
Proof.
  intros st a b c (r & H1 & H2) (r' & H3 & H4). rewrite (root_of_fun _ _ _ H3 _ H2) in H4. exists r; auto.
Qed.

Lemma uf_equiv_weaken : forall n p1 p2 a b, (forall x, In x p1 -> In x p2) -> uf_equiv n p1 a b -> uf_equiv n p2 a b.
Proof.
  intros n p1 p2 a b Hin H. induction H; [apply EQ_refl; auto| apply EQ_pair; auto| apply EQ_sym; auto| eapply EQ_trans; eauto].
Qed.

Definition valid (n : nat) (pr : nat * nat) : Prop := fst pr < n /\ snd pr < n.
Definition part_inv (n : nat) (st : uf_state) (done : list (nat * nat)) : Prop :=
  forall x y, x < n -> y < n -> (same st x y <-> uf_equiv n done x y).

Lemma unite_step_inv : forall n fuel st a b st' done,
    length st = n -> ord_inv st -> total st -> a < n -> b < n -> Forall (valid n) done ->
    part_inv n st done -> uunite fuel st a b = Some st' ->
    length st' = n /\ ord_inv st' /\ total st' /\ part_inv n st' (done ++ [(a, b)]).
Proof.
  intros n fuel st a b st' done HL Hinv Htot Ha Hb Hval HP Hrun.
  destruct (uunite_spec fuel st a b st' Hinv Htot) as (HL' & Hinv' & ra & rb & c & pr & Hra & Hrb & Hcp & HK); auto; try lia.
  assert (Htot' : total st').
  { intros i Hi. destruct (Htot i) as [r Hr]; [lia|]. exists (gmap c pr r). auto. }
  assert (Hab' : same st' a b).
  { assert (G : gmap c pr ra = pr /\ gmap c pr rb = pr).
    { unfold gmap. destruct Hcp as [[-> ->]|[-> ->]]; rewrite Nat.eqb_refl; split; auto;
        destruct (_ =? _) eqn:E; auto; apply Nat.eqb_eq in E; auto. }
    destruct G as [G1 G2]. exists pr. split; [rewrite <- G1| rewrite <- G2]; auto. }
  assert (Hkeep : forall x y, same st x y -> same st' x y).
  { intros x y (r & H1 & H2). exists (gmap c pr r). auto. }
  split; [lia|]. split; auto. split; auto.
  intros x y Hx Hy. split.
  - intros (r' & H1 & H2).
    destruct (Htot x) as [rx Hrx]; [lia|]. destruct (Htot y) as [ry Hry]; [lia|].
    pose proof (root_of_fun _ _ _ H1 _ (HK _ _ Hrx)) as E1. pose proof (root_of_fun _ _ _ H2 _ (HK _ _ Hry)) as E2.
    assert (Hd : forall u v, same st u v -> u < n -> v < n -> uf_equiv n (done ++ [(a, b)]) u v).
    { intros u v Huv Hu Hv. apply uf_equiv_weaken with (p1 := done); [intros; apply in_or_app; auto| apply HP; auto]. }
    assert (Hpair : uf_equiv n (done ++ [(a, b)]) a b) by (apply EQ_pair, in_or_app; right; left; reflexivity).
    unfold gmap in E1, E2.
    assert (Hcase : rx = ry \/ (rx = ra /\ ry = rb) \/ (rx = rb /\ ry = ra)).
    { destruct (rx =? c) eqn:C1; destruct (ry =? c) eqn:C2;
        rewrite ?Nat.eqb_eq, ?Nat.eqb_neq in *; subst; destruct Hcp as [[-> ->]|[-> ->]]; auto. }
    destruct Hcase as [->|[[-> ->]|[-> ->]]].
    + apply Hd; auto. exists ry; auto.
    + apply EQ_trans with a; [apply Hd; auto; exists ra; auto|].
      apply EQ_trans with b; [exact Hpair| apply Hd; auto; exists rb; auto].
    + apply EQ_trans with b; [apply Hd; auto; exists rb; auto|].
      apply EQ_trans with a; [apply EQ_sym; exact Hpair| apply Hd; auto; exists ra; auto].
  - intros H. clear Hx Hy. induction H as [u Hu|u v Hin|u v H IH|u v w H1 IH1 H2 IH2].
    + destruct (Htot' u) as [r Hr]; [lia|]. exists r; auto.
    + apply in_app_or in Hin. destruct Hin as [Hin|[Hin|[]]].
      * rewrite Forall_forall in Hval. destruct (Hval _ Hin) as [Hu Hv]. cbn in Hu, Hv.
        apply Hkeep. apply HP; auto. apply EQ_pair; auto.
      * injection Hin as <- <-. exact Hab'.
    + apply same_sym; auto.
    + eapply same_trans; eauto.
Qed.

Lemma uf_run_inv : forall n fuel rest st done st',
    length st = n -> ord_inv st -> total st -> Forall (valid n) done -> Forall (valid n) rest ->
    part_inv n st done -> uf_run fuel st rest = Some st' ->
    length st' = n /\ ord_inv st' /\ part_inv n st' (done ++ rest).
Proof.
  intros n fuel rest. induction rest as [|[a b] rest IH]; intros st done st' HL Hinv Htot Hvd Hvr HP Hrun.
  - cbn in Hrun. injection Hrun as <-. rewrite app_nil_r. auto.
  - cbn [uf_run] in Hrun. destruct (uunite fuel st a b) as [st1|] eqn:U; [|discriminate].
    inversion Hvr as [|? ? [Ha Hb] Hvr']; subst. cbn in Ha, Hb.
    destruct (unite_step_inv (length st) fuel st a b st1 done eq_refl Hinv Htot Ha Hb Hvd HP U) as (L1 & I1 & T1 & P1).
    replace (done ++ (a, b) :: rest) with ((done ++ [(a, b)]) ++ rest) by (rewrite <- app_assoc; reflexivity).
    apply (IH st1 (done ++ [(a, b)])); auto.
    apply Forall_app. split; auto. constructor; [split; auto| constructor].
Qed.

Lemma uf_init_facts : forall n, length (uf_init n) = n /\ total (uf_init n) /\ part_inv n (uf_init n) [].
Proof.
  intros n.
  assert (HL : length (uf_init n) = n) by (unfold uf_init; rewrite map_length, seq_length; reflexivity).
  assert (Hp : forall i, i < n -> uparent (uf_init n) i = i).
  { intros i Hi. unfold uparent, uget, uf_init.
    rewrite nth_indep with (d' := (fun i => (0, i)) 0) by (rewrite map_length, seq_length; lia).
    rewrite map_nth, seq_nth by lia. reflexivity. }
  split; auto. split.
  - intros i Hi. exists i. apply RO_root; auto. apply Hp. lia.
  - intros x y Hx Hy. split.
    + intros (r & H1 & H2).
      assert (forall i, i < n -> forall r, root_of (uf_init n) i r -> r = i).
      { intros i Hi r0 H. inversion H; subst; auto. rewrite Hp in *; auto; congruence. }
      rewrite (H x Hx r H1) in *. rewrite (H y Hy _ H2). apply EQ_refl; auto.
    + intros H.
      assert (E : x = y) by (clear Hx Hy; induction H; auto; [destruct H| congruence]).
      subst. exists y. split; apply RO_root; try lia; apply Hp; auto.
Qed.

(* sequential DisjointSets: whenever the run returns (fuel n+1 per find), the
   (rank, id) order holds and two elements have the same root exactly when they
   are related by the equivalence closure of the united pairs *)
Theorem uf_seq_partition : forall n pairs st,
    Forall (valid n) pairs -> uf_run_seq n pairs = Some st ->
    length st = n /\ ord_inv st /\
    forall a b, a < n -> b < n -> (same st a b <-> uf_equiv n pairs a b).
Proof.
  intros n pairs st Hv Hrun. unfold uf_run_seq in Hrun.
  destruct (uf_init_facts n) as (HL & HT & HP).
  apply (uf_run_inv n (S n) pairs (uf_init n) [] st); auto. apply ord_inv_init.
Qed.

(* ====================================================================
   src/hashtable.h  HashTableD::Insert / operator[] on the key array.
   keys_[s] = None is kOpen.  h K is H(key) & (Size-1); probe i of key K is
   slot (h K + i*step) mod m.  The only shared write to keys_ is the strong
   CAS kOpen -> key ([ht_claim]); a slot never changes again.  Values are
   written by the claiming Insert only and are not modelled. *)
Section HashTable.
  Variable m : nat.                  (* Size(), a power of two in the C++ *)
  Variable h : nat -> nat.
  Variable step : nat.
  Definition ht := list (option nat).
  Definition probe (K i : nat) : nat := (h K + i * step) mod m.
  Definition slot (t : ht) (s : nat) : option nat := nth s t None.

  (* every stored key sits at the first slot of its probe sequence that was not
     taken by another key *)
  Definition ht_inv (t : ht) : Prop :=
    length t = m /\
    forall s K, s < m -> slot t s = Some K ->
      exists j, probe K j = s /\ forall i, i < j -> exists K', slot t (probe K i) = Some K' /\ K' <> K.

  (* a successful CAS by any thread running Insert(K): it has seen probes 0..j-1
     occupied by other keys (slots never change once taken) and finds probe j open *)
  Inductive ht_claim (t : ht) : ht -> Prop :=
  | Claim : forall K j,
      probe K j < m -> slot t (probe K j) = None ->
      (forall i, i < j -> exists K', slot t (probe K i) = Some K' /\ K' <> K) ->
      ht_claim t (set_nth (probe K j) (Some K) t).

  Lemma slot_set : forall t b x s, b < length t -> slot (set_nth b x t) s = if s =? b then x else slot t s.
  Proof. intros. unfold slot. apply nth_set_nth; auto. Qed.

  Lemma ht_claim_preserves : forall t t', ht_inv t -> ht_claim t t' -> ht_inv t'.
  Proof.
    intros t t' [HL Hinv] Hc. destruct Hc as [K j Hlt Hopen Hprev].
    split; [rewrite length_set_nth; lia|].
    intros s K2 Hs Hk. rewrite slot_set in Hk by lia.
    destruct (s =? probe K j) eqn:E.
    - apply Nat.eqb_eq in E. injection Hk as <-. exists j. split; auto.
      intros i Hi. destruct (Hprev i Hi) as (K' & HK' & Hne). exists K'. split; auto.
      rewrite slot_set by lia. destruct (probe K i =? probe K j) eqn:E2; auto.
      apply Nat.eqb_eq in E2. rewrite E2 in HK'. congruence.
    - destruct (Hinv s K2 Hs Hk) as (j2 & Hp & Hprev2). exists j2. split; auto.
      intros i Hi. destruct (Hprev2 i Hi) as (K' & HK' & Hne). exists K'. split; auto.
      rewrite slot_set by lia. destruct (probe K2 i =? probe K j) eqn:E2; auto.
      apply Nat.eqb_eq in E2. rewrite E2 in HK'. congruence.
  Qed.

  (* each key is claimed by at most one slot *)
  Lemma ht_key_unique : forall t s1 s2 K, ht_inv t -> s1 < m -> s2 < m ->
      slot t s1 = Some K -> slot t s2 = Some K -> s1 = s2.
  Proof.
    intros t s1 s2 K [_ Hinv] H1 H2 K1 K2.
    destruct (Hinv s1 K H1 K1) as (j1 & P1 & Q1). destruct (Hinv s2 K H2 K2) as (j2 & P2 & Q2).
    destruct (Nat.lt_trichotomy j1 j2) as [L|[L|L]].
    - destruct (Q2 j1 L) as (K' & HK' & Hne). rewrite P1, K1 in HK'. congruence.
    - subst. congruence.
    - destruct (Q1 j2 L) as (K' & HK' & Hne). rewrite P2, K2 in HK'. congruence.
  Qed.

  (* operator[] : walk the probe sequence until the key or an open slot *)
  Fixpoint ht_find (fuel : nat) (t : ht) (K i : nat) : option nat :=
    match fuel with
    | O => None
    | S fu => match slot t (probe K i) with
              | None => Some (probe K i)
              | Some K' => if K' =? K then Some (probe K i) else ht_find fu t K (S i)
              end
    end.

  Lemma ht_find_present_aux : forall t K j, (forall i, i < j -> exists K', slot t (probe K i) = Some K' /\ K' <> K) ->
      slot t (probe K j) = Some K ->
      forall d i fuel, i + d = j -> d < fuel -> ht_find fuel t K i = Some (probe K j).
  Proof.
    intros t K j Hprev Hk. induction d as [|d IH]; intros i fuel Hij Hf; (destruct fuel as [|fu]; [lia|]); cbn [ht_find].
    - rewrite Nat.add_0_r in Hij. subst i. rewrite Hk, Nat.eqb_refl. reflexivity.
    - destruct (Hprev i) as (K' & HK' & Hne); [lia|]. rewrite HK'.
      destruct (K' =? K) eqn:E; [apply Nat.eqb_eq in E; congruence|]. apply IH; lia.
  Qed.

  (* a stored key is found, at its slot *)
  Lemma ht_find_present : forall t s K, ht_inv t -> s < m -> slot t s = Some K ->
      exists fuel, ht_find fuel t K 0 = Some s.
  Proof.
    intros t s K [HL Hinv] Hs Hk. destruct (Hinv s K Hs Hk) as (j & Hp & Hprev).
    exists (S j). rewrite <- Hp. apply (ht_find_present_aux t K j Hprev) with (d := j); try lia. rewrite Hp. exact Hk.
  Qed.

  (* Insert as one thread executes it (no CAS fails): used = used_ before the call *)
  Fixpoint ht_insert_loop (fuel : nat) (t : ht) (K i : nat) : option (ht * bool) :=
    match fuel with
    | O => None
    | S fu => match slot t (probe K i) with
              | None => Some (set_nth (probe K i) (Some K) t, true)      (* found == kOpen: claimed *)
              | Some K' => if K' =? K then Some (t, false) else ht_insert_loop fu t K (S i)
              end
    end.
  Definition ht_insert (fuel : nat) (t : ht) (used K : nat) : option (ht * nat) :=
    if m <? used * 2 then Some (t, used)         (* Full() *)
    else match ht_insert_loop fuel t K 0 with
         | Some (t', claimed) => Some (t', if claimed then S used else used)
         | None => None
         end.

  Lemma ht_insert_loop_spec : forall fuel t K i t' c, ht_inv t -> 0 < m ->
      (forall i', i' < i -> exists K', slot t (probe K i') = Some K' /\ K' <> K) ->
      ht_insert_loop fuel t K i = Some (t', c) ->
      ht_inv t' /\ exists s, s < m /\ slot t' s = Some K.
  Proof.
    induction fuel as [|fu IH]; intros t K i t' c Hinv Hm Hprev Hrun; [discriminate|].
    cbn [ht_insert_loop] in Hrun. pose proof Hinv as [HL _].
    assert (Hlt : probe K i < m) by (unfold probe; apply Nat.mod_upper_bound; lia).
    destruct (slot t (probe K i)) as [K'|] eqn:Hs.
    - destruct (K' =? K) eqn:E.
      + apply Nat.eqb_eq in E. subst K'. injection Hrun as <- <-. split; auto. eauto.
      + apply Nat.eqb_neq in E. apply (IH t K (S i) t' c); auto.
        intros i' Hi'. destruct (Nat.eq_dec i' i) as [->|]; [eauto| apply Hprev; lia].
    - injection Hrun as <- <-. split.
      + apply ht_claim_preserves with (t := t); auto. apply Claim; auto.
      + exists (probe K i). split; auto. rewrite slot_set by lia. rewrite Nat.eqb_refl. reflexivity.
  Qed.
End HashTable.

(* a sequence of Inserts by one thread, from the empty table *)
Fixpoint ht_run (m : nat) (h : nat -> nat) (step fuel : nat) (t : ht) (used : nat) (ks : list nat) : option (ht * nat) :=
  match ks with
  | [] => Some (t, used)
  | K :: r => match ht_insert m h step fuel t used K with
              | Some (t', u') => ht_run m h step fuel t' u' r
              | None => None
              end
  end.
