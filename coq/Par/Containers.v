(* src/disjoint_sets.h: atomic-step model of the lock-free union-find.
   State: one (rank, parent) word per element (mData[i] = rank << 32 | parent).
   Every write in the C++ is a compare-exchange on ONE word; a failed CAS
   changes nothing.  The three kinds of successful CAS are the constructors of
   [uf_step] below, for ANY thread at ANY time (so any interleaving of any
   number of threads is a sequence of such steps interleaved with reads).

   PARTIAL: proved here is the key safety invariant for every interleaving —
   parent pointers strictly increase in the (rank, then smaller id) order, so no
   step can close a cycle — under side conditions on the *current* state that
   the code establishes from possibly stale reads (justified informally by:
   ranks never decrease, a non-root's word only changes by path halving, which
   keeps its rank).  Not proved: that those side conditions follow from the
   thread-local reads (needs the rank-monotonicity history invariant), that the
   final partition is the equivalence closure of the united pairs, and the
   hash table.  Those are exercised with real threads by harness/c13_uf.cpp. *)
From Coq Require Import List Arith Bool Lia.
From MV Require Import Par.Sched Par.ScanModel.
Import ListNotations.

Definition uf_state := list (nat * nat).
Definition uget (st : uf_state) (i : nat) : nat * nat := nth i st (0, i).
Definition urank (st : uf_state) (i : nat) : nat := fst (uget st i).
Definition uparent (st : uf_state) (i : nat) : nat := snd (uget st i).

(* child (rc, c) is below parent (rp, p) *)
Definition key_lt (rc c rp p : nat) : Prop := rc < rp \/ (rc = rp /\ p < c).

Definition ord_inv (st : uf_state) : Prop :=
  forall i, i < length st -> uparent st i <> i ->
            uparent st i < length st /\ key_lt (urank st i) i (urank st (uparent st i)) (uparent st i).

Inductive uf_step (st : uf_state) : uf_state -> Prop :=
| StepLink : forall id1 id2 r1,
    (* unite: mData[id1].compare_exchange_strong((r1,id1), (r1,id2)) succeeded *)
    id1 < length st -> id2 < length st -> id1 <> id2 ->
    uget st id1 = (r1, id1) ->
    key_lt r1 id1 (urank st id2) id2 ->       (* r1 < r2 or r1 = r2 and id2 < id1 were read earlier; rank(id2) can only have grown *)
    uf_step st (set_nth id1 (r1, id2) st)
| StepHalve : forall id r p np,
    (* findImpl: mData[id].compare_exchange_weak((r,p), (r,np)) succeeded, np = an earlier parent(p) *)
    id < length st -> np < length st ->
    uget st id = (r, p) ->
    (np = p \/ key_lt (urank st p) p (urank st np) np) ->
    uf_step st (set_nth id (r, np) st)
| StepBump : forall id2 r2,
    (* unite: mData[id2].compare_exchange_strong((r2,id2), (r2+1,id2)) succeeded *)
    id2 < length st -> uget st id2 = (r2, id2) ->
    uf_step st (set_nth id2 (S r2, id2) st).

Lemma uget_set : forall st b x i, b < length st ->
    uget (set_nth b x st) i = if i =? b then x else uget st i.
Proof. intros. unfold uget. apply nth_set_nth; auto. Qed.

Lemma key_lt_trans : forall r1 a r2 b r3 c, key_lt r1 a r2 b -> key_lt r2 b r3 c -> key_lt r1 a r3 c.
Proof. unfold key_lt. intros. lia. Qed.

Lemma uf_step_preserves_order : forall st st', ord_inv st -> uf_step st st' -> ord_inv st'.
Proof.
  intros st st' Hinv Hstep. destruct Hstep as [id1 id2 r1 H1 H2 Hne Hg Hk | id r p np H1 H2 Hg Hk | id2 r2 H1 Hg];
    intros i Hi.
  all: rewrite length_set_nth in * by auto.
  all: unfold uparent, urank in *.
  all: rewrite uget_set by auto.
  - destruct (i =? id1) eqn:E.
    + apply Nat.eqb_eq in E. subst i. cbn [fst snd]. intros _. split; auto.
      rewrite uget_set by auto. destruct (id2 =? id1) eqn:E2; [apply Nat.eqb_eq in E2; lia|]. exact Hk.
    + intros Hp. destruct (Hinv i Hi Hp) as [Hl Hkk]. unfold uparent, urank in *. split; auto.
      rewrite uget_set by auto. destruct (snd (uget st i) =? id1) eqn:E2; auto.
      apply Nat.eqb_eq in E2. rewrite E2 in Hkk. rewrite Hg in Hkk. rewrite E2. cbn [fst snd] in *. exact Hkk.
  - destruct (i =? id) eqn:E.
    + apply Nat.eqb_eq in E. subst i. cbn [fst snd]. intros Hnp. split; auto.
      rewrite uget_set by auto.
      assert (Hr : fst (if np =? id then (r, np) else uget st np) = fst (uget st np)).
      { destruct (np =? id) eqn:E2; auto. apply Nat.eqb_eq in E2. lia. }
      rewrite Hr.
      destruct (Nat.eq_dec p id) as [->|Hpid].
      * destruct Hk as [->|Hk]; [lia|]. rewrite Hg in Hk. exact Hk.
      * assert (Hp : snd (uget st id) <> id) by (rewrite Hg; exact Hpid).
        destruct (Hinv id H1 Hp) as [_ Hkk]. unfold uparent, urank in Hkk. rewrite Hg in Hkk. cbn [fst snd] in Hkk.
        destruct Hk as [->|Hk]; [exact Hkk| eapply key_lt_trans; eauto].
    + intros Hp. destruct (Hinv i Hi Hp) as [Hl Hkk]. unfold uparent, urank in *. split; auto.
      rewrite uget_set by auto. destruct (snd (uget st i) =? id) eqn:E2; auto.
      apply Nat.eqb_eq in E2. rewrite E2 in Hkk. rewrite Hg in Hkk. rewrite E2. cbn [fst snd] in *. exact Hkk.
  - destruct (i =? id2) eqn:E.
    + apply Nat.eqb_eq in E. subst i. cbn [fst snd]. intros Hc. exfalso. apply Hc. reflexivity.
    + intros Hp. destruct (Hinv i Hi Hp) as [Hl Hkk]. unfold uparent, urank in *. split; auto.
      rewrite uget_set by auto. destruct (snd (uget st i) =? id2) eqn:E2; auto.
      apply Nat.eqb_eq in E2. rewrite E2 in Hkk. rewrite Hg in Hkk. cbn [fst snd] in *.
      unfold key_lt in *. rewrite E2. lia.
  Qed.

(* the initial state (every element its own root, rank 0) satisfies the invariant *)
Lemma ord_inv_init : forall n, ord_inv (map (fun i => (0, i)) (seq 0 n)).
Proof.
  intros n i Hi Hp. exfalso. apply Hp. unfold uparent, uget.
  rewrite map_length, seq_length in Hi.
  rewrite nth_indep with (d' := (fun i => (0, i)) 0) by (rewrite map_length, seq_length; lia).
  rewrite map_nth, seq_nth by lia. reflexivity.
Qed.

(* the order forbids 1- and 2-cycles directly, and any cycle by transitivity/irreflexivity *)
Lemma key_lt_irrefl : forall r a, ~ key_lt r a r a.
Proof. unfold key_lt. intros. lia. Qed.
